(* Proofs about the model of the joins (Window/Join.v): the hash join computes the nested-loop
   join up to the order of the rows; a window grouping feeding a join gives the same rows for
   every partitioning of its source. *)
From Coq Require Import List ZArith Bool Lia Permutation.
From IB Require Import Window.Tumble Window.Grouping Window.Join
     Proofs.WindowTumbleProofs Proofs.WindowGroupingProofs.
Import ListNotations.
Open Scope Z_scope.

(* ---------- generic list facts ---------- *)
Lemma flat_map_app_perm : forall A B (f g : A -> list B) (l : list A),
    Permutation (flat_map (fun x => f x ++ g x) l) (flat_map f l ++ flat_map g l).
Proof.
  intros A B f g l. induction l as [|x l IH]; [reflexivity|].
  cbn [flat_map]. rewrite IH. rewrite <- !app_assoc. apply Permutation_app_head.
  rewrite !app_assoc. apply Permutation_app_tail. apply Permutation_app_comm.
Qed.

Lemma flat_map_swap : forall A B C (f : A -> B -> list C) (la : list A) (lb : list B),
    Permutation (flat_map (fun a => flat_map (f a) lb) la)
                (flat_map (fun b => flat_map (fun a => f a b) la) lb).
Proof.
  intros A B C f la lb. induction la as [|a la IH].
  - cbn [flat_map]. induction lb as [|b lb IHb]; [reflexivity|]. cbn [flat_map app]. exact IHb.
  - cbn [flat_map]. rewrite IH. symmetry. apply flat_map_app_perm.
Qed.

Lemma flat_map_nil : forall A B (l : list A), flat_map (fun _ : A => @nil B) l = [].
Proof. intros A B l. induction l as [|x l IH]; [reflexivity|]. cbn [flat_map app]. exact IH. Qed.

Lemma flat_map_singleton : forall A B (f : A -> B) (l : list A),
    flat_map (fun x => [f x]) l = map f l.
Proof. intros A B f l. induction l as [|x l IH]; [reflexivity|]. cbn [flat_map map app]. rewrite IH. reflexivity. Qed.

Lemma flat_map_map_in : forall A B C (g : A -> B) (f : B -> list C) (l : list A),
    flat_map f (map g l) = flat_map (fun x => f (g x)) l.
Proof. intros A B C g f l. induction l as [|x l IH]; [reflexivity|]. cbn [map flat_map]. rewrite IH. reflexivity. Qed.

Lemma flat_map_filter : forall A B (p : A -> bool) (f : A -> list B) (l : list A),
    flat_map f (filter p l) = flat_map (fun x => if p x then f x else []) l.
Proof.
  intros A B p f l. induction l as [|x l IH]; [reflexivity|].
  cbn [filter flat_map]. destruct (p x); cbn [flat_map app]; rewrite IH; reflexivity.
Qed.

Lemma flat_map_ext_in : forall A B (f g : A -> list B) (l : list A),
    (forall x, In x l -> f x = g x) -> flat_map f l = flat_map g l.
Proof.
  intros A B f g l H. induction l as [|x l IH]; [reflexivity|].
  cbn [flat_map]. rewrite (H x (or_introl eq_refl)), IH; [reflexivity|].
  intros y Hy. apply H. right. exact Hy.
Qed.

Lemma existsb_perm : forall A (p : A -> bool) (l l' : list A),
    Permutation l l' -> existsb p l = existsb p l'.
Proof.
  intros A p l l' H. induction H as [|x l l' _ IH|x y l|l l' l'' _ IH1 _ IH2]; cbn [existsb].
  - reflexivity.
  - rewrite IH. reflexivity.
  - destruct (p x), (p y); reflexivity.
  - rewrite IH1. exact IH2.
Qed.

Section JoinProofs.
  Variables K V W : Type.
  Variable keqb : K -> K -> bool.
  Hypothesis keqb_spec : forall x y, reflect (x = y) (keqb x y).

  Notation jrow := (K * (option V * option W))%type.

  (* ---------- the specification: the nested-loop join ---------- *)
  Definition lefty (jk : jkind) : bool := match jk with JLeft | JFull => true | _ => false end.
  Definition righty (jk : jkind) : bool := match jk with JRight | JFull => true | _ => false end.

  (* the rows of one left row: one per right row with the same key; for the left-preserving
     kinds a (Some, None) row when there is none *)
  Definition left_rows (keep : bool) (r : list (K * W)) (kv : K * V) : list jrow :=
    match values_of keqb (fst kv) r with
    | [] => if keep then [(fst kv, (Some (snd kv), None))] else []
    | ws => map (fun w => (fst kv, (Some (snd kv), Some w))) ws
    end.
  (* a right row whose key does not occur on the left *)
  Definition right_unmatched (l : list (K * V)) (kw : K * W) : list jrow :=
    match values_of keqb (fst kw) l with
    | [] => [(fst kw, (None, Some (snd kw)))]
    | _ => []
    end.
  Definition join_spec (jk : jkind) (l : list (K * V)) (r : list (K * W)) : list jrow :=
    flat_map (left_rows (lefty jk) r) l
    ++ (if righty jk then flat_map (right_unmatched l) r else []).

  (* ---------- HashMap::get on a local table ---------- *)
  Lemma in_keys_fold_push : forall X k (p : list (K * X)) (m : list (K * list X)),
      In k (map fst (fold_left (fun m kv => push keqb (fst kv) (snd kv) m) p m)) ->
      In k (map fst m) \/ In k (map fst p).
  Proof.
    intros X k p. induction p as [|[k1 v1] p IH]; intros m H; [left; exact H|].
    cbn [fold_left fst snd] in H. destruct (IH _ H) as [H1|H1].
    - rewrite (push_is_extend K X keqb) in H1. apply (in_keys_extend K X keqb keqb_spec) in H1.
      destruct H1 as [->|H1]; [right; left; reflexivity|left; exact H1].
    - right; right; exact H1.
  Qed.

  Lemma hget_lookup : forall X k (m : list (K * list X)),
      hget keqb k m = None /\ ~ In k (map fst m)
      \/ exists vs, hget keqb k m = Some vs /\ In (k, vs) m /\ lookup keqb k m = vs.
  Proof.
    intros X k m. unfold hget, lookup.
    destruct (find (fun e => keqb (fst e) k) m) as [[k' vs]|] eqn:Hf.
    - right. exists vs. apply find_some in Hf. destruct Hf as [Hin Hk]. cbn [fst] in Hk.
      destruct (keqb_spec k' k) as [->|]; [|discriminate]. repeat split. exact Hin.
    - left. split; [reflexivity|]. intros Hin. apply in_map_iff in Hin.
      destruct Hin as [[k' vs] [Hk Hin]]. cbn [fst] in Hk. subst k'.
      pose proof (find_none _ _ Hf _ Hin) as Hn. cbn [fst] in Hn.
      destruct (keqb_spec k k); [discriminate|contradiction].
  Qed.

  Lemma hget_gbk_local : forall X k (l : list (K * X)),
      hget keqb k (gbk_local keqb l)
      = match values_of keqb k l with [] => None | vs => Some vs end.
  Proof.
    intros X k l. destruct (hget_lookup X k (gbk_local keqb l)) as [[Hn Hnot]|[vs [Hs [Hin Hl]]]].
    - rewrite Hn. rewrite <- (lookup_gbk_local K X keqb keqb_spec k l).
      rewrite (lookup_notin K X keqb keqb_spec k _ Hnot). reflexivity.
    - rewrite Hs. rewrite (lookup_gbk_local K X keqb keqb_spec) in Hl. rewrite Hl.
      assert (Hne : vs <> []).
      { rewrite <- Hl. apply (values_of_nonempty K X keqb keqb_spec).
        apply (in_map fst) in Hin. cbn [fst] in Hin. unfold gbk_local in Hin.
        destruct (in_keys_fold_push X k l [] Hin) as [[]|H]. exact H. }
      destruct vs; [contradiction|reflexivity].
  Qed.

  Lemma hget_in_nodup : forall X k vs (m : list (K * list X)),
      NoDup (map fst m) -> In (k, vs) m -> hget keqb k m = Some vs.
  Proof.
    intros X k vs m Hnd Hin. destruct (hget_lookup X k m) as [[_ Hnot]|[vs' [Hs [_ Hl]]]].
    - exfalso. apply Hnot. apply (in_map fst) in Hin. exact Hin.
    - rewrite Hs. rewrite (lookup_in_nodup K X keqb keqb_spec k vs m Hnd Hin) in Hl. subst. reflexivity.
  Qed.

  Lemma flatten_gbk_local : forall X (l : list (K * X)), Permutation (flatten (gbk_local keqb l)) l.
  Proof.
    intros X l. unfold gbk_local.
    pose proof (flatten_fold_push K X keqb keqb_spec l []) as H. cbn [flatten flat_map app] in H. exact H.
  Qed.

  Lemma flat_map_flatten : forall X Y (F : K * X -> list Y) (m : list (K * list X)),
      flat_map F (flatten m) = flat_map (fun e => flat_map (fun v => F (fst e, v)) (snd e)) m.
  Proof.
    intros X Y F m. unfold flatten. induction m as [|[k vs] m IH]; [reflexivity|].
    cbn [flat_map fst snd]. rewrite flat_map_app, IH, flat_map_map_in. reflexivity.
  Qed.

  Lemma values_of_in : forall X k (x : X) (l : list (K * X)), In x (values_of keqb k l) <-> In (k, x) l.
  Proof.
    intros X k x l. unfold values_of. rewrite in_map_iff. split.
    - intros [[k' x'] [Hx Hin]]. cbn [snd] in Hx. subst x'. apply filter_In in Hin.
      destruct Hin as [Hin Hk]. cbn [fst] in Hk. destruct (keqb_spec k' k) as [->|]; [exact Hin|discriminate].
    - intros Hin. exists (k, x). split; [reflexivity|]. apply filter_In. split; [exact Hin|].
      cbn [fst]. apply (keqb_refl K keqb keqb_spec).
  Qed.

  Lemma values_of_nil_iff : forall X k (l : list (K * X)), values_of keqb k l = [] <-> ~ In k (map fst l).
  Proof.
    intros X k l. split.
    - intros Hnil Hin. apply (values_of_nonempty K X keqb keqb_spec k l Hin Hnil).
    - apply (values_of_notin K X keqb keqb_spec).
  Qed.

  (* ---------- left-driven kinds: inner and left ---------- *)
  Lemma left_block : forall (keep : bool) (r : list (K * W)) k (vs : list V),
      match values_of keqb k r with
      | [] => if keep then @left_only K V W k vs else []
      | ws => pairs_vw k vs ws
      end = flat_map (fun v => left_rows keep r (k, v)) vs.
  Proof.
    intros keep r k vs. unfold left_rows. cbn [fst snd].
    destruct (values_of keqb k r) as [|w ws].
    - destruct keep.
      + unfold left_only. rewrite flat_map_singleton. reflexivity.
      + rewrite flat_map_nil. reflexivity.
    - reflexivity.
  Qed.

  Lemma left_driven_perm : forall (keep : bool) (l : list (K * V)) (r : list (K * W)),
      Permutation
        (flat_map (fun e => match hget keqb (fst e) (gbk_local keqb r) with
                            | Some ws => pairs_vw (fst e) (snd e) ws
                            | None => if keep then @left_only K V W (fst e) (snd e) else []
                            end) (gbk_local keqb l))
        (flat_map (left_rows keep r) l).
  Proof.
    intros keep l r.
    rewrite <- (Permutation_flat_map (left_rows keep r) (flatten_gbk_local V l)).
    rewrite flat_map_flatten.
    match goal with |- Permutation ?a ?b => assert (Heq : a = b); [|rewrite Heq; reflexivity] end.
    apply flat_map_ext. intros [k vs]. cbn [fst snd]. rewrite hget_gbk_local.
    rewrite <- left_block. destruct (values_of keqb k r); reflexivity.
  Qed.

  Lemma join_inner_perm : forall l r, Permutation (join_inner_exec keqb l r) (flat_map (left_rows false r) l).
  Proof. intros l r. unfold join_inner_exec. apply (left_driven_perm false). Qed.

  Lemma join_left_perm : forall l r, Permutation (join_left_exec keqb l r) (flat_map (left_rows true r) l).
  Proof. intros l r. unfold join_left_exec. apply (left_driven_perm true). Qed.

  (* ---------- right-driven: right ---------- *)
  Definition right_rows (l : list (K * V)) (kw : K * W) : list jrow :=
    match values_of keqb (fst kw) l with
    | [] => [(fst kw, (None, Some (snd kw)))]
    | vs => map (fun v => (fst kw, (Some v, Some (snd kw)))) vs
    end.

  Lemma right_block : forall (l : list (K * V)) k (ws : list W),
      match values_of keqb k l with
      | [] => right_only k ws
      | vs => pairs_wv k vs ws
      end = flat_map (fun w => right_rows l (k, w)) ws.
  Proof.
    intros l k ws. unfold right_rows. cbn [fst snd].
    destruct (values_of keqb k l) as [|v vs].
    - unfold right_only. rewrite flat_map_singleton. reflexivity.
    - reflexivity.
  Qed.

  Lemma join_right_perm0 : forall l r, Permutation (join_right_exec keqb l r) (flat_map (right_rows l) r).
  Proof.
    intros l r. unfold join_right_exec.
    rewrite <- (Permutation_flat_map (right_rows l) (flatten_gbk_local W r)).
    rewrite flat_map_flatten.
    match goal with |- Permutation ?a ?b => assert (Heq : a = b); [|rewrite Heq; reflexivity] end.
    apply flat_map_ext. intros [k ws]. cbn [fst snd]. rewrite hget_gbk_local.
    rewrite <- right_block. destruct (values_of keqb k l); reflexivity.
  Qed.

  (* matched rows, seen from either side, are the same double comprehension *)
  Definition cell (kv : K * V) (kw : K * W) : list jrow :=
    if keqb (fst kw) (fst kv) then [(fst kv, (Some (snd kv), Some (snd kw)))] else [].

  Lemma matched_left : forall (r : list (K * W)) (kv : K * V),
      map (fun w => (fst kv, (Some (snd kv), Some w))) (values_of keqb (fst kv) r) = flat_map (cell kv) r.
  Proof.
    intros r kv. unfold values_of, cell. induction r as [|[k w] r IH]; [reflexivity|].
    cbn [filter fst snd flat_map]. destruct (keqb k (fst kv)); cbn [map app]; rewrite IH; reflexivity.
  Qed.

  Lemma matched_right : forall (l : list (K * V)) (kw : K * W),
      map (fun v => (fst kw, (Some v, Some (snd kw)))) (values_of keqb (fst kw) l)
      = flat_map (fun kv => cell kv kw) l.
  Proof.
    intros l kw. unfold values_of, cell. induction l as [|[k v] l IH]; [reflexivity|].
    cbn [filter fst snd flat_map].
    destruct (keqb_spec k (fst kw)) as [->|Hne].
    - rewrite (keqb_refl K keqb keqb_spec). cbn [map app]. rewrite IH. reflexivity.
    - destruct (keqb_spec (fst kw) k) as [Heq|_]; [exfalso; apply Hne; symmetry; exact Heq|].
      cbn [app]. exact IH.
  Qed.

  Lemma left_rows_false : forall r kv, left_rows false r kv = flat_map (cell kv) r.
  Proof.
    intros r kv. rewrite <- matched_left. unfold left_rows.
    destruct (values_of keqb (fst kv) r); reflexivity.
  Qed.

  Lemma left_rows_true_split : forall (r : list (K * W)) kv,
      left_rows true r kv
      = left_rows false r kv ++ match values_of keqb (fst kv) r with
                                | [] => [(fst kv, (Some (snd kv), None))]
                                | _ => []
                                end.
  Proof.
    intros r kv. unfold left_rows. destruct (values_of keqb (fst kv) r); [reflexivity|].
    rewrite app_nil_r. reflexivity.
  Qed.

  Lemma right_rows_split : forall l kw,
      right_rows l kw = flat_map (fun kv => cell kv kw) l ++ right_unmatched l kw.
  Proof.
    intros l kw. rewrite <- matched_right. unfold right_rows, right_unmatched.
    destruct (values_of keqb (fst kw) l); [reflexivity|]. rewrite app_nil_r. reflexivity.
  Qed.

  Lemma matched_swap : forall (l : list (K * V)) (r : list (K * W)),
      Permutation (flat_map (fun kw => flat_map (fun kv => cell kv kw) l) r)
                  (flat_map (left_rows false r) l).
  Proof.
    intros l r. rewrite (flat_map_ext _ _ (left_rows_false r)).
    symmetry. apply (flat_map_swap _ _ _ cell).
  Qed.

  Lemma join_right_perm : forall l r,
      Permutation (join_right_exec keqb l r)
                  (flat_map (left_rows false r) l ++ flat_map (right_unmatched l) r).
  Proof.
    intros l r. rewrite join_right_perm0.
    rewrite (flat_map_ext _ _ (right_rows_split l)).
    rewrite flat_map_app_perm. apply Permutation_app_tail. apply matched_swap.
  Qed.

  (* ---------- full ---------- *)
  Lemma notin_keys_existsb : forall X k (m : list (K * list X)),
      existsb (fun k' => keqb k' k) (map fst m) = false <-> ~ In k (map fst m).
  Proof.
    intros X k m. split.
    - intros Hf Hin. assert (Ht : existsb (fun k' => keqb k' k) (map fst m) = true).
      { apply existsb_exists. exists k. split; [exact Hin|apply (keqb_refl K keqb keqb_spec)]. }
      congruence.
    - intros Hn. destruct (existsb (fun k' => keqb k' k) (map fst m)) eqn:He; [|reflexivity].
      apply existsb_exists in He. destruct He as [k' [Hin Hk]].
      destruct (keqb_spec k' k) as [->|]; [contradiction|discriminate].
  Qed.

  Lemma keys_gbk_local_iff : forall X k (l : list (K * X)),
      In k (map fst (gbk_local keqb l)) <-> In k (map fst l).
  Proof.
    intros X k l. split.
    - intros H. unfold gbk_local in H. destruct (in_keys_fold_push X k l [] H) as [[]|H1]. exact H1.
    - intros H. destruct (In_dec_keys K keqb keqb_spec k (map fst (gbk_local keqb l))) as [Hi|Hn]; [exact Hi|].
      exfalso. apply (values_of_nonempty K X keqb keqb_spec k l H).
      rewrite <- (lookup_gbk_local K X keqb keqb_spec). apply (lookup_notin K X keqb keqb_spec). exact Hn.
  Qed.

  Lemma join_full_perm : forall l r,
      Permutation (join_full_exec keqb l r)
                  (flat_map (left_rows true r) l ++ flat_map (right_unmatched l) r).
  Proof.
    intros l r. unfold join_full_exec, full_keys.
    set (lm := gbk_local keqb l). set (rm := gbk_local keqb r).
    rewrite flat_map_app. apply Permutation_app.
    - (* the keys of lm: the left join *)
      rewrite <- join_left_perm. unfold join_left_exec. fold lm rm.
      rewrite flat_map_map_in.
      match goal with |- Permutation ?a ?b => assert (Heq : a = b); [|rewrite Heq; reflexivity] end.
      apply flat_map_ext_in. intros [k vs] Hin. cbn [fst snd].
      rewrite (hget_in_nodup V k vs lm (nodup_keys_gbk_local K V keqb keqb_spec l) Hin).
      destruct (hget keqb k rm); reflexivity.
    - (* the keys of rm that are new *)
      rewrite <- (Permutation_flat_map (right_unmatched l) (flatten_gbk_local W r)). fold rm.
      rewrite flat_map_flatten, flat_map_filter, flat_map_map_in.
      match goal with |- Permutation ?a ?b => assert (Heq : a = b); [|rewrite Heq; reflexivity] end.
      apply flat_map_ext_in. intros [k ws] Hin. cbn [fst snd].
      unfold right_unmatched. cbn [fst snd].
      destruct (existsb (fun k' => keqb k' k) (map fst lm)) eqn:He; cbn [negb].
      + (* k is a key of lm: nothing here, and values_of k l is not empty *)
        assert (Hk : In k (map fst l)).
        { apply (keys_gbk_local_iff V). fold lm.
          destruct (In_dec_keys K keqb keqb_spec k (map fst lm)) as [Hi|Hn]; [exact Hi|].
          apply (notin_keys_existsb V) in Hn. congruence. }
        pose proof (values_of_nonempty K V keqb keqb_spec k l Hk) as Hne.
        destruct (values_of keqb k l); [contradiction|]. rewrite flat_map_nil. reflexivity.
      + apply (notin_keys_existsb V) in He.
        assert (Hl : hget keqb k lm = None).
        { destruct (hget_lookup V k lm) as [[Hn _]|[vs [_ [Hi _]]]]; [exact Hn|].
          exfalso. apply He. apply (in_map fst) in Hi. exact Hi. }
        rewrite Hl, (hget_in_nodup W k ws rm (nodup_keys_gbk_local K W keqb keqb_spec r) Hin).
        assert (Hv : values_of keqb k l = []).
        { apply values_of_nil_iff. intros Hk. apply He. apply (keys_gbk_local_iff V). exact Hk. }
        rewrite Hv. unfold right_only. rewrite flat_map_singleton. reflexivity.
  Qed.

  (* ---------- the hash join is the nested-loop join ---------- *)
  Theorem join_exec_spec : forall jk l r, Permutation (join_exec keqb jk l r) (join_spec jk l r).
  Proof.
    intros jk l r. unfold join_spec. destruct jk; cbn [join_exec lefty righty].
    - rewrite app_nil_r. apply join_inner_perm.
    - rewrite app_nil_r. apply join_left_perm.
    - apply join_right_perm.
    - apply join_full_perm.
  Qed.

  (* membership in the specification: which rows a join has *)
  Lemma in_left_rows : forall keep r kv (row : jrow),
      In row (left_rows keep r kv) <->
      (exists w, In (fst kv, w) r /\ row = (fst kv, (Some (snd kv), Some w)))
      \/ (keep = true /\ ~ In (fst kv) (map fst r) /\ row = (fst kv, (Some (snd kv), None))).
  Proof.
    intros keep r kv row. unfold left_rows.
    destruct (values_of keqb (fst kv) r) as [|w0 ws] eqn:Hv.
    - pose proof (proj1 (values_of_nil_iff W (fst kv) r) Hv) as Hn. split.
      + destruct keep; [|intros []]. intros [<-|[]]. right. repeat split. exact Hn.
      + intros [[w [Hin _]]|[-> [_ ->]]].
        * exfalso. apply Hn. apply (in_map fst) in Hin. exact Hin.
        * left. reflexivity.
    - rewrite <- Hv. rewrite in_map_iff. split.
      + intros [w [<- Hin]]. left. exists w. split; [apply values_of_in; exact Hin|reflexivity].
      + intros [[w [Hin ->]]|[_ [Hn _]]].
        * exists w. split; [reflexivity|apply values_of_in; exact Hin].
        * exfalso. apply (proj2 (values_of_nil_iff W (fst kv) r)) in Hn. rewrite Hn in Hv. discriminate.
  Qed.

  Lemma in_right_unmatched : forall l kw (row : jrow),
      In row (right_unmatched l kw) <-> ~ In (fst kw) (map fst l) /\ row = (fst kw, (None, Some (snd kw))).
  Proof.
    intros l kw row. unfold right_unmatched.
    destruct (values_of keqb (fst kw) l) as [|v0 vs] eqn:Hv.
    - pose proof (proj1 (values_of_nil_iff V (fst kw) l) Hv) as Hn. split.
      + intros [<-|[]]. split; [exact Hn|reflexivity].
      + intros [_ ->]. left. reflexivity.
    - split; [intros []|]. intros [Hn _].
      apply (proj2 (values_of_nil_iff V (fst kw) l)) in Hn. rewrite Hn in Hv. discriminate.
  Qed.

  Theorem join_rows_iff : forall jk (l : list (K * V)) (r : list (K * W)) k,
      (forall v w, In (k, (Some v, Some w)) (join_exec keqb jk l r) <-> In (k, v) l /\ In (k, w) r)
      /\ (forall v, In (k, (Some v, None)) (join_exec keqb jk l r)
                    <-> lefty jk = true /\ In (k, v) l /\ ~ In k (map fst r))
      /\ (forall w, In (k, (None, Some w)) (join_exec keqb jk l r)
                    <-> righty jk = true /\ In (k, w) r /\ ~ In k (map fst l))
      /\ ~ In (k, (None, None)) (join_exec keqb jk l r).
  Proof.
    intros jk l r k.
    assert (Hin : forall row, In row (join_exec keqb jk l r) <-> In row (join_spec jk l r)).
    { intros row. split; apply Permutation_in; [|symmetry]; apply join_exec_spec. }
    assert (Hspec : forall row, In row (join_spec jk l r) <->
               (exists kv, In kv l /\ In row (left_rows (lefty jk) r kv))
               \/ (righty jk = true /\ exists kw, In kw r /\ In row (right_unmatched l kw))).
    { intros row. unfold join_spec. rewrite in_app_iff, in_flat_map. destruct (righty jk).
      - rewrite in_flat_map. split; intros [H|H]; auto. destruct H as [_ H]. auto.
      - split; intros [H|H]; auto; [destruct H|destruct H; discriminate]. }
    split; [|split; [|split]].
    - intros v w. split.
      + intros H. apply Hin, Hspec in H. destruct H as [[kv [Hkv H]]|[_ [kw [_ H]]]].
        * apply in_left_rows in H. destruct H as [[w0 [Hw He]]|[_ [_ He]]]; [|discriminate].
          injection He as Hk Hv Hw0. subst w0. destruct kv as [k0 v0]. cbn [fst snd] in *. subst k0 v0.
          split; assumption.
        * apply in_right_unmatched in H. destruct H as [_ H]. discriminate.
      + intros [Hl Hr]. apply Hin, Hspec. left. exists (k, v). split; [exact Hl|].
        apply in_left_rows. left. exists w. split; [exact Hr|reflexivity].
    - intros v. split.
      + intros H. apply Hin, Hspec in H. destruct H as [[kv [Hkv H]]|[_ [kw [_ H]]]].
        * apply in_left_rows in H. destruct H as [[w0 [_ He]]|[Hk [Hn He]]]; [discriminate|].
          injection He as Hk0 Hv. destruct kv as [k0 v0]. cbn [fst snd] in *. subst k0 v0.
          repeat split; assumption.
        * apply in_right_unmatched in H. destruct H as [_ H]. discriminate.
      + intros [Hk [Hl Hn]]. apply Hin, Hspec. left. exists (k, v). split; [exact Hl|].
        apply in_left_rows. right. repeat split; assumption.
    - intros w. split.
      + intros H. apply Hin, Hspec in H. destruct H as [[kv [Hkv H]]|[Hr [kw [Hkw H]]]].
        * apply in_left_rows in H. destruct H as [[w0 [_ He]]|[_ [_ He]]]; discriminate.
        * apply in_right_unmatched in H. destruct H as [Hn He].
          injection He as Hk0 Hw. destruct kw as [k0 w0]. cbn [fst snd] in *. subst k0 w0.
          repeat split; assumption.
      + intros [Hr [Hw Hn]]. apply Hin, Hspec. right. split; [exact Hr|]. exists (k, w).
        split; [exact Hw|]. apply in_right_unmatched. split; [exact Hn|reflexivity].
    - intros H. apply Hin, Hspec in H. destruct H as [[kv [Hkv H]]|[_ [kw [_ H]]]].
      + apply in_left_rows in H. destruct H as [[w0 [_ He]]|[_ [_ He]]]; discriminate.
      + apply in_right_unmatched in H. destruct H as [_ H]. discriminate.
  Qed.
End JoinProofs.

Arguments join_spec {K V W}.

(* ---------- the grouped table is the same for every partitioning, up to entry order ---------- *)
Lemma gbk_perm_modes : forall K V (keqb : K -> K -> bool),
    (forall x y, reflect (x = y) (keqb x y)) ->
    forall ps qs : list (list (K * V)),
      concat ps = concat qs -> Permutation (gbk keqb ps) (gbk keqb qs).
Proof.
  intros K V keqb Hk ps qs Hc.
  assert (Hnd : forall xs : list (list (K * V)), NoDup (gbk keqb xs)).
  { intros xs. apply (NoDup_map_inv fst). apply nodup_keys_gbk. exact Hk. }
  assert (Hsub : forall xs ys : list (list (K * V)), concat xs = concat ys ->
                 forall x, In x (gbk keqb xs) -> In x (gbk keqb ys)).
  { intros xs ys Hxy [k vs] Hin.
    destruct (group_exact K V keqb Hk k vs xs Hin) as [Hvs _].
    assert (Hkeys : In k (map fst (gbk keqb ys))).
    { apply (keys_gbk_iff K V keqb Hk). rewrite <- Hxy. apply (keys_gbk_iff K V keqb Hk).
      apply (in_map fst) in Hin. exact Hin. }
    apply in_map_iff in Hkeys. destruct Hkeys as [[k' vs'] [Hk' Hin']]. cbn [fst] in Hk'. subst k'.
    destruct (group_exact K V keqb Hk k vs' ys Hin') as [Hvs' _].
    rewrite <- Hxy in Hvs'. rewrite Hvs. rewrite <- Hvs'. exact Hin'. }
  apply NoDup_Permutation; [apply Hnd|apply Hnd|].
  intros x. split; apply Hsub; [exact Hc|symmetry; exact Hc].
Qed.

Section JoinModes.
  Variables K V W : Type.
  Variable keqb : K -> K -> bool.
  Hypothesis keqb_spec : forall x y, reflect (x = y) (keqb x y).

  Lemma right_unmatched_perm : forall (l l' : list (K * V)) (kw : K * W),
      Permutation l l' -> right_unmatched K V W keqb l kw = right_unmatched K V W keqb l' kw.
  Proof.
    intros l l' kw Hp. unfold right_unmatched.
    assert (Hiff : values_of keqb (fst kw) l = [] <-> values_of keqb (fst kw) l' = []).
    { rewrite !(values_of_nil_iff K keqb keqb_spec). split; intros Hn Hin; apply Hn;
        [apply (Permutation_in _ (Permutation_map fst (Permutation_sym Hp)))
        |apply (Permutation_in _ (Permutation_map fst Hp))]; exact Hin. }
    destruct (values_of keqb (fst kw) l) as [|a b]; destruct (values_of keqb (fst kw) l') as [|a' b'];
      try reflexivity.
    - destruct Hiff as [H _]. discriminate (H eq_refl).
    - destruct Hiff as [_ H]. discriminate (H eq_refl).
  Qed.

  Lemma join_spec_perm_left : forall jk (l l' : list (K * V)) (r : list (K * W)),
      Permutation l l' -> Permutation (join_spec keqb jk l r) (join_spec keqb jk l' r).
  Proof.
    intros jk l l' r Hp. unfold join_spec. apply Permutation_app.
    - apply Permutation_flat_map. exact Hp.
    - destruct (righty jk); [|reflexivity].
      rewrite (flat_map_ext _ _ (fun kw => right_unmatched_perm l l' kw Hp)). reflexivity.
  Qed.

  Lemma values_of_short : forall X k (r : list (K * X)),
      NoDup (map fst r) -> (length (values_of keqb k r) <= 1)%nat.
  Proof.
    intros X k r. induction r as [|[k' x] r IH]; intros Hnd; [cbn; lia|].
    cbn [map fst] in Hnd. inversion Hnd as [|? ? Hnot Hnd']; subst.
    rewrite (values_of_cons K X keqb). destruct (keqb_spec k' k) as [->|_].
    - rewrite (values_of_notin K X keqb keqb_spec k r Hnot). cbn. lia.
    - apply IH. exact Hnd'.
  Qed.

  Lemma values_of_perm_nodup : forall X k (r r' : list (K * X)),
      NoDup (map fst r) -> Permutation r r' -> values_of keqb k r = values_of keqb k r'.
  Proof.
    intros X k r r' Hnd Hp.
    assert (Hnd' : NoDup (map fst r')) by (apply (Permutation_NoDup (Permutation_map fst Hp) Hnd)).
    pose proof (values_of_short X k r Hnd) as H1. pose proof (values_of_short X k r' Hnd') as H2.
    assert (Hiff : forall x, In x (values_of keqb k r) <-> In x (values_of keqb k r')).
    { intros x. rewrite !(values_of_in K keqb keqb_spec). split; apply Permutation_in; [|symmetry]; exact Hp. }
    destruct (values_of keqb k r) as [|a [|a2 t]]; destruct (values_of keqb k r') as [|b [|b2 t']];
      cbn [length] in H1, H2; try lia; try reflexivity.
    - destruct (proj2 (Hiff b) (or_introl eq_refl)).
    - destruct (proj1 (Hiff a) (or_introl eq_refl)).
    - destruct (proj1 (Hiff a) (or_introl eq_refl)) as [->|[]]. reflexivity.
  Qed.

  Lemma join_spec_perm_right : forall jk (l : list (K * V)) (r r' : list (K * W)),
      NoDup (map fst r) -> Permutation r r' ->
      Permutation (join_spec keqb jk l r) (join_spec keqb jk l r').
  Proof.
    intros jk l r r' Hnd Hp. unfold join_spec. apply Permutation_app.
    - assert (Heq : forall kv, left_rows K V W keqb (lefty jk) r kv = left_rows K V W keqb (lefty jk) r' kv).
      { intros kv. unfold left_rows. rewrite (values_of_perm_nodup W (fst kv) r r' Hnd Hp). reflexivity. }
      rewrite (flat_map_ext _ _ Heq). reflexivity.
    - destruct (righty jk); [|reflexivity]. apply Permutation_flat_map. exact Hp.
  Qed.
End JoinModes.

(* a grouped collection as one side of a join: the rows do not depend on how the source of the
   grouping was partitioned (sequential = one partition) *)
Theorem join_mode_independent : forall K V W (keqb : K -> K -> bool),
    (forall x y, reflect (x = y) (keqb x y)) ->
    forall (jk : jkind) (ps qs : list (list (K * V))),
      concat ps = concat qs ->
      (forall r : list (K * W),
          Permutation (join_exec keqb jk (gbk keqb ps) r) (join_exec keqb jk (gbk keqb qs) r))
      /\ (forall l : list (K * W),
             Permutation (join_exec keqb jk l (gbk keqb ps)) (join_exec keqb jk l (gbk keqb qs))).
Proof.
  intros K V W keqb Hk jk ps qs Hc.
  pose proof (gbk_perm_modes K V keqb Hk ps qs Hc) as Hp. split.
  - intros r. rewrite !(join_exec_spec K (list V) W keqb Hk).
    apply (join_spec_perm_left K (list V) W keqb Hk). exact Hp.
  - intros l. rewrite !(join_exec_spec K W (list V) keqb Hk).
    apply (join_spec_perm_right K W (list V) keqb Hk); [|exact Hp].
    apply nodup_keys_gbk. exact Hk.
Qed.

(* ---------- events.group_by_window(..).join_<jk>(&table) and the mirrored pipeline ---------- *)
Lemma window_groups_join_table_exact :
  forall V W (jk : jkind) (size off : Z) (ps : list (list (Z * V))) (table : list (list (window * W))),
    1 <= size ->
    (forall ev, In ev (concat ps) -> unrepresentable (fst ev) size off = false) ->
    exists groups out,
      group_by_window tumble_debug size off ps = Ok groups
      /\ exact_grouping window_eqb groups (map (spec_tag_unkeyed size off) (concat ps))
      /\ window_groups_join_table jk tumble_debug size off ps table = Ok out
      /\ Permutation out (join_spec window_eqb jk groups (concat table))
      /\ (forall w vs ow, In (w, (Some vs, ow)) out ->
                          vs = values_of window_eqb w (map (spec_tag_unkeyed size off) (concat ps))
                          /\ vs <> []).
Proof.
  intros V W jk size off ps table Hs Hrep.
  destruct (group_by_window_exact V size off ps Hs Hrep) as [groups [Hg He]].
  exists groups, (join_exec window_eqb jk groups (concat table)).
  split; [exact Hg|]. split; [exact He|]. split.
  - unfold window_groups_join_table, cogroup, sub_group_by_window. rewrite Hg. cbn [bind concat].
    rewrite app_nil_r. reflexivity.
  - split; [apply join_exec_spec; apply window_eqb_spec|].
    intros w vs ow Hin. destruct He as [_ [_ [_ [_ Hall]]]]. apply Hall.
    pose proof (join_rows_iff window (list V) W window_eqb window_eqb_spec jk groups (concat table) w)
      as [H1 [H2 _]].
    destruct ow as [x|].
    + apply H1 in Hin. destruct Hin as [Hin _]. exact Hin.
    + apply H2 in Hin. destruct Hin as [_ [Hin _]]. exact Hin.
Qed.

Lemma table_join_window_groups_exact :
  forall V W (jk : jkind) (size off : Z) (table : list (list (window * W))) (ps : list (list (Z * V))),
    1 <= size ->
    (forall ev, In ev (concat ps) -> unrepresentable (fst ev) size off = false) ->
    exists groups out,
      group_by_window tumble_debug size off ps = Ok groups
      /\ exact_grouping window_eqb groups (map (spec_tag_unkeyed size off) (concat ps))
      /\ table_join_window_groups jk tumble_debug size off table ps = Ok out
      /\ Permutation out (join_spec window_eqb jk (concat table) groups)
      /\ (forall w ox vs, In (w, (ox, Some vs)) out ->
                          vs = values_of window_eqb w (map (spec_tag_unkeyed size off) (concat ps))
                          /\ vs <> []).
Proof.
  intros V W jk size off table ps Hs Hrep.
  destruct (group_by_window_exact V size off ps Hs Hrep) as [groups [Hg He]].
  exists groups, (join_exec window_eqb jk (concat table) groups).
  split; [exact Hg|]. split; [exact He|]. split.
  - unfold table_join_window_groups, cogroup, sub_group_by_window. rewrite Hg. cbn [bind concat].
    rewrite app_nil_r. reflexivity.
  - split; [apply join_exec_spec; apply window_eqb_spec|].
    intros w ox vs Hin. destruct He as [_ [_ [_ [_ Hall]]]]. apply Hall.
    pose proof (join_rows_iff window W (list V) window_eqb window_eqb_spec jk (concat table) groups w)
      as [H1 [_ [H3 _]]].
    destruct ox as [x|].
    + apply H1 in Hin. destruct Hin as [_ Hin]. exact Hin.
    + apply H3 in Hin. destruct Hin as [_ [Hin _]]. exact Hin.
Qed.

(* both modes of the whole pipeline: a permutation of the sequential result *)
Lemma window_groups_join_table_modes :
  forall V W (jk : jkind) (size off : Z) (ps : list (list (Z * V))) (table : list (list (window * W))),
    1 <= size ->
    (forall ev, In ev (concat ps) -> unrepresentable (fst ev) size off = false) ->
    exists out_par out_seq,
      window_groups_join_table jk tumble_debug size off ps table = Ok out_par
      /\ window_groups_join_table jk tumble_debug size off [concat ps] [concat table] = Ok out_seq
      /\ Permutation out_par out_seq.
Proof.
  intros V W jk size off ps table Hs Hrep.
  assert (Hrep' : forall ev, In ev (concat [concat ps]) -> unrepresentable (fst ev) size off = false).
  { intros ev Hin. cbn [concat] in Hin. rewrite app_nil_r in Hin. apply Hrep. exact Hin. }
  unfold window_groups_join_table, cogroup, sub_group_by_window, group_by_window.
  rewrite (key_by_window_exact V size off ps Hs Hrep).
  rewrite (key_by_window_exact V size off [concat ps] Hs Hrep').
  cbn [bind]. eexists. eexists. split; [reflexivity|]. split; [reflexivity|].
  cbn [concat]. rewrite !app_nil_r.
  assert (Hc : concat (map (map (spec_tag_unkeyed size off)) ps)
               = concat (map (map (@spec_tag_unkeyed V size off)) [concat ps])).
  { cbn [map concat]. rewrite app_nil_r. symmetry. apply concat_map. }
  apply (proj1 (join_mode_independent window V W window_eqb window_eqb_spec jk _ _ Hc)).
Qed.

(* one event of the known class on the grouping side panics the join, whichever side it is on *)
Lemma window_join_panics :
  forall V W (jk : jkind) (size off : Z) (ps : list (list (Z * V))) (table : list (list (window * W))) ev,
    In ev (concat ps) -> (size <= 0 \/ unrepresentable (fst ev) size off = true) ->
    window_groups_join_table jk tumble_debug size off ps table = Panic
    /\ table_join_window_groups jk tumble_debug size off table ps = Panic.
Proof.
  intros V W jk size off ps table ev Hin Hbad.
  unfold window_groups_join_table, table_join_window_groups, cogroup, sub_group_by_window.
  rewrite (group_by_window_panics V size off ps ev Hin Hbad). split; reflexivity.
Qed.

(* ---------- the joins are parametric in the values: mapping the values of both sides and then
   joining is joining and then mapping the rows (used for joins over per-group digests) ---------- *)
Lemma map_flat_map : forall A B C (h : B -> C) (f : A -> list B) (l : list A),
    map h (flat_map f l) = flat_map (fun x => map h (f x)) l.
Proof.
  intros A B C h f l. induction l as [|x l IH]; [reflexivity|].
  cbn [flat_map]. rewrite map_app, IH. reflexivity.
Qed.

Section JoinMap.
  Variables K V V' W W' : Type.
  Variable keqb : K -> K -> bool.
  Variable f : V -> V'.
  Variable g : W -> W'.

  Definition map_values {X Y} (h : X -> Y) (l : list (K * X)) : list (K * Y) :=
    map (fun kv => (fst kv, h (snd kv))) l.
  Definition map_groups {X Y} (h : X -> Y) (m : list (K * list X)) : list (K * list Y) :=
    map (fun e => (fst e, map h (snd e))) m.
  Definition map_row (row : K * (option V * option W)) : K * (option V' * option W') :=
    (fst row, (option_map f (fst (snd row)), option_map g (snd (snd row)))).

  Lemma push_map_groups : forall X Y (h : X -> Y) k v (m : list (K * list X)),
      push keqb k (h v) (map_groups h m) = map_groups h (push keqb k v m).
  Proof.
    intros X Y h k v m. unfold map_groups. induction m as [|[k' vs] r IH]; [reflexivity|].
    cbn [map push fst snd]. destruct (keqb k' k).
    - cbn [map fst snd]. rewrite map_app. reflexivity.
    - cbn [map fst snd]. rewrite IH. reflexivity.
  Qed.

  Lemma gbk_local_map_values : forall X Y (h : X -> Y) (l : list (K * X)),
      gbk_local keqb (map_values h l) = map_groups h (gbk_local keqb l).
  Proof.
    intros X Y h l. unfold gbk_local.
    assert (Hgen : forall m, fold_left (fun m kv => push keqb (fst kv) (snd kv) m) (map_values h l) (map_groups h m)
                             = map_groups h (fold_left (fun m kv => push keqb (fst kv) (snd kv) m) l m)).
    { induction l as [|[k v] l IH]; intros m; [reflexivity|].
      cbn [map_values map fold_left fst snd]. rewrite push_map_groups. apply IH. }
    apply (Hgen []).
  Qed.

  Lemma hget_map_groups : forall X Y (h : X -> Y) k (m : list (K * list X)),
      hget keqb k (map_groups h m) = option_map (map h) (hget keqb k m).
  Proof.
    intros X Y h k m. unfold hget, map_groups. induction m as [|[k' vs] r IH]; [reflexivity|].
    cbn [map find fst snd]. destruct (keqb k' k); [reflexivity|exact IH].
  Qed.

  Lemma keys_map_groups : forall X Y (h : X -> Y) (m : list (K * list X)),
      map fst (map_groups h m) = map fst m.
  Proof. intros. unfold map_groups. rewrite map_map. reflexivity. Qed.

  Lemma flat_map_map_groups : forall X Y Z0 (h : X -> Y) (F : K * list Y -> list Z0) (m : list (K * list X)),
      flat_map F (map_groups h m) = flat_map (fun e => F (fst e, map h (snd e))) m.
  Proof. intros. unfold map_groups. apply flat_map_map_in. Qed.

  Lemma pairs_vw_map : forall k vs ws,
      pairs_vw k (map f vs) (map g ws) = map map_row (pairs_vw k vs ws).
  Proof.
    intros k vs ws. unfold pairs_vw. rewrite map_flat_map, flat_map_map_in.
    apply flat_map_ext. intros v. rewrite !map_map. reflexivity.
  Qed.
  Lemma pairs_wv_map : forall k vs ws,
      pairs_wv k (map f vs) (map g ws) = map map_row (pairs_wv k vs ws).
  Proof.
    intros k vs ws. unfold pairs_wv. rewrite map_flat_map, flat_map_map_in.
    apply flat_map_ext. intros w. rewrite !map_map. reflexivity.
  Qed.
  Lemma left_only_map : forall k vs, @left_only K V' W' k (map f vs) = map map_row (left_only k vs).
  Proof. intros. unfold left_only. rewrite !map_map. reflexivity. Qed.
  Lemma right_only_map : forall k ws, @right_only K V' W' k (map g ws) = map map_row (right_only k ws).
  Proof. intros. unfold right_only. rewrite !map_map. reflexivity. Qed.

  Theorem join_exec_map_values : forall jk (l : list (K * V)) (r : list (K * W)),
      join_exec keqb jk (map_values f l) (map_values g r) = map map_row (join_exec keqb jk l r).
  Proof.
    intros jk l r. destruct jk; cbn [join_exec].
    - unfold join_inner_exec. rewrite !gbk_local_map_values, map_flat_map.
      rewrite flat_map_map_groups. apply flat_map_ext. intros [k vs]. cbn [fst snd].
      rewrite hget_map_groups. destruct (hget keqb k (gbk_local keqb r)); cbn [option_map];
        [apply pairs_vw_map|reflexivity].
    - unfold join_left_exec. rewrite !gbk_local_map_values, map_flat_map.
      rewrite flat_map_map_groups. apply flat_map_ext. intros [k vs]. cbn [fst snd].
      rewrite hget_map_groups. destruct (hget keqb k (gbk_local keqb r)); cbn [option_map];
        [apply pairs_vw_map|apply left_only_map].
    - unfold join_right_exec. rewrite !gbk_local_map_values, map_flat_map.
      rewrite flat_map_map_groups. apply flat_map_ext. intros [k ws]. cbn [fst snd].
      rewrite hget_map_groups. destruct (hget keqb k (gbk_local keqb l)); cbn [option_map];
        [apply pairs_wv_map|apply right_only_map].
    - unfold join_full_exec, full_keys. rewrite !gbk_local_map_values, !keys_map_groups, map_flat_map.
      apply flat_map_ext. intros k. rewrite !hget_map_groups.
      destruct (hget keqb k (gbk_local keqb l)); destruct (hget keqb k (gbk_local keqb r)); cbn [option_map];
        [apply pairs_vw_map|apply left_only_map|apply right_only_map|reflexivity].
  Qed.
End JoinMap.

(* ---------- keyed grouping feeding a join; key_by_window feeding a join ---------- *)
Lemma key_window_groups_join_table_exact :
  forall K V W (keqb : K -> K -> bool),
    (forall x y, reflect (x = y) (keqb x y)) ->
    forall (jk : jkind) (size off : Z) (ps : list (list (K * (Z * V))))
           (table : list (list ((K * window) * W))),
      1 <= size ->
      (forall kv, In kv (concat ps) -> unrepresentable (fst (snd kv)) size off = false) ->
      exists groups out,
        group_by_key_and_window keqb tumble_debug size off ps = Ok groups
        /\ exact_grouping (kw_eqb keqb) groups (map (spec_tag_keyed size off) (concat ps))
        /\ key_window_groups_join_table keqb jk tumble_debug size off ps table = Ok out
        /\ Permutation out (join_spec (kw_eqb keqb) jk groups (concat table))
        /\ (forall kw vs ow, In (kw, (Some vs, ow)) out ->
                             vs = values_of (kw_eqb keqb) kw (map (spec_tag_keyed size off) (concat ps))
                             /\ vs <> []).
Proof.
  intros K V W keqb Hk jk size off ps table Hs Hrep.
  destruct (group_by_key_and_window_exact K V keqb Hk size off ps Hs Hrep) as [groups [Hg He]].
  pose proof (kw_eqb_spec K keqb Hk) as Hkw.
  exists groups, (join_exec (kw_eqb keqb) jk groups (concat table)).
  split; [exact Hg|]. split; [exact He|]. split.
  - unfold key_window_groups_join_table, cogroup, sub_group_by_key_and_window. rewrite Hg.
    cbn [bind concat]. rewrite app_nil_r. reflexivity.
  - split; [apply join_exec_spec; exact Hkw|].
    intros kw vs ow Hin. destruct He as [_ [_ [_ [_ Hall]]]]. apply Hall.
    pose proof (join_rows_iff (K * window) (list V) W (kw_eqb keqb) Hkw jk groups (concat table) kw)
      as [H1 [H2 _]].
    destruct ow as [x|].
    + apply H1 in Hin. destruct Hin as [Hin _]. exact Hin.
    + apply H2 in Hin. destruct Hin as [_ [Hin _]]. exact Hin.
Qed.

(* a stateless window transform feeding a join: the result does not depend on the partitioning
   at all (the very same list) *)
Lemma tagged_window_join_partition_free :
  forall V W (jk : jkind) (size off : Z) (ps : list (list (Z * V))) (table : list (list (window * W))),
    1 <= size ->
    (forall ev, In ev (concat ps) -> unrepresentable (fst ev) size off = false) ->
    tagged_window_join_table jk tumble_debug size off ps table
    = Ok (join_exec window_eqb jk (map (spec_tag_unkeyed size off) (concat ps)) (concat table)).
Proof.
  intros V W jk size off ps table Hs Hrep. unfold tagged_window_join_table, cogroup.
  rewrite (key_by_window_exact V size off ps Hs Hrep). cbn [bind].
  rewrite concat_map_map. reflexivity.
Qed.
