(* The unordered assertion for element types whose Eq is an equivalence coarser than identity
   (e.g. a type that compares one field only): it decides equality of the two collections as
   multisets UP TO that equivalence. *)
From Coq Require Import List Bool Arith Lia SetoidList SetoidPermutation RelationClasses.
From IB Require Import Testing.Assertions.
Import ListNotations.

Section UnorderedEquiv.
  Variable A : Type.
  Variable eqb : A -> A -> bool.
  Hypothesis eqb_refl : forall x, eqb x x = true.
  Hypothesis eqb_sym : forall x y, eqb x y = true -> eqb y x = true.
  Hypothesis eqb_trans : forall x y z, eqb x y = true -> eqb y z = true -> eqb x z = true.

  Definition eqA (x y : A) : Prop := eqb x y = true.

  Instance eqA_equiv : Equivalence eqA.
  Proof.
    split.
    - intros x. apply eqb_refl.
    - intros x y H. apply eqb_sym. exact H.
    - intros x y z H1 H2. eapply eqb_trans; eassumption.
  Qed.

  Lemma eqb_compat_r : forall x y z, eqb x y = true -> eqb z x = eqb z y.
  Proof.
    intros x y z Hxy. destruct (eqb z x) eqn:Hzx, (eqb z y) eqn:Hzy; try reflexivity.
    - rewrite (eqb_trans z x y Hzx Hxy) in Hzy. discriminate.
    - rewrite (eqb_trans z y x Hzy (eqb_sym x y Hxy)) in Hzx. discriminate.
  Qed.

  Lemma eqb_compat_l : forall x y z, eqb x y = true -> eqb x z = eqb y z.
  Proof.
    intros x y z Hxy. destruct (eqb x z) eqn:Hxz, (eqb y z) eqn:Hyz; try reflexivity.
    - rewrite (eqb_trans y x z (eqb_sym x y Hxy) Hxz) in Hyz. discriminate.
    - rewrite (eqb_trans x y z Hxy Hyz) in Hxz. discriminate.
  Qed.

  Lemma count_compat : forall x y l, eqb x y = true -> count eqb x l = count eqb y l.
  Proof.
    intros x y l Hxy. induction l as [|z l IH]; cbn [count]; [reflexivity|].
    rewrite (eqb_compat_l x y z Hxy), IH. reflexivity.
  Qed.

  Lemma count_app : forall x l1 l2, count eqb x (l1 ++ l2) = count eqb x l1 + count eqb x l2.
  Proof.
    intros x l1 l2. induction l1 as [|z l1 IH]; cbn [app count]; [reflexivity|]. rewrite IH. lia.
  Qed.

  Lemma count_zero : forall x l, existsb (eqb x) l = false -> count eqb x l = 0.
  Proof.
    intros x l. induction l as [|z l IH]; cbn [existsb count]; [reflexivity|].
    destruct (eqb x z); cbn [orb]; [discriminate|]. exact IH.
  Qed.

  Lemma count_pos_split : forall x l,
      count eqb x l > 0 -> exists l1 y l2, l = l1 ++ y :: l2 /\ eqb x y = true.
  Proof.
    intros x l. induction l as [|z l IH]; cbn [count]; [lia|].
    destruct (eqb x z) eqn:Hxz.
    - intros _. exists [], z, l. split; [reflexivity|exact Hxz].
    - intros H. destruct (IH H) as [l1 [y [l2 [Hl Hy]]]]. exists (z :: l1), y, l2.
      split; [rewrite Hl; reflexivity|exact Hy].
  Qed.

  Lemma counts_all_permA : forall a e,
      (forall x, count eqb x a = count eqb x e) -> PermutationA eqA a e.
  Proof.
    induction a as [|x a IH]; intros e H.
    - destruct e as [|y e]; [constructor|]. specialize (H y). cbn [count] in H.
      rewrite eqb_refl in H. lia.
    - assert (Hpos : count eqb x e > 0).
      { rewrite <- (H x). cbn [count]. rewrite eqb_refl. lia. }
      destruct (count_pos_split x e Hpos) as [e1 [y [e2 [He Hxy]]]]. subst e.
      assert (Hrest : forall z, count eqb z a = count eqb z (e1 ++ e2)).
      { intros z. specialize (H z). cbn [count] in H. rewrite count_app in H. cbn [count] in H.
        rewrite count_app. rewrite (eqb_compat_r x y z Hxy) in H. lia. }
      eapply permA_trans; [|apply (PermutationA_middle eqA_equiv)].
      constructor; [exact Hxy|]. apply IH. exact Hrest.
  Qed.

  Lemma permA_counts : forall a e, PermutationA eqA a e -> forall x, count eqb x a = count eqb x e.
  Proof.
    intros a e H x. induction H as [|y z l l' Hyz _ IH|y z l|l l' l'' _ IH1 _ IH2]; cbn [count].
    - reflexivity.
    - rewrite (eqb_compat_r y z x Hyz), IH. reflexivity.
    - lia.
    - congruence.
  Qed.

  Lemma counts_equal_all : forall a e,
      counts_equal eqb a e = true <-> forall x, count eqb x a = count eqb x e.
  Proof.
    intros a e. unfold counts_equal. rewrite forallb_forall. split.
    - intros H x. destruct (existsb (eqb x) (a ++ e)) eqn:Hex.
      + apply existsb_exists in Hex. destruct Hex as [y [Hy Hxy]].
        rewrite (count_compat x y a Hxy), (count_compat x y e Hxy). apply Nat.eqb_eq. apply H. exact Hy.
      + rewrite existsb_app in Hex. apply orb_false_iff in Hex. destruct Hex as [Ha He].
        rewrite (count_zero x a Ha), (count_zero x e He). reflexivity.
    - intros H x _. apply Nat.eqb_eq. apply H.
  Qed.

  Lemma permA_length : forall a e, PermutationA eqA a e -> length a = length e.
  Proof.
    intros a e H. induction H as [|y z l l' _ _ IH|y z l|l l' l'' _ IH1 _ IH2]; cbn [length];
      [reflexivity|rewrite IH; reflexivity|reflexivity|congruence].
  Qed.

  Lemma unordered_iff_equivalence : forall a e,
      assert_collections_unordered_equal eqb a e = true <-> PermutationA eqA a e.
  Proof.
    intros a e. unfold assert_collections_unordered_equal.
    rewrite andb_true_iff, Nat.eqb_eq, counts_equal_all. split.
    - intros [_ H]. apply counts_all_permA. exact H.
    - intros H. split; [apply permA_length; exact H|apply permA_counts; exact H].
  Qed.
End UnorderedEquiv.

(* the grouped assertion when the values' Eq is an equivalence coarser than identity *)
From IB Require Import Proofs.AssertionsProofs.
From Coq Require Import ZArith Permutation.

Section GroupedEquiv.
  Variable V : Type.
  Variable veqb : V -> V -> bool.
  Hypothesis veqb_refl : forall x, veqb x x = true.
  Hypothesis veqb_sym : forall x y, veqb x y = true -> veqb y x = true.
  Hypothesis veqb_trans : forall x y z, veqb x y = true -> veqb y z = true -> veqb x z = true.

  Definition group_eqA (x y : Z * list V) : Prop :=
    fst x = fst y /\ PermutationA (fun v w => veqb v w = true) (snd x) (snd y).

  Lemma counts_equal_permA : forall a e,
      counts_equal veqb a e = true <-> PermutationA (fun v w => veqb v w = true) a e.
  Proof.
    intros a e. rewrite (counts_equal_all V veqb veqb_sym veqb_trans). split.
    - apply (counts_all_permA V veqb veqb_refl veqb_sym veqb_trans).
    - apply (permA_counts V veqb veqb_sym veqb_trans).
  Qed.

  Lemma grouped_pairwise_iff_equiv : forall a e,
      length a = length e -> (grouped_pairwise veqb a e = true <-> Forall2 group_eqA a e).
  Proof.
    induction a as [|[ak av] a IH]; intros [|[ek ev] e] Hlen; cbn [length] in Hlen; try discriminate.
    - split; [constructor|reflexivity].
    - injection Hlen as Hlen. cbn [grouped_pairwise].
      rewrite !andb_true_iff, Z.eqb_eq, counts_equal_permA, (IH e Hlen). split.
      + intros [[Hk Hv] Hr]. constructor; [split; assumption|exact Hr].
      + intros H. inversion H as [|x y l l' [Hk Hv] Hr]; subst. cbn [fst snd] in *. auto.
  Qed.

  Lemma grouped_sound_equiv : forall a e,
      assert_grouped_kv_equal veqb a e = true ->
      exists e', Permutation e e' /\ Forall2 group_eqA a e'.
  Proof.
    intros a e H. unfold assert_grouped_kv_equal in H. apply andb_true_iff in H.
    destruct H as [Hlen Hp]. apply Nat.eqb_eq in Hlen. apply grouped_pairwise_iff_equiv in Hp; [|exact Hlen].
    destruct (Permutation_Forall2 (sort_by_key_perm _ a) Hp) as [e' [Hpe HF]].
    exists e'. split; [|exact HF].
    eapply Permutation_trans; [apply Permutation_sym, sort_by_key_perm|exact Hpe].
  Qed.
End GroupedEquiv.
