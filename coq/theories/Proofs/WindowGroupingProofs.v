(* Proofs about the model of group_by_key and of the window grouping helpers
   (Window/Grouping.v). *)
From Coq Require Import List ZArith Bool Lia Permutation.
From IB Require Import Window.Tumble Window.Grouping Proofs.WindowTumbleProofs.
Import ListNotations.
Open Scope Z_scope.

Section Gbk.
  Variables K V : Type.
  Variable keqb : K -> K -> bool.
  Hypothesis keqb_spec : forall x y, reflect (x = y) (keqb x y).

  Notation table := (list (K * list V)).
  Notation keys := (map (@fst K (list V))).
  Notation pushf := (fun (m : table) (kv : K * V) => push keqb (fst kv) (snd kv) m).
  Notation extf := (fun (a : table) (kvs : K * list V) => extend keqb (fst kvs) (snd kvs) a).

  Lemma keqb_refl : forall k, keqb k k = true.
  Proof. intros k. destruct (keqb_spec k k); [reflexivity|contradiction]. Qed.

  (* ----- lookup ----- *)
  Lemma lookup_cons : forall k0 k' (vs : list V) r,
      lookup keqb k0 ((k', vs) :: r) = if keqb k' k0 then vs else lookup keqb k0 r.
  Proof. intros. unfold lookup. cbn [find fst snd]. destruct (keqb k' k0); reflexivity. Qed.

  Lemma lookup_nil : forall k0, lookup keqb k0 (@nil (K * list V)) = [].
  Proof. reflexivity. Qed.

  Lemma lookup_notin : forall k0 (m : table), ~ In k0 (keys m) -> lookup keqb k0 m = [].
  Proof.
    intros k0 m. induction m as [|[k' vs] r IH]; intros Hn; [reflexivity|].
    rewrite lookup_cons. cbn [map fst In] in Hn.
    destruct (keqb_spec k' k0) as [->|_]; [exfalso; apply Hn; left; reflexivity|].
    apply IH. intros H. apply Hn. right. exact H.
  Qed.

  Lemma lookup_extend : forall k0 k vs (m : table),
      lookup keqb k0 (extend keqb k vs m)
      = if keqb k k0 then lookup keqb k0 m ++ vs else lookup keqb k0 m.
  Proof.
    intros k0 k vs m. induction m as [|[k' vs'] r IH].
    - cbn [extend]. rewrite lookup_cons, lookup_nil. destruct (keqb k k0); reflexivity.
    - cbn [extend]. destruct (keqb_spec k' k) as [->|Hne].
      + rewrite !lookup_cons. destruct (keqb k k0); reflexivity.
      + rewrite !lookup_cons, IH.
        destruct (keqb_spec k' k0) as [->|_]; [|reflexivity].
        destruct (keqb_spec k k0) as [->|_]; [contradiction|reflexivity].
  Qed.

  Lemma push_is_extend : forall k v (m : table), push keqb k v m = extend keqb k [v] m.
  Proof.
    intros k v m. induction m as [|[k' vs] r IH]; [reflexivity|].
    cbn [push extend]. rewrite IH. reflexivity.
  Qed.

  Lemma lookup_push : forall k0 k v (m : table),
      lookup keqb k0 (push keqb k v m)
      = if keqb k k0 then lookup keqb k0 m ++ [v] else lookup keqb k0 m.
  Proof. intros. rewrite push_is_extend. apply lookup_extend. Qed.

  Lemma values_of_cons : forall k0 k (v : V) l,
      values_of keqb k0 ((k, v) :: l)
      = if keqb k k0 then v :: values_of keqb k0 l else values_of keqb k0 l.
  Proof. intros. unfold values_of. cbn [filter fst]. destruct (keqb k k0); reflexivity. Qed.

  Lemma values_of_app : forall k0 (a b : list (K * V)),
      values_of keqb k0 (a ++ b) = values_of keqb k0 a ++ values_of keqb k0 b.
  Proof. intros. unfold values_of. rewrite filter_app, map_app. reflexivity. Qed.

  Lemma values_of_concat : forall k0 (ps : list (list (K * V))),
      values_of keqb k0 (concat ps) = concat (map (values_of keqb k0) ps).
  Proof.
    intros k0 ps. induction ps as [|p ps IH]; [reflexivity|].
    cbn [concat map]. rewrite values_of_app, IH. reflexivity.
  Qed.

  Lemma lookup_fold_push : forall k0 (p : list (K * V)) (m : table),
      lookup keqb k0 (fold_left pushf p m) = lookup keqb k0 m ++ values_of keqb k0 p.
  Proof.
    intros k0 p. induction p as [|[k v] p IH]; intros m.
    - cbn [fold_left]. unfold values_of. cbn [filter map]. rewrite app_nil_r. reflexivity.
    - cbn [fold_left fst snd]. rewrite IH, lookup_push, values_of_cons.
      destruct (keqb k k0); [rewrite <- app_assoc|]; reflexivity.
  Qed.

  Lemma lookup_gbk_local : forall k0 (p : list (K * V)), lookup keqb k0 (gbk_local keqb p) = values_of keqb k0 p.
  Proof. intros. unfold gbk_local. rewrite lookup_fold_push. reflexivity. Qed.

  (* ----- keys ----- *)
  Lemma in_keys_extend : forall x k vs (m : table),
      In x (keys (extend keqb k vs m)) <-> x = k \/ In x (keys m).
  Proof.
    intros x k vs m. induction m as [|[k' vs'] r IH].
    - cbn. intuition congruence.
    - cbn [extend]. destruct (keqb_spec k' k) as [->|Hne].
      + cbn [map fst In]. intuition congruence.
      + cbn [map fst In]. rewrite IH. intuition congruence.
  Qed.

  Lemma nodup_keys_extend : forall k vs (m : table),
      NoDup (keys m) -> NoDup (keys (extend keqb k vs m)).
  Proof.
    intros k vs m. induction m as [|[k' vs'] r IH]; intros Hnd.
    - cbn. constructor; [intros []|constructor].
    - cbn [extend]. cbn [map fst] in Hnd. inversion Hnd as [|? ? Hnotin Hnd']; subst.
      destruct (keqb_spec k' k) as [->|Hne].
      + cbn [map fst]. constructor; assumption.
      + cbn [map fst]. constructor.
        * rewrite in_keys_extend. intros [->|Hin]; [apply Hne; reflexivity|contradiction].
        * apply IH. assumption.
  Qed.

  Lemma nodup_keys_fold_push : forall (p : list (K * V)) (m : table),
      NoDup (keys m) -> NoDup (keys (fold_left pushf p m)).
  Proof.
    intros p. induction p as [|[k v] p IH]; intros m Hnd; [assumption|].
    cbn [fold_left fst snd]. apply IH. rewrite push_is_extend. apply nodup_keys_extend. assumption.
  Qed.

  Lemma nodup_keys_gbk_local : forall (p : list (K * V)), NoDup (keys (gbk_local keqb p)).
  Proof. intros. unfold gbk_local. apply nodup_keys_fold_push. constructor. Qed.

  Lemma nodup_keys_merge_one : forall (m acc : table),
      NoDup (keys acc) -> NoDup (keys (merge_one keqb acc m)).
  Proof.
    intros m. unfold merge_one. induction m as [|[k vs] m IH]; intros acc Hnd; [assumption|].
    cbn [fold_left fst snd]. apply IH. apply nodup_keys_extend. assumption.
  Qed.

  Lemma nodup_keys_fold_merge : forall (parts : list table) (acc : table),
      NoDup (keys acc) -> NoDup (keys (fold_left (merge_one keqb) parts acc)).
  Proof.
    intros parts. induction parts as [|m parts IH]; intros acc Hnd; [assumption|].
    cbn [fold_left]. apply IH. apply nodup_keys_merge_one. assumption.
  Qed.

  Lemma nodup_keys_gbk : forall (ps : list (list (K * V))), NoDup (keys (gbk keqb ps)).
  Proof. intros. unfold gbk, gbk_merge. apply nodup_keys_fold_merge. constructor. Qed.

  (* ----- lookup through the merge ----- *)
  Lemma lookup_merge_one : forall k0 (m acc : table),
      NoDup (keys m) ->
      lookup keqb k0 (merge_one keqb acc m) = lookup keqb k0 acc ++ lookup keqb k0 m.
  Proof.
    intros k0 m. unfold merge_one. induction m as [|[k vs] m IH]; intros acc Hnd.
    - cbn [fold_left]. rewrite lookup_nil, app_nil_r. reflexivity.
    - cbn [map fst] in Hnd. inversion Hnd as [|? ? Hnotin Hnd']; subst.
      cbn [fold_left fst snd]. rewrite (IH _ Hnd'), lookup_extend, lookup_cons.
      destruct (keqb_spec k k0) as [->|_]; [|reflexivity].
      rewrite (lookup_notin k0 m Hnotin), app_nil_r. reflexivity.
  Qed.

  Lemma lookup_fold_merge_locals : forall k0 (ps : list (list (K * V))) (acc : table),
      lookup keqb k0 (fold_left (merge_one keqb) (map (gbk_local keqb) ps) acc)
      = lookup keqb k0 acc ++ values_of keqb k0 (concat ps).
  Proof.
    intros k0 ps. induction ps as [|p ps IH]; intros acc.
    - cbn. unfold values_of. cbn. rewrite app_nil_r. reflexivity.
    - cbn [map fold_left concat]. rewrite IH, lookup_merge_one by apply nodup_keys_gbk_local.
      rewrite lookup_gbk_local, values_of_app, app_assoc. reflexivity.
  Qed.

  (* the central fact (DESIGN Appendix A): the group of k is exactly the values of k, in input
     order, whatever the partitioning *)
  Lemma lookup_gbk : forall k0 (ps : list (list (K * V))),
      lookup keqb k0 (gbk keqb ps) = values_of keqb k0 (concat ps).
  Proof. intros. unfold gbk, gbk_merge. rewrite lookup_fold_merge_locals. reflexivity. Qed.

  Lemma lookup_in_nodup : forall k vs (m : table),
      NoDup (keys m) -> In (k, vs) m -> lookup keqb k m = vs.
  Proof.
    intros k vs m. induction m as [|[k' vs'] r IH]; intros Hnd Hin; [destruct Hin|].
    cbn [map fst] in Hnd. inversion Hnd as [|? ? Hnotin Hnd']; subst.
    rewrite lookup_cons. destruct Hin as [Heq|Hin].
    - injection Heq as -> ->. rewrite keqb_refl. reflexivity.
    - destruct (keqb_spec k' k) as [->|_].
      + exfalso. apply Hnotin. apply (in_map fst) in Hin. exact Hin.
      + apply IH; assumption.
  Qed.

  Lemma values_of_nonempty : forall k (l : list (K * V)),
      In k (map fst l) -> values_of keqb k l <> [].
  Proof.
    intros k l. induction l as [|[k' v] l IH]; intros Hin; [destruct Hin|].
    rewrite values_of_cons. cbn [map fst In] in Hin.
    destruct (keqb_spec k' k) as [->|Hne]; [discriminate|].
    apply IH. destruct Hin as [Heq|Hin]; [contradiction|assumption].
  Qed.

  Lemma values_of_notin : forall k (l : list (K * V)),
      ~ In k (map fst l) -> values_of keqb k l = [].
  Proof.
    intros k l. induction l as [|[k' v] l IH]; intros Hn; [reflexivity|].
    rewrite values_of_cons. cbn [map fst In] in Hn.
    destruct (keqb_spec k' k) as [->|_]; [exfalso; apply Hn; left; reflexivity|].
    apply IH. intros H. apply Hn. right. exact H.
  Qed.

  Lemma In_dec_keys : forall k (l : list K), In k l \/ ~ In k l.
  Proof.
    intros k l. induction l as [|x l IH]; [right; intros []|].
    destruct (keqb_spec x k) as [->|Hne]; [left; left; reflexivity|].
    destruct IH as [H|H]; [left; right; exact H|right; intros [Heq|Hin]; contradiction].
  Qed.

  Lemma keys_gbk_iff : forall k (ps : list (list (K * V))),
      In k (keys (gbk keqb ps)) <-> In k (map fst (concat ps)).
  Proof.
    intros k ps. split; intros Hin.
    - destruct (In_dec_keys k (map fst (concat ps))) as [H|Hn]; [exact H|exfalso].
      (* k has a (possibly empty) group: show the group would have to be non-empty... we
         instead use that keys only come from pushes/extends *)
      revert Hin. unfold gbk, gbk_merge.
      assert (Hgen : forall (qs : list (list (K * V))) (acc : table),
                 In k (keys (fold_left (merge_one keqb) (map (gbk_local keqb) qs) acc)) ->
                 In k (keys acc) \/ In k (map fst (concat qs))).
      { intros qs. induction qs as [|q qs IHq]; intros acc H; [left; exact H|].
        cbn [map fold_left concat] in *. rewrite map_app, in_app_iff.
        destruct (IHq _ H) as [H1|H1]; [|right; right; exact H1].
        (* In k (keys (merge_one acc (gbk_local q))) *)
        assert (Hm : forall (m acc0 : table),
                   In k (keys (merge_one keqb acc0 m)) -> In k (keys acc0) \/ In k (keys m)).
        { intros m. unfold merge_one. induction m as [|[k1 vs1] m IHm]; intros acc0 H0;
            [left; exact H0|].
          cbn [fold_left fst snd] in H0. destruct (IHm _ H0) as [H2|H2].
          - apply in_keys_extend in H2. destruct H2 as [->|H2];
              [right; left; reflexivity|left; exact H2].
          - right; right; exact H2. }
        destruct (Hm _ _ H1) as [H2|H2]; [left; exact H2|right; left].
        (* keys of a local table come from the partition *)
        assert (Hl : forall (p : list (K * V)) (m0 : table),
                   In k (keys (fold_left pushf p m0)) -> In k (keys m0) \/ In k (map fst p)).
        { intros p. induction p as [|[k1 v1] p IHp]; intros m0 H0; [left; exact H0|].
          cbn [fold_left fst snd] in H0. destruct (IHp _ H0) as [H3|H3].
          - rewrite push_is_extend in H3. apply in_keys_extend in H3.
            destruct H3 as [->|H3]; [right; left; reflexivity|left; exact H3].
          - right; right; exact H3. }
        destruct (Hl _ _ H2) as [[]|H3]. exact H3. }
      intros H. destruct (Hgen ps [] H) as [[]|H1]. contradiction.
    - destruct (In_dec_keys k (keys (gbk keqb ps))) as [H|Hn]; [exact H|exfalso].
      apply (values_of_nonempty k (concat ps) Hin).
      rewrite <- lookup_gbk. apply lookup_notin. exact Hn.
  Qed.

  Lemma group_exact : forall k vs (ps : list (list (K * V))),
      In (k, vs) (gbk keqb ps) -> vs = values_of keqb k (concat ps) /\ vs <> [].
  Proof.
    intros k vs ps Hin.
    assert (Hl : lookup keqb k (gbk keqb ps) = vs)
      by (apply lookup_in_nodup; [apply nodup_keys_gbk|exact Hin]).
    rewrite lookup_gbk in Hl. split; [symmetry; exact Hl|].
    rewrite <- Hl. apply values_of_nonempty. apply keys_gbk_iff.
    apply (in_map fst) in Hin. exact Hin.
  Qed.

  (* ----- nothing lost, nothing duplicated ----- *)
  Lemma flatten_cons : forall k (vs : list V) (r : table),
      flatten ((k, vs) :: r) = map (pair k) vs ++ flatten r.
  Proof. reflexivity. Qed.

  Lemma flatten_extend : forall k vs (m : table),
      Permutation (flatten (extend keqb k vs m)) (flatten m ++ map (pair k) vs).
  Proof.
    intros k vs m. induction m as [|[k' vs'] r IH].
    - cbn [extend]. rewrite flatten_cons. cbn [flatten flat_map]. rewrite app_nil_r. reflexivity.
    - cbn [extend]. destruct (keqb_spec k' k) as [->|_].
      + rewrite !flatten_cons, map_app, <- !app_assoc.
        apply Permutation_app_head. apply Permutation_app_comm.
      + rewrite !flatten_cons, <- app_assoc. apply Permutation_app_head. exact IH.
  Qed.

  Lemma flatten_fold_push : forall (p : list (K * V)) (m : table),
      Permutation (flatten (fold_left pushf p m)) (flatten m ++ p).
  Proof.
    intros p. induction p as [|[k v] p IH]; intros m.
    - cbn [fold_left]. rewrite app_nil_r. reflexivity.
    - cbn [fold_left fst snd]. rewrite IH, push_is_extend, flatten_extend.
      cbn [map]. rewrite <- app_assoc. reflexivity.
  Qed.

  Lemma flatten_merge_one : forall (m acc : table),
      Permutation (flatten (merge_one keqb acc m)) (flatten acc ++ flatten m).
  Proof.
    intros m. unfold merge_one. induction m as [|[k vs] m IH]; intros acc.
    - cbn [fold_left]. cbn [flatten flat_map]. rewrite app_nil_r. reflexivity.
    - cbn [fold_left fst snd]. rewrite IH, flatten_extend, flatten_cons, <- app_assoc. reflexivity.
  Qed.

  Lemma flatten_fold_merge_locals : forall (ps : list (list (K * V))) (acc : table),
      Permutation (flatten (fold_left (merge_one keqb) (map (gbk_local keqb) ps) acc))
                  (flatten acc ++ concat ps).
  Proof.
    intros ps. induction ps as [|p ps IH]; intros acc.
    - cbn. rewrite app_nil_r. reflexivity.
    - cbn [map fold_left concat]. rewrite IH, flatten_merge_one.
      unfold gbk_local at 1. rewrite flatten_fold_push. cbn [flatten flat_map app].
      rewrite <- app_assoc. reflexivity.
  Qed.

  Lemma flatten_gbk : forall (ps : list (list (K * V))), Permutation (flatten (gbk keqb ps)) (concat ps).
  Proof. intros. unfold gbk, gbk_merge. rewrite flatten_fold_merge_locals. reflexivity. Qed.
End Gbk.

(* ---------- a `map` whose closure may panic ---------- *)
Lemma map_outcome_ok : forall A B (f : A -> outcome B) (g : A -> B) (l : list A),
    (forall x, In x l -> f x = Ok (g x)) -> map_outcome f l = Ok (map g l).
Proof.
  intros A B f g l. induction l as [|x l IH]; intros H; [reflexivity|].
  cbn [map_outcome map]. rewrite (H x (or_introl eq_refl)). cbn [bind].
  rewrite IH by (intros y Hy; apply H; right; exact Hy). reflexivity.
Qed.

Lemma map_outcome_panic : forall A B (f : A -> outcome B) (l : list A) x,
    In x l -> f x = Panic -> map_outcome f l = Panic.
Proof.
  intros A B f l x. induction l as [|y l IH]; intros Hin Hp; [destruct Hin|].
  cbn [map_outcome]. destruct Hin as [->|Hin].
  - rewrite Hp. reflexivity.
  - destruct (f y); [|reflexivity]. cbn [bind]. rewrite (IH Hin Hp). reflexivity.
Qed.

Lemma map_outcome2_ok : forall A B (f : A -> outcome B) (g : A -> B) (ps : list (list A)),
    (forall x, In x (concat ps) -> f x = Ok (g x)) ->
    map_outcome (map_outcome f) ps = Ok (map (map g) ps).
Proof.
  intros A B f g ps H. apply map_outcome_ok. intros p Hp. apply map_outcome_ok.
  intros x Hx. apply H. apply in_concat. exists p. split; assumption.
Qed.

Lemma map_outcome2_panic : forall A B (f : A -> outcome B) (ps : list (list A)) x,
    In x (concat ps) -> f x = Panic -> map_outcome (map_outcome f) ps = Panic.
Proof.
  intros A B f ps x Hin Hp. apply in_concat in Hin. destruct Hin as [p [Hp1 Hx]].
  apply (map_outcome_panic _ _ _ ps p Hp1). apply (map_outcome_panic _ _ f p x Hx Hp).
Qed.

(* ---------- windows as keys ---------- *)
Lemma window_eqb_spec : forall a b : window, reflect (a = b) (window_eqb a b).
Proof.
  intros [a1 a2] [b1 b2]. unfold window_eqb. cbn [fst snd].
  destruct (Z.eqb_spec a1 b1) as [->|H1]; destruct (Z.eqb_spec a2 b2) as [->|H2]; cbn [andb];
    constructor; congruence.
Qed.

Lemma kw_eqb_spec : forall K (keqb : K -> K -> bool),
    (forall x y, reflect (x = y) (keqb x y)) ->
    forall a b : K * window, reflect (a = b) (kw_eqb keqb a b).
Proof.
  intros K keqb Hk [a1 a2] [b1 b2]. unfold kw_eqb. cbn [fst snd].
  destruct (Hk a1 b1) as [->|H1]; destruct (window_eqb_spec a2 b2) as [->|H2]; cbn [andb];
    constructor; congruence.
Qed.

(* the window the specification assigns to a timestamp *)
Definition spec_window (size off ts : Z) : window :=
  (win_start ts size off, win_start ts size off + size).

Definition spec_tag_unkeyed {V} (size off : Z) (ev : Z * V) : window * V :=
  (spec_window size off (fst ev), snd ev).
Definition spec_tag_keyed {K V} (size off : Z) (kv : K * (Z * V)) : (K * window) * V :=
  ((fst kv, spec_window size off (fst (snd kv))), snd (snd kv)).

(* what "grouped exactly" means for a result `groups` of tagged data `tagged` *)
Definition exact_grouping {K V} (keqb : K -> K -> bool) (groups : list (K * list V))
           (tagged : list (K * V)) : Prop :=
  NoDup (map fst groups)
  /\ Permutation (flatten groups) tagged
  /\ (forall k, In k (map fst groups) <-> In k (map fst tagged))
  /\ (forall k, lookup keqb k groups = values_of keqb k tagged)
  /\ (forall k vs, In (k, vs) groups -> vs = values_of keqb k tagged /\ vs <> []).

Lemma gbk_exact : forall K V (keqb : K -> K -> bool),
    (forall x y, reflect (x = y) (keqb x y)) ->
    forall ps : list (list (K * V)), exact_grouping keqb (gbk keqb ps) (concat ps).
Proof.
  intros K V keqb Hk ps. unfold exact_grouping. repeat split.
  - apply nodup_keys_gbk; assumption.
  - apply flatten_gbk; assumption.
  - apply keys_gbk_iff; assumption.
  - apply keys_gbk_iff; assumption.
  - intros k. apply lookup_gbk; assumption.
  - apply (group_exact K V keqb Hk k vs ps H).
  - apply (group_exact K V keqb Hk k vs ps H).
Qed.

Lemma concat_map_map : forall A B (g : A -> B) (ps : list (list A)),
    concat (map (map g) ps) = map g (concat ps).
Proof. intros. symmetry. apply concat_map. Qed.

Section WindowGrouping.
  Variables K V : Type.
  Variable keqb : K -> K -> bool.
  Hypothesis keqb_spec : forall x y, reflect (x = y) (keqb x y).

  Lemma tag_unkeyed_ok : forall size off (ev : Z * V),
      1 <= size -> unrepresentable (fst ev) size off = false ->
      tag_unkeyed tumble_debug size off ev = Ok (spec_tag_unkeyed size off ev).
  Proof.
    intros size off ev Hs Hu. unfold tag_unkeyed.
    rewrite (tumble_total_outside_class _ _ _ Hs Hu). reflexivity.
  Qed.

  Lemma tag_keyed_ok : forall size off (kv : K * (Z * V)),
      1 <= size -> unrepresentable (fst (snd kv)) size off = false ->
      tag_keyed tumble_debug size off kv = Ok (spec_tag_keyed size off kv).
  Proof.
    intros size off kv Hs Hu. unfold tag_keyed.
    rewrite (tumble_total_outside_class _ _ _ Hs Hu). reflexivity.
  Qed.

  Lemma group_by_window_exact : forall size off (ps : list (list (Z * V))),
      1 <= size ->
      (forall ev, In ev (concat ps) -> unrepresentable (fst ev) size off = false) ->
      exists groups,
        group_by_window tumble_debug size off ps = Ok groups
        /\ exact_grouping window_eqb groups (map (spec_tag_unkeyed size off) (concat ps)).
  Proof.
    intros size off ps Hs Hrep.
    exists (gbk window_eqb (map (map (spec_tag_unkeyed size off)) ps)). split.
    - unfold group_by_window, key_by_window_unkeyed.
      rewrite (map_outcome2_ok _ _ _ (spec_tag_unkeyed size off)); [reflexivity|].
      intros ev Hin. apply tag_unkeyed_ok; [assumption|apply Hrep; assumption].
    - rewrite <- concat_map_map. apply gbk_exact. apply window_eqb_spec.
  Qed.

  Lemma group_by_key_and_window_exact : forall size off (ps : list (list (K * (Z * V)))),
      1 <= size ->
      (forall kv, In kv (concat ps) -> unrepresentable (fst (snd kv)) size off = false) ->
      exists groups,
        group_by_key_and_window keqb tumble_debug size off ps = Ok groups
        /\ exact_grouping (kw_eqb keqb) groups (map (spec_tag_keyed size off) (concat ps)).
  Proof.
    intros size off ps Hs Hrep.
    exists (gbk (kw_eqb keqb) (map (map (spec_tag_keyed size off)) ps)). split.
    - unfold group_by_key_and_window, key_by_window_keyed.
      rewrite (map_outcome2_ok _ _ _ (spec_tag_keyed size off)); [reflexivity|].
      intros kv Hin. apply tag_keyed_ok; [assumption|apply Hrep; assumption].
    - rewrite <- concat_map_map. apply gbk_exact. apply kw_eqb_spec. exact keqb_spec.
  Qed.

  Lemma key_by_window_exact : forall size off (ps : list (list (Z * V))),
      1 <= size ->
      (forall ev, In ev (concat ps) -> unrepresentable (fst ev) size off = false) ->
      key_by_window_unkeyed tumble_debug size off ps
      = Ok (map (map (spec_tag_unkeyed size off)) ps).
  Proof.
    intros size off ps Hs Hrep. unfold key_by_window_unkeyed.
    apply map_outcome2_ok. intros ev Hin. apply tag_unkeyed_ok; [assumption|apply Hrep; assumption].
  Qed.

  Lemma key_by_window_keyed_exact : forall size off (ps : list (list (K * (Z * V)))),
      1 <= size ->
      (forall kv, In kv (concat ps) -> unrepresentable (fst (snd kv)) size off = false) ->
      key_by_window_keyed tumble_debug size off ps
      = Ok (map (map (spec_tag_keyed size off)) ps).
  Proof.
    intros size off ps Hs Hrep. unfold key_by_window_keyed.
    apply map_outcome2_ok. intros kv Hin. apply tag_keyed_ok; [assumption|apply Hrep; assumption].
  Qed.

  (* the known class, lifted to runs: one unrepresentable event panics the whole collect *)
  Lemma group_by_window_panics : forall size off (ps : list (list (Z * V))) ev,
      In ev (concat ps) -> (size <= 0 \/ unrepresentable (fst ev) size off = true) ->
      group_by_window tumble_debug size off ps = Panic.
  Proof.
    intros size off ps ev Hin Hbad. unfold group_by_window, key_by_window_unkeyed.
    rewrite (map_outcome2_panic _ _ _ ps ev Hin); [reflexivity|].
    unfold tag_unkeyed. apply tumble_panics_iff in Hbad. rewrite Hbad. reflexivity.
  Qed.

  Lemma group_by_key_and_window_panics : forall size off (ps : list (list (K * (Z * V)))) kv,
      In kv (concat ps) -> (size <= 0 \/ unrepresentable (fst (snd kv)) size off = true) ->
      group_by_key_and_window keqb tumble_debug size off ps = Panic.
  Proof.
    intros size off ps kv Hin Hbad. unfold group_by_key_and_window, key_by_window_keyed.
    rewrite (map_outcome2_panic _ _ _ ps kv Hin); [reflexivity|].
    unfold tag_keyed. apply tumble_panics_iff in Hbad. rewrite Hbad. reflexivity.
  Qed.
End WindowGrouping.

(* both execution modes: the sequential run is `gbk [data]`, a parallel run `gbk ps` with
   concat ps = data; every group is the same list in both *)
Lemma gbk_mode_independent : forall K V (keqb : K -> K -> bool),
    (forall x y, reflect (x = y) (keqb x y)) ->
    forall (data : list (K * V)) (ps : list (list (K * V))),
      concat ps = data ->
      forall k, lookup keqb k (gbk keqb ps) = lookup keqb k (gbk keqb [data]).
Proof.
  intros K V keqb Hk data ps Hc k. rewrite !lookup_gbk by assumption.
  cbn [concat]. rewrite app_nil_r, Hc. reflexivity.
Qed.

(* ---------- Window's Eq / Ord / Hash agree on (start, end) ---------- *)
Lemma window_eq_iff_pair : forall a b : window, window_eqb a b = true <-> a = b.
Proof. intros a b. destruct (window_eqb_spec a b) as [H|H]; split; congruence. Qed.

Lemma window_cmp_eq_iff : forall a b : window, window_cmp a b = Eq <-> a = b.
Proof.
  intros [a1 a2] [b1 b2]. unfold window_cmp. cbn [fst snd]. split.
  - destruct (a1 ?= b1) eqn:H1; try discriminate. intros H2.
    apply Z.compare_eq in H1. apply Z.compare_eq in H2. congruence.
  - intros H. injection H as -> ->. rewrite !Z.compare_refl. reflexivity.
Qed.

Lemma window_cmp_antisym : forall a b : window, window_cmp b a = CompOpp (window_cmp a b).
Proof.
  intros [a1 a2] [b1 b2]. unfold window_cmp. cbn [fst snd].
  rewrite (Z.compare_antisym a1 b1), (Z.compare_antisym a2 b2).
  destruct (a1 ?= b1); reflexivity.
Qed.

Lemma window_hash_feed_iff : forall a b : window, window_hash_feed a = window_hash_feed b <-> a = b.
Proof.
  intros [a1 a2] [b1 b2]. unfold window_hash_feed. cbn [fst snd]. split; intros H.
  - injection H as -> ->. reflexivity.
  - injection H as -> ->. reflexivity.
Qed.

Lemma window_consistent : forall a b : window,
    (window_eqb a b = true <-> a = b)
    /\ (window_cmp a b = Eq <-> a = b)
    /\ window_partial_cmp a b = Some (window_cmp a b)
    /\ (window_hash_feed a = window_hash_feed b <-> a = b)
    /\ window_cmp b a = CompOpp (window_cmp a b).
Proof.
  intros a b. repeat split; try apply window_eq_iff_pair; try apply window_cmp_eq_iff;
    try apply window_hash_feed_iff; apply window_cmp_antisym.
Qed.

(* ---------- any tagging `map` followed by group_by_key; two window sizes in one grouping ---------- *)
Lemma group_by_tagged_exact : forall E K V (keqb : K -> K -> bool),
    (forall x y, reflect (x = y) (keqb x y)) ->
    forall (tagf : E -> outcome (K * V)) (g : E -> K * V) (ps : list (list E)),
      (forall e, In e (concat ps) -> tagf e = Ok (g e)) ->
      exists groups,
        group_by_tagged keqb tagf ps = Ok groups
        /\ exact_grouping keqb groups (map g (concat ps)).
Proof.
  intros E K V keqb Hk tagf g ps Hok. exists (gbk keqb (map (map g) ps)). split.
  - unfold group_by_tagged. rewrite (map_outcome2_ok _ _ tagf g ps Hok). reflexivity.
  - rewrite <- concat_map_map. apply gbk_exact. exact Hk.
Qed.

Definition spec_tag_mixed {V} (s1 s2 off : Z) (e : Z * (Z * V)) : window * V :=
  (spec_window (if fst e =? 0 then s1 else s2) off (fst (snd e)), snd (snd e)).

Lemma group_by_mixed_window_exact : forall V (s1 s2 off : Z) (ps : list (list (Z * (Z * V)))),
    1 <= s1 -> 1 <= s2 ->
    (forall e, In e (concat ps) ->
               unrepresentable (fst (snd e)) (if fst e =? 0 then s1 else s2) off = false) ->
    exists groups,
      group_by_mixed_window tumble_debug s1 s2 off ps = Ok groups
      /\ exact_grouping window_eqb groups (map (spec_tag_mixed s1 s2 off) (concat ps)).
Proof.
  intros V s1 s2 off ps H1 H2 Hrep. unfold group_by_mixed_window.
  apply group_by_tagged_exact; [apply window_eqb_spec|].
  intros e Hin. unfold tag_mixed, spec_tag_mixed.
  assert (Hs : 1 <= (if fst e =? 0 then s1 else s2)) by (destruct (fst e =? 0); assumption).
  rewrite (tumble_total_outside_class _ _ _ Hs (Hrep e Hin)). reflexivity.
Qed.
