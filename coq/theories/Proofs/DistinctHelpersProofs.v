(* The exact-distinct helpers return each distinct value once, and the approximate distinct count
   (global and per key) equals the NUMBER OF DISTINCT VALUES -- the number of rows of distinct() /
   distinct_per_key() -- while that number is below the sketch size, provided distinct values have
   distinct ranks (no 64-bit hash collision among the rows). *)
From Coq Require Import List Bool Arith Lia Permutation.
From IB Require Import Combiners.Lawful Combiners.Distinct Combiners.SketchPipe
                       Combiners.DistinctHelpers.
From IB Require Combiners.KMV.
From IB Require Import Proofs.CombinersDistinct Proofs.SketchPipeProofs Proofs.KMVProofs
                       Proofs.SketchInstances.
Import ListNotations.

Section DistinctHelpersProofs.
  Context {T K R : Type}.
  Variable veqb : T -> T -> bool.
  Hypothesis veqb_spec : forall x y, reflect (x = y) (veqb x y).
  Variable keqb : K -> K -> bool.
  Hypothesis keqb_eq : forall a b, keqb a b = true <-> a = b.
  Variables ltb eqb : R -> R -> bool.
  Hypothesis ltb_irrefl : forall a, ltb a a = false.
  Hypothesis ltb_trans : forall a b c, ltb a b = true -> ltb b c = true -> ltb a c = true.
  Hypothesis ltb_total : forall a b, ltb a b = false -> ltb b a = false -> a = b.
  Hypothesis eqb_eq : forall a b, eqb a b = true <-> a = b.

  Theorem distinct_rows_spec : forall parts rows,
    NoDup (distinct_rows veqb parts rows) /\
    forall x, In x (distinct_rows veqb parts rows) <-> In x rows.
  Proof.
    intros parts rows.
    exact (combine_globally_spec _ _ _ (distinct_set_lawful veqb veqb_spec) false 0 parts rows).
  Qed.

  Theorem distinct_per_key_rows_spec : forall key parts rows,
    NoDup (distinct_per_key_rows veqb keqb key parts rows) /\
    forall x, In x (distinct_per_key_rows veqb keqb key parts rows) <-> In x (mine keqb key rows).
  Proof.
    intros key parts rows. unfold distinct_per_key_rows.
    pose proof (combine_values_spec _ _ _ (distinct_set_lawful veqb veqb_spec) keqb keqb_eq
                  key parts rows) as H.
    destruct (combine_values (distinct_set_combiner veqb) keqb key parts rows) as [vs|].
    - destruct H as [_ H]. exact H.
    - split; [constructor|]. intro x. split; [intros []|]. intro Hx. exfalso. apply H.
      apply (mine_nonempty_iff keqb keqb_eq). intro E. rewrite E in Hx. destruct Hx.
  Qed.

  (* the number of distinct ranks = the number of distinct values, when the rank function does not
     collide on the values *)
  Variable rank : T -> R.

  Lemma map_rank_nodup : forall s : list T,
    (forall x y, In x s -> In y s -> rank x = rank y -> x = y) -> NoDup s -> NoDup (map rank s).
  Proof.
    induction s as [|a s IH]; intros Hinj Hnd; cbn [map]; [constructor|].
    inversion Hnd as [|? ? Ha Hs]; subst. constructor.
    - intro Hin. apply in_map_iff in Hin. destruct Hin as (b & Eb & Hb).
      assert (b = a) by (apply Hinj; [right; exact Hb | left; reflexivity | exact Eb]).
      subst b. contradiction.
    - apply IH; [|exact Hs]. intros x y Hx Hy. apply Hinj; right; assumption.
  Qed.

  Lemma distinct_ranks_length : forall (rows s : list T),
    (forall x y, In x rows -> In y rows -> rank x = rank y -> x = y) ->
    NoDup s -> (forall x, In x s <-> In x rows) ->
    length (KMV.usort ltb eqb (map rank rows)) = length s.
  Proof.
    intros rows s Hinj Hnd Hin. rewrite <- (map_length rank s).
    apply Permutation_length. apply NoDup_Permutation.
    - apply (sorted_nodup ltb ltb_irrefl). apply (usort_sorted ltb eqb ltb_trans ltb_total eqb_eq).
    - apply map_rank_nodup; [|exact Hnd].
      intros x y Hx Hy. apply Hinj; apply Hin; assumption.
    - intro r. rewrite (usort_in ltb eqb eqb_eq), !in_map_iff.
      split; intros (x & E & Hx); exists x; (split; [exact E | apply Hin; exact Hx]).
  Qed.

  (* approx_distinct_count(k) = the number of rows of distinct(), below the sketch size *)
  Theorem adc_counts_distinct_rows : forall k parts parts' rows,
    (forall x y, In x rows -> In y rows -> rank x = rank y -> x = y) ->
    length (distinct_rows veqb parts' rows) < Nat.max k 4 ->
    approx_distinct_count ltb eqb k parts (map rank rows)
    = KMV.KCount (length (distinct_rows veqb parts' rows)).
  Proof.
    intros k parts parts' rows Hinj Hlt.
    destruct (distinct_rows_spec parts' rows) as [Hnd Hin].
    pose proof (distinct_ranks_length rows _ Hinj Hnd Hin) as E.
    rewrite (adc_spec ltb eqb ltb_irrefl ltb_trans ltb_total eqb_eq). unfold KMV.kmv_spec.
    rewrite E. apply Nat.ltb_lt in Hlt. rewrite Hlt. reflexivity.
  Qed.

  Lemma mine_map_rank : forall key (rows : list (K * T)),
    mine keqb key (map (fun kv => (fst kv, rank (snd kv))) rows) = map rank (mine keqb key rows).
  Proof.
    intros key rows. unfold mine. induction rows as [|[k v] rows IH]; cbn [map filter fst snd]; [reflexivity|].
    destruct (keqb k key); cbn [map snd]; rewrite IH; reflexivity.
  Qed.

  (* approx_distinct_count_per_key(k) = the number of rows of distinct_per_key() for that key *)
  Theorem adck_counts_distinct_rows : forall k key parts parts' rows,
    In key (map fst rows) ->
    (forall x y, In x (mine keqb key rows) -> In y (mine keqb key rows) -> rank x = rank y -> x = y) ->
    length (distinct_per_key_rows veqb keqb key parts' rows) < Nat.max k 4 ->
    approx_distinct_count_per_key ltb eqb keqb k key parts
      (map (fun kv => (fst kv, rank (snd kv))) rows)
    = Some (KMV.KCount (length (distinct_per_key_rows veqb keqb key parts' rows))).
  Proof.
    intros k key parts parts' rows Hkey Hinj Hlt.
    destruct (distinct_per_key_rows_spec key parts' rows) as [Hnd Hin].
    pose proof (distinct_ranks_length (mine keqb key rows) _ Hinj Hnd Hin) as E.
    rewrite (adck_exact_below_k ltb eqb keqb ltb_irrefl ltb_trans ltb_total eqb_eq keqb_eq).
    - rewrite mine_map_rank, E. reflexivity.
    - rewrite map_map. cbn [fst]. exact Hkey.
    - rewrite mine_map_rank, E. exact Hlt.
  Qed.
End DistinctHelpersProofs.
