(* Proofs about the model of the cloud operation helpers (Cloud/Ops.v): chunking, batch,
   per-item batch, pagination. *)
From Coq Require Import List NArith Bool Arith Lia.
From IB Require Import Cloud.Ops Proofs.CloudOps.
Import ListNotations.

(* ------------------------------------------------------------------ list helpers *)

Lemma skipn_skipn' : forall A (a b : nat) (l : list A), skipn a (skipn b l) = skipn (b + a) l.
Proof.
  intros A a b. induction b as [|b IH]; intros l; [reflexivity|].
  destruct l as [|x l]; [now rewrite !skipn_nil|]. cbn [skipn Nat.add]. apply IH.
Qed.

Lemma firstn_add_skipn : forall A (a b : nat) (l : list A),
    firstn (a + b) l = firstn a l ++ firstn b (skipn a l).
Proof.
  intros A a b. induction a as [|a IH]; intros l; [reflexivity|].
  destruct l as [|x l]; [now rewrite !firstn_nil|]. cbn [firstn skipn Nat.add app]. now rewrite IH.
Qed.

(* ------------------------------------------------------------------ chunks *)

Section Chunks.
  Variable A : Type.
  Variable n : nat.
  Hypothesis n_pos : (1 <= n)%nat.

  Lemma chunks_aux_fuel : forall f f' (l : list A),
      (length l <= f)%nat -> (length l <= f')%nat -> chunks_aux f n l = chunks_aux f' n l.
  Proof.
    induction f as [|f IH]; intros f' l Hf Hf'.
    - destruct l; [|simpl in Hf; lia]. destruct f'; reflexivity.
    - destruct l as [|x l]; [destruct f'; reflexivity|].
      destruct f' as [|f']; [simpl in Hf'; lia|].
      cbn [chunks_aux]. f_equal.
      assert (Hlen : (length (skipn n (x :: l)) <= length l)%nat).
      { rewrite skipn_length. cbn [length]. lia. }
      cbn [length] in Hf, Hf'. apply IH; lia.
  Qed.

  Lemma chunks_nil : chunks n (@nil A) = [].
  Proof. reflexivity. Qed.

  Lemma chunks_unfold : forall l : list A,
      l <> [] -> chunks n l = firstn n l :: chunks n (skipn n l).
  Proof.
    intros l Hl. destruct l as [|x l]; [contradiction|].
    unfold chunks. cbn [length chunks_aux]. f_equal.
    apply chunks_aux_fuel; [|lia].
    rewrite skipn_length. cbn [length]. lia.
  Qed.

  (* induction principle following the chunking *)
  Lemma chunks_ind : forall P : list A -> Prop,
      P [] -> (forall l, l <> [] -> P (skipn n l) -> P l) -> forall l, P l.
  Proof.
    intros P H0 Hs l.
    assert (H : forall m (l : list A), (length l <= m)%nat -> P l).
    { induction m as [|m IH]; intros l0 Hm.
      - destruct l0; [exact H0|simpl in Hm; lia].
      - destruct l0 as [|x l0]; [exact H0|].
        apply Hs; [discriminate|]. apply IH. rewrite skipn_length. cbn [length] in *. lia. }
    apply (H (length l)). lia.
  Qed.

  Lemma chunks_concat : forall l : list A, concat (chunks n l) = l.
  Proof.
    apply chunks_ind; [reflexivity|].
    intros l Hl IH. rewrite chunks_unfold by exact Hl. cbn [concat]. rewrite IH.
    apply firstn_skipn.
  Qed.

  Lemma chunks_sizes : forall l : list A,
      Forall (fun ch => (1 <= length ch <= n)%nat) (chunks n l).
  Proof.
    apply chunks_ind; [constructor|].
    intros l Hl IH. rewrite chunks_unfold by exact Hl. constructor; [|exact IH].
    rewrite firstn_length. destruct l; [contradiction|]. cbn [length]. lia.
  Qed.

  (* chunk number j is items[j*n, (j+1)*n) (empty beyond the end) *)
  Lemma chunks_nth : forall (l : list A) j,
      nth j (chunks n l) [] = firstn n (skipn (j * n) l).
  Proof.
    intros l. pattern l. apply chunks_ind; clear l.
    - intros j. rewrite chunks_nil, skipn_nil, firstn_nil. destruct j; reflexivity.
    - intros l Hl IH j. rewrite chunks_unfold by exact Hl. destruct j as [|j]; [reflexivity|].
      cbn [nth]. rewrite IH, skipn_skipn'.
      replace (S j * n)%nat with (n + j * n)%nat by lia. reflexivity.
  Qed.

  (* number of chunks = ceil (|l| / n), in multiplicative form *)
  Lemma chunks_count : forall l : list A,
      (length l <= length (chunks n l) * n)%nat /\
      (l <> [] -> (length (chunks n l) - 1) * n < length l)%nat /\
      (l = [] -> chunks n l = []).
  Proof.
    apply chunks_ind; [repeat split; auto; contradiction|].
    intros l Hl (IH1 & IH2 & IH3). rewrite chunks_unfold by exact Hl. cbn [length].
    pose proof (skipn_length n l) as Hsk.
    split; [|split; [|intros ->; contradiction]].
    - lia.
    - intros _. replace (S (length (chunks n (skipn n l))) - 1)%nat
        with (length (chunks n (skipn n l))) by lia.
      destruct (skipn n l) as [|y s] eqn:Hs.
      + rewrite IH3 by reflexivity. cbn [length]. destruct l; [contradiction|]. cbn [length]. lia.
      + assert (Hne : y :: s <> []) by discriminate. specialize (IH2 Hne).
        cbn [length] in Hsk, IH2.
        destruct (length (chunks n (y :: s))) as [|k]; [lia|].
        replace (S k - 1)%nat with k in IH2 by lia. cbn [Nat.mul]. lia.
  Qed.

  (* the items in the first k chunks are the first k*n items *)
  Lemma chunks_firstn_concat : forall (l : list A) k,
      concat (firstn k (chunks n l)) = firstn (k * n) l.
  Proof.
    intros l. pattern l. apply chunks_ind; clear l.
    - intros k. rewrite chunks_nil, !firstn_nil. reflexivity.
    - intros l Hl IH k. rewrite chunks_unfold by exact Hl. destruct k as [|k]; [reflexivity|].
      cbn [firstn concat]. rewrite IH. cbn [Nat.mul]. now rewrite firstn_add_skipn.
  Qed.
End Chunks.

(* a chunk size at least the number of items gives one chunk: sizes beyond |l| are all alike
   (used by the correspondence to keep huge chunk sizes out of unary arithmetic) *)
Lemma chunks_clamp : forall A (l : list A) n m,
    (1 <= n)%nat -> (1 <= m)%nat -> (length l <= n)%nat -> (length l <= m)%nat ->
    chunks n l = chunks m l.
Proof.
  intros A l n m Hn Hm Hln Hlm. destruct l as [|x l]; [reflexivity|].
  rewrite (chunks_unfold A n Hn) by discriminate. rewrite (chunks_unfold A m Hm) by discriminate.
  rewrite !firstn_all2 by assumption. rewrite !skipn_all2 by assumption. reflexivity.
Qed.

(* ------------------------------------------------------------------ batch_in_chunks *)

Definition is_ok {X M} (r : res X M) : bool := match r with ROk _ => true | RErr _ _ => false end.
Definition ok_val {X M} (r : res (list X) M) : list X := match r with ROk v => v | RErr _ _ => [] end.

(* what the processor returned for each chunk, in order, concatenated; chunk j is call idx+j *)
Definition batch_outputs {A R M} (process : nat -> list A -> res (list R) M)
           (cs : list (list A)) (idx : nat) : list R :=
  flat_map (fun p => ok_val (process (fst p) (snd p))) (combine (seq idx (length cs)) cs).

Section BatchLoop.
  Variables A R M : Type.
  Variable process : nat -> list A -> res (list R) M.

  Lemma batch_loop_spec : forall cs idx acc,
      ((forall j, (j < length cs)%nat -> is_ok (process (idx + j)%nat (nth j cs [])) = true) /\
       batch_loop process cs idx acc = (ROk (acc ++ batch_outputs process cs idx), cs))
      \/
      (exists f k m,
          (f < length cs)%nat /\
          (forall j, (j < f)%nat -> is_ok (process (idx + j)%nat (nth j cs [])) = true) /\
          process (idx + f)%nat (nth f cs []) = RErr k m /\
          batch_loop process cs idx acc = (RErr k m, firstn (S f) cs)).
  Proof.
    induction cs as [|ch cs IH]; intros idx acc.
    - left. split; [intros j Hj; simpl in Hj; lia|].
      cbn. now rewrite app_nil_r.
    - cbn [batch_loop]. destruct (process idx ch) as [rs|k m] eqn:Hp.
      + destruct (IH (S idx) (acc ++ rs)) as [[Hall Heq]|(f & k & m & Hf & Hpre & Hfail & Heq)].
        * left. split.
          -- intros j Hj. destruct j as [|j].
             ++ rewrite Nat.add_0_r. cbn [nth]. now rewrite Hp.
             ++ cbn [nth]. replace (idx + S j)%nat with (S idx + j)%nat by lia.
                apply Hall. cbn [length] in Hj. lia.
          -- rewrite Heq. unfold batch_outputs. cbn [length seq combine flat_map fst snd].
             rewrite Hp. cbn [ok_val]. now rewrite app_assoc.
        * right. exists (S f), k, m. split; [cbn [length]; lia|]. split; [|split].
          -- intros j Hj. destruct j as [|j].
             ++ rewrite Nat.add_0_r. cbn [nth]. now rewrite Hp.
             ++ cbn [nth]. replace (idx + S j)%nat with (S idx + j)%nat by lia. apply Hpre. lia.
          -- cbn [nth]. replace (idx + S f)%nat with (S idx + f)%nat by lia. exact Hfail.
          -- rewrite Heq. reflexivity.
      + right. exists 0%nat, k, m. split; [cbn [length]; lia|]. split; [intros j Hj; lia|].
        split; [rewrite Nat.add_0_r; exact Hp|reflexivity].
  Qed.
End BatchLoop.

(* the public function: chunks of max(size,1); every chunk in order until the first failure *)
Lemma batch_spec : forall A R M (items : list A) (size : nat)
                          (process : nat -> list A -> res (list R) M),
    let n := Nat.max size 1 in
    let cs := chunks n items in
    (* the chunking *)
    concat cs = items /\
    Forall (fun ch => (1 <= length ch <= n)%nat) cs /\
    (forall j, nth j cs [] = firstn n (skipn (j * n) items)) /\
    (* the run *)
    ( ( (forall j, (j < length cs)%nat -> is_ok (process j (nth j cs [])) = true) /\
        batch_in_chunks items size process = (ROk (batch_outputs process cs 0), cs) )
      \/
      ( exists f k m,
          (f < length cs)%nat /\
          (forall j, (j < f)%nat -> is_ok (process j (nth j cs [])) = true) /\
          process f (nth f cs []) = RErr k m /\
          batch_in_chunks items size process = (RErr k m, firstn (S f) cs) /\
          concat (firstn (S f) cs) = firstn (S f * n) items ) ).
Proof.
  intros A R M items size process n cs.
  assert (Hn : (1 <= n)%nat) by (unfold n; lia).
  split; [apply chunks_concat; exact Hn|].
  split; [apply chunks_sizes; exact Hn|].
  split; [intros j; apply chunks_nth; exact Hn|].
  unfold batch_in_chunks. fold n. fold cs.
  destruct (batch_loop_spec A R M process cs 0 []) as [[Hall Heq]|(f & k & m & Hf & Hpre & Hfail & Heq)].
  - left. split; [exact Hall|exact Heq].
  - right. exists f, k, m. repeat split; try assumption.
    apply chunks_firstn_concat. exact Hn.
Qed.

Lemma run_batch_operation_is_batch : forall A R M (items : list A) size par
                                            (process : nat -> list A -> res (list R) M),
    run_batch_operation items size par process = batch_in_chunks items size process.
Proof. reflexivity. Qed.

(* ------------------------------------------------------------------ run_cloud_io_batch *)

Lemma list_sum_pos : forall l : list nat,
    Forall (fun a => (1 <= a)%nat) l -> (1 <= length l)%nat -> (1 <= list_sum l)%nat.
Proof.
  intros l Hall Hlen. destruct l as [|a l]; [simpl in Hlen; lia|].
  inversion Hall as [|? ? H1 H2]; subst. simpl. lia.
Qed.

Section IoBatch.
  Variables A R M : Type.
  Variable c : retry_cfg.
  Variable op : nat -> A -> res R M.

  (* `counts` = attempts spent on each item that was started, in order.  The closure sees the
     started items in order, each `count` times in a row, and nothing else; an error is the
     outcome of the very last call, made on the last started item. *)
  Lemma io_batch_spec : forall items idx,
      exists counts : list nat,
        (length counts <= length items)%nat /\
        Forall (fun a => (1 <= a <= budget c)%nat) counts /\
        snd (fst (io_batch c op items idx)) =
          concat (map (fun p => repeat (fst p) (snd p)) (combine items counts)) /\
        match fst (fst (io_batch c op items idx)) with
        | Done (ROk vs) => length counts = length items /\ length vs = length items
        | Done (RErr k m) =>
            (1 <= length counts)%nat /\
            exists x, nth_error items (length counts - 1) = Some x /\
                      op (idx + (list_sum counts - 1))%nat x = RErr k m
        | Panic | Diverge => False
        end.
  Proof.
    induction items as [|x rest IH]; intros idx.
    - exists []. cbn. repeat split; auto.
    - cbn [io_batch].
      destruct (retry_spec c (fun i => op i x) idx) as (a & Ha & Hcalls & Hout & _).
      rewrite Hout, Hcalls.
      destruct (op (idx + (a - 1))%nat x) as [v|k m] eqn:Hlast.
      + destruct (IH (idx + a)%nat) as (counts & Hlen & Hall & Htr & Hres).
        destruct (io_batch c op rest (idx + a)) as [[o tr'] sl'].
        cbn [fst snd] in *.
        exists (a :: counts). cbn [length combine map concat fst snd].
        split; [lia|]. split; [constructor; assumption|]. split; [now rewrite Htr|].
        destruct o as [[vs|k m]| |]; try contradiction.
        * destruct Hres as [H1 H2]. cbn [length]. split; lia.
        * destruct Hres as (H1 & y & Hy & Hop). split; [lia|].
          exists y. split.
          -- replace (S (length counts) - 1)%nat with (S (length counts - 1)) by lia.
             exact Hy.
          -- simpl list_sum.
             assert (Hs : (1 <= list_sum counts)%nat).
             { apply list_sum_pos; [|exact H1].
               eapply Forall_impl; [|exact Hall]. cbn. intros; lia. }
             replace (idx + (a + list_sum counts - 1))%nat
               with (idx + a + (list_sum counts - 1))%nat by lia.
             exact Hop.
      + cbn [fst snd].
        exists [a]. cbn [length combine map concat fst snd]. simpl list_sum.
        split; [lia|]. split; [constructor; [exact Ha|constructor]|].
        split; [destruct rest; cbn; now rewrite app_nil_r|].
        split; [lia|]. exists x. split; [reflexivity|].
        replace (a + 0 - 1)%nat with (a - 1)%nat by lia. exact Hlast.
  Qed.
End IoBatch.

(* ------------------------------------------------------------------ paginate *)

(* items of page j / is page j a page after which the loop goes on (non-empty, has_more) *)
Definition page_items {T M} (fetch : N -> N -> res (list T * bool) M) (ps : N) (j : nat) : list T :=
  match fetch (N.of_nat j) ps with ROk (items, _) => items | RErr _ _ => [] end.
Definition page_good {T M} (fetch : N -> N -> res (list T * bool) M) (ps : N) (j : nat) : bool :=
  match fetch (N.of_nat j) ps with
  | ROk (items, has_more) => negb (is_nil items) && has_more
  | RErr _ _ => false
  end.
(* concatenation of pages from..from+n-1, and the calls that fetch them *)
Definition pages_cat {T M} (fetch : N -> N -> res (list T * bool) M) (ps : N) (from n : nat) : list T :=
  flat_map (page_items fetch ps) (seq from n).
Definition page_calls (ps : N) (from n : nat) : list (N * N) :=
  map (fun j => (N.of_nat j, ps)) (seq from n).

Lemma least_true : forall (P : nat -> bool) m,
    P m = true -> exists n, (n <= m)%nat /\ P n = true /\ forall j, (j < n)%nat -> P j = false.
Proof.
  intros P.
  assert (H : forall m, (forall j, (j < m)%nat -> P j = false) \/
                        exists n, (n < m)%nat /\ P n = true /\ forall j, (j < n)%nat -> P j = false).
  { induction m as [|m IH]; [left; intros; lia|].
    destruct IH as [Hnone|(n & Hn & Hp & Hmin)].
    - destruct (P m) eqn:Hm.
      + right. exists m. split; [lia|]. split; assumption.
      + left. intros j Hj. destruct (Nat.eq_dec j m) as [->|]; [exact Hm|apply Hnone; lia].
    - right. exists n. split; [lia|]. split; assumption. }
  intros m Hm. destruct (H m) as [Hnone|(n & Hn & Hp & Hmin)].
  - exists m. split; [lia|]. split; assumption.
  - exists n. split; [lia|]. split; assumption.
Qed.

Section Paginate.
  Variables T M : Type.
  Variable mp : option N.
  Variable ps : N.
  Variable fetch : N -> N -> res (list T * bool) M.

  Lemma paginate_prefix : forall n fuel p acc,
      (forall j, (p <= j < p + n)%nat ->
                 page_good fetch ps j = true /\ at_limit mp (N.of_nat j) = false) ->
      (N.of_nat (p + n) <= u32_max)%N ->
      paginate_loop mp ps fetch (n + fuel) (N.of_nat p) acc =
      (fst (paginate_loop mp ps fetch fuel (N.of_nat (p + n)) (acc ++ pages_cat fetch ps p n)),
       page_calls ps p n ++
       snd (paginate_loop mp ps fetch fuel (N.of_nat (p + n)) (acc ++ pages_cat fetch ps p n))).
  Proof.
    induction n as [|n IH]; intros fuel p acc Hgood Hmax.
    - cbn [Nat.add]. rewrite Nat.add_0_r. unfold pages_cat, page_calls. cbn [seq flat_map map app].
      rewrite app_nil_r. now destruct (paginate_loop mp ps fetch fuel (N.of_nat p) acc).
    - cbn [Nat.add paginate_loop].
      destruct (Hgood p) as [Hg Hl]; [lia|]. rewrite Hl.
      unfold page_good in Hg.
      destruct (fetch (N.of_nat p) ps) as [[items hm]|k m] eqn:Hf; [|discriminate].
      apply andb_true_iff in Hg. destruct Hg as [Hnil Hhm]. apply negb_true_iff in Hnil.
      rewrite Hnil. subst hm. cbn [negb].
      assert (Hne : (N.of_nat p =? u32_max)%N = false) by (apply N.eqb_neq; lia).
      rewrite Hne.
      replace (N.of_nat p + 1)%N with (N.of_nat (S p)) by lia.
      rewrite (IH fuel (S p) (acc ++ items)).
      + replace (S p + n)%nat with (p + S n)%nat by lia.
        assert (Hcat : (acc ++ items) ++ pages_cat fetch ps (S p) n
                       = acc ++ pages_cat fetch ps p (S n)).
        { unfold pages_cat. cbn [seq flat_map]. unfold page_items at 2. rewrite Hf.
          now rewrite app_assoc. }
        rewrite Hcat.
        destruct (paginate_loop mp ps fetch fuel (N.of_nat (p + S n))
                                (acc ++ pages_cat fetch ps p (S n))) as [o tr].
        reflexivity.
      + intros j Hj. apply Hgood. lia.
      + replace (S p + n)%nat with (p + S n)%nat by lia. exact Hmax.
  Qed.

  (* n = the first page index at which the loop stops: the limit, or a page that is not
     (non-empty and has_more).  Pages before n are all concatenated; what page n contributes
     depends on what it is. *)
  Lemma paginate_spec : forall fuel n,
      (forall j, (j < n)%nat ->
                 page_good fetch ps j = true /\ at_limit mp (N.of_nat j) = false) ->
      (at_limit mp (N.of_nat n) = true \/ page_good fetch ps n = false) ->
      (n < fuel)%nat -> (N.of_nat n <= u32_max)%N ->
      paginate fuel ps mp fetch =
      if at_limit mp (N.of_nat n) then (Done (ROk (pages_cat fetch ps 0 n)), page_calls ps 0 n)
      else match fetch (N.of_nat n) ps with
           | RErr k m => (Done (RErr k m), page_calls ps 0 (S n))
           | ROk (items, _) =>
               if is_nil items then (Done (ROk (pages_cat fetch ps 0 n)), page_calls ps 0 (S n))
               else if (N.of_nat n =? u32_max)%N then (Panic, page_calls ps 0 (S n))
               else (Done (ROk (pages_cat fetch ps 0 (S n))), page_calls ps 0 (S n))
           end.
  Proof.
    intros fuel n Hgood Hstop Hfuel Hmax. unfold paginate.
    replace fuel with (n + S (fuel - n - 1))%nat by lia.
    change 0%N with (N.of_nat 0).
    rewrite paginate_prefix; [|intros j Hj; apply Hgood; lia|cbn [Nat.add]; exact Hmax].
    cbn [Nat.add app paginate_loop].
    assert (Hcalls : page_calls ps 0 (S n) = page_calls ps 0 n ++ [(N.of_nat n, ps)]).
    { unfold page_calls. rewrite seq_S, map_app. reflexivity. }
    destruct (at_limit mp (N.of_nat n)) eqn:Hl.
    - cbn [fst snd]. now rewrite app_nil_r.
    - destruct Hstop as [Hc|Hng]; [discriminate|].
      unfold page_good in Hng.
      destruct (fetch (N.of_nat n) ps) as [[items hm]|k m] eqn:Hf.
      + destruct (is_nil items) eqn:Hnil; [cbn [fst snd]; now rewrite Hcalls|].
        cbn [negb andb] in Hng. subst hm.
        destruct (N.of_nat n =? u32_max)%N; [cbn [fst snd]; now rewrite Hcalls|].
        cbn [negb fst snd]. rewrite Hcalls. f_equal. f_equal. f_equal.
        unfold pages_cat. rewrite seq_S, flat_map_app. cbn [Nat.add flat_map].
        unfold page_items at 3. rewrite Hf. now rewrite app_nil_r.
      + cbn [fst snd]. now rewrite Hcalls.
  Qed.

  (* max_pages = Some 0: nothing is fetched, nothing is returned *)
  Lemma paginate_zero_limit : forall fuel,
      mp = Some 0%N -> (1 <= fuel)%nat -> paginate fuel ps mp fetch = (Done (ROk []), []).
  Proof.
    intros fuel -> Hf. destruct fuel as [|f]; [lia|]. reflexivity.
  Qed.

  (* with a page limit the helper always returns, after at most `limit` calls, and never panics *)
  Lemma paginate_limit_terminates : forall fuel m,
      mp = Some m -> (N.to_nat m < fuel)%nat -> (m <= u32_max)%N ->
      exists r, fst (paginate fuel ps mp fetch) = Done r /\
                (length (snd (paginate fuel ps mp fetch)) <= N.to_nat m)%nat.
  Proof.
    intros fuel m Hmp Hfuel Hm.
    set (stop := fun j => at_limit mp (N.of_nat j) || negb (page_good fetch ps j)).
    assert (Hstopm : stop (N.to_nat m) = true).
    { unfold stop. rewrite Hmp. cbn [at_limit]. rewrite N2Nat.id, N.leb_refl. reflexivity. }
    destruct (least_true stop (N.to_nat m) Hstopm) as (n & Hn & Hsn & Hmin).
    assert (Hgood : forall j, (j < n)%nat ->
                               page_good fetch ps j = true /\ at_limit mp (N.of_nat j) = false).
    { intros j Hj. specialize (Hmin j Hj). unfold stop in Hmin.
      apply orb_false_iff in Hmin. destruct Hmin as [H1 H2]. apply negb_false_iff in H2. auto. }
    assert (Hstop : at_limit mp (N.of_nat n) = true \/ page_good fetch ps n = false).
    { unfold stop in Hsn. apply orb_true_iff in Hsn. destruct Hsn as [H|H]; [left; exact H|].
      right. now apply negb_true_iff in H. }
    rewrite (paginate_spec fuel n Hgood Hstop) by lia.
    assert (Hlen : forall k, length (page_calls ps 0 k) = k).
    { intros k. unfold page_calls. now rewrite map_length, seq_length. }
    destruct (at_limit mp (N.of_nat n)) eqn:Hl.
    - eexists. cbn [fst snd]. split; [reflexivity|]. rewrite Hlen. exact Hn.
    - assert (Hlt : (n < N.to_nat m)%nat).
      { rewrite Hmp in Hl. cbn [at_limit] in Hl. apply N.leb_gt in Hl. lia. }
      assert (Hne : (N.of_nat n =? u32_max)%N = false) by (apply N.eqb_neq; lia).
      destruct (fetch (N.of_nat n) ps) as [[items hm]|k e].
      + destruct (is_nil items); [|rewrite Hne]; eexists; cbn [fst snd];
          (split; [reflexivity|rewrite Hlen; lia]).
      + eexists. cbn [fst snd]. split; [reflexivity|]. rewrite Hlen. lia.
  Qed.

  (* an endless supply of good pages and no limit: no amount of fuel ever produces a result
     (the real call does not return; after 2^32 pages the page counter overflows) *)
  Lemma paginate_endless : forall fuel,
      mp = None -> (forall j, page_good fetch ps j = true) ->
      (N.of_nat fuel <= u32_max)%N ->
      fst (paginate fuel ps mp fetch) = Diverge.
  Proof.
    intros fuel Hmp Hall Hf. unfold paginate.
    replace fuel with (fuel + 0)%nat by lia. change 0%N with (N.of_nat 0).
    rewrite paginate_prefix.
    - reflexivity.
    - intros j _. split; [apply Hall|]. rewrite Hmp. reflexivity.
    - cbn [Nat.add]. exact Hf.
  Qed.
End Paginate.

(* no limit configured (max_pages = None, which is also what PaginationConfig::default() says):
   however many good pages there are, all of them and the final page are fetched and returned -
   no implicit cap *)
Lemma paginate_unlimited_all_pages :
  forall T M (c : pagination_cfg) (fetch : N -> N -> res (list T * bool) M) fuel n items,
    max_pages c = None ->
    (forall j, (j < n)%nat -> page_good fetch (page_size c) j = true) ->
    fetch (N.of_nat n) (page_size c) = ROk (items, false) -> items <> [] ->
    (n < fuel)%nat -> (N.of_nat n < u32_max)%N ->
    paginate_cfg fuel c fetch =
    (Done (ROk (pages_cat fetch (page_size c) 0 (S n))), page_calls (page_size c) 0 (S n)).
Proof.
  intros T M c fetch fuel n items Hmp Hgood Hlast Hne Hfuel Hmax.
  unfold paginate_cfg. rewrite Hmp.
  rewrite (paginate_spec T M None (page_size c) fetch fuel n).
  - cbn [at_limit]. rewrite Hlast.
    destruct items as [|x items]; [contradiction|]. cbn [is_nil].
    assert (Hneq : (N.of_nat n =? u32_max)%N = false) by (apply N.eqb_neq; lia).
    now rewrite Hneq.
  - intros j Hj. split; [now apply Hgood|reflexivity].
  - right. unfold page_good. rewrite Hlast. now rewrite andb_false_r.
  - exact Hfuel.
  - lia.
Qed.

Lemma pagination_default_fields :
  page_size pagination_cfg_default = 100%N /\ max_pages pagination_cfg_default = None.
Proof. split; reflexivity. Qed.

Lemma paginate_wrappers : forall T M fuel ps mp (fetch : N -> N -> res (list T * bool) M),
    run_paginated_operation fuel ps mp fetch = paginate fuel ps mp fetch /\
    run_cloud_io_paginated fuel ps mp fetch = paginate fuel ps mp fetch.
Proof. intros. split; reflexivity. Qed.

(* ------------------------------------------------------------------ sample inputs
   used by the non-vacuity examples of Props/C18.v *)
Definition ex_cfg : retry_cfg :=
  {| max_attempts := 4; initial_delay_ms := 100; max_delay_ms := 150; mult_ge2 := true |}.
(* call 0: Network, call 1: RateLimited, call 2: Ok 42, afterwards NotFound *)
Definition ex_op (i : nat) : res nat nat :=
  match i with
  | 0 => RErr Network 0 | 1 => RErr RateLimited 1 | 2 => ROk 42 | _ => RErr NotFound i
  end%nat.
(* always unavailable *)
Definition ex_down (i : nat) : res nat nat := RErr ServiceUnavailable i.
(* chunk number 2 fails, the others return their items doubled *)
Definition ex_process (j : nat) (ch : list nat) : res (list nat) nat :=
  if Nat.eqb j 2 then RErr InternalError j else ROk (map (fun x => 2 * x)%nat ch).
(* per-item operation: call 1 is a transient failure, item 30 is not found *)
Definition ex_item_op (i : nat) (x : nat) : res nat nat :=
  if Nat.eqb x 30 then RErr NotFound i else if Nat.eqb i 1 then RErr Timeout i else ROk (x + i)%nat.
(* pages 0,1 full with has_more, page 2 short and final *)
Definition ex_fetch (page ps : N) : res (list N * bool) nat :=
  match page with
  | 0 => ROk ([1; 2], true) | 1 => ROk ([3; 4], true) | 2 => ROk ([5], false) | _ => ROk ([], false)
  end%N.
(* 1005 single-item pages, the last one final *)
Definition ex_long (page ps : N) : res (list N * bool) nat := ROk ([page], (page <? 1004)%N).
Definition ex_endless (page ps : N) : res (list N * bool) nat := ROk ([page], true).
