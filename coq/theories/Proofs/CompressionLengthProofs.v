(* Proofs for C10, size dimension: the closed-form text length of a generated payload
   (pl_text_len, used by the correspondence run) equals the length of the rendered text.
   ndig_fuel / cnt_fuel are proof-local auxiliaries (number of decimal digits; how many of
   p, 10p, 100p, ... do not exceed n). *)
From Coq Require Import List ZArith NArith Bool Lia.
From IB Require Import IO.Compression IO.CompressionPayload Proofs.CompressionPayloadProofs.
Import ListNotations.
Open Scope N_scope.

(* number of decimal digits, with fuel *)
Fixpoint ndig_fuel (f : nat) (n : N) : nat :=
  match f with
  | O => 0%nat
  | S f' => if n <? 10 then 1%nat else S (ndig_fuel f' (n / 10))
  end.
(* how many of p, 10p, 100p, ... (f of them) are <= n *)
Fixpoint cnt_fuel (f : nat) (p n : N) : nat :=
  match f with
  | O => 0%nat
  | S f' => if p <=? n then S (cnt_fuel f' (p * 10) n) else 0%nat
  end.

Lemma dec_digits_fuel_length : forall f n acc,
  length (dec_digits_fuel f n acc) = (length acc + ndig_fuel f n)%nat.
Proof.
  induction f as [|f IH]; intros n acc; cbn [dec_digits_fuel ndig_fuel]; [lia|].
  destruct (n <? 10); [cbn [length]; lia|]. rewrite IH. cbn [length]. lia.
Qed.

Lemma shift_test : forall p n, (p * 10 <=? n) = (p <=? n / 10).
Proof.
  intros p n. rewrite (N.mul_comm p 10). destruct (p <=? n / 10) eqn:E.
  - apply N.leb_le in E. apply N.leb_le.
    apply N.le_trans with (10 * (n / 10)); [apply N.mul_le_mono_l; exact E|].
    apply N.mul_div_le. discriminate.
  - apply N.leb_gt in E. apply N.leb_gt. apply N.lt_nge. intros H.
    apply N.div_le_lower_bound in H; [|discriminate]. apply N.lt_nge in E. exact (E H).
Qed.

Lemma cnt_shift : forall f p n, cnt_fuel f (p * 10) n = cnt_fuel f p (n / 10).
Proof.
  induction f as [|f IH]; intros p n; cbn [cnt_fuel]; [reflexivity|].
  rewrite shift_test. destruct (p <=? n / 10); [|reflexivity]. rewrite IH. reflexivity.
Qed.

Lemma ndig_cnt : forall f n, n < 10 ^ N.of_nat (S f) -> ndig_fuel (S f) n = S (cnt_fuel f 10 n).
Proof.
  induction f as [|f IH]; intros n Hn.
  - cbn [ndig_fuel cnt_fuel]. change (10 ^ N.of_nat 1) with 10 in Hn.
    apply N.ltb_lt in Hn. rewrite Hn. reflexivity.
  - cbn [ndig_fuel]. destruct (n <? 10) eqn:E.
    + cbn [cnt_fuel]. apply N.ltb_lt in E. replace (10 <=? n) with false; [reflexivity|].
      symmetry. apply N.leb_gt. exact E.
    + apply N.ltb_ge in E. cbn [cnt_fuel]. apply N.leb_le in E. rewrite E.
      change (10 * 10) with (10 * 10). rewrite cnt_shift.
      assert (Hd : n / 10 < 10 ^ N.of_nat (S f)).
      { apply N.div_lt_upper_bound; [discriminate|].
        rewrite <- N.pow_succ_r'. rewrite <- Nat2N.inj_succ. exact Hn. }
      specialize (IH (n / 10) Hd). cbn [ndig_fuel] in IH. rewrite IH. reflexivity.
Qed.

Lemma cnt_stable : forall f d p n, n < p * 10 ^ N.of_nat f -> cnt_fuel (f + d) p n = cnt_fuel f p n.
Proof.
  induction f as [|f IH]; intros d p n H.
  - cbn [plus cnt_fuel]. rewrite N.pow_0_r, N.mul_1_r in H.
    destruct d; cbn [cnt_fuel]; [reflexivity|].
    replace (p <=? n) with false; [reflexivity|]. symmetry. apply N.leb_gt. exact H.
  - cbn [plus cnt_fuel]. destruct (p <=? n); [|reflexivity]. rewrite IH; [reflexivity|].
    rewrite Nat2N.inj_succ, N.pow_succ_r' in H. lia.
Qed.

Lemma fuel_adequate : forall n, n < 10 ^ N.of_nat (S (N.to_nat (N.log2 n))).
Proof.
  intros n. rewrite Nat2N.inj_succ, N2Nat.id.
  destruct (N.eq_dec n 0) as [->|Hn]; [reflexivity|].
  assert (Hpos : 0 < n) by lia.
  destruct (N.log2_spec n Hpos) as [_ Hlt].
  apply N.lt_le_trans with (2 ^ N.succ (N.log2 n)); [exact Hlt|].
  apply N.pow_le_mono_l. lia.
Qed.

Lemma dec_digits_length : forall n, n < 10 ^ 40 -> length (dec_digits n) = S (cnt_fuel 40 10 n).
Proof.
  intros n Hn. unfold dec_digits. rewrite dec_digits_fuel_length. cbn [length plus].
  rewrite ndig_cnt by apply fuel_adequate. f_equal.
  pose proof (fuel_adequate n) as Ha. rewrite Nat2N.inj_succ, N.pow_succ_r' in Ha.
  set (f := N.to_nat (N.log2 n)) in *.
  destruct (Nat.le_gt_cases f 40) as [Hle | Hgt].
  - replace 40%nat with (f + (40 - f))%nat by lia. symmetry. apply cnt_stable. exact Ha.
  - replace f with (40 + (f - 40))%nat by lia. apply cnt_stable.
    change (N.of_nat 40) with 40.
    apply N.lt_le_trans with (1 * 10 ^ 40); [rewrite N.mul_1_l; exact Hn|].
    apply N.mul_le_mono_r. discriminate.
Qed.

Lemma sumdigits_step : forall f p n, 0 < p ->
  sumdigits_fuel f p (n + 1) = sumdigits_fuel f p n + N.of_nat (cnt_fuel f p n).
Proof.
  induction f as [|f IH]; intros p n Hp; cbn [sumdigits_fuel cnt_fuel]; [reflexivity|].
  destruct (p <=? n) eqn:E.
  - apply N.leb_le in E. replace (p <? n + 1) with true by (symmetry; apply N.ltb_lt; lia).
    rewrite IH by lia. rewrite Nat2N.inj_succ.
    destruct (p <? n) eqn:E2; [lia|]. apply N.ltb_ge in E2. assert (p = n) by lia. subst p.
    destruct f; cbn [sumdigits_fuel cnt_fuel]; [lia|].
    replace (n * 10 <? n) with false by (symmetry; apply N.ltb_ge; lia).
    replace (n * 10 <=? n) with false by (symmetry; apply N.leb_gt; lia).
    replace (n * 10 <? n + 1) with false by (symmetry; apply N.ltb_ge; lia). lia.
  - apply N.leb_gt in E. replace (p <? n + 1) with false by (symmetry; apply N.ltb_ge; lia).
    replace (p <? n) with false by (symmetry; apply N.ltb_ge; lia). reflexivity.
Qed.

Lemma sumdigits_succ : forall n, n < 10 ^ 40 ->
  sumdigits (n + 1) = sumdigits n + N.of_nat (length (dec_digits n)).
Proof.
  intros n Hn. unfold sumdigits. rewrite sumdigits_step by lia.
  rewrite dec_digits_length by exact Hn. rewrite Nat2N.inj_succ. lia.
Qed.

Lemma keys_step : forall g n,
  pl_keys_len {| pg_n := n + 1; pg_klen := pg_klen g; pg_k0len := pg_k0len g |}
  = pl_keys_len {| pg_n := n; pg_klen := pg_klen g; pg_k0len := pg_k0len g |} + pl_keylen g n.
Proof.
  intros g n. unfold pl_keys_len, pl_keylen. cbn [pg_n pg_klen pg_k0len].
  replace (n + 1 =? 0) with false by (symmetry; apply N.eqb_neq; lia).
  destruct (n =? 0) eqn:E.
  - apply N.eqb_eq in E. subst n. cbn. lia.
  - apply N.eqb_neq in E. replace (n + 1 - 1) with (N.succ (n - 1)) by lia.
    rewrite N.mul_succ_l. lia.
Qed.

Section Len.
  Variable kc : N -> N -> Z.
  Variable g : pgen.
  Variable over : nat.
  Let F (i : N) : nat := (over + N.to_nat (pl_keylen g i) + length (dec_digits i))%nat.
  Let gn (n : N) : pgen := {| pg_n := n; pg_klen := pg_klen g; pg_k0len := pg_k0len g |}.

  Lemma sum_lines : forall m : nat, N.of_nat m <= 10 ^ 40 ->
    N.of_nat (sum_nat (map F (nrange (N.of_nat m)))) = pl_text_len (N.of_nat over) (gn (N.of_nat m)).
  Proof.
    induction m as [|m IH]; intros Hm.
    { unfold pl_text_len, gn. cbn [pg_n N.of_nat]. rewrite N.mul_0_r. reflexivity. }
    unfold nrange in *. rewrite Nat2N.id in *. rewrite seq_S, !map_app, sum_nat_app.
    cbn [plus map sum_nat fold_right]. rewrite Nat2N.inj_add, IH by lia. clear IH.
    rewrite Nat2N.inj_succ, <- N.add_1_r. set (n := N.of_nat m) in *.
    unfold pl_text_len. subst gn F. cbv beta. cbn [pg_n]. rewrite (keys_step g n).
    rewrite sumdigits_succ by lia. rewrite Nat.add_0_r, !Nat2N.inj_add, N2Nat.id. lia.
  Qed.
End Len.

Lemma pgen_eta : forall g, {| pg_n := pg_n g; pg_klen := pg_klen g; pg_k0len := pg_k0len g |} = g.
Proof. intros [a b c]. reflexivity. Qed.

Lemma jsonl_payload_length : forall kc g, pg_n g <= 10 ^ 40 ->
  N.of_nat (length (jsonl_text (pl_recs kc g))) = pl_text_len 14 g.
Proof.
  intros kc g Hn. rewrite jsonl_text_length. unfold pl_recs. rewrite map_map.
  rewrite (map_ext _ (fun i => (14 + N.to_nat (pl_keylen g i) + length (dec_digits i))%nat)).
  - pose proof (sum_lines g 14 (N.to_nat (pg_n g))) as H. rewrite N2Nat.id in H.
    rewrite H by exact Hn. rewrite pgen_eta. reflexivity.
  - intros i. unfold jsonl_line_len, pl_rec. cbn [fst snd]. rewrite pl_key_length. reflexivity.
Qed.

Lemma csv_payload_length : forall kc g, pg_n g <= 10 ^ 40 ->
  N.of_nat (length (csv_text (pl_recs kc g))) = pl_text_len 2 g.
Proof.
  intros kc g Hn. rewrite csv_text_length. unfold pl_recs. rewrite map_map.
  rewrite (map_ext _ (fun i => (2 + N.to_nat (pl_keylen g i) + length (dec_digits i))%nat)).
  - pose proof (sum_lines g 2 (N.to_nat (pg_n g))) as H. rewrite N2Nat.id in H.
    rewrite H by exact Hn. rewrite pgen_eta. reflexivity.
  - intros i. unfold csv_line_len, pl_rec. cbn [fst snd]. rewrite pl_key_length. reflexivity.
Qed.
