(* Proofs about the derived clock of Cloud/Ops.v (Section Clock): the retry+timeout composition
   charges the back-off sleeps against the timeout; the builders hand the retry configuration
   through untouched, so their sleeps are those of the last with_retry argument; sleeps when the
   cap is below the initial delay; sleeps of the per-item batch. *)
From Coq Require Import List NArith Bool Arith Lia.
From IB Require Import Cloud.Ops Proofs.CloudOps Proofs.CloudOpsBatch.
Import ListNotations.

(* ------------------------------------------------------------------ vocabulary *)

(* what with_timeout makes of an outcome once the clock is past the timeout *)
Definition late_outcome {X M} (tmsg : M) (o : outcome X M) : outcome X M :=
  match o with Done (ROk _) => Done (RErr Timeout tmsg) | other => other end.

Definition is_done_ok {X M} (o : outcome X M) : bool :=
  match o with Done (ROk _) => true | _ => false end.

(* ------------------------------------------------------------------ with_timeout, by cases *)

Lemma with_timeout_late : forall X M (tmsg : M) timeout el (o : outcome X M),
    (timeout < el)%N -> with_timeout tmsg timeout el o = late_outcome tmsg o.
Proof.
  intros X M tmsg timeout el o H. destruct o as [[v|k m]| |]; try reflexivity.
  now apply with_timeout_overrun.
Qed.

Lemma with_timeout_early : forall X M (tmsg : M) timeout el (o : outcome X M),
    (el <= timeout)%N -> with_timeout tmsg timeout el o = o.
Proof.
  intros X M tmsg timeout el o H. destruct o as [[v|k m]| |]; try reflexivity.
  now apply with_timeout_in_time.
Qed.

Lemma late_outcome_not_ok : forall X M (tmsg : M) (o : outcome X M) v,
    late_outcome tmsg o <> Done (ROk v).
Proof. intros X M tmsg o v. destruct o as [[w|k m]| |]; discriminate. Qed.

(* ------------------------------------------------------------------ the shape is clock free *)

(* calls and sleeps of every builder configuration do not depend on the clock reading: `timed`
   may compute the reading from the run at reading 0 *)
Lemma builder_shape_clock_free : forall X M (tmsg : M) rc t el el' (op : nat -> res X M) idx,
    run_calls (builder_execute tmsg rc t el op idx)
    = run_calls (builder_execute tmsg rc t el' op idx) /\
    run_sleeps (builder_execute tmsg rc t el op idx)
    = run_sleeps (builder_execute tmsg rc t el' op idx).
Proof. intros. destruct rc, t; split; reflexivity. Qed.

Lemma builder_run_shape_clock_free : forall X M (tmsg : M) ss el el' (op : nat -> res X M) idx,
    run_calls (builder_run tmsg ss el op idx) = run_calls (builder_run tmsg ss el' op idx) /\
    run_sleeps (builder_run tmsg ss el op idx) = run_sleeps (builder_run tmsg ss el' op idx) /\
    run_calls (executor_run tmsg ss el op idx) = run_calls (executor_run tmsg ss el' op idx) /\
    run_sleeps (executor_run tmsg ss el op idx) = run_sleeps (executor_run tmsg ss el' op idx).
Proof.
  intros.
  destruct (builder_run_final_config X M tmsg ss el op idx) as [-> ->].
  destruct (builder_run_final_config X M tmsg ss el' op idx) as [-> ->].
  destruct (builder_shape_clock_free X M tmsg (last_retry ss) (last_timeout ss) el el' op idx)
    as [H1 H2].
  repeat split; assumption.
Qed.

(* ------------------------------------------------------------------ timed retry + timeout *)

(* all four entry points of the retry+timeout composition, with the clock derived: the plain
   retry run, its result relabelled by with_timeout at the reading
   tpm * (sum of the back-off sleeps) + (time inside the attempts) + extra *)
Lemma timed_retry_unfold :
  forall X M (tmsg : M) (c : retry_cfg) t tpm busy extra (op : nat -> res X M) idx,
    let r := retry c op idx in
    let w := mk_run (with_timeout tmsg t (run_clock tpm busy idx r + extra)%N (run_out r))
                    (run_calls r) (run_sleeps r) in
    timed_retry tmsg c t tpm busy extra op idx = w /\
    timed_cloud_io_retry tmsg c t tpm busy extra op idx = w /\
    timed_builder_execute tmsg (Some c) (Some t) tpm busy extra op idx = w /\
    timed_executor_execute tmsg (Some c) (Some t) tpm busy extra op idx = w.
Proof. intros. repeat split; reflexivity. Qed.

(* the property: when the back-off sleeps plus the time inside the attempts exceed the timeout,
   a success is reported as Timeout (an error stays what it was), whatever else the clock
   picked up; attempts and sleeps are those of the plain retry *)
Lemma timed_retry_overrun :
  forall X M (tmsg : M) (c : retry_cfg) t tpm busy extra (op : nat -> res X M) idx,
    let r := retry c op idx in
    (t < tpm * nsum (run_sleeps r) + busy_sum busy idx (run_calls r))%N ->
    let w := mk_run (late_outcome tmsg (run_out r)) (run_calls r) (run_sleeps r) in
    timed_retry tmsg c t tpm busy extra op idx = w /\
    timed_cloud_io_retry tmsg c t tpm busy extra op idx = w /\
    timed_builder_execute tmsg (Some c) (Some t) tpm busy extra op idx = w /\
    timed_executor_execute tmsg (Some c) (Some t) tpm busy extra op idx = w.
Proof.
  intros X M tmsg c t tpm busy extra op idx r Hlate w.
  destruct (timed_retry_unfold X M tmsg c t tpm busy extra op idx) as (H1 & H2 & H3 & H4).
  cbv zeta in H1, H2, H3, H4. fold r in H1, H2, H3, H4.
  assert (Hw : with_timeout tmsg t (run_clock tpm busy idx r + extra)%N (run_out r)
               = late_outcome tmsg (run_out r)).
  { apply with_timeout_late. unfold run_clock. lia. }
  rewrite Hw in H1, H2, H3, H4. repeat split; assumption.
Qed.

Lemma timed_retry_overrun_never_ok :
  forall X M (tmsg : M) (c : retry_cfg) t tpm busy extra (op : nat -> res X M) idx v,
    let r := retry c op idx in
    (t < tpm * nsum (run_sleeps r) + busy_sum busy idx (run_calls r))%N ->
    run_out (timed_retry tmsg c t tpm busy extra op idx) <> Done (ROk v) /\
    run_out (timed_cloud_io_retry tmsg c t tpm busy extra op idx) <> Done (ROk v) /\
    run_out (timed_builder_execute tmsg (Some c) (Some t) tpm busy extra op idx) <> Done (ROk v) /\
    run_out (timed_executor_execute tmsg (Some c) (Some t) tpm busy extra op idx) <> Done (ROk v).
Proof.
  intros X M tmsg c t tpm busy extra op idx v r Hlate.
  destruct (timed_retry_overrun X M tmsg c t tpm busy extra op idx Hlate)
    as (-> & -> & -> & ->).
  cbn [run_out]. repeat split; apply late_outcome_not_ok.
Qed.

(* a run that finishes in time is the plain retry run *)
Lemma timed_retry_in_time :
  forall X M (tmsg : M) (c : retry_cfg) t tpm busy extra (op : nat -> res X M) idx,
    let r := retry c op idx in
    (run_clock tpm busy idx r + extra <= t)%N ->
    timed_retry tmsg c t tpm busy extra op idx = r /\
    timed_cloud_io_retry tmsg c t tpm busy extra op idx = r /\
    timed_builder_execute tmsg (Some c) (Some t) tpm busy extra op idx = r /\
    timed_executor_execute tmsg (Some c) (Some t) tpm busy extra op idx = r.
Proof.
  intros X M tmsg c t tpm busy extra op idx r Hin.
  destruct (timed_retry_unfold X M tmsg c t tpm busy extra op idx) as (H1 & H2 & H3 & H4).
  cbv zeta in H1, H2, H3, H4. fold r in H1, H2, H3, H4.
  rewrite (with_timeout_early X M tmsg t _ (run_out r) Hin) in H1, H2, H3, H4.
  assert (Heta : mk_run (run_out r) (run_calls r) (run_sleeps r) = r) by (destruct r; reflexivity).
  rewrite Heta in H1, H2, H3, H4. repeat split; assumption.
Qed.

(* sum of a delay sequence that has at least one term *)
Lemma nsum_delay_seq_ge_first : forall c d n, (d <= nsum (delay_seq c d (S n)))%N.
Proof. intros c d n. cbn [delay_seq nsum fold_right]. lia. Qed.

(* a first transient failure under a budget of at least 2 means a second attempt *)
Lemma retry_second_attempt :
  forall X M (c : retry_cfg) (op : nat -> res X M) idx,
    (2 <= budget c)%nat -> transient_err (op idx) = true ->
    (2 <= run_calls (retry c op idx))%nat.
Proof.
  intros X M c op idx Hb Htr.
  destruct (retry_spec c op idx) as (a & Ha & Hc & _ & _ & Hstop & _).
  rewrite Hc. destruct (Nat.eq_dec a 1) as [->|Hne]; [|lia].
  exfalso. destruct Hstop as [Hbud|Hfin].
  - lia.
  - replace (idx + (1 - 1))%nat with idx in Hfin by lia. congruence.
Qed.

(* the back-off wait alone overruns the timeout: the operation is never reported as a success *)
Lemma first_backoff_overruns :
  forall X M (tmsg : M) (c : retry_cfg) t tpm busy extra (op : nat -> res X M) idx v,
    (2 <= budget c)%nat -> transient_err (op idx) = true ->
    (t < tpm * initial_delay_ms c)%N ->
    run_out (timed_retry tmsg c t tpm busy extra op idx) <> Done (ROk v) /\
    run_out (timed_cloud_io_retry tmsg c t tpm busy extra op idx) <> Done (ROk v) /\
    run_out (timed_builder_execute tmsg (Some c) (Some t) tpm busy extra op idx) <> Done (ROk v) /\
    run_out (timed_executor_execute tmsg (Some c) (Some t) tpm busy extra op idx) <> Done (ROk v).
Proof.
  intros X M tmsg c t tpm busy extra op idx v Hb Htr Ht.
  apply timed_retry_overrun_never_ok.
  pose proof (retry_second_attempt X M c op idx Hb Htr) as H2.
  rewrite retry_sleeps.
  destruct (run_calls (retry c op idx) - 1)%nat as [|n] eqn:Hn; [lia|].
  pose proof (nsum_delay_seq_ge_first c (initial_delay_ms c) n) as Hge.
  nia.
Qed.

(* without a retry configuration the timed builder is with_timeout on the single call *)
Lemma timed_no_retry :
  forall X M (tmsg : M) t tpm busy extra (op : nat -> res X M) idx,
    timed_builder_execute tmsg None (Some t) tpm busy extra op idx
    = timed_with_timeout tmsg t busy extra op idx /\
    timed_executor_execute tmsg None (Some t) tpm busy extra op idx
    = timed_with_timeout tmsg t busy extra op idx /\
    ((t < busy idx)%N -> forall v,
        run_out (timed_with_timeout tmsg t busy extra op idx) <> Done (ROk v)).
Proof.
  intros X M tmsg t tpm busy extra op idx.
  assert (Hc : (tpm * nsum [] + busy_sum busy idx 1 + extra = busy idx + extra)%N).
  { cbn [nsum fold_right busy_sum]. lia. }
  split; [|split].
  - unfold timed_builder_execute, timed, timed_with_timeout, run_clock.
    cbn [builder_execute run_sleeps run_calls]. now rewrite Hc.
  - unfold timed_executor_execute, timed, timed_with_timeout, run_clock.
    cbn [executor_execute run_sleeps run_calls]. now rewrite Hc.
  - intros Hlate v. unfold timed_with_timeout. cbn [run_out].
    rewrite with_timeout_late by lia. apply late_outcome_not_ok.
Qed.

(* ------------------------------------------------------------------ builders keep the config *)

(* whatever the construction sequence, the sleeps of OperationBuilder / CloudIOExecutor are the
   delay sequence of the LAST with_retry argument exactly as given (no field is adjusted on the
   way in), none without with_retry *)
Lemma builder_sleeps_by_last_retry :
  forall X M (tmsg : M) ss el (op : nat -> res X M) idx,
    run_sleeps (builder_run tmsg ss el op idx) =
      match last_retry ss with
      | Some c => delay_seq c (initial_delay_ms c) (run_calls (builder_run tmsg ss el op idx) - 1)
      | None => []
      end /\
    run_sleeps (executor_run tmsg ss el op idx) =
      match last_retry ss with
      | Some c => delay_seq c (initial_delay_ms c) (run_calls (executor_run tmsg ss el op idx) - 1)
      | None => []
      end.
Proof.
  intros X M tmsg ss el op idx.
  rewrite (executor_run_is_builder_run X M tmsg ss el op idx).
  rewrite (builder_by_final_config X M tmsg ss el op idx).
  destruct (last_retry ss) as [c|], (last_timeout ss) as [t|];
    cbn [run_sleeps run_calls]; split; try reflexivity; apply retry_sleeps.
Qed.

(* ------------------------------------------------------------------ cap below the initial delay *)

Lemma next_delay_at_cap : forall c d,
    (max_delay_ms c <= d)%N -> (max_delay_ms c <= u64_max)%N -> next_delay c d = max_delay_ms c.
Proof.
  intros c d Hd Hu. unfold next_delay. destruct (mult_ge2 c); lia.
Qed.

Lemma delay_seq_at_cap : forall c n,
    (max_delay_ms c <= u64_max)%N ->
    delay_seq c (max_delay_ms c) n = repeat (max_delay_ms c) n.
Proof.
  intros c n Hu. induction n as [|n IH]; [reflexivity|].
  cbn [delay_seq repeat]. rewrite next_delay_at_cap by lia. now rewrite IH.
Qed.

(* initial_delay_ms >= max_delay_ms: the first wait is the initial delay as given, every later
   one is exactly the cap *)
Lemma retry_sleeps_cap_below_initial :
  forall X M (c : retry_cfg) (op : nat -> res X M) idx,
    (max_delay_ms c <= initial_delay_ms c)%N -> (max_delay_ms c <= u64_max)%N ->
    run_sleeps (retry c op idx) =
    match (run_calls (retry c op idx) - 1)%nat with
    | O => []
    | S n => initial_delay_ms c :: repeat (max_delay_ms c) n
    end.
Proof.
  intros X M c op idx Hi Hu. rewrite retry_sleeps.
  destruct (run_calls (retry c op idx) - 1)%nat as [|n]; [reflexivity|].
  cbn [delay_seq]. rewrite next_delay_at_cap by assumption. now rewrite delay_seq_at_cap.
Qed.

(* ------------------------------------------------------------------ run_cloud_io_batch sleeps *)

Section IoBatchSleeps.
  Variables A R M : Type.
  Variable c : retry_cfg.
  Variable op : nat -> A -> res R M.

  (* with `counts` the attempts spent on each started item: the trace is as in io_batch_spec
     and the sleeps are, item after item, a FRESH delay sequence (the back-off restarts at
     initial_delay_ms for every item) of count-1 terms *)
  Lemma io_batch_sleeps : forall items idx,
      exists counts : list nat,
        (length counts <= length items)%nat /\
        Forall (fun a => (1 <= a <= budget c)%nat) counts /\
        snd (fst (io_batch c op items idx)) =
          concat (map (fun p => repeat (fst p) (snd p)) (combine items counts)) /\
        snd (io_batch c op items idx) =
          concat (map (fun a => delay_seq c (initial_delay_ms c) (a - 1)) counts).
  Proof.
    induction items as [|x rest IH]; intros idx.
    - exists []. cbn. repeat split; auto.
    - cbn [io_batch].
      destruct (retry_spec c (fun i => op i x) idx) as (a & Ha & Hcalls & Hout & _ & _ & Hsl).
      rewrite Hout, Hcalls, Hsl.
      destruct (op (idx + (a - 1))%nat x) as [v|k m] eqn:Hlast.
      + destruct (IH (idx + a)%nat) as (counts & Hlen & Hall & Htr & Hs).
        destruct (io_batch c op rest (idx + a)) as [[o tr'] sl'].
        cbn [fst snd] in *.
        exists (a :: counts). cbn [length combine map concat fst snd].
        split; [lia|]. split; [constructor; assumption|].
        split; [now rewrite Htr|now rewrite Hs].
      + cbn [fst snd].
        exists [a]. cbn [length combine map concat fst snd].
        split; [lia|]. split; [constructor; [exact Ha|constructor]|].
        split; [destruct rest; cbn; now rewrite app_nil_r|now rewrite app_nil_r].
  Qed.
End IoBatchSleeps.

(* ------------------------------------------------------------------ examples *)

(* instantaneous attempts; fails once with Network, then Ok 7 *)
Definition ex_once (i : nat) : res nat nat :=
  match i with O => RErr Network 0%nat | _ => ROk 7%nat end.
Definition ex_cfg_wait : retry_cfg :=
  {| max_attempts := 2; initial_delay_ms := 400; max_delay_ms := 1000; mult_ge2 := true |}.
Definition ex_cfg_low_cap : retry_cfg :=
  {| max_attempts := 4; initial_delay_ms := 600; max_delay_ms := 50; mult_ge2 := true |}.
Definition no_busy (_ : nat) : N := 0%N.
