(* C06 in the property's own words, per built-in combiner: instances of the generic mergeability
   theorems (Proofs/CombinersLawful.v) at the lawfulness proofs of the built-ins. *)
From Coq Require Import List ZArith QArith Bool Permutation Sorted.
From IB Require Import Combiners.Lawful Combiners.Basic Combiners.TopK Combiners.Distinct.
From IB Require Import Proofs.CombinersLawful Proofs.CombinersBasic Proofs.CombinersTopK
  Proofs.CombinersDistinct.
Import ListNotations.
Open Scope Z_scope.

(* the values of all parts of a merge tree *)
Definition tree_values {V} (t : mtree V) : list V := concat (mparts t).

Lemma count_tree : forall (V : Type) (t : mtree V) vs,
    Permutation (tree_values t) vs ->
    c_finish (count_combiner V) (meval (count_combiner V) t) = Z.of_nat (length vs).
Proof. intros V t vs HP. apply (merge_tree_spec _ _ _ (count_lawful V) t vs HP). Qed.

Lemma sum_tree : forall t vs,
    Permutation (tree_values t) vs -> c_finish sum_combiner (meval sum_combiner t) = zsum vs.
Proof. intros t vs HP. apply (merge_tree_spec _ _ _ sum_lawful t vs HP). Qed.

(* Min: Panic (None) exactly for no values at all, otherwise a least element *)
Lemma min_tree : forall t vs,
    Permutation (tree_values t) vs ->
    match c_finish min_combiner (meval min_combiner t) with
    | None => vs = []
    | Some x => In x vs /\ forall y, In y vs -> x <= y
    end.
Proof.
  intros t vs HP. pose proof (merge_tree_spec _ _ _ min_lawful t vs HP) as H.
  unfold min_spec in H. destruct H as [[-> ->]|[x [-> H]]]; [reflexivity|exact H].
Qed.
Lemma max_tree : forall t vs,
    Permutation (tree_values t) vs ->
    match c_finish max_combiner (meval max_combiner t) with
    | None => vs = []
    | Some x => In x vs /\ forall y, In y vs -> y <= x
    end.
Proof.
  intros t vs HP. pose proof (merge_tree_spec _ _ _ max_lawful t vs HP) as H.
  unfold max_spec in H. destruct H as [[-> ->]|[x [-> H]]]; [reflexivity|exact H].
Qed.

Lemma average_tree : forall t vs,
    Permutation (tree_values t) vs ->
    (c_finish average_combiner (meval average_combiner t) == mean vs)%Q.
Proof. intros t vs HP. apply (merge_tree_spec _ _ _ average_lawful t vs HP). Qed.

Lemma topk_tree : forall k t vs,
    Permutation (tree_values t) vs ->
    c_finish (topk_combiner k) (meval (topk_combiner k) t) = firstn k (sort_desc vs).
Proof. intros k t vs HP. apply (merge_tree_spec _ _ _ (topk_lawful k) t vs HP). Qed.

Section DistinctTrees.
  Context {T : Type}.
  Variable eqb : T -> T -> bool.
  Hypothesis eqb_spec : forall x y, reflect (x = y) (eqb x y).

  Lemma distinct_set_tree : forall (t : mtree T) vs,
      Permutation (tree_values t) vs ->
      let o := c_finish (distinct_set_combiner eqb) (meval (distinct_set_combiner eqb) t) in
      NoDup o /\ forall x, In x o <-> In x vs.
  Proof.
    intros t vs HP. apply (merge_tree_spec _ _ _ (distinct_set_lawful eqb eqb_spec) t vs HP).
  Qed.

  Lemma distinct_count_tree : forall (t : mtree T) vs,
      Permutation (tree_values t) vs ->
      exists s, NoDup s /\ (forall x, In x s <-> In x vs) /\
        c_finish (distinct_count_combiner eqb) (meval (distinct_count_combiner eqb) t)
        = Z.of_nat (length s).
  Proof.
    intros t vs HP. apply (merge_tree_spec _ _ _ (distinct_count_lawful eqb eqb_spec) t vs HP).
  Qed.
End DistinctTrees.

(* "any split and merge order equals the fold", literally, for the combiners whose output is
   determined up to Leibniz equality *)
Lemma topk_tree_eq_fold : forall k t vs,
    Permutation (tree_values t) vs ->
    c_finish (topk_combiner k) (meval (topk_combiner k) t)
    = c_finish (topk_combiner k) (fold_acc (topk_combiner k) vs).
Proof.
  intros k t vs HP.
  apply (merge_tree_eq_fold _ _ _ (topk_lawful k) eq (topk_spec_functional k) t vs HP).
Qed.
Lemma min_tree_eq_fold : forall t vs,
    Permutation (tree_values t) vs ->
    c_finish min_combiner (meval min_combiner t) = c_finish min_combiner (fold_acc min_combiner vs).
Proof.
  intros t vs HP. apply (merge_tree_eq_fold _ _ _ min_lawful eq min_spec_functional t vs HP).
Qed.
Lemma max_tree_eq_fold : forall t vs,
    Permutation (tree_values t) vs ->
    c_finish max_combiner (meval max_combiner t) = c_finish max_combiner (fold_acc max_combiner vs).
Proof.
  intros t vs HP. apply (merge_tree_eq_fold _ _ _ max_lawful eq max_spec_functional t vs HP).
Qed.

(* the TopK accumulator is canonical, so the identity law holds as an equation between
   accumulators, not only between outputs *)
Lemma topk_merge_create_eq : forall k a m,
    topk_R k a m -> topk_merge k a [] = a /\ topk_merge k [] a = a.
Proof.
  intros k a m Ha. split.
  - pose proof (merge_create_r _ _ _ (topk_lawful k) a m Ha) as H.
    cbn [topk_combiner c_merge c_create] in H. unfold topk_R in *. congruence.
  - pose proof (merge_create_l _ _ _ (topk_lawful k) a m Ha) as H.
    cbn [topk_combiner c_merge c_create] in H. unfold topk_R in *. congruence.
Qed.
Lemma topk_build_eq_fold_acc : forall k vs,
    c_build (topk_combiner k) vs = fold_acc (topk_combiner k) vs.
Proof. reflexivity. Qed.

(* merging with a fresh accumulator returns the very same accumulator (Leibniz equality) for the
   combiners whose accumulators are canonical; AverageF64: the count is equal and the sum is the
   same rational (x + 0 is not syntactically x in Q) *)
Lemma identity_exact :
  (forall V a, c_merge (count_combiner V) a (c_create (count_combiner V)) = a /\
               c_merge (count_combiner V) (c_create (count_combiner V)) a = a) /\
  (forall a, c_merge sum_combiner a (c_create sum_combiner) = a /\
             c_merge sum_combiner (c_create sum_combiner) a = a) /\
  (forall a, c_merge min_combiner a (c_create min_combiner) = a /\
             c_merge min_combiner (c_create min_combiner) a = a) /\
  (forall a, c_merge max_combiner a (c_create max_combiner) = a /\
             c_merge max_combiner (c_create max_combiner) a = a) /\
  (forall a, let r := c_merge average_combiner a (c_create average_combiner) in
             let l := c_merge average_combiner (c_create average_combiner) a in
             (fst r == fst a)%Q /\ snd r = snd a /\ (fst l == fst a)%Q /\ snd l = snd a) /\
  (forall T (eqb : T -> T -> bool) a,
      c_merge (distinct_set_combiner eqb) a (c_create (distinct_set_combiner eqb)) = a /\
      c_merge (distinct_set_combiner eqb) (c_create (distinct_set_combiner eqb)) a = a).
Proof.
  repeat apply conj.
  - intros V a. cbn. split; ring.
  - intros a. cbn. split; ring.
  - intros [a|]; cbn; split; reflexivity.
  - intros [a|]; cbn; split; reflexivity.
  - intros [s n]. cbn [average_combiner c_merge c_create fst snd]. repeat split; try ring.
  - intros T eqb a. cbn [distinct_set_combiner c_merge c_create]. split; [|reflexivity].
    destruct a; reflexivity.
Qed.
