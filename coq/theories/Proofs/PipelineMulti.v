(* Proofs about Pipeline/Multi.v (C08): pipelines are independent state machines - a
   multi-pipeline history acts on pipeline q exactly like its projection on q. *)
From Coq Require Import List Arith Bool Lia.
From IB Require Import Pipeline.Graph Pipeline.History Pipeline.Invariant Pipeline.Multi.
From IB Require Import Proofs.PipelineInv Proofs.PipelineMain.
Import ListNotations.

Section MultiProofs.
  Variables V F G : Type.
  Notation config := (config V F G).
  Notation label := (label V F G).
  Notation event := (event V F G).
  Notation mconfig := (mconfig V F G).
  Notation mlabel := (mlabel V F G).

  Lemma mrun_proj : forall (h : list mlabel) (mc mc' : mconfig) (evs : list event),
    mrun mc h = Some (mc', evs) ->
    forall q, exists evs_q,
      run (mc q) (proj q h) = Some (mc' q, evs_q) /\ (forall e, In e evs_q -> In e evs).
  Proof.
    induction h as [|[p l] rest IH]; intros mc mc' evs H q.
    - cbn in H. inversion H; subst. exists []. split; [reflexivity|intros e []].
    - cbn [mrun] in H. unfold mstep in H. cbn [fst snd] in H.
      destruct (cstep (mc p) l) as [[c1 ev1]|] eqn:E1; [|discriminate].
      destruct (mrun (mset mc p c1) rest) as [[mc2 evs']|] eqn:E2; [|discriminate].
      inversion H; subst mc2 evs. clear H.
      destruct (IH _ _ _ E2 q) as [evs_q [Hr Hin]].
      unfold proj. cbn [filter fst].
      destruct (p =? q) eqn:Epq.
      + apply Nat.eqb_eq in Epq. subst q. cbn [map snd run]. rewrite E1.
        unfold mset in Hr. rewrite Nat.eqb_refl in Hr. fold (proj p rest). rewrite Hr.
        exists (ev1 ++ evs_q). split; [reflexivity|].
        intros e He. apply in_app_or in He. apply in_or_app.
        destruct He as [He|He]; [now left|right; now apply Hin].
      + unfold mset in Hr. rewrite Nat.eqb_sym in Epq. rewrite Epq in Hr.
        fold (proj q rest). exists evs_q. split; [exact Hr|].
        intros e He. apply in_or_app. right. now apply Hin.
  Qed.

  Lemma mrun_events : forall (h : list mlabel) (mc mc' : mconfig) (evs : list event),
    mrun mc h = Some (mc', evs) ->
    forall e, In e evs ->
      exists q evs_q, run (mc q) (proj q h) = Some (mc' q, evs_q) /\ In e evs_q.
  Proof.
    induction h as [|[p l] rest IH]; intros mc mc' evs H e He.
    - cbn in H. inversion H; subst. destruct He.
    - pose proof H as H0. cbn [mrun] in H. unfold mstep in H. cbn [fst snd] in H.
      destruct (cstep (mc p) l) as [[c1 ev1]|] eqn:E1; [|discriminate].
      destruct (mrun (mset mc p c1) rest) as [[mc2 evs']|] eqn:E2; [|discriminate].
      inversion H; subst mc2 evs. clear H.
      apply in_app_or in He. destruct He as [He|He].
      + (* an event of the first step: it is an event of pipeline p's projection *)
        destruct (mrun_proj rest _ _ _ E2 p) as [evs_p [Hr _]].
        exists p, (ev1 ++ evs_p). split; [|apply in_or_app; now left].
        unfold proj. cbn [filter fst]. rewrite Nat.eqb_refl. cbn [map snd run]. rewrite E1.
        unfold mset in Hr. rewrite Nat.eqb_refl in Hr. fold (proj p rest). now rewrite Hr.
      + destruct (IH _ _ _ E2 e He) as [q [evs_q [Hr Hin]]].
        destruct (p =? q) eqn:Epq.
        * apply Nat.eqb_eq in Epq. subst q. exists p, (ev1 ++ evs_q).
          split; [|apply in_or_app; now right].
          unfold proj. cbn [filter fst]. rewrite Nat.eqb_refl.
          cbn [map snd run]. rewrite E1. unfold mset in Hr. rewrite Nat.eqb_refl in Hr.
          fold (proj p rest). now rewrite Hr.
        * exists q, evs_q. split; [|exact Hin].
          unfold proj. cbn [filter fst]. rewrite Epq. fold (proj q rest).
          unfold mset in Hr. rewrite Nat.eqb_sym in Epq. rewrite Epq in Hr. exact Hr.
  Qed.

  (* every pipeline of a reachable multi-pipeline configuration satisfies the invariant, has
     pairwise distinct ids, and is what its own projection of the history builds *)
  Theorem multi_reachable : forall (h : list mlabel) (mc : mconfig) (evs : list event),
    mrun minit h = Some (mc, evs) ->
    forall q,
      Inv (mc q) /\
      NoDup (map fst (nodes (c_state (mc q)))) /\
      NoDup (map h_id (c_pool (mc q))) /\
      exists evs_q, run init_config (proj q h) = Some (mc q, evs_q).
  Proof.
    intros h mc evs H q.
    destruct (mrun_proj h _ _ _ H q) as [evs_q [Hr _]]. unfold minit in Hr.
    pose proof (inv_reachable V F G _ _ _ Hr) as HI.
    destruct (ids_distinct V F G _ _ _ Hr) as (Hp & Hh & Hn).
    split; [exact HI|]. split; [exact Hn|]. split; [rewrite Hp; exact Hh|].
    exists evs_q. exact Hr.
  Qed.

  Variable interp_f : F -> list V -> list V.
  Variable interp_g : G -> list V -> list V -> list V.

  (* every collect of a multi-pipeline history returns the lineage value: what happens on the
     other pipelines (and on this one) in between is irrelevant *)
  Theorem multi_collect_events :
    forall (h : list mlabel) (mc : mconfig) (evs : list event) t x plan,
      mrun minit h = Some (mc, evs) ->
      In (EvCollect t x plan) evs ->
      collect_value interp_f interp_g plan = value_of_lineage interp_f interp_g (h_lin x).
  Proof.
    intros h mc evs t x plan H Hin.
    destruct (mrun_events h _ _ _ H _ Hin) as [q [evs_q [Hr Hq]]]. unfold minit in Hr.
    exact (collect_events V F G interp_f interp_g _ _ _ _ _ _ Hr Hq).
  Qed.
End MultiProofs.
