(* C06, accumulator level: the accumulators of Count, Sum, Min, Max and TopK are canonical (the
   represented multiset determines the accumulator), so ANY two ways of feeding the same values
   through create / add_input / merge / build_from_group produce the SAME accumulator: in
   particular build_from_group of a group IS the fold, and build_from_group of a concatenation
   IS the merge of the builds. *)
From Coq Require Import List ZArith QArith Lia Permutation Sorted Bool.
From IB Require Import Combiners.Lawful Combiners.Basic Combiners.TopK Combiners.Shapes.
From IB Require Import Proofs.CombinersLawful Proofs.CombinersBasic Proofs.CombinersTopK
  Proofs.CombinersShapes.
Import ListNotations.
Open Scope Z_scope.

Lemma count_R_functional : forall V (a a' : Z) (m : list V), count_R a m -> count_R a' m -> a = a'.
Proof. unfold count_R. intros. congruence. Qed.
Lemma sum_R_functional : forall a a' m, sum_R a m -> sum_R a' m -> a = a'.
Proof. unfold sum_R. intros. congruence. Qed.
Lemma topk_R_functional : forall k a a' m, topk_R k a m -> topk_R k a' m -> a = a'.
Proof. unfold topk_R. intros. congruence. Qed.
Lemma min_R_functional : forall a a' m, min_R a m -> min_R a' m -> a = a'.
Proof.
  intros [x|] [y|] m Ha Hb; cbn [min_R] in *.
  - destruct Ha as [Hx Hlx]. destruct Hb as [Hy Hly].
    pose proof (Hlx y Hy). pose proof (Hly x Hx). f_equal. lia.
  - subst m. destruct Ha as [[] _].
  - subst m. destruct Hb as [[] _].
  - reflexivity.
Qed.
Lemma max_R_functional : forall a a' m, max_R a m -> max_R a' m -> a = a'.
Proof.
  intros [x|] [y|] m Ha Hb; cbn [max_R] in *.
  - destruct Ha as [Hx Hlx]. destruct Hb as [Hy Hly].
    pose proof (Hlx y Hy). pose proof (Hly x Hx). f_equal. lia.
  - subst m. destruct Ha as [[] _].
  - subst m. destruct Hb as [[] _].
  - reflexivity.
Qed.

Definition same_accumulator {V A O} (c : combiner V A O) : Prop :=
  forall e e' : aexpr V, Permutation (avalues e) (avalues e') -> aeval c e = aeval c e'.

Lemma canonical_builtins :
  (forall V, same_accumulator (count_combiner V)) /\ same_accumulator sum_combiner /\
  same_accumulator min_combiner /\ same_accumulator max_combiner /\
  (forall k, same_accumulator (topk_combiner k)).
Proof.
  exact (conj (fun V => canonical_accumulator _ _ _ (count_lawful V) (count_R_functional V))
        (conj (canonical_accumulator _ _ _ sum_lawful sum_R_functional)
        (conj (canonical_accumulator _ _ _ min_lawful min_R_functional)
        (conj (canonical_accumulator _ _ _ max_lawful max_R_functional)
              (fun k => canonical_accumulator _ _ _ (topk_lawful k) (topk_R_functional k)))))).
Qed.

(* AverageF64: the same count and the same rational sum *)
Lemma average_same_accumulator : forall e e' : aexpr Q,
    Permutation (avalues e) (avalues e') ->
    (fst (aeval average_combiner e) == fst (aeval average_combiner e'))%Q /\
    snd (aeval average_combiner e) = snd (aeval average_combiner e').
Proof.
  intros e e' HP.
  pose proof (aeval_R _ _ _ average_lawful e) as [H1 H2].
  pose proof (aeval_R _ _ _ average_lawful e') as [H1' H2'].
  split.
  - rewrite H1, H1'. apply qsum_perm. exact HP.
  - rewrite H2, H2'. f_equal. apply Permutation_length. exact HP.
Qed.

Definition build_is_fold_and_splits {V A O} (c : combiner V A O) : Prop :=
  (forall vs, c_build c vs = fold_acc c vs) /\
  (forall vs ws, c_build c (vs ++ ws) = c_merge c (c_build c vs) (c_build c ws)).

Lemma build_canonical : forall {V A O} (c : combiner V A O) R spec,
    lawful c R spec -> (forall a a' m, R a m -> R a' m -> a = a') -> build_is_fold_and_splits c.
Proof.
  intros V A O c R spec L F. split.
  - apply (canonical_build_is_fold c R spec L F).
  - apply (canonical_build_app c R spec L F).
Qed.

Lemma build_canonical_builtins :
  (forall V, build_is_fold_and_splits (count_combiner V)) /\
  build_is_fold_and_splits sum_combiner /\
  build_is_fold_and_splits min_combiner /\ build_is_fold_and_splits max_combiner /\
  (forall k, build_is_fold_and_splits (topk_combiner k)).
Proof.
  exact (conj (fun V => build_canonical _ _ _ (count_lawful V) (count_R_functional V))
        (conj (build_canonical _ _ _ sum_lawful sum_R_functional)
        (conj (build_canonical _ _ _ min_lawful min_R_functional)
        (conj (build_canonical _ _ _ max_lawful max_R_functional)
              (fun k => build_canonical _ _ _ (topk_lawful k) (topk_R_functional k)))))).
Qed.

(* ---- TopK: the fast path of merge is only an optimisation ---- *)
Lemma topk_slow_path_when_it_fits : forall k acc other,
    asc acc -> (length acc + length other <= k)%nat ->
    heap_extend [] (two_pointer k (rev acc) (rev (sort_asc other))) = heap_extend acc other.
Proof.
  intros k acc other Hacc Hfit. apply asc_perm_eq.
  - apply heap_extend_asc. constructor.
  - apply heap_extend_asc. exact Hacc.
  - eapply perm_trans; [apply heap_extend_perm|]. rewrite app_nil_r.
    eapply perm_trans; [apply tp_perm; rewrite !rev_length, sort_asc_length; lia|].
    symmetry. eapply perm_trans; [apply heap_extend_perm|].
    apply perm_trans with (acc ++ other); [apply Permutation_app_comm|].
    apply Permutation_app; [apply Permutation_rev|].
    eapply perm_trans; [|apply Permutation_rev]. symmetry. apply sort_asc_perm.
Qed.

Theorem topk_merge_is_two_pointer : forall k acc other,
    asc acc ->
    topk_merge k acc other = heap_extend [] (two_pointer k (rev acc) (rev (sort_asc other))).
Proof.
  intros k acc other Hacc. unfold topk_merge.
  destruct (Nat.leb_spec (length acc + length other) k) as [Hfit|Hbig]; [|reflexivity].
  symmetry. apply topk_slow_path_when_it_fits; assumption.
Qed.

(* ---- Min / Max through a strictly increasing key ---- *)
Section Key.
  Variable f : Z -> Z.
  Hypothesis f_mono : forall x y, x < y <-> f x < f y.

  Lemma f_ltb : forall x y, (f x <? f y) = (x <? y).
  Proof.
    intros x y. destruct (Z.ltb_spec x y) as [H|H].
    - apply Z.ltb_lt. apply (proj1 (f_mono x y)). exact H.
    - apply Z.ltb_ge. destruct (Z.le_gt_cases (f y) (f x)) as [H'|H']; [exact H'|].
      apply (proj2 (f_mono x y)) in H'. lia.
  Qed.
  Lemma f_gtb : forall x y, (f x >? f y) = (x >? y).
  Proof. intros x y. rewrite !Z.gtb_ltb. apply f_ltb. Qed.
  Lemma f_geb : forall x y, (f x >=? f y) = (x >=? y).
  Proof. intros x y. rewrite !Z.geb_leb, !Z.leb_antisym, f_ltb. reflexivity. Qed.

  Lemma min_add_key : forall a v, min_add (option_map f a) (f v) = option_map f (min_add a v).
  Proof. intros [cur|] v; cbn [min_add option_map]; [rewrite f_ltb; destruct (v <? cur)|]; reflexivity. Qed.
  Lemma max_add_key : forall a v, max_add (option_map f a) (f v) = option_map f (max_add a v).
  Proof. intros [cur|] v; cbn [max_add option_map]; [rewrite f_gtb; destruct (v >? cur)|]; reflexivity. Qed.
  Lemma min_merge_key : forall a b,
      min_merge (option_map f a) (option_map f b) = option_map f (min_merge a b).
  Proof.
    intros [x|] [y|]; cbn [min_merge option_map]; try reflexivity.
    rewrite f_ltb. destruct (y <? x); reflexivity.
  Qed.
  Lemma max_merge_key : forall a b,
      max_merge (option_map f a) (option_map f b) = option_map f (max_merge a b).
  Proof.
    intros [x|] [y|]; cbn [max_merge option_map]; try reflexivity.
    rewrite f_gtb. destruct (y >? x); reflexivity.
  Qed.
  Lemma iter_min_key : forall vs, iter_min (map f vs) = option_map f (iter_min vs).
  Proof.
    intros [|x r]; cbn [iter_min map option_map]; [reflexivity|]. f_equal.
    revert x. induction r as [|v r IH]; intros x; cbn [map fold_left]; [reflexivity|].
    rewrite f_ltb. destruct (v <? x); apply IH.
  Qed.
  Lemma iter_max_key : forall vs, iter_max (map f vs) = option_map f (iter_max vs).
  Proof.
    intros [|x r]; cbn [iter_max map option_map]; [reflexivity|]. f_equal.
    revert x. induction r as [|v r IH]; intros x; cbn [map fold_left]; [reflexivity|].
    rewrite f_geb. destruct (v >=? x); apply IH.
  Qed.

  Theorem min_monotone_key : forall e,
      aeval min_combiner (map_aexpr f e) = option_map f (aeval min_combiner e).
  Proof.
    induction e as [|e IH v|l IHl r IHr|vs]; cbn [map_aexpr aeval min_combiner c_create c_add c_merge c_build] in *.
    - reflexivity.
    - rewrite IH. apply min_add_key.
    - rewrite IHl, IHr. apply min_merge_key.
    - apply iter_min_key.
  Qed.
  Theorem max_monotone_key : forall e,
      aeval max_combiner (map_aexpr f e) = option_map f (aeval max_combiner e).
  Proof.
    induction e as [|e IH v|l IHl r IHr|vs]; cbn [map_aexpr aeval max_combiner c_create c_add c_merge c_build] in *.
    - reflexivity.
    - rewrite IH. apply max_add_key.
    - rewrite IHl, IHr. apply max_merge_key.
    - apply iter_max_key.
  Qed.
End Key.
