(* Proofs about the sorting collectors (Engine/Sorted.v, src/helpers/collect_sorted.rs). *)
From Coq Require Import List ZArith Bool Permutation Sorted Lia.
From IB Require Import Engine.Val Engine.Ops Engine.Nodes Engine.Exec Engine.Planner Engine.Lang Engine.Denote Engine.Static Engine.Sorted
     Proofs.EngineBase Proofs.EngineClassify Proofs.EngineElementwise.
Import ListNotations.

Section StableSort.
  Variable le : val -> val -> bool.
  Hypothesis le_total : forall a b, le a b = true \/ le b a = true.
  Hypothesis le_trans : forall a b c, le a b = true -> le b c = true -> le a c = true.

  Definition eqv (a b : val) : bool := le a b && le b a.
  Definition sorted_by (l : list val) : Prop := StronglySorted (fun a b => le a b = true) l.

  Lemma le_refl : forall a, le a a = true.
  Proof. intros a. destruct (le_total a a); assumption. Qed.
  Lemma eqv_refl : forall a, eqv a a = true.
  Proof. intros a. unfold eqv. rewrite le_refl. reflexivity. Qed.

  Lemma sinsert_perm : forall x l, Permutation (x :: l) (sinsert le x l).
  Proof.
    intros x l. induction l as [|y r IH]; cbn [sinsert].
    - apply Permutation_refl.
    - destruct (le x y).
      + apply Permutation_refl.
      + eapply perm_trans; [apply perm_swap|]. apply perm_skip. exact IH.
  Qed.

  Lemma ssort_perm : forall l, Permutation l (ssort le l).
  Proof.
    induction l as [|x r IH]; cbn [ssort].
    - apply perm_nil.
    - eapply perm_trans; [apply perm_skip; exact IH|]. apply sinsert_perm.
  Qed.

  Lemma sinsert_sorted : forall x l, sorted_by l -> sorted_by (sinsert le x l).
  Proof.
    intros x l. induction l as [|y r IH]; intros Hs; cbn [sinsert].
    - constructor; [constructor | constructor].
    - inversion Hs as [|y' r' Hr Hy]; subst.
      destruct (le x y) eqn:E.
      + constructor; [exact Hs|]. constructor; [exact E|].
        rewrite Forall_forall in *. intros z Hz. apply (le_trans x y z E). apply Hy. exact Hz.
      + assert (Hyx : le y x = true) by (destruct (le_total x y) as [H|H]; [congruence | exact H]).
        constructor; [apply IH; exact Hr|].
        rewrite Forall_forall in *. intros z Hz.
        apply (Permutation_in z (Permutation_sym (sinsert_perm x r))) in Hz.
        destruct Hz as [Hz|Hz]; [subst z; exact Hyx | apply Hy; exact Hz].
  Qed.

  Lemma ssort_sorted : forall l, sorted_by (ssort le l).
  Proof.
    induction l as [|x r IH]; cbn [ssort]; [constructor | apply sinsert_sorted; exact IH].
  Qed.

  (* stability: the elements of one equivalence class keep their relative order *)
  Lemma sinsert_stable : forall a x l,
      filter (eqv a) (sinsert le x l) = filter (eqv a) (x :: l).
  Proof.
    intros a x l. induction l as [|y r IH]; cbn [sinsert]; [reflexivity|].
    destruct (le x y) eqn:E; [reflexivity|].
    cbn [filter] in *. rewrite IH.
    destruct (eqv a y) eqn:Ey; [|reflexivity].
    destruct (eqv a x) eqn:Ex; [|reflexivity].
    exfalso. unfold eqv in Ey, Ex.
    apply andb_true_iff in Ey. apply andb_true_iff in Ex.
    destruct Ey as [Hay Hya]. destruct Ex as [Hax Hxa].
    rewrite (le_trans x a y Hxa Hay) in E. discriminate E.
  Qed.

  Lemma ssort_stable : forall a l, filter (eqv a) (ssort le l) = filter (eqv a) l.
  Proof.
    intros a l. induction l as [|x r IH]; cbn [ssort]; [reflexivity|].
    rewrite sinsert_stable. cbn [filter]. rewrite IH. reflexivity.
  Qed.

  Lemma sorted_head_le : forall h t x, sorted_by (h :: t) -> In x (h :: t) -> le h x = true.
  Proof.
    intros h t x Hs Hx. inversion Hs as [|h' t' _ Hh]; subst.
    destruct Hx as [Hx|Hx]; [subst; apply le_refl|].
    rewrite Forall_forall in Hh. apply Hh. exact Hx.
  Qed.

  Lemma filter_head_in : forall (p : val -> bool) l x r, filter p l = x :: r -> In x l.
  Proof.
    intros p l x r H. assert (Hin : In x (filter p l)) by (rewrite H; left; reflexivity).
    apply filter_In in Hin. destruct Hin as [Hin _]. exact Hin.
  Qed.

  (* ANY sorted list with the same per-class subsequences is the same list: a stable sort is
     determined by its specification, whatever algorithm computes it *)
  Lemma stable_sorted_unique : forall l1 l2,
      sorted_by l1 -> sorted_by l2 ->
      (forall a, filter (eqv a) l1 = filter (eqv a) l2) -> l1 = l2.
  Proof.
    induction l1 as [|h1 t1 IH]; intros l2 Hs1 Hs2 Hf.
    - destruct l2 as [|h2 t2]; [reflexivity|].
      specialize (Hf h2). cbn [filter] in Hf. rewrite eqv_refl in Hf. discriminate Hf.
    - destruct l2 as [|h2 t2].
      + specialize (Hf h1). cbn [filter] in Hf. rewrite eqv_refl in Hf. discriminate Hf.
      + assert (H12 : le h1 h2 = true).
        { apply (sorted_head_le h1 t1 h2 Hs1).
          pose proof (Hf h2) as H. cbn [filter] in H. rewrite (eqv_refl h2) in H.
          destruct (eqv h2 h1) eqn:E.
          - injection H as H _. left. exact H.
          - right. apply (filter_head_in _ _ _ _ H). }
        assert (H21 : le h2 h1 = true).
        { apply (sorted_head_le h2 t2 h1 Hs2).
          pose proof (Hf h1) as H. cbn [filter] in H. rewrite (eqv_refl h1) in H.
          destruct (eqv h1 h2) eqn:E.
          - injection H as H _. left. symmetry. exact H.
          - right. symmetry in H. apply (filter_head_in _ _ _ _ H). }
        assert (Heq : h1 = h2).
        { pose proof (Hf h1) as H. cbn [filter] in H. rewrite (eqv_refl h1) in H.
          unfold eqv at 2 in H. rewrite H12, H21 in H. cbn [andb] in H.
          injection H as H _. exact H. }
        subst h2. f_equal.
        inversion Hs1 as [|? ? Ht1 _]; subst. inversion Hs2 as [|? ? Ht2 _]; subst.
        apply IH; [exact Ht1 | exact Ht2|].
        intros a. specialize (Hf a). cbn [filter] in Hf.
        destruct (eqv a h1); [injection Hf as Hf; exact Hf | exact Hf].
  Qed.

  (* the specification of a stable sort and the fact that ssort is the only function meeting it *)
  Definition stable_sort_of (l out : list val) : Prop :=
    Permutation l out /\ sorted_by out /\ forall a, filter (eqv a) out = filter (eqv a) l.

  Lemma ssort_is_stable_sort : forall l, stable_sort_of l (ssort le l).
  Proof.
    intros l. split; [apply ssort_perm|]. split; [apply ssort_sorted|].
    intros a. apply ssort_stable.
  Qed.

  Lemma stable_sort_unique : forall l out, stable_sort_of l out -> out = ssort le l.
  Proof.
    intros l out [_ [Hs Hf]]. apply stable_sorted_unique; [exact Hs | apply ssort_sorted|].
    intros a. rewrite Hf, ssort_stable. reflexivity.
  Qed.

  (* when equivalent elements are equal (a total ORDER), being a sorted permutation is enough *)
  Hypothesis le_antisym : forall a b, le a b = true -> le b a = true -> a = b.

  Lemma sorted_perm_unique : forall l1 l2,
      Permutation l1 l2 -> sorted_by l1 -> sorted_by l2 -> l1 = l2.
  Proof.
    induction l1 as [|h1 t1 IH]; intros l2 Hp Hs1 Hs2.
    - apply Permutation_nil in Hp. symmetry. exact Hp.
    - destruct l2 as [|h2 t2]; [apply Permutation_sym, Permutation_nil in Hp; discriminate Hp|].
      assert (Heq : h1 = h2).
      { apply le_antisym.
        - apply (sorted_head_le h1 t1 h2 Hs1).
          apply (Permutation_in h2 (Permutation_sym Hp)). left. reflexivity.
        - apply (sorted_head_le h2 t2 h1 Hs2).
          apply (Permutation_in h1 Hp). left. reflexivity. }
      subst h2. f_equal. apply Permutation_cons_inv in Hp.
      inversion Hs1; subst. inversion Hs2; subst. apply IH; assumption.
  Qed.
End StableSort.

(* ---------------- the two orders the collectors use ---------------- *)

Lemma val_leb_total : forall a b, val_leb a b = true \/ val_leb b a = true.
Proof.
  intros a b. unfold val_leb. rewrite (val_cmp_antisym a b).
  destruct (val_cmp a b); cbn [CompOpp]; auto.
Qed.

Lemma val_cmp_trans_le : forall a b c,
    val_cmp a b <> Gt -> val_cmp b c <> Gt -> val_cmp a c <> Gt.
Proof.
  intros a b c H1 H2.
  destruct (val_cmp a b) eqn:E1; [| |congruence].
  - apply val_cmp_eq in E1. subst b. exact H2.
  - destruct (val_cmp b c) eqn:E2; [| |congruence].
    + apply val_cmp_eq in E2. subst c. rewrite E1. discriminate.
    + rewrite (val_cmp_trans a b c E1 E2). discriminate.
Qed.

Lemma val_leb_trans : forall a b c, val_leb a b = true -> val_leb b c = true -> val_leb a c = true.
Proof.
  intros a b c H1 H2. unfold val_leb in *.
  assert (G1 : val_cmp a b <> Gt) by (destruct (val_cmp a b); congruence).
  assert (G2 : val_cmp b c <> Gt) by (destruct (val_cmp b c); congruence).
  pose proof (val_cmp_trans_le a b c G1 G2) as G.
  destruct (val_cmp a c); congruence.
Qed.

Lemma val_leb_antisym : forall a b, val_leb a b = true -> val_leb b a = true -> a = b.
Proof.
  intros a b H1 H2. unfold val_leb in *. rewrite (val_cmp_antisym a b) in H2.
  destruct (val_cmp a b) eqn:E; cbn [CompOpp] in H2; try discriminate.
  apply val_cmp_eq. exact E.
Qed.

Lemma key_leb_total : forall a b, key_leb a b = true \/ key_leb b a = true.
Proof. intros a b. apply val_leb_total. Qed.
Lemma key_leb_trans : forall a b c, key_leb a b = true -> key_leb b c = true -> key_leb a c = true.
Proof. intros a b c. apply val_leb_trans. Qed.

(* rows with the same key *)
Definition same_key (a b : val) : bool := val_eqb (row_key a) (row_key b).

Lemma val_eqb_true_iff : forall a b, val_eqb a b = true <-> a = b.
Proof. intros a b. destruct (val_eqb_spec a b); split; congruence. Qed.

Lemma eqv_key_is_same_key : forall a b, eqv key_leb a b = same_key a b.
Proof.
  intros a b. unfold eqv, key_leb, same_key.
  destruct (val_eqb (row_key a) (row_key b)) eqn:E.
  - apply val_eqb_true_iff in E. rewrite E.
    unfold val_leb. rewrite val_cmp_refl. reflexivity.
  - destruct (val_leb (row_key a) (row_key b)) eqn:E1; [|reflexivity].
    destruct (val_leb (row_key b) (row_key a)) eqn:E2; [|reflexivity].
    pose proof (val_leb_antisym _ _ E1 E2) as H. apply val_eqb_true_iff in H. congruence.
Qed.

Lemma filter_same_key : forall a l, filter (eqv key_leb a) l = filter (same_key a) l.
Proof. intros a l. apply filter_ext. intros b. apply eqv_key_is_same_key. Qed.

(* collect_*_sorted: the result is the unique sorted permutation of the plain result *)
Lemma sort_rows_spec : forall rows,
    Permutation rows (sort_rows rows) /\
    StronglySorted (fun a b => val_leb a b = true) (sort_rows rows) /\
    forall out, Permutation rows out -> StronglySorted (fun a b => val_leb a b = true) out ->
                out = sort_rows rows.
Proof.
  intros rows. split; [apply ssort_perm|].
  split; [apply (ssort_sorted val_leb val_leb_total val_leb_trans)|].
  intros out Hp Hs.
  apply (sorted_perm_unique val_leb val_leb_total val_leb_antisym out (sort_rows rows)).
  - eapply perm_trans; [apply Permutation_sym; exact Hp | apply ssort_perm].
  - exact Hs.
  - apply (ssort_sorted val_leb val_leb_total val_leb_trans).
Qed.

(* collect_par_sorted_by_key: keys ascend, every key's rows keep the order they had in the plain
   result, nothing is lost or invented - and that determines the result *)
Lemma sort_rows_by_key_spec : forall rows,
    let out := sort_rows_by_key rows in
    Permutation rows out /\
    StronglySorted (fun a b => val_leb (row_key a) (row_key b) = true) out /\
    (forall a, filter (same_key a) out = filter (same_key a) rows) /\
    forall out',
      StronglySorted (fun a b => val_leb (row_key a) (row_key b) = true) out' ->
      (forall a, filter (same_key a) out' = filter (same_key a) rows) ->
      out' = out.
Proof.
  intros rows out. subst out. unfold sort_rows_by_key.
  pose proof (ssort_is_stable_sort key_leb key_leb_total key_leb_trans rows) as [Hp [Hs Hf]].
  split; [exact Hp|]. split; [exact Hs|]. split.
  - intros a. rewrite <- !filter_same_key. apply Hf.
  - intros out' Hs' Hf'.
    apply (stable_sorted_unique key_leb key_leb_total); [exact Hs' | exact Hs|].
    intros a. rewrite Hf. rewrite !filter_same_key. apply Hf'.
Qed.

(* whole programs: the sorting collectors over an element-wise program return the sorted list
   interpretation *)
Definition run_sorted (which : nat) (o : outcome (list val)) : outcome (list val) :=
  omap_out (sorted_collect which) o.

Lemma program_sorted_as_written : forall which s steps parts,
    forallb elementwise_step steps = true -> well_typed (src_tag s) steps = true ->
    reorder_noop (fuse (cs_chain (compile s steps))) ->
    run_sorted which (run_seq s steps) = Ok (sorted_collect which (denote s steps)) /\
    run_sorted which (run_par s steps parts) = Ok (sorted_collect which (denote s steps)).
Proof.
  intros which s steps parts H1 H2 H3.
  destruct (program_as_written s steps parts H1 H2 H3) as [Hs Hp].
  rewrite Hs, Hp. split; reflexivity.
Qed.
