(* Proofs about JSONL objects in the object store: codec choice, write/read round trip,
   frame property of a write, read by glob (model: IO/CloudGlob.v). *)
From Coq Require Import List NArith Bool Lia Sorted Permutation.
From IB Require Import IO.Regex IO.CloudGlob Proofs.CloudGlobProofs.
Import ListNotations.
Open Scope N_scope.

(* ================================================================================ *)
(* 1. writer and reader choose the codec by the same test                             *)
(* ================================================================================ *)
Theorem codec_agree : forall key, writer_codec key = reader_ext_codec key.
Proof. intros key. reflexivity. Qed.

(* the choice depends only on the lower-cased key *)
Lemma writer_codec_case_insensitive : forall k1 k2,
  map lower k1 = map lower k2 -> writer_codec k1 = writer_codec k2.
Proof. intros k1 k2 H. unfold writer_codec. rewrite H. reflexivity. Qed.

(* ================================================================================ *)
(* 2. the store                                                                      *)
(* ================================================================================ *)
Lemma list_eqb_eq : forall a b, list_eqb a b = true <-> a = b.
Proof.
  induction a as [|x a IH]; intros [|y b]; cbn; split; intros H; try discriminate; auto.
  - apply andb_true_iff in H as [H1 H2]. apply N.eqb_eq in H1. apply IH in H2. congruence.
  - injection H as -> ->. rewrite N.eqb_refl. apply IH. reflexivity.
Qed.
Lemma list_eqb_refl : forall a, list_eqb a a = true.
Proof. intros a. apply list_eqb_eq. reflexivity. Qed.
Lemma list_eqb_neq : forall a b, list_eqb a b = false <-> a <> b.
Proof.
  intros a b. split.
  - intros H E. apply list_eqb_eq in E. congruence.
  - intros H. destruct (list_eqb a b) eqn:E; [apply list_eqb_eq in E; contradiction|reflexivity].
Qed.

Lemma get_put_same : forall st k v, get (put st k v) k = Some v.
Proof.
  induction st as [|[k' v'] st IH]; intros k v; cbn.
  - rewrite list_eqb_refl. reflexivity.
  - destruct (list_eqb k k') eqn:E; cbn.
    + rewrite list_eqb_refl. reflexivity.
    + rewrite E. apply IH.
Qed.

Lemma get_put_other : forall st k v k2, k2 <> k -> get (put st k v) k2 = get st k2.
Proof.
  induction st as [|[k' v'] st IH]; intros k v k2 Hne; cbn.
  - apply list_eqb_neq in Hne. rewrite Hne. reflexivity.
  - destruct (list_eqb k k') eqn:E; cbn.
    + apply list_eqb_eq in E. subst k'. apply list_eqb_neq in Hne. rewrite Hne. reflexivity.
    + destruct (list_eqb k2 k'); [reflexivity|]. apply IH. exact Hne.
Qed.

(* keys of the bucket after a write: the same list if the key existed, else one more *)
Lemma keys_put : forall st k v,
  map fst (put st k v) = if existsb (list_eqb k) (map fst st) then map fst st
                         else map fst st ++ [k].
Proof.
  induction st as [|[k' v'] st IH]; intros k v; cbn; [reflexivity|].
  destruct (list_eqb k k') eqn:E; cbn.
  - apply list_eqb_eq in E. subst. reflexivity.
  - rewrite IH. destruct (existsb (list_eqb k) (map fst st)); reflexivity.
Qed.

(* ================================================================================ *)
(* 3. lines                                                                          *)
(* ================================================================================ *)
Definition no_lf_cr (l : list N) : bool :=
  forallb (fun c => negb (c =? 10) && negb (c =? 13)) l.

Lemma line_ok_parts : forall l, line_ok l = true ->
  exists b rest, l = b :: rest /\ json_start b = true /\ no_lf_cr l = true.
Proof.
  intros [|b rest] H; [discriminate|]. cbn [line_ok] in H.
  apply andb_true_iff in H as [H1 H2]. exists b, rest. auto.
Qed.

Lemma strip_cr_rev : forall l, no_lf_cr l = true -> strip_cr (rev l) = l.
Proof.
  intros l H. unfold strip_cr. destruct (rev l) as [|c r] eqn:E.
  - apply (f_equal (@rev N)) in E. rewrite rev_involutive in E. subst. reflexivity.
  - assert (Hin : In c l) by (apply in_rev; rewrite E; left; reflexivity).
    unfold no_lf_cr in H. rewrite forallb_forall in H. specialize (H c Hin).
    apply andb_true_iff in H as [_ H]. apply negb_true_iff in H. rewrite H.
    rewrite <- E. apply rev_involutive.
Qed.

Lemma split_lines_line : forall l cur rest,
  forallb (fun c => negb (c =? 10)) l = true ->
  split_lines cur (l ++ 10 :: rest) = strip_cr (rev l ++ cur) :: split_lines [] rest.
Proof.
  induction l as [|x l IH]; intros cur rest H.
  - reflexivity.
  - cbn [forallb] in H. apply andb_true_iff in H as [Hx Hl]. apply negb_true_iff in Hx.
    cbn [app split_lines]. rewrite Hx. rewrite IH by exact Hl.
    cbn [rev]. rewrite <- app_assoc. reflexivity.
Qed.

Lemma no_lf_cr_no_lf : forall l, no_lf_cr l = true -> forallb (fun c => negb (c =? 10)) l = true.
Proof.
  intros l H. unfold no_lf_cr in H. rewrite forallb_forall in *. intros x Hx.
  specialize (H x Hx). apply andb_true_iff in H. tauto.
Qed.

Section Jsonl.
  Variable R : Type.
  Variable ser : R -> list N.
  Variable de : list N -> option R.
  Variable enc : codec -> list N -> list N.
  Variable dec : codec -> list N -> option (list N).

  (* what is assumed of one record: its serialisation is a JSON document on one line that
     deserialises to the record *)
  Definition record_ok (r : R) : Prop := line_ok (ser r) = true /\ de (ser r) = Some r.

  Lemma split_lines_payload : forall rs,
    Forall record_ok rs -> split_lines [] (jsonl_payload ser rs) = map ser rs.
  Proof.
    induction rs as [|r rs IH]; intros H; [reflexivity|].
    inversion H as [|? ? [Hl _] Hrs]; subst.
    destruct (line_ok_parts _ Hl) as (b & rest & _ & _ & Hn).
    cbn [jsonl_payload flat_map map]. rewrite <- app_assoc. cbn [app].
    rewrite split_lines_line by (apply no_lf_cr_no_lf; exact Hn).
    rewrite app_nil_r, strip_cr_rev by exact Hn.
    f_equal. apply IH. exact Hrs.
  Qed.

  Lemma json_start_not_ws : forall b, json_start b = true -> is_ws b = false.
  Proof.
    intros b H. unfold json_start in H. unfold is_ws.
    repeat rewrite orb_true_iff in H. rewrite andb_true_iff in H.
    repeat rewrite N.eqb_eq in H. repeat rewrite N.leb_le in H.
    apply orb_false_iff. split.
    - apply andb_false_iff. destruct (N.leb_spec 9 b); [right|left; reflexivity].
      apply N.leb_gt. lia.
    - apply N.eqb_neq. lia.
  Qed.

  (* a line that starts like a JSON document is not blank (its first byte is below 128 and is
     no white space, so it starts none of the multi-byte white-space characters either) *)
  Lemma json_start_not_blank : forall b rest, json_start b = true -> is_blank (b :: rest) = false.
  Proof.
    intros b rest H. cbn [is_blank]. rewrite (json_start_not_ws _ H).
    unfold json_start in H.
    repeat rewrite orb_true_iff in H. rewrite andb_true_iff in H.
    repeat rewrite N.eqb_eq in H. repeat rewrite N.leb_le in H.
    assert (H1 : (b =? 194) = false) by (apply N.eqb_neq; lia).
    assert (H2 : (b =? 225) = false) by (apply N.eqb_neq; lia).
    assert (H3 : (b =? 226) = false) by (apply N.eqb_neq; lia).
    assert (H4 : (b =? 227) = false) by (apply N.eqb_neq; lia).
    rewrite H1, H2, H3, H4. reflexivity.
  Qed.

  Lemma parse_lines_payload : forall rs,
    Forall record_ok rs -> parse_lines de (map ser rs) = Some rs.
  Proof.
    induction rs as [|r rs IH]; intros H; [reflexivity|].
    inversion H as [|? ? [Hl Hd] Hrs]; subst.
    destruct (line_ok_parts _ Hl) as (b & rest & E & Hb & _).
    cbn [map parse_lines]. rewrite E at 1.
    rewrite (json_start_not_blank _ rest Hb). rewrite Hd, IH by exact Hrs. reflexivity.
  Qed.

  (* a plain JSONL payload never starts with a codec signature *)
  Lemma json_start_no_magic : forall b rest, json_start b = true -> magic_codec (b :: rest) = None.
  Proof.
    intros b rest H. unfold json_start in H.
    repeat rewrite orb_true_iff in H. rewrite andb_true_iff in H.
    repeat rewrite N.eqb_eq in H. repeat rewrite N.leb_le in H.
    unfold magic_codec, magic_gzip, magic_zstd, magic_bzip2, magic_xz. cbn [starts_with].
    assert (H1 : (31 =? b) = false) by (apply N.eqb_neq; lia).
    assert (H2 : (40 =? b) = false) by (apply N.eqb_neq; lia).
    assert (H3 : (66 =? b) = false) by (apply N.eqb_neq; lia).
    assert (H4 : (253 =? b) = false) by (apply N.eqb_neq; lia).
    rewrite H1, H2, H3, H4. reflexivity.
  Qed.

  Lemma payload_no_magic : forall rs,
    Forall record_ok rs -> magic_codec (jsonl_payload ser rs) = None.
  Proof.
    intros [|r rs] H; [reflexivity|].
    inversion H as [|? ? [Hl _] _]; subst.
    destruct (line_ok_parts _ Hl) as (b & rest & E & Hb & _).
    cbn [jsonl_payload flat_map]. rewrite E. cbn [app]. apply json_start_no_magic. exact Hb.
  Qed.

  Hypothesis dec_enc : forall c b, dec c (enc c b) = Some b.

  Lemma reader_bytes_object : forall key rs,
    Forall record_ok rs ->
    reader_bytes dec key (object_bytes ser enc key rs) = Some (jsonl_payload ser rs).
  Proof.
    intros key rs H. unfold reader_bytes, object_bytes. rewrite <- codec_agree.
    destruct (writer_codec key) as [c|].
    - apply dec_enc.
    - rewrite payload_no_magic by exact H. reflexivity.
  Qed.

  (* round trip, for every key and every store *)
  Theorem cloud_roundtrip : forall st key rs,
    Forall record_ok rs ->
    cloud_read de dec (cloud_write ser enc st key rs) key = Ok rs.
  Proof.
    intros st key rs H. unfold cloud_read, cloud_write.
    rewrite get_put_same, reader_bytes_object by exact H.
    rewrite split_lines_payload, parse_lines_payload by exact H. reflexivity.
  Qed.

  (* a write does not disturb the other objects *)
  Theorem cloud_write_frame : forall st key rs k2,
    k2 <> key -> cloud_read de dec (cloud_write ser enc st key rs) k2 = cloud_read de dec st k2.
  Proof.
    intros st key rs k2 Hne. unfold cloud_read, cloud_write.
    rewrite get_put_other by exact Hne. reflexivity.
  Qed.

  (* the store keeps the LAST payload written under a key: an overwrite is never skipped *)
  Theorem cloud_overwrite : forall st key a b,
    Forall record_ok b ->
    cloud_read de dec (cloud_write ser enc (cloud_write ser enc st key a) key b) key = Ok b.
  Proof. intros st key a b H. apply cloud_roundtrip. exact H. Qed.

  (* ... also with writes to other keys in between *)
  Theorem cloud_overwrite_interleaved : forall st k1 k2 a a2 b,
    k1 <> k2 -> Forall record_ok b -> Forall record_ok a2 ->
    let st' := cloud_write ser enc (cloud_write ser enc (cloud_write ser enc st k1 a) k2 a2) k1 b in
    cloud_read de dec st' k1 = Ok b /\ cloud_read de dec st' k2 = Ok a2.
  Proof.
    intros st k1 k2 a a2 b Hne Hb Ha2. cbv zeta. split.
    - apply cloud_roundtrip. exact Hb.
    - rewrite cloud_write_frame by (intros E; apply Hne; symmetry; exact E).
      apply cloud_roundtrip. exact Ha2.
  Qed.

  (* reading by glob = concatenation, in sorted key order, of the objects whose keys match *)
  Lemma read_all_concat : forall st (f : list N -> list R) ks,
    (forall k, In k ks -> cloud_read de dec st k = Ok (f k)) ->
    read_all de dec st ks = Ok (flat_map f ks).
  Proof.
    intros st f. induction ks as [|k ks IH]; intros H; [reflexivity|].
    cbn [read_all flat_map]. rewrite (H k (or_introl eq_refl)).
    rewrite IH by (intros; apply H; right; assumption). reflexivity.
  Qed.

  Theorem read_glob_concat : forall st p (f : list N -> list R),
    st <> [] ->
    (forall k, In k (map fst st) -> glob_match p k = true -> cloud_read de dec st k = Ok (f k)) ->
    read_glob de dec st p = Ok (flat_map f (expand_ref (map fst st) p)).
  Proof.
    intros st p f Hne Hread. unfold read_glob, bucket_of.
    destruct st as [|o st']; [contradiction|].
    rewrite expand_is_ref.
    apply read_all_concat. intros k Hk.
    apply (proj1 (proj2 (expand_ref_spec _ _))) in Hk. destruct Hk as [Hin Hm].
    apply Hread; assumption.
  Qed.

  (* the first error met in sorted key order is the result *)
  Lemma read_all_first_error : forall st ks1 k ks2 (f : list N -> list R) e,
    (forall k', In k' ks1 -> cloud_read de dec st k' = Ok (f k')) ->
    cloud_read de dec st k = Err e ->
    read_all de dec st (ks1 ++ k :: ks2) = Err e.
  Proof.
    intros st ks1 k ks2 f e. induction ks1 as [|k1 ks1 IH]; intros Hok Herr.
    - cbn. rewrite Herr. reflexivity.
    - cbn [app read_all]. rewrite (Hok k1 (or_introl eq_refl)).
      rewrite IH; [reflexivity| |exact Herr]. intros; apply Hok; right; assumption.
  Qed.
End Jsonl.
