(* Proofs about the pipeline entry points of Combiners/SketchPipe.v, for EVERY lawful combiner
   (Combiners/Lawful.v): whatever the partition count, the fan-out, lifted or not, the global
   combine finishes to the mathematical output of all rows, and the per-key combines (classic and
   lifted over hand-grouped records, where a key may occur in several records of one partition)
   finish, for each key, to the mathematical output of that key's values. *)
From Coq Require Import List Bool Arith Lia Permutation.
From IB Require Import Combiners.Lawful Combiners.SketchPipe Proofs.CombinersLawful.
Import ListNotations.

(* ------------------------------------------------------------------ partitioning loses nothing *)
Lemma chunks_fuel_concat : forall A fuel n (l : list A), concat (chunks_fuel fuel n l) = l.
Proof.
  intros A fuel. induction fuel as [|f IH]; intros n l; destruct l as [|x r];
    cbn [chunks_fuel concat]; try reflexivity.
  - apply app_nil_r.
  - rewrite IH. apply firstn_skipn.
Qed.

Lemma chunks_concat : forall A n (l : list A), concat (chunks n l) = l.
Proof. intros A n l. apply chunks_fuel_concat. Qed.

Lemma split_vec_concat : forall A (l : list A) n, concat (split_vec l n) = l.
Proof.
  intros A l n. unfold split_vec.
  destruct ((n <=? 1) || (length l <=? 1)); [cbn; apply app_nil_r | apply chunks_concat].
Qed.

Theorem source_parts_concat : forall A (l : list A) parts, concat (source_parts l parts) = l.
Proof.
  intros A l parts. unfold source_parts.
  destruct (parts =? 0); [cbn; apply app_nil_r | apply split_vec_concat].
Qed.

Lemma Forall2_firstn : forall A B (P : A -> B -> Prop) n l1 l2,
  Forall2 P l1 l2 -> Forall2 P (firstn n l1) (firstn n l2).
Proof.
  intros A B P n. induction n as [|n IH]; intros l1 l2 H; [constructor|].
  destruct H as [|x y l1 l2 Hxy H]; cbn [firstn]; constructor; [exact Hxy | apply IH; exact H].
Qed.

Lemma Forall2_skipn : forall A B (P : A -> B -> Prop) n l1 l2,
  Forall2 P l1 l2 -> Forall2 P (skipn n l1) (skipn n l2).
Proof.
  intros A B P n. induction n as [|n IH]; intros l1 l2 H; [exact H|].
  destruct H as [|x y l1 l2 Hxy H]; cbn [skipn]; [constructor | apply IH; exact H].
Qed.

Lemma chunks_fuel_Forall2 : forall A B (P : A -> B -> Prop) fuel n l1 l2,
  Forall2 P l1 l2 -> Forall2 (Forall2 P) (chunks_fuel fuel n l1) (chunks_fuel fuel n l2).
Proof.
  intros A B P fuel. induction fuel as [|f IH]; intros n l1 l2 H.
  - destruct H as [|x y l1 l2 Hxy H]; cbn [chunks_fuel]; [constructor|].
    constructor; [constructor; assumption | constructor].
  - destruct H as [|x y l1 l2 Hxy H]; cbn [chunks_fuel]; [constructor|].
    constructor.
    + apply Forall2_firstn. constructor; assumption.
    + apply IH. apply Forall2_skipn. constructor; assumption.
Qed.

Lemma Forall2_length' : forall A B (P : A -> B -> Prop) l1 l2, Forall2 P l1 l2 -> length l1 = length l2.
Proof. intros A B P l1 l2 H. induction H; cbn; congruence. Qed.

Lemma chunks_Forall2 : forall A B (P : A -> B -> Prop) n l1 l2,
  Forall2 P l1 l2 -> Forall2 (Forall2 P) (chunks n l1) (chunks n l2).
Proof.
  intros A B P n l1 l2 H. unfold chunks. rewrite (Forall2_length' _ _ _ _ _ H).
  apply chunks_fuel_Forall2. exact H.
Qed.

Lemma concat_map_concat : forall A (ll : list (list (list A))),
  concat (map (@concat A) ll) = concat (concat ll).
Proof.
  intros A ll. induction ll as [|l ll IH]; cbn [map concat]; [reflexivity|].
  rewrite concat_app, IH. reflexivity.
Qed.

Section PipeLawful.
  Context {V A B : Type}.
  Variable c : combiner V A B.
  Variable R : A -> list V -> Prop.
  Variable spec : list V -> B -> Prop.
  Hypothesis L : lawful c R spec.

  (* ---------------------------------------------------------------- CombineGlobal *)
  Lemma fold_merge_R : forall rest ms a m,
    R a m -> Forall2 R rest ms -> R (fold_left (c_merge c) rest a) (m ++ concat ms).
  Proof.
    intros rest ms a m Ha H. revert a m Ha.
    induction H as [|b mb rest ms Hb H IH]; intros a m Ha; cbn [fold_left concat].
    - rewrite app_nil_r. exact Ha.
    - rewrite app_assoc. apply IH. apply (law_merge _ _ _ L); assumption.
  Qed.

  Lemma cg_merge_R : forall accs ms, Forall2 R accs ms -> R (cg_merge c accs) (concat ms).
  Proof.
    intros accs ms H. destruct H as [|a m accs ms Ha H]; cbn [cg_merge concat].
    - apply (law_create _ _ _ L).
    - apply fold_merge_R; assumption.
  Qed.

  Lemma cg_fan_R : forall fuel f accs ms, Forall2 R accs ms ->
    exists ms', Forall2 R (cg_fan c fuel f accs) ms' /\ concat ms' = concat ms.
  Proof.
    induction fuel as [|fuel IH]; intros f accs ms H; cbn [cg_fan].
    - exists [concat ms]. split; [constructor; [apply cg_merge_R; exact H | constructor]|].
      cbn. apply app_nil_r.
    - destruct (length accs <=? 1); [exists ms; split; [exact H | reflexivity]|].
      destruct (f =? 0).
      + exists [concat ms]. split; [constructor; [apply cg_merge_R; exact H | constructor]|].
        cbn. apply app_nil_r.
      + pose proof (chunks_Forall2 _ _ R (Nat.max f 2) _ _ H) as HC.
        assert (HM : Forall2 R (map (cg_merge c) (chunks (Nat.max f 2) accs))
                               (map (@concat V) (chunks (Nat.max f 2) ms))).
        { induction HC as [|g gm gs gms Hg HC IHC]; cbn [map]; constructor;
            [apply cg_merge_R; exact Hg | exact IHC]. }
        destruct (IH f _ _ HM) as (ms' & H' & E). exists ms'. split; [exact H'|].
        rewrite E. rewrite concat_map_concat. rewrite chunks_concat. reflexivity.
  Qed.

  Lemma cg_acc_R : forall lifted fan parts, R (cg_acc c lifted fan parts) (concat parts).
  Proof.
    intros lifted fan parts. unfold cg_acc.
    assert (H : Forall2 R (map (cg_local c lifted) parts) parts).
    { induction parts as [|p ps IH]; cbn [map]; constructor; [|exact IH].
      unfold cg_local. apply (leaf_acc_R c R spec L). }
    destruct (cg_fan_R 64 fan _ _ H) as (ms' & H' & E). rewrite <- E. apply cg_merge_R. exact H'.
  Qed.

  (* combine_globally / combine_globally_lifted: any partition count, any fan-out *)
  Theorem combine_globally_spec : forall lifted fan parts rows,
    spec rows (combine_globally c lifted fan parts rows).
  Proof.
    intros lifted fan parts rows. unfold combine_globally. apply (law_finish _ _ _ L).
    rewrite <- (source_parts_concat _ rows parts) at 2. apply cg_acc_R.
  Qed.

  (* ---------------------------------------------------------------- CombineValues *)
  Context {K : Type}.
  Variable keqb : K -> K -> bool.
  Hypothesis keqb_eq : forall a b, keqb a b = true <-> a = b.

  (* an optional accumulator stands for a list of values *)
  Definition optR (oa : option A) (m : list V) : Prop :=
    match oa with Some a => R a m | None => m = [] end.

  Lemma cv_merge_fold_R : forall mids mss acc m0,
    optR acc m0 -> Forall2 optR mids mss ->
    optR (fold_left (fun acc mid =>
                       match mid with
                       | None => acc
                       | Some a => Some (c_merge c (match acc with Some x => x | None => c_create c end) a)
                       end) mids acc) (m0 ++ concat mss).
  Proof.
    intros mids mss acc m0 Hacc H. revert acc m0 Hacc.
    induction H as [|mid m mids mss Hm H IH]; intros acc m0 Hacc; cbn [fold_left concat].
    - rewrite app_nil_r. exact Hacc.
    - rewrite app_assoc. apply IH. destruct mid as [a|]; cbn [optR] in Hm |- *.
      + destruct acc as [x|]; cbn [optR] in Hacc.
        * apply (law_merge _ _ _ L); assumption.
        * subst m0. apply (law_merge _ _ _ L); [apply (law_create _ _ _ L) | exact Hm].
      + subst m. rewrite app_nil_r. exact Hacc.
  Qed.

  Lemma cv_merge_R : forall mids mss, Forall2 optR mids mss -> optR (cv_merge c mids) (concat mss).
  Proof.
    intros mids mss H. unfold cv_merge.
    apply (cv_merge_fold_R mids mss None []); [reflexivity | exact H].
  Qed.

  Lemma cv_local_R : forall key part, optR (cv_local c keqb key part) (mine keqb key part).
  Proof.
    intros key part. unfold cv_local. destruct (mine keqb key part) as [|v vs] eqn:E; cbn [optR].
    - reflexivity.
    - exact (fold_acc_R c R spec L (v :: vs)).
  Qed.

  Lemma mine_concat : forall key (parts : list (list (K * V))),
    mine keqb key (concat parts) = concat (map (mine keqb key) parts).
  Proof.
    intros key parts. unfold mine.
    induction parts as [|p ps IH]; cbn [concat map]; [reflexivity|].
    rewrite filter_app, map_app, IH. reflexivity.
  Qed.

  Lemma mine_nonempty_iff : forall key (rows : list (K * V)),
    mine keqb key rows <> [] <-> In key (map fst rows).
  Proof.
    intros key rows. unfold mine. induction rows as [|[k v] rows IH]; cbn [filter map fst In].
    - split; [intro H; contradiction | intros []].
    - destruct (keqb k key) eqn:E.
      + apply keqb_eq in E. subst k. cbn [map]. split; [intros _; left; reflexivity | intros _; discriminate].
      + rewrite IH. split; [intro H; right; exact H|].
        intros [H|H]; [|exact H]. subst k.
        assert (T : keqb key key = true) by (apply keqb_eq; reflexivity). congruence.
  Qed.

  Lemma cv_acc_R : forall key parts,
    optR (cv_acc c keqb key parts) (mine keqb key (concat parts)).
  Proof.
    intros key parts. unfold cv_acc. rewrite mine_concat. apply cv_merge_R.
    induction parts as [|p ps IH]; cbn [map]; constructor; [apply cv_local_R | exact IH].
  Qed.

  (* from_vec(rows).combine_values(comb): per key, the output for exactly that key's values;
     keys that do not occur have no output row *)
  Theorem combine_values_spec : forall key parts rows,
    match combine_values c keqb key parts rows with
    | Some o => In key (map fst rows) /\ spec (mine keqb key rows) o
    | None => ~ In key (map fst rows)
    end.
  Proof.
    intros key parts rows. unfold combine_values.
    pose proof (cv_acc_R key (source_parts rows parts)) as H.
    rewrite source_parts_concat in H.
    destruct (cv_acc c keqb key (source_parts rows parts)) as [a|] eqn:E; cbn [option_map optR] in *.
    - split; [|apply (law_finish _ _ _ L); exact H].
      (* the key occurs: otherwise every partition's local is None and so is the merge *)
      apply mine_nonempty_iff. intro Hm.
      assert (N : cv_acc c keqb key (source_parts rows parts) = None).
      { unfold cv_acc, cv_merge.
        assert (F : forall p, In p (source_parts rows parts) -> cv_local c keqb key p = None).
        { intros p Hp. unfold cv_local.
          assert (Ep : mine keqb key p = []).
          { destruct (mine keqb key p) as [|v vs] eqn:Em; [reflexivity|]. exfalso.
            rewrite <- (source_parts_concat _ rows parts), mine_concat in Hm.
            assert (I : In (mine keqb key p) (map (mine keqb key) (source_parts rows parts)))
              by (apply in_map; exact Hp).
            rewrite Em in I.
            assert (X : In v (concat (map (mine keqb key) (source_parts rows parts)))).
            { apply in_concat. exists (v :: vs). split; [exact I | left; reflexivity]. }
            rewrite Hm in X. destruct X. }
          rewrite Ep. reflexivity. }
        revert F. generalize (source_parts rows parts). intro ps.
        induction ps as [|p ps IHp]; intro F; cbn [map fold_left]; [reflexivity|].
        rewrite (F p (or_introl eq_refl)). apply IHp. intros q Hq. apply F. right. exact Hq. }
      congruence.
    - intro Hin. apply mine_nonempty_iff in Hin. apply Hin. exact H.
  Qed.

  (* ---------------------------------------------------------------- lifted, hand-grouped *)
  Lemma fold_build_R : forall gs a m,
    R a m -> R (fold_left (fun acc g => c_merge c acc (c_build c g)) gs a) (m ++ concat gs).
  Proof.
    induction gs as [|g gs IH]; intros a m Ha; cbn [fold_left concat].
    - rewrite app_nil_r. exact Ha.
    - rewrite app_assoc. apply IH. apply (law_merge _ _ _ L); [exact Ha | apply (law_build _ _ _ L)].
  Qed.

  (* for a record key that occurs, the local accumulator stands for all of its groups (also when
     every group is empty); None only when no record carries the key *)
  Definition optG (oa : option A) (gs : list (list V)) : Prop :=
    match oa with Some a => R a (concat gs) | None => gs = [] end.

  Lemma cvl_local_R : forall key part, optG (cvl_local c keqb key part) (mine_groups keqb key part).
  Proof.
    intros key part. unfold cvl_local.
    destruct (mine_groups keqb key part) as [|g gs] eqn:E; cbn [optG]; [reflexivity|].
    apply (fold_build_R (g :: gs) (c_create c) []). apply (law_create _ _ _ L).
  Qed.

  Lemma mine_groups_concat : forall key (parts : list (list (K * list V))),
    mine_groups keqb key (concat parts) = concat (map (mine_groups keqb key) parts).
  Proof.
    intros key parts. unfold mine_groups.
    induction parts as [|p ps IH]; cbn [concat map]; [reflexivity|].
    rewrite filter_app, map_app, IH. reflexivity.
  Qed.

  Lemma mine_groups_nonempty_iff : forall key (recs : list (K * list V)),
    mine_groups keqb key recs <> [] <-> In key (map fst recs).
  Proof.
    intros key recs. unfold mine_groups.
    induction recs as [|[k v] recs IH]; cbn [filter map fst In].
    - split; [intro H; contradiction | intros []].
    - destruct (keqb k key) eqn:E.
      + apply keqb_eq in E. subst k. cbn [map]. split; [intros _; left; reflexivity | intros _; discriminate].
      + rewrite IH. split; [intro H; right; exact H|].
        intros [H|H]; [|exact H]. subst k.
        assert (T : keqb key key = true) by (apply keqb_eq; reflexivity). congruence.
  Qed.

  Lemma cvl_merge_R : forall mids gss acc g0,
    optG acc g0 -> Forall2 optG mids gss ->
    optG (fold_left (fun acc mid =>
                       match mid with
                       | None => acc
                       | Some a => Some (c_merge c (match acc with Some x => x | None => c_create c end) a)
                       end) mids acc) (g0 ++ concat gss).
  Proof.
    intros mids gss acc g0 Hacc H. revert acc g0 Hacc.
    induction H as [|mid g mids gss Hm H IH]; intros acc g0 Hacc; cbn [fold_left concat].
    - rewrite app_nil_r. exact Hacc.
    - rewrite app_assoc. apply IH. destruct mid as [a|]; cbn [optG] in Hm |- *.
      + rewrite concat_app. destruct acc as [x|]; cbn [optG] in Hacc.
        * apply (law_merge _ _ _ L); assumption.
        * subst g0. cbn [concat app]. apply (law_merge _ _ _ L) with (m := []);
            [apply (law_create _ _ _ L) | exact Hm].
      + subst g. rewrite app_nil_r. exact Hacc.
  Qed.

  (* from_vec(records).combine_values_lifted(comb) on hand-grouped (key, Vec<value>) records: per
     key, the output for the values of ALL of the key's records, wherever they sit *)
  Theorem combine_values_lifted_spec : forall key parts recs,
    match combine_values_lifted c keqb key parts recs with
    | Some o => In key (map fst recs) /\ spec (concat (mine_groups keqb key recs)) o
    | None => ~ In key (map fst recs)
    end.
  Proof.
    intros key parts recs. unfold combine_values_lifted.
    assert (H : optG (cvl_acc c keqb key (source_parts recs parts)) (mine_groups keqb key recs)).
    { rewrite <- (source_parts_concat _ recs parts) at 2. rewrite mine_groups_concat.
      unfold cvl_acc, cv_merge.
      apply (cvl_merge_R _ _ None []); [reflexivity|].
      generalize (source_parts recs parts). intro ps.
      induction ps as [|p ps IH]; cbn [map]; constructor; [apply cvl_local_R | exact IH]. }
    destruct (cvl_acc c keqb key (source_parts recs parts)) as [a|] eqn:E; cbn [option_map optG] in *.
    - split; [|apply (law_finish _ _ _ L); exact H].
      apply mine_groups_nonempty_iff. intro Hm.
      assert (N : cvl_acc c keqb key (source_parts recs parts) = None).
      { unfold cvl_acc, cv_merge.
        assert (F : forall p, In p (source_parts recs parts) -> cvl_local c keqb key p = None).
        { intros p Hp. unfold cvl_local.
          assert (Ep : mine_groups keqb key p = []).
          { destruct (mine_groups keqb key p) as [|g gs] eqn:Em; [reflexivity|]. exfalso.
            rewrite <- (source_parts_concat _ recs parts), mine_groups_concat in Hm.
            assert (I : In (mine_groups keqb key p)
                           (map (mine_groups keqb key) (source_parts recs parts)))
              by (apply in_map; exact Hp).
            rewrite Em in I.
            assert (X : In g (concat (map (mine_groups keqb key) (source_parts recs parts)))).
            { apply in_concat. exists (g :: gs). split; [exact I | left; reflexivity]. }
            rewrite Hm in X. destruct X. }
          rewrite Ep. reflexivity. }
        revert F. generalize (source_parts recs parts). intro ps.
        induction ps as [|p ps IHp]; intro F; cbn [map fold_left]; [reflexivity|].
        rewrite (F p (or_introl eq_refl)). apply IHp. intros q Hq. apply F. right. exact Hq. }
      congruence.
    - intro Hin. apply mine_groups_nonempty_iff in Hin. apply Hin. exact H.
  Qed.
End PipeLawful.
