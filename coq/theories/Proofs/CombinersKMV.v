(* Mergeability of the KMV sketch (model at the end of Combiners/Distinct.v): after any sequence of
   try_insert / merge_from the heap holds exactly the k smallest distinct ranks seen and the set
   has the same elements, for any rank function and any estimator; k >= 1 (the constructor
   enforces k >= 4). *)
From Coq Require Import List ZArith Bool Lia Permutation Sorted.
From IB Require Import Combiners.Lawful Combiners.Distinct.
Import ListNotations.
Open Scope Z_scope.

Notation sdesc := (StronglySorted Z.gt).

Lemma zmem_In : forall x s, set_mem Z.eqb x s = true <-> In x s.
Proof.
  intros x s. unfold set_mem. rewrite existsb_exists. split.
  - intros [y [Hy He]]. apply Z.eqb_eq in He. subst. exact Hy.
  - intros H. exists x. split; [exact H|apply Z.eqb_refl].
Qed.

Lemma maxheap_push_perm : forall x h, Permutation (maxheap_push x h) (x :: h).
Proof.
  induction h as [|y h IH]; cbn [maxheap_push]; [reflexivity|].
  destruct (y <=? x); [reflexivity|].
  apply perm_trans with (y :: x :: h); [apply perm_skip; exact IH|apply perm_swap].
Qed.
Lemma maxheap_push_In : forall x h z, In z (maxheap_push x h) <-> z = x \/ In z h.
Proof.
  intros x h z. split; intros H.
  - apply (Permutation_in _ (maxheap_push_perm x h)) in H. destruct H as [<-|H]; auto.
  - apply (Permutation_in _ (Permutation_sym (maxheap_push_perm x h))).
    destruct H as [->|H]; [left; reflexivity|right; exact H].
Qed.
Lemma maxheap_push_sdesc : forall x h, sdesc h -> ~ In x h -> sdesc (maxheap_push x h).
Proof.
  induction h as [|y h IH]; intros Hs Hn; cbn [maxheap_push]; [repeat constructor|].
  inversion Hs as [|? ? Hs' Hall]; subst. rewrite Forall_forall in Hall.
  destruct (Z.leb_spec y x) as [Hle|Hgt].
  - assert (y < x) by (assert (x <> y) by (intros ->; apply Hn; left; reflexivity); lia).
    constructor; [exact Hs|]. apply Forall_forall. intros z [<-|Hz]; [lia|].
    specialize (Hall _ Hz). lia.
  - constructor.
    + apply IH; [exact Hs'|]. intros Hi. apply Hn. right. exact Hi.
    + apply Forall_forall. intros z Hz. apply maxheap_push_In in Hz.
      destruct Hz as [->|Hz]; [lia|auto].
Qed.

Lemma sdesc_NoDup : forall h, sdesc h -> NoDup h.
Proof.
  induction h as [|x h IH]; intros Hs; [constructor|].
  inversion Hs as [|? ? Hs' Hall]; subst. constructor; [|apply IH; exact Hs'].
  intros Hi. rewrite Forall_forall in Hall. specialize (Hall _ Hi). lia.
Qed.

(* strictly descending lists with the same elements are equal *)
Lemma sdesc_ext : forall h1, sdesc h1 -> forall h2, sdesc h2 ->
    (forall x, In x h1 <-> In x h2) -> h1 = h2.
Proof.
  induction h1 as [|a h1 IH]; intros H1 h2 H2 Hiff.
  - destruct h2 as [|b h2]; [reflexivity|]. exfalso. apply (proj2 (Hiff b)). left. reflexivity.
  - destruct h2 as [|b h2]; [exfalso; apply (proj1 (Hiff a)); left; reflexivity|].
    inversion H1 as [|? ? H1' Ha]; subst. inversion H2 as [|? ? H2' Hb]; subst.
    rewrite Forall_forall in Ha, Hb.
    assert (Hab : a = b).
    { destruct (proj1 (Hiff a) (or_introl eq_refl)) as [Hi|Hi]; [congruence|].
      destruct (proj2 (Hiff b) (or_introl eq_refl)) as [Hj|Hj]; [congruence|].
      specialize (Ha _ Hj). specialize (Hb _ Hi). lia. }
    subst b. f_equal. apply IH; [exact H1'|exact H2'|].
    intros x. split; intros Hx.
    + destruct (proj1 (Hiff x) (or_intror Hx)) as [<-|Hi]; [|exact Hi].
      specialize (Ha _ Hx). lia.
    + destruct (proj2 (Hiff x) (or_intror Hx)) as [<-|Hi]; [|exact Hi].
      specialize (Hb _ Hx). lia.
Qed.

Lemma filter_perm : forall (f : Z -> bool) l l',
    Permutation l l' -> Permutation (filter f l) (filter f l').
Proof.
  induction 1 as [|x l l' _ IH|x y l|l l' l'' _ IH1 _ IH2]; cbn [filter].
  - constructor.
  - destruct (f x); [apply perm_skip|]; exact IH.
  - destruct (f x), (f y); try reflexivity. apply perm_swap.
  - exact (perm_trans IH1 IH2).
Qed.
Lemma zset_remove_notin : forall x l, ~ In x l -> zset_remove x l = l.
Proof.
  induction l as [|y l IH]; intros Hn; cbn [zset_remove filter]; [reflexivity|].
  destruct (Z.eqb_spec y x) as [->|Hne]; [exfalso; apply Hn; left; reflexivity|].
  cbn [negb]. f_equal. apply IH. intros Hi. apply Hn. right. exact Hi.
Qed.
Lemma zset_remove_app : forall x l l',
    zset_remove x (l ++ l') = zset_remove x l ++ zset_remove x l'.
Proof. intros. unfold zset_remove. apply filter_app. Qed.
Lemma zset_remove_head : forall x l, ~ In x l -> zset_remove x (x :: l) = l.
Proof.
  intros x l Hn. cbn [zset_remove filter]. rewrite Z.eqb_refl. cbn [negb].
  apply zset_remove_notin. exact Hn.
Qed.

(* ------------------------------------------------------------------ try_insert *)
Definition kmv_ok (k : nat) (a : kmv_acc) (rs : list Z) : Prop :=
  k_smallest k (kv_heap a) rs /\ Permutation (kv_set a) (kv_heap a).

Lemma k_smallest_intro : forall k h rs,
    sdesc h -> (length h <= k)%nat -> (forall x, In x h -> In x rs) ->
    (forall x, In x rs -> ~ In x h -> length h = k /\ forall y, In y h -> y < x) ->
    k_smallest k h rs.
Proof. intros. unfold k_smallest. auto. Qed.

Lemma try_insert_ok : forall k a rs r,
    (1 <= k)%nat -> kmv_ok k a rs -> kmv_ok k (kmv_try_insert k a r) (r :: rs).
Proof.
  intros k [h s] rs r Hk [[Hs [Hlen [Hsub Hout]]] HP]. cbn [kv_heap kv_set] in *.
  unfold kmv_try_insert. cbn [kv_heap kv_set].
  destruct (set_mem Z.eqb r s) eqn:Hm.
  - (* already kept *)
    apply zmem_In in Hm. assert (Hr : In r h) by (apply (Permutation_in _ HP); exact Hm).
    split; [|exact HP]. cbn [kv_heap]. apply k_smallest_intro; try assumption.
    + intros x Hx. right. apply Hsub. exact Hx.
    + intros x Hx Hnx. destruct Hx as [<-|Hx]; [contradiction|]. apply (Hout x Hx Hnx).
  - assert (Hnr : ~ In r h).
    { intros Hi. apply (Permutation_in _ (Permutation_sym HP)) in Hi. apply zmem_In in Hi.
      congruence. }
    assert (Hns : ~ In r s) by (rewrite <- zmem_In; congruence).
    destruct (Nat.ltb_spec (length h) k) as [Hlt|Hfull].
    + (* room left *)
      split; cbn [kv_heap kv_set].
      * apply k_smallest_intro.
        -- apply maxheap_push_sdesc; assumption.
        -- rewrite (Permutation_length (maxheap_push_perm r h)). cbn [length]. lia.
        -- intros x Hx. apply maxheap_push_In in Hx. destruct Hx as [->|Hx];
             [left; reflexivity|right; apply Hsub; exact Hx].
        -- intros x Hx Hnx. exfalso.
           destruct Hx as [<-|Hx]; [apply Hnx; apply maxheap_push_In; left; reflexivity|].
           assert (Hnh : ~ In x h)
             by (intros Hi; apply Hnx; apply maxheap_push_In; right; exact Hi).
           destruct (Hout x Hx Hnh) as [Hl _]. lia.
      * apply perm_trans with (r :: s); [symmetry; apply Permutation_cons_append|].
        apply perm_trans with (r :: h); [apply perm_skip; exact HP|].
        symmetry. apply maxheap_push_perm.
    + (* full *)
      destruct h as [|rk rest]; [cbn [length] in *; lia|].
      inversion Hs as [|? ? Hs' Hall]; subst. rewrite Forall_forall in Hall.
      assert (Hlenk : length (rk :: rest) = k) by lia.
      assert (Hrk : ~ In rk rest) by (intros Hi; specialize (Hall _ Hi); lia).
      destruct (Z.ltb_spec r rk) as [Hlt|Hge].
      * (* better than the threshold: evict rk *)
        assert (Hnr' : ~ In r rest) by (intros Hi; apply Hnr; right; exact Hi).
        assert (Hlen' : length (maxheap_push r rest) = k)
          by (rewrite (Permutation_length (maxheap_push_perm r rest)); cbn [length] in *; lia).
        split; cbn [kv_heap kv_set].
        -- apply k_smallest_intro.
           ++ apply maxheap_push_sdesc; assumption.
           ++ lia.
           ++ intros x Hx. apply maxheap_push_In in Hx. destruct Hx as [->|Hx];
                [left; reflexivity|right; apply Hsub; right; exact Hx].
           ++ intros x Hx Hnx. split; [exact Hlen'|]. intros y Hy. apply maxheap_push_In in Hy.
              assert (Hxr : x <> r)
                by (intros ->; apply Hnx; apply maxheap_push_In; left; reflexivity).
              destruct Hx as [Hx|Hx]; [congruence|].
              assert (Hxrest : ~ In x rest)
                by (intros Hi; apply Hnx; apply maxheap_push_In; right; exact Hi).
              destruct (Z.eq_dec x rk) as [->|Hxrk].
              ** destruct Hy as [->|Hy]; [lia|]. specialize (Hall _ Hy). lia.
              ** assert (Hxh : ~ In x (rk :: rest)) by (intros [Hi|Hi]; [congruence|auto]).
                 destruct (Hout x Hx Hxh) as [_ Hlt']. pose proof (Hlt' rk (or_introl eq_refl)).
                 destruct Hy as [->|Hy]; [lia|]. apply Hlt'. right. exact Hy.
        -- rewrite zset_remove_app. cbn [zset_remove filter].
           replace (r =? rk) with false by (symmetry; apply Z.eqb_neq; lia). cbn [negb].
           apply perm_trans with (r :: zset_remove rk s);
             [symmetry; apply Permutation_cons_append|].
           apply perm_trans with (r :: rest); [|symmetry; apply maxheap_push_perm].
           apply perm_skip.
           rewrite <- (zset_remove_head rk rest Hrk). apply filter_perm. exact HP.
      * (* not better: forget it *)
        assert (Hgt : rk < r) by (assert (r <> rk) by (intros ->; apply Hnr; left; reflexivity);
                                  lia).
        split; cbn [kv_heap kv_set].
        -- apply k_smallest_intro; try assumption.
           ++ intros x Hx. right. apply Hsub. exact Hx.
           ++ intros x Hx Hnx. destruct Hx as [<-|Hx]; [|apply (Hout x Hx Hnx)].
              split; [exact Hlenk|].
              intros y [<-|Hy]; [exact Hgt|]. specialize (Hall _ Hy). lia.
        -- rewrite zset_remove_app. cbn [zset_remove filter]. rewrite Z.eqb_refl. cbn [negb].
           rewrite app_nil_r. fold (zset_remove r s). rewrite zset_remove_notin by exact Hns.
           exact HP.
Qed.

Lemma fold_try_insert_ok : forall k xs a rs,
    (1 <= k)%nat -> kmv_ok k a rs ->
    kmv_ok k (fold_left (kmv_try_insert k) xs a) (rev xs ++ rs).
Proof.
  induction xs as [|x xs IH]; intros a rs Hk Ha; cbn [fold_left rev app]; [exact Ha|].
  rewrite <- app_assoc. cbn [app]. apply IH; [exact Hk|]. apply try_insert_ok; assumption.
Qed.

(* k_smallest depends on the ranks only through membership *)
Lemma k_smallest_ext : forall k h rs rs',
    (forall x, In x rs <-> In x rs') -> k_smallest k h rs -> k_smallest k h rs'.
Proof.
  intros k h rs rs' Hiff [Hs [Hlen [Hsub Hout]]]. apply k_smallest_intro; try assumption.
  - intros x Hx. apply Hiff. apply Hsub. exact Hx.
  - intros x Hx Hnx. apply (Hout x); [apply Hiff; exact Hx|exact Hnx].
Qed.

Lemma k_smallest_unique : forall k h h' rs,
    k_smallest k h rs -> k_smallest k h' rs -> h = h'.
Proof.
  assert (Hhalf : forall k h h' rs, k_smallest k h rs -> k_smallest k h' rs ->
                                    forall x, In x h -> In x h').
  { intros k h h' rs [Hs [Hlen [Hsub Hout]]] [Hs' [Hlen' [Hsub' Hout']]] x Hx.
    destruct (in_dec Z.eq_dec x h') as [Hi|Hn]; [exact Hi|exfalso].
    destruct (Hout' x (Hsub x Hx) Hn) as [Hfull Hlt].
    (* every element of h' is in h, else it would have to exceed x and be below x *)
    assert (Hincl : incl h' h).
    { intros y Hy. destruct (in_dec Z.eq_dec y h) as [Hi|Hny]; [exact Hi|exfalso].
      destruct (Hout y (Hsub' y Hy) Hny) as [_ Hlt'].
      specialize (Hlt _ Hy). specialize (Hlt' _ Hx). lia. }
    apply Hn. apply (@NoDup_length_incl Z h' h (sdesc_NoDup h' Hs')); [lia|exact Hincl|exact Hx]. }
  intros k h h' rs H H'. apply sdesc_ext; [apply H|apply H'|].
  intros x. split; eapply Hhalf; eassumption.
Qed.

Lemma incl_dec_Z : forall l h : list Z, incl l h \/ exists y, In y l /\ ~ In y h.
Proof.
  induction l as [|x l IH]; intros h; [left; intros y []|].
  destruct (in_dec Z.eq_dec x h) as [Hi|Hn]; [|right; exists x; split; [left; reflexivity|exact Hn]].
  destruct (IH h) as [Hincl|[y [Hy Hny]]].
  - left. intros y [<-|Hy]; [exact Hi|apply Hincl; exact Hy].
  - right. exists y. split; [right; exact Hy|exact Hny].
Qed.

(* the k smallest of (the k smallest of rs_b) ++ rs_a are the k smallest of rs_b ++ rs_a *)
Lemma k_smallest_absorb : forall k h hb rsb rsa,
    k_smallest k hb rsb -> k_smallest k h (hb ++ rsa) -> k_smallest k h (rsb ++ rsa).
Proof.
  intros k h hb rsb rsa [Hsb [Hlenb [Hsubb Houtb]]] [Hs [Hlen [Hsub Hout]]].
  assert (Hmain : forall x, In x (rsb ++ rsa) -> ~ In x h ->
                            length h = k /\ forall y, In y h -> y < x).
  { intros x Hx Hn. apply in_app_or in Hx.
    destruct Hx as [Hx|Hx]; [|apply (Hout x); [apply in_or_app; right; exact Hx|exact Hn]].
    destruct (in_dec Z.eq_dec x hb) as [Hi|Hnb];
      [apply (Hout x); [apply in_or_app; left; exact Hi|exact Hn]|].
    destruct (Houtb x Hx Hnb) as [Hfullb Hltb].
    destruct (incl_dec_Z hb h) as [Hincl|[y [Hy Hny]]].
    - (* hb inside h: they coincide *)
      assert (Hlen' : length h = k) by
        (pose proof (@NoDup_incl_length Z hb h (sdesc_NoDup hb Hsb) Hincl); lia).
      split; [exact Hlen'|]. intros y Hy. apply Hltb.
      apply (@NoDup_length_incl Z hb h (sdesc_NoDup hb Hsb)); [lia|exact Hincl|exact Hy].
    - destruct (Hout y (in_or_app _ _ _ (or_introl Hy)) Hny) as [Hfull Hlt].
      split; [exact Hfull|]. intros z Hz. specialize (Hlt _ Hz). specialize (Hltb _ Hy). lia. }
  apply k_smallest_intro; try assumption.
  intros x Hx. specialize (Hsub x Hx). apply in_app_or in Hsub. apply in_or_app.
  destruct Hsub as [Hi|Hi]; [left; apply Hsubb; exact Hi|right; exact Hi].
Qed.

(* ------------------------------------------------------------------ lawfulness *)
Section KMVLawful.
  Context {V O : Type}.
  Variable rank : V -> Z.
  Variable est : nat -> option Z -> O.
  Variable k : nat.
  Hypothesis Hk : (1 <= k)%nat.

  Lemma kmv_lawful : lawful (kmv_combiner rank est k) (kmv_R rank k) (kmv_spec rank est k).
  Proof.
    constructor; cbn [kmv_combiner c_create c_add c_merge c_finish c_build].
    - split; cbn [kv_heap kv_set]; [|reflexivity].
      apply k_smallest_intro; [constructor|cbn [length]; lia|intros x []|intros x []].
    - intros a m v Ha. exact (try_insert_ok k a (map rank m) (rank v) Hk Ha).
    - intros a b m m' Ha [Hb HPb]. unfold kmv_merge_from.
      destruct (fold_try_insert_ok k (kv_heap b) a (map rank m) Hk Ha) as [Hks HP].
      split; [|exact HP]. rewrite map_app.
      apply k_smallest_ext with (rs := map rank m' ++ map rank m);
        [intros x; rewrite !in_app_iff; tauto|].
      apply k_smallest_absorb with (hb := kv_heap b); [exact Hb|].
      apply k_smallest_ext with (rs := rev (kv_heap b) ++ map rank m); [|exact Hks].
      intros x. rewrite !in_app_iff, <- in_rev. tauto.
    - intros vs.
      assert (Hfold : forall vs a, fold_left (fun a v => kmv_try_insert k a (rank v)) vs a
                                   = fold_left (kmv_try_insert k) (map rank vs) a).
      { induction vs0 as [|v vs0 IH]; intros a; cbn [fold_left map]; [reflexivity|apply IH]. }
      rewrite Hfold.
      assert (H0 : kmv_ok k {| kv_heap := []; kv_set := [] |} []).
      { split; cbn [kv_heap kv_set]; [|reflexivity].
        apply k_smallest_intro; [constructor|cbn [length]; lia|intros x []|intros x []]. }
      destruct (fold_try_insert_ok k (map rank vs) _ [] Hk H0) as [Hks HP].
      split; [|exact HP].
      apply k_smallest_ext with (rs := rev (map rank vs) ++ []); [|exact Hks].
      intros x. rewrite app_nil_r, <- in_rev. tauto.
    - intros a m m' [Ha HP] HPm. split; [|exact HP].
      apply k_smallest_ext with (rs := map rank m); [|exact Ha].
      intros x. split; apply Permutation_in; [|symmetry]; apply Permutation_map; exact HPm.
    - intros a m [Ha HP]. exists (kv_heap a). split; [exact Ha|].
      rewrite (Permutation_length HP). reflexivity.
  Qed.

  Lemma kmv_spec_functional : forall m o o',
      kmv_spec rank est k m o -> kmv_spec rank est k m o' -> o = o'.
  Proof.
    intros m o o' [h [Hh ->]] [h' [Hh' ->]].
    rewrite (k_smallest_unique k h h' _ Hh Hh'). reflexivity.
  Qed.
End KMVLawful.
