(* Proofs about the framing model IO/Jsonl.v (C09): streamed = whole, round trip, parallel
   writers = sequential writers, row-group streaming, glob order. *)
From Coq Require Import List Arith ZArith NArith Bool Lia Permutation.
From IB Require Import IO.Shards IO.Jsonl Proofs.ShardsProofs.
Import ListNotations.
Open Scope Z_scope.

(* ---------- otraverse ---------- *)
Lemma otraverse_all_some : forall {A B} (f : A -> option B) (g : A -> B) l,
  Forall (fun x => f x = Some (g x)) l -> otraverse f l = Some (map g l).
Proof.
  intros A B f g l H. induction H as [|x l Hx Hl IH]; [reflexivity|].
  cbn [otraverse map]. now rewrite Hx, IH.
Qed.

Lemma slice_checked_chain : forall {A} (l : list A) rs a b,
  chain a rs b -> (b <= nlen l)%N -> otraverse (slice_checked l) rs = Some (map (slice l) rs).
Proof.
  intros A l rs a b H Hb. apply otraverse_all_some.
  eapply Forall_impl; [|apply (chain_valid l rs a b H Hb)].
  cbn beta. intros r Hr. unfold slice_checked. now rewrite Hr.
Qed.

(* ---------- reading ---------- *)
Section Read.
  Context {R : Type}.
  Variable de : list Z -> option R.

  (* sequencing of two read outcomes *)
  Definition oapp (x y : outcome (list R)) : outcome (list R) :=
    match x with
    | Ok u => match y with Ok v => Ok (u ++ v) | o => o end
    | o => o
    end.

  Lemma read_vec_app : forall a b, read_vec de (a ++ b) = oapp (read_vec de a) (read_vec de b).
  Proof.
    induction a as [|l a IH]; intros b; cbn [app read_vec].
    - unfold oapp. destruct (read_vec de b); reflexivity.
    - destruct (blank_line l); [apply IH|].
      destruct (de l) as [v|]; [|reflexivity].
      rewrite IH. unfold oapp. destruct (read_vec de a); [|reflexivity|reflexivity].
      destruct (read_vec de b); reflexivity.
  Qed.

  Lemma read_vec_not_panic : forall ls, read_vec de ls <> Panic.
  Proof.
    induction ls as [|l ls IH]; cbn [read_vec]; [discriminate|].
    destruct (blank_line l); [assumption|]. destruct (de l); [|discriminate].
    destruct (read_vec de ls); [discriminate|discriminate|contradiction].
  Qed.

  (* the index loop of read_jsonl_range reads exactly the lines of the slice *)
  Lemma read_from_spec : forall ls i s e,
    read_from de i ls s e
    = read_vec de (firstn (N.to_nat (e - N.max i s)) (skipn (N.to_nat (s - i)) ls)).
  Proof.
    induction ls as [|l ls IH]; intros i s e.
    - cbn [read_from]. now rewrite skipn_nil, firstn_nil.
    - cbn [read_from]. destruct (N.ltb_spec i s) as [Hlt|Hge].
      + rewrite IH. replace (N.to_nat (s - i)) with (S (N.to_nat (s - (i + 1)))) by lia.
        cbn [skipn]. replace (N.max (i + 1) s) with (N.max i s) by lia. reflexivity.
      + replace (N.to_nat (s - i)) with 0%nat by lia. cbn [skipn].
        destruct (N.leb_spec e i) as [Hei|Hei].
        * replace (N.to_nat (e - N.max i s)) with 0%nat by lia. reflexivity.
        * replace (N.to_nat (e - N.max i s)) with (S (N.to_nat (e - N.max (i + 1) s))) by lia.
          cbn [firstn read_vec]. rewrite IH.
          replace (N.to_nat (s - (i + 1))) with 0%nat by lia. cbn [skipn]. reflexivity.
  Qed.

  Lemma read_range_spec : forall ls r, read_range de ls r = read_vec de (slice ls r).
  Proof.
    intros ls [s e]. unfold read_range, slice. cbn [fst snd]. rewrite read_from_spec.
    replace (N.max 0 s) with s by lia. now rewrite N.sub_0_r.
  Qed.

  (* reading everything through the range reader = read_jsonl_vec *)
  Lemma read_range_all : forall ls, read_range de ls (0%N, total_lines ls) = read_vec de ls.
  Proof. intros ls. rewrite read_range_spec. unfold total_lines. now rewrite slice_all. Qed.

  (* one partition per range of a chain, against the plain read of the spanned lines *)
  Lemma vec_split_chain : forall ls rs a b,
    chain a rs b ->
    match read_vec de (slice ls (a, b)) with
    | Ok v => exists parts, vec_split de ls rs = Some parts /\ concat parts = v
    | _ => vec_split de ls rs = None
    end.
  Proof.
    intros ls. unfold vec_split.
    induction rs as [|r rs IH]; intros a b H; cbn [chain] in H.
    - subst. rewrite slice_empty. cbn [read_vec otraverse]. exists []. split; reflexivity.
    - destruct H as [H1 [H2 H3]]. destruct r as [s e]. cbn [fst snd] in *. subst s.
      pose proof (chain_le _ _ _ H3) as Hle.
      rewrite <- (slice_app ls a e b H2 Hle), read_vec_app.
      specialize (IH _ _ H3). cbn [otraverse]. rewrite read_range_spec.
      destruct (read_vec de (slice ls (a, e))) as [u| |] eqn:Hu; cbn [to_option oapp].
      + destruct (read_vec de (slice ls (e, b))) as [v| |] eqn:Hv.
        * destruct IH as [parts [Hp Hc]]. rewrite Hp. exists (u :: parts).
          split; [reflexivity|]. cbn [concat]. now rewrite Hc.
        * now rewrite IH.
        * now rewrite IH.
      + reflexivity.
      + reflexivity.
  Qed.

  Theorem streamed_eq_whole : forall ls per,
    match read_vec de ls with
    | Ok v =>
        (exists parts, vec_split de ls (build_shards ls per) = Some parts /\ concat parts = v)
        /\ stream_seq de ls per = Ok v
        /\ stream_par de ls per = Ok v
    | _ =>
        vec_split de ls (build_shards ls per) = None
        /\ stream_seq de ls per = Err
        /\ stream_par de ls per = Panic
    end.
  Proof.
    intros ls per.
    pose proof (vec_split_chain ls (build_shards ls per) 0%N (total_lines ls)
                  (ranges_chain (total_lines ls) per)) as Hs.
    unfold total_lines in Hs. rewrite slice_all in Hs.
    unfold stream_seq, stream_par, vec_clone_any. rewrite read_range_all.
    destruct (read_vec de ls) as [v| |] eqn:Hv; cbn [to_option].
    - destruct Hs as [parts [Hp Hc]]. split; [exists parts; split; assumption|].
      split; [reflexivity|]. rewrite Hp. now rewrite Hc.
    - rewrite Hs. repeat split; reflexivity.
    - exfalso. eapply read_vec_not_panic. eassumption.
  Qed.
End Read.

(* ---------- bytes <-> lines ---------- *)
Definition no_crlf (l : list Z) : Prop := Forall (fun b => b <> 10 /\ b <> 13) l.

Lemma lines_line : forall l rest, no_crlf l -> lines (l ++ 10 :: rest) = l :: lines rest.
Proof.
  induction l as [|b l IH]; intros rest H.
  - reflexivity.
  - inversion H as [|b' l' [Hb1 Hb2] Hl]; subst. cbn [app lines].
    destruct (Z.eqb_spec b 10) as [E|_]; [contradiction|].
    destruct (Z.eqb_spec b 13) as [E|_]; [contradiction|]. cbn [andb].
    now rewrite (IH rest Hl).
Qed.

Section RoundTrip.
  Context {R : Type}.
  Variable de : list Z -> option R.
  Variable ser : R -> list Z.

  Lemma lines_write_all : forall rs,
    (forall r, no_crlf (ser r)) -> lines (write_all ser rs) = map ser rs.
  Proof.
    intros rs H. unfold write_all. induction rs as [|r rs IH]; [reflexivity|].
    cbn [map concat]. rewrite <- app_assoc. cbn [app]. rewrite lines_line by apply H.
    now rewrite IH.
  Qed.

  Lemma read_vec_map_ser : forall rs,
    (forall r, de (ser r) = Some r) -> (forall r, blank_line (ser r) = false) ->
    read_vec de (map ser rs) = Ok rs.
  Proof.
    intros rs Hde Hb. induction rs as [|r rs IH]; [reflexivity|].
    cbn [map read_vec]. now rewrite Hb, Hde, IH.
  Qed.

  Theorem jsonl_roundtrip : forall rs,
    (forall r, de (ser r) = Some r) ->
    (forall r, no_crlf (ser r) /\ blank_line (ser r) = false) ->
    read_vec de (lines (write_all ser rs)) = Ok rs.
  Proof.
    intros rs Hde H. rewrite lines_write_all by apply H. apply read_vec_map_ser; [assumption|apply H].
  Qed.

  (* ----- parallel JSONL writer ----- *)
  Lemma write_all_app : forall a b, write_all ser (a ++ b) = write_all ser a ++ write_all ser b.
  Proof. intros a b. unfold write_all. now rewrite map_app, concat_app. Qed.

  Lemma write_all_concat : forall parts,
    concat (map (write_all ser) parts) = write_all ser (concat parts).
  Proof.
    induction parts as [|p parts IH]; [reflexivity|].
    cbn [map concat]. now rewrite write_all_app, IH.
  Qed.

  (* any shard computation that tiles [0, n) gives the sequential file *)
  Lemma write_par_with_tiles : forall rangesf rs shards,
    (forall n sh, chain 0%N (rangesf n sh) n) ->
    write_par_with ser rangesf rs shards = Ok (write_all ser rs).
  Proof.
    intros rangesf rs shards Hch. unfold write_par_with.
    destruct (N.eqb_spec (nlen rs) 0) as [Hz|Hz].
    - destruct rs; [reflexivity|]. unfold nlen in Hz. cbn [length] in Hz. lia.
    - rewrite (slice_checked_chain rs _ 0%N (nlen rs) (Hch _ _) ltac:(lia)).
      rewrite write_all_concat, chain_concat_all by apply Hch. reflexivity.
  Qed.

  Theorem par_write_eq_seq_jsonl : forall rs shards,
    write_par ser rs shards = Ok (write_all ser rs).
  Proof. intros rs shards. apply write_par_with_tiles. apply par_ranges_chain. Qed.
End RoundTrip.

(* the shard computation before the repair panics on 5 records / 4 shards *)
Lemma write_par_old_panics :
  write_par_old (fun z : Z => [z]) [0; 1; 2; 3; 4] 4%N = Panic.
Proof. vm_compute. reflexivity. Qed.

(* ---------- CSV ---------- *)
Section CsvProofs.
  Context {R : Type}.
  Variable csv_out : bool -> list R -> list Z.
  Variable hdr : list Z.
  Variable row : R -> list Z.
  (* the csv::Writer contract: an optional header line, written when the first record is
     serialised, then one record after the other *)
  Hypothesis csv_out_spec : forall h rs,
    csv_out h rs = (if h then match rs with [] => [] | _ => hdr end else []) ++ concat (map row rs).

  Lemma csv_out_false_concat : forall parts,
    concat (map (csv_out false) parts) = concat (map row (concat parts)).
  Proof.
    induction parts as [|p parts IH]; [reflexivity|].
    cbn [map concat]. rewrite IH, csv_out_spec, map_app, concat_app. reflexivity.
  Qed.

  Lemma otraverse_csv_tail : forall rs (l : list (N * range)),
    Forall (fun ir => (1 <= fst ir)%N) l ->
    Forall (fun ir => valid_range (nlen rs) (snd ir) = true) l ->
    otraverse (fun ir : N * range =>
                 match slice_checked rs (snd ir) with
                 | Some part => Some (csv_out (true && (fst ir =? 0)%N) part)
                 | None => None
                 end) l
    = Some (map (csv_out false) (map (slice rs) (map snd l))) /\
    forall h, otraverse (fun ir : N * range =>
                 match slice_checked rs (snd ir) with
                 | Some part => Some (csv_out (h && (fst ir =? 0)%N) part)
                 | None => None
                 end) l
    = Some (map (csv_out false) (map (slice rs) (map snd l))).
  Proof.
    intros rs l Hidx Hval.
    assert (Hgen : forall h, otraverse (fun ir : N * range =>
                 match slice_checked rs (snd ir) with
                 | Some part => Some (csv_out (h && (fst ir =? 0)%N) part)
                 | None => None
                 end) l
             = Some (map (csv_out false) (map (slice rs) (map snd l)))).
    { intros h. induction l as [|ir l IH]; [reflexivity|].
      inversion Hidx as [|? ? Hi Hidx']; subst. inversion Hval as [|? ? Hv Hval']; subst.
      cbn [otraverse map]. unfold slice_checked at 1. rewrite Hv.
      replace (fst ir =? 0)%N with false by (symmetry; apply N.eqb_neq; lia).
      rewrite andb_false_r. now rewrite (IH Hidx' Hval'). }
    split; [apply Hgen|exact Hgen].
  Qed.

  Theorem par_write_eq_seq_csv : forall h rs shards,
    csv_write_par csv_out h rs shards = Ok (csv_write_seq csv_out h rs).
  Proof.
    intros h rs shards. unfold csv_write_par, csv_write_seq.
    destruct (N.eqb_spec (nlen rs) 0) as [Hz|Hz].
    - destruct rs; [|unfold nlen in Hz; cbn [length] in Hz; lia].
      rewrite csv_out_spec. destruct h; reflexivity.
    - set (n := nlen rs) in *. set (p := csv_shard_count n shards).
      assert (Hp : (1 <= p <= n)%N) by (apply clamp_spec; lia).
      pose proof (split_ranges_chain n p) as Hch.
      pose proof (split_ranges_idx n p Hz) as Hidx.
      pose proof (split_ranges_sizes n p) as Hsz.
      rewrite (clamp_id p 1 n Hp) in Hidx.
      destruct (split_ranges n p) as [|[i0 r0] rest] eqn:Hsr.
      { cbn [map] in Hidx. unfold nseq in Hidx.
        replace (N.to_nat p) with (S (N.to_nat (p - 1))) in Hidx by lia. discriminate. }
      cbn [map fst] in Hidx. unfold nseq in Hidx.
      replace (N.to_nat p) with (S (N.to_nat (p - 1))) in Hidx by lia.
      cbn [seq map] in Hidx. injection Hidx as Hi0 Hrest. cbn in Hi0. subst i0.
      assert (Hrest1 : Forall (fun ir => (1 <= fst ir)%N) rest).
      { apply Forall_forall. intros ir Hin.
        assert (Hin' : In (fst ir) (map fst rest)) by (apply in_map; assumption).
        rewrite Hrest in Hin'. apply in_map_iff in Hin'. destruct Hin' as [x [Hx Hxin]].
        apply in_seq in Hxin. lia. }
      cbn [map snd] in Hch.
      pose proof (chain_valid rs _ _ _ Hch ltac:(unfold n; lia)) as Hval.
      inversion Hval as [|? ? Hv0 Hvrest]; subst.
      assert (Hvrest' : Forall (fun ir => valid_range (nlen rs) (snd ir) = true) rest).
      { apply Forall_forall. intros ir Hin. rewrite Forall_forall in Hvrest.
        apply Hvrest. apply in_map. assumption. }
      cbn [otraverse fst snd]. unfold slice_checked at 1. rewrite Hv0.
      destruct (otraverse_csv_tail rs rest Hrest1 Hvrest') as [_ Htail]. rewrite (Htail h).
      cbn [concat]. rewrite csv_out_false_concat. rewrite N.eqb_refl, andb_true_r.
      (* first chunk is non-empty *)
      inversion Hsz as [|? ? Hs0 _]; subst. cbn [snd] in Hs0. destruct Hs0 as [Hne _].
      assert (Hall : slice rs r0 ++ concat (map (slice rs) (map snd rest)) = rs).
      { change (concat (map (slice rs) (r0 :: map snd rest)) = rs).
        apply chain_concat_all. exact Hch. }
      assert (Hr0 : slice rs r0 <> []).
      { intros Hnil. assert (Hl : nlen (slice rs r0) = (snd r0 - fst r0)%N).
        { apply slice_length; unfold valid_range in Hv0; apply andb_true_iff in Hv0;
            destruct Hv0 as [Ha Hb]; apply N.leb_le in Ha; apply N.leb_le in Hb; assumption. }
        rewrite Hnil in Hl. unfold nlen in Hl. cbn [length] in Hl. lia. }
      rewrite !csv_out_spec. rewrite <- app_assoc. rewrite <- concat_app, <- map_app, Hall.
      f_equal. f_equal.
      destruct h; [|reflexivity].
      destruct (slice rs r0) eqn:Hs; [contradiction|].
      destruct rs; [|reflexivity]. unfold n, nlen in Hz. cbn [length] in Hz. lia.
  Qed.
End CsvProofs.

(* ---------- row based sources ---------- *)
Lemma rows_streamed_eq_whole : forall {R} (rows : list R) per,
  rows_stream_par rows per = rows /\ rows_stream_seq rows per = rows.
Proof.
  intros R rows per. unfold rows_stream_par, rows_stream_seq, rows_read_range. split.
  - apply chain_concat_all. apply ranges_chain.
  - apply slice_all.
Qed.

Lemma concat_slice_groups : forall {R} (groups : list (list R)) rs a b,
  chain a rs b -> concat (map (pq_read groups) rs) = concat (slice groups (a, b)).
Proof.
  intros R groups rs a b H. unfold pq_read.
  rewrite <- (chain_concat groups rs a b H).
  clear H. induction rs as [|r rs IH]; [reflexivity|].
  cbn [map concat]. now rewrite concat_app, IH.
Qed.

Lemma pq_streamed_eq_whole : forall {R} (groups : list (list R)) per,
  pq_stream_par groups per = pq_whole groups /\ pq_stream_seq groups per = pq_whole groups.
Proof.
  intros R groups per. unfold pq_stream_par, pq_stream_seq, pq_whole.
  pose proof (group_ranges_chain (nlen groups) per) as H. split.
  - rewrite (concat_slice_groups groups _ _ _ H). now rewrite slice_all.
  - rewrite (chain_last_end _ _ _ H). unfold pq_read. now rewrite slice_all.
Qed.
