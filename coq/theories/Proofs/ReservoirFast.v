(* The fast evaluator of the closed form is the closed form:  topk_fast = topk_spec.

   [topk_fast] (Combiners/ReservoirTopK.v) differs from [topk_spec] only in how the priority stream
   is computed: SplitMix64 on primitive 63-bit integers, a u64 word being two 32-bit limbs.  This file
   proves limb by limb that the stream is the same (wrapping add, x ^ (x >> s), wrapping multiply,
   the 53-bit priority), and that an order-preserving relabelling of the priorities does not change
   the sample.

   NOTE.  Unlike everything under Props/, these proofs rest on the AXIOMATIC specification of Coq's
   primitive integers in the standard library (Uint63: add_spec, mul_spec, lsl_spec, lsr_spec,
   land_spec, lor_spec, lxor_spec, ltb_spec, eqb_correct, of_to_Z, ...).  They are therefore kept
   out of the axiom-free theorem list; Props/C14.v mentions the result as a Lemma.  The check also
   compares the two streams at run time (Corr/C14.v: stream_spot_ok, closed_ok_g, closed_ok_k). *)
From Coq Require Import List NArith ZArith Arith Bool Lia Uint63.
From IB Require Import Combiners.Reservoir Combiners.ReservoirTopK Proofs.SortUnique.
Import ListNotations.
Open Scope Z_scope.

(* ---------------------------------------------------------------- bits of a concatenation *)
Lemma tb_concat : forall k A B n, 0 <= k -> 0 <= B < 2 ^ k -> 0 <= n ->
  Z.testbit (A * 2 ^ k + B) n = if n <? k then Z.testbit B n else Z.testbit A (n - k).
Proof.
  intros k A B n Hk HB Hn. destruct (n <? k) eqn:E.
  - apply Z.ltb_lt in E.
    rewrite <- (Z.mod_pow2_bits_low (A * 2 ^ k + B) k n) by lia.
    rewrite Z.add_comm, Z.mod_add by lia. rewrite Z.mod_small by lia. reflexivity.
  - apply Z.ltb_ge in E.
    replace n with ((n - k) + k) at 1 by lia.
    rewrite <- Z.div_pow2_bits by lia.
    rewrite Z.div_add_l by lia. rewrite Z.div_small by lia. rewrite Z.add_0_r. reflexivity.
Qed.
Lemma tb_small : forall k B n, 0 <= k -> 0 <= B < 2 ^ k -> k <= n -> Z.testbit B n = false.
Proof.
  intros k B n Hk HB Hn. rewrite <- (Z.mod_small B (2 ^ k)) by lia.
  apply Z.mod_pow2_bits_high. lia.
Qed.
Lemma lor_concat : forall k A B, 0 <= k -> 0 <= B < 2 ^ k -> Z.lor (A * 2 ^ k) B = A * 2 ^ k + B.
Proof.
  intros k A B Hk HB. apply Z.bits_inj'. intros n Hn.
  rewrite Z.lor_spec, tb_concat by lia. rewrite Z.mul_pow2_bits by lia.
  destruct (n <? k) eqn:E.
  - apply Z.ltb_lt in E. rewrite Z.testbit_neg_r by lia. reflexivity.
  - apply Z.ltb_ge in E. rewrite (tb_small k B n) by lia. apply orb_false_r.
Qed.

Lemma of_N_lxor : forall a b, Z.of_N (N.lxor a b) = Z.lxor (Z.of_N a) (Z.of_N b).
Proof.
  intros a b. apply Z.bits_inj'. intros n Hn.
  rewrite Z.lxor_spec. rewrite <- (Z2N.id n Hn). rewrite !N2Z.inj_testbit. apply N.lxor_spec.
Qed.
Lemma of_N_shiftr : forall a k, Z.of_N (N.shiftr a k) = Z.of_N a / 2 ^ Z.of_N k.
Proof. intros a k. rewrite N.shiftr_div_pow2, N2Z.inj_div, N2Z.inj_pow. reflexivity. Qed.

(* x ^ (x >> s) on two 32-bit limbs *)
Lemma xorshr_limbs : forall h l s, 0 <= h < 2 ^ 32 -> 0 <= l < 2 ^ 32 -> 0 < s < 32 ->
  Z.lxor (h * 2 ^ 32 + l) ((h * 2 ^ 32 + l) / 2 ^ s)
  = Z.lxor h (h / 2 ^ s) * 2 ^ 32
    + Z.lxor l (Z.lor ((h * 2 ^ (32 - s)) mod 2 ^ 32) (l / 2 ^ s)).
Proof.
  intros h l s Hh Hl Hs.
  assert (HM : 0 <= (h * 2 ^ (32 - s)) mod 2 ^ 32 < 2 ^ 32) by (apply Z.mod_pos_bound; lia).
  assert (HL : 0 <= l / 2 ^ s < 2 ^ 32).
  { assert (P : 0 < 2 ^ s) by (apply Z.pow_pos_nonneg; lia).
    split; [apply Z.div_pos; lia|]. apply Z.div_lt_upper_bound; [exact P|]. nia. }
  assert (HB : 0 <= Z.lxor l (Z.lor ((h * 2 ^ (32 - s)) mod 2 ^ 32) (l / 2 ^ s)) < 2 ^ 32).
  { split.
    - apply Z.lxor_nonneg. split; intros _; [apply Z.lor_nonneg; lia|lia].
    - destruct (Z.eq_dec (Z.lxor l (Z.lor ((h * 2 ^ (32 - s)) mod 2 ^ 32) (l / 2 ^ s))) 0) as [E|NE];
        [rewrite E; lia|].
      apply Z.log2_lt_pow2.
      + assert (0 <= Z.lxor l (Z.lor ((h * 2 ^ (32 - s)) mod 2 ^ 32) (l / 2 ^ s))).
        { apply Z.lxor_nonneg. split; intros _; [apply Z.lor_nonneg; lia|lia]. } lia.
      + eapply Z.le_lt_trans; [apply Z.log2_lxor; [lia|apply Z.lor_nonneg; lia]|].
        apply Z.max_lub_lt.
        * destruct (Z.eq_dec l 0) as [->|]; [cbn; lia|]. apply Z.log2_lt_pow2; lia.
        * rewrite Z.log2_lor by lia. apply Z.max_lub_lt.
          -- destruct (Z.eq_dec ((h * 2 ^ (32 - s)) mod 2 ^ 32) 0) as [->|]; [cbn; lia|].
             apply Z.log2_lt_pow2; lia.
          -- destruct (Z.eq_dec (l / 2 ^ s) 0) as [->|]; [cbn; lia|]. apply Z.log2_lt_pow2; lia. }
  apply Z.bits_inj'. intros n Hn.
  rewrite (tb_concat 32 _ _ n) by lia.
  rewrite Z.lxor_spec, Z.div_pow2_bits by lia.
  rewrite (tb_concat 32 h l n) by lia. rewrite (tb_concat 32 h l (n + s)) by lia.
  destruct (n <? 32) eqn:E.
  - apply Z.ltb_lt in E. rewrite Z.lxor_spec, Z.lor_spec. f_equal.
    rewrite Z.mod_pow2_bits_low by lia. rewrite Z.mul_pow2_bits by lia.
    rewrite Z.div_pow2_bits by lia.
    destruct (n + s <? 32) eqn:E2.
    + apply Z.ltb_lt in E2. rewrite (Z.testbit_neg_r h (n - (32 - s))) by lia. reflexivity.
    + apply Z.ltb_ge in E2. rewrite (tb_small 32 l (n + s)) by lia. rewrite orb_false_r.
      f_equal. lia.
  - apply Z.ltb_ge in E. rewrite Z.lxor_spec, Z.div_pow2_bits by lia.
    assert (E2 : (n + s <? 32) = false) by (apply Z.ltb_ge; lia). rewrite E2.
    f_equal. f_equal. lia.
Qed.

(* ---------------------------------------------------------------- 64-bit words on two limbs *)
Definition M32 : Z := 4294967296.
Definition M64 : Z := 18446744073709551616.
Definition wwf (w : int * int) : Prop :=
  0 <= to_Z (fst w) < M32 /\ 0 <= to_Z (snd w) < M32.
Definition wval (w : int * int) : Z := to_Z (fst w) * M32 + to_Z (snd w).

Lemma wB_val : wB = 9223372036854775808.
Proof. reflexivity. Qed.
Lemma to_Z_of_Z_small : forall z, 0 <= z < wB -> to_Z (of_Z z) = z.
Proof. intros z H. rewrite of_Z_spec. apply Z.mod_small. exact H. Qed.
Lemma mod32_wB : forall z, (z mod wB) mod M32 = z mod M32.
Proof.
  intros z. symmetry. apply Znumtheory.Zmod_div_mod; [reflexivity|reflexivity|].
  exists 2147483648. reflexivity.
Qed.
Lemma land_mask32 : forall x, to_Z (x land mask32) = to_Z x mod M32.
Proof.
  intros x. rewrite land_spec'. change (to_Z mask32) with (Z.ones 32).
  rewrite Z.land_ones by lia. reflexivity.
Qed.
Lemma concat_mod : forall A r, 0 <= r < M32 -> (A * M32 + r) mod M64 = (A mod M32) * M32 + r.
Proof.
  intros A r Hr. rewrite (Z.div_mod A M32) at 1 by (unfold M32; lia).
  replace ((M32 * (A / M32) + A mod M32) * M32 + r)
    with ((A mod M32 * M32 + r) + (A / M32) * M64) by (unfold M32, M64; ring).
  rewrite Z.mod_add by (unfold M64; lia). apply Z.mod_small.
  pose proof (Z.mod_pos_bound A M32 ltac:(unfold M32; lia)) as HB. unfold M32, M64 in *. lia.
Qed.

Lemma eqm_add : forall a a' b b',
  a mod M32 = a' mod M32 -> b mod M32 = b' mod M32 -> (a + b) mod M32 = (a' + b') mod M32.
Proof.
  intros a a' b b' H1 H2. rewrite Z.add_mod by (unfold M32; lia). rewrite H1, H2.
  rewrite <- Z.add_mod by (unfold M32; lia). reflexivity.
Qed.

Lemma w_of_N_ok : forall x, (x < 18446744073709551616)%N ->
  wwf (w_of_N x) /\ wval (w_of_N x) = Z.of_N x.
Proof.
  intros x Hx. unfold w_of_N, wwf, wval. cbn [fst snd].
  change 4294967295%N with (N.ones 32). rewrite N.land_ones, N.shiftr_div_pow2.
  rewrite N2Z.inj_div, N2Z.inj_mod. change (Z.of_N (2 ^ 32)) with M32.
  assert (H0 : 0 <= Z.of_N x < M64) by (unfold M64; lia).
  assert (H1 : 0 <= Z.of_N x / M32 < M32).
  { split; [apply Z.div_pos; unfold M32; lia|]. apply Z.div_lt_upper_bound; unfold M32, M64 in *; lia. }
  assert (H2 : 0 <= Z.of_N x mod M32 < M32) by (apply Z.mod_pos_bound; unfold M32; lia).
  rewrite !to_Z_of_Z_small by (rewrite wB_val; unfold M32 in *; lia).
  split; [split; assumption|]. rewrite Z.mul_comm. symmetry. apply Z.div_mod. unfold M32. lia.
Qed.

Lemma w_add_ok : forall a b, wwf a -> wwf b ->
  wwf (w_add a b) /\ wval (w_add a b) = (wval a + wval b) mod M64.
Proof.
  intros [ah al] [bh bl] [Ha1 Ha2] [Hb1 Hb2]. unfold w_add, wwf, wval in *. cbn [fst snd] in *.
  rewrite !land_mask32.
  assert (El : to_Z (al + bl) = to_Z al + to_Z bl).
  { rewrite add_spec. apply Z.mod_small. rewrite wB_val. unfold M32 in *. lia. }
  assert (Ec : to_Z ((al + bl) >> 32) = (to_Z al + to_Z bl) / M32).
  { rewrite lsr_spec, El. reflexivity. }
  assert (Hc : 0 <= (to_Z al + to_Z bl) / M32 <= 1).
  { split; [apply Z.div_pos; unfold M32 in *; lia|].
    apply Z.lt_succ_r. apply Z.div_lt_upper_bound; unfold M32 in *; lia. }
  assert (Eh : to_Z (ah + bh + ((al + bl) >> 32)) = to_Z ah + to_Z bh + (to_Z al + to_Z bl) / M32).
  { rewrite add_spec, add_spec, Ec.
    rewrite (Z.mod_small (to_Z ah + to_Z bh)) by (rewrite wB_val; unfold M32 in *; lia).
    apply Z.mod_small. rewrite wB_val. unfold M32 in *. lia. }
  rewrite Eh, El. split.
  - split; apply Z.mod_pos_bound; unfold M32; lia.
  - replace (to_Z ah * M32 + to_Z al + (to_Z bh * M32 + to_Z bl))
      with ((to_Z ah + to_Z bh + (to_Z al + to_Z bl) / M32) * M32 + (to_Z al + to_Z bl) mod M32).
    + rewrite concat_mod; [reflexivity|]. apply Z.mod_pos_bound. unfold M32. lia.
    + pose proof (Z.div_mod (to_Z al + to_Z bl) M32 ltac:(unfold M32; lia)) as E.
      unfold M32 in *. lia.
Qed.

Lemma w_mul_ok : forall a b, wwf a -> wwf b ->
  wwf (w_mul a b) /\ wval (w_mul a b) = (wval a * wval b) mod M64.
Proof.
  intros [ah al] [bh bl] [Ha1 Ha2] [Hb1 Hb2]. unfold w_mul, wwf, wval in *. cbn [fst snd] in *.
  cbv zeta.
  set (iT0 := (al * (bl land 65535))%uint63).
  set (iT1 := (al * (bl >> 16))%uint63).
  set (iLo := (iT0 + ((iT1 land 65535) << 16))%uint63).
  rewrite !land_mask32.
  set (A := to_Z ah) in *. set (L := to_Z al) in *. set (B := to_Z bh) in *. set (R := to_Z bl) in *.
  assert (Er0 : to_Z (bl land 65535) = R mod 65536).
  { rewrite land_spec'. change (to_Z 65535) with (Z.ones 16). rewrite Z.land_ones by lia. reflexivity. }
  assert (Er1 : to_Z (bl >> 16) = R / 65536).
  { rewrite lsr_spec. reflexivity. }
  assert (Hr0 : 0 <= R mod 65536 < 65536) by (apply Z.mod_pos_bound; lia).
  assert (Hr1 : 0 <= R / 65536 < 65536).
  { split; [apply Z.div_pos; lia|]. apply Z.div_lt_upper_bound; unfold M32 in *; lia. }
  assert (Et0 : to_Z iT0 = L * (R mod 65536)).
  { unfold iT0. rewrite mul_spec, Er0. apply Z.mod_small. rewrite wB_val. unfold M32 in *. nia. }
  assert (Et1 : to_Z iT1 = L * (R / 65536)).
  { unfold iT1. rewrite mul_spec, Er1. apply Z.mod_small. rewrite wB_val. unfold M32 in *. nia. }
  set (t0 := L * (R mod 65536)) in *. set (t1 := L * (R / 65536)) in *.
  assert (Ht0 : 0 <= t0 < 281474976710656) by (unfold t0, M32 in *; nia).
  assert (Ht1 : 0 <= t1 < 281474976710656) by (unfold t1, M32 in *; nia).
  assert (Et1l : to_Z (iT1 land 65535) = t1 mod 65536).
  { rewrite land_spec', Et1. change (to_Z 65535) with (Z.ones 16). rewrite Z.land_ones by lia. reflexivity. }
  assert (Ht1l : 0 <= t1 mod 65536 < 65536) by (apply Z.mod_pos_bound; lia).
  assert (Esh : to_Z ((iT1 land 65535) << 16) = (t1 mod 65536) * 65536).
  { rewrite lsl_spec, Et1l. change (2 ^ to_Z 16) with 65536. apply Z.mod_small. rewrite wB_val. lia. }
  assert (Elo : to_Z iLo = t0 + (t1 mod 65536) * 65536).
  { unfold iLo. rewrite add_spec, Et0, Esh. apply Z.mod_small. rewrite wB_val. lia. }
  set (lo := t0 + (t1 mod 65536) * 65536) in *.
  assert (Hlo : 0 <= lo < 562949953421312) by (unfold lo; lia).
  assert (Elohi : to_Z (iLo >> 32) = lo / M32).
  { rewrite lsr_spec, Elo. reflexivity. }
  assert (Et1h : to_Z (iT1 >> 16) = t1 / 65536).
  { rewrite lsr_spec, Et1. reflexivity. }
  rewrite Elo.
  (* the high limb: everything is only needed modulo 2^32 *)
  assert (Ehi : to_Z ((iLo >> 32) + (iT1 >> 16) + ah * bl + al * bh) mod M32
                = (lo / M32 + t1 / 65536 + A * R + L * B) mod M32).
  { assert (Eadd : forall x y, to_Z (x + y) mod M32 = (to_Z x + to_Z y) mod M32)
      by (intros; rewrite add_spec; apply mod32_wB).
    assert (Emul : forall x y, to_Z (x * y) mod M32 = (to_Z x * to_Z y) mod M32)
      by (intros; rewrite mul_spec; apply mod32_wB).
    eapply eq_trans; [apply Eadd|]. apply eqm_add; [|apply Emul].
    eapply eq_trans; [apply Eadd|]. apply eqm_add; [|apply Emul].
    eapply eq_trans; [apply Eadd|]. rewrite Elohi, Et1h. reflexivity. }
  rewrite Ehi. split.
  - split; apply Z.mod_pos_bound; unfold M32; lia.
  - replace ((A * M32 + L) * (B * M32 + R))
      with ((lo / M32 + t1 / 65536 + A * R + L * B + A * B * M32) * M32 + lo mod M32).
    + rewrite concat_mod by (apply Z.mod_pos_bound; unfold M32; lia).
      f_equal. f_equal.
      replace (lo / M32 + t1 / 65536 + A * R + L * B + A * B * M32)
        with (lo / M32 + t1 / 65536 + A * R + L * B + (A * B) * M32) by ring.
      symmetry. apply Z.mod_add. unfold M32. lia.
    + assert (E1 : L * R = t0 + t1 * 65536).
      { unfold t0, t1. rewrite (Z.div_mod R 65536) at 1 by lia. ring. }
      assert (E2 : t1 = 65536 * (t1 / 65536) + t1 mod 65536) by (apply Z.div_mod; lia).
      assert (E3 : lo = M32 * (lo / M32) + lo mod M32) by (apply Z.div_mod; unfold M32; lia).
      assert (E4 : L * R = lo + (t1 / 65536) * M32).
      { clearbody t0 t1. unfold lo, M32. lia. }
      replace ((A * M32 + L) * (B * M32 + R))
        with (A * B * M32 * M32 + (A * R + L * B) * M32 + L * R) by ring.
      rewrite E4. clearbody lo t0 t1 A B L R. unfold M32 in *. lia.
Qed.

Lemma lxor_bound : forall k a b, 0 < k -> 0 <= a < 2 ^ k -> 0 <= b < 2 ^ k -> 0 <= Z.lxor a b < 2 ^ k.
Proof.
  intros k a b Hk Ha Hb.
  assert (N : 0 <= Z.lxor a b) by (apply Z.lxor_nonneg; lia).
  split; [exact N|].
  destruct (Z.eq_dec (Z.lxor a b) 0) as [E|NE]; [rewrite E; lia|].
  apply Z.log2_lt_pow2; [lia|].
  eapply Z.le_lt_trans; [apply Z.log2_lxor; lia|].
  apply Z.max_lub_lt.
  - destruct (Z.eq_dec a 0) as [->|]; [cbn; lia|]. apply Z.log2_lt_pow2; lia.
  - destruct (Z.eq_dec b 0) as [->|]; [cbn; lia|]. apply Z.log2_lt_pow2; lia.
Qed.
Lemma lor_bound : forall k a b, 0 < k -> 0 <= a < 2 ^ k -> 0 <= b < 2 ^ k -> 0 <= Z.lor a b < 2 ^ k.
Proof.
  intros k a b Hk Ha Hb.
  assert (N : 0 <= Z.lor a b) by (apply Z.lor_nonneg; lia).
  split; [exact N|].
  destruct (Z.eq_dec (Z.lor a b) 0) as [E|NE]; [rewrite E; lia|].
  apply Z.log2_lt_pow2; [lia|]. rewrite Z.log2_lor by lia.
  apply Z.max_lub_lt.
  - destruct (Z.eq_dec a 0) as [->|]; [cbn; lia|]. apply Z.log2_lt_pow2; lia.
  - destruct (Z.eq_dec b 0) as [->|]; [cbn; lia|]. apply Z.log2_lt_pow2; lia.
Qed.

Lemma w_xorshr_ok : forall a s sz, wwf a -> to_Z s = sz -> to_Z (32 - s)%uint63 = 32 - sz ->
  0 < sz < 32 ->
  wwf (w_xorshr a s) /\ wval (w_xorshr a s) = Z.lxor (wval a) (wval a / 2 ^ sz).
Proof.
  intros [h l] s sz [Hh Hl] Es Es' Hs. unfold w_xorshr, wwf, wval in *. cbn [fst snd] in *.
  set (H := to_Z h) in *. set (L := to_Z l) in *.
  change M32 with (2 ^ 32) in *.
  assert (P : 0 < 2 ^ sz) by (apply Z.pow_pos_nonneg; lia).
  assert (E1 : to_Z (h lxor (h >> s)) = Z.lxor H (H / 2 ^ sz)).
  { rewrite lxor_spec', lsr_spec, Es. reflexivity. }
  assert (E2 : to_Z ((h << (32 - s)) land mask32) = (H * 2 ^ (32 - sz)) mod 2 ^ 32).
  { rewrite land_mask32, lsl_spec, Es'. apply mod32_wB. }
  assert (E3 : to_Z (l lxor (((h << (32 - s)) land mask32) lor (l >> s)))
               = Z.lxor L (Z.lor ((H * 2 ^ (32 - sz)) mod 2 ^ 32) (L / 2 ^ sz))).
  { rewrite lxor_spec', lor_spec', E2, lsr_spec, Es. reflexivity. }
  rewrite E1, E3.
  assert (B1 : 0 <= H / 2 ^ sz < 2 ^ 32).
  { split; [apply Z.div_pos; lia|]. apply Z.div_lt_upper_bound; [exact P|]. nia. }
  assert (B2 : 0 <= L / 2 ^ sz < 2 ^ 32).
  { split; [apply Z.div_pos; lia|]. apply Z.div_lt_upper_bound; [exact P|]. nia. }
  assert (B3 : 0 <= (H * 2 ^ (32 - sz)) mod 2 ^ 32 < 2 ^ 32) by (apply Z.mod_pos_bound; lia).
  split.
  - split; [apply lxor_bound; lia|]. apply lxor_bound; [lia|lia|]. apply lor_bound; lia.
  - symmetry. apply xorshr_limbs; lia.
Qed.

Lemma w_prio_ok : forall x, wwf x ->
  Z.to_N (to_Z (w_prio x)) = prio_of_bits (Z.to_N (wval x)).
Proof.
  intros [h l] [Hh Hl]. unfold w_prio, wval, prio_of_bits in *. cbn [fst snd] in *.
  set (H := to_Z h) in *. set (L := to_Z l) in *.
  assert (Ep : to_Z ((h << 21) lor (l >> 11)) = (H * M32 + L) / 2048).
  { rewrite lor_spec', lsl_spec, lsr_spec. change (2 ^ to_Z 21) with 2097152. change (2 ^ to_Z 11) with 2048.
    fold H L. rewrite (Z.mod_small (H * 2097152)) by (rewrite wB_val; unfold M32 in *; lia).
    assert (BL : 0 <= L / 2048 < 2 ^ 21).
    { split; [apply Z.div_pos; lia|]. apply Z.div_lt_upper_bound; unfold M32 in *; lia. }
    change 2097152 with (2 ^ 21). rewrite lor_concat by lia.
    unfold M32. replace (H * 4294967296 + L) with (L + (H * 2 ^ 21) * 2048) by (change (2 ^ 21) with 2097152; ring).
    rewrite Z.div_add by lia. ring. }
  assert (Bp : 0 <= (H * M32 + L) / 2048 < 9007199254740992).
  { split; [apply Z.div_pos; unfold M32 in *; lia|]. apply Z.div_lt_upper_bound; unfold M32 in *; lia. }
  assert (Esh : N.shiftr (Z.to_N (H * M32 + L)) 11 = Z.to_N ((H * M32 + L) / 2048)).
  { rewrite N.shiftr_div_pow2. change (2 ^ 11)%N with (Z.to_N 2048).
    rewrite <- Z2N.inj_div by (unfold M32 in *; lia). reflexivity. }
  rewrite Esh.
  destruct (((h << 21) lor (l >> 11)) =? 0)%uint63 eqn:E0.
  - apply eqb_spec in E0. rewrite E0 in Ep. change (to_Z 0) with 0 in Ep. rewrite <- Ep. reflexivity.
  - assert (NZ : (H * M32 + L) / 2048 <> 0).
    { intros Z0. rewrite Z0 in Ep. assert (X : ((h << 21) lor (l >> 11))%uint63 = 0%uint63)
        by (apply to_Z_inj; rewrite Ep; reflexivity).
      rewrite X in E0. discriminate. }
    destruct (N.eqb (Z.to_N ((H * M32 + L) / 2048)) 0) eqn:E1.
    + apply N.eqb_eq in E1. lia.
    + rewrite mul_spec, Ep. change (to_Z 2) with 2.
      rewrite Z.mod_small by (rewrite wB_val; lia).
      rewrite Z2N.inj_mul by lia. reflexivity.
Qed.

(* ---------------------------------------------------------------- the stream *)
Lemma of_N_w64 : forall x, Z.of_N (w64 x) = Z.of_N x mod M64.
Proof. intros x. unfold w64, two64. rewrite N2Z.inj_mod. reflexivity. Qed.
Lemma w64_lt : forall x, (w64 x < 18446744073709551616)%N.
Proof. intros x. unfold w64, two64. apply N.mod_lt. discriminate. Qed.

Lemma wconst_ok : forall c, (c < 18446744073709551616)%N ->
  wwf (w_of_N c) /\ wval (w_of_N c) = Z.of_N c.
Proof. exact w_of_N_ok. Qed.

Lemma xorshr_N : forall (w : int * int) (n : N) (s : int) (sz : N),
  wwf w -> wval w = Z.of_N n ->
  to_Z s = Z.of_N sz -> to_Z (32 - s)%uint63 = 32 - Z.of_N sz -> 0 < Z.of_N sz < 32 ->
  wwf (w_xorshr w s) /\ wval (w_xorshr w s) = Z.of_N (N.lxor n (N.shiftr n sz)).
Proof.
  intros w n s sz Hw Hv Es Es' Hs.
  destruct (w_xorshr_ok w s (Z.of_N sz) Hw Es Es' Hs) as [H1 H2]. split; [exact H1|].
  rewrite H2, Hv, of_N_lxor, of_N_shiftr. reflexivity.
Qed.
Lemma mul_N : forall (w c : int * int) (n m : N),
  wwf w -> wval w = Z.of_N n -> wwf c -> wval c = Z.of_N m ->
  wwf (w_mul w c) /\ wval (w_mul w c) = Z.of_N (w64 (n * m)).
Proof.
  intros w c n m Hw Hv Hc Hcv. destruct (w_mul_ok w c Hw Hc) as [H1 H2]. split; [exact H1|].
  rewrite H2, Hv, Hcv, of_N_w64, N2Z.inj_mul. reflexivity.
Qed.

Lemma w_next_ok : forall w st, wwf w -> wval w = Z.of_N st ->
  wwf (fst (w_next w)) /\ wval (fst (w_next w)) = Z.of_N (fst (sm_next st)) /\
  wwf (snd (w_next w)) /\ wval (snd (w_next w)) = Z.of_N (snd (sm_next st)).
Proof.
  intros w st Hw Hv. unfold w_next, sm_next. cbn [fst snd].
  destruct (wconst_ok GOLDEN ltac:(reflexivity)) as [G1 G2].
  destruct (wconst_ok MIX1 ltac:(reflexivity)) as [M11 M12].
  destruct (wconst_ok MIX2 ltac:(reflexivity)) as [M21 M22].
  fold wGOLDEN in G1, G2. fold wMIX1 in M11, M12. fold wMIX2 in M21, M22.
  destruct (w_add_ok w wGOLDEN Hw G1) as [S1 S2].
  assert (S3 : wval (w_add w wGOLDEN) = Z.of_N (w64 (st + GOLDEN))).
  { rewrite S2, Hv, G2, of_N_w64, N2Z.inj_add. reflexivity. }
  set (s := w_add w wGOLDEN) in *. set (sN := w64 (st + GOLDEN)) in *.
  destruct (xorshr_N s sN 30%uint63 30%N S1 S3 eq_refl eq_refl ltac:(cbn; lia)) as [X1 X2].
  destruct (mul_N _ _ _ _ X1 X2 M11 M12) as [Z11 Z12].
  set (z1 := w_mul (w_xorshr s 30) wMIX1) in *.
  set (z1N := w64 (N.lxor sN (N.shiftr sN 30) * MIX1)) in *.
  destruct (xorshr_N z1 z1N 27%uint63 27%N Z11 Z12 eq_refl eq_refl ltac:(cbn; lia)) as [X3 X4].
  destruct (mul_N _ _ _ _ X3 X4 M21 M22) as [Z21 Z22].
  set (z2 := w_mul (w_xorshr z1 27) wMIX2) in *.
  set (z2N := w64 (N.lxor z1N (N.shiftr z1N 27) * MIX2)) in *.
  destruct (xorshr_N z2 z2N 31%uint63 31%N Z21 Z22 eq_refl eq_refl ltac:(cbn; lia)) as [X5 X6].
  split; [exact S1|]. split; [exact S3|]. split; [exact X5|exact X6].
Qed.

Definition toN (i : int) : N := Z.to_N (to_Z i).

Lemma w_stream_ok : forall n w st, wwf w -> wval w = Z.of_N st ->
  map toN (w_stream n w) = prio_stream n st.
Proof.
  induction n as [|n IH]; intros w st Hw Hv; [reflexivity|].
  cbn [w_stream prio_stream].
  destruct (w_next_ok w st Hw Hv) as [A1 [A2 [A3 A4]]].
  destruct (w_next w) as [w' z]. destruct (sm_next st) as [st' x]. cbn [fst snd] in *.
  cbn [map]. f_equal.
  - unfold toN. rewrite (w_prio_ok z A3), A4, N2Z.id. reflexivity.
  - apply IH; assumption.
Qed.

Lemma ltb_toN : forall a b, N.ltb (toN a) (toN b) = (a <? b)%uint63.
Proof.
  intros a b. unfold toN. pose proof (to_Z_bounded a) as Ba. pose proof (to_Z_bounded b) as Bb.
  destruct (a <? b)%uint63 eqn:E.
  - apply ltb_spec in E. apply N.ltb_lt. apply Z2N.inj_lt; lia.
  - apply N.ltb_ge. apply Z2N.inj_le; [lia|lia|].
    destruct (Z.lt_ge_cases (to_Z a) (to_Z b)) as [H|H]; [|exact H].
    apply ltb_spec in H. rewrite H in E. discriminate.
Qed.

(* ---------------------------------------------------------------- order-preserving relabelling of
   the priorities does not change the sample *)
Section Embed.
  Context {P P' T : Type}.
  Variable pltb : P -> P -> bool.
  Variable pltb' : P' -> P' -> bool.
  Variable f : P -> P'.
  Hypothesis Hf : forall a b, pltb' (f a) (f b) = pltb a b.

  Definition imap (x : item (P := P) (T := T)) : item (P := P') (T := T) :=
    (f (it_prio x), it_seq x, it_gpos x, it_val x).

  Lemma items_part_map : forall part prios sq g,
    items_part (map f prios) sq g part = map imap (items_part prios sq g part).
  Proof.
    induction part as [|v r IH]; intros prios sq g; [reflexivity|].
    destruct prios as [|p ps]; [reflexivity|].
    cbn [map items_part]. rewrite IH. reflexivity.
  Qed.
  Lemma items_parts_map : forall parts prios g,
    items_parts (map f prios) g parts = map imap (items_parts prios g parts).
  Proof.
    induction parts as [|p r IH]; intros prios g; [reflexivity|].
    cbn [items_parts]. rewrite items_part_map, IH, map_app. reflexivity.
  Qed.
  Lemma keep_leb_imap : forall x y, keep_leb pltb' (imap x) (imap y) = keep_leb pltb x y.
  Proof. intros x y. unfold keep_leb, imap, it_prio, it_seq, it_gpos. cbn [fst snd]. rewrite !Hf. reflexivity. Qed.
  Lemma out_leb_imap : forall x y, out_leb pltb' (imap x) (imap y) = out_leb pltb x y.
  Proof. intros x y. unfold out_leb, imap, it_prio, it_seq, it_gpos. cbn [fst snd]. rewrite !Hf. reflexivity. Qed.

  Lemma topk_sample_map : forall prios k (parts : list (list T)),
    topk_sample pltb' (map f prios) k parts = topk_sample pltb prios k parts.
  Proof.
    intros prios k parts. unfold topk_sample. rewrite items_parts_map.
    rewrite (msort_map imap (keep_leb pltb) (keep_leb pltb') keep_leb_imap).
    rewrite firstn_map.
    rewrite (msort_map imap (out_leb pltb) (out_leb pltb') out_leb_imap).
    rewrite map_map. apply map_ext. intros x. reflexivity.
  Qed.
End Embed.

Theorem topk_fast_spec : forall (T : Type) (k : nat) (seed : N) (parts : list (list T)),
  topk_fast k seed parts = topk_spec k seed parts.
Proof.
  intros T k seed parts. unfold topk_fast, topk_spec.
  destruct (w_of_N_ok (stream_state0 seed) (w64_lt _)) as [W1 W2].
  rewrite <- (w_stream_ok (max_len parts) _ _ W1 W2).
  symmetry. apply (topk_sample_map Uint63.ltb N.ltb toN ltb_toN).
Qed.
