(* C04: group_by_key (keyed.rs local + merge closures, through both engines) is an exact partition
   of its input by key. Lemmas for Props/C04.v; the generic list / local-stage facts are reused by
   Proofs/EngineJoin.v (C07). *)
From Coq Require Import List ZArith Bool Arith Lia Permutation.
From IB Require Import Engine.Val Engine.Ops Engine.AMap Engine.Nodes Engine.Exec Engine.Lang
     Engine.Denote Proofs.EngineBase.
Import ListNotations.

Definition isnil {A : Type} (l : list A) : bool := match l with [] => true | _ => false end.
Definition vrow (v : val) : Prop := match v with VPair _ _ => True | _ => False end.
Definition sh_perm (sh : nat -> list val -> list val) : Prop := forall i l, Permutation (sh i l) l.

(* ---------- generic list facts ---------- *)
Section ListFacts.
  Context {A B C : Type}.

  Lemma flat_map_nil_f : forall (l : list A), flat_map (fun _ => @nil B) l = [].
  Proof. induction l as [|x l IH]; cbn [flat_map app]; auto. Qed.

  Lemma flat_map_single : forall (f : A -> B) l, flat_map (fun x => [f x]) l = map f l.
  Proof. intros f l. induction l as [|x l IH]; cbn [flat_map map app]; congruence. Qed.

  Lemma flat_map_map : forall (f : B -> list C) (g : A -> B) l,
      flat_map f (map g l) = flat_map (fun x => f (g x)) l.
  Proof. intros f g l. induction l as [|x l IH]; cbn [flat_map map]; congruence. Qed.

  Lemma flat_map_flat_map : forall (f : B -> list C) (g : A -> list B) l,
      flat_map f (flat_map g l) = flat_map (fun x => flat_map f (g x)) l.
  Proof.
    intros f g l. induction l as [|x l IH]; cbn [flat_map]; [reflexivity|].
    rewrite flat_map_app, IH. reflexivity.
  Qed.

  Lemma flat_map_ext_in : forall (f g : A -> list B) l,
      (forall a, In a l -> f a = g a) -> flat_map f l = flat_map g l.
  Proof.
    intros f g l. induction l as [|x l IH]; intros H; cbn [flat_map]; [reflexivity|].
    rewrite (H x (or_introl eq_refl)), IH; [reflexivity|]. intros a Ha. apply H. right. exact Ha.
  Qed.

  Lemma flat_map_app_perm : forall (f g : A -> list B) l,
      Permutation (flat_map (fun x => f x ++ g x) l) (flat_map f l ++ flat_map g l).
  Proof.
    intros f g l. induction l as [|x l IH]; cbn [flat_map app]; [constructor|].
    rewrite <- !app_assoc. apply Permutation_app_head.
    rewrite IH. rewrite !app_assoc. apply Permutation_app_tail. apply Permutation_app_comm.
  Qed.

  Lemma map_filter_flat_map : forall (h : A -> B) (p : A -> bool) l,
      map h (filter p l) = flat_map (fun x => if p x then [h x] else []) l.
  Proof.
    intros h p l. induction l as [|x l IH]; cbn [filter flat_map map]; [reflexivity|].
    destruct (p x); cbn [map app]; congruence.
  Qed.

  Lemma flat_map_filter : forall (f : A -> list B) (p : A -> bool) l,
      flat_map f (filter p l) = flat_map (fun x => if p x then f x else []) l.
  Proof.
    intros f p l. induction l as [|x l IH]; cbn [filter flat_map]; [reflexivity|].
    destruct (p x); cbn [flat_map app]; congruence.
  Qed.

  Lemma Permutation_filter_p : forall (p : A -> bool) l l',
      Permutation l l' -> Permutation (filter p l) (filter p l').
  Proof.
    intros p l l' H. induction H as [|x l l' H IH|x y l|l1 l2 l3 H1 IH1 H2 IH2]; cbn [filter].
    - constructor.
    - destruct (p x); [constructor|]; exact IH.
    - destruct (p x), (p y); try apply Permutation_refl. apply perm_swap.
    - eapply Permutation_trans; eassumption.
  Qed.

  Lemma flat_map_perm_ext : forall (f g : A -> list B) l,
      (forall x, Permutation (f x) (g x)) -> Permutation (flat_map f l) (flat_map g l).
  Proof.
    intros f g l H. induction l as [|x l IH]; cbn [flat_map]; [constructor|].
    apply Permutation_app; [apply H | exact IH].
  Qed.

  Lemma filter_partition_perm : forall (p : A -> bool) l,
      Permutation l (filter p l ++ filter (fun x => negb (p x)) l).
  Proof.
    intros p l. induction l as [|x l IH]; cbn [filter]; [constructor|].
    destruct (p x); cbn [negb app].
    - constructor. exact IH.
    - apply Permutation_cons_app. exact IH.
  Qed.

  Lemma isnil_perm : forall (l l' : list A), Permutation l l' -> isnil l = isnil l'.
  Proof.
    intros l l' H. destruct l as [|x l], l' as [|y l']; cbn [isnil]; try reflexivity.
    - apply Permutation_nil in H. discriminate.
    - apply Permutation_sym, Permutation_nil in H. discriminate.
  Qed.

  Lemma isnil_map : forall (f : A -> B) l, isnil (map f l) = isnil l.
  Proof. intros f [|x l]; reflexivity. Qed.
End ListFacts.

Lemma concat_map_single : forall {A B : Type} (f : A -> B) l,
    concat (map (fun x => [f x]) l) = map f l.
Proof. intros A B f l. induction l as [|x l IH]; cbn [map concat app]; congruence. Qed.

(* ---------- the `entry(k).or_default().extend(..)` fold, generically ---------- *)
Local Notation vget k m := (getd val_eqb k (@nil val) m).

Section Accum.
  Variable X : Type.
  Variable key : X -> val.
  Variable vals : X -> list val.

  Definition acc_step (m : vmap (list val)) (x : X) : vmap (list val) :=
    aupd val_eqb (key x) [] (fun l => l ++ vals x) m.
  Definition contrib (k : val) (xs : list X) : list val :=
    concat (map vals (filter (fun x => val_eqb (key x) k) xs)).

  Lemma contrib_app : forall k a b, contrib k (a ++ b) = contrib k a ++ contrib k b.
  Proof. intros k a b. unfold contrib. rewrite filter_app, map_app, concat_app. reflexivity. Qed.

  Lemma acc_nodup : forall xs m, NoDup (akeys m) -> NoDup (akeys (fold_left acc_step xs m)).
  Proof.
    induction xs as [|x xs IH]; intros m Hnd; cbn [fold_left]; [exact Hnd|].
    apply IH. unfold acc_step. apply (akeys_aupd_nodup _ _ val_eqb_spec). exact Hnd.
  Qed.

  Lemma acc_keys : forall xs m k,
      In k (akeys (fold_left acc_step xs m)) <-> In k (akeys m) \/ In k (map key xs).
  Proof.
    induction xs as [|x xs IH]; intros m k; cbn [fold_left map In]; [tauto|].
    rewrite IH. unfold acc_step. rewrite (akeys_aupd_in _ _ val_eqb_spec).
    split; [intros [[H|H]|H] | intros [H|[H|H]]]; auto.
  Qed.

  Lemma acc_getd : forall xs m k,
      vget k (fold_left acc_step xs m) = vget k m ++ contrib k xs.
  Proof.
    induction xs as [|x xs IH]; intros m k; cbn [fold_left].
    - unfold contrib. cbn [filter map concat]. rewrite app_nil_r. reflexivity.
    - rewrite IH. unfold contrib at 2. cbn [filter].
      destruct (val_eqb_spec (key x) k) as [He|Hne].
      + cbn [map concat]. fold (contrib k xs). rewrite app_assoc. f_equal.
        unfold acc_step. rewrite He. unfold getd at 1.
        rewrite (aget_aupd_same _ _ val_eqb_spec). reflexivity.
      + fold (contrib k xs). f_equal. unfold acc_step, getd.
        rewrite (aget_aupd_other _ _ val_eqb_spec); [reflexivity|]. congruence.
  Qed.
End Accum.

(* ---------- values_of ---------- *)
Lemma values_of_app : forall k a b, values_of k (a ++ b) = values_of k a ++ values_of k b.
Proof. intros k a b. unfold values_of. rewrite filter_app, map_app. reflexivity. Qed.

Lemma values_of_notin : forall k rows, ~ In k (map vfst rows) -> values_of k rows = [].
Proof.
  intros k rows. unfold values_of. induction rows as [|r rows IH]; cbn [map filter In]; intros H.
  - reflexivity.
  - destruct (val_eqb_spec (vfst r) k) as [He|Hne]; [exfalso; apply H; left; exact He|].
    apply IH. intros Hin. apply H. right. exact Hin.
Qed.

Lemma values_of_in : forall k rows, In k (map vfst rows) -> values_of k rows <> [].
Proof.
  intros k rows. unfold values_of. induction rows as [|r rows IH]; cbn [map filter In]; intros H.
  - destruct H.
  - destruct (val_eqb_spec (vfst r) k) as [He|Hne]; cbn [map]; [discriminate|].
    apply IH. destruct H as [H|H]; [contradiction|exact H].
Qed.

(* ---------- the local stage: gbk_local ---------- *)
Lemma gbk_local_acc : forall rows,
    gbk_local rows = fold_left (acc_step val vfst (fun kv => [vsnd kv])) rows [].
Proof. reflexivity. Qed.

Lemma contrib_local : forall k rows, contrib val vfst (fun kv => [vsnd kv]) k rows = values_of k rows.
Proof. intros k rows. unfold contrib, values_of. apply concat_map_single. Qed.

Lemma local_nodup : forall rows, NoDup (akeys (gbk_local rows)).
Proof. intros rows. rewrite gbk_local_acc. apply acc_nodup. constructor. Qed.

Lemma local_keys : forall rows k, In k (akeys (gbk_local rows)) <-> In k (map vfst rows).
Proof.
  intros rows k. rewrite gbk_local_acc, acc_keys. cbn [akeys map In]. tauto.
Qed.

Lemma local_getd : forall rows k, vget k (gbk_local rows) = values_of k rows.
Proof.
  intros rows k. rewrite gbk_local_acc, acc_getd, contrib_local. reflexivity.
Qed.

(* what a lookup in the local map returns *)
Lemma local_aget : forall rows k,
    aget val_eqb k (gbk_local rows)
    = if isnil (values_of k rows) then None else Some (values_of k rows).
Proof.
  intros rows k. pose proof (local_getd rows k) as Hg. unfold getd in Hg.
  destruct (aget val_eqb k (gbk_local rows)) as [vs|] eqn:E.
  - subst vs.
    assert (Hin : In k (map vfst rows)).
    { apply local_keys. apply (aget_in_keys _ _ val_eqb_spec). eexists. exact E. }
    apply values_of_in in Hin. destruct (values_of k rows); [congruence|reflexivity].
  - rewrite <- Hg. reflexivity.
Qed.

(* ---------- the merge stage ---------- *)
Lemma merge_maps_concat : forall (parts : list (vmap (list val))) acc,
    fold_left (fun acc m =>
                 fold_left (fun acc kvs => aupd val_eqb (fst kvs) [] (fun l => l ++ snd kvs) acc)
                           m acc) parts acc
    = fold_left (acc_step (val * list val) fst snd) (concat parts) acc.
Proof.
  induction parts as [|m parts IH]; intros acc; cbn [fold_left concat]; [reflexivity|].
  rewrite fold_left_app, IH. reflexivity.
Qed.

Lemma contrib_nodup : forall (m : vmap (list val)) k,
    NoDup (akeys m) -> contrib (val * list val) fst snd k m = vget k m.
Proof.
  induction m as [|[k' vs] m IH]; intros k Hnd; [reflexivity|].
  unfold akeys in Hnd. cbn [map fst] in Hnd. inversion Hnd as [|? ? Hnotin Hnd']; subst.
  unfold contrib, getd. cbn [filter aget fst].
  destruct (val_eqb_spec k' k) as [He|Hne].
  - subst k'. cbn [map concat snd]. fold (contrib (val * list val) fst snd k m).
    rewrite (IH k Hnd'). unfold getd.
    apply (aget_none_notin _ _ val_eqb_spec) in Hnotin. rewrite Hnotin. apply app_nil_r.
  - fold (contrib (val * list val) fst snd k m). rewrite (IH k Hnd'). reflexivity.
Qed.

Definition merged (ps : list (list val)) : vmap (list val) := gbk_merge_maps (map gbk_local ps).

Lemma merged_acc : forall ps,
    merged ps = fold_left (acc_step (val * list val) fst snd) (concat (map gbk_local ps)) [].
Proof. intros ps. unfold merged, gbk_merge_maps. apply merge_maps_concat. Qed.

Lemma merged_nodup : forall ps, NoDup (akeys (merged ps)).
Proof. intros ps. rewrite merged_acc. apply acc_nodup. constructor. Qed.

Lemma merged_keys : forall ps k, In k (akeys (merged ps)) <-> In k (map vfst (concat ps)).
Proof.
  intros ps k. rewrite merged_acc, acc_keys. cbn [akeys map In].
  induction ps as [|p ps IH]; cbn [map concat]; [tauto|].
  rewrite !map_app, !in_app_iff. change (map fst (gbk_local p)) with (akeys (gbk_local p)).
  rewrite local_keys. tauto.
Qed.

Lemma merged_getd : forall ps k, vget k (merged ps) = values_of k (concat ps).
Proof.
  intros ps k. rewrite merged_acc, acc_getd. cbn [getd aget app].
  induction ps as [|p ps IH]; cbn [map concat]; [reflexivity|].
  rewrite contrib_app, values_of_app, IH. f_equal.
  rewrite contrib_nodup by apply local_nodup. apply local_getd.
Qed.

Lemma merged_in : forall ps k vs, In (k, vs) (merged ps) -> vs = values_of k (concat ps).
Proof.
  intros ps k vs Hin. apply (in_amap_aget _ _ val_eqb_spec) in Hin; [|apply merged_nodup].
  rewrite <- merged_getd. unfold getd. rewrite Hin. reflexivity.
Qed.

Definition out_rows (m : vmap (list val)) : list val :=
  map (fun kvs => VPair (fst kvs) (VList (snd kvs))) m.

Lemma out_rows_vfst : forall m, map vfst (out_rows m) = akeys m.
Proof. intros m. unfold out_rows, akeys. rewrite map_map. reflexivity. Qed.

Lemma gbk_merge_perm : forall sh site ps, sh_perm sh ->
    Permutation (gbk_merge sh site (map gbk_local ps)) (out_rows (merged ps)).
Proof. intros sh site ps Hsh. unfold gbk_merge. apply Hsh. Qed.

Lemma out_rows_in : forall ps g,
    In g (out_rows (merged ps)) <->
    exists k, In k (map vfst (concat ps)) /\ g = VPair k (VList (values_of k (concat ps))).
Proof.
  intros ps g. unfold out_rows. rewrite in_map_iff. split.
  - intros [[k vs] [Hg Hin]]. cbn [fst snd] in Hg. exists k. split.
    + apply merged_keys. unfold akeys. change k with (fst (k, vs)). apply in_map. exact Hin.
    + apply merged_in in Hin. subst vs. symmetry. exact Hg.
  - intros [k [Hk Hg]]. apply merged_keys in Hk.
    apply (aget_in_keys _ _ val_eqb_spec) in Hk. destruct Hk as [vs Hvs].
    apply (in_amap_aget _ _ val_eqb_spec) in Hvs; [|apply merged_nodup].
    exists (k, vs). split; [|exact Hvs]. cbn [fst snd].
    apply merged_in in Hvs. subst vs. symmetry. exact Hg.
Qed.

(* ---------- C04 lemmas ---------- *)
Lemma gbk_keys_unique : forall sh site ps, (forall i l, Permutation (sh i l) l) ->
    NoDup (map vfst (gbk_merge sh site (map gbk_local ps))).
Proof.
  intros sh site ps Hsh.
  apply (Permutation_NoDup (l := map vfst (out_rows (merged ps)))).
  - apply Permutation_map. apply Permutation_sym. apply gbk_merge_perm. exact Hsh.
  - rewrite out_rows_vfst. apply merged_nodup.
Qed.

Lemma gbk_keys_exact : forall sh site ps k, (forall i l, Permutation (sh i l) l) ->
    (In k (map vfst (gbk_merge sh site (map gbk_local ps))) <-> In k (map vfst (concat ps))).
Proof.
  intros sh site ps k Hsh. rewrite <- merged_keys, <- out_rows_vfst.
  pose proof (Permutation_map vfst (gbk_merge_perm sh site ps Hsh)) as HP.
  split; intros H.
  - eapply Permutation_in; [exact HP|exact H].
  - eapply Permutation_in; [apply Permutation_sym; exact HP|exact H].
Qed.

Lemma gbk_in_iff : forall sh site ps g, sh_perm sh ->
    (In g (gbk_merge sh site (map gbk_local ps)) <->
     exists k, In k (map vfst (concat ps)) /\ g = VPair k (VList (values_of k (concat ps)))).
Proof.
  intros sh site ps g Hsh. rewrite <- out_rows_in.
  pose proof (gbk_merge_perm sh site ps Hsh) as HP.
  split; intros H.
  - eapply Permutation_in; [exact HP|exact H].
  - eapply Permutation_in; [apply Permutation_sym; exact HP|exact H].
Qed.

Lemma gbk_groups_exact : forall sh site ps g, (forall i l, Permutation (sh i l) l) ->
    In g (gbk_merge sh site (map gbk_local ps)) ->
    g = VPair (vfst g) (VList (values_of (vfst g) (concat ps))).
Proof.
  intros sh site ps g Hsh Hin. apply (gbk_in_iff sh site ps g Hsh) in Hin.
  destruct Hin as [k [_ Hg]]. subst g. reflexivity.
Qed.

(* rows regrouped by a duplicate-free list of keys that covers them *)
Lemma sel_rows : forall k rows, Forall vrow rows ->
    map (VPair k) (values_of k rows) = filter (fun r => val_eqb (vfst r) k) rows.
Proof.
  intros k rows H. unfold values_of. induction H as [|r rows Hr Hrows IH]; [reflexivity|].
  cbn [filter]. destruct r as [z|a b|l| |x]; try destruct Hr. cbn [vfst].
  destruct (val_eqb_spec a k) as [He|Hne]; [|exact IH].
  cbn [map vsnd]. rewrite IH, He. reflexivity.
Qed.

Lemma values_of_filter_other : forall k k' rows, k' <> k ->
    values_of k' (filter (fun r => negb (val_eqb (vfst r) k)) rows) = values_of k' rows.
Proof.
  intros k k' rows Hne. unfold values_of. induction rows as [|r rows IH]; [reflexivity|].
  cbn [filter]. destruct (val_eqb_spec (vfst r) k) as [He|Hne1]; cbn [negb filter].
  - destruct (val_eqb_spec (vfst r) k') as [He'|Hne']; [congruence|exact IH].
  - destruct (val_eqb_spec (vfst r) k') as [He'|Hne']; cbn [map]; [f_equal|]; exact IH.
Qed.

Lemma rows_by_keys : forall ks rows,
    NoDup ks -> Forall vrow rows -> (forall r, In r rows -> In (vfst r) ks) ->
    Permutation (flat_map (fun k => map (VPair k) (values_of k rows)) ks) rows.
Proof.
  induction ks as [|k ks IH]; intros rows Hnd Hrows Hcov.
  - destruct rows as [|r rows]; [constructor|]. destruct (Hcov r (or_introl eq_refl)).
  - inversion Hnd as [|? ? Hnotin Hnd']; subst. cbn [flat_map].
    rewrite (sel_rows k rows Hrows).
    eapply Permutation_trans;
      [|apply Permutation_sym; apply (filter_partition_perm (fun r => val_eqb (vfst r) k))].
    apply Permutation_app_head.
    set (rows' := filter (fun r => negb (val_eqb (vfst r) k)) rows).
    rewrite (flat_map_ext_in _ (fun k' => map (VPair k') (values_of k' rows')) ks).
    + apply IH; [exact Hnd'| |].
      * apply Forall_forall. intros r Hr. apply filter_In in Hr.
        rewrite Forall_forall in Hrows. apply Hrows. tauto.
      * intros r Hr. apply filter_In in Hr. destruct Hr as [Hr Hk].
        destruct (Hcov r Hr) as [He|Hin]; [|exact Hin].
        rewrite <- He, val_eqb_refl in Hk. discriminate.
    + intros k' Hk'. unfold rows'. rewrite values_of_filter_other; [reflexivity|].
      intros ->. contradiction.
Qed.

Lemma gbk_flatten_perm : forall sh site ps, (forall i l, Permutation (sh i l) l) ->
    Forall (fun v => match v with VPair _ _ => True | _ => False end) (concat ps) ->
    Permutation (flat_map (gf GElems) (gbk_merge sh site (map gbk_local ps))) (concat ps).
Proof.
  intros sh site ps Hsh Hrows.
  eapply Permutation_trans; [apply Permutation_flat_map; apply gbk_merge_perm; exact Hsh|].
  unfold out_rows. rewrite flat_map_map.
  rewrite (flat_map_ext_in _ (fun kvs => map (VPair (fst kvs)) (values_of (fst kvs) (concat ps)))).
  - rewrite <- (flat_map_map (fun k => map (VPair k) (values_of k (concat ps))) fst).
    apply rows_by_keys.
    + apply merged_nodup.
    + exact Hrows.
    + intros r Hr. apply merged_keys. apply in_map. exact Hr.
  - intros [k vs] Hin. cbn [gf fst snd]. apply merged_in in Hin. subst vs. reflexivity.
Qed.

(* ---------- the reference key enumeration ---------- *)
Lemma nodup_keys_spec : forall rows seen,
    NoDup (nodup_keys seen rows) /\
    forall k, In k (nodup_keys seen rows) <-> In k (map vfst rows) /\ ~ In k seen.
Proof.
  induction rows as [|r rows IH]; intros seen; cbn [nodup_keys map In].
  - split; [constructor|]. intros k. tauto.
  - destruct (existsb (val_eqb (vfst r)) seen) eqn:E.
    + apply existsb_exists in E. destruct E as [x [Hx He]]. apply val_eqb_eq in He. subst x.
      destruct (IH seen) as [Hnd Hin]. split; [exact Hnd|].
      intros k. rewrite Hin. split; [tauto|]. intros [[He|Hk] Hs]; [congruence|tauto].
    + assert (Hns : ~ In (vfst r) seen).
      { intros Hin. assert (existsb (val_eqb (vfst r)) seen = true); [|congruence].
        apply existsb_exists. exists (vfst r). split; [exact Hin|apply val_eqb_refl]. }
      destruct (IH (vfst r :: seen)) as [Hnd Hin]. split.
      * constructor; [|exact Hnd]. rewrite Hin. cbn [In]. tauto.
      * intros k. cbn [In]. rewrite Hin. cbn [In].
        destruct (val_eqb_spec (vfst r) k) as [He|Hne]; [subst k|]; tauto.
Qed.

Lemma keys_of_nodup : forall rows, NoDup (keys_of rows).
Proof. intros rows. apply (nodup_keys_spec rows []). Qed.
Lemma keys_of_in : forall rows k, In k (keys_of rows) <-> In k (map vfst rows).
Proof.
  intros rows k. unfold keys_of. destruct (nodup_keys_spec rows []) as [_ H].
  rewrite H. cbn [In]. tauto.
Qed.

Lemma gbk_matches_denote : forall sh site ps, (forall i l, Permutation (sh i l) l) ->
    Permutation (gbk_merge sh site (map gbk_local ps)) (d_group_by_key (concat ps)).
Proof.
  intros sh site ps Hsh. apply NoDup_Permutation.
  - apply (NoDup_map_inv vfst). apply gbk_keys_unique. exact Hsh.
  - apply (NoDup_map_inv vfst). unfold d_group_by_key. rewrite map_map. cbn [vfst].
    rewrite map_id. apply keys_of_nodup.
  - intros g. rewrite (gbk_in_iff sh site ps g Hsh). unfold d_group_by_key. rewrite in_map_iff.
    split.
    + intros [k [Hk Hg]]. exists k. split; [symmetry; exact Hg|]. apply keys_of_in. exact Hk.
    + intros [k [Hg Hk]]. exists k. split; [|symmetry; exact Hg]. apply keys_of_in. exact Hk.
Qed.

Lemma gbk_partition_independent : forall sh sh' site site' ps qs,
    (forall i l, Permutation (sh i l) l) -> (forall i l, Permutation (sh' i l) l) ->
    concat ps = concat qs ->
    Permutation (gbk_merge sh site (map gbk_local ps)) (gbk_merge sh' site' (map gbk_local qs)).
Proof.
  intros sh sh' site site' ps qs Hsh Hsh' Heq.
  eapply Permutation_trans; [apply gbk_matches_denote; exact Hsh|].
  rewrite Heq. apply Permutation_sym. apply gbk_matches_denote. exact Hsh'.
Qed.

Lemma gbk_empty : forall sh site, (forall i l, Permutation (sh i l) l) ->
    gbk_merge sh site (map gbk_local []) = [] /\ gbk_merge sh site (map gbk_local [[]]) = [].
Proof.
  intros sh site Hsh. split; unfold gbk_merge; cbn;
    apply Permutation_nil; apply Permutation_sym; apply Hsh.
Qed.

(* ---------- through the engines ---------- *)
Lemma check_tags_tagged : forall t (ls : list (list val)),
    check_tags t (map (fun l => (t, l)) ls) = true.
Proof.
  intros t ls. unfold check_tags. induction ls as [|l ls IH]; cbn [map forallb fst]; [reflexivity|].
  rewrite Nat.eqb_refl, IH. reflexivity.
Qed.

Lemma gbk_engine_par : forall sh (s : source) parts,
    exec_par sh TKG [NB (BSource s); NB (BGroupByKey (s_tag s) TKG)] parts
    = Ok (gbk_merge sh 0 (map gbk_local (s_split s (clamp_parts parts (s_len s))))).
Proof.
  intros sh s parts. unfold exec_par. cbn [par_main par_bnode]. unfold run_gbk, source_parts.
  rewrite check_tags_tagged. cbn [omap_out obind next_site par_main].
  unfold collect_parts, check_tags. cbn [forallb fst]. rewrite Nat.eqb_refl. cbn [andb map snd concat].
  rewrite app_nil_r, map_map. reflexivity.
Qed.

Lemma gbk_engine_seq : forall sh (s : source),
    exec_seq sh TKG [NB (BSource s); NB (BGroupByKey (s_tag s) TKG)]
    = Ok (gbk_merge sh 0 (map gbk_local [s_all s])).
Proof.
  intros sh s. unfold exec_seq. cbn [seq_main seq_bnode obind next_site take].
  unfold run_gbk, check_tags. cbn [forallb fst]. rewrite Nat.eqb_refl.
  cbn [andb obind seq_main take fst snd map]. rewrite Nat.eqb_refl. reflexivity.
Qed.
