(* NaN and infinities (Combiners/ExtReal.v): extended-real addition is a commutative monoid, so
   Sum<f64> and AverageF64 are lawful on such inputs too, and the result of every merge tree is
   the class-wise total of the samples. *)
From Coq Require Import List ZArith Lia Permutation Bool.
From IB Require Import Combiners.Lawful Combiners.Basic Combiners.ExtReal Proofs.CombinersLawful.
Import ListNotations.
Open Scope Z_scope.

Lemma xadd_comm : forall a b, xadd a b = xadd b a.
Proof. intros [| | |p] [| | |q]; cbn; try reflexivity. f_equal. lia. Qed.
Lemma xadd_assoc : forall a b d, xadd (xadd a b) d = xadd a (xadd b d).
Proof. intros [| | |p] [| | |q] [| | |r]; cbn; try reflexivity. f_equal. lia. Qed.
Lemma xadd_0_r : forall a, xadd a (XFin 0) = a.
Proof. intros [| | |p]; cbn; try reflexivity. f_equal. lia. Qed.

Lemma xsum_monoid : comm_monoid_combiner xsum_combiner (fun v => v).
Proof.
  constructor; cbn [xsum_combiner c_merge c_create c_add c_build].
  - apply xadd_assoc.
  - apply xadd_comm.
  - apply xadd_0_r.
  - reflexivity.
  - reflexivity.
Qed.

Lemma xavg_monoid : comm_monoid_combiner xavg_combiner (fun v => (v, 1)).
Proof.
  constructor; cbn [xavg_combiner c_merge c_create c_add c_build fst snd].
  - intros [a n] [b k] [d j]. cbn [fst snd]. rewrite xadd_assoc. f_equal. lia.
  - intros [a n] [b k]. cbn [fst snd]. rewrite xadd_comm. f_equal. lia.
  - intros [a n]. cbn [fst snd]. rewrite xadd_0_r. f_equal. lia.
  - reflexivity.
  - intros vs. unfold fold_acc. cbn [xavg_combiner c_add c_create].
    assert (H : forall l a n,
               fold_left (fun (a : xr * Z) v => (xadd (fst a) v, snd a + 1)) l (a, n)
               = (fold_left xadd l a, n + Z.of_nat (length l))).
    { induction l as [|v l IH]; intros a n; cbn [fold_left length fst snd].
      - f_equal. lia.
      - rewrite IH. f_equal. rewrite Nat2Z.inj_succ. lia. }
    rewrite H. reflexivity.
Qed.

(* the monoid product of the samples is their class-wise total *)
Lemma xtotal_cons : forall v m, xadd (xtotal m) v = xtotal (v :: m).
Proof.
  intros v m. unfold xtotal. cbn [existsb map].
  destruct v as [| | |z]; cbn [is_nan is_pinf is_ninf fin_part orb];
    destruct (existsb is_nan m), (existsb is_pinf m), (existsb is_ninf m);
    cbn [orb andb xadd]; try reflexivity.
  f_equal. change (zsum (z :: map fin_part m)) with (z + zsum (map fin_part m)). lia.
Qed.

Lemma xsum_acc_total : forall m, cm_acc xsum_combiner (fun v => v) m = xtotal m.
Proof.
  induction m as [|v m IH]; unfold cm_acc in *; cbn [fold_right xsum_combiner c_merge c_create].
  - reflexivity.
  - cbn [xsum_combiner c_merge c_create] in IH. rewrite IH. apply xtotal_cons.
Qed.

Lemma xavg_acc_total : forall m,
    cm_acc xavg_combiner (fun v => (v, 1)) m = (xtotal m, Z.of_nat (length m)).
Proof.
  induction m as [|v m IH]; unfold cm_acc in *; cbn [fold_right xavg_combiner c_merge c_create].
  - reflexivity.
  - cbn [xavg_combiner c_merge c_create] in IH. rewrite IH. cbn [fst snd length].
    rewrite xtotal_cons. f_equal. rewrite Nat2Z.inj_succ. lia.
Qed.

Definition xsum_R (a : xr) (m : list xr) : Prop := a = xtotal m.
Definition xsum_spec (m : list xr) (o : xr) : Prop := o = xtotal m.
Definition xavg_R (a : xr * Z) (m : list xr) : Prop := a = (xtotal m, Z.of_nat (length m)).
Definition xavg_spec (m : list xr) (o : xmean) : Prop :=
  o = xavg_finish (xtotal m, Z.of_nat (length m)).

Theorem xsum_lawful : lawful xsum_combiner xsum_R xsum_spec.
Proof.
  pose proof (comm_monoid_lawful xsum_combiner _ xsum_monoid) as L.
  destruct L as [L1 L2 L3 L4 L5 L6].
  constructor; unfold xsum_R, xsum_spec.
  - rewrite <- xsum_acc_total. exact L1.
  - intros a m v H. rewrite <- xsum_acc_total in *. apply L2. exact H.
  - intros a b m m' Ha Hb. rewrite <- xsum_acc_total in *. apply L3; assumption.
  - intros vs. rewrite <- xsum_acc_total. apply L4.
  - intros a m m' Ha HP. rewrite <- xsum_acc_total in *. apply (L5 a m m' Ha HP).
  - intros a m Ha. rewrite <- xsum_acc_total in *. apply L6. exact Ha.
Qed.

Theorem xavg_lawful : lawful xavg_combiner xavg_R xavg_spec.
Proof.
  pose proof (comm_monoid_lawful xavg_combiner _ xavg_monoid) as L.
  destruct L as [L1 L2 L3 L4 L5 L6].
  constructor; unfold xavg_R, xavg_spec.
  - rewrite <- xavg_acc_total. exact L1.
  - intros a m v H. rewrite <- xavg_acc_total in *. apply L2. exact H.
  - intros a b m m' Ha Hb. rewrite <- xavg_acc_total in *. apply L3; assumption.
  - intros vs. rewrite <- xavg_acc_total. apply L4.
  - intros a m m' Ha HP. rewrite <- xavg_acc_total in *. apply (L5 a m m' Ha HP).
  - intros a m Ha. rewrite <- xavg_acc_total in *. apply (L6 a m Ha).
Qed.

Lemma xsum_tree : forall (t : mtree xr) vs,
    Permutation (concat (mparts t)) vs ->
    c_finish xsum_combiner (meval xsum_combiner t) = xtotal vs.
Proof. intros t vs HP. apply (merge_tree_spec _ _ _ xsum_lawful t vs HP). Qed.

Lemma xavg_tree : forall (t : mtree xr) vs,
    Permutation (concat (mparts t)) vs ->
    c_finish xavg_combiner (meval xavg_combiner t)
    = xavg_finish (xtotal vs, Z.of_nat (length vs)).
Proof. intros t vs HP. apply (merge_tree_spec _ _ _ xavg_lawful t vs HP). Qed.

(* one NaN sample, or infinities of both signs, poison every split and merge order alike; finite
   samples give the exact finite sum *)
Lemma xtotal_nan : forall m, In XNaN m -> xtotal m = XNaN.
Proof.
  intros m H. unfold xtotal.
  assert (E : existsb is_nan m = true) by (apply existsb_exists; exists XNaN; split; [exact H | reflexivity]).
  rewrite E. reflexivity.
Qed.
Lemma xtotal_finite : forall zs, xtotal (map XFin zs) = XFin (zsum zs).
Proof.
  intros zs. unfold xtotal.
  assert (E : forall f, (forall z, f (XFin z) = false) -> existsb f (map XFin zs) = false).
  { intros f Hf. induction zs as [|z zs IH]; cbn [map existsb]; [reflexivity|]. rewrite Hf, IH. reflexivity. }
  rewrite !E by reflexivity. cbn [orb andb]. rewrite map_map. cbn [fin_part]. rewrite map_id. reflexivity.
Qed.
