(* Invariants of TDigest::compress in the exact instance: the result is sorted by mean, keeps the
   total weight, keeps every mean inside [lo, hi], and has one centroid only if the input had
   one (weights >= 1: the first centroid is never merged, because k_size(0) = 1). *)
From Coq Require Import List Bool Arith QArith Qabs Lqa Lia Permutation Sorted.
From IB Require Import Combiners.TDigest Proofs.TDigestBase.
Import ListNotations.
Local Open Scope Q_scope.

(* ------------------------------------------------------------------ k_size *)
Lemma clamp01_cases : forall q : X,
  clamp xarith q (Fin 0) (Fin 1) = NaN \/
  exists z, clamp xarith q (Fin 0) (Fin 1) = Fin z /\ 0 <= z <= 1.
Proof.
  intros [z| | |]; unfold clamp; cbn [a_ltb xarith xltb].
  - destruct (qltb z 0) eqn:L0.
    + right. exists 0. split; [reflexivity | lra].
    + apply qltb_false in L0. destruct (qltb 1 z) eqn:L1.
      * right. exists 1. split; [reflexivity | lra].
      * apply qltb_false in L1. right. exists z. split; [reflexivity | lra].
  - right. exists 1. split; [reflexivity | lra].
  - right. exists 0. split; [reflexivity | lra].
  - left. reflexivity.
Qed.

Lemma xmax_fin_one : forall y : X, y = NaN \/ (exists v, y = Fin v) ->
  exists k, xmax y (Fin 1) = Fin k /\ 1 <= k /\ (forall v, y = Fin v -> v <= 1 -> k == 1)
            /\ (y = NaN -> k == 1).
Proof.
  intros y [->|[v ->]].
  - exists 1. split; [reflexivity|]. split; [lra|]. split; intros; lra.
  - cbn [xmax xltb]. destruct (qltb v 1) eqn:L.
    + exists 1. split; [reflexivity|]. split; [lra|]. split; intros; lra.
    + apply qltb_false in L. exists v. split; [reflexivity|]. split; [lra|]. split.
      * intros v' E Hv. inversion E; subst. lra.
      * intro E. discriminate.
Qed.

(* the argument of .max(1.0) in k_size is NaN or finite, never infinite *)
Lemma ksize_body : forall (c q : X), q = NaN \/ (exists z, q = Fin z) ->
  let body := a_div xarith (a_mul xarith (a_mul xarith c q) (a_sub xarith (Fin 1) q)) (Fin 2) in
  body = NaN \/
  exists cc z, c = Fin cc /\ q = Fin z /\ body = Fin (cc * z * (1 - z) / 2).
Proof.
  intros c q [->|[z ->]].
  - left. destruct c; reflexivity.
  - destruct c as [cc| | |]; [right | left; reflexivity | left; reflexivity | left; reflexivity].
    exists cc, z. repeat split.
Qed.

Lemma ksize_fin : forall c q : X, exists k, k_size xarith c q = Fin k /\ 1 <= k.
Proof.
  intros c q. unfold k_size. cbn [a_zero a_one a_two a_max xarith].
  destruct (clamp01_cases q) as [E|(z & E & Hz)]; rewrite E.
  - destruct (ksize_body c NaN (or_introl eq_refl)) as [B|(cc & z & _ & Ez & _)]; [|discriminate].
    cbn zeta in B. rewrite B. exists 1. cbn. split; [reflexivity | lra].
  - destruct (ksize_body c (Fin z) (or_intror (ex_intro _ z eq_refl))) as [B|(cc & z' & _ & _ & B)];
      cbn zeta in B; rewrite B.
    + exists 1. cbn. split; [reflexivity | lra].
    + destruct (xmax_fin_one (Fin (cc * z' * (1 - z') / 2)) (or_intror (ex_intro _ _ eq_refl)))
        as (k & Ek & Hk & _).
      exists k. split; assumption.
Qed.

(* at quantile 0 (cumulative weight 0) the limit is exactly 1 *)
Lemma ksize_at_zero : forall (c t : X) (C : Q), C == 0 ->
  exists k, k_size xarith c (xdiv (Fin C) t) = Fin k /\ k == 1.
Proof.
  intros c t C HC. unfold k_size. cbn [a_zero a_one a_two a_max xarith].
  assert (Hq : xdiv (Fin C) t = NaN \/ exists z, xdiv (Fin C) t = Fin z /\ z == 0).
  { destruct t as [w| | |]; cbn [xdiv]; try (left; reflexivity).
    destruct (Qeq_bool w 0) eqn:E; [left; reflexivity|].
    right. exists (C / w). split; [reflexivity|]. rewrite HC. unfold Qdiv. lra. }
  destruct Hq as [E|(z & E & Hz)]; rewrite E.
  - assert (Ec : clamp xarith NaN (Fin 0) (Fin 1) = NaN) by reflexivity. rewrite Ec.
    destruct (ksize_body c NaN (or_introl eq_refl)) as [B|(cc & z & _ & Ez & _)]; [|discriminate].
    cbn zeta in B. rewrite B. exists 1. cbn. split; [reflexivity | lra].
  - assert (Ec : clamp xarith (Fin z) (Fin 0) (Fin 1) = Fin z).
    { unfold clamp. cbn [a_ltb xarith xltb].
      assert (L0 : qltb z 0 = false) by (apply qltb_false; lra).
      assert (L1 : qltb 1 z = false) by (apply qltb_false; lra).
      rewrite L0, L1. reflexivity. }
    rewrite Ec.
    destruct (ksize_body c (Fin z) (or_intror (ex_intro _ z eq_refl))) as [B|(cc & z' & _ & Ez & B)];
      cbn zeta in B; rewrite B.
    + exists 1. cbn. split; [reflexivity | lra].
    + inversion Ez; subst z'.
      destruct (xmax_fin_one (Fin (cc * z * (1 - z) / 2)) (or_intror (ex_intro _ _ eq_refl)))
        as (k & Ek & _ & H1 & _).
      exists k. split; [exact Ek|]. apply (H1 _ eq_refl).
      rewrite Hz. unfold Qdiv. lra.
Qed.

(* hence: while nothing has been emitted yet (cumulative weight 0) a proposed weight >= 2 is
   never accepted *)
Lemma klimit_first : forall (c t : X) (C pw : Q), C == 0 -> 2 <= pw ->
  a_leb xarith (Fin pw)
    (a_min xarith (k_size xarith c (a_div xarith (Fin C) t))
                  (k_size xarith c (a_div xarith (a_add xarith (Fin C) (Fin pw)) t))) = false.
Proof.
  intros c t C pw HC Hpw. cbn [a_leb a_min a_div a_add xarith].
  destruct (ksize_at_zero c t C HC) as (k0 & E0 & H0). rewrite E0.
  destruct (ksize_fin c (xdiv (xlift2 Qplus (Fin C) (Fin pw)) t)) as (k1 & E1 & H1). rewrite E1.
  cbn [xmin xltb]. destruct (qltb k1 k0) eqn:L; cbn [xleb]; apply qleb_false.
  - apply qltb_true in L. lra.
  - lra.
Qed.

(* ------------------------------------------------------------------ weighted mean *)
Lemma wavg_between : forall m1 m2 w1 w2 : Q, m1 <= m2 -> 1 <= w1 -> 1 <= w2 ->
  m1 <= (m1 * w1 + m2 * w2) / (w1 + w2) <= m2.
Proof.
  intros. split.
  - apply Qle_shift_div_l; [lra | nra].
  - apply Qle_shift_div_r; [lra | nra].
Qed.

(* ------------------------------------------------------------------ the compress loop *)
Lemma compress_loop : forall (c dmn dmx : X) (W lo hi : Q) rest comp C cur,
  Forall (fin_c lo hi) (cur :: comp) -> Forall (fin_c lo hi) rest ->
  StronglySorted mle (rev (cur :: comp)) ->
  Forall (mle cur) rest -> StronglySorted mle rest ->
  (comp = [] -> C == 0) ->
  exists comp' C' cur',
    fold_left (compress_step xarith c (Fin W) dmn dmx) rest (comp, Fin C, cur) = (comp', Fin C', cur') /\
    Forall (fin_c lo hi) (cur' :: comp') /\
    StronglySorted mle (rev (cur' :: comp')) /\
    sumw (cur' :: comp') == sumw (cur :: comp) + sumw rest /\
    (comp <> [] \/ rest <> [] -> comp' <> []).
Proof.
  intros c dmn dmx W lo hi rest. induction rest as [|cen rest IH]; intros comp C cur Hcc Hrest Hs Hle Hsr HC.
  - exists comp, C, cur. cbn [fold_left]. repeat split; try assumption.
    + change (sumw []) with 0. lra.
    + intros [H|H]; [exact H | contradiction].
  - inversion Hcc as [|? ? Hcur Hcomp]; subst.
    inversion Hrest as [|? ? Hcen Hrest']; subst.
    inversion Hle as [|? ? Hle1 Hle']; subst.
    inversion Hsr as [|? ? Hsr' Hcenle]; subst.
    destruct (fin_c_inv _ _ _ Hcur) as (cm & cw & -> & Hcm & Hcw).
    destruct (fin_c_inv _ _ _ Hcen) as (m & w & -> & Hm & Hw).
    assert (Hmm : cm <= m) by (unfold mle, mean_q in Hle1; cbn in Hle1; exact Hle1).
    cbn [fold_left]. unfold compress_step at 2. cbn [fst snd].
    change (a_add xarith (Fin cw) (Fin w)) with (Fin (cw + w)).
    destruct (a_leb xarith (Fin (cw + w))
               (a_min xarith (k_size xarith c (a_div xarith (Fin C) (Fin W)))
                  (k_size xarith c (a_div xarith (a_add xarith (Fin C) (Fin (cw + w))) (Fin W)))))
      eqn:Dec.
    + (* merge the centroid into `current` *)
      assert (NE : comp <> []).
      { intro E. rewrite (klimit_first c (Fin W) C (cw + w) (HC E)) in Dec by lra. discriminate. }
      assert (Z : Qeq_bool (cw + w) 0 = false) by (apply qeqb_false; lra).
      assert (Enew : a_div xarith (a_fma xarith (Fin cm) (Fin cw) (a_mul xarith (Fin m) (Fin w)))
                       (Fin (cw + w)) = Fin ((cm * cw + m * w) / (cw + w))).
      { cbn [a_div a_fma a_mul xarith xfma xlift2 xdiv]. rewrite Z. reflexivity. }
      rewrite Enew. cbn [a_is_finite xarith xfinite].
      pose proof (wavg_between cm m cw w Hmm Hcw Hw) as Havg.
      set (nm := (cm * cw + m * w) / (cw + w)) in *.
      destruct (IH comp C (Fin nm, Fin (cw + w))) as (comp' & C' & cur' & E & F & S & SW & NEc).
      * constructor; [|exact Hcomp]. cbn. split; [lra | lra].
      * exact Hrest'.
      * cbn [rev] in Hs |- *. eapply sorted_replace_last; [exact Hs|].
        unfold mle, mean_q. cbn. lra.
      * rewrite Forall_forall in Hcenle |- *. intros z Hz.
        eapply mle_trans; [|apply Hcenle; exact Hz]. unfold mle, mean_q. cbn. lra.
      * exact Hsr'.
      * exact HC.
      * exists comp', C', cur'. repeat split; try assumption.
        -- rewrite SW.
           change (sumw ((Fin nm, Fin (cw + w)) :: comp)) with ((cw + w) + sumw comp).
           change (sumw ((Fin cm, Fin cw) :: comp)) with (cw + sumw comp).
           change (sumw ((Fin m, Fin w) :: rest)) with (w + sumw rest). lra.
        -- intros _. apply NEc. left. exact NE.
    + (* emit `current`, start a new one *)
      change (a_add xarith (Fin C) (Fin cw)) with (Fin (C + cw)).
      destruct (IH ((Fin cm, Fin cw) :: comp) (C + cw) (Fin m, Fin w))
        as (comp' & C' & cur' & E & F & S & SW & NEc).
      * constructor; [exact Hcen | exact Hcc].
      * exact Hrest'.
      * change (rev ((Fin m, Fin w) :: (Fin cm, Fin cw) :: comp))
          with (rev ((Fin cm, Fin cw) :: comp) ++ [(Fin m, Fin w)]).
        apply sorted_snoc; [exact Hs|]. intros x Hx.
        eapply mle_trans; [|exact Hle1].
        cbn [rev] in Hs, Hx. eapply sorted_snoc_inv; [exact Hs | exact Hx].
      * exact Hcenle.
      * exact Hsr'.
      * intro E. discriminate.
      * exists comp', C', cur'. repeat split; try assumption.
        -- rewrite SW.
           change (sumw ((Fin m, Fin w) :: (Fin cm, Fin cw) :: comp)) with (w + (cw + sumw comp)).
           change (sumw ((Fin cm, Fin cw) :: comp)) with (cw + sumw comp).
           change (sumw ((Fin m, Fin w) :: rest)) with (w + sumw rest). lra.
        -- intros _. apply NEc. left. discriminate.
Qed.

(* ------------------------------------------------------------------ compress_cents *)
Theorem compress_cents_spec : forall (c dmn dmx : X) (W lo hi : Q) cents,
  Forall (fin_c lo hi) cents -> cents <> [] ->
  let out := compress_cents xarith c (Fin W) dmn dmx cents in
  Forall (fin_c lo hi) out /\ StronglySorted mle out /\ sumw out == sumw cents /\ out <> [] /\
  (forall x, out = [x] -> exists y, cents = [y]).
Proof.
  intros c dmn dmx W lo hi cents Hf NE. unfold compress_cents.
  pose proof (sort_c_perm cents) as P.
  pose proof (sort_c_sorted lo hi cents Hf) as S.
  pose proof (Forall_perm _ _ _ (Permutation_sym P) Hf) as Hfs.
  destruct (sort_c xarith cents) as [|first rest] eqn:Es.
  - exfalso. apply NE. apply Permutation_nil. exact P.
  - inversion Hfs as [|? ? Hfirst Hrest]; subst.
    inversion S as [|? ? Srest Sfirst]; subst.
    destruct (compress_loop c dmn dmx W lo hi rest [] 0 first) as (comp' & C' & cur' & E & F & SS & SW & NEc).
    + constructor; [exact Hfirst | constructor].
    + exact Hrest.
    + cbn. constructor; constructor.
    + exact Sfirst.
    + exact Srest.
    + intros _. reflexivity.
    + cbn [a_zero xarith]. rewrite E. cbv zeta.
      repeat split.
      * apply Forall_rev. exact F.
      * exact SS.
      * rewrite (sumw_perm _ _ (Permutation_sym (Permutation_rev (cur' :: comp')))).
        rewrite SW. change (sumw [first]) with (weight_q first + 0).
        rewrite <- (sumw_perm _ _ P).
        change (sumw (first :: rest)) with (weight_q first + sumw rest). lra.
      * intro E0. apply (f_equal (@length _)) in E0. rewrite rev_length in E0. cbn in E0. lia.
      * intros x Ex. destruct rest as [|r rest'].
        -- assert (L : length cents = 1%nat)
             by (rewrite <- (Permutation_length P); reflexivity).
           destruct cents as [|y [|? ?]]; cbn in L; try lia. exists y. reflexivity.
        -- exfalso. assert (NE' : comp' <> []) by (apply NEc; right; discriminate).
           apply (f_equal (@length _)) in Ex. rewrite rev_length in Ex. cbn in Ex.
           destruct comp'; [contradiction | cbn in Ex; lia].
Qed.
