(* Proofs about OperationContext / run_with_context and ConnectionPool (Cloud/Ops.v, Sections
   Context and Pool). *)
From Coq Require Import List NArith Bool Arith Lia.
From IB Require Import Cloud.Ops.
Import ListNotations.

(* ------------------------------------------------------------------ OperationContext *)

Section ContextProofs.
  Variables K V St : Type.
  Variable keq : K -> K -> bool.
  Hypothesis keq_spec : forall a b, keq a b = true <-> a = b.

  Lemma keq_refl : forall a, keq a a = true.
  Proof. intros a. now apply keq_spec. Qed.

  Lemma keq_neq : forall a b, a <> b -> keq a b = false.
  Proof.
    intros a b H. destruct (keq a b) eqn:E; [|reflexivity]. apply keq_spec in E. contradiction.
  Qed.

  (* HashMap::insert then get *)
  Lemma meta_get_insert_same : forall k (v : V) m, meta_get keq k (meta_insert keq k v m) = Some v.
  Proof. intros k v m. unfold meta_insert. cbn [meta_get]. now rewrite keq_refl. Qed.

  Lemma meta_get_filter_other : forall k k' (m : list (K * V)),
      k' <> k ->
      meta_get keq k' (filter (fun p => negb (keq (fst p) k)) m) = meta_get keq k' m.
  Proof.
    intros k k' m Hne. induction m as [|[a b] m IH]; [reflexivity|].
    cbn [filter fst meta_get].
    destruct (keq a k) eqn:Eak; cbn [negb].
    - apply keq_spec in Eak. subst a. rewrite (keq_neq k k') by congruence. exact IH.
    - cbn [meta_get]. destruct (keq a k'); [reflexivity|exact IH].
  Qed.

  Lemma meta_get_insert_other : forall k k' (v : V) m,
      k' <> k -> meta_get keq k' (meta_insert keq k v m) = meta_get keq k' m.
  Proof.
    intros k k' v m Hne. unfold meta_insert. cbn [meta_get].
    rewrite (keq_neq k k') by congruence. now apply meta_get_filter_other.
  Qed.

  Lemma in_map_fst_filter : forall k a (m : list (K * V)),
      In a (map fst (filter (fun p => negb (keq (fst p) k)) m)) -> In a (map fst m) /\ a <> k.
  Proof.
    intros k a m. induction m as [|[x y] m IH]; cbn [filter map fst]; [intros []|].
    destruct (keq x k) eqn:E; cbn [negb map fst In].
    - intros H. destruct (IH H) as [H1 H2]. split; [now right|exact H2].
    - intros [->|H].
      + split; [now left|]. intros ->. rewrite keq_refl in E. discriminate.
      + destruct (IH H) as [H1 H2]. split; [now right|exact H2].
  Qed.

  Lemma nodup_keys_filter : forall k (m : list (K * V)),
      NoDup (map fst m) -> NoDup (map fst (filter (fun p => negb (keq (fst p) k)) m)).
  Proof.
    intros k m. induction m as [|[x y] m IH]; cbn [filter map fst]; [intros; constructor|].
    intros Hnd. inversion Hnd as [|? ? Hnin Hnd']; subst.
    destruct (keq x k); cbn [negb map fst]; [now apply IH|].
    constructor; [|now apply IH].
    intros Hin. apply in_map_fst_filter in Hin. now destruct Hin.
  Qed.

  (* the map never holds a key twice, and an insert adds at most one binding *)
  Lemma meta_insert_nodup : forall k (v : V) m,
      NoDup (map fst m) -> NoDup (map fst (meta_insert keq k v m)).
  Proof.
    intros k v m Hnd. unfold meta_insert. cbn [map fst]. constructor.
    - intros Hin. apply in_map_fst_filter in Hin. destruct Hin as [_ Hne]. now apply Hne.
    - now apply nodup_keys_filter.
  Qed.

  Lemma filter_len_le : forall (A : Type) (f : A -> bool) (l : list A),
      (length (filter f l) <= length l)%nat.
  Proof.
    intros A f l. induction l as [|a l IH]; [apply le_n|].
    cbn [filter]. destruct (f a); cbn [length]; lia.
  Qed.

  Lemma meta_insert_length : forall k (v : V) m,
      (length (meta_insert keq k v m) <= S (length m))%nat.
  Proof.
    intros k v m. unfold meta_insert. cbn [length]. apply le_n_S, filter_len_le.
  Qed.

  (* number of increment_retry calls among the actions *)
  Fixpoint count_inc (acts : list (ctx_action K V)) : nat :=
    match acts with
    | [] => O
    | ActIncrement :: rest => S (count_inc rest)
    | ActAdd _ _ :: rest => count_inc rest
    end.

  (* the closure's actions: name and start time are never touched, retry_count goes up by the
     number of increments, and the run panics exactly when that leaves the u32 range *)
  Lemma ctx_apply_spec : forall acts (c : op_context K V St),
      (ctx_retry c <= u32_max)%N ->
      match ctx_apply keq c acts with
      | Some c' =>
          ctx_name c' = ctx_name c /\ ctx_start c' = ctx_start c /\
          ctx_retry c' = (ctx_retry c + N.of_nat (count_inc acts))%N /\
          (ctx_retry c' <= u32_max)%N
      | None => (u32_max < ctx_retry c + N.of_nat (count_inc acts))%N
      end.
  Proof.
    induction acts as [|[|k v] acts IH]; intros c Hc.
    - cbn. repeat split; try reflexivity; lia.
    - cbn [ctx_apply count_inc]. unfold ctx_increment_retry.
      destruct (ctx_retry c =? u32_max)%N eqn:E.
      + apply N.eqb_eq in E. lia.
      + apply N.eqb_neq in E.
        specialize (IH (mk_ctx (ctx_name c) (ctx_start c) (ctx_retry c + 1) (ctx_meta c))).
        cbn [ctx_retry ctx_name ctx_start] in IH.
        assert (Hc' : (ctx_retry c + 1 <= u32_max)%N) by lia. specialize (IH Hc').
        destruct (ctx_apply keq _ acts) as [c'|].
        * destruct IH as (H1 & H2 & H3 & H4). repeat split; try assumption. lia.
        * lia.
    - cbn [ctx_apply count_inc]. specialize (IH (ctx_add_metadata keq c k v)).
      cbn [ctx_add_metadata ctx_retry ctx_name ctx_start] in IH. exact (IH Hc).
  Qed.

  (* add_metadata through the context *)
  Lemma ctx_add_metadata_spec : forall (c : op_context K V St) k v,
      let c' := ctx_add_metadata keq c k v in
      ctx_name c' = ctx_name c /\ ctx_start c' = ctx_start c /\ ctx_retry c' = ctx_retry c /\
      meta_get keq k (ctx_meta c') = Some v /\
      (forall k', k' <> k -> meta_get keq k' (ctx_meta c') = meta_get keq k' (ctx_meta c)).
  Proof.
    intros c k v. cbn. repeat split; try reflexivity.
    - apply meta_get_insert_same.
    - intros k' H. now apply meta_get_insert_other.
  Qed.

  (* run_with_context: one call of the closure on the context given; Ok hands back the value
     and the context exactly as the closure left it, Err hands back the closure's error *)
  Lemma run_with_context_spec :
    forall X M (c : op_context K V St) (op : op_context K V St -> option (res X M * op_context K V St)),
      (forall v c', op c = Some (ROk v, c') -> run_with_context c op = Done (ROk (v, c'))) /\
      (forall k m c', op c = Some (RErr k m, c') -> run_with_context c op = Done (RErr k m)) /\
      (op c = None -> run_with_context c op = Panic).
  Proof.
    intros X M c op. unfold run_with_context. repeat split.
    - intros v c' ->. reflexivity.
    - intros k m c' ->. reflexivity.
    - intros ->. reflexivity.
  Qed.

  (* with the scripted closure: name and start time survive, the retry count is the initial one
     plus the increments made, whatever was inserted last under a key is what is found *)
  Lemma run_with_context_scripted :
    forall X M (c : op_context K V St) acts (v : X),
      (ctx_retry c + N.of_nat (count_inc acts) <= u32_max)%N ->
      exists c',
        run_with_context (M := M) c (scripted_ctx_op keq acts (ROk v)) = Done (ROk (v, c')) /\
        ctx_apply keq c acts = Some c' /\
        ctx_name c' = ctx_name c /\ ctx_start c' = ctx_start c /\
        ctx_retry c' = (ctx_retry c + N.of_nat (count_inc acts))%N.
  Proof.
    intros X M c acts v Hb.
    assert (Hc : (ctx_retry c <= u32_max)%N) by lia.
    pose proof (ctx_apply_spec acts c Hc) as Hs.
    unfold run_with_context, scripted_ctx_op.
    destruct (ctx_apply keq c acts) as [c'|]; [|lia].
    destruct Hs as (H1 & H2 & H3 & _). exists c'. repeat split; assumption.
  Qed.

  Lemma run_with_context_scripted_err :
    forall X M (c : op_context K V St) acts k (m : M),
      (ctx_retry c + N.of_nat (count_inc acts) <= u32_max)%N ->
      run_with_context (X := X) c (scripted_ctx_op keq acts (RErr k m)) = Done (RErr k m).
  Proof.
    intros X M c acts k m Hb.
    assert (Hc : (ctx_retry c <= u32_max)%N) by lia.
    pose proof (ctx_apply_spec acts c Hc) as Hs.
    unfold run_with_context, scripted_ctx_op.
    destruct (ctx_apply keq c acts) as [c'|]; [reflexivity|lia].
  Qed.
End ContextProofs.

(* ------------------------------------------------------------------ ConnectionPool *)

Section PoolProofs.
  Variables T M : Type.

  Lemma pool_eta : forall p : pool T, mk_pool (pool_conns p) (pool_max p) = p.
  Proof. intros []. reflexivity. Qed.

  (* release then acquire: the connection just released comes back, `create` is not called and
     the pool is as before - provided there was room *)
  Lemma pool_lifo : forall (p : pool T) x (create : res T M),
      (N.of_nat (pool_size p) < pool_max p)%N ->
      pool_acquire (pool_release p x) create = (ROk x, p, false).
  Proof.
    intros p x create H. unfold pool_release, pool_size in *.
    apply N.ltb_lt in H. rewrite H. unfold pool_acquire. cbn [pool_conns pool_max].
    now rewrite pool_eta.
  Qed.

  (* a full pool drops what is released *)
  Lemma pool_release_full : forall (p : pool T) x,
      (pool_max p <= N.of_nat (pool_size p))%N -> pool_release p x = p.
  Proof.
    intros p x H. unfold pool_release, pool_size in *. apply N.ltb_ge in H. now rewrite H.
  Qed.

  (* `create` is called exactly when the pool is empty, its result is handed back as is and the
     pool stays empty; otherwise the most recently pooled connection is handed back *)
  Lemma pool_acquire_spec : forall (p : pool T) (create : res T M),
      match pool_conns p with
      | [] => pool_acquire p create = (create, p, true)
      | x :: rest => pool_acquire p create = (ROk x, mk_pool rest (pool_max p), false)
      end.
  Proof. intros p create. unfold pool_acquire. destruct (pool_conns p); reflexivity. Qed.

  Lemma pool_release_max : forall (p : pool T) x, pool_max (pool_release p x) = pool_max p.
  Proof. intros p x. unfold pool_release. destruct (_ <? _)%N; reflexivity. Qed.

  Lemma pool_release_bounded : forall (p : pool T) x,
      (N.of_nat (pool_size p) <= pool_max p)%N ->
      (N.of_nat (pool_size (pool_release p x)) <= pool_max (pool_release p x))%N.
  Proof.
    intros p x H. unfold pool_release, pool_size in *.
    destruct (N.of_nat (length (pool_conns p)) <? pool_max p)%N eqn:E.
    - apply N.ltb_lt in E. cbn [pool_conns pool_max length]. lia.
    - exact H.
  Qed.

  Definition obs_bounded (mx : N) (o : pool_obs T M) : Prop :=
    match o with OSize n => (N.of_nat n <= mx)%N | _ => True end.

  (* whatever the clients do: the pool never holds more than max_size connections, max_size
     never changes, and every size() they see is within the bound *)
  Lemma pool_run_bounded : forall (ops : list (pool_op T M)) (p : pool T),
      (N.of_nat (pool_size p) <= pool_max p)%N ->
      let '(obs, pf) := pool_run p ops in
      pool_max pf = pool_max p /\
      (N.of_nat (pool_size pf) <= pool_max p)%N /\
      Forall (obs_bounded (pool_max p)) obs.
  Proof.
    induction ops as [|[create|x|] ops IH]; intros p Hp.
    - cbn. repeat split; [exact Hp|constructor].
    - cbn [pool_run]. unfold pool_acquire.
      destruct (pool_conns p) as [|y rest] eqn:Ec.
      + specialize (IH p Hp). destruct (pool_run p ops) as [obs pf].
        destruct IH as (H1 & H2 & H3). repeat split; try assumption.
        constructor; [exact I|exact H3].
      + assert (Hp' : (N.of_nat (pool_size (mk_pool rest (pool_max p))) <= pool_max p)%N).
        { unfold pool_size in *. rewrite Ec in Hp. cbn [pool_conns length] in *. lia. }
        specialize (IH (mk_pool rest (pool_max p)) Hp'). cbn [pool_max] in IH.
        destruct (pool_run (mk_pool rest (pool_max p)) ops) as [obs pf].
        destruct IH as (H1 & H2 & H3). repeat split; try assumption.
        constructor; [exact I|exact H3].
    - cbn [pool_run].
      pose proof (pool_release_bounded p x Hp) as Hb. specialize (IH (pool_release p x) Hb).
      rewrite pool_release_max in IH.
      destruct (pool_run (pool_release p x) ops) as [obs pf].
      destruct IH as (H1 & H2 & H3). repeat split; try assumption.
      constructor; [exact I|exact H3].
    - cbn [pool_run]. specialize (IH p Hp). destruct (pool_run p ops) as [obs pf].
      destruct IH as (H1 & H2 & H3). repeat split; try assumption.
      constructor; [exact Hp|exact H3].
  Qed.

  (* a pool straight from new() *)
  Lemma pool_new_spec : forall elem_size max_size,
      (elem_size * max_size <= isize_max)%N ->
      pool_new (T := T) elem_size max_size = Some (mk_pool [] max_size).
  Proof.
    intros e m H. unfold pool_new. apply N.ltb_ge in H. now rewrite H.
  Qed.

  Lemma pool_new_overflow : forall elem_size max_size,
      (isize_max < elem_size * max_size)%N -> pool_new (T := T) elem_size max_size = None.
  Proof.
    intros e m H. unfold pool_new. apply N.ltb_lt in H. now rewrite H.
  Qed.

  Lemma pool_new_none_inv : forall elem_size max_size,
      pool_new (T := T) elem_size max_size = None -> (isize_max < elem_size * max_size)%N.
  Proof.
    intros e m H. unfold pool_new in H.
    destruct (isize_max <? e * m)%N eqn:E; [now apply N.ltb_lt|discriminate].
  Qed.

  Lemma pool_new_some_inv : forall elem_size max_size p,
      pool_new (T := T) elem_size max_size = Some p -> (elem_size * max_size <= isize_max)%N.
  Proof.
    intros e m p H. unfold pool_new in H.
    destruct (isize_max <? e * m)%N eqn:E; [discriminate|now apply N.ltb_ge].
  Qed.

  Lemma pool_from_new_bounded : forall elem_size max_size p (ops : list (pool_op T M)),
      pool_new elem_size max_size = Some p ->
      let '(obs, pf) := pool_run p ops in
      pool_max pf = max_size /\ (N.of_nat (pool_size pf) <= max_size)%N /\
      Forall (obs_bounded max_size) obs.
  Proof.
    intros e m p ops H. unfold pool_new in H. destruct (_ <? _)%N; [discriminate|].
    injection H as <-.
    apply (pool_run_bounded ops (mk_pool [] m)). cbn. lia.
  Qed.
  Lemma pool_bounded_from_new : forall elem_size max_size (ops : list (pool_op T M)),
      match pool_new (T := T) elem_size max_size with
      | None => (isize_max < elem_size * max_size)%N
      | Some p =>
          (elem_size * max_size <= isize_max)%N /\
          let '(obs, pf) := pool_run p ops in
          pool_max pf = max_size /\ (N.of_nat (pool_size pf) <= max_size)%N /\
          Forall (obs_bounded max_size) obs
      end.
  Proof.
    intros e m ops. destruct (pool_new (T := T) e m) as [p|] eqn:Hn.
    - split; [now apply (pool_new_some_inv e m p)|].
      exact (pool_from_new_bounded e m p ops Hn).
    - now apply pool_new_none_inv.
  Qed.
End PoolProofs.

(* ------------------------------------------------------------------ examples *)

Definition ex_ctx : op_context nat nat nat := ctx_new 7%nat 1000%nat.
Definition ex_acts : list (ctx_action nat nat) :=
  [ActAdd 1 10; ActIncrement; ActAdd 2 20; ActAdd 1 11; ActIncrement]%nat.
Definition ex_pool_ops : list (pool_op nat nat) :=
  [PAcquire (ROk 100%nat); PRelease 100%nat; PRelease 101%nat; PRelease 102%nat; PSize;
   PAcquire (RErr Network 0%nat); PAcquire (ROk 7%nat); PAcquire (RErr NotFound 9%nat)].
