(* Proofs for the size dimension of C10: detection looks at six bytes only, the BufReader peek
   loses nothing whatever the content size and read pattern, serialised JSONL / CSV text and
   format signatures, overwriting a name in a directory / object store. *)
From Coq Require Import List ZArith NArith Bool Lia.
From IB Require Import IO.Compression IO.CompressionPayload IO.Jsonl Proofs.CompressionProofs
  Proofs.CompressionRegistryProofs.
Import ListNotations.
Open Scope Z_scope.

(* ---------- detection and content size ---------- *)

Lemma magic_short : forall c, (length (magic c) <= 6)%nat.
Proof. intros c. destruct c; cbn; lia. Qed.

Lemma detect_magic_window : forall s, detect_magic s = detect_magic (firstn 6 s).
Proof.
  intros s. rewrite !detect_magic_simpl. unfold registry. cbn [find].
  rewrite !(starts_with_firstn _ 6 s) by apply magic_short. reflexivity.
Qed.

Lemma detect_magic_same_head : forall s t,
  firstn 6 s = firstn 6 t -> detect_magic s = detect_magic t.
Proof. intros s t H. rewrite (detect_magic_window s), (detect_magic_window t), H. reflexivity. Qed.

Lemma firstn_app_long : forall (A : Type) (n : nat) (h a : list A),
  (n <= length h)%nat -> firstn n (h ++ a) = firstn n h.
Proof.
  intros A n h a H. rewrite firstn_app. replace (n - length h)%nat with 0%nat by lia.
  cbn [firstn]. apply app_nil_r.
Qed.

(* the reader's decision is a function of the name and of the first six bytes: two contents of
   any sizes that share a head of at least six bytes are treated alike by every reader *)
Lemma reader_codec_size_independent : forall r path h t1 t2,
  (6 <= length h)%nat ->
  ep_reader_codec r path (h ++ t1) = ep_reader_codec r path (h ++ t2).
Proof.
  intros r path h t1 t2 Hh. unfold ep_reader_codec, reader_codec.
  rewrite (detect_magic_same_head (h ++ t1) (h ++ t2)); [reflexivity|].
  rewrite !firstn_app_long by exact Hh. reflexivity.
Qed.

(* ---------- BufReader: the peek consumes nothing ---------- *)

Lemma br_peek_new : forall cap content, br_peek cap (br_new content) = firstn cap content.
Proof. intros cap content. reflexivity. Qed.

Lemma peek_is_br_peek : forall content, peek content = br_peek buf_capacity (br_new content).
Proof. intros content. reflexivity. Qed.

Lemma br_fill_remaining : forall cap b, br_remaining (br_fill cap b) = br_remaining b.
Proof.
  intros cap [buf rest]. unfold br_fill, br_remaining. cbn [br_buf br_rest].
  destruct buf as [|x buf]; cbn [br_buf br_rest]; [|reflexivity].
  cbn [app]. apply firstn_skipn.
Qed.

Lemma br_read_remaining : forall cap k b,
  fst (br_read cap k b) ++ br_remaining (snd (br_read cap k b)) = br_remaining b.
Proof.
  intros cap k [buf rest]. unfold br_read. cbn [br_buf br_rest].
  destruct buf as [|x buf].
  - destruct (cap <=? k)%nat; cbn [fst snd]; unfold br_remaining; cbn [br_buf br_rest app].
    + apply firstn_skipn.
    + unfold br_fill. cbn [br_buf br_rest]. rewrite app_assoc, firstn_skipn. apply firstn_skipn.
  - cbn [fst snd]. unfold br_remaining. cbn [br_buf br_rest].
    rewrite app_assoc, firstn_skipn. reflexivity.
Qed.

Lemma br_reads_remaining : forall cap ks b,
  concat (fst (br_reads cap ks b)) ++ br_remaining (snd (br_reads cap ks b)) = br_remaining b.
Proof.
  intros cap ks. induction ks as [|k ks IH]; intros b; [reflexivity|].
  cbn [br_reads]. pose proof (br_read_remaining cap k b) as Hr.
  destruct (br_read cap k b) as [c b'] eqn:E1. cbn [fst snd] in Hr.
  specialize (IH b'). destruct (br_reads cap ks b') as [cs b''] eqn:E2. cbn [fst snd] in IH |- *.
  cbn [concat]. rewrite <- app_assoc, IH. exact Hr.
Qed.

(* after auto_detect_reader's peek, any sequence of reads delivers the content from its first
   byte: for contents of every size (shorter than, equal to, longer than the 8 KiB buffer) *)
Lemma after_peek_stream : forall content ks,
  concat (fst (br_reads buf_capacity ks (br_after_peek content)))
  ++ br_remaining (snd (br_reads buf_capacity ks (br_after_peek content))) = content.
Proof.
  intros content ks. rewrite br_reads_remaining. unfold br_after_peek.
  rewrite br_fill_remaining. reflexivity.
Qed.

(* a read of k > 0 bytes returns at least one byte while any remain: a consumer that reads until
   it gets nothing has seen the whole content *)
Lemma br_read_progress : forall cap k b,
  (0 < cap)%nat -> (0 < k)%nat -> br_remaining b <> [] -> fst (br_read cap k b) <> [].
Proof.
  intros cap k [buf rest] Hc Hk Hne. unfold br_read, br_remaining in *. cbn [br_buf br_rest] in *.
  destruct buf as [|x buf].
  - cbn [app] in Hne. destruct rest as [|y rest]; [contradiction|].
    destruct (cap <=? k)%nat; cbn [fst].
    + destruct k; [inversion Hk|]. discriminate.
    + unfold br_fill. cbn [br_buf br_rest]. destruct cap; [inversion Hc|].
      destruct k; [inversion Hk|]. discriminate.
  - cbn [fst]. destruct k; [inversion Hk|]. discriminate.
Qed.

(* ---------- serialised text ---------- *)

Lemma sum_nat_app : forall a b, sum_nat (a ++ b) = (sum_nat a + sum_nat b)%nat.
Proof.
  unfold sum_nat. induction a as [|x a IH]; intros b; cbn [app fold_right]; [reflexivity|].
  rewrite IH. lia.
Qed.

Lemma jsonl_line_length : forall r, length (jsonl_line r) = jsonl_line_len r.
Proof.
  intros [k v]. unfold jsonl_line, jsonl_line_len, jsonl_open, jsonl_mid. cbn [fst snd].
  rewrite !app_length. cbn [length]. lia.
Qed.

Lemma csv_line_length : forall r, length (csv_line r) = csv_line_len r.
Proof.
  intros [k v]. unfold csv_line, csv_line_len. cbn [fst snd].
  rewrite app_length. cbn [length]. rewrite app_length. cbn [length]. lia.
Qed.

Lemma jsonl_text_length : forall rs, length (jsonl_text rs) = sum_nat (map jsonl_line_len rs).
Proof.
  induction rs as [|r rs IH]; [reflexivity|].
  unfold jsonl_text in *. cbn [flat_map map sum_nat fold_right].
  rewrite app_length, jsonl_line_length. fold (sum_nat (map jsonl_line_len rs)). rewrite <- IH.
  reflexivity.
Qed.

Lemma csv_text_length : forall rs, length (csv_text rs) = sum_nat (map csv_line_len rs).
Proof.
  induction rs as [|r rs IH]; [reflexivity|].
  unfold csv_text in *. cbn [flat_map map sum_nat fold_right].
  rewrite app_length, csv_line_length. fold (sum_nat (map csv_line_len rs)). rewrite <- IH.
  reflexivity.
Qed.

Lemma nrange_length : forall n, length (nrange n) = N.to_nat n.
Proof. intros n. unfold nrange. rewrite map_length, seq_length. reflexivity. Qed.

Lemma pl_recs_length : forall kc g, length (pl_recs kc g) = N.to_nat (pg_n g).
Proof. intros kc g. unfold pl_recs. rewrite map_length. apply nrange_length. Qed.

Lemma pl_key_length : forall kc g i, length (pl_key kc g i) = N.to_nat (pl_keylen g i).
Proof. intros kc g i. unfold pl_key. rewrite map_length. apply nrange_length. Qed.

(* JSONL text begins with '{' (or is empty): it never begins with a format signature *)
Lemma jsonl_text_no_signature : forall rs c, starts_with (signature c) (jsonl_text rs) = false.
Proof.
  intros rs c. destruct rs as [|r rs]; [destruct c; reflexivity|].
  unfold jsonl_text. cbn [flat_map]. unfold jsonl_line, jsonl_open. cbn [app].
  destruct c; reflexivity.
Qed.

(* no signature contains a comma: a CSV file begins with a signature iff its first field does *)
Lemma starts_with_absent_byte : forall p x k rest,
  ~ In x p -> starts_with p (k ++ x :: rest) = starts_with p k.
Proof.
  induction p as [|y p IH]; intros x k rest Hx; [reflexivity|].
  destruct k as [|z k]; cbn [app starts_with].
  - replace (y =? x) with false; [reflexivity|].
    symmetry. apply Z.eqb_neq. intros E. apply Hx. left. exact E.
  - rewrite IH; [reflexivity|]. intros Hin. apply Hx. right. exact Hin.
Qed.

Lemma signature_no_comma : forall c, ~ In 44 (signature c).
Proof. intros c H. destruct c; cbn in H; repeat (destruct H as [H | H]; [discriminate|]); exact H. Qed.

Lemma csv_first_field : forall c k rest,
  starts_with (signature c) (k ++ 44 :: rest) = starts_with (signature c) k.
Proof. intros c k rest. apply starts_with_absent_byte. apply signature_no_comma. Qed.

Lemma csv_text_signature : forall c r rs,
  starts_with (signature c) (csv_text (r :: rs)) = starts_with (signature c) (fst r).
Proof.
  intros c [k v] rs. unfold csv_text. cbn [flat_map]. unfold csv_line. cbn [fst snd].
  rewrite <- app_assoc. cbn [app]. apply csv_first_field.
Qed.

Lemma csv_text_nil_no_signature : forall c, starts_with (signature c) (csv_text []) = false.
Proof. intros c. destruct c; reflexivity. Qed.

Section TextTransparency.
  Variable enc : codec -> bytes -> bytes.
  Variable dec : codec -> bytes -> option bytes.
  Hypothesis dec_enc : forall c b, dec c (enc c b) = Some b.
  Hypothesis enc_sig : forall c b, starts_with (signature c) (enc c b) = true.

  (* JSONL of any size under ANY name comes back through every detecting entry point pair *)
  Lemma jsonl_text_transparent : forall w r path rs,
    writer_detects w = true -> reader_detects r = true ->
    read dec r path (write enc w path (jsonl_text rs)) = Some (jsonl_text rs).
  Proof.
    intros w r path rs Hw Hr. apply (transparent enc dec dec_enc enc_sig); [exact Hw | exact Hr|].
    intros _ c. apply jsonl_text_no_signature.
  Qed.

  (* CSV: the same, provided the first field of the first record does not itself begin with a
     format signature *)
  Lemma csv_text_transparent : forall w r path rs,
    writer_detects w = true -> reader_detects r = true ->
    (forall c, starts_with (signature c) (match rs with [] => [] | r0 :: _ => fst r0 end) = false) ->
    read dec r path (write enc w path (csv_text rs)) = Some (csv_text rs).
  Proof.
    intros w r path rs Hw Hr Hk. apply (transparent enc dec dec_enc enc_sig); [exact Hw | exact Hr|].
    intros _ c. destruct rs as [|r0 rs]; [apply csv_text_nil_no_signature|].
    rewrite csv_text_signature. apply Hk.
  Qed.
End TextTransparency.

(* ---------- what the line-based readers see (BufRead::lines, model IO/Jsonl.v) ---------- *)

Lemma lines_one : forall l rest,
  (forall x, In x l -> x <> 10 /\ x <> 13) -> lines (l ++ 10 :: rest) = l :: lines rest.
Proof.
  induction l as [|b l IH]; intros rest H; cbn [app lines].
  - rewrite Z.eqb_refl. reflexivity.
  - destruct (H b (or_introl eq_refl)) as [H10 H13].
    replace (b =? 10) with false by (symmetry; apply Z.eqb_neq; exact H10).
    replace (b =? 13) with false by (symmetry; apply Z.eqb_neq; exact H13).
    cbn [andb]. rewrite IH; [reflexivity|]. intros x Hx. apply H. right. exact Hx.
Qed.

Lemma dec_digits_fuel_range : forall fuel n acc x,
  (forall y, In y acc -> 48 <= y <= 57) -> In x (dec_digits_fuel fuel n acc) -> 48 <= x <= 57.
Proof.
  induction fuel as [|f IH]; intros n acc x Hacc Hx; cbn [dec_digits_fuel] in Hx; [exact (Hacc x Hx)|].
  assert (Hacc' : forall y, In y ((48 + Z.of_N (n mod 10)) :: acc) -> 48 <= y <= 57).
  { intros y [<- | Hy]; [|exact (Hacc y Hy)].
    pose proof (N.mod_lt n 10 ltac:(discriminate)) as Hm. apply N2Z.inj_lt in Hm.
    change (Z.of_N 10) with 10 in Hm. pose proof (N2Z.is_nonneg (n mod 10)) as Hp.
    generalize dependent (Z.of_N (n mod 10)). intros z Hz1 Hz2. lia. }
  destruct (n <? 10)%N; [exact (Hacc' x Hx) | exact (IH _ _ x Hacc' Hx)].
Qed.

Lemma dec_digits_range : forall n x, In x (dec_digits n) -> 48 <= x <= 57.
Proof. intros n x H. unfold dec_digits in H. eapply dec_digits_fuel_range; [|exact H]. intros y []. Qed.

Lemma jsonl_body_one_line : forall r,
  key_one_line (fst r) -> forall x, In x (jsonl_body r) -> x <> 10 /\ x <> 13.
Proof.
  intros [k v] Hk x Hx. unfold jsonl_body, jsonl_open, jsonl_mid in Hx. cbn [fst snd] in *.
  repeat (apply in_app_or in Hx; destruct Hx as [Hx | Hx]).
  - cbn in Hx. repeat (destruct Hx as [<- | Hx]; [split; discriminate|]). contradiction.
  - exact (Hk x Hx).
  - cbn in Hx. repeat (destruct Hx as [<- | Hx]; [split; discriminate|]). contradiction.
  - apply dec_digits_range in Hx. split; lia.
  - cbn in Hx. destruct Hx as [<- | []]. split; discriminate.
Qed.

Lemma jsonl_line_body : forall r, jsonl_line r = jsonl_body r ++ [10].
Proof.
  intros r. unfold jsonl_line, jsonl_body. rewrite <- !app_assoc. reflexivity.
Qed.

(* one line per record, in order, nothing lost and nothing added - for any number of records *)
Lemma lines_jsonl_text : forall rs,
  (forall r, In r rs -> key_one_line (fst r)) -> lines (jsonl_text rs) = map jsonl_body rs.
Proof.
  induction rs as [|r rs IH]; intros H; [reflexivity|].
  unfold jsonl_text in *. cbn [flat_map map]. rewrite jsonl_line_body, <- app_assoc. cbn [app].
  rewrite lines_one by (apply jsonl_body_one_line; apply H; left; reflexivity).
  rewrite IH; [reflexivity|]. intros r' Hr'. apply H. right. exact Hr'.
Qed.

Section LinesTransparency.
  Variable enc : codec -> bytes -> bytes.
  Variable dec : codec -> bytes -> option bytes.
  Hypothesis dec_enc : forall c b, dec c (enc c b) = Some b.
  Hypothesis enc_sig : forall c b, starts_with (signature c) (enc c b) = true.

  (* end to end for the line-based JSONL readers (local, streaming, cloud): exactly the records'
     lines come back, whatever their number, under any name *)
  Lemma jsonl_roundtrip_lines : forall w r path rs,
    writer_detects w = true -> reader_detects r = true ->
    (forall x, In x rs -> key_one_line (fst x)) ->
    option_map lines (read dec r path (write enc w path (jsonl_text rs))) = Some (map jsonl_body rs).
  Proof.
    intros w r path rs Hw Hr Hk. rewrite (jsonl_text_transparent enc dec dec_enc enc_sig) by assumption.
    cbn [option_map]. rewrite lines_jsonl_text by exact Hk. reflexivity.
  Qed.

End LinesTransparency.

(* ---------- the store: a second write to the same name replaces the first ---------- *)

Lemma bytes_eqb_refl : forall a, bytes_eqb a a = true.
Proof. induction a as [|x a IH]; [reflexivity|]. cbn [bytes_eqb]. rewrite Z.eqb_refl, IH. reflexivity. Qed.

Lemma bytes_eqb_eq : forall a b, bytes_eqb a b = true -> a = b.
Proof.
  induction a as [|x a IH]; intros [|y b] H; try discriminate; [reflexivity|].
  cbn [bytes_eqb] in H. apply andb_true_iff in H as [Hx H]. apply Z.eqb_eq in Hx.
  rewrite Hx, (IH b H). reflexivity.
Qed.

Lemma store_get_put_same : forall st name v, store_get (store_put st name v) name = Some v.
Proof.
  induction st as [|[k v'] st IH]; intros name v.
  - cbn [store_put store_get]. rewrite bytes_eqb_refl. reflexivity.
  - cbn [store_put]. destruct (bytes_eqb k name) eqn:E; cbn [store_get]; rewrite E; [reflexivity|].
    apply IH.
Qed.

Lemma store_get_put_other : forall st name v other,
  other <> name -> store_get (store_put st name v) other = store_get st other.
Proof.
  induction st as [|[k v'] st IH]; intros name v other Hne.
  - cbn [store_put store_get]. destruct (bytes_eqb name other) eqn:E; [|reflexivity].
    apply bytes_eqb_eq in E. congruence.
  - cbn [store_put]. destruct (bytes_eqb k name) eqn:E; cbn [store_get].
    + apply bytes_eqb_eq in E. subst k. destruct (bytes_eqb name other) eqn:E2; [|reflexivity].
      apply bytes_eqb_eq in E2. congruence.
    + destruct (bytes_eqb k other); [reflexivity|]. apply IH. exact Hne.
Qed.

Lemma store_put_put : forall st name a b,
  store_get (store_put (store_put st name a) name b) name = store_get (store_put st name b) name.
Proof. intros st name a b. rewrite !store_get_put_same. reflexivity. Qed.

Section StoreTransparency.
  Variable enc : cid -> bytes -> bytes.
  Variable dec : cid -> bytes -> option bytes.
  Hypothesis dec_enc : forall c b, dec (CBuiltin c) (enc (CBuiltin c) b) = Some b.
  Hypothesis enc_sig : forall c b, starts_with (signature c) (enc (CBuiltin c) b) = true.

  (* a name holds what the LAST write put there - whatever was there before, of whatever length *)
  Lemma write_to_last_wins : forall reg st w name a b,
    store_get (store_write enc reg (store_write enc reg st w name a) w name b) name
    = store_get (store_write enc reg [] w name b) name.
  Proof. intros reg st w name a b. unfold store_write. rewrite !store_get_put_same. reflexivity. Qed.

  Lemma write_to_other_untouched : forall reg st w name b other,
    other <> name -> store_get (store_write enc reg st w name b) other = store_get st other.
  Proof. intros reg st w name b other H. unfold store_write. apply store_get_put_other. exact H. Qed.

  (* codec-named: after writing a then b, the name holds enc c b and every reader returns b *)
  Lemma rewrite_ext_roundtrip : forall ops st c w r name a b,
    writer_detects w = true -> reader_detects r = true -> has_ext c name = true ->
    let reg := reg_view (reg_run ops) in
    let st' := store_write enc reg (store_write enc reg st w name a) w name b in
    store_get st' name = Some (enc (CBuiltin c) b) /\ store_read dec reg st' r name = Some b.
  Proof.
    intros ops st c w r name a b Hw Hr He. cbv zeta.
    destruct (register_ext_roundtrip enc dec dec_enc enc_sig ops c w r name b Hw Hr He)
      as [Hst [_ Hrd]]. cbv zeta in Hst, Hrd.
    unfold store_read, store_write. rewrite !store_get_put_same. rewrite Hrd, Hst. split; reflexivity.
  Qed.

  (* neutral name: after writing a then b the name holds b verbatim and b is read verbatim *)
  Lemma rewrite_neutral_verbatim : forall ops st w r name a b,
    detect_ext name = None -> no_custom_ext (registered ops) name ->
    (forall c, starts_with (signature c) b = false) -> no_custom_magic (registered ops) b ->
    let reg := reg_view (reg_run ops) in
    let st' := store_write enc reg (store_write enc reg st w name a) w name b in
    store_get st' name = Some b /\ store_read dec reg st' r name = Some b.
  Proof.
    intros ops st w r name a b He Hc Hs Hm. cbv zeta.
    destruct (register_neutral_verbatim enc dec ops w r name b He Hc Hs Hm) as [Hst Hrd].
    cbv zeta in Hst, Hrd.
    unfold store_read, store_write. rewrite !store_get_put_same. rewrite Hst, Hrd. split; reflexivity.
  Qed.
End StoreTransparency.
