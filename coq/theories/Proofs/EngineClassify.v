(* C01 on the step language: every program accepted by the syntactic classifier
   (Engine/Classify.v) compiles to a plan of the classified fragment (Engine/Static.v), hence
   runs to the same result in both engines. Lemmas for the last two theorems of Props/C01.v.

   Parts: (A) the functional combiners of the step language are lawful; (B) compilation of
   join-free steps, node by node; (C) the join shape; (D) the two theorems. *)
From Coq Require Import List ZArith Bool Arith Lia Permutation Sorted.
From IB Require Import Engine.Val Engine.Ops Engine.AMap Engine.Nodes Engine.Exec Engine.Planner
     Engine.Lang Engine.Denote Engine.Static Engine.Classify Combiners.Lawful
     Proofs.EngineBase Proofs.EngineElementwise Proofs.EngineEquiv.
Import ListNotations.
Local Close Scope Z_scope.
Local Open Scope nat_scope.

(* ================= (A) lawful combiners ================= *)

(* a combiner whose add_input commutes, whose merge agrees with adding the other side's values
   and whose build agrees with folding: the accumulator is a function of the multiset *)
Section CommAdd.
  Variable A : Type.
  Variable c : combiner val A val.

  Definition accf (m : list val) : A := fold_right (fun v a => c_add c a v) (c_create c) m.

  Lemma accf_nil : accf [] = c_create c.
  Proof. reflexivity. Qed.
  Lemma accf_cons : forall v m, accf (v :: m) = c_add c (accf m) v.
  Proof. reflexivity. Qed.

  Hypothesis add_comm : forall a x y, c_add c (c_add c a x) y = c_add c (c_add c a y) x.

  Lemma accf_perm : forall m m', Permutation m m' -> accf m = accf m'.
  Proof.
    intros m m' H. induction H as [|x l l' H IH|x y l|l1 l2 l3 H1 IH1 H2 IH2];
      unfold accf in *; cbn [fold_right].
    - reflexivity.
    - rewrite IH. reflexivity.
    - apply add_comm.
    - congruence.
  Qed.

  Lemma fold_acc_accf : forall vs, fold_left (c_add c) vs (c_create c) = accf vs.
  Proof.
    intros vs. rewrite <- (accf_perm (rev vs) vs) by (apply Permutation_sym, Permutation_rev).
    unfold accf. rewrite fold_left_rev_right. reflexivity.
  Qed.

  Hypothesis merge_app : forall m m', c_merge c (accf m) (accf m') = accf (m ++ m').
  Hypothesis build_acc : forall vs, c_build c vs = accf vs.

  Lemma comm_add_lawful : lawful_vcomb {| vc_A := A; vc_c := c |}.
  Proof.
    exists (fun a m => a = accf m), (fun m o => o = c_finish c (accf m)).
    cbn [vc_A vc_c]. split; [|split].
    - constructor.
      + reflexivity.
      + intros a m v ->. reflexivity.
      + intros a b m m' -> ->. apply merge_app.
      + apply build_acc.
      + intros a m m' -> Hp. apply accf_perm. exact Hp.
      + intros a m ->. reflexivity.
    - intros m o o' -> ->. reflexivity.
    - intros m m' o Hp ->. rewrite (accf_perm m m' Hp). reflexivity.
  Qed.
End CommAdd.

(* ---- Sum, Count, SumMod, Gcd ---- *)
Lemma sum_accf_app : forall m m',
    (accf Z comb_sum m + accf Z comb_sum m')%Z = accf Z comb_sum (m ++ m').
Proof.
  intros m m'. induction m as [|v m IH]; cbn [app].
  - rewrite accf_nil. cbn [comb_sum c_create]. lia.
  - rewrite !accf_cons, <- IH. cbn [comb_sum c_add]. lia.
Qed.

Lemma sum_lawful : lawful_vcomb (comb_of CSum).
Proof.
  assert (Hcomm : forall a x y : Z, (a + x + y = a + y + x)%Z) by (intros; lia).
  apply comm_add_lawful; cbn [comb_of vc_A vc_c comb_sum c_add c_merge c_build c_create].
  - intros a x y. apply Hcomm.
  - apply sum_accf_app.
  - intros vs. apply (fold_acc_accf Z comb_sum). intros a x y. apply Hcomm.
Qed.

Lemma count_lawful' : lawful_vcomb (comb_of CCount).
Proof. exact count_lawful. Qed.

Lemma summod_lawful : forall md, lawful_vcomb (comb_of (CSumMod md)).
Proof.
  intros md.
  assert (Hcomm : forall a x y : Z, (((a + x) mod md + y) mod md = ((a + y) mod md + x) mod md)%Z).
  { intros a x y. rewrite !Zplus_mod_idemp_l. f_equal. lia. }
  assert (Hmod : forall m, (accf Z (comb_summod md) m mod md = accf Z (comb_summod md) m)%Z).
  { intros [|v m]; [rewrite accf_nil|rewrite accf_cons]; cbn [comb_summod c_add c_create];
      [apply Zmod_0_l|apply Zmod_mod]. }
  apply comm_add_lawful; cbn [comb_of vc_A vc_c comb_summod c_add c_merge c_build c_create].
  - intros a x y. apply Hcomm.
  - intros m m'. induction m as [|v m IH].
    + cbn [app]. rewrite accf_nil. cbn [comb_summod c_create]. rewrite Z.add_0_l. apply Hmod.
    + cbn [app]. rewrite !accf_cons, <- IH. cbn [comb_summod c_add].
      rewrite !Zplus_mod_idemp_l. f_equal. lia.
  - intros vs. apply (fold_acc_accf Z (comb_summod md)). intros a x y. apply Hcomm.
Qed.

Lemma gcd_lawful : lawful_vcomb (comb_of CGcd).
Proof.
  assert (Hcomm : forall a x y : Z, Z.gcd (Z.gcd a x) y = Z.gcd (Z.gcd a y) x).
  { intros a x y. rewrite <- !Z.gcd_assoc. f_equal. apply Z.gcd_comm. }
  assert (Hnn : forall m, (0 <= accf Z comb_gcd m)%Z).
  { intros [|v m]; [rewrite accf_nil|rewrite accf_cons]; cbn [comb_gcd c_add c_create];
      [lia|apply Z.gcd_nonneg]. }
  apply comm_add_lawful; cbn [comb_of vc_A vc_c comb_gcd c_add c_merge c_build c_create].
  - intros a x y. apply Hcomm.
  - intros m m'. induction m as [|v m IH].
    + cbn [app]. rewrite accf_nil. cbn [comb_gcd c_create]. apply Z.gcd_0_l_nonneg. apply Hnn.
    + cbn [app]. rewrite !accf_cons, <- IH. cbn [comb_gcd c_add]. apply Hcomm.
  - intros vs. apply (fold_acc_accf Z comb_gcd). intros a x y. apply Hcomm.
Qed.

(* ---- val_cmp (the derived Ord of the harness's Val) is a total order ---- *)
Fixpoint lcmp (l1 l2 : list val) : comparison :=
  match l1, l2 with
  | [], [] => Eq
  | [], _ :: _ => Lt
  | _ :: _, [] => Gt
  | x :: r1, y :: r2 => match val_cmp x y with Eq => lcmp r1 r2 | c => c end
  end.

Lemma val_cmp_list : forall l1 l2, val_cmp (VList l1) (VList l2) = lcmp l1 l2.
Proof.
  induction l1 as [|x r1 IH]; intros [|y r2]; reflexivity.
Qed.

Lemma val_cmp_eq : forall a b, val_cmp a b = Eq <-> a = b.
Proof.
  induction a as [z|a1 a2 IH1 IH2|l IHl| |x IHx] using val_ind'; intros b;
    destruct b as [z'|b1 b2|l'| |y];
    try (split; [intros H; simpl in H; discriminate H|intros H; discriminate H]).
  - cbn [val_cmp]. rewrite Z.compare_eq_iff. split; congruence.
  - cbn [val_cmp]. destruct (val_cmp a1 b1) eqn:E1.
    + apply IH1 in E1. subst b1. rewrite IH2. split; congruence.
    + split; [discriminate|]. intros H. inversion H; subst.
      rewrite (proj2 (IH1 _) eq_refl) in E1. discriminate.
    + split; [discriminate|]. intros H. inversion H; subst.
      rewrite (proj2 (IH1 _) eq_refl) in E1. discriminate.
  - rewrite val_cmp_list.
    assert (H : lcmp l l' = Eq <-> l = l').
    { revert l'. induction IHl as [|x l Hx Hl IH]; intros [|y l']; cbn [lcmp];
        try (split; discriminate); [split; reflexivity|].
      destruct (val_cmp x y) eqn:E.
      - apply Hx in E. subst y. rewrite IH. split; congruence.
      - split; [discriminate|]. intros H. inversion H; subst.
        rewrite (proj2 (Hx _) eq_refl) in E. discriminate.
      - split; [discriminate|]. intros H. inversion H; subst.
        rewrite (proj2 (Hx _) eq_refl) in E. discriminate. }
    rewrite H. split; congruence.
  - split; reflexivity.
  - cbn [val_cmp]. rewrite IHx. split; congruence.
Qed.

Lemma val_cmp_refl : forall a, val_cmp a a = Eq.
Proof. intros a. apply val_cmp_eq. reflexivity. Qed.

Lemma val_cmp_antisym : forall a b, val_cmp b a = CompOpp (val_cmp a b).
Proof.
  induction a as [z|a1 a2 IH1 IH2|l IHl| |x IHx] using val_ind'; intros b;
    destruct b as [z'|b1 b2|l'| |y]; try reflexivity.
  - cbn [val_cmp]. apply Z.compare_antisym.
  - cbn [val_cmp]. rewrite IH1, IH2. destruct (val_cmp a1 b1); reflexivity.
  - rewrite !val_cmp_list. revert l'.
    induction IHl as [|x l Hx Hl IH]; intros [|y l']; cbn [lcmp]; try reflexivity.
    rewrite Hx, IH. destruct (val_cmp x y); reflexivity.
  - cbn [val_cmp]. apply IHx.
Qed.

Lemma val_cmp_trans : forall a b c,
    val_cmp a b = Lt -> val_cmp b c = Lt -> val_cmp a c = Lt.
Proof.
  induction a as [z|a1 a2 IH1 IH2|l IHl| |x IHx] using val_ind'; intros b c H1 H2;
    destruct b as [z1|b1 b2|l1| |y1]; try (simpl in H1; discriminate H1);
    destruct c as [z2|c1 c2|l2| |y2]; try (simpl in H2; discriminate H2); try reflexivity.
  - cbn [val_cmp] in *. rewrite Z.compare_lt_iff in *. lia.
  - cbn [val_cmp] in *.
    destruct (val_cmp a1 b1) eqn:E1; try discriminate H1;
      destruct (val_cmp b1 c1) eqn:E2; try discriminate H2.
    + apply val_cmp_eq in E1. apply val_cmp_eq in E2. subst. rewrite val_cmp_refl.
      eapply IH2; eassumption.
    + apply val_cmp_eq in E1. subst. rewrite E2. reflexivity.
    + apply val_cmp_eq in E2. subst. rewrite E1. reflexivity.
    + rewrite (IH1 _ _ E1 E2). reflexivity.
  - rewrite val_cmp_list in *. revert l1 l2 H1 H2.
    induction IHl as [|x l Hx Hl IH]; intros [|y l1] [|w l2] H1 H2; cbn [lcmp] in *;
      try discriminate; try reflexivity.
    destruct (val_cmp x y) eqn:E1; try discriminate H1;
      destruct (val_cmp y w) eqn:E2; try discriminate H2.
    + apply val_cmp_eq in E1. apply val_cmp_eq in E2. subst. rewrite val_cmp_refl.
      eapply IH; eassumption.
    + apply val_cmp_eq in E1. subst. rewrite E2. reflexivity.
    + apply val_cmp_eq in E2. subst. rewrite E1. reflexivity.
    + rewrite (Hx _ _ E1 E2). reflexivity.
  - cbn [val_cmp] in *. eapply IHx; eassumption.
Qed.

(* ---- Min / Max ---- *)
Section MinMax.
  Variable better : val -> val -> bool.
  Hypothesis b_asym : forall x y, better x y = true -> better y x = false.
  Hypothesis b_trans : forall x y z, better x y = true -> better y z = true -> better x z = true.
  Hypothesis b_total : forall x y, better x y = false -> better y x = false -> x = y.

  Lemma pick2 : forall x y,
      (if better y x then Some y else Some x) = (if better x y then Some x else Some y).
  Proof.
    intros x y. destruct (better y x) eqn:E1, (better x y) eqn:E2; try reflexivity.
    - rewrite (b_asym _ _ E1) in E2. discriminate.
    - f_equal. apply b_total; assumption.
  Qed.

  Lemma pick_comm : forall a x y,
      opt_pick better (opt_pick better a x) y = opt_pick better (opt_pick better a y) x.
  Proof.
    intros [w|] x y; cbn [opt_pick]; [|apply pick2].
    destruct (better x w) eqn:Exw, (better y w) eqn:Eyw; cbn [opt_pick]; rewrite ?Exw, ?Eyw.
    - apply pick2.
    - destruct (better y x) eqn:Eyx; [|reflexivity].
      rewrite (b_trans _ _ _ Eyx Exw) in Eyw. discriminate.
    - destruct (better x y) eqn:Exy; [|reflexivity].
      rewrite (b_trans _ _ _ Exy Eyw) in Exw. discriminate.
    - reflexivity.
  Qed.

  Lemma minmax_lawful : lawful_vcomb {| vc_A := option val; vc_c := comb_minmax better |}.
  Proof.
    apply comm_add_lawful; cbn [comb_minmax c_add c_merge c_build c_create].
    - apply pick_comm.
    - intros m m'. induction m as [|v m IH]; cbn [app].
      + rewrite accf_nil. cbn [comb_minmax c_create].
        destruct (accf (option val) (comb_minmax better) m'); reflexivity.
      + rewrite !accf_cons, <- IH. cbn [comb_minmax c_add c_merge].
        destruct (accf (option val) (comb_minmax better) m'); cbn [opt_merge];
          [apply pick_comm|reflexivity].
    - intros vs. apply (fold_acc_accf (option val) (comb_minmax better)). apply pick_comm.
  Qed.
End MinMax.

Lemma lt_b_iff : forall x y, lt_b x y = true <-> val_cmp x y = Lt.
Proof. intros x y. unfold lt_b. destruct (val_cmp x y); split; congruence. Qed.
Lemma gt_b_iff : forall x y, gt_b x y = true <-> val_cmp y x = Lt.
Proof.
  intros x y. unfold gt_b. rewrite (val_cmp_antisym x y).
  destruct (val_cmp x y); cbn [CompOpp]; split; congruence.
Qed.

Lemma cmp_total : forall x y, val_cmp x y <> Lt -> val_cmp y x <> Lt -> x = y.
Proof.
  intros x y H1 H2. apply val_cmp_eq. rewrite (val_cmp_antisym x y) in H2.
  destruct (val_cmp x y); cbn [CompOpp] in H2; congruence.
Qed.

Lemma min_lawful : lawful_vcomb (comb_of CMin).
Proof.
  apply minmax_lawful.
  - intros x y H. apply lt_b_iff in H. apply not_true_is_false. rewrite lt_b_iff.
    rewrite (val_cmp_antisym x y), H. discriminate.
  - intros x y z H1 H2. rewrite lt_b_iff in *. eapply val_cmp_trans; eassumption.
  - intros x y H1 H2. apply cmp_total; rewrite <- lt_b_iff; congruence.
Qed.

Lemma max_lawful : lawful_vcomb (comb_of CMax).
Proof.
  apply minmax_lawful.
  - intros x y H. apply gt_b_iff in H. apply not_true_is_false. rewrite gt_b_iff.
    rewrite (val_cmp_antisym y x), H. discriminate.
  - intros x y z H1 H2. rewrite gt_b_iff in *. eapply val_cmp_trans; eassumption.
  - intros x y H1 H2. symmetry. apply cmp_total; rewrite <- gt_b_iff; congruence.
Qed.

(* ---- TopK: the k largest values in descending order ---- *)
Definition vle (a b : val) : Prop := val_leb a b = true.
Definition vge (a b : val) : Prop := val_leb b a = true.

Lemma val_leb_iff : forall a b, val_leb a b = true <-> val_cmp a b <> Gt.
Proof. intros a b. unfold val_leb. destruct (val_cmp a b); split; congruence. Qed.

Lemma vle_total : forall a b, val_leb a b = false -> val_leb b a = true.
Proof.
  intros a b H. unfold val_leb in *. rewrite (val_cmp_antisym a b).
  destruct (val_cmp a b); cbn [CompOpp]; congruence.
Qed.

Lemma vle_trans : forall a b c, vle a b -> vle b c -> vle a c.
Proof.
  unfold vle. intros a b c H1 H2. rewrite val_leb_iff in *.
  destruct (val_cmp a b) eqn:E1; try congruence.
  - apply val_cmp_eq in E1. subst. exact H2.
  - destruct (val_cmp b c) eqn:E2; try congruence.
    + apply val_cmp_eq in E2. subst. rewrite E1. discriminate.
    + rewrite (val_cmp_trans _ _ _ E1 E2). discriminate.
Qed.

Lemma vle_antisym : forall a b, vle a b -> vle b a -> a = b.
Proof.
  unfold vle. intros a b H1 H2. rewrite val_leb_iff in *. apply val_cmp_eq.
  rewrite (val_cmp_antisym a b) in H2. destruct (val_cmp a b); cbn [CompOpp] in H2; congruence.
Qed.

Lemma sorted_unique : forall (R : val -> val -> Prop),
    (forall a b, R a b -> R b a -> a = b) ->
    forall l l', StronglySorted R l -> StronglySorted R l' -> Permutation l l' -> l = l'.
Proof.
  intros R Hanti. induction l as [|x l IH]; intros l' Hs Hs' Hp.
  - apply Permutation_nil in Hp. subst. reflexivity.
  - destruct l' as [|y l']; [apply Permutation_sym, Permutation_nil in Hp; discriminate|].
    inversion Hs as [|? ? Hsl Hxl]; subst. inversion Hs' as [|? ? Hsl' Hyl']; subst.
    assert (Hxy : x = y).
    { assert (Hx : In x (y :: l')) by (eapply Permutation_in; [exact Hp|left; reflexivity]).
      assert (Hy : In y (x :: l))
        by (eapply Permutation_in; [apply Permutation_sym; exact Hp|left; reflexivity]).
      destruct Hx as [Hx|Hx]; [congruence|]. destruct Hy as [Hy|Hy]; [congruence|].
      rewrite Forall_forall in Hxl, Hyl'. apply Hanti; [apply Hxl|apply Hyl']; assumption. }
    subst y. f_equal. apply IH; [assumption|assumption|].
    eapply Permutation_cons_inv. exact Hp.
Qed.

Lemma vinsert_perm : forall x l, Permutation (vinsert x l) (x :: l).
Proof.
  intros x l. induction l as [|y r IH]; cbn [vinsert]; [apply Permutation_refl|].
  destruct (val_leb x y); [apply Permutation_refl|].
  eapply Permutation_trans; [apply perm_skip; exact IH|apply perm_swap].
Qed.

Lemma vinsert_sorted : forall x l, StronglySorted vle l -> StronglySorted vle (vinsert x l).
Proof.
  intros x l H. induction H as [|y r Hr IH Hy]; cbn [vinsert].
  - constructor; constructor.
  - destruct (val_leb x y) eqn:E.
    + constructor; [constructor; assumption|]. constructor; [exact E|].
      eapply Forall_impl; [|exact Hy]. intros a Ha. eapply vle_trans; [exact E|exact Ha].
    + constructor; [exact IH|].
      eapply (Permutation_Forall (Permutation_sym (vinsert_perm x r))).
      constructor; [apply vle_total; exact E|exact Hy].
Qed.

Lemma vsort_perm : forall l, Permutation (vsort l) l.
Proof.
  induction l as [|x l IH]; cbn [vsort fold_right]; [constructor|].
  eapply Permutation_trans; [apply vinsert_perm|]. apply perm_skip. exact IH.
Qed.

Lemma vsort_sorted : forall l, StronglySorted vle (vsort l).
Proof.
  induction l as [|x l IH]; cbn [vsort fold_right]; [constructor|].
  apply vinsert_sorted. exact IH.
Qed.

Lemma sorted_snoc : forall (R : val -> val -> Prop) l x,
    StronglySorted R l -> Forall (fun a => R a x) l -> StronglySorted R (l ++ [x]).
Proof.
  intros R l x Hs Hf. induction Hs as [|y r Hr IH Hy]; cbn [app].
  - constructor; constructor.
  - inversion Hf as [|? ? Hyx Hrx]; subst. constructor; [apply IH; exact Hrx|].
    apply Forall_app. split; [exact Hy|]. constructor; [exact Hyx|constructor].
Qed.

Lemma sorted_rev : forall l, StronglySorted vle l -> StronglySorted vge (rev l).
Proof.
  intros l H. induction H as [|y r Hr IH Hy]; cbn [rev]; [constructor|].
  apply sorted_snoc; [exact IH|]. apply Forall_rev. exact Hy.
Qed.

Definition desc (l : list val) : list val := rev (vsort l).

Lemma desc_perm : forall l, Permutation (desc l) l.
Proof.
  intros l. unfold desc. eapply Permutation_trans; [apply Permutation_sym, Permutation_rev|].
  apply vsort_perm.
Qed.
Lemma desc_sorted : forall l, StronglySorted vge (desc l).
Proof. intros l. apply sorted_rev. apply vsort_sorted. Qed.

Lemma vge_antisym : forall a b, vge a b -> vge b a -> a = b.
Proof. intros a b H1 H2. apply vle_antisym; assumption. Qed.

Lemma desc_unique : forall l d, StronglySorted vge d -> Permutation d l -> desc l = d.
Proof.
  intros l d Hs Hp. apply (sorted_unique vge vge_antisym); [apply desc_sorted|exact Hs|].
  eapply Permutation_trans; [apply desc_perm|apply Permutation_sym; exact Hp].
Qed.

Fixpoint dinsert (x : val) (l : list val) : list val :=
  match l with
  | [] => [x]
  | y :: r => if val_leb y x then x :: l else y :: dinsert x r
  end.

Lemma dinsert_perm : forall x l, Permutation (dinsert x l) (x :: l).
Proof.
  intros x l. induction l as [|y r IH]; cbn [dinsert]; [apply Permutation_refl|].
  destruct (val_leb y x); [apply Permutation_refl|].
  eapply Permutation_trans; [apply perm_skip; exact IH|apply perm_swap].
Qed.

Lemma dinsert_sorted : forall x l, StronglySorted vge l -> StronglySorted vge (dinsert x l).
Proof.
  intros x l H. induction H as [|y r Hr IH Hy]; cbn [dinsert].
  - constructor; constructor.
  - destruct (val_leb y x) eqn:E.
    + constructor; [constructor; assumption|]. constructor; [exact E|].
      eapply Forall_impl; [|exact Hy]. intros a Ha. unfold vge in *.
      eapply vle_trans; [exact Ha|exact E].
    + constructor; [exact IH|].
      eapply (Permutation_Forall (Permutation_sym (dinsert_perm x r))).
      constructor; [apply vle_total; exact E|exact Hy].
Qed.

Lemma desc_cons : forall x l, desc (x :: l) = dinsert x (desc l).
Proof.
  intros x l. apply desc_unique; [apply dinsert_sorted, desc_sorted|].
  eapply Permutation_trans; [apply dinsert_perm|]. apply perm_skip. apply desc_perm.
Qed.

Lemma desc_of_sorted : forall d, StronglySorted vge d -> desc d = d.
Proof. intros d H. apply desc_unique; [exact H|apply Permutation_refl]. Qed.

Lemma desc_perm_inv : forall l l', Permutation l l' -> desc l = desc l'.
Proof.
  intros l l' H. apply desc_unique; [apply desc_sorted|].
  eapply Permutation_trans; [apply desc_perm|apply Permutation_sym; exact H].
Qed.

Lemma Forall_firstn_ib : forall (P : val -> Prop) k l, Forall P l -> Forall P (firstn k l).
Proof.
  intros P k l H. revert k. induction H as [|x l Hx Hl IH]; intros [|k]; cbn [firstn];
    constructor; auto.
Qed.

Lemma sorted_firstn : forall (R : val -> val -> Prop) k l,
    StronglySorted R l -> StronglySorted R (firstn k l).
Proof.
  intros R k l H. revert k. induction H as [|x l Hl IH Hx]; intros [|k]; cbn [firstn];
    try constructor; [apply IH|apply Forall_firstn_ib; exact Hx].
Qed.

Lemma firstn_dinsert : forall x D k,
    firstn k (dinsert x (firstn k D)) = firstn k (dinsert x D).
Proof.
  intros x D. induction D as [|y r IH]; intros [|k]; try reflexivity.
  cbn [firstn dinsert]. destruct (val_leb y x).
  - cbn [firstn]. f_equal.
    change (y :: firstn k r) with (firstn (S k) (y :: r)).
    rewrite firstn_firstn. f_equal. lia.
  - cbn [firstn]. f_equal. apply IH.
Qed.

Lemma topk_desc : forall k l, topk_norm k l = firstn k (desc l).
Proof. reflexivity. Qed.

Lemma topk_add : forall k v l, topk_norm k (v :: topk_norm k l) = topk_norm k (v :: l).
Proof.
  intros k v l. rewrite !topk_desc, !desc_cons.
  rewrite (desc_of_sorted (firstn k (desc l))) by (apply sorted_firstn, desc_sorted).
  apply firstn_dinsert.
Qed.

Lemma topk_perm : forall k l l', Permutation l l' -> topk_norm k l = topk_norm k l'.
Proof. intros k l l' H. rewrite !topk_desc, (desc_perm_inv l l' H). reflexivity. Qed.

Lemma topk_app_r : forall k a m, topk_norm k (a ++ topk_norm k m) = topk_norm k (a ++ m).
Proof.
  intros k a m. induction a as [|x a IH]; cbn [app].
  - rewrite !topk_desc.
    rewrite (desc_of_sorted (firstn k (desc m))) by (apply sorted_firstn, desc_sorted).
    rewrite firstn_firstn. f_equal. lia.
  - rewrite <- (topk_add k x (a ++ topk_norm k m)), IH. apply topk_add.
Qed.

Lemma topk_merge : forall k m m',
    topk_norm k (topk_norm k m ++ topk_norm k m') = topk_norm k (m ++ m').
Proof.
  intros k m m'. rewrite topk_app_r.
  rewrite (topk_perm k (topk_norm k m ++ m') (m' ++ topk_norm k m)) by apply Permutation_app_comm.
  rewrite topk_app_r. apply topk_perm. apply Permutation_app_comm.
Qed.

Lemma topk_lawful : forall k, lawful_vcomb (comb_of (CTopK k)).
Proof.
  intros k.
  assert (Hacc : forall m, accf (list val) (comb_topk k) m = topk_norm k m).
  { induction m as [|v m IH].
    - rewrite accf_nil. unfold topk_norm. cbn [vsort fold_right rev comb_topk c_create].
      symmetry. apply firstn_nil.
    - rewrite accf_cons, IH.   cbn [comb_topk c_add]. apply topk_add. }
  assert (Hcomm : forall a x y,
             topk_norm k (y :: topk_norm k (x :: a)) = topk_norm k (x :: topk_norm k (y :: a))).
  { intros a x y. rewrite !topk_add. apply topk_perm. apply perm_swap. }
  apply comm_add_lawful; cbn [comb_of vc_A vc_c comb_topk c_add c_merge c_build c_create].
  - intros a x y. apply Hcomm.
  - intros m m'. rewrite !Hacc. apply topk_merge.
  - intros vs. symmetry. apply Hacc.
Qed.

Lemma cid_lawful : forall cb, cid_functional cb = true -> lawful_vcomb (comb_of cb).
Proof.
  intros cb H. destruct cb as [| | | |k| |md|]; try discriminate H.
  - apply sum_lawful.
  - apply count_lawful.
  - apply min_lawful.
  - apply max_lawful.
  - apply topk_lawful.
  - apply summod_lawful.
  - apply gcd_lawful.
Qed.

(* ================= (B) compilation of join-free steps ================= *)

Definition nojoin (st : step) : Prop := match st with SJoin _ _ _ => False | _ => True end.

(* what the builder does for one step *)
Definition cstep (s : cstate) (st : step) : cstate := compile_steps 1 [st] s.

Fixpoint cjf (steps : list step) (s : cstate) : cstate :=
  match steps with
  | [] => s
  | st :: r => cjf r (cstep s st)
  end.

Lemma compile_steps_cons : forall fuel st rest s,
    nojoin st -> compile_steps (S fuel) (st :: rest) s = compile_steps fuel rest (cstep s st).
Proof. intros fuel st rest s H. destruct st; try contradiction; reflexivity. Qed.

Lemma compile_steps_cjf : forall steps fuel s,
    length steps <= fuel -> Forall nojoin steps -> compile_steps fuel steps s = cjf steps s.
Proof.
  induction steps as [|st r IH]; intros fuel s Hlen Hnj.
  - apply compile_steps_nil.
  - inversion Hnj as [|? ? Hst Hr]; subst.
    destruct fuel as [|fuel]; [cbn [length] in Hlen; lia|]. cbn [length] in Hlen.
    rewrite compile_steps_cons by exact Hst. cbn [cjf]. apply IH; [lia|exact Hr].
Qed.

Lemma compile_steps_app : forall pre fuel rest s,
    Forall nojoin pre ->
    compile_steps (length pre + fuel) (pre ++ rest) s = compile_steps fuel rest (cjf pre s).
Proof.
  induction pre as [|st r IH]; intros fuel rest s Hnj; [reflexivity|].
  inversion Hnj as [|? ? Hst Hr]; subst.
  cbn [length app Nat.add]. rewrite compile_steps_cons by exact Hst. cbn [cjf]. apply IH. exact Hr.
Qed.

(* every GroupByKey / CombineValues node the builders emit is built for (Val, Val) rows *)
Definition tkv_node (b : bnode) : Prop :=
  match b with
  | BGroupByKey a _ => a = TKV
  | BCombineValues _ tp _ _ _ => tp = TKV
  | _ => True
  end.
Definition tkv_n (n : node) : Prop := match n with NB b => tkv_node b | _ => True end.

(* the reference (list) meaning of a node and of a chain of nodes, and of join-free steps *)
Definition dnode (b : bnode) (rows : list val) : list val :=
  match b with
  | BStateless ops => sem_ops ops rows
  | BGroupByKey _ _ => d_group_by_key rows
  | BCombineValues cb _ _ _ false => d_combine_values cb rows
  | BCombineValues cb _ _ _ true => d_combine_values_grouped cb rows
  | BCombineGlobal cb _ _ _ _ => d_combine_globally cb rows
  | BSource _ | BMaterialized _ _ => rows
  end.
Definition dchain (bs : list bnode) (rows : list val) : list val :=
  fold_left (fun r b => dnode b r) bs rows.
Definition djf (steps : list step) (rows : list val) : list val :=
  fold_left (fun r st => dstep st r) steps rows.

Lemma denote_steps_cons : forall fuel st rest rows,
    nojoin st -> denote_steps (S fuel) (st :: rest) rows = denote_steps fuel rest (dstep st rows).
Proof. intros fuel st rest rows H. destruct st; try contradiction; reflexivity. Qed.

Lemma denote_steps_djf : forall steps fuel rows,
    length steps <= fuel -> Forall nojoin steps -> denote_steps fuel steps rows = djf steps rows.
Proof.
  induction steps as [|st r IH]; intros fuel rows Hlen Hnj.
  - apply denote_steps_nil.
  - inversion Hnj as [|? ? Hst Hr]; subst.
    destruct fuel as [|fuel]; [cbn [length] in Hlen; lia|]. cbn [length] in Hlen.
    rewrite denote_steps_cons by exact Hst. unfold djf. cbn [fold_left]. apply IH; [lia|exact Hr].
Qed.

Lemma denote_steps_app : forall pre fuel rest rows,
    Forall nojoin pre ->
    denote_steps (length pre + fuel) (pre ++ rest) rows = denote_steps fuel rest (djf pre rows).
Proof.
  induction pre as [|st r IH]; intros fuel rest rows Hnj; [reflexivity|].
  inversion Hnj as [|? ? Hst Hr]; subst.
  cbn [length app Nat.add]. rewrite denote_steps_cons by exact Hst.
  unfold djf. cbn [fold_left]. apply IH. exact Hr.
Qed.

Lemma denote_steps_join : forall f k rs rd post rows,
    denote_steps (S f) (SJoin k rs rd :: post) rows
    = denote_steps f post (d_join k rows (denote_steps f rs rd)).
Proof. reflexivity. Qed.

Lemma classify_ew : forall t c st t' c',
    elementwise_step st = true -> classify_step_flat t c st = Some (t', c') ->
    step_type t st = Some t' /\ c' = c.
Proof.
  intros t c st t' c' Hew H.
  destruct st as [f|p|g|f| |f|p|f|p|f|n b|n b| |cb|cb|cb lf fo| | |k| |k rs rd|sd h|sd q|prs dflt|f p|dk|f];
    try discriminate Hew; cbn [classify_step_flat step_type] in *;
    try (inversion H; subst; split; reflexivity);
    try (destruct (Nat.eqb t TKV); [inversion H; subst; split; reflexivity|discriminate H]);
    try (destruct (Nat.eqb t TKW); [inversion H; subst; split; reflexivity|discriminate H]);
    try (destruct (Nat.eqb t TKG); [inversion H; subst; split; reflexivity|discriminate H]).
  - destruct b; try discriminate Hew; cbn [batch_elementwise] in H; inversion H; subst;
      split; reflexivity.
  - destruct b; try discriminate Hew.
    destruct (Nat.eqb t TKV); [inversion H; subst; split; reflexivity|discriminate H].
Qed.

(* ---- steps on class-D rows: they do not look at the order inside a group ---- *)
Lemma zsum_perm : forall l l', Permutation l l' -> zsum l = zsum l'.
Proof.
  intros l l' H. unfold zsum. generalize 0%Z.
  induction H as [|x l l' H IH|x y l|l1 l2 l3 H1 IH1 H2 IH2]; intros a; cbn [fold_left].
  - reflexivity.
  - apply IH.
  - f_equal. destruct x, y; lia.
  - rewrite IH1. apply IH2.
Qed.

Lemma ikey_row_inv : forall x y, row_perm x y -> ikey x = ikey y.
Proof.
  intros x y [Heq|(k & l & l' & Hx & Hy & Hp)]; [subst y; reflexivity|]. subst x y. reflexivity.
Qed.

Lemma pf_row_inv : forall p x y, row_perm x y -> pf p x = pf p y.
Proof.
  intros p x y H. induction p as [| |m r|c|q IH]; cbn [pf]; try reflexivity.
  - rewrite (ikey_row_inv x y H). reflexivity.
  - rewrite (ikey_row_inv x y H). reflexivity.
  - rewrite IH. reflexivity.
Qed.

Lemma ef_list_inv : forall f l l',
    efun_list_inv f = true -> Permutation l l' -> ef f (VList l) = ef f (VList l').
Proof.
  intros f l l' Hf Hp.
  assert (Hsum : ef FSum (VList l) = ef FSum (VList l'))
    by (cbn [ef]; rewrite (zsum_perm l l' Hp); reflexivity).
  assert (Hlen : ef FLen (VList l) = ef FLen (VList l'))
    by (cbn [ef]; rewrite (Permutation_length Hp); reflexivity).
  destruct f as [| | | | | | | | | | | |f1 f2]; try discriminate Hf; try assumption.
  destruct f1; try discriminate Hf; cbn [ef] in *; congruence.
Qed.

Lemma ef_row_inv : forall f x y, efun_row_inv f = true -> row_perm x y -> ef f x = ef f y.
Proof.
  intros f x y Hf [Heq|(k & l & l' & Hx & Hy & Hp)]; [subst y; reflexivity|]. subst x y.
  destruct f as [| | | | | | | | | | | |f1 f2]; try discriminate Hf; [reflexivity|].
  destruct f1; try discriminate Hf; cbn [ef vfst vsnd]; [reflexivity|].
  cbn [efun_row_inv] in Hf. apply ef_list_inv; assumption.
Qed.

Lemma op_map_dd : forall i o f uid,
    (forall x y, row_perm x y -> row_perm (f x) (f y)) -> ew_dd (op_map i o f uid).
Proof.
  intros i o f uid H. apply (ew_dd_rowwise _ (fun x => [f x])).
  - intros l. cbn [op_map mk_op op_fn]. rewrite <- map_as_flat_map. reflexivity.
  - intros x y Hxy. constructor; [apply H; exact Hxy|constructor].
Qed.

Lemma op_map_dp : forall i o f uid,
    (forall x y, row_perm x y -> f x = f y) -> ew_dp (op_map i o f uid).
Proof.
  intros i o f uid H. exists (fun x => [f x]). split.
  - intros l. cbn [op_map mk_op op_fn]. rewrite <- map_as_flat_map. reflexivity.
  - intros x y Hxy. rewrite (H x y Hxy). apply Permutation_refl.
Qed.

Lemma op_map_values_dp : forall i o f uid,
    (forall l l', Permutation l l' -> f (VList l) = f (VList l')) ->
    ew_dp (op_map_values i o f uid).
Proof.
  intros i o f uid H. exists (fun x => [on_snd f x]). split.
  - intros l. cbn [op_map_values mk_op op_fn]. rewrite <- map_as_flat_map. reflexivity.
  - intros x y [Heq|(k & l & l' & Hx & Hy & Hp)]; [subst y; apply Permutation_refl|].
    subst x y. cbn [on_snd]. rewrite (H l l' Hp). apply Permutation_refl.
Qed.

Lemma op_filter_dd : forall i p uid,
    (forall x y, row_perm x y -> p x = p y) -> ew_dd (op_filter i p uid).
Proof.
  intros i p uid H. apply (ew_dd_rowwise _ (fun x => if p x then [x] else [])).
  - intros l. cbn [op_filter mk_op op_fn]. rewrite <- filter_as_flat_map. reflexivity.
  - intros x y Hxy. rewrite (H x y Hxy).
    destruct (p y); constructor; [exact Hxy|constructor].
Qed.

Lemma op_flat_map_dd : forall i o g uid,
    (forall x y, row_perm x y -> Forall2 row_perm (g x) (g y)) -> ew_dd (op_flat_map i o g uid).
Proof.
  intros i o g uid H. apply (ew_dd_rowwise _ g); [|exact H]. intros l. reflexivity.
Qed.

Lemma op_flat_map_dp : forall i o g uid,
    (forall x y, row_perm x y -> Permutation (g x) (g y)) -> ew_dp (op_flat_map i o g uid).
Proof. intros i o g uid H. exists g. split; [intros l; reflexivity|exact H]. Qed.

Lemma gf_row_dp : forall g x y,
    (match g with GRepeat _ => False | _ => True end) -> row_perm x y ->
    Permutation (gf g x) (gf g y).
Proof.
  intros g x y Hg Hxy. destruct g as [n|m| |]; try contradiction; cbn [gf].
  - rewrite (ikey_row_inv x y Hxy). apply Permutation_refl.
  - destruct Hxy as [Heq|(k & l & l' & Hx & Hy & Hp)]; [subst y; apply Permutation_refl|].
    subst x y. apply Permutation_map. exact Hp.
  - apply Permutation_refl.
Qed.

Lemma gf_repeat_dd : forall n x y, row_perm x y ->
    Forall2 row_perm (gf (GRepeat n) x) (gf (GRepeat n) y).
Proof.
  intros n x y Hxy. cbn [gf]. induction n as [|n IH]; cbn [repeat]; constructor; assumption.
Qed.

Lemma classify_d_ew : forall t st t' c',
    elementwise_step st = true -> classify_step_d t st = Some (t', c') ->
    step_type t st = Some t' /\
    match c' with
    | D => forall uid, ew_dd (cop t uid st)
    | P => forall uid, ew_dp (cop t uid st)
    | E => False
    end.
Proof.
  intros t st t' c' Hew H.
  destruct st as [f|p|g|f| |f|p|f|p|f|n b|n b| |cb|cb|cb lf fo| | |k| |k rs rd|sd h|sd q|prs dflt|f p|dk|f];
    try discriminate Hew; cbn [classify_step_d step_type] in *; try discriminate H.
  - (* SMap *)
    destruct (efun_row_inv f) eqn:Ef; [|discriminate H]. inversion H; subst.
    split; [reflexivity|]. intros uid. cbn [cop]. apply op_map_dp. intros x y. apply ef_row_inv. exact Ef.
  - (* SFilter *)
    inversion H; subst. split; [reflexivity|]. intros uid. cbn [cop]. apply op_filter_dd.
    intros x y. apply pf_row_inv.
  - (* SFlatMap *)
    destruct g as [n|m| |]; inversion H; subst; (split; [reflexivity|]); intros uid; cbn [cop].
    + apply op_flat_map_dd. intros x y. apply gf_repeat_dd.
    + apply op_flat_map_dp. intros x y. apply gf_row_dp. exact I.
    + apply op_flat_map_dp. intros x y. apply gf_row_dp. exact I.
    + apply op_flat_map_dp. intros x y. apply gf_row_dp. exact I.
  - (* SUnkey *)
    inversion H; subst. split; [reflexivity|]. intros uid. cbn [cop]. apply op_map_dd. auto.
  - (* SMapValues *)
    destruct (Nat.eqb t TKV); [|discriminate H].
    destruct (efun_list_inv f) eqn:Ef; [|discriminate H]. cbn [andb] in H. inversion H; subst.
    split; [reflexivity|]. intros uid. cbn [cop]. apply op_map_values_dp.
    intros l l'. apply ef_list_inv. exact Ef.
  - (* SGroupValuesToList *)
    destruct (Nat.eqb t TKG); [|discriminate H]. inversion H; subst.
    split; [reflexivity|]. intros uid. cbn [cop]. apply op_map_dd. auto.
  - (* SDebug *)
    inversion H; subst. split; [reflexivity|]. intros uid. cbn [cop]. apply op_map_dd. auto.
Qed.

Lemma cstep_cls_flat : forall s st t c t' c',
    flat c -> classify_step_flat t c st = Some (t', c') -> cs_tag s = t ->
    exists b, cs_chain (cstep s st) = cs_chain s ++ [NB b] /\ node_cls t c b t' c' /\
              cs_tag (cstep s st) = t' /\ tkv_node b /\
              (forall rows, dnode b rows = dstep st rows).
Proof.
  intros s st t c t' c' Hfl H Ht.
  destruct (elementwise_step st) eqn:Hew.
  - (* element-wise step: one Stateless node with one operator *)
    destruct (classify_ew t c st t' c' Hew H) as [Hty ->].
    destruct (cop_tags t (cs_uid s) st t' Hew Hty) as [Hin Hout].
    exists (BStateless [cop (cs_tag s) (cs_uid s) st]).
    unfold cstep. rewrite (compile_steps_ew_step 0 st [] s Hew). cbn [compile_steps cs_chain cs_tag].
    rewrite Ht. split; [reflexivity|]. split; [|split; [exact Hout|split; [exact I|]]].
    + apply nc_stateless.
      * exact Hfl.
      * constructor; [apply cop_ew; exact Hew|constructor].
      * cbn [tags_ok]. rewrite Hin, Nat.eqb_refl, Hout. reflexivity.
    + intros rows. cbn [dnode]. unfold sem_ops. cbn [fold_left]. unfold step_list.
      rewrite (cop_fn _ _ st rows Hew). reflexivity.
  - destruct st as [f|p|g|f| |f|p|f|p|f|n b|n b| |cb|cb|cb lf fo| | |k| |k rs rd|sd h|sd q|prs dflt|f p|dk|f];
      try discriminate Hew; cbn [classify_step_flat] in H; try discriminate H.
    + (* SMapBatches with a non element-wise function *)
      destruct b; try discriminate Hew; discriminate H.
    + destruct b; try discriminate Hew; discriminate H.
    + (* SGroupByKey *)
      destruct (Nat.eqb t TKV) eqn:E; [|discriminate H]. apply Nat.eqb_eq in E.
      inversion H; subst. eexists. unfold cstep. cbn [compile_steps push_node cs_chain cs_tag].
      split; [reflexivity|].
      split; [destruct c; [apply nc_gbk|apply nc_gbk_p|contradiction]|].
      split; [reflexivity|split; [reflexivity|intros rows; reflexivity]].
    + (* SCombineValues *)
      destruct (Nat.eqb t TKV) eqn:E; [|discriminate H]. apply Nat.eqb_eq in E.
      destruct (cid_functional cb) eqn:Ef; [|discriminate H]. cbn [andb] in H.
      inversion H; subst. eexists. unfold cstep. cbn [compile_steps push_node cs_chain cs_tag].
      split; [reflexivity|]. split; [apply nc_cv_pairs; [exact Hfl|apply cid_lawful; exact Ef]|].
      split; [reflexivity|split; [reflexivity|intros rows; reflexivity]].
    + (* SCombineValuesLifted *)
      destruct (Nat.eqb t TKG) eqn:E; [|discriminate H]. apply Nat.eqb_eq in E.
      destruct (cid_functional cb) eqn:Ef; [|discriminate H]. cbn [andb] in H.
      inversion H; subst. eexists. unfold cstep. cbn [compile_steps push_node cs_chain cs_tag].
      split; [reflexivity|]. split; [apply nc_cv_groups; apply cid_lawful; exact Ef|].
      split; [reflexivity|split; [reflexivity|intros rows; reflexivity]].
    + (* SCombineGlobally *)
      destruct (cid_functional cb) eqn:Ef; [|discriminate H].
      inversion H; subst. eexists. unfold cstep. cbn [compile_steps push_node cs_chain cs_tag].
      split; [reflexivity|]. split; [apply nc_cg; [exact Hfl|apply cid_lawful; exact Ef]|].
      split; [reflexivity|split; [exact I|intros rows; reflexivity]].
    + (* STopKPerKey *)
      destruct (Nat.eqb t TKV) eqn:E; [|discriminate H]. apply Nat.eqb_eq in E.
      inversion H; subst. eexists. unfold cstep. cbn [compile_steps push_node cs_chain cs_tag].
      split; [reflexivity|]. split; [apply nc_cv_pairs; [exact Hfl|apply topk_lawful]|].
      split; [reflexivity|split; [reflexivity|intros rows; reflexivity]].
Qed.

Lemma cstep_cls_d : forall s st t t' c',
    classify_step_d t st = Some (t', c') -> cs_tag s = t ->
    exists b, cs_chain (cstep s st) = cs_chain s ++ [NB b] /\ node_cls t D b t' c' /\
              cs_tag (cstep s st) = t' /\ tkv_node b /\
              (forall rows, dnode b rows = dstep st rows).
Proof.
  intros s st t t' c' H Ht.
  destruct (elementwise_step st) eqn:Hew.
  - destruct (classify_d_ew t st t' c' Hew H) as [Hty Hop].
    destruct (cop_tags t (cs_uid s) st t' Hew Hty) as [Hin Hout].
    exists (BStateless [cop (cs_tag s) (cs_uid s) st]).
    unfold cstep. rewrite (compile_steps_ew_step 0 st [] s Hew). cbn [compile_steps cs_chain cs_tag].
    rewrite Ht. split; [reflexivity|]. split; [|split; [exact Hout|split; [exact I|]]].
    + assert (Htags : tags_ok t [cop t (cs_uid s) st] = Some t')
        by (cbn [tags_ok]; rewrite Hin, Nat.eqb_refl, Hout; reflexivity).
      destruct c'; [contradiction| |].
      * apply (nc_stateless_dp t [] (cop t (cs_uid s) st) [] t');
          [constructor|apply Hop|constructor|exact Htags].
      * apply nc_stateless_dd; [constructor; [apply Hop|constructor]|exact Htags].
    + intros rows. cbn [dnode]. unfold sem_ops. cbn [fold_left]. unfold step_list.
      rewrite (cop_fn _ _ st rows Hew). reflexivity.
  - destruct st as [f|p|g|f| |f|p|f|p|f|n b|n b| |cb|cb|cb lf fo| | |k| |k rs rd|sd h|sd q|prs dflt|f p|dk|f];
      try discriminate Hew; cbn [classify_step_d] in H; try discriminate H.
    (* SCombineValuesLifted *)
    destruct (Nat.eqb t TKG) eqn:E; [|discriminate H]. apply Nat.eqb_eq in E.
    destruct (cid_functional cb) eqn:Ef; [|discriminate H]. cbn [andb] in H.
    inversion H; subst. eexists. unfold cstep. cbn [compile_steps push_node cs_chain cs_tag].
    split; [reflexivity|]. split; [apply nc_cv_groups; apply cid_lawful; exact Ef|].
    split; [reflexivity|split; [reflexivity|intros rows; reflexivity]].
Qed.

Lemma cstep_cls : forall s st t c t' c',
    classify_step t c st = Some (t', c') -> cs_tag s = t ->
    exists b, cs_chain (cstep s st) = cs_chain s ++ [NB b] /\ node_cls t c b t' c' /\
              cs_tag (cstep s st) = t' /\ tkv_node b /\
              (forall rows, dnode b rows = dstep st rows).
Proof.
  intros s st t c t' c' H Ht. destruct c; cbn [classify_step] in H.
  - apply cstep_cls_flat; [exact I|exact H|exact Ht].
  - apply cstep_cls_flat; [exact I|exact H|exact Ht].
  - apply cstep_cls_d; assumption.
Qed.

Lemma classify_step_nojoin : forall t c st x, classify_step t c st = Some x -> nojoin st.
Proof. intros t c st x H. destruct st; try exact I. destruct c; discriminate H. Qed.

Lemma classify_steps_nojoin : forall steps t c x,
    classify_steps t c steps = Some x -> Forall nojoin steps.
Proof.
  induction steps as [|st r IH]; intros t c x H; [constructor|].
  cbn [classify_steps] in H. destruct (classify_step t c st) as [[t1 c1]|] eqn:E; [|discriminate H].
  constructor; [eapply classify_step_nojoin; exact E|eapply IH; exact H].
Qed.

Lemma cjf_cls : forall steps s t c t' c',
    classify_steps t c steps = Some (t', c') -> cs_tag s = t ->
    exists bs, cs_chain (cjf steps s) = cs_chain s ++ map NB bs /\ chain_cls t c bs t' c' /\
               cs_tag (cjf steps s) = t' /\ Forall tkv_node bs /\
               (forall rows, dchain bs rows = djf steps rows).
Proof.
  induction steps as [|st r IH]; intros s t c t' c' H Ht.
  - cbn [classify_steps] in H. inversion H; subst. exists []. cbn [cjf map].
    rewrite app_nil_r. split; [reflexivity|]. split; [apply cc_nil|].
    split; [reflexivity|split; [constructor|intros rows; reflexivity]].
  - cbn [classify_steps] in H.
    destruct (classify_step t c st) as [[t1 c1]|] eqn:E; [|discriminate H].
    destruct (cstep_cls s st t c t1 c1 E Ht) as (b & Hch & Hn & Htag & Hkv & Hd).
    destruct (IH (cstep s st) t1 c1 t' c' H Htag) as (bs & Hch' & Hcls & Htag' & Hkvs & Hds).
    exists (b :: bs). cbn [cjf map]. rewrite Hch', Hch, <- app_assoc. cbn [app].
    split; [reflexivity|]. split; [eapply cc_cons; eassumption|]. split; [exact Htag'|].
    split; [constructor; assumption|].
    intros rows. unfold dchain, djf in *. cbn [fold_left]. rewrite Hd. apply Hds.
Qed.

(* ================= (C) the join shape ================= *)

Lemma split_at_join_spec : forall steps pre j,
    split_at_join steps = (pre, j) ->
    match j with
    | None => steps = pre
    | Some (k, rs, rd, post) => steps = pre ++ SJoin k rs rd :: post
    end.
Proof.
  induction steps as [|st rest IH]; intros pre j H.
  - cbn [split_at_join] in H. inversion H; subst. reflexivity.
  - destruct st; cbn [split_at_join] in H;
      (destruct (split_at_join rest) as [p0 j0]; cbv beta iota in H; injection H as Hp Hj; subst pre j;
           specialize (IH _ _ eq_refl); destruct j0 as [[[[k0 rs0] rd0] post0]|];
           cbn [app]; congruence).
Qed.

Definition ssum (l : list step) : nat := fold_right (fun st n => step_size st + n) 0 l.

Lemma steps_size_ssum : forall l, steps_size l = S (ssum l).
Proof. reflexivity. Qed.

Lemma ssum_app : forall a b, ssum (a ++ b) = ssum a + ssum b.
Proof.
  intros a b. unfold ssum. induction a as [|x a IH]; cbn [app fold_right]; [reflexivity|].
  rewrite IH. lia.
Qed.

Lemma ssum_ge_length : forall l, length l <= ssum l.
Proof.
  intros l. unfold ssum. induction l as [|x l IH]; cbn [length fold_right]; [lia|].
  pose proof (step_size_pos x). lia.
Qed.

Lemma step_size_join : forall k rs rd, step_size (SJoin k rs rd) = S (ssum rs).
Proof.
  intros k rs rd. reflexivity.
Qed.

Lemma compile_steps_join : forall f k rs rd post s,
    compile_steps (S f) (SJoin k rs rd :: post) s
    = let rs' := compile_steps f rs {| cs_chain := [NB (BSource (vec_source TKV rd))];
                                       cs_tag := TKV; cs_uid := cs_uid s + 50 |} in
      compile_steps f post
        {| cs_chain := [NB (BSource (vec_source TDUMMY [VInt 0%Z]));
                        NCoGroup (map to_snode (cs_chain s)) (map to_snode (cs_chain rs')) k
                                 (cs_tag s) (cs_tag rs') (join_tag k);
                        NB (BStateless [op_map (join_tag k) TKV join_norm (cs_uid rs')])];
           cs_tag := TKV; cs_uid := S (cs_uid rs') |}.
Proof. reflexivity. Qed.

Lemma to_snode_NB : forall bs, map to_snode (map NB bs) = map SB bs.
Proof. intros bs. rewrite map_map. reflexivity. Qed.

Lemma tkv_map_NB : forall bs, Forall tkv_node bs -> Forall tkv_n (map NB bs).
Proof. intros bs H. induction H; cbn [map]; constructor; assumption. Qed.

Lemma tkv_lift_typed : forall chain, Forall tkv_n chain ->
    forall pre a b cb tp tg tout post,
      chain = pre ++ NB (BGroupByKey a b) :: NB (BCombineValues cb tp tg tout true) :: post ->
      tp = a.
Proof.
  intros chain H pre a b cb tp tg tout post ->.
  apply Forall_app in H. destruct H as [_ H].
  inversion H as [|? ? H1 H']; subst. inversion H' as [|? ? H2 _]; subst.
  cbn [tkv_n tkv_node] in H1, H2. congruence.
Qed.

(* ================= (D) classified programs ================= *)

Lemma classified_strong : forall s steps t c,
    classify s steps = Some (t, c) ->
    plan_cls (cs_chain (compile s steps)) t c /\ t = term_tag s steps /\
    Forall tkv_n (cs_chain (compile s steps)).
Proof.
  intros s steps t c H. unfold classify in H. unfold term_tag, compile.
  set (init := {| cs_chain := [src_node s]; cs_tag := src_tag s; cs_uid := uid_base |}).
  destruct (split_at_join steps) as [pre j] eqn:Hsplit.
  pose proof (split_at_join_spec steps pre j Hsplit) as Hspec.
  destruct j as [[[[k rs] rd] post]|].
  - (* one top-level join *)
    subst steps.
    destruct (classify_steps (src_tag s) E pre) as [[tl cl]|] eqn:Hpre; [|discriminate H].
    destruct (classify_steps TKV E rs) as [[tr cr]|] eqn:Hrs; [|discriminate H].
    destruct (Nat.eqb tl TKV) eqn:Etl; [|discriminate H]. apply Nat.eqb_eq in Etl. subst tl.
    destruct (Nat.eqb tr TKV) eqn:Etr; [|discriminate H]. apply Nat.eqb_eq in Etr. subst tr.
    cbn [andb] in H.
    assert (Hfll : flat cl) by (destruct cl; [exact I|exact I|discriminate H]).
    assert (Hflr : flat cr) by (destruct cl; destruct cr; try exact I; discriminate H).
    assert (H' : classify_steps TKV P post = Some (t, c))
      by (destruct cl; destruct cr; try exact H; contradiction).
    clear H. rename H' into H.
    pose proof (classify_steps_nojoin _ _ _ _ Hpre) as Hnj_pre.
    pose proof (classify_steps_nojoin _ _ _ _ Hrs) as Hnj_rs.
    pose proof (classify_steps_nojoin _ _ _ _ H) as Hnj_post.
    (* fuel *)
    assert (Hfuel : exists f, steps_size (pre ++ SJoin k rs rd :: post) = length pre + S f /\
                              length rs <= f /\ length post <= f).
    { rewrite steps_size_ssum, ssum_app.
      change (ssum (SJoin k rs rd :: post)) with (step_size (SJoin k rs rd) + ssum post).
      rewrite step_size_join.
      pose proof (ssum_ge_length pre). pose proof (ssum_ge_length rs).
      pose proof (ssum_ge_length post).
      exists (ssum pre - length pre + S (ssum rs) + ssum post). lia. }
    destruct Hfuel as (f & Hsz & Hf_rs & Hf_post). rewrite Hsz.
    rewrite (compile_steps_app pre (S f) _ init Hnj_pre), compile_steps_join. cbv zeta.
    (* left side *)
    destruct (cjf_cls pre init _ _ _ _ Hpre eq_refl) as (bl & Hchl & Hclsl & Htagl & Hkvl & Hdl).
    cbn [cs_chain init app] in Hchl.
    (* right side *)
    set (rinit := {| cs_chain := [NB (BSource (vec_source TKV rd))]; cs_tag := TKV;
                     cs_uid := cs_uid (cjf pre init) + 50 |}).
    rewrite (compile_steps_cjf rs f rinit Hf_rs Hnj_rs).
    destruct (cjf_cls rs rinit _ _ _ _ Hrs eq_refl) as (br & Hchr & Hclsr & Htagr & Hkvr & Hdr).
    cbn [cs_chain rinit app] in Hchr.
    (* after the join *)
    set (jinit := {| cs_chain := [NB (BSource (vec_source TDUMMY [VInt 0%Z]));
                                  NCoGroup (map to_snode (cs_chain (cjf pre init)))
                                           (map to_snode (cs_chain (cjf rs rinit))) k
                                           (cs_tag (cjf pre init)) (cs_tag (cjf rs rinit))
                                           (join_tag k);
                                  NB (BStateless [op_map (join_tag k) TKV join_norm
                                                         (cs_uid (cjf rs rinit))])];
                     cs_tag := TKV; cs_uid := S (cs_uid (cjf rs rinit)) |}).
    rewrite (compile_steps_cjf post f jinit Hf_post Hnj_post).
    destruct (cjf_cls post jinit _ _ _ _ H eq_refl) as (bp & Hchp & Hclsp & Htagp & Hkvp & Hdp).
    rewrite Hchp, Htagp. cbn [cs_chain jinit]. rewrite Hchl, Hchr, Htagl, Htagr.
    rewrite src_node_source. cbn [map to_snode app]. rewrite !to_snode_NB.
    change (NB (BStateless [op_map (join_tag k) TKV join_norm (cs_uid (cjf rs rinit))])
            :: map NB bp)
      with (map NB (BStateless [op_map (join_tag k) TKV join_norm (cs_uid (cjf rs rinit))] :: bp)).
    split; [|split; [reflexivity|]].
    + apply pc_join.
      * apply vec_source_coherent.
      * exists (src_source s), bl, cl. split; [reflexivity|]. split; [apply src_source_coherent|].
        rewrite src_source_tag. split; [exact Hclsl|exact Hfll].
      * exists (vec_source TKV rd), br, cr. split; [reflexivity|].
        split; [apply vec_source_coherent|]. split; [exact Hclsr|exact Hflr].
      * eapply cc_cons; [|exact Hclsp]. apply nc_stateless.
        -- exact I.
        -- constructor; [apply ew_map|constructor].
        -- cbn [tags_ok op_map mk_op op_in op_out]. rewrite Nat.eqb_refl. reflexivity.
    + constructor; [exact I|]. constructor; [exact I|].
      apply tkv_map_NB. constructor; [exact I|exact Hkvp].
  - (* no join *)
    subst pre.
    pose proof (classify_steps_nojoin _ _ _ _ H) as Hnj.
    pose proof (steps_size_length steps) as Hsz.
    rewrite (compile_steps_cjf steps (steps_size steps) init) by (try lia; exact Hnj).
    destruct (cjf_cls steps init _ _ _ _ H eq_refl) as (bs & Hch & Hcls & Htag & Hkv & Hd).
    cbn [cs_chain init app] in Hch. rewrite Hch, Htag, src_node_source.
    split; [|split; [reflexivity|]].
    + apply pc_linear; [apply src_source_coherent|]. rewrite src_source_tag. exact Hcls.
    + constructor; [exact I|]. apply tkv_map_NB. exact Hkv.
Qed.

(* the same analysis, keeping the node lists: the compiled chain is a source followed by a
   classified chain whose list meaning is `denote`, or the join shape *)
Inductive prog_shape (s : src) (steps : list step) (t : tag) (c : cls) : Prop :=
| shape_linear : forall bs,
    cs_chain (compile s steps) = NB (BSource (src_source s)) :: map NB bs ->
    chain_cls (src_tag s) E bs t c ->
    denote s steps = dchain bs (src_data s) ->
    prog_shape s steps t c
| shape_join : forall k rd u bl br bp cl cr,
    cs_chain (compile s steps)
    = NB (BSource (vec_source TDUMMY [VInt 0%Z]))
      :: NCoGroup (SB (BSource (src_source s)) :: map SB bl)
                  (SB (BSource (vec_source TKV rd)) :: map SB br) k TKV TKV (join_tag k)
      :: map NB (BStateless [op_map (join_tag k) TKV join_norm u] :: bp) ->
    chain_cls (src_tag s) E bl TKV cl -> chain_cls TKV E br TKV cr -> flat cl -> flat cr ->
    chain_cls TKV P bp t c ->
    denote s steps = dchain bp (d_join k (dchain bl (src_data s)) (dchain br rd)) ->
    prog_shape s steps t c.

Lemma classified_shape : forall s steps t c,
    classify s steps = Some (t, c) -> prog_shape s steps t c.
Proof.
  intros s steps t c H. unfold classify in H.
  set (init := {| cs_chain := [src_node s]; cs_tag := src_tag s; cs_uid := uid_base |}).
  destruct (split_at_join steps) as [pre j] eqn:Hsplit.
  pose proof (split_at_join_spec steps pre j Hsplit) as Hspec.
  destruct j as [[[[k rs] rd] post]|].
  - subst steps.
    destruct (classify_steps (src_tag s) E pre) as [[tl cl]|] eqn:Hpre; [|discriminate H].
    destruct (classify_steps TKV E rs) as [[tr cr]|] eqn:Hrs; [|discriminate H].
    destruct (Nat.eqb tl TKV) eqn:Etl; [|discriminate H]. apply Nat.eqb_eq in Etl. subst tl.
    destruct (Nat.eqb tr TKV) eqn:Etr; [|discriminate H]. apply Nat.eqb_eq in Etr. subst tr.
    cbn [andb] in H.
    assert (Hfll : flat cl) by (destruct cl; [exact I|exact I|discriminate H]).
    assert (Hflr : flat cr) by (destruct cl; destruct cr; try exact I; discriminate H).
    assert (H' : classify_steps TKV P post = Some (t, c))
      by (destruct cl; destruct cr; try exact H; contradiction).
    clear H. rename H' into H.
    pose proof (classify_steps_nojoin _ _ _ _ Hpre) as Hnj_pre.
    pose proof (classify_steps_nojoin _ _ _ _ Hrs) as Hnj_rs.
    pose proof (classify_steps_nojoin _ _ _ _ H) as Hnj_post.
    assert (Hfuel : exists f, steps_size (pre ++ SJoin k rs rd :: post) = length pre + S f /\
                              length rs <= f /\ length post <= f).
    { rewrite steps_size_ssum, ssum_app.
      change (ssum (SJoin k rs rd :: post)) with (step_size (SJoin k rs rd) + ssum post).
      rewrite step_size_join.
      pose proof (ssum_ge_length pre). pose proof (ssum_ge_length rs).
      pose proof (ssum_ge_length post).
      exists (ssum pre - length pre + S (ssum rs) + ssum post). lia. }
    destruct Hfuel as (f & Hsz & Hf_rs & Hf_post).
    destruct (cjf_cls pre init _ _ _ _ Hpre eq_refl) as (bl & Hchl & Hclsl & Htagl & Hkvl & Hdl).
    cbn [cs_chain init app] in Hchl.
    set (rinit := {| cs_chain := [NB (BSource (vec_source TKV rd))]; cs_tag := TKV;
                     cs_uid := cs_uid (cjf pre init) + 50 |}).
    destruct (cjf_cls rs rinit _ _ _ _ Hrs eq_refl) as (br & Hchr & Hclsr & Htagr & Hkvr & Hdr).
    cbn [cs_chain rinit app] in Hchr.
    set (jinit := {| cs_chain := [NB (BSource (vec_source TDUMMY [VInt 0%Z]));
                                  NCoGroup (map to_snode (cs_chain (cjf pre init)))
                                           (map to_snode (cs_chain (cjf rs rinit))) k
                                           (cs_tag (cjf pre init)) (cs_tag (cjf rs rinit))
                                           (join_tag k);
                                  NB (BStateless [op_map (join_tag k) TKV join_norm
                                                         (cs_uid (cjf rs rinit))])];
                     cs_tag := TKV; cs_uid := S (cs_uid (cjf rs rinit)) |}).
    destruct (cjf_cls post jinit _ _ _ _ H eq_refl) as (bp & Hchp & Hclsp & Htagp & Hkvp & Hdp).
    apply (shape_join s _ t c k rd (cs_uid (cjf rs rinit)) bl br bp cl cr).
    + unfold compile. fold init. rewrite Hsz.
      rewrite (compile_steps_app pre (S f) _ init Hnj_pre), compile_steps_join. cbv zeta.
      fold rinit. rewrite (compile_steps_cjf rs f rinit Hf_rs Hnj_rs). fold jinit.
      rewrite (compile_steps_cjf post f jinit Hf_post Hnj_post).
      rewrite Hchp. cbn [cs_chain jinit]. rewrite Hchl, Hchr, Htagl, Htagr.
      rewrite src_node_source. cbn [map to_snode app]. rewrite !to_snode_NB. reflexivity.
    + exact Hclsl.
    + exact Hclsr.
    + exact Hfll.
    + exact Hflr.
    + exact Hclsp.
    + unfold denote. rewrite Hsz.
      rewrite (denote_steps_app pre (S f) _ _ Hnj_pre), denote_steps_join.
      rewrite (denote_steps_djf rs f rd Hf_rs Hnj_rs).
      rewrite (denote_steps_djf post f _ Hf_post Hnj_post).
      rewrite Hdp, Hdl, Hdr. reflexivity.
  - subst pre.
    pose proof (classify_steps_nojoin _ _ _ _ H) as Hnj.
    pose proof (steps_size_length steps) as Hsz.
    destruct (cjf_cls steps init _ _ _ _ H eq_refl) as (bs & Hch & Hcls & Htag & Hkv & Hd).
    cbn [cs_chain init app] in Hch.
    apply (shape_linear s steps t c bs).
    + unfold compile. fold init.
      rewrite (compile_steps_cjf steps (steps_size steps) init) by (try lia; exact Hnj).
      rewrite Hch, src_node_source. reflexivity.
    + exact Hcls.
    + unfold denote. rewrite (denote_steps_djf steps (steps_size steps)) by (try lia; exact Hnj).
      symmetry. apply Hd.
Qed.

Lemma classified_program_in_fragment : forall s steps t c,
    classify s steps = Some (t, c) ->
    plan_cls (cs_chain (compile s steps)) t c /\ t = term_tag s steps.
Proof.
  intros s steps t c H. destruct (classified_strong s steps t c H) as (H1 & H2 & _). auto.
Qed.

Lemma program_par_equiv_seq : forall s steps t c parts,
    classify s steps = Some (t, c) ->
    reorder_noop (fuse (cs_chain (compile s steps))) ->
    exists rp rs, run_par s steps parts = Ok rp /\ run_seq s steps = Ok rs /\ rel c rp rs.
Proof.
  intros s steps t c parts H Hnoop.
  destruct (classified_strong s steps t c H) as (Hcls & Ht & Hkv).
  assert (Hperm : perm_oracle id_sh) by (intros i l; apply Permutation_refl).
  pose proof (plan_opt_sim _ t c Hcls Hnoop (tkv_lift_typed _ Hkv)) as Hsim.
  (* both runs of the optimised plan against one run of the raw chain *)
  destruct (plan_sim_sound id_sh id_sh _ _ t c None (Some parts) Hperm Hperm Hsim)
    as (r0 & rp & E0 & Ep & Hrel_p).
  destruct (plan_sim_sound id_sh id_sh _ _ t c None None Hperm Hperm Hsim)
    as (r0' & rs & E0' & Es & Hrel_s).
  rewrite E0 in E0'. injection E0' as <-.
  cbn [exec_mode] in Ep, Es.
  exists rp, rs. unfold run_par, run_seq, plan. rewrite <- Ht.
  split; [exact Ep|]. split; [exact Es|].
  eapply rel_trans; [apply rel_sym; exact Hrel_p|exact Hrel_s].
Qed.
