(* C08 proofs, part 3: consequences of the invariant for whole histories. *)
From Coq Require Import List Arith Bool Lia.
From IB Require Import Pipeline.Graph Pipeline.History Pipeline.Invariant Proofs.PipelineGraph Proofs.PipelineInv.
Import ListNotations.

Section PM.
  Variables V F G : Type.
  Notation node := (node V F G).
  Notation state := (state V F G).
  Notation lineage := (lineage V F G).
  Notation handle := (handle V F G).
  Notation config := (config V F G).
  Notation event := (event V F G).
  Notation label := (label V F G).

  Lemma run_app : forall (a b : list label) (c : config),
      run c (a ++ b) =
      match run c a with
      | Some (c1, e1) =>
          match run c1 b with
          | Some (c2, e2) => Some (c2, e1 ++ e2)
          | None => None
          end
      | None => None
      end.
  Proof.
    induction a as [|l a IH]; intros b c; cbn [app run].
    - destruct (run c b) as [[c2 e2]|]; reflexivity.
    - destruct (cstep c l) as [[c1 e1]|]; [|reflexivity].
      rewrite IH. destruct (run c1 a) as [[c2 e2]|]; [|reflexivity].
      destruct (run c2 b) as [[c3 e3]|]; [|reflexivity].
      now rewrite app_assoc.
  Qed.

  (* ---------- what one step does to the pool and to the graph ---------- *)

  Lemma extends_refl : forall (s : state), extends s s.
  Proof.
    intros s. split; [lia|]. split; [exists []|exists []]; [reflexivity|now rewrite app_nil_r].
  Qed.

  Lemma extends_trans : forall (a b c : state), extends a b -> extends b c -> extends a c.
  Proof.
    intros a b c (H1 & [n1 H2] & [e1 H3]) (H4 & [n2 H5] & [e2 H6]). split; [lia|]. split.
    - exists (n2 ++ n1). rewrite H5, H2. now rewrite app_assoc.
    - exists (e1 ++ e2). rewrite H6, H3. now rewrite app_assoc.
  Qed.

  Lemma extends_insert : forall (s : state) n, extends s (snd (insert_node s n)).
  Proof.
    intros s n. split; [cbn; lia|]. split; cbn.
    - now exists [(next_id s, n)].
    - exists []. now rewrite app_nil_r.
  Qed.

  Lemma extends_connect : forall (s : state) a b, extends s (connect s a b).
  Proof.
    intros s a b. split; [cbn; lia|]. split; cbn.
    - now exists [].
    - now exists [(a, b)].
  Qed.

  Lemma step_facts : forall (c : config) l c' evs,
      cstep c l = Some (c', evs) ->
      c_pool c' = c_pool c ++ handles_of evs /\
      extends (c_state c) (c_state c') /\
      (is_collect_label c l = true -> c_state c' = c_state c /\ c_pool c' = c_pool c).
  Proof.
    intros c [t oc] c' evs Hs. unfold cstep in Hs. unfold is_collect_label. cbn [fst snd].
    destruct (c_threads c t) as [|p|]; destruct oc as [cl|]; cbn [tstep] in Hs; try discriminate.
    - destruct cl as [d|f pi|g li ri|xi]; cbn [start_call] in Hs.
      + inversion Hs; subst; clear Hs. cbn. repeat split; try discriminate.
        * cbn; lia.
        * now exists [(next_id (c_state c), NSource d)].
        * exists []. now rewrite app_nil_r.
      + destruct (nth_error (c_pool c) pi); [|discriminate].
        inversion Hs; subst; clear Hs. cbn. rewrite app_nil_r. repeat split; try discriminate.
        * cbn; lia.
        * now exists [(next_id (c_state c), NStateless f)].
        * exists []. now rewrite app_nil_r.
      + destruct (nth_error (c_pool c) li); [|discriminate].
        destruct (nth_error (c_pool c) ri); [|discriminate].
        destruct (chain_from (snapshot (c_state c)) (h_id h)); inversion Hs; subst; clear Hs;
          cbn; rewrite app_nil_r; repeat split; try discriminate; apply extends_refl.
      + destruct (nth_error (c_pool c) xi); [|discriminate].
        inversion Hs; subst; clear Hs. cbn. rewrite app_nil_r.
        repeat split; apply extends_refl.
    - destruct p as [f ph i|g lh rh lc|g lh rh lc rc|g lh rh lc rc d|g lh rh d i|xh|xh plan];
        cbn [continue_call] in Hs.
      + inversion Hs; subst; clear Hs. cbn [c_pool c_state handles_of].
        repeat split; try discriminate; apply extends_connect.
      + destruct (chain_from (snapshot (c_state c)) (h_id rh)); inversion Hs; subst; clear Hs;
          cbn; rewrite app_nil_r; repeat split; try discriminate; apply extends_refl.
      + inversion Hs; subst; clear Hs. cbn [c_pool c_state handles_of]. rewrite app_nil_r.
        repeat split; try discriminate; apply (extends_insert (c_state c) NDummy).
      + inversion Hs; subst; clear Hs. cbn [c_pool c_state handles_of]. rewrite app_nil_r.
        repeat split; try discriminate; apply (extends_insert (c_state c) (NCoGroup lc rc g)).
      + inversion Hs; subst; clear Hs. cbn [c_pool c_state handles_of].
        repeat split; try discriminate; apply extends_connect.
      + inversion Hs; subst; clear Hs. cbn. rewrite app_nil_r.
        repeat split; apply extends_refl.
      + inversion Hs; subst; clear Hs. cbn. rewrite app_nil_r.
        repeat split; apply extends_refl.
  Qed.

  Lemma run_facts : forall ls (c : config) c' evs,
      run c ls = Some (c', evs) ->
      c_pool c' = c_pool c ++ handles_of evs /\ extends (c_state c) (c_state c').
  Proof.
    induction ls as [|l ls IH]; intros c c' evs Hr; cbn in Hr.
    - inversion Hr; subst. cbn. rewrite app_nil_r. split; [reflexivity|apply extends_refl].
    - destruct (cstep c l) as [[c1 e1]|] eqn:Es; [|discriminate].
      destruct (run c1 ls) as [[c2 e2]|] eqn:Er; [|discriminate].
      inversion Hr; subst. destruct (step_facts _ _ _ _ Es) as (Hp & He & _).
      destruct (IH _ _ _ Er) as (Hp' & He'). split.
      + rewrite Hp', Hp, <- app_assoc. f_equal.
        clear. induction e1 as [|e e1 IH]; cbn; [reflexivity|]. destruct e; cbn; now rewrite IH.
      + eapply extends_trans; eauto.
  Qed.

  (* ---------- collect events ---------- *)
  Lemma step_collect_event : forall (c : config) l c' evs t x plan,
      Inv c -> cstep c l = Some (c', evs) -> In (EvCollect t x plan) evs ->
      plan = Ok (chain_of (h_lin x)).
  Proof.
    intros c [u oc] c' evs t x plan HI Hs Hin. unfold cstep in Hs.
    pose proof (i_threads c HI u) as HT.
    destruct (c_threads c u) as [|p|]; destruct oc as [cl|]; cbn [tstep] in Hs; try discriminate.
    - destruct cl as [d|f pi|g li ri|xi]; cbn [start_call] in Hs.
      + inversion Hs; subst. cbn in Hin; intuition discriminate.
      + destruct (nth_error (c_pool c) pi); [|discriminate]. inversion Hs; subst. cbn in Hin; intuition discriminate.
      + destruct (nth_error (c_pool c) li); [|discriminate].
        destruct (nth_error (c_pool c) ri); [|discriminate].
        destruct (chain_from (snapshot (c_state c)) (h_id h)); inversion Hs; subst;
          cbn in Hin; intuition discriminate.
      + destruct (nth_error (c_pool c) xi); [|discriminate]. inversion Hs; subst. cbn in Hin; intuition discriminate.
    - cbn [TInv] in HT.
      destruct p as [f ph i|g lh rh lc|g lh rh lc rc|g lh rh lc rc d|g lh rh d i|xh|xh pl];
        cbn [continue_call] in Hs; cbn [PInv] in HT.
      + inversion Hs; subst. cbn in Hin; intuition discriminate.
      + destruct (chain_from (snapshot (c_state c)) (h_id rh)); inversion Hs; subst;
          cbn in Hin; intuition discriminate.
      + inversion Hs; subst. cbn in Hin; intuition discriminate.
      + inversion Hs; subst. cbn in Hin; intuition discriminate.
      + inversion Hs; subst. cbn in Hin; intuition discriminate.
      + inversion Hs; subst. cbn in Hin; intuition discriminate.
      + inversion Hs; subst. destruct Hin as [E|[]].
        inversion E; subst. reflexivity.
  Qed.

  Lemma run_collect_event : forall ls (c : config) c' evs t x plan,
      Inv c -> run c ls = Some (c', evs) -> In (EvCollect t x plan) evs ->
      plan = Ok (chain_of (h_lin x)).
  Proof.
    induction ls as [|l ls IH]; intros c c' evs t x plan HI Hr Hin; cbn in Hr.
    - inversion Hr; subst. destruct Hin.
    - destruct (cstep c l) as [[c1 e1]|] eqn:Es; [|discriminate].
      destruct (run c1 ls) as [[c2 e2]|] eqn:Er; [|discriminate].
      inversion Hr; subst. apply in_app_or in Hin. destruct Hin as [Hin|Hin].
      + eapply step_collect_event; eauto.
      + eapply IH; [|exact Er|exact Hin]. eapply inv_step; eauto.
  Qed.

  (* ---------- the property, for all histories ---------- *)
  Variable interp_f : F -> list V -> list V.
  Variable interp_g : G -> list V -> list V -> list V.

  (* a handle whose creating call has completed keeps its value for ever, whatever anybody
     builds or collects afterwards, and its backwalk keeps returning the same chain *)
  Theorem lineage_only : forall (h1 h2 : list label) (c1 c2 : config) e1 e2 (x : handle),
      run init_config h1 = Some (c1, e1) ->
      In x (c_pool c1) ->
      run c1 h2 = Some (c2, e2) ->
      collect interp_f interp_g (c_state c2) x = value_of_lineage interp_f interp_g (h_lin x) /\
      chain_from (snapshot (c_state c2)) (h_id x) = Ok (chain_of (h_lin x)) /\
      chain_from (snapshot (c_state c1)) (h_id x) = Ok (chain_of (h_lin x)).
  Proof.
    intros h1 h2 c1 c2 e1 e2 x H1 Hx H2.
    assert (HI1 : Inv c1) by (eapply inv_run; [apply Inv_init|exact H1]).
    assert (HI2 : Inv c2) by (eapply inv_run; [exact HI1|exact H2]).
    assert (Hx2 : In x (c_pool c2)).
    { destruct (run_facts _ _ _ _ H2) as (Hp & _). rewrite Hp. apply in_or_app. now left. }
    pose proof (i_pool c1 HI1 x Hx) as R1.
    pose proof (i_pool c2 HI2 x Hx2) as R2.
    repeat split.
    - now apply collect_repr.
    - now apply chain_from_repr.
    - now apply chain_from_repr.
  Qed.

  (* what a collect call returns, in any history, at any time, however often *)
  Theorem collect_events : forall (h : list label) (c : config) evs t x plan,
      run init_config h = Some (c, evs) -> In (EvCollect t x plan) evs ->
      collect_value interp_f interp_g plan = value_of_lineage interp_f interp_g (h_lin x).
  Proof.
    intros h c evs t x plan Hr Hin.
    rewrite (run_collect_event _ _ _ _ _ _ _ (Inv_init V F G) Hr Hin).
    unfold collect_value. cbn [exec_outcome]. apply exec_chain_of.
  Qed.

  Theorem inv_reachable : forall (h : list label) (c : config) evs,
      run init_config h = Some (c, evs) -> Inv c.
  Proof. intros h c evs Hr. eapply inv_run; [apply Inv_init|exact Hr]. Qed.

  Theorem single_predecessor : forall (h : list label) (c : config) evs,
      run init_config h = Some (c, evs) ->
      forall a b, In (a, b) (edges (c_state c)) ->
                  a < b /\ b < next_id (c_state c) /\ pred_of (edges (c_state c)) b = Some a.
  Proof.
    intros h c evs Hr a b Hin. pose proof (i_graph c (inv_reachable _ _ _ Hr)) as HG.
    destruct (g_edges _ HG a b Hin) as (Hlt & _ & Hb). repeat split.
    - exact Hlt.
    - now apply (g_keys_lt _ HG).
    - apply pred_of_unique; [apply (g_one_pred _ HG)|exact Hin].
  Qed.

  Theorem ids_distinct : forall (h : list label) (c : config) evs,
      run init_config h = Some (c, evs) ->
      c_pool c = handles_of evs /\ NoDup (map h_id (handles_of evs)) /\
      NoDup (map fst (nodes (c_state c))).
  Proof.
    intros h c evs Hr. destruct (run_facts _ _ _ _ Hr) as (Hp & _). cbn in Hp.
    pose proof (inv_reachable _ _ _ Hr) as HI.
    split; [exact Hp|]. split.
    - rewrite <- Hp. apply (i_ids c HI).
    - apply (g_keys_nodup _ (i_graph c HI)).
  Qed.

  Theorem collect_pure : forall (c : config) l c' evs,
      cstep c l = Some (c', evs) -> is_collect_label c l = true ->
      c_state c' = c_state c /\ c_pool c' = c_pool c.
  Proof. intros c l c' evs Hs Hc. now apply (step_facts _ _ _ _ Hs). Qed.

  Theorem monotone : forall (h : list label) (c c' : config) evs,
      run c h = Some (c', evs) ->
      next_id (c_state c) <= next_id (c_state c') /\
      (exists ns, nodes (c_state c') = ns ++ nodes (c_state c)) /\
      (exists es, edges (c_state c') = edges (c_state c) ++ es) /\
      (exists hs, c_pool c' = c_pool c ++ hs).
  Proof.
    intros h c c' evs Hr. destruct (run_facts _ _ _ _ Hr) as (Hp & He & Hn & Hes).
    repeat split; auto. now exists (handles_of evs).
  Qed.
End PM.

