(* Sum over machine integers (Combiners/Checked.v): the checked sum never returns a wrong number,
   returns the exact sum in every split and merge order when the totals fit, and its panics are
   order dependent otherwise; the wrapping sum is lawful for the sum modulo 2^bits. *)
From Coq Require Import List ZArith Lia Permutation Bool.
From IB Require Import Combiners.Lawful Combiners.Basic Combiners.Checked Proofs.CombinersLawful
  Proofs.CombinersBasic.
Import ListNotations.
Open Scope Z_scope.

Lemma zpos_cons : forall v m, zpos (v :: m) = Z.max v 0 + zpos m.
Proof. reflexivity. Qed.
Lemma zneg_cons : forall v m, zneg (v :: m) = Z.max (- v) 0 + zneg m.
Proof. reflexivity. Qed.
Lemma zsum_cons : forall v m, zsum (v :: m) = v + zsum m.
Proof. reflexivity. Qed.
Lemma zpos_nonneg : forall m, 0 <= zpos m.
Proof. induction m as [|v m IH]; [cbn; lia | rewrite zpos_cons; lia]. Qed.
Lemma zneg_nonneg : forall m, 0 <= zneg m.
Proof. induction m as [|v m IH]; [cbn; lia | rewrite zneg_cons; lia]. Qed.
Lemma zpos_app : forall a b, zpos (a ++ b) = zpos a + zpos b.
Proof.
  induction a as [|v a IH]; intros b; [reflexivity|].
  rewrite <- app_comm_cons, !zpos_cons, IH. lia.
Qed.
Lemma zneg_app : forall a b, zneg (a ++ b) = zneg a + zneg b.
Proof.
  induction a as [|v a IH]; intros b; [reflexivity|].
  rewrite <- app_comm_cons, !zneg_cons, IH. lia.
Qed.
Lemma zsum_between : forall m, - zneg m <= zsum m <= zpos m.
Proof.
  induction m as [|v m IH]; [cbn; lia|]. rewrite zsum_cons, zneg_cons, zpos_cons. lia.
Qed.

(* the exact sum the Z model computes *)
Lemma sum_aeval : forall e, aeval sum_combiner e = zsum (avalues e).
Proof.
  intros e. pose proof (aeval_R sum_combiner sum_R sum_spec sum_lawful e) as H. exact H.
Qed.

Section Checked.
  Variables lo hi : Z.
  Let c := sum_checked_combiner lo hi.

  Lemma checked_fold_sound : forall vs a z,
      fold_left (checked_add lo hi) vs a = Some z -> exists x, a = Some x /\ z = x + zsum vs.
  Proof.
    induction vs as [|v vs IH]; intros a z H; cbn [fold_left] in H.
    - exists z. split; [exact H | cbn; lia].
    - apply IH in H. destruct H as [x [Hx Hz]].
      destruct a as [y|]; cbn [checked_add] in Hx; [|discriminate].
      destruct (in_range lo hi (y + v)); [|discriminate].
      injection Hx as <-. exists y. split; [reflexivity|]. rewrite zsum_cons. lia.
  Qed.

  (* partial correctness, no hypothesis: when nothing panicked the result is the exact sum *)
  Theorem sum_checked_sound : forall e z,
      aeval c e = Some z -> z = zsum (avalues e).
  Proof.
    induction e as [|e IH v|l IHl r IHr|vs]; intros z H; cbn [aeval avalues] in *.
    - injection H as <-. reflexivity.
    - subst c. cbn [sum_checked_combiner c_add] in H.
      destruct (aeval (sum_checked_combiner lo hi) e) as [x|] eqn:E; cbn [checked_add] in H;
        [|discriminate].
      destruct (in_range lo hi (x + v)); [|discriminate]. injection H as <-.
      rewrite (IH x eq_refl). rewrite zsum_cons. lia.
    - subst c. cbn [sum_checked_combiner c_merge] in H.
      destruct (aeval (sum_checked_combiner lo hi) r) as [y|] eqn:Er; cbn [checked_merge] in H;
        [|discriminate].
      destruct (aeval (sum_checked_combiner lo hi) l) as [x|] eqn:El; cbn [checked_add] in H;
        [|discriminate].
      destruct (in_range lo hi (x + y)); [|discriminate]. injection H as <-.
      rewrite (IHl x eq_refl), (IHr y eq_refl). rewrite zsum_app. reflexivity.
    - subst c. cbn [sum_checked_combiner c_build] in H.
      apply checked_fold_sound in H. destruct H as [x [Hx ->]]. injection Hx as <-. lia.
  Qed.

  Lemma checked_fold_total : forall vs x,
      lo <= x - zneg vs -> x + zpos vs <= hi -> lo <= x <= hi ->
      fold_left (checked_add lo hi) vs (Some x) = Some (x + zsum vs).
  Proof.
    induction vs as [|v vs IH]; intros x Hlo Hhi Hx; cbn [fold_left].
    - cbn. f_equal. lia.
    - rewrite zneg_cons in Hlo. rewrite zpos_cons in Hhi. rewrite zsum_cons.
      pose proof (zneg_nonneg vs). pose proof (zpos_nonneg vs).
      cbn [checked_add]. unfold in_range.
      replace ((lo <=? x + v) && (x + v <=? hi)) with true
        by (symmetry; apply andb_true_iff; split; apply Z.leb_le; lia).
      rewrite IH by lia. f_equal. lia.
  Qed.

  (* total correctness: when the positive values total at most hi and the negative ones at least
     lo, NO way of splitting, lifting, merging or ordering overflows, and the checked machine sum
     is the exact sum of the Z model *)
  Theorem sum_checked_no_overflow : forall e,
      lo <= - zneg (avalues e) -> zpos (avalues e) <= hi ->
      aeval c e = Some (aeval sum_combiner e).
  Proof.
    intros e. rewrite sum_aeval.
    induction e as [|e IH v|l IHl r IHr|vs]; intros Hlo Hhi; cbn [aeval avalues] in *.
    - reflexivity.
    - rewrite zneg_cons in Hlo. rewrite zpos_cons in Hhi.
      subst c. cbn [sum_checked_combiner c_add].
      pose proof (zsum_between (avalues e)).
      rewrite IH by lia. cbn [checked_add]. rewrite zsum_cons.
      unfold in_range.
      replace ((lo <=? zsum (avalues e) + v) && (zsum (avalues e) + v <=? hi)) with true
        by (symmetry; apply andb_true_iff; split; apply Z.leb_le; lia).
      f_equal. lia.
    - rewrite zneg_app in Hlo. rewrite zpos_app in Hhi.
      pose proof (zneg_nonneg (avalues l)). pose proof (zneg_nonneg (avalues r)).
      pose proof (zpos_nonneg (avalues l)). pose proof (zpos_nonneg (avalues r)).
      pose proof (zsum_between (avalues l)). pose proof (zsum_between (avalues r)).
      subst c. cbn [sum_checked_combiner c_merge].
      rewrite IHl by lia. rewrite IHr by lia. cbn [checked_merge checked_add].
      unfold in_range. rewrite zsum_app.
      replace ((lo <=? zsum (avalues l) + zsum (avalues r))
               && (zsum (avalues l) + zsum (avalues r) <=? hi)) with true
        by (symmetry; apply andb_true_iff; split; apply Z.leb_le; lia).
      reflexivity.
    - subst c. cbn [sum_checked_combiner c_build].
      pose proof (zneg_nonneg vs). pose proof (zpos_nonneg vs).
      rewrite checked_fold_total by lia. f_equal.
  Qed.
End Checked.

(* without that hypothesis the PANIC is order dependent (the value, when there is one, never is):
   i8 values 127, 1, -1 *)
Lemma sum_checked_order_dependent :
  let c := sum_checked_combiner (-128) 127 in
  let e1 := ABuild [127; 1; -1] in
  let e2 := AMerge (ABuild [127]) (ABuild [1; -1]) in
  Permutation (avalues e1) (avalues e2) /\ aeval c e1 = None /\ aeval c e2 = Some 127.
Proof. cbn. repeat split. apply Permutation_refl. Qed.

(* ------------------------------------------------------------------ wrapping *)
Section Wrapping.
  Variables lo modulus : Z.
  Hypothesis Hmod : 0 < modulus.
  Hypothesis Hlo : lo <= 0 < lo + modulus.

  Lemma wrap_add_l : forall x y, wrap lo modulus (wrap lo modulus x + y) = wrap lo modulus (x + y).
  Proof.
    intros x y. unfold wrap. f_equal.
    replace ((x - lo) mod modulus + lo + y - lo) with ((x - lo) mod modulus + y) by ring.
    rewrite Z.add_mod_idemp_l by lia. f_equal. ring.
  Qed.
  Lemma wrap_add_r : forall x y, wrap lo modulus (x + wrap lo modulus y) = wrap lo modulus (x + y).
  Proof. intros x y. rewrite Z.add_comm, wrap_add_l. f_equal. ring. Qed.
  Lemma wrap_small : forall x, lo <= x < lo + modulus -> wrap lo modulus x = x.
  Proof. intros x Hx. unfold wrap. rewrite Z.mod_small by lia. ring. Qed.
  Lemma wrap_range : forall x, lo <= wrap lo modulus x < lo + modulus.
  Proof. intros x. unfold wrap. pose proof (Z.mod_pos_bound (x - lo) modulus Hmod). lia. Qed.

  Lemma wrap_fold : forall vs a,
      fold_left (fun a v => wrap lo modulus (a + v)) vs (wrap lo modulus a)
      = wrap lo modulus (a + zsum vs).
  Proof.
    induction vs as [|v vs IH]; intros a; cbn [fold_left].
    - f_equal. cbn. lia.
    - rewrite wrap_add_l. rewrite IH. f_equal. rewrite zsum_cons. lia.
  Qed.

  (* the wrapping sum is lawful: in every split and merge order the result is the exact sum
     reduced modulo 2^bits into the type's range *)
  Theorem sum_wrapping_lawful :
    lawful (sum_wrapping_combiner lo modulus) (wrap_R lo modulus) (wrap_spec lo modulus).
  Proof.
    constructor; unfold wrap_R, wrap_spec.
    - cbn. symmetry. apply wrap_small. lia.
    - intros a m v ->. cbn [sum_wrapping_combiner c_add]. rewrite zsum_cons.
      rewrite wrap_add_l. f_equal. lia.
    - intros a b m m' -> ->. cbn [sum_wrapping_combiner c_merge].
      rewrite wrap_add_l, wrap_add_r. rewrite zsum_app. reflexivity.
    - intros vs. cbn [sum_wrapping_combiner c_build].
      rewrite <- (wrap_small 0) at 1 by lia. rewrite wrap_fold. f_equal.
    - intros a m m' -> HP. f_equal. apply zsum_perm. exact HP.
    - intros a m ->. reflexivity.
  Qed.

  (* and it agrees with the Z model whenever the exact sum is representable *)
  Theorem sum_wrapping_exact : forall e,
      lo <= zsum (avalues e) < lo + modulus ->
      aeval (sum_wrapping_combiner lo modulus) e = aeval sum_combiner e.
  Proof.
    intros e H. rewrite sum_aeval.
    pose proof (aeval_R _ _ _ sum_wrapping_lawful e) as HR. unfold wrap_R in HR.
    rewrite HR. apply wrap_small. exact H.
  Qed.
End Wrapping.
