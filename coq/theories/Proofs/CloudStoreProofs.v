(* Proofs about the multi-bucket object store, call sequences, copies, loose JSONL texts and the
   merge sort of keys (model: IO/CloudStore.v). *)
From Coq Require Import List NArith Bool Lia Sorted Permutation.
From IB Require Import IO.Regex IO.CloudGlob IO.CloudStore Proofs.CloudGlobProofs
  Proofs.CloudGlobRoundtrip.
Import ListNotations.
Open Scope N_scope.

(* ================================================================================ *)
(* 1. one bucket: remove                                                             *)
(* ================================================================================ *)
Lemma get_remove_same : forall st k, get (remove st k) k = None.
Proof.
  induction st as [|[k' v'] st IH]; intros k; cbn; [reflexivity|].
  destruct (list_eqb k k') eqn:E; [apply IH|]. cbn. rewrite E. apply IH.
Qed.

Lemma get_remove_other : forall st k k2, k2 <> k -> get (remove st k) k2 = get st k2.
Proof.
  induction st as [|[k' v'] st IH]; intros k k2 Hne; cbn; [reflexivity|].
  destruct (list_eqb k k') eqn:E.
  - apply list_eqb_eq in E. subst k'. apply list_eqb_neq in Hne. rewrite Hne. apply IH.
    apply list_eqb_neq. exact Hne.
  - cbn. destruct (list_eqb k2 k'); [reflexivity|]. apply IH. exact Hne.
Qed.

Lemma keys_remove : forall st k,
  map fst (remove st k) = filter (fun k' => negb (list_eqb k k')) (map fst st).
Proof.
  induction st as [|[k' v'] st IH]; intros k; cbn; [reflexivity|].
  destruct (list_eqb k k'); cbn; [apply IH|]. rewrite IH. reflexivity.
Qed.

(* a key is listed iff it can be fetched *)
Lemma get_some_iff_in : forall st k, get st k <> None <-> In k (map fst st).
Proof.
  induction st as [|[k' v'] st IH]; intros k; cbn.
  - split; [intros H; contradiction|intros []].
  - destruct (list_eqb k k') eqn:E.
    + apply list_eqb_eq in E. subst. split; [intros _; left; reflexivity|intros _; discriminate].
    + rewrite IH. split; [intros H; right; exact H|].
      intros [H|H]; [|exact H]. subst k'. rewrite list_eqb_refl in E. discriminate.
Qed.

Lemma existsb_list_eqb_in : forall k l, existsb (list_eqb k) l = true <-> In k l.
Proof.
  intros k l. rewrite existsb_exists. split.
  - intros (x & Hx & E). apply list_eqb_eq in E. subst. exact Hx.
  - intros H. exists k. split; [exact H|apply list_eqb_refl].
Qed.

Lemma in_keys_put : forall st k v k', In k' (map fst (put st k v)) <-> k' = k \/ In k' (map fst st).
Proof.
  intros st k v k'. rewrite keys_put.
  destruct (existsb (list_eqb k) (map fst st)) eqn:E.
  - apply existsb_list_eqb_in in E. split; [intros H; right; exact H|].
    intros [H|H]; [subst; exact E|exact H].
  - rewrite in_app_iff. cbn. split.
    + intros [H|[H|[]]]; [right; exact H|left; symmetry; exact H].
    + intros [H|H]; [right; left; symmetry; exact H|left; exact H].
Qed.

Lemma nodup_snoc : forall (A : Type) (l : list A) (x : A), NoDup l -> ~ In x l -> NoDup (l ++ [x]).
Proof.
  intros A l x. induction l as [|y l IH]; intros Hn Hx; cbn.
  - constructor; [intros []|constructor].
  - inversion Hn as [|? ? Hy Hl]; subst. constructor.
    + rewrite in_app_iff. intros [H|[H|[]]]; [contradiction|]. subst. apply Hx. left. reflexivity.
    + apply IH; [exact Hl|]. intros H. apply Hx. right. exact H.
Qed.

Lemma nodup_keys_put : forall st k v, NoDup (map fst st) -> NoDup (map fst (put st k v)).
Proof.
  intros st k v H. rewrite keys_put.
  destruct (existsb (list_eqb k) (map fst st)) eqn:E; [exact H|].
  apply nodup_snoc; [exact H|]. intros Hx.
  apply existsb_list_eqb_in in Hx. congruence.
Qed.

Lemma nodup_keys_remove : forall st k, NoDup (map fst st) -> NoDup (map fst (remove st k)).
Proof. intros st k H. rewrite keys_remove. apply NoDup_filter. exact H. Qed.

Lemma in_keys_remove : forall st k k', In k' (map fst (remove st k)) <-> k' <> k /\ In k' (map fst st).
Proof.
  intros st k k'. rewrite keys_remove, filter_In. split.
  - intros [H1 H2]. split; [|exact H1]. apply negb_true_iff in H2. apply list_eqb_neq in H2.
    intros E. apply H2. symmetry. exact E.
  - intros [H1 H2]. split; [exact H2|]. apply negb_true_iff. apply list_eqb_neq.
    intros E. apply H1. symmetry. exact E.
Qed.

(* ================================================================================ *)
(* 2. several buckets                                                                *)
(* ================================================================================ *)
Lemma bget_bset_same : forall ms b st, bget (bset ms b st) b = Some st.
Proof.
  induction ms as [|[b' st'] ms IH]; intros b st; cbn.
  - rewrite list_eqb_refl. reflexivity.
  - destruct (list_eqb b b') eqn:E; cbn; [rewrite list_eqb_refl; reflexivity|].
    rewrite E. apply IH.
Qed.

Lemma bget_bset_other : forall ms b st b2, b2 <> b -> bget (bset ms b st) b2 = bget ms b2.
Proof.
  induction ms as [|[b' st'] ms IH]; intros b st b2 Hne; cbn.
  - apply list_eqb_neq in Hne. rewrite Hne. reflexivity.
  - destruct (list_eqb b b') eqn:E; cbn.
    + apply list_eqb_eq in E. subst b'. apply list_eqb_neq in Hne. rewrite Hne. reflexivity.
    + destruct (list_eqb b2 b'); [reflexivity|]. apply IH. exact Hne.
Qed.

Lemma bucket_store_put_same : forall ms b k v,
  bucket_store (ms_put ms b k v) b = put (bucket_store ms b) k v.
Proof. intros. unfold bucket_store at 1, ms_put. rewrite bget_bset_same. reflexivity. Qed.

Lemma bucket_store_put_other : forall ms b k v b2, b2 <> b ->
  bucket_store (ms_put ms b k v) b2 = bucket_store ms b2.
Proof.
  intros ms b k v b2 Hne. unfold bucket_store at 1, ms_put.
  rewrite bget_bset_other by exact Hne. reflexivity.
Qed.

Lemma bucket_store_delete_same : forall ms b k,
  bucket_store (ms_delete ms b k) b = remove (bucket_store ms b) k.
Proof.
  intros ms b k. unfold ms_delete, bucket_store. destruct (bget ms b) as [st|] eqn:E.
  - rewrite bget_bset_same. reflexivity.
  - rewrite E. reflexivity.
Qed.

Lemma bucket_store_delete_other : forall ms b k b2, b2 <> b ->
  bucket_store (ms_delete ms b k) b2 = bucket_store ms b2.
Proof.
  intros ms b k b2 Hne. unfold ms_delete. destruct (bget ms b) as [st|]; [|reflexivity].
  unfold bucket_store. rewrite bget_bset_other by exact Hne. reflexivity.
Qed.

(* what exists of a bucket: its key set, None when nothing was ever put into it *)
Lemma ms_keys_put_same : forall ms b k v,
  ms_keys (ms_put ms b k v) b = Some (map fst (put (bucket_store ms b) k v)).
Proof. intros. unfold ms_keys, ms_put. rewrite bget_bset_same. reflexivity. Qed.

Lemma ms_keys_put_other : forall ms b k v b2, b2 <> b -> ms_keys (ms_put ms b k v) b2 = ms_keys ms b2.
Proof.
  intros ms b k v b2 Hne. unfold ms_keys, ms_put. rewrite bget_bset_other by exact Hne. reflexivity.
Qed.

Lemma ms_keys_delete_same : forall ms b k,
  ms_keys (ms_delete ms b k) b =
  match ms_keys ms b with
  | Some ks => Some (filter (fun k' => negb (list_eqb k k')) ks)
  | None => None
  end.
Proof.
  intros ms b k. unfold ms_keys, ms_delete. destruct (bget ms b) as [st|] eqn:E.
  - rewrite bget_bset_same, keys_remove. reflexivity.
  - rewrite E. reflexivity.
Qed.

Lemma ms_keys_delete_other : forall ms b k b2, b2 <> b ->
  ms_keys (ms_delete ms b k) b2 = ms_keys ms b2.
Proof.
  intros ms b k b2 Hne. unfold ms_keys, ms_delete. destruct (bget ms b) as [st|]; [|reflexivity].
  rewrite bget_bset_other by exact Hne. reflexivity.
Qed.

Lemma ms_keys_bucket_store : forall ms b ks, ms_keys ms b = Some ks -> ks = map fst (bucket_store ms b).
Proof.
  intros ms b ks H. unfold ms_keys, bucket_store in *. destruct (bget ms b); [|discriminate].
  injection H as <-. reflexivity.
Qed.

(* the algebra of get / put / delete over (bucket, key) slots *)
Theorem ms_get_put_same : forall ms b k v, ms_get (ms_put ms b k v) b k = Some v.
Proof. intros. unfold ms_get. rewrite bucket_store_put_same. apply get_put_same. Qed.

Theorem ms_get_put_other : forall ms b k v b2 k2, (b2, k2) <> (b, k) ->
  ms_get (ms_put ms b k v) b2 k2 = ms_get ms b2 k2.
Proof.
  intros ms b k v b2 k2 Hne. unfold ms_get.
  destruct (list_eqb b2 b) eqn:E.
  - apply list_eqb_eq in E. subst b2. rewrite bucket_store_put_same. apply get_put_other.
    intros E. apply Hne. subst. reflexivity.
  - apply list_eqb_neq in E. rewrite bucket_store_put_other by exact E. reflexivity.
Qed.

Theorem ms_get_delete_same : forall ms b k, ms_get (ms_delete ms b k) b k = None.
Proof. intros. unfold ms_get. rewrite bucket_store_delete_same. apply get_remove_same. Qed.

Theorem ms_get_delete_other : forall ms b k b2 k2, (b2, k2) <> (b, k) ->
  ms_get (ms_delete ms b k) b2 k2 = ms_get ms b2 k2.
Proof.
  intros ms b k b2 k2 Hne. unfold ms_get.
  destruct (list_eqb b2 b) eqn:E.
  - apply list_eqb_eq in E. subst b2. rewrite bucket_store_delete_same. apply get_remove_other.
    intros E. apply Hne. subst. reflexivity.
  - apply list_eqb_neq in E. rewrite bucket_store_delete_other by exact E. reflexivity.
Qed.

(* object_exists agrees with the listing *)
Theorem ms_exists_iff_listed : forall ms b k,
  ms_exists ms b k = true <-> exists ks, ms_keys ms b = Some ks /\ In k ks.
Proof.
  intros ms b k. unfold ms_exists, ms_get, ms_keys, bucket_store.
  destruct (bget ms b) as [st|].
  - split.
    + intros H. exists (map fst st). split; [reflexivity|]. apply get_some_iff_in.
      destruct (get st k); [discriminate|discriminate H].
    + intros (ks & E & Hin). injection E as <-. apply get_some_iff_in in Hin.
      destruct (get st k); [reflexivity|contradiction].
  - cbn. split; [discriminate|]. intros (ks & E & _). discriminate.
Qed.

(* ================================================================================ *)
(* 3. merge sort of keys = the sorted permutation                                     *)
(* ================================================================================ *)
Lemma kmerge_nil_r : forall a, kmerge a [] = a.
Proof. intros [|x a]; reflexivity. Qed.

Lemma kmerge_cons : forall x a y b,
  kmerge (x :: a) (y :: b) = if key_leb x y then x :: kmerge a (y :: b) else y :: kmerge (x :: a) b.
Proof. intros. cbn. reflexivity. Qed.

Lemma kmerge_perm : forall a b, Permutation (kmerge a b) (a ++ b).
Proof.
  induction a as [|x a IHa]; intros b; [reflexivity|].
  induction b as [|y b IHb].
  - rewrite kmerge_nil_r, app_nil_r. reflexivity.
  - rewrite kmerge_cons. destruct (key_leb x y).
    + cbn [app]. constructor. apply IHa.
    + rewrite IHb. apply (Permutation_middle (x :: a) b y).
Qed.

Lemma forall_key_le_trans : forall x y l, key_le x y -> Forall (key_le y) l -> Forall (key_le x) l.
Proof.
  intros x y l Hxy H. rewrite Forall_forall in *. intros z Hz.
  unfold key_le in *. eapply key_leb_trans; [exact Hxy|apply H; exact Hz].
Qed.

Lemma kmerge_sorted : forall a b,
  StronglySorted key_le a -> StronglySorted key_le b -> StronglySorted key_le (kmerge a b).
Proof.
  induction a as [|x a IHa]; intros b Ha Hb; [exact Hb|].
  induction b as [|y b IHb]; [rewrite kmerge_nil_r; exact Ha|].
  rewrite kmerge_cons.
  inversion Ha as [|? ? Ha' Fa]; subst. inversion Hb as [|? ? Hb' Fb]; subst.
  destruct (key_leb x y) eqn:E.
  - constructor; [apply IHa; assumption|].
    apply (Permutation_Forall (Permutation_sym (kmerge_perm a (y :: b)))).
    apply Forall_app. split; [exact Fa|]. constructor; [exact E|].
    apply (forall_key_le_trans x y); [exact E|exact Fb].
  - assert (Hyx : key_le y x).
    { destruct (key_leb_total x y) as [H|H]; [congruence|exact H]. }
    constructor; [apply IHb; assumption|].
    apply (Permutation_Forall (Permutation_sym (kmerge_perm (x :: a) b))).
    apply Forall_app. split; [|exact Fb]. constructor; [exact Hyx|].
    apply (forall_key_le_trans y x); [exact Hyx|exact Fa].
Qed.

Lemma pair_ind : forall (A : Type) (P : list A -> Prop),
  P [] -> (forall a, P [a]) -> (forall a b r, P r -> P (a :: b :: r)) -> forall l, P l.
Proof.
  intros A P H0 H1 H2 l.
  assert (H : P l /\ forall a, P (a :: l)).
  { induction l as [|x l [IH1 IH2]]; [split; [exact H0|exact H1]|].
    split; [apply IH2|]. intros a. apply H2. exact IH1. }
  exact (proj1 H).
Qed.

Lemma merge_pairs_perm : forall ls, Permutation (concat (merge_pairs ls)) (concat ls).
Proof.
  intros ls. induction ls as [|a|a b r IH] using pair_ind; [reflexivity|reflexivity|].
  cbn [merge_pairs concat]. rewrite app_assoc. apply Permutation_app; [apply kmerge_perm|exact IH].
Qed.

Lemma merge_pairs_sorted : forall ls,
  Forall (StronglySorted key_le) ls -> Forall (StronglySorted key_le) (merge_pairs ls).
Proof.
  intros ls. induction ls as [|a|a b r IH] using pair_ind; intros H; [exact H|exact H|].
  inversion H as [|? ? Ha H']; subst. inversion H' as [|? ? Hb Hr]; subst.
  cbn [merge_pairs]. constructor; [apply kmerge_sorted; assumption|apply IH; exact Hr].
Qed.

Lemma merge_pairs_length : forall ls,
  (length (merge_pairs ls) <= length ls)%nat /\
  ((2 <= length ls)%nat -> (length (merge_pairs ls) < length ls)%nat).
Proof.
  intros ls. induction ls as [|a|a b r [IH1 IH2]] using pair_ind; cbn [merge_pairs length].
  - split; lia.
  - split; lia.
  - split; lia.
Qed.

Lemma msort_loop_spec : forall fuel ls,
  (length ls <= fuel)%nat -> Forall (StronglySorted key_le) ls ->
  StronglySorted key_le (msort_loop fuel ls) /\ Permutation (msort_loop fuel ls) (concat ls).
Proof.
  induction fuel as [|f IH]; intros ls Hlen Hs.
  - destruct ls as [|a ls]; [|cbn in Hlen; lia]. cbn. split; [constructor|reflexivity].
  - destruct ls as [|a [|b r]].
    + cbn. split; [constructor|reflexivity].
    + cbn. rewrite app_nil_r. inversion Hs; subst. split; [assumption|reflexivity].
    + cbn [msort_loop].
      destruct (merge_pairs_length (a :: b :: r)) as [_ Hlt].
      assert (Hl : (length (merge_pairs (a :: b :: r)) <= f)%nat).
      { cbn [length] in Hlen, Hlt |- *. lia. }
      destruct (IH _ Hl (merge_pairs_sorted _ Hs)) as [S P].
      split; [exact S|]. rewrite P. apply merge_pairs_perm.
Qed.

Lemma concat_singletons : forall (l : list (list N)), concat (map (fun k => [k]) l) = l.
Proof. induction l as [|x l IH]; [reflexivity|]. cbn. rewrite IH. reflexivity. Qed.

Theorem msort_keys_eq : forall l, msort_keys l = sort_keys l.
Proof.
  intros l. unfold msort_keys.
  destruct (msort_loop_spec (length l) (map (fun k => [k]) l)) as [S P].
  - rewrite map_length. lia.
  - rewrite Forall_forall. intros x Hx. apply in_map_iff in Hx. destruct Hx as (k & <- & _).
    constructor; constructor.
  - apply sort_keys_unique; [exact S|]. rewrite P, concat_singletons. reflexivity.
Qed.

Theorem expand_fast_eq : forall bucket p, expand_fast bucket p = expand bucket p.
Proof.
  intros bucket p. unfold expand_fast, expand.
  destruct (parse (glob_to_regex p)); [|reflexivity].
  destruct bucket; [|reflexivity]. rewrite msort_keys_eq. reflexivity.
Qed.

(* ================================================================================ *)
(* 4. readers over the multi-bucket store                                            *)
(* ================================================================================ *)
Section Readers.
  Variable R : Type.
  Variable ser : R -> list N.
  Variable de : list N -> option R.
  Variable enc : codec -> list N -> list N.
  Variable dec : codec -> list N -> option (list N).
  Hypothesis dec_enc : forall c b, dec c (enc c b) = Some b.

  Notation rec_ok := (record_ok R ser de).

  (* an object that holds what the writer stores for rs reads back as rs *)
  Lemma cloud_read_object : forall st key rs,
    Forall rec_ok rs -> get st key = Some (object_bytes ser enc key rs) ->
    cloud_read de dec st key = Ok rs.
  Proof.
    intros st key rs H Hg. unfold cloud_read. rewrite Hg.
    rewrite (reader_bytes_object R ser de enc dec dec_enc) by exact H.
    rewrite (split_lines_payload R ser de), (parse_lines_payload R ser de) by exact H. reflexivity.
  Qed.

  Theorem ms_roundtrip : forall ms b k rs,
    Forall rec_ok rs -> ms_read de dec (ms_write ser enc ms b k rs) b k = Ok rs.
  Proof.
    intros ms b k rs H. unfold ms_read, ms_write. apply cloud_read_object; [exact H|].
    apply ms_get_put_same.
  Qed.

  (* reads depend on the slot only *)
  Lemma ms_read_get : forall ms1 ms2 b k,
    ms_get ms1 b k = ms_get ms2 b k -> ms_read de dec ms1 b k = ms_read de dec ms2 b k.
  Proof. intros ms1 ms2 b k H. unfold ms_read, cloud_read. unfold ms_get in H. rewrite H. reflexivity. Qed.

  Theorem ms_write_frame : forall ms b k rs b2 k2, (b2, k2) <> (b, k) ->
    ms_read de dec (ms_write ser enc ms b k rs) b2 k2 = ms_read de dec ms b2 k2.
  Proof. intros. apply ms_read_get. apply ms_get_put_other. assumption. Qed.

  Theorem ms_delete_frame : forall ms b k b2 k2, (b2, k2) <> (b, k) ->
    ms_read de dec (ms_delete ms b k) b2 k2 = ms_read de dec ms b2 k2.
  Proof. intros. apply ms_read_get. apply ms_get_delete_other. assumption. Qed.

  Theorem ms_read_deleted : forall ms b k, ms_read de dec (ms_delete ms b k) b k = Err NotFound.
  Proof.
    intros ms b k. unfold ms_read, cloud_read.
    pose proof (ms_get_delete_same ms b k) as H. unfold ms_get in H. rewrite H. reflexivity.
  Qed.

  Theorem ms_read_missing : forall ms b k, ms_get ms b k = None -> ms_read de dec ms b k = Err NotFound.
  Proof. intros ms b k H. unfold ms_read, cloud_read. unfold ms_get in H. rewrite H. reflexivity. Qed.

  (* expansion: by the key set of the bucket *)
  Theorem ms_expand_spec : forall ms b p,
    ms_expand ms b p = match ms_keys ms b with
                       | Some ks => Ok (expand_ref ks p)
                       | None => Err NotFound
                       end.
  Proof.
    intros ms b p. unfold ms_expand. destruct (ms_keys ms b) as [ks|].
    - apply expand_is_ref.
    - exact (expand_outcome None p).
  Qed.

  (* a delete never removes the bucket: expansion stays Ok, without the deleted key *)
  Theorem ms_expand_after_delete : forall ms b k p ks,
    ms_keys ms b = Some ks ->
    ms_expand (ms_delete ms b k) b p =
      Ok (expand_ref (filter (fun k' => negb (list_eqb k k')) ks) p) /\
    (forall k', In k' (expand_ref (filter (fun k' => negb (list_eqb k k')) ks) p) <->
                k' <> k /\ In k' ks /\ glob_match p k' = true).
  Proof.
    intros ms b k p ks H. split.
    - rewrite ms_expand_spec, ms_keys_delete_same, H. reflexivity.
    - intros k'. rewrite (proj1 (proj2 (expand_ref_spec _ p))). rewrite filter_In. split.
      + intros [[H1 H2] H3]. apply negb_true_iff in H2. apply list_eqb_neq in H2.
        split; [intros E; apply H2; symmetry; exact E|split; assumption].
      + intros (H1 & H2 & H3). split; [split; [exact H2|]|exact H3].
        apply negb_true_iff. apply list_eqb_neq. intros E. apply H1. symmetry. exact E.
  Qed.

  (* deleting from a bucket that does not exist does not create it *)
  Theorem ms_delete_no_bucket : forall ms b k p,
    ms_keys ms b = None -> ms_expand (ms_delete ms b k) b p = Err NotFound.
  Proof. intros ms b k p H. rewrite ms_expand_spec, ms_keys_delete_same, H. reflexivity. Qed.

  (* buckets are isolated: a write or delete in one bucket changes nothing in another *)
  Lemma ms_read_glob_cong : forall ms1 ms2 b p,
    ms_keys ms1 b = ms_keys ms2 b -> bucket_store ms1 b = bucket_store ms2 b ->
    ms_read_glob de dec ms1 b p = ms_read_glob de dec ms2 b p.
  Proof.
    intros ms1 ms2 b p Hk Hs. unfold ms_read_glob, ms_expand. rewrite Hk, Hs. reflexivity.
  Qed.

  Theorem ms_bucket_isolation : forall ms b k rs b2 k2 p, b2 <> b ->
    let w := ms_write ser enc ms b k rs in
    let d := ms_delete ms b k in
    ms_read de dec w b2 k2 = ms_read de dec ms b2 k2 /\
    ms_expand w b2 p = ms_expand ms b2 p /\
    ms_read_glob de dec w b2 p = ms_read_glob de dec ms b2 p /\
    ms_read de dec d b2 k2 = ms_read de dec ms b2 k2 /\
    ms_expand d b2 p = ms_expand ms b2 p /\
    ms_read_glob de dec d b2 p = ms_read_glob de dec ms b2 p.
  Proof.
    intros ms b k rs b2 k2 p Hne w d. subst w d.
    assert (Hs : (b2, k2) <> (b, k)) by (intros E; injection E as E1 E2; contradiction).
    repeat split.
    - apply ms_write_frame. exact Hs.
    - unfold ms_expand, ms_write. rewrite ms_keys_put_other by exact Hne. reflexivity.
    - apply ms_read_glob_cong; unfold ms_write;
        [apply ms_keys_put_other|apply bucket_store_put_other]; exact Hne.
    - apply ms_delete_frame. exact Hs.
    - unfold ms_expand. rewrite ms_keys_delete_other by exact Hne. reflexivity.
    - apply ms_read_glob_cong; [apply ms_keys_delete_other|apply bucket_store_delete_other]; exact Hne.
  Qed.

  (* ------------------------------------------------------------------------------ *)
  (* call sequences of writes and deletes                                             *)
  (* ------------------------------------------------------------------------------ *)
  Definition op_ok (o : op R) : Prop :=
    match o with
    | OWrite _ _ rs => Forall rec_ok rs
    | ODelete _ _ => True
    | _ => False
    end.

  Lemma slot_eqb_true : forall b k b' k', slot_eqb b k b' k' = true <-> (b, k) = (b', k').
  Proof.
    intros. unfold slot_eqb. rewrite andb_true_iff, !list_eqb_eq. split.
    - intros [-> ->]. reflexivity.
    - intros E. injection E as -> ->. split; reflexivity.
  Qed.
  Lemma slot_eqb_false : forall b k b' k', slot_eqb b k b' k' = false <-> (b, k) <> (b', k').
  Proof.
    intros. split.
    - intros H E. apply slot_eqb_true in E. congruence.
    - intros H. destruct (slot_eqb b k b' k') eqn:E; [apply slot_eqb_true in E; contradiction|reflexivity].
  Qed.

  (* the bytes a slot holds after the sequence *)
  Definition slot_bytes (k : list N) (ms0 : mstore) (b : list N) (acc : option (option (list R)))
    : option (list N) :=
    match acc with
    | Some (Some rs) => Some (object_bytes ser enc k rs)
    | Some None => None
    | None => ms_get ms0 b k
    end.

  Lemma session_get_gen : forall ops ms0 ms b k acc,
    Forall op_ok ops ->
    ms_get ms b k = slot_bytes k ms0 b acc ->
    ms_get (run_ops ser enc ms ops) b k = slot_bytes k ms0 b (last_on ops b k acc).
  Proof.
    induction ops as [|o ops IH]; intros ms0 ms b k acc Hok Hinv; [exact Hinv|].
    inversion Hok as [|? ? Ho Hops]; subst.
    unfold run_ops. cbn [fold_left]. fold (run_ops ser enc (step ser enc ms o) ops).
    destruct o as [b' k' rs|b' k' v|b' k'|sb sk db dk]; cbn [op_ok] in Ho; try contradiction.
    - cbn [last_on step]. apply IH; [exact Hops|].
      destruct (slot_eqb b k b' k') eqn:E.
      + apply slot_eqb_true in E. injection E as -> ->. cbn [slot_bytes].
        unfold ms_write. apply ms_get_put_same.
      + apply slot_eqb_false in E. unfold ms_write. rewrite ms_get_put_other by exact E. exact Hinv.
    - cbn [last_on step]. apply IH; [exact Hops|].
      destruct (slot_eqb b k b' k') eqn:E.
      + apply slot_eqb_true in E. injection E as -> ->. cbn [slot_bytes].
        apply ms_get_delete_same.
      + apply slot_eqb_false in E. rewrite ms_get_delete_other by exact E. exact Hinv.
  Qed.

  Lemma last_on_recs_ok : forall ops b k acc,
    Forall op_ok ops ->
    (forall rs', acc = Some (Some rs') -> Forall rec_ok rs') ->
    forall rs', last_on ops b k acc = Some (Some rs') -> Forall rec_ok rs'.
  Proof.
    induction ops as [|o ops IH]; intros b k acc Hok Hacc rs' E; [apply Hacc; exact E|].
    inversion Hok as [|? ? Ho Hops]; subst.
    destruct o as [b' k' rs|b' k' v|b' k'|sb sk db dk]; cbn [op_ok] in Ho; try contradiction;
      cbn [last_on] in E; apply (IH _ _ _ Hops) in E; try exact E.
    - intros r0 E0. destruct (slot_eqb b k b' k'); [injection E0 as <-; exact Ho|apply Hacc; exact E0].
    - intros r0 E0. destruct (slot_eqb b k b' k'); [discriminate|apply Hacc; exact E0].
  Qed.

  (* after any sequence of writes and deletes, a slot reads as its LAST call says *)
  Theorem session_read : forall ops ms b k,
    Forall op_ok ops ->
    ms_read de dec (run_ops ser enc ms ops) b k =
      match last_on ops b k None with
      | Some (Some rs) => Ok rs
      | Some None => Err NotFound
      | None => ms_read de dec ms b k
      end.
  Proof.
    intros ops ms b k Hok.
    pose proof (session_get_gen ops ms ms b k None Hok eq_refl) as H.
    destruct (last_on ops b k None) as [[rs|]|] eqn:E; cbn [slot_bytes] in H.
    - unfold ms_read. apply cloud_read_object; [|exact H].
      apply (last_on_recs_ok ops b k None Hok); [intros rs' E'; discriminate|exact E].
    - apply ms_read_missing. exact H.
    - apply ms_read_get. exact H.
  Qed.

  (* which buckets exist after the sequence: those that existed or were written to *)
  Lemma session_bucket_exists : forall ops ms b,
    Forall op_ok ops ->
    (ms_keys (run_ops ser enc ms ops) b <> None <->
     ms_keys ms b <> None \/ existsb (writes_to b) ops = true).
  Proof.
    induction ops as [|o ops IH]; intros ms b Hok.
    - cbn. split; [intros H; left; exact H|intros [H|H]; [exact H|discriminate]].
    - inversion Hok as [|? ? Ho Hops]; subst.
      unfold run_ops. cbn [fold_left]. fold (run_ops ser enc (step ser enc ms o) ops).
      rewrite (IH _ b Hops). cbn [existsb].
      destruct o as [b' k' rs|b' k' v|b' k'|sb sk db dk]; cbn [op_ok] in Ho; try contradiction;
        cbn [step writes_to].
      + destruct (list_eqb b b') eqn:E.
        * apply list_eqb_eq in E. subst b'. unfold ms_write. rewrite ms_keys_put_same. cbn [orb].
          split; intros _; [right; reflexivity|left; discriminate].
        * apply list_eqb_neq in E. unfold ms_write. rewrite ms_keys_put_other by exact E.
          cbn [orb]. reflexivity.
      + cbn [orb]. destruct (list_eqb b b') eqn:E.
        * apply list_eqb_eq in E. subst b'. rewrite ms_keys_delete_same.
          destruct (ms_keys ms b) as [ks0|]; [|reflexivity].
          split; (intros [H|H]; [left; discriminate|right; exact H]).
        * apply list_eqb_neq in E. rewrite ms_keys_delete_other by exact E. reflexivity.
  Qed.

  (* every bucket keeps a duplicate-free key set *)
  Definition wf_ms (ms : mstore) : Prop := forall b, NoDup (map fst (bucket_store ms b)).

  Lemma wf_put : forall ms b k v, wf_ms ms -> wf_ms (ms_put ms b k v).
  Proof.
    intros ms b k v H b2. destruct (list_eqb b2 b) eqn:E.
    - apply list_eqb_eq in E. subst b2. rewrite bucket_store_put_same. apply nodup_keys_put. apply H.
    - apply list_eqb_neq in E. rewrite bucket_store_put_other by exact E. apply H.
  Qed.
  Lemma wf_delete : forall ms b k, wf_ms ms -> wf_ms (ms_delete ms b k).
  Proof.
    intros ms b k H b2. destruct (list_eqb b2 b) eqn:E.
    - apply list_eqb_eq in E. subst b2. rewrite bucket_store_delete_same. apply nodup_keys_remove. apply H.
    - apply list_eqb_neq in E. rewrite bucket_store_delete_other by exact E. apply H.
  Qed.
  Lemma wf_empty : wf_ms [].
  Proof. intros b. cbn. constructor. Qed.
  Lemma wf_run : forall ops ms, wf_ms ms -> wf_ms (run_ops ser enc ms ops).
  Proof.
    induction ops as [|o ops IH]; intros ms H; [exact H|].
    unfold run_ops. cbn [fold_left]. apply IH.
    destruct o as [b' k' rs|b' k' v|b' k'|sb sk db dk]; cbn [step].
    - apply wf_put. exact H.
    - apply wf_put. exact H.
    - apply wf_delete. exact H.
    - unfold ms_copy. destruct (ms_get ms sb sk); [apply wf_put|]; exact H.
  Qed.

  (* glob expansion after a sequence of writes and deletes on a fresh store: NotFound iff
     no write went to the bucket; otherwise the sorted list of exactly the matching keys whose
     last call was a write *)
  Theorem session_expand : forall ops b p,
    Forall op_ok ops ->
    let ms := run_ops ser enc [] ops in
    (existsb (writes_to b) ops = false -> ms_expand ms b p = Err NotFound) /\
    (existsb (writes_to b) ops = true ->
     exists ks, ms_expand ms b p = Ok (expand_ref ks p) /\ NoDup ks /\
       forall k, In k ks <-> exists rs, last_on ops b k None = Some (Some rs)).
  Proof.
    intros ops b p Hok ms. subst ms.
    pose proof (session_bucket_exists ops [] b Hok) as Hex.
    split; intros Hw.
    - rewrite ms_expand_spec. destruct (ms_keys (run_ops ser enc [] ops) b) eqn:E; [|reflexivity].
      exfalso. assert (Hn : Some l <> None) by discriminate. apply Hex in Hn.
      destruct Hn as [Hn|Hn]; [apply Hn; reflexivity|congruence].
    - destruct (ms_keys (run_ops ser enc [] ops) b) as [ks|] eqn:E.
      + exists ks. rewrite ms_expand_spec, E. split; [reflexivity|].
        pose proof (ms_keys_bucket_store _ _ _ E) as Eks. subst ks. split.
        * apply wf_run. apply wf_empty.
        * intros k. rewrite <- get_some_iff_in.
          pose proof (session_get_gen ops [] [] b k None Hok eq_refl) as G. unfold ms_get in G.
          rewrite G. destruct (last_on ops b k None) as [[rs|]|]; cbn [slot_bytes].
          -- split; [intros _; exists rs; reflexivity|intros _; discriminate].
          -- split; [intros H; contradiction|intros (rs & H); discriminate].
          -- cbn. split; [intros H; contradiction|intros (rs & H); discriminate].
      + exfalso. apply (proj2 Hex); [right; exact Hw|reflexivity].
  Qed.

  (* ... and reading by glob after such a sequence: the concatenation, in sorted key order, of
     the records LAST written under each matching live key *)
  Definition last_recs (ops : list (op R)) (b k : list N) : list R :=
    match last_on ops b k None with Some (Some rs) => rs | _ => [] end.

  Theorem session_read_glob : forall ops b p,
    Forall op_ok ops -> existsb (writes_to b) ops = true ->
    exists ks, ms_expand (run_ops ser enc [] ops) b p = Ok ks /\
      StronglySorted key_le ks /\
      (forall k, In k ks <-> glob_match p k = true /\ exists rs, last_on ops b k None = Some (Some rs)) /\
      ms_read_glob de dec (run_ops ser enc [] ops) b p = Ok (flat_map (last_recs ops b) ks).
  Proof.
    intros ops b p Hok Hw.
    destruct (session_expand ops b p Hok) as [_ H]. destruct (H Hw) as (ks0 & He & Hnd & Hin).
    exists (expand_ref ks0 p). split; [exact He|].
    destruct (expand_ref_spec ks0 p) as (Hs & Hm & _). split; [exact Hs|]. split.
    - intros k. rewrite Hm, Hin. tauto.
    - unfold ms_read_glob. rewrite He.
      apply (read_all_concat R de dec). intros k Hk.
      apply Hm in Hk. destruct Hk as [Hk _]. apply Hin in Hk. destruct Hk as (rs & Hl).
      pose proof (session_read ops [] b k Hok) as Hr. unfold ms_read in Hr.
      rewrite Hr. unfold last_recs. rewrite Hl. reflexivity.
  Qed.

  (* ------------------------------------------------------------------------------ *)
  (* copies                                                                           *)
  (* ------------------------------------------------------------------------------ *)
  (* each encoder's output starts with the codec's signature *)
  Hypothesis enc_magic : forall c x, magic_codec (enc c x) = Some c.

  (* an object written by write_cloud_jsonl_vec and copied under another key (any bucket) is
     still readable when the new key has the same codec suffix class, or none at all (the
     reader then falls back on the signature of the bytes) *)
  Theorem copy_readable : forall ms sb sk db dk rs,
    Forall rec_ok rs ->
    ms_get ms sb sk = Some (object_bytes ser enc sk rs) ->
    writer_codec dk = writer_codec sk \/ writer_codec dk = None ->
    exists ms', ms_copy ms sb sk db dk = Ok ms' /\ ms_read de dec ms' db dk = Ok rs /\
                (forall b2 k2, (b2, k2) <> (db, dk) -> ms_get ms' b2 k2 = ms_get ms b2 k2).
  Proof.
    intros ms sb sk db dk rs Hrs Hg Hc. unfold ms_copy. rewrite Hg.
    eexists. split; [reflexivity|]. split.
    - unfold ms_read, cloud_read.
      pose proof (ms_get_put_same ms db dk (object_bytes ser enc sk rs)) as Hp.
      unfold ms_get in Hp. rewrite Hp.
      assert (Hb : reader_bytes dec dk (object_bytes ser enc sk rs) = Some (jsonl_payload ser rs)).
      { unfold reader_bytes, object_bytes. rewrite <- codec_agree.
        destruct Hc as [Hc|Hc]; rewrite Hc.
        - destruct (writer_codec sk) as [c|]; [apply dec_enc|].
          rewrite (payload_no_magic R ser de) by exact Hrs. reflexivity.
        - destruct (writer_codec sk) as [c|].
          + rewrite enc_magic. apply dec_enc.
          + rewrite (payload_no_magic R ser de) by exact Hrs. reflexivity. }
      rewrite Hb.
      rewrite (split_lines_payload R ser de), (parse_lines_payload R ser de) by exact Hrs. reflexivity.
    - intros b2 k2 Hne. apply ms_get_put_other. exact Hne.
  Qed.

  Theorem copy_missing : forall ms sb sk db dk,
    ms_get ms sb sk = None -> ms_copy ms sb sk db dk = Err NotFound.
  Proof. intros ms sb sk db dk H. unfold ms_copy. rewrite H. reflexivity. Qed.
End Readers.

(* ================================================================================ *)
(* 5. loose JSONL text: CRLF line ends, blank lines, padding, missing final line feed *)
(* ================================================================================ *)
Definition no_lf (l : list N) : bool := forallb (fun c => negb (c =? 10)) l.

Lemma no_lf_app : forall a b, no_lf (a ++ b) = no_lf a && no_lf b.
Proof. intros. unfold no_lf. apply forallb_app. Qed.

Lemma pads_no_lf : forall l, forallb is_pad l = true -> no_lf l = true.
Proof.
  intros l H. unfold no_lf. rewrite forallb_forall in *. intros x Hx. specialize (H x Hx).
  unfold is_pad in H. apply negb_true_iff. apply N.eqb_neq. intros ->. discriminate.
Qed.

Lemma pads_ws : forall l, forallb is_pad l = true -> forallb is_ws l = true.
Proof.
  intros l H. rewrite forallb_forall in *. intros x Hx. specialize (H x Hx).
  unfold is_pad in H. unfold is_ws.
  repeat rewrite orb_true_iff in H. repeat rewrite N.eqb_eq in H.
  destruct H as [[->| ->]| ->]; reflexivity.
Qed.

Lemma is_blank_ws_app : forall w rest, forallb is_ws w = true -> is_blank (w ++ rest) = is_blank rest.
Proof.
  induction w as [|c w IH]; intros rest H; [reflexivity|].
  cbn [forallb] in H. apply andb_true_iff in H as [Hc Hw].
  cbn [app is_blank]. rewrite Hc. apply IH. exact Hw.
Qed.

Lemma is_blank_ws : forall w, forallb is_ws w = true -> is_blank w = true.
Proof. intros w H. rewrite <- (app_nil_r w). rewrite is_blank_ws_app by exact H. reflexivity. Qed.

(* the line BufRead::lines returns for the bytes l before a line feed: one trailing CR dropped *)
Definition chomp (l : list N) : list N := strip_cr (rev l).

Lemma split_lines_chomp : forall l rest, no_lf l = true ->
  split_lines [] (l ++ 10 :: rest) = chomp l :: split_lines [] rest.
Proof.
  intros l rest H. rewrite split_lines_line by exact H. rewrite app_nil_r. reflexivity.
Qed.

Lemma chomp_snoc_cr : forall l, chomp (l ++ [13]) = l.
Proof. intros l. unfold chomp, strip_cr. rewrite rev_app_distr. cbn. apply rev_involutive. Qed.

Lemma chomp_snoc_other : forall l c, (c =? 13) = false -> chomp (l ++ [c]) = l ++ [c].
Proof.
  intros l c H. unfold chomp, strip_cr. rewrite rev_app_distr. cbn [rev app]. rewrite H.
  change (c :: rev l) with (rev [c] ++ rev l). rewrite <- rev_app_distr. apply rev_involutive.
Qed.

Lemma chomp_nil : chomp [] = [].
Proof. reflexivity. Qed.

(* dropping a trailing CR keeps a white-space line white *)
Lemma chomp_ws : forall w, forallb is_ws w = true -> forallb is_ws (chomp w) = true.
Proof.
  intros w H. destruct w as [|a w'] using rev_ind; [reflexivity|].
  destruct (a =? 13) eqn:E.
  - apply N.eqb_eq in E. subst a. rewrite chomp_snoc_cr.
    rewrite forallb_app in H. apply andb_true_iff in H. tauto.
  - rewrite chomp_snoc_other by exact E. exact H.
Qed.

(* x ends with a byte that is not CR; then chomp (x ++ post) = x ++ post' for some padding *)
Lemma chomp_padded : forall x c post,
  (c =? 13) = false -> forallb is_pad post = true ->
  exists post', forallb is_pad post' = true /\ chomp ((x ++ [c]) ++ post) = (x ++ [c]) ++ post'.
Proof.
  intros x c post Hc Hp. destruct post as [|a post'] using rev_ind.
  - exists []. split; [reflexivity|]. rewrite !app_nil_r. apply chomp_snoc_other. exact Hc.
  - rewrite forallb_app in Hp. apply andb_true_iff in Hp as [Hp' Ha].
    rewrite app_assoc. destruct (a =? 13) eqn:E.
    + apply N.eqb_eq in E. subst a. exists post'. split; [exact Hp'|apply chomp_snoc_cr].
    + exists (post' ++ [a]). split; [rewrite forallb_app, Hp', Ha; reflexivity|].
      rewrite chomp_snoc_other by exact E. rewrite <- app_assoc. reflexivity.
Qed.

Section Loose.
  Variable R : Type.
  Variable ser : R -> list N.
  Variable de : list N -> option R.

  (* serde_json::from_str skips JSON white space around the document *)
  Hypothesis de_pad : forall pre post l,
    forallb is_pad pre = true -> forallb is_pad post = true -> de (pre ++ l ++ post) = de l.

  Notation rec_ok := (record_ok R ser de).

  Definition item_ok (i : item R) : Prop :=
    match i with
    | IRec pre r post _ => forallb is_pad pre = true /\ forallb is_pad post = true /\ rec_ok r
    | IBlank ws _ => forallb is_ws ws = true /\ no_lf ws = true
    end.

  (* a serialised record as  x ++ [c]  with c not CR, no LF inside *)
  Lemma ser_split : forall r, rec_ok r ->
    exists x c, ser r = x ++ [c] /\ (c =? 13) = false /\ no_lf (ser r) = true /\
                exists b rest, ser r = b :: rest /\ json_start b = true.
  Proof.
    intros r [Hl _]. destruct (line_ok_parts _ Hl) as (b & rest & E & Hb & Hn).
    assert (Hne : ser r <> []) by (rewrite E; discriminate).
    destruct (exists_last Hne) as (x & c & Ex). exists x, c. split; [exact Ex|].
    split.
    - unfold no_lf_cr in Hn. rewrite forallb_forall in Hn.
      assert (Hin : In c (ser r)) by (rewrite Ex; apply in_or_app; right; left; reflexivity).
      specialize (Hn c Hin). apply andb_true_iff in Hn as [_ Hn]. apply negb_true_iff in Hn. exact Hn.
    - split; [apply no_lf_cr_no_lf; exact Hn|]. exists b, rest. split; [exact E|exact Hb].
  Qed.

  (* the line of a padded record parses to the record and is not blank *)
  Lemma padded_line : forall pre r post,
    forallb is_pad pre = true -> forallb is_pad post = true -> rec_ok r ->
    is_blank (pre ++ ser r ++ post) = false /\ de (pre ++ ser r ++ post) = Some r.
  Proof.
    intros pre r post Hpre Hpost Hr. split.
    - rewrite is_blank_ws_app by (apply pads_ws; exact Hpre).
      destruct (ser_split r Hr) as (_ & _ & _ & _ & _ & b & rest & E & Hb).
      rewrite E. cbn [app]. apply json_start_not_blank. exact Hb.
    - rewrite de_pad by assumption. exact (proj2 Hr).
  Qed.

  Lemma item_line : forall i rest,
    item_ok i ->
    exists line, split_lines [] (item_bytes ser i ++ rest) = line :: split_lines [] rest /\
      match i with
      | IRec _ r _ _ => is_blank line = false /\ de line = Some r
      | IBlank _ _ => is_blank line = true
      end.
  Proof.
    intros [pre r post crlf|ws crlf] rest H; cbn [item_ok] in H.
    - destruct H as (Hpre & Hpost & Hr).
      destruct (ser_split r Hr) as (x & c & Ex & Hc & Hnl & _).
      cbn [item_bytes].
      assert (Hnl' : no_lf (pre ++ ser r ++ post) = true).
      { rewrite !no_lf_app, Hnl, (pads_no_lf _ Hpre), (pads_no_lf _ Hpost). reflexivity. }
      destruct crlf; cbn [eol_bytes].
      + exists (pre ++ ser r ++ post). split; [|apply padded_line; assumption].
        replace ((pre ++ ser r ++ post ++ [13; 10]) ++ rest)
          with (((pre ++ ser r ++ post) ++ [13]) ++ 10 :: rest)
          by (repeat rewrite <- app_assoc; reflexivity).
        rewrite split_lines_chomp by (rewrite no_lf_app, Hnl'; reflexivity).
        rewrite chomp_snoc_cr. reflexivity.
      + destruct (chomp_padded (pre ++ x) c post Hc Hpost) as (post' & Hp' & Ech).
        exists (pre ++ ser r ++ post'). split; [|apply padded_line; assumption].
        replace ((pre ++ ser r ++ post ++ [10]) ++ rest)
          with ((pre ++ ser r ++ post) ++ 10 :: rest)
          by (repeat rewrite <- app_assoc; reflexivity).
        rewrite split_lines_chomp by exact Hnl'.
        f_equal. rewrite Ex.
        replace (pre ++ (x ++ [c]) ++ post) with (((pre ++ x) ++ [c]) ++ post)
          by (repeat rewrite <- app_assoc; reflexivity).
        rewrite Ech. repeat rewrite <- app_assoc. reflexivity.
    - destruct H as (Hws & Hnl). cbn [item_bytes].
      destruct crlf; cbn [eol_bytes].
      + exists ws. split; [|apply is_blank_ws; exact Hws].
        replace ((ws ++ [13; 10]) ++ rest) with ((ws ++ [13]) ++ 10 :: rest)
          by (repeat rewrite <- app_assoc; reflexivity).
        rewrite split_lines_chomp by (rewrite no_lf_app, Hnl; reflexivity).
        rewrite chomp_snoc_cr. reflexivity.
      + exists (chomp ws). split; [|apply is_blank_ws; apply chomp_ws; exact Hws].
        replace ((ws ++ [10]) ++ rest) with (ws ++ 10 :: rest)
          by (repeat rewrite <- app_assoc; reflexivity).
        apply split_lines_chomp. exact Hnl.
  Qed.

  (* a last line without line feed is returned as it is *)
  Lemma split_lines_last : forall l cur, no_lf l = true -> l <> [] ->
    split_lines cur l = [rev cur ++ l].
  Proof.
    induction l as [|c l IH]; intros cur Hn Hne; [contradiction|].
    cbn [no_lf forallb] in Hn. apply andb_true_iff in Hn as [Hc Hl]. apply negb_true_iff in Hc.
    cbn [split_lines]. rewrite Hc. destruct l as [|d l'].
    - cbn. reflexivity.
    - rewrite IH; [|exact Hl|discriminate]. cbn [rev]. rewrite <- app_assoc. reflexivity.
  Qed.

  Theorem loose_parse : forall items last,
    Forall item_ok items ->
    match last with Some r => rec_ok r | None => True end ->
    parse_lines de (split_lines [] (loose_text ser items last)) = Some (loose_recs items last).
  Proof.
    intros items last Hitems Hlast. unfold loose_text, loose_recs.
    induction items as [|i items IH].
    - cbn [flat_map app]. destruct last as [r|]; [|reflexivity].
      destruct (ser_split r Hlast) as (_ & _ & _ & _ & Hnl & b & rest & E & Hb).
      rewrite split_lines_last; [|exact Hnl|rewrite E; discriminate].
      cbn [rev app parse_lines]. rewrite E at 1. rewrite json_start_not_blank by exact Hb.
      rewrite (proj2 Hlast). reflexivity.
    - inversion Hitems as [|? ? Hi Hrest]; subst. specialize (IH Hrest).
      cbn [flat_map]. rewrite <- app_assoc.
      destruct (item_line i (flat_map (item_bytes ser) items ++ match last with Some r => ser r | None => [] end) Hi)
        as (line & El & Hline).
      rewrite El. cbn [parse_lines]. rewrite IH.
      destruct i as [pre r post crlf|ws crlf]; cbn [item_recs].
      + destruct Hline as [Hb Hd]. rewrite Hb, Hd. reflexivity.
      + rewrite Hline. reflexivity.
  Qed.

  (* ... hence read_cloud_jsonl_vec returns the records of a loose text stored under a key
     without codec suffix *)
  Variable dec : codec -> list N -> option (list N).

  Theorem loose_read : forall st key items last,
    Forall item_ok items ->
    match last with Some r => rec_ok r | None => True end ->
    reader_ext_codec key = None ->
    magic_codec (loose_text ser items last) = None ->
    get st key = Some (loose_text ser items last) ->
    cloud_read de dec st key = Ok (loose_recs items last).
  Proof.
    intros st key items last Hi Hl Hk Hm Hg. unfold cloud_read, reader_bytes.
    rewrite Hg, Hk, Hm, (loose_parse items last Hi Hl). reflexivity.
  Qed.
End Loose.

(* ================================================================================ *)
(* 6. white-space-only lines: the UTF-8 encodings of the Unicode White_Space characters *)
(* ================================================================================ *)
Definition ws_utf8 : list (list N) :=
  [[9]; [10]; [11]; [12]; [13]; [32]; [194; 133]; [194; 160]; [225; 154; 128];
   [226; 128; 128]; [226; 128; 129]; [226; 128; 130]; [226; 128; 131]; [226; 128; 132];
   [226; 128; 133]; [226; 128; 134]; [226; 128; 135]; [226; 128; 136]; [226; 128; 137];
   [226; 128; 138]; [226; 128; 168]; [226; 128; 169]; [226; 128; 175]; [226; 129; 159];
   [227; 128; 128]].

Lemma ws_chunk_blank : forall c rest, In c ws_utf8 -> is_blank (c ++ rest) = is_blank rest.
Proof.
  intros c rest H. unfold ws_utf8 in H.
  repeat (destruct H as [<-|H]; [reflexivity|]). destruct H.
Qed.

Theorem blank_of_ws_chunks : forall chunks,
  Forall (fun c => In c ws_utf8) chunks -> is_blank (concat chunks) = true.
Proof.
  induction chunks as [|c chunks IH]; intros H; [reflexivity|].
  inversion H as [|? ? Hc Hr]; subst. cbn [concat]. rewrite ws_chunk_blank by exact Hc.
  apply IH. exact Hr.
Qed.

(* a line with any other first byte below 128 is not blank *)
Theorem not_blank_ascii : forall b rest, b < 128 -> is_ws b = false -> is_blank (b :: rest) = false.
Proof.
  intros b rest Hb Hw. cbn [is_blank]. rewrite Hw.
  assert (H1 : (b =? 194) = false) by (apply N.eqb_neq; lia).
  assert (H2 : (b =? 225) = false) by (apply N.eqb_neq; lia).
  assert (H3 : (b =? 226) = false) by (apply N.eqb_neq; lia).
  assert (H4 : (b =? 227) = false) by (apply N.eqb_neq; lia).
  rewrite H1, H2, H3, H4. reflexivity.
Qed.

(* ================================================================================ *)
(* 7. the suffix test of the codec choice is a suffix test                            *)
(* ================================================================================ *)
Lemma starts_with_spec : forall pre s, starts_with pre s = true <-> exists t, s = pre ++ t.
Proof.
  induction pre as [|a pre IH]; intros s; cbn.
  - split; [intros _; exists s; reflexivity|reflexivity].
  - destruct s as [|b s]; [split; [discriminate|intros (t & E); discriminate]|].
    rewrite andb_true_iff, N.eqb_eq, IH. split.
    + intros [-> (t & ->)]. exists t. reflexivity.
    + intros (t & E). injection E as -> ->. split; [reflexivity|exists t; reflexivity].
Qed.

Theorem ends_with_spec : forall s suf, ends_with s suf = true <-> exists pre, s = pre ++ suf.
Proof.
  intros s suf. unfold ends_with. rewrite rev_append_rev, app_nil_r, starts_with_spec. split.
  - intros (t & E). exists (rev t). apply (f_equal (@rev N)) in E.
    rewrite rev_involutive, rev_app_distr, rev_involutive in E. exact E.
  - intros (pre & ->). exists (rev pre). apply rev_app_distr.
Qed.

(* hence: a key gets the codec of the first suffix class (in registry order) that one of whose
   extensions ends its lower-cased form, and none if no extension does *)
Theorem writer_codec_spec : forall key,
  let lk := map lower key in
  let has := fun exts => exists e pre, In e exts /\ lk = pre ++ e in
  match writer_codec key with
  | Some Gzip => has [ext_gz; ext_gzip]
  | Some Zstd => ~ has [ext_gz; ext_gzip] /\ has [ext_zst; ext_zstd]
  | Some Bzip2 => ~ has [ext_gz; ext_gzip] /\ ~ has [ext_zst; ext_zstd] /\ has [ext_bz2; ext_bzip2]
  | Some Xz => ~ has [ext_gz; ext_gzip] /\ ~ has [ext_zst; ext_zstd] /\ ~ has [ext_bz2; ext_bzip2] /\
               has [ext_xz]
  | None => ~ has [ext_gz; ext_gzip] /\ ~ has [ext_zst; ext_zstd] /\ ~ has [ext_bz2; ext_bzip2] /\
            ~ has [ext_xz]
  end.
Proof.
  intros key lk has.
  assert (H : forall exts, existsb (ends_with lk) exts = true <-> has exts).
  { intros exts. rewrite existsb_exists. subst has. cbn beta. split.
    - intros (e & Hin & He). apply ends_with_spec in He. destruct He as (pre & E).
      exists e, pre. split; assumption.
    - intros (e & pre & Hin & E). exists e. split; [exact Hin|]. apply ends_with_spec.
      exists pre. exact E. }
  assert (Hn : forall exts, existsb (ends_with lk) exts = false -> ~ has exts).
  { intros exts E Hh. apply H in Hh. congruence. }
  unfold writer_codec. fold lk.
  destruct (existsb (ends_with lk) [ext_gz; ext_gzip]) eqn:E1; [apply H; exact E1|].
  destruct (existsb (ends_with lk) [ext_zst; ext_zstd]) eqn:E2;
    [split; [apply Hn; exact E1|apply H; exact E2]|].
  destruct (existsb (ends_with lk) [ext_bz2; ext_bzip2]) eqn:E3;
    [split; [apply Hn; exact E1|split; [apply Hn; exact E2|apply H; exact E3]]|].
  destruct (existsb (ends_with lk) [ext_xz]) eqn:E4.
  - split; [apply Hn; exact E1|split; [apply Hn; exact E2|split; [apply Hn; exact E3|apply H; exact E4]]].
  - split; [apply Hn; exact E1|split; [apply Hn; exact E2|split; [apply Hn; exact E3|apply Hn; exact E4]]].
Qed.

(* ================================================================================ *)
(* 8. the order in which the store lists the objects is irrelevant                    *)
(* ================================================================================ *)
Lemma filter_permutation : forall (A : Type) (f : A -> bool) l1 l2,
  Permutation l1 l2 -> Permutation (filter f l1) (filter f l2).
Proof.
  intros A f l1 l2 H. induction H as [|x l l' H IH|x y l|l l' l'' H1 IH1 H2 IH2].
  - constructor.
  - cbn. destruct (f x); [constructor|]; exact IH.
  - cbn. destruct (f x), (f y); try reflexivity. constructor.
  - etransitivity; eassumption.
Qed.

(* whatever permutation of the keys with the listing prefix the store hands over (the ObjectIO
   contract promises no order), filtering it by the compiled pattern and sorting gives the
   expansion of the whole bucket *)
Theorem listing_order_irrelevant : forall ks p listing r,
  parse (glob_to_regex p) = Some r ->
  Permutation listing (filter (prefix_ok (literal_prefix p)) ks) ->
  sort_keys (filter (rmatch r) listing) = expand_ref ks p.
Proof.
  intros ks p listing r Hr Hperm.
  pose proof (expand_is_ref ks p) as E. unfold expand in E. rewrite Hr in E. injection E as E.
  rewrite <- E. symmetry. apply sort_keys_unique; [apply sort_keys_strongly_sorted|].
  rewrite sort_keys_perm. apply filter_permutation. symmetry. exact Hperm.
Qed.

(* list_objects of the fake store is such a listing *)
Theorem ms_list_spec : forall ms b pre,
  ms_list ms b pre =
  match ms_keys ms b with
  | None => Err NotFound
  | Some ks => Ok (sort_keys (filter (prefix_ok pre) ks))
  end /\
  forall ks, ms_keys ms b = Some ks ->
    Permutation (sort_keys (filter (prefix_ok pre) ks)) (filter (prefix_ok pre) ks).
Proof.
  intros ms b pre. split; [reflexivity|]. intros ks _. apply sort_keys_perm.
Qed.
