(* C02: a source followed by element-wise operators computes the operators as written, in order,
   in both engines; the reorder pass changes a block exactly when it is all value-only and not
   already sorted. Used by Props/C02.v. *)
From Coq Require Import List ZArith Bool Arith Permutation Lia.
From Coq Require Export Sorted.
From IB Require Import Engine.Val Engine.Ops Engine.AMap Engine.Nodes Engine.Exec Engine.Planner
     Engine.Lang Engine.Denote Engine.Static Combiners.Lawful Proofs.EngineBase.
Import ListNotations.
Local Close Scope Z_scope.

(* ---------------- element-wise operator lists ---------------- *)

Lemma step_list_app : forall o a b, ew o -> step_list o (a ++ b) = step_list o a ++ step_list o b.
Proof.
  intros o a b [g Hg]. unfold step_list. rewrite !Hg. apply flat_map_app.
Qed.

Lemma step_list_nil : forall o, ew o -> step_list o [] = [].
Proof. intros o [g Hg]. unfold step_list. rewrite Hg. reflexivity. Qed.

Lemma sem_ops_cons : forall o r l, sem_ops (o :: r) l = sem_ops r (step_list o l).
Proof. reflexivity. Qed.

Lemma sem_ops_app_data : forall ops a b,
    Forall ew ops -> sem_ops ops (a ++ b) = sem_ops ops a ++ sem_ops ops b.
Proof.
  induction ops as [|o r IH]; intros a b H; [reflexivity|].
  inversion H as [|o' r' Ho Hr]; subst.
  rewrite !sem_ops_cons, step_list_app by exact Ho. apply IH. exact Hr.
Qed.

Lemma sem_ops_nil_data : forall ops, Forall ew ops -> sem_ops ops [] = [].
Proof.
  induction ops as [|o r IH]; intros H; [reflexivity|].
  inversion H as [|o' r' Ho Hr]; subst.
  rewrite sem_ops_cons, step_list_nil by exact Ho. apply IH. exact Hr.
Qed.

Lemma sem_ops_concat : forall ops ps,
    Forall ew ops -> concat (map (sem_ops ops) ps) = sem_ops ops (concat ps).
Proof.
  intros ops ps H. induction ps as [|p r IH]; cbn [map concat].
  - symmetry. apply sem_ops_nil_data. exact H.
  - rewrite IH, sem_ops_app_data by exact H. reflexivity.
Qed.

(* on a partition of the right type an element-wise block never fails and computes sem_ops *)
Lemma apply_ops_ew : forall ops t t' l,
    Forall ew ops -> tags_ok t ops = Some t' -> apply_ops ops (t, l) = Ok (t', sem_ops ops l).
Proof.
  induction ops as [|o r IH]; intros t t' l H Ht; cbn [tags_ok apply_ops] in *.
  - inversion Ht. reflexivity.
  - inversion H as [|o' r' Ho Hr]; subst.
    destruct (Nat.eqb t (op_in o)) eqn:E; [|discriminate].
    unfold apply_op. cbn [fst snd]. rewrite E.
    rewrite sem_ops_cons. unfold step_list.
    destruct Ho as [g Hg]. rewrite Hg. cbn [obind]. apply IH; assumption.
Qed.

Lemma oall_apply_ops_ew : forall ops t t' ps,
    Forall ew ops -> tags_ok t ops = Some t' ->
    oall (apply_ops ops) (map (fun l => (t, l)) ps) = Ok (map (fun l => (t', sem_ops ops l)) ps).
Proof.
  intros ops t t' ps H Ht. induction ps as [|p r IH]; cbn [map oall]; [reflexivity|].
  rewrite (apply_ops_ew ops t t' p H Ht), IH. reflexivity.
Qed.

Lemma check_tags_const : forall t (f : list val -> list val) ps,
    check_tags t (map (fun l => (t, f l)) ps) = true.
Proof.
  intros t f ps. unfold check_tags. induction ps as [|p r IH]; cbn [map forallb]; [reflexivity|].
  cbn [fst]. rewrite Nat.eqb_refl, IH. reflexivity.
Qed.

Lemma collect_parts_const : forall t (f : list val -> list val) ps,
    collect_parts t (map (fun l => (t, f l)) ps) = Ok (concat (map f ps)).
Proof.
  intros t f ps. unfold collect_parts. rewrite check_tags_const.
  rewrite map_map. cbn [snd]. reflexivity.
Qed.

(* ---------------- the fused chain of a source followed by single-operator nodes ---------------- *)

Lemma fuse_singletons : forall ops,
    fuse (map (fun o => NB (BStateless [o])) ops)
    = match ops with [] => [] | _ => [NB (BStateless ops)] end.
Proof.
  induction ops as [|o r IH]; [reflexivity|].
  cbn [map fuse]. rewrite IH. destruct r as [|o2 r2]; reflexivity.
Qed.

Lemma fuse_raw_chain : forall s ops,
    fuse (NB (BSource s) :: map (fun o => NB (BStateless [o])) ops)
    = NB (BSource s) :: match ops with [] => [] | _ => [NB (BStateless ops)] end.
Proof. intros s ops. cbn [fuse]. rewrite fuse_singletons. reflexivity. Qed.

Lemma chain_as_written : forall sh s ops term parts,
    coherent s -> Forall ew ops -> tags_ok (s_tag s) ops = Some term ->
    reorder_noop (fuse (NB (BSource s) :: map (fun o => NB (BStateless [o])) ops)) ->
    exec_seq sh term (optimise (NB (BSource s) :: map (fun o => NB (BStateless [o])) ops))
    = Ok (sem_ops ops (s_all s)) /\
    exec_par sh term (optimise (NB (BSource s) :: map (fun o => NB (BStateless [o])) ops)) parts
    = Ok (sem_ops ops (s_all s)).
Proof.
  intros sh s ops term parts Hco Hew Ht Hno.
  unfold optimise. unfold reorder_noop in Hno. rewrite Hno. rewrite fuse_raw_chain.
  assert (Hpar0 : collect_parts (s_tag s) (source_parts s parts) = Ok (s_all s)).
  { unfold source_parts.
    rewrite (collect_parts_const (s_tag s) (fun l => l)), map_id. rewrite Hco. reflexivity. }
  destruct ops as [|o r].
  - (* no operator at all *)
    cbn [tags_ok] in Ht. inversion Ht; subst term.
    cbn [lift drop_mid]. split.
    + unfold exec_seq. cbn [seq_main seq_bnode obind take fst snd]. rewrite Nat.eqb_refl.
      reflexivity.
    + unfold exec_par. cbn [par_main obind]. exact Hpar0.
  - set (ops := o :: r) in *.
    change (lift [NB (BSource s); NB (BStateless ops)]) with [NB (BSource s); NB (BStateless ops)].
    change (drop_mid [NB (BSource s); NB (BStateless ops)])
      with [NB (BSource s); NB (BStateless ops)].
    split.
    + unfold exec_seq. cbn [seq_main seq_bnode next_site obind take].
      rewrite (apply_ops_ew ops (s_tag s) term (s_all s) Hew Ht).
      cbn [obind take fst snd]. rewrite Nat.eqb_refl. reflexivity.
    + unfold exec_par. cbn [par_main par_bnode next_site]. unfold par_stateless, source_parts.
      rewrite (oall_apply_ops_ew ops (s_tag s) term _ Hew Ht). cbn [obind].
      rewrite (collect_parts_const term (sem_ops ops)).
      rewrite sem_ops_concat by exact Hew. rewrite Hco. reflexivity.
Qed.

(* ---------------- chunks ---------------- *)

Lemma chunks_fuel_concat : forall fuel n l,
    1 <= n -> length l <= fuel -> concat (chunks_fuel fuel n l) = l.
Proof.
  induction fuel as [|f IH]; intros n l Hn Hl.
  - destruct l as [|x r]; [reflexivity|]. cbn [length] in Hl. lia.
  - destruct l as [|x r]; [reflexivity|].
    cbn [chunks_fuel concat].
    rewrite IH.
    + apply firstn_skipn.
    + exact Hn.
    + rewrite skipn_length. cbn [length] in *. lia.
Qed.

Lemma chunks_concat : forall n l, 1 <= n -> concat (chunks n l) = l.
Proof. intros n l Hn. unfold chunks. apply chunks_fuel_concat; [exact Hn|lia]. Qed.

Lemma div_ceil_pos : forall a b, 1 <= a -> 1 <= b -> 1 <= div_ceil a b.
Proof.
  intros a b Ha Hb. unfold div_ceil.
  assert (H : b * 1 <= a + b - 1) by lia.
  apply (Nat.div_le_lower_bound (a + b - 1) b 1); lia.
Qed.

Lemma vec_source_coherent_local : forall t d, coherent (vec_source t d).
Proof.
  intros t d n. cbn [vec_source s_split s_all]. unfold vec_split.
  destruct ((n <=? 1) || (length d <=? 1)) eqn:E.
  - cbn [concat]. apply app_nil_r.
  - apply orb_false_iff in E. destruct E as [E1 E2].
    apply Nat.leb_gt in E1. apply Nat.leb_gt in E2.
    apply chunks_concat. apply div_ceil_pos; lia.
Qed.

Lemma nolen_source_coherent_local : forall t d, coherent (nolen_source t d).
Proof. intros t d n. exact (vec_source_coherent_local t d n). Qed.

Lemma sharded_source_coherent_local : forall t shards n, coherent (sharded_source t shards n).
Proof. intros t shards n k. reflexivity. Qed.

(* ---------------- the step language: element-wise programs ---------------- *)

(* the source record behind a program's source *)
Definition src_source (s : src) : source :=
  match s with
  | SrcVec t d => vec_source t d
  | SrcSharded t sh n => sharded_source t sh n
  | SrcNoLen t d => nolen_source t d
  end.

Lemma src_node_source : forall s, src_node s = NB (BSource (src_source s)).
Proof. intros s. destruct s; reflexivity. Qed.
Lemma src_source_tag : forall s, s_tag (src_source s) = src_tag s.
Proof. intros s. destruct s; reflexivity. Qed.
Lemma src_source_all : forall s, s_all (src_source s) = src_data s.
Proof. intros s. destruct s; reflexivity. Qed.
Lemma src_source_coherent : forall s, coherent (src_source s).
Proof.
  intros s. destruct s; [apply vec_source_coherent_local | apply sharded_source_coherent_local
                | apply nolen_source_coherent_local].
Qed.

(* the operator an element-wise step is compiled to, given the current tag and operator id
   (the last arm is never used) *)
Definition cop (t : tag) (uid : nat) (st : step) : dynop :=
  match st with
  | SMap f => op_map t TU (ef f) uid
  | SFilter p => op_filter t (pf p) uid
  | SFlatMap g => op_flat_map t (if Nat.eqb t TKG then TKV else t) (gf g) uid
  | SKeyBy f => op_map t TKV (fun x => VPair (ef f x) x) uid
  | SUnkey => op_map t TU (fun x => x) uid
  | SMapValues f => op_map_values TKV TKV (ef f) uid
  | SFilterValues p => op_filter_values TKV (pf p) uid
  | SMapValuesW f => op_map_values TKV TKW (ef f) uid
  | SFilterValuesW p => op_filter_values TKW (pf p) uid
  | SMapValuesBack f => op_map_values TKW TKV (ef f) uid
  | SMapBatches n b => op_batch_map t t n (bf b) uid
  | SMapValuesBatches n b => op_batch_map_values TKV TKV n (bf b) uid
  | SGroupValuesToList => op_map TKG TKV (fun x => x) uid
  | SMapWithSide side h => op_map t TU (sf h side) uid
  | SFilterWithSide side q => op_filter t (sp q side) uid
  | SMapWithSideMap pairs dflt => op_map t TU (side_lookup pairs dflt) uid
  | STryMap f p => op_map t TRES (fun x => if pf p x then VSome (ef f x) else VNone) uid
  | SDebug _ => op_map t t (fun x => x) uid
  | SCustomMap f => op_map t TU (ef f) uid
  | _ => op_map t t (fun x => x) uid
  end.

(* what one step does to the rows in the reference semantics *)
Definition dstep (st : step) (rows : list val) : list val := denote_steps 1 [st] rows.

Fixpoint cops (t : tag) (uid : nat) (steps : list step) : list dynop :=
  match steps with
  | [] => []
  | st :: r => cop t uid st :: cops (op_out (cop t uid st)) (S uid) r
  end.
Fixpoint cfinal (t : tag) (uid : nat) (steps : list step) : tag :=
  match steps with
  | [] => t
  | st :: r => cfinal (op_out (cop t uid st)) (S uid) r
  end.

Lemma compile_steps_nil : forall fuel s, compile_steps fuel [] s = s.
Proof. intros fuel s. destruct fuel; reflexivity. Qed.

Lemma compile_steps_ew_step : forall fuel st rest s,
    elementwise_step st = true ->
    compile_steps (S fuel) (st :: rest) s
    = compile_steps fuel rest
        {| cs_chain := cs_chain s ++ [NB (BStateless [cop (cs_tag s) (cs_uid s) st])];
           cs_tag := op_out (cop (cs_tag s) (cs_uid s) st);
           cs_uid := S (cs_uid s) |}.
Proof.
  intros fuel st rest s H.
  destruct st as [f|p|g|f| |f|p|f|p|f|n b|n b| |c|c|c lf fo| | |k| |k rs rd
                |side h|side q|pairs dflt|f p|k|f];
    try discriminate H; try reflexivity.
Qed.

Lemma compile_steps_ew : forall steps fuel s,
    length steps <= fuel -> forallb elementwise_step steps = true ->
    cs_chain (compile_steps fuel steps s)
    = cs_chain s ++ map (fun o => NB (BStateless [o])) (cops (cs_tag s) (cs_uid s) steps)
    /\ cs_tag (compile_steps fuel steps s) = cfinal (cs_tag s) (cs_uid s) steps.
Proof.
  induction steps as [|st rest IH]; intros fuel s Hf Hew.
  - rewrite compile_steps_nil. cbn [cops cfinal map]. rewrite app_nil_r. split; reflexivity.
  - cbn [forallb] in Hew. apply andb_true_iff in Hew. destruct Hew as [Hst Hrest].
    destruct fuel as [|fuel]; [cbn [length] in Hf; lia|].
    rewrite (compile_steps_ew_step fuel st rest s Hst).
    cbn [length] in Hf.
    destruct (IH fuel
                 {| cs_chain := cs_chain s ++ [NB (BStateless [cop (cs_tag s) (cs_uid s) st])];
                    cs_tag := op_out (cop (cs_tag s) (cs_uid s) st);
                    cs_uid := S (cs_uid s) |}) as [IH1 IH2]; [lia|exact Hrest|].
    cbn [cs_chain cs_tag cs_uid] in IH1, IH2.
    rewrite IH1, IH2. cbn [cops cfinal map]. rewrite <- app_assoc. split; reflexivity.
Qed.

(* types line up *)
Lemma cop_tags : forall t uid st t',
    elementwise_step st = true -> step_type t st = Some t' ->
    op_in (cop t uid st) = t /\ op_out (cop t uid st) = t'.
Proof.
  intros t uid st t' Hst Hty.
  destruct st as [f|p|g|f| |f|p|f|p|f|n b|n b| |c|c|c lf fo| | |k| |k rs rd
                |side h|side q|pairs dflt|f p|k|f];
    try discriminate Hst; cbn [step_type] in Hty;
    try (inversion Hty; subst; split; reflexivity);
    try (destruct (Nat.eqb t TKV) eqn:E; [|discriminate Hty];
         apply Nat.eqb_eq in E; inversion Hty; subst; split; reflexivity);
    try (destruct (Nat.eqb t TKW) eqn:E; [|discriminate Hty];
         apply Nat.eqb_eq in E; inversion Hty; subst; split; reflexivity);
    try (destruct (Nat.eqb t TKG) eqn:E; [|discriminate Hty];
         apply Nat.eqb_eq in E; inversion Hty; subst; split; reflexivity).
Qed.

Lemma cops_tags_ok : forall steps t uid,
    forallb elementwise_step steps = true -> well_typed t steps = true ->
    tags_ok t (cops t uid steps) = Some (cfinal t uid steps).
Proof.
  induction steps as [|st rest IH]; intros t uid Hew Hwt; [reflexivity|].
  cbn [forallb] in Hew. apply andb_true_iff in Hew. destruct Hew as [Hst Hrest].
  cbn [well_typed] in Hwt. destruct (step_type t st) as [t'|] eqn:Hty; [|discriminate Hwt].
  destruct (cop_tags t uid st t' Hst Hty) as [Hin Hout].
  cbn [cops cfinal tags_ok]. rewrite Hin, Nat.eqb_refl, Hout. apply IH; assumption.
Qed.

(* one step of the reference semantics *)
Lemma denote_steps_nil : forall fuel rows, denote_steps fuel [] rows = rows.
Proof. intros fuel rows. destruct fuel; reflexivity. Qed.

Lemma denote_steps_ew_step : forall fuel st rest rows,
    elementwise_step st = true ->
    denote_steps (S fuel) (st :: rest) rows = denote_steps fuel rest (dstep st rows).
Proof.
  intros fuel st rest rows H.
  destruct st as [f|p|g|f| |f|p|f|p|f|n b|n b| |c|c|c lf fo| | |k| |k rs rd
                |side h|side q|pairs dflt|f p|k|f];
    try discriminate H; reflexivity.
Qed.

(* length-preserving batch functions never trip the assert_eq! of BatchMapValuesOp *)
Lemma batch_values_chunks_ok : forall g cs,
    (forall l, length (g l) = length l) ->
    batch_values_chunks g cs = Some (concat (map (fun c => rekey c (g (map vsnd c))) cs)).
Proof.
  intros g cs Hg. induction cs as [|c r IH]; cbn [batch_values_chunks map concat]; [reflexivity|].
  rewrite Hg, map_length, Nat.eqb_refl, IH. reflexivity.
Qed.

Lemma rekey_each : forall (h : val -> val) c,
    rekey c (map h (map vsnd c)) = map (fun x => VPair (vfst x) (h (vsnd x))) c.
Proof.
  intros h c. unfold rekey. induction c as [|x r IH]; cbn [map combine]; [reflexivity|].
  cbn [fst snd]. rewrite IH. reflexivity.
Qed.

(* the compiled operator computes exactly the step of the reference semantics, and never fails *)
Lemma cop_fn : forall t uid st l,
    elementwise_step st = true -> op_fn (cop t uid st) l = Some (dstep st l).
Proof.
  intros t uid st l H.
  destruct st as [f|p|g|f| |f|p|f|p|f|n b|n b| |c|c|c lf fo| | |k| |k rs rd
                |side h|side q|pairs dflt|f p|k|f];
    try discriminate H.
  - (* SMap *) reflexivity.
  - (* SFilter *) reflexivity.
  - (* SFlatMap *) reflexivity.
  - (* SKeyBy *) reflexivity.
  - (* SUnkey *) cbn [cop op_map mk_op op_fn]. rewrite map_id. reflexivity.
  - (* SMapValues *) reflexivity.
  - (* SFilterValues *) reflexivity.
  - (* SMapValuesW *) reflexivity.
  - (* SFilterValuesW *) reflexivity.
  - (* SMapValuesBack *) reflexivity.
  - (* SMapBatches *) reflexivity.
  - (* SMapValuesBatches *)
    destruct b as [f| | | |]; try discriminate H.
    cbn [cop op_batch_map_values mk_op op_fn].
    rewrite batch_values_chunks_ok; [reflexivity|].
    intros l0. cbn [bf]. apply map_length.
  - (* SGroupValuesToList *) cbn [cop op_map mk_op op_fn]. rewrite map_id. reflexivity.
  - (* SMapWithSide *) reflexivity.
  - (* SFilterWithSide *) reflexivity.
  - (* SMapWithSideMap *) reflexivity.
  - (* STryMap *) reflexivity.
  - (* SDebug *) cbn [cop op_map mk_op op_fn]. rewrite map_id. reflexivity.
  - (* SCustomMap *) reflexivity.
Qed.

Lemma map_as_flat_map : forall (A B : Type) (f : A -> B) l, map f l = flat_map (fun x => [f x]) l.
Proof. intros A B f l. induction l as [|x r IH]; cbn [map flat_map app]; [|rewrite IH]; reflexivity. Qed.

Lemma filter_as_flat_map : forall (A : Type) (p : A -> bool) l,
    filter p l = flat_map (fun x => if p x then [x] else []) l.
Proof.
  intros A p l. induction l as [|x r IH]; cbn [filter flat_map]; [reflexivity|].
  rewrite IH. destruct (p x); reflexivity.
Qed.

Lemma concat_map_map_chunks : forall (h : val -> val) n l,
    1 <= n -> concat (map (map h) (chunks n l)) = map h l.
Proof.
  intros h n l Hn. rewrite <- concat_map, chunks_concat by exact Hn. reflexivity.
Qed.

Lemma concat_map_flat_map : forall (g : val -> list val) cs,
    concat (map (flat_map g) cs) = flat_map g (concat cs).
Proof.
  intros g cs. induction cs as [|c r IH]; cbn [map concat]; [reflexivity|].
  rewrite flat_map_app, IH. reflexivity.
Qed.

Lemma concat_map_flat_map_chunks : forall (g : val -> list val) n l,
    1 <= n -> concat (map (flat_map g) (chunks n l)) = flat_map g l.
Proof.
  intros g n l Hn. rewrite concat_map_flat_map, chunks_concat by exact Hn. reflexivity.
Qed.

(* every element-wise step is a flat_map in the reference semantics *)
Lemma dstep_ew : forall st,
    elementwise_step st = true -> exists g, forall l, dstep st l = flat_map g l.
Proof.
  intros st H.
  destruct st as [f|p|g|f| |f|p|f|p|f|n b|n b| |c|c|c lf fo| | |k| |k rs rd
                |side h|side q|pairs dflt|f p|k|f];
    try discriminate H; unfold dstep; cbn [denote_steps].
  - eexists. intros l. apply map_as_flat_map.
  - eexists. intros l. apply filter_as_flat_map.
  - eexists. intros l. reflexivity.
  - eexists. intros l. apply (map_as_flat_map _ _ (fun x => VPair (ef f x) x)).
  - exists (fun x => [x]). intros l. rewrite <- map_as_flat_map, map_id. reflexivity.
  - eexists. intros l. apply map_as_flat_map.
  - eexists. intros l. apply (filter_as_flat_map _ (fun kv => pf p (vsnd kv))).
  - eexists. intros l. apply map_as_flat_map.
  - eexists. intros l. apply (filter_as_flat_map _ (fun kv => pf p (vsnd kv))).
  - eexists. intros l. apply map_as_flat_map.
  - destruct b as [f| | | |]; try discriminate H.
    + exists (fun x => [ef f x]). intros l. unfold d_batch.
      change (bf (BEach f)) with (map (ef f)).
      rewrite concat_map_map_chunks by lia. apply map_as_flat_map.
    + (* BDup: every element twice *)
      exists (fun x => [x; x]). intros l. unfold d_batch.
      change (bf BDup) with (flat_map (fun x : val => [x; x])).
      rewrite concat_map_flat_map_chunks by lia. reflexivity.
  - destruct b as [f| | | |]; try discriminate H.
    exists (fun x => [VPair (vfst x) (ef f (vsnd x))]). intros l. unfold d_batch_values.
    change (bf (BEach f)) with (map (ef f)).
    rewrite (map_ext _ (map (fun x => VPair (vfst x) (ef f (vsnd x)))))
      by (intros c; apply rekey_each).
    rewrite concat_map_map_chunks by lia. apply map_as_flat_map.
  - exists (fun x => [x]). intros l. rewrite <- map_as_flat_map, map_id. reflexivity.
  - (* SMapWithSide *) eexists. intros l. apply map_as_flat_map.
  - (* SFilterWithSide *) eexists. intros l. apply filter_as_flat_map.
  - (* SMapWithSideMap *) eexists. intros l. apply map_as_flat_map.
  - (* STryMap *)
    eexists. intros l.
    apply (map_as_flat_map _ _ (fun x => if pf p x then VSome (ef f x) else VNone)).
  - (* SDebug *)
    exists (fun x => [x]). intros l. rewrite <- map_as_flat_map, map_id. reflexivity.
  - (* SCustomMap *) eexists. intros l. apply map_as_flat_map.
Qed.

Lemma cop_ew : forall t uid st, elementwise_step st = true -> ew (cop t uid st).
Proof.
  intros t uid st H. destruct (dstep_ew st H) as [g Hg].
  exists g. intros l. rewrite (cop_fn t uid st l H), Hg. reflexivity.
Qed.

Lemma cops_ew : forall steps t uid,
    forallb elementwise_step steps = true -> Forall ew (cops t uid steps).
Proof.
  induction steps as [|st rest IH]; intros t uid Hew; cbn [cops]; [constructor|].
  cbn [forallb] in Hew. apply andb_true_iff in Hew. destruct Hew as [Hst Hrest].
  constructor; [apply cop_ew; exact Hst | apply IH; exact Hrest].
Qed.

Lemma denote_steps_sem_ops : forall steps fuel t uid rows,
    length steps <= fuel -> forallb elementwise_step steps = true ->
    denote_steps fuel steps rows = sem_ops (cops t uid steps) rows.
Proof.
  induction steps as [|st rest IH]; intros fuel t uid rows Hf Hew.
  - rewrite denote_steps_nil. reflexivity.
  - cbn [forallb] in Hew. apply andb_true_iff in Hew. destruct Hew as [Hst Hrest].
    destruct fuel as [|fuel]; [cbn [length] in Hf; lia|].
    rewrite (denote_steps_ew_step fuel st rest rows Hst).
    cbn [cops]. rewrite sem_ops_cons. unfold step_list at 1.
    rewrite (cop_fn t uid st rows Hst).
    cbn [length] in Hf. apply IH; [lia|exact Hrest].
Qed.

Lemma step_size_pos : forall st, 1 <= step_size st.
Proof. intros st. destruct st; cbn [step_size]; lia. Qed.

Lemma steps_size_length : forall steps, length steps + 1 <= steps_size steps.
Proof.
  intros steps. unfold steps_size.
  induction steps as [|st r IH]; cbn [fold_right length]; [lia|].
  pose proof (step_size_pos st). lia.
Qed.

Lemma program_as_written : forall s steps parts,
    forallb elementwise_step steps = true -> well_typed (src_tag s) steps = true ->
    reorder_noop (fuse (cs_chain (compile s steps))) ->
    run_seq s steps = Ok (denote s steps) /\ run_par s steps parts = Ok (denote s steps).
Proof.
  intros s steps parts Hew Hwt Hno.
  pose proof (steps_size_length steps) as Hsz.
  unfold run_seq, run_par, plan, term_tag, denote.
  unfold compile in *.
  destruct (compile_steps_ew steps (steps_size steps)
              {| cs_chain := [src_node s]; cs_tag := src_tag s; cs_uid := uid_base |})
    as [Hchain Htag]; [lia|exact Hew|].
  cbn [cs_chain cs_tag cs_uid] in Hchain, Htag.
  cbn [app] in Hchain.
  rewrite Hchain, src_node_source in Hno. rewrite Hchain, Htag, src_node_source.
  set (ops := cops (src_tag s) uid_base steps) in *.
  rewrite (denote_steps_sem_ops steps (steps_size steps) (src_tag s) uid_base (src_data s))
    by (try lia; exact Hew).
  fold ops. rewrite <- src_source_all.
  apply chain_as_written.
  - apply src_source_coherent.
  - apply cops_ew. exact Hew.
  - rewrite src_source_tag. apply cops_tags_ok; assumption.
  - exact Hno.
Qed.

(* ---------------- the reorder pass ---------------- *)

Lemma rinsert_above_all : forall x l,
    Forall (fun y => rkey_leb y x = true) l -> rinsert x l = l ++ [x].
Proof.
  intros x l H. induction H as [|y r Hy Hr IH]; cbn [rinsert app]; [reflexivity|].
  rewrite Hy, IH. reflexivity.
Qed.

Lemma StronglySorted_app_cross : forall (A : Type) (R : A -> A -> Prop) a x b,
    StronglySorted R (a ++ x :: b) -> Forall (fun y => R y x) a.
Proof.
  intros A R a x b. induction a as [|y a IH]; intros H; [constructor|].
  cbn [app] in H. inversion H as [|y' l' Hs Hall]; subst.
  constructor.
  - rewrite Forall_forall in Hall. apply Hall. apply in_or_app. right. left. reflexivity.
  - apply IH. exact Hs.
Qed.

Lemma rsort_fold_sorted : forall l acc,
    StronglySorted (fun a b => rkey_leb a b = true) (acc ++ l) ->
    fold_left (fun acc x => rinsert x acc) l acc = acc ++ l.
Proof.
  induction l as [|x r IH]; intros acc H; cbn [fold_left].
  - rewrite app_nil_r. reflexivity.
  - rewrite rinsert_above_all.
    + rewrite IH; rewrite <- app_assoc; [reflexivity|exact H].
    + exact (StronglySorted_app_cross _ _ acc x r H).
Qed.

Lemma rsort_sorted : forall ops,
    StronglySorted (fun a b => rkey_leb a b = true) ops -> rsort ops = ops.
Proof. intros ops H. unfold rsort. apply (rsort_fold_sorted ops [] H). Qed.

Lemma sorted_block_untouched : forall ops,
    StronglySorted (fun a b => rkey_leb a b = true) ops -> reorder_ops ops = ops.
Proof.
  intros ops H. unfold reorder_ops.
  destruct (all_value_only ops && (1 <? length ops)); [apply rsort_sorted; exact H|reflexivity].
Qed.

Lemma reorder_class : forall ops,
    reorder_ops ops <> ops ->
    all_value_only ops = true /\ (2 <= length ops)%nat /\
    ~ StronglySorted (fun a b => rkey_leb a b = true) ops.
Proof.
  intros ops H. unfold reorder_ops in H.
  destruct (all_value_only ops) eqn:Ev; cbn [andb] in H; [|contradiction H; reflexivity].
  destruct (1 <? length ops) eqn:El; [|contradiction H; reflexivity].
  apply Nat.ltb_lt in El.
  split; [reflexivity|]. split; [lia|].
  intros Hs. apply H. apply rsort_sorted. exact Hs.
Qed.

(* ---------------- the open known finding C02-reorder, on the model ---------------- *)

Lemma reorder_refuted_wrong_result :
  let s := SrcVec TKV [VPair (VInt 1) (VInt 1); VPair (VInt 1) (VInt 2);
                       VPair (VInt 1) (VInt 3); VPair (VInt 1) (VInt 4)] in
  let steps := [SMapValues (FAdd 1); SFilterValues (PModEq 2 0)] in
  run_seq s steps = Ok [VPair (VInt 1) (VInt 3); VPair (VInt 1) (VInt 5)] /\
  denote s steps = [VPair (VInt 1) (VInt 2); VPair (VInt 1) (VInt 4)].
Proof. vm_compute. split; reflexivity. Qed.

Lemma reorder_refuted_panic :
  let s := SrcVec TKV [VPair (VInt 1) (VInt 1)] in
  run_seq s [SMapValuesW (FAdd 1); SFilterValuesW PTrue] = Panic.
Proof. vm_compute. reflexivity. Qed.
