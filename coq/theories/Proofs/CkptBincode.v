(* Proofs about the bincode model (Ckpt/Bincode.v): exact decode-of-encode characterisation,
   totality (no abort under a limit the allocator can serve) and the allocation bound. *)
From Coq Require Import List ZArith Bool Lia.
From IB Require Import Ckpt.Bincode.
Import ListNotations.
Open Scope Z_scope.

(* ------------------------------------------------------------------ lists *)
Lemma firstn_app_len {A} (l r : list A) : firstn (length l) (l ++ r) = l.
Proof. induction l as [|x l IH]; cbn [length firstn app]; [destruct r; reflexivity | now rewrite IH]. Qed.
Lemma skipn_app_len {A} (l r : list A) : skipn (length l) (l ++ r) = r.
Proof. induction l as [|x l IH]; cbn [length skipn app]; auto. Qed.

(* ------------------------------------------------------------------ little endian *)
Lemma le_bytes_length k v : length (le_bytes k v) = k.
Proof. revert v; induction k as [|k IH]; intro v; cbn [le_bytes length]; auto. Qed.

Lemma le_roundtrip k : forall v, 0 <= v < 256 ^ Z.of_nat k -> le_value (le_bytes k v) = v.
Proof.
  induction k as [|k IH]; intros v Hv.
  - cbn in *. lia.
  - cbn [le_bytes le_value].
    rewrite Nat2Z.inj_succ, Z.pow_succ_r in Hv by lia.
    rewrite IH.
    + pose proof (Z.div_mod v 256 ltac:(lia)). lia.
    + split; [apply Z.div_pos; lia | apply Z.div_lt_upper_bound; lia].
Qed.

Lemma le_bytes_range k : forall v, Forall is_byte (le_bytes k v).
Proof.
  induction k as [|k IH]; intro v; cbn [le_bytes]; constructor; auto.
  unfold is_byte. pose proof (Z.mod_pos_bound v 256 ltac:(lia)). lia.
Qed.

Lemma le_value_range l : Forall is_byte l -> 0 <= le_value l < 256 ^ Z.of_nat (length l).
Proof.
  induction 1 as [|b l Hb Hl IH]; cbn [le_value length].
  - cbn. lia.
  - rewrite Nat2Z.inj_succ, Z.pow_succ_r by lia. unfold is_byte in Hb. lia.
Qed.

(* ------------------------------------------------------------------ primitives on encodings *)
Section Exact.
  Variable lim avail : Z.
  Notation limit := (Some lim).

  Definition over (c : Z) : bool := (c >? u64_max) || (c >? lim).

  Lemma take_app l rest c a n :
    n = Z.of_nat (length l) ->
    take n (mk_dstate (l ++ rest) c a) = (DOk l, mk_dstate rest c a).
  Proof.
    intros ->. unfold take; cbn [d_rest d_claimed d_allocs].
    rewrite app_length, Nat2Z.inj_add.
    destruct (Z.ltb_spec (Z.of_nat (length l) + Z.of_nat (length rest)) (Z.of_nat (length l))) as [H|H];
      [lia|].
    rewrite Nat2Z.id, firstn_app_len, skipn_app_len. reflexivity.
  Qed.

  Lemma varint_dec_enc v rest c a :
    0 <= v <= u64_max ->
    varint_dec (mk_dstate (varint_enc v ++ rest) c a) = (DOk v, mk_dstate rest c a).
  Proof.
    intros Hv. unfold varint_enc, u64_max in *.
    destruct (Z.leb_spec v 250) as [H1|H1].
    - unfold varint_dec, bind. rewrite (take_app [v]) by reflexivity. cbv beta iota; cbn [hd].
      destruct (Z.leb_spec v 250); [reflexivity | lia].
    - destruct (Z.leb_spec v 65535) as [H2|H2];
        [| destruct (Z.leb_spec v 4294967295) as [H3|H3]].
      + unfold varint_dec, bind. change (251 :: le_bytes 2 v) with ([251] ++ le_bytes 2 v).
        rewrite <- app_assoc, (take_app [251]) by reflexivity. cbv beta iota; cbn [hd].
        change (251 <=? 250) with false. change (251 =? 251) with true. cbv beta iota.
        rewrite take_app by (now rewrite le_bytes_length).
        cbv beta iota. unfold ret. rewrite le_roundtrip; [reflexivity | cbn; lia].
      + unfold varint_dec, bind. change (252 :: le_bytes 4 v) with ([252] ++ le_bytes 4 v).
        rewrite <- app_assoc, (take_app [252]) by reflexivity. cbv beta iota; cbn [hd].
        change (252 <=? 250) with false. change (252 =? 251) with false.
        change (252 =? 252) with true. cbv beta iota.
        rewrite take_app by (now rewrite le_bytes_length).
        cbv beta iota. unfold ret. rewrite le_roundtrip; [reflexivity | cbn; lia].
      + unfold varint_dec, bind. change (253 :: le_bytes 8 v) with ([253] ++ le_bytes 8 v).
        rewrite <- app_assoc, (take_app [253]) by reflexivity. cbv beta iota; cbn [hd].
        change (253 <=? 250) with false. change (253 =? 251) with false.
        change (253 =? 252) with false. change (253 =? 253) with true. cbv beta iota.
        rewrite take_app by (now rewrite le_bytes_length).
        cbv beta iota. unfold ret. rewrite le_roundtrip; [reflexivity | cbn; lia].
  Qed.

  Lemma dec_u64_enc v rest c a :
    0 <= v <= u64_max ->
    dec_u64 limit (mk_dstate (varint_enc v ++ rest) c a) =
    if over (c + 8) then (DErr ELimit, mk_dstate (varint_enc v ++ rest) c a)
    else (DOk v, mk_dstate rest (c + 8) a).
  Proof.
    intros Hv. unfold dec_u64, bind, claim, over; cbn [d_rest d_claimed d_allocs].
    destruct ((c + 8 >? u64_max) || (c + 8 >? lim)); [reflexivity|].
    now apply varint_dec_enc.
  Qed.

  Lemma dec_u8_enc b rest c a :
    dec_u8 limit (mk_dstate (b :: rest) c a) =
    if over (c + 1) then (DErr ELimit, mk_dstate (b :: rest) c a)
    else (DOk b, mk_dstate rest (c + 1) a).
  Proof.
    unfold dec_u8, bind, claim, over; cbn [d_rest d_claimed d_allocs].
    destruct ((c + 1 >? u64_max) || (c + 1 >? lim)); [reflexivity|].
    change (b :: rest) with ([b] ++ rest). rewrite take_app by reflexivity. reflexivity.
  Qed.

  Lemma dec_string_enc s rest c a :
    Z.of_nat (length s) <= u64_max ->
    let n := Z.of_nat (length s) in
    dec_string limit avail (mk_dstate (enc_string s ++ rest) c a) =
    if over (c + 8) then (DErr ELimit, mk_dstate (enc_string s ++ rest) c a)
    else if over (c + 8 + n) then (DErr ELimit, mk_dstate (s ++ rest) (c + 8) a)
    else if zsum a + n >? avail then (DAbort, mk_dstate (s ++ rest) (c + 8 + n) a)
    else if utf8_valid s then (DOk s, mk_dstate rest (c + 8 + n) (n :: a))
    else (DErr EUtf8, mk_dstate rest (c + 8 + n) (n :: a)).
  Proof.
    intros Hlen n. unfold dec_string, dec_vec_u8, enc_string.
    unfold bind at 1 2. rewrite <- app_assoc, dec_u64_enc by lia.
    destruct (over (c + 8)); [reflexivity|].
    unfold bind at 1. unfold claim at 1; cbn [d_rest d_claimed d_allocs]. fold n. fold (over (c + 8 + n)).
    destruct (over (c + 8 + n)); [reflexivity|].
    unfold bind at 1. unfold alloc at 1; cbn [d_rest d_claimed d_allocs].
    destruct (zsum a + n >? avail); [reflexivity|].
    rewrite take_app by reflexivity.
    destruct (utf8_valid s); reflexivity.
  Qed.
End Exact.

(* ------------------------------------------------------------------ well-formed values *)
Definition wf_str (s : bytes) : Prop := utf8_valid s = true /\ Z.of_nat (length s) <= u64_max.

(* a value of the Rust type CheckpointState *)
Definition wf_value (s : cstate) : Prop :=
  wf_str (pipeline_id s) /\ is_u64 (completed_node_index s) /\ is_u64 (timestamp s)
  /\ is_u64 (partition_count s) /\ wf_str (checksum s) /\ wf_str (exec_mode s)
  /\ is_u64 (total_nodes (metadata s)) /\ wf_str (last_node_type (metadata s))
  /\ is_byte (progress_percent (metadata s)).

Lemma wf_value_state s : wf_value s -> wf_state s.
Proof. unfold wf_value, wf_state, wf_str. tauto. Qed.

Lemma wf_state_value s : wf_state s -> claim_total s <= u64_max -> wf_value s.
Proof.
  unfold wf_value, wf_state, wf_str, claim_total, is_u64, is_byte, u64_max. intros H Hc.
  intuition lia.
Qed.

(* ------------------------------------------------------------------ decode (encode s ++ junk), exactly *)
Lemma over_false lim c : 0 <= lim <= u64_max -> c <= lim -> over lim c = false.
Proof.
  intros Hl Hc. unfold over.
  destruct (Z.gtb_spec c u64_max); destruct (Z.gtb_spec c lim); try reflexivity; lia.
Qed.
Lemma over_true lim c : over lim c = true -> 0 <= lim <= u64_max -> lim < c.
Proof.
  unfold over. intros H Hl.
  destruct (Z.gtb_spec c u64_max); destruct (Z.gtb_spec c lim); try discriminate; lia.
Qed.

Theorem decode_encode_exact :
  forall lim avail s junk,
    0 <= lim <= u64_max -> lim <= avail -> wf_value s ->
    decode (Some lim) avail (encode s ++ junk) =
    if claim_total s <=? lim then DOk s else DErr ELimit.
Proof.
  intros lim avail [pid cni ts pc cks em [tn lnt pp]] junk Hlim Hav Hwf.
  unfold wf_value, wf_str, is_u64, is_byte in Hwf; cbn [pipeline_id completed_node_index timestamp
    partition_count checksum exec_mode metadata total_nodes last_node_type progress_percent] in Hwf.
  destruct Hwf as ((Hu1 & Hl1) & Hcni & Hts & Hpc & (Hu2 & Hl2) & (Hu3 & Hl3) & Htn & (Hu4 & Hl4) & Hpp).
  unfold claim_total; cbn [pipeline_id completed_node_index timestamp
    partition_count checksum exec_mode metadata total_nodes last_node_type progress_percent].
  set (n1 := Z.of_nat (length pid)) in *. set (n2 := Z.of_nat (length cks)) in *.
  set (n3 := Z.of_nat (length em)) in *. set (n4 := Z.of_nat (length lnt)) in *.
  assert (Hn : 0 <= n1 /\ 0 <= n2 /\ 0 <= n3 /\ 0 <= n4) by (subst n1 n2 n3 n4; lia).
  unfold decode, decode_run, encode, enc_meta, dec_state, dec_meta;
    cbn [pipeline_id completed_node_index timestamp
    partition_count checksum exec_mode metadata total_nodes last_node_type progress_percent].
  repeat rewrite <- app_assoc.
  (* a failing claim: the result is ELimit and the total is above the limit *)
  Ltac fail_branch H Hlim :=
    apply over_true in H; [|exact Hlim]; cbn [fst];
    match goal with |- _ = (if ?t <=? ?l then _ else _) =>
      destruct (Z.leb_spec t l); [lia | reflexivity] end.
  unfold bind at 1. rewrite dec_string_enc by exact Hl1. fold n1. cbn [zsum fold_right].
  destruct (over lim (0 + 8)) eqn:O1; [fail_branch O1 Hlim|].
  destruct (over lim (0 + 8 + n1)) eqn:O2; [fail_branch O2 Hlim|].
  pose proof (fun c => over_false lim c Hlim) as OF.
  assert (B2 : 0 + 8 + n1 <= lim).
  { unfold over in O2. destruct (Z.gtb_spec (0 + 8 + n1) lim); [|lia].
    rewrite orb_true_r in O2. discriminate. }
  destruct (Z.gtb_spec (0 + n1) avail) as [Ha|Ha]; [lia|]. rewrite Hu1.
  unfold bind at 1. rewrite dec_u64_enc by exact Hcni.
  destruct (over lim (0 + 8 + n1 + 8)) eqn:O3; [fail_branch O3 Hlim|].
  unfold bind at 1. rewrite dec_u64_enc by exact Hts.
  destruct (over lim (0 + 8 + n1 + 8 + 8)) eqn:O4; [fail_branch O4 Hlim|].
  unfold bind at 1. rewrite dec_u64_enc by exact Hpc.
  destruct (over lim (0 + 8 + n1 + 8 + 8 + 8)) eqn:O5; [fail_branch O5 Hlim|].
  unfold bind at 1. rewrite dec_string_enc by exact Hl2. fold n2. cbn [zsum fold_right].
  destruct (over lim (0 + 8 + n1 + 8 + 8 + 8 + 8)) eqn:O6; [fail_branch O6 Hlim|].
  destruct (over lim (0 + 8 + n1 + 8 + 8 + 8 + 8 + n2)) eqn:O7; [fail_branch O7 Hlim|].
  assert (B7 : 0 + 8 + n1 + 8 + 8 + 8 + 8 + n2 <= lim).
  { unfold over in O7. destruct (Z.gtb_spec (0 + 8 + n1 + 8 + 8 + 8 + 8 + n2) lim); [|lia].
    rewrite orb_true_r in O7. discriminate. }
  destruct (Z.gtb_spec (n1 + 0 + n2) avail) as [Hb|Hb]; [lia|]. rewrite Hu2.
  unfold bind at 1. rewrite dec_string_enc by exact Hl3. fold n3. cbn [zsum fold_right].
  destruct (over lim (0 + 8 + n1 + 8 + 8 + 8 + 8 + n2 + 8)) eqn:O8; [fail_branch O8 Hlim|].
  destruct (over lim (0 + 8 + n1 + 8 + 8 + 8 + 8 + n2 + 8 + n3)) eqn:O9; [fail_branch O9 Hlim|].
  assert (B9 : 0 + 8 + n1 + 8 + 8 + 8 + 8 + n2 + 8 + n3 <= lim).
  { unfold over in O9. destruct (Z.gtb_spec (0 + 8 + n1 + 8 + 8 + 8 + 8 + n2 + 8 + n3) lim); [|lia].
    rewrite orb_true_r in O9. discriminate. }
  destruct (Z.gtb_spec (n2 + (n1 + 0) + n3) avail) as [Hc|Hc]; [lia|]. rewrite Hu3.
  unfold bind at 1 2. rewrite dec_u64_enc by exact Htn.
  destruct (over lim (0 + 8 + n1 + 8 + 8 + 8 + 8 + n2 + 8 + n3 + 8)) eqn:O10; [fail_branch O10 Hlim|].
  unfold bind at 1. rewrite dec_string_enc by exact Hl4. fold n4. cbn [zsum fold_right].
  destruct (over lim (0 + 8 + n1 + 8 + 8 + 8 + 8 + n2 + 8 + n3 + 8 + 8)) eqn:O11; [fail_branch O11 Hlim|].
  destruct (over lim (0 + 8 + n1 + 8 + 8 + 8 + 8 + n2 + 8 + n3 + 8 + 8 + n4)) eqn:O12;
    [fail_branch O12 Hlim|].
  assert (B12 : 0 + 8 + n1 + 8 + 8 + 8 + 8 + n2 + 8 + n3 + 8 + 8 + n4 <= lim).
  { unfold over in O12.
    destruct (Z.gtb_spec (0 + 8 + n1 + 8 + 8 + 8 + 8 + n2 + 8 + n3 + 8 + 8 + n4) lim); [|lia].
    rewrite orb_true_r in O12. discriminate. }
  destruct (Z.gtb_spec (n3 + (n2 + (n1 + 0)) + n4) avail) as [Hd|Hd]; [lia|]. rewrite Hu4.
  unfold bind at 1. cbn [app]. rewrite dec_u8_enc.
  destruct (over lim (0 + 8 + n1 + 8 + 8 + 8 + 8 + n2 + 8 + n3 + 8 + 8 + n4 + 1)) eqn:O13;
    [fail_branch O13 Hlim|].
  assert (B13 : 0 + 8 + n1 + 8 + 8 + 8 + 8 + n2 + 8 + n3 + 8 + 8 + n4 + 1 <= lim).
  { unfold over in O13.
    destruct (Z.gtb_spec (0 + 8 + n1 + 8 + 8 + 8 + 8 + n2 + 8 + n3 + 8 + 8 + n4 + 1) lim); [|lia].
    rewrite orb_true_r in O13. discriminate. }
  unfold ret; cbn [fst].
  match goal with |- _ = (if ?t <=? ?l then _ else _) =>
    destruct (Z.leb_spec t l); [reflexivity | lia] end.
Qed.

(* ------------------------------------------------------------------ totality and allocation bound *)
(* Invariant of the decoder state under a limit `lim` that the allocator can serve:
   everything allocated so far was claimed first, and the claims never exceed the limit.
   G = "the input consists of bytes" (instantiated by True or False): under G the remaining input
   stays bytes, allocation requests are non-negative and decoded numbers are in range. *)
Section Safe.
  Variable lim avail : Z.
  Variable G : Prop.
  Hypothesis Hlim : lim <= avail.
  Notation limit := (Some lim).

  Definition I (st : dstate) : Prop :=
    zsum (d_allocs st) <= d_claimed st <= lim
    /\ (G -> Forall is_byte (d_rest st) /\ Forall (fun n => 0 <= n) (d_allocs st)).

  Definition okm {A} (R : A -> Prop) (m : M A) : Prop :=
    forall st, I st ->
      match m st with
      | (DOk a, st') => I st' /\ R a
      | (DErr _, st') => I st'
      | (DAbort, _) => False
      end.

  Lemma okm_ret {A} (R : A -> Prop) a : R a -> okm R (ret a).
  Proof. intros HR st HI. cbn. auto. Qed.

  Lemma okm_err {A} (R : A -> Prop) e : okm R (fun st => (@DErr A e, st)).
  Proof. intros st HI. exact HI. Qed.

  Lemma okm_bind {A B} (R : A -> Prop) (R' : B -> Prop) (m : M A) (f : A -> M B) :
    okm R m -> (forall a, R a -> okm R' (f a)) -> okm R' (bind m f).
  Proof.
    intros Hm Hf st HI. unfold bind. specialize (Hm st HI).
    destruct (m st) as [[a|e|] st']; [|exact Hm|exact Hm].
    destruct Hm as [HI' HR]. exact (Hf a HR st' HI').
  Qed.

  Lemma okm_weaken {A} (R R' : A -> Prop) (m : M A) :
    (forall a, R a -> R' a) -> okm R m -> okm R' m.
  Proof.
    intros HRR Hm st HI. specialize (Hm st HI).
    destruct (m st) as [[a|e|] st']; auto. destruct Hm; auto.
  Qed.

  Lemma okm_claim n : 0 <= n -> okm (fun _ => True) (claim limit n).
  Proof.
    intros Hn st [Hs Hg]. unfold claim.
    destruct ((d_claimed st + n >? u64_max) || (d_claimed st + n >? lim)) eqn:E.
    - split; assumption.
    - apply orb_false_iff in E. destruct E as [_ E].
      destruct (Z.gtb_spec (d_claimed st + n) lim); [discriminate|].
      split; [|exact Logic.I]. split; cbn [d_rest d_claimed d_allocs]; [lia | exact Hg].
  Qed.

  Lemma Forall_firstn {A} (P : A -> Prop) k l : Forall P l -> Forall P (firstn k l).
  Proof. revert l; induction k as [|k IH]; intros [|x l] H; cbn; auto. inversion H; auto. Qed.
  Lemma Forall_skipn {A} (P : A -> Prop) k l : Forall P l -> Forall P (skipn k l).
  Proof. revert l; induction k as [|k IH]; intros [|x l] H; cbn; auto. inversion H; auto. Qed.

  Lemma okm_take n :
    okm (fun l => (G -> Forall is_byte l) /\ (0 <= n -> Z.of_nat (length l) = n)) (take n).
  Proof.
    intros st [Hs Hg]. unfold take.
    destruct (Z.ltb_spec (Z.of_nat (length (d_rest st))) n) as [H|H].
    - split; assumption.
    - split; [split; cbn [d_rest d_claimed d_allocs]; [exact Hs|]|split].
      + intro g. destruct (Hg g). split; [now apply Forall_skipn | assumption].
      + intro g. apply Forall_firstn. now destruct (Hg g).
      + intro Hn. rewrite firstn_length, Nat.min_l by lia. lia.
  Qed.

  Lemma okm_varint : okm (fun v => G -> is_u64 v) varint_dec.
  Proof.
    unfold varint_dec. eapply okm_bind; [apply (okm_take 1)|].
    intros d [Hd Hl]. cbv beta.
    assert (Hb : G -> is_byte (hd 0 d)).
    { intro g. specialize (Hd g). destruct d as [|b d]; cbn [hd].
      - unfold is_byte; lia.
      - now inversion Hd. }
    assert (Hle : forall k, (0 < k <= 8)%nat ->
              okm (fun v => G -> is_u64 v)
                  (bind (take (Z.of_nat k)) (fun l => ret (le_value l)))).
    { intros k Hk. eapply okm_bind; [apply okm_take|].
      intros l [Hl1 Hl2]. apply okm_ret. intro g.
      pose proof (le_value_range l (Hl1 g)) as Hr.
      assert (length l = k) by lia. subst k.
      unfold is_u64, u64_max.
      assert (256 ^ Z.of_nat (length l) <= 256 ^ 8) by (apply Z.pow_le_mono_r; lia).
      change (256 ^ 8) with 18446744073709551616 in *. lia. }
    destruct (Z.leb_spec (hd 0 d) 250).
    - apply okm_ret. intro g. specialize (Hb g). unfold is_byte, is_u64, u64_max in *. lia.
    - destruct (hd 0 d =? 251); [exact (Hle 2%nat ltac:(lia))|].
      destruct (hd 0 d =? 252); [exact (Hle 4%nat ltac:(lia))|].
      destruct (hd 0 d =? 253); [exact (Hle 8%nat ltac:(lia))|].
      apply okm_err.
  Qed.

  Lemma okm_u64 : okm (fun v => G -> is_u64 v) (dec_u64 limit).
  Proof.
    unfold dec_u64. eapply okm_bind; [apply okm_claim; lia|]. intros _ _. apply okm_varint.
  Qed.

  Lemma okm_u8 : okm (fun v => G -> is_byte v) (dec_u8 limit).
  Proof.
    unfold dec_u8. eapply okm_bind; [apply okm_claim; lia|]. intros _ _.
    eapply okm_bind; [apply (okm_take 1)|]. intros d [Hd Hl]. apply okm_ret.
    intro g. specialize (Hd g). destruct d as [|b d]; cbn [hd].
    - unfold is_byte; lia.
    - now inversion Hd.
  Qed.

  (* claim len; vec![0; len]; read len -- as one step (the claim precedes the allocation) *)
  Lemma okm_claim_alloc_take len :
    (G -> 0 <= len) ->
    okm (fun _ : bytes => True)
        (bind (claim limit len) (fun _ => bind (alloc avail len) (fun _ => take len))).
  Proof.
    intros Hlen st [Hs Hg]. unfold bind, claim.
    destruct ((d_claimed st + len >? u64_max) || (d_claimed st + len >? lim)) eqn:E.
    - split; assumption.
    - apply orb_false_iff in E. destruct E as [_ E].
      destruct (Z.gtb_spec (d_claimed st + len) lim) as [|Hc]; [discriminate|].
      unfold alloc; cbn [d_rest d_claimed d_allocs].
      destruct (Z.gtb_spec (zsum (d_allocs st) + len) avail) as [Ha|Ha]; [lia|].
      assert (HI' : I (mk_dstate (d_rest st) (d_claimed st + len) (len :: d_allocs st))).
      { split; cbn [d_rest d_claimed d_allocs zsum fold_right].
        - fold (zsum (d_allocs st)). lia.
        - intro g. destruct (Hg g). split; [assumption|]. constructor; auto. }
      pose proof (okm_take len _ HI') as Ht.
      destruct (take len _) as [[l|e|] st']; [|exact Ht|exact Ht].
      destruct Ht; auto.
  Qed.

  Lemma okm_vec : okm (fun _ : bytes => True) (dec_vec_u8 limit avail).
  Proof.
    unfold dec_vec_u8. eapply okm_bind; [apply okm_u64|].
    intros len Hl. apply okm_claim_alloc_take. intro g. destruct (Hl g). assumption.
  Qed.

  Lemma okm_string : okm (fun _ : bytes => True) (dec_string limit avail).
  Proof.
    unfold dec_string. eapply okm_bind; [apply okm_vec|]. intros b _.
    destruct (utf8_valid b); [now apply okm_ret | apply okm_err].
  Qed.

  Definition nums_ok (s : cstate) : Prop :=
    is_u64 (completed_node_index s) /\ is_u64 (timestamp s) /\ is_u64 (partition_count s)
    /\ is_u64 (total_nodes (metadata s)) /\ is_byte (progress_percent (metadata s)).

  Lemma okm_meta :
    okm (fun m => G -> is_u64 (total_nodes m) /\ is_byte (progress_percent m)) (dec_meta limit avail).
  Proof.
    unfold dec_meta. eapply okm_bind; [apply okm_u64|]. intros tn Htn.
    eapply okm_bind; [apply okm_string|]. intros lnt _.
    eapply okm_bind; [apply okm_u8|]. intros pp Hpp.
    apply okm_ret. cbn. auto.
  Qed.

  Lemma okm_state : okm (fun s => G -> nums_ok s) (dec_state limit avail).
  Proof.
    unfold dec_state. eapply okm_bind; [apply okm_string|]. intros pid _.
    eapply okm_bind; [apply okm_u64|]. intros cni Hcni.
    eapply okm_bind; [apply okm_u64|]. intros ts Hts.
    eapply okm_bind; [apply okm_u64|]. intros pc Hpc.
    eapply okm_bind; [apply okm_string|]. intros cks _.
    eapply okm_bind; [apply okm_string|]. intros em _.
    eapply okm_bind; [apply okm_meta|]. intros md Hmd.
    apply okm_ret. intro g. unfold nums_ok; cbn.
    specialize (Hmd g). specialize (Hcni g). specialize (Hts g). specialize (Hpc g). tauto.
  Qed.
End Safe.

Lemma init_I lim (G : Prop) b : 0 <= lim -> (G -> Forall is_byte b) -> I lim G (mk_dstate b 0 []).
Proof.
  intros Hl Hb. split; cbn [d_rest d_claimed d_allocs zsum fold_right]; [lia|].
  intro g. split; [auto | constructor].
Qed.

(* load never aborts: for every input whatsoever *)
Theorem decode_no_abort :
  forall lim avail b, 0 <= lim <= avail -> decode (Some lim) avail b <> DAbort.
Proof.
  intros lim avail b Hl. unfold decode, decode_run.
  pose proof (okm_state lim avail False ltac:(lia) _ (init_I lim False b ltac:(lia) ltac:(tauto))) as H.
  destruct (dec_state _ _ _) as [[s|e|] st']; cbn [fst]; [discriminate|discriminate|exact (False_ind _ H)].
Qed.

(* the sum of all allocation requests is bounded by the limit, for every input whatsoever *)
Theorem decode_alloc_sum :
  forall lim avail b, 0 <= lim <= avail -> zsum (decode_allocs (Some lim) avail b) <= lim.
Proof.
  intros lim avail b Hl. unfold decode_allocs, decode_run.
  pose proof (okm_state lim avail False ltac:(lia) _ (init_I lim False b ltac:(lia) ltac:(tauto))) as H.
  destruct (dec_state _ _ _) as [[s|e|] st']; cbn [snd].
  - destruct H as [[H _] _]. lia.
  - destruct H as [H _]. lia.
  - contradiction.
Qed.

Lemma nonneg_sum_each l L :
  Forall (fun n => 0 <= n) l -> zsum l <= L -> Forall (fun n => 0 <= n <= L) l.
Proof.
  induction 1 as [|x l Hx Hl IH]; intro Hs; constructor; cbn [zsum fold_right] in Hs;
    fold (zsum l) in Hs.
  - assert (0 <= zsum l) by (clear -Hl; induction Hl; cbn [zsum fold_right]; [lia|fold (zsum l); lia]).
    lia.
  - apply IH. lia.
Qed.

(* each single request lies in 0..lim when the input consists of bytes *)
Theorem decode_alloc_each :
  forall lim avail b, 0 <= lim <= avail -> Forall is_byte b ->
    Forall (fun n => 0 <= n <= lim) (decode_allocs (Some lim) avail b).
Proof.
  intros lim avail b Hl Hb. unfold decode_allocs, decode_run.
  pose proof (okm_state lim avail True ltac:(lia) _ (init_I lim True b ltac:(lia) (fun _ => Hb))) as H.
  destruct (dec_state _ _ _) as [[s|e|] st']; cbn [snd].
  - destruct H as [[H Hg] _]. destruct (Hg Logic.I). apply nonneg_sum_each; [assumption|lia].
  - destruct H as [H Hg]. destruct (Hg Logic.I). apply nonneg_sum_each; [assumption|lia].
  - contradiction.
Qed.

(* decoded numbers are in the range of their Rust types *)
Theorem decode_range :
  forall lim avail b s, 0 <= lim <= avail -> Forall is_byte b ->
    decode (Some lim) avail b = DOk s -> nums_ok s.
Proof.
  intros lim avail b s Hl Hb. unfold decode, decode_run.
  pose proof (okm_state lim avail True ltac:(lia) _ (init_I lim True b ltac:(lia) (fun _ => Hb))) as H.
  destruct (dec_state _ _ _) as [[s'|e|] st']; cbn [fst]; intro E; inversion E; subst.
  destruct H as [_ H]. exact (H Logic.I).
Qed.

(* without a limit the model does abort: the witness of the repaired defect (length prefix 2^63) *)
Example decode_unlimited_aborts :
  decode None 9223372036854775807 [253; 0; 0; 0; 0; 0; 0; 0; 128] = DAbort.
Proof. vm_compute. reflexivity. Qed.
