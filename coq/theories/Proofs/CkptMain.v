(* The C12 statements in the exact form quoted by Props/C12.v, assembled from CkptBincode,
   CkptStore and CkptRetention. *)
From Coq Require Import List ZArith Bool Lia Permutation.
From IB Require Import Ckpt.Bincode Ckpt.Store Proofs.CkptBincode Proofs.CkptStore Proofs.CkptRetention.
Import ListNotations.
Open Scope Z_scope.

Lemma limit_facts avail : ckpt_limit <= avail -> 0 <= ckpt_limit <= avail /\ 0 <= ckpt_limit <= u64_max.
Proof. unfold ckpt_limit, u64_max. lia. Qed.

Lemma main_decode_exact avail s junk :
  ckpt_limit <= avail -> wf_value s ->
  decode (Some ckpt_limit) avail (encode s ++ junk)
  = if claim_total s <=? ckpt_limit then DOk s else DErr ELimit.
Proof. intros Ha Hw. apply decode_encode_exact; [apply (limit_facts avail Ha) | exact Ha | exact Hw]. Qed.

Lemma main_roundtrip_decode avail s junk :
  ckpt_limit <= avail -> wf_state s -> claim_total s <= ckpt_limit ->
  decode (Some ckpt_limit) avail (encode s ++ junk) = DOk s.
Proof.
  intros Ha Hw Hs. rewrite main_decode_exact; [| exact Ha |].
  - destruct (Z.leb_spec (claim_total s) ckpt_limit); [reflexivity | lia].
  - apply wf_state_value; [exact Hw | unfold ckpt_limit, u64_max in *; lia].
Qed.

Lemma main_integrity H avail b s :
  load_bytes H avail b = Ok s -> checksum s = hex (H (meta_str s)).
Proof. intro E. apply load_bytes_ok in E. exact (proj2 E). Qed.

Lemma main_alloc_bound avail b :
  ckpt_limit <= avail ->
  zsum (decode_allocs (Some ckpt_limit) avail b) <= 16777216
  /\ (Forall is_byte b ->
      Forall (fun n => 0 <= n <= 16777216) (decode_allocs (Some ckpt_limit) avail b)).
Proof.
  intro Ha. destruct (limit_facts avail Ha) as [H1 _]. split.
  - exact (decode_alloc_sum ckpt_limit avail b H1).
  - exact (decode_alloc_each ckpt_limit avail b H1).
Qed.

Lemma main_retention (readdir : dir -> list name) :
  (forall d, Permutation (readdir d) (dir_names d)) ->
  forall (m : Z) (d : dir) (s : cstate),
    let pid := pipeline_id s in
    let n := ckpt_name pid (timestamp s) in
    let d1 := dir_write d n (encode s) in
    dir_ok d -> 0 <= m -> is_u64 (timestamp s) -> name_ok n = true ->
    exists d',
      save readdir (Some m) d s = (Ok n, d') /\ dir_ok d'
      /\ In n (own pid d1)
      /\ Z.of_nat (length (own pid d')) = Z.min m (Z.of_nat (length (own pid d1)))
      /\ (forall x b, dir_lookup d' x = Some b -> dir_lookup d1 x = Some b)
      /\ (forall k x, In k (own pid d') -> In x (own pid d1) -> ~ In x (own pid d') ->
            ts_key pid x <= ts_key pid k)
      /\ (forall x, is_ckpt pid x = false -> dir_lookup d' x = dir_lookup d x).
Proof.
  intros Hp m d s pid n d1 Hok Hm Hts Hn.
  destruct (save_retention readdir Hp m d s Hok Hm Hts Hn) as (d' & Hs & Hin & HR & Ho).
  exists d'. destruct HR as [R1 R2 R3 R4 R5]. repeat split; assumption.
Qed.
