(* C07: `Denote.d_join` (an executable flat_map / filter definition) IS the relational join, stated
   declaratively: multiplicities of matched rows, multiplicities of unmatched rows of the preserved
   side(s), no other rows, total length; and `denote` of a program whose last step is a join.
   Lemmas for Props/C07.v. *)
From Coq Require Import List ZArith Bool Arith Lia Permutation.
From IB Require Import Engine.Val Engine.Ops Engine.AMap Engine.Nodes Engine.Exec Engine.Planner
     Engine.Lang Engine.Denote Engine.Static Engine.Classify
     Proofs.EngineBase Proofs.EngineElementwise Proofs.EngineClassify Proofs.EngineDenote.
Import ListNotations.
Local Close Scope Z_scope.
Local Open Scope nat_scope.

(* ---------- decidable equality on values (computes: the examples run it) ---------- *)
Definition val_eq_dec (a b : val) : {a = b} + {a <> b} :=
  match val_eqb a b as c return val_eqb a b = c -> {a = b} + {a <> b} with
  | true => fun H => left (proj1 (val_eqb_eq a b) H)
  | false => fun H => right (proj1 (val_eqb_neq a b) H)
  end eq_refl.

Local Notation cnt := (count_occ val_eq_dec).
Local Notation row := (fun v : val => match v with VPair _ _ => True | _ => False end).

(* ---------- generic counting facts ---------- *)
Lemma cnt_map_filter : forall (g : val -> val) (p : val -> bool) r x y,
    (forall a, In a r -> (p a = true /\ g a = x) <-> a = y) ->
    cnt (map g (filter p r)) x = cnt r y.
Proof.
  intros g p r x y. induction r as [|a r IH]; intros H; [reflexivity|].
  assert (Hr : forall b, In b r -> (p b = true /\ g b = x) <-> b = y)
    by (intros b Hb; apply H; right; exact Hb).
  specialize (IH Hr).
  pose proof (H a (or_introl eq_refl)) as Ha.
  cbn [filter]. destruct (p a) eqn:Ep; cbn [map count_occ].
  - destruct (val_eq_dec (g a) x) as [Eg|Ng]; destruct (val_eq_dec a y) as [Ea|Na].
    + f_equal. exact IH.
    + exfalso. apply Na. apply Ha. split; [reflexivity|exact Eg].
    + exfalso. apply Ng. apply (proj2 Ha Ea).
    + exact IH.
  - destruct (val_eq_dec a y) as [Ea|Na].
    + exfalso. destruct (proj2 Ha Ea) as [Hp _]. discriminate Hp.
    + exact IH.
Qed.

Lemma cnt_map_filter_zero : forall (g : val -> val) (p : val -> bool) r x,
    (forall a, In a r -> p a = true -> g a <> x) ->
    cnt (map g (filter p r)) x = 0.
Proof.
  intros g p r x H. apply count_occ_not_In. intros Hin.
  apply in_map_iff in Hin. destruct Hin as (a & Ega & Hin).
  apply filter_In in Hin. destruct Hin as [Hin Hp]. exact (H a Hin Hp Ega).
Qed.

Lemma cnt_flat_map : forall (f : val -> list val) l x y n,
    (forall a, In a l -> cnt (f a) x = if val_eq_dec a y then n else 0) ->
    cnt (flat_map f l) x = cnt l y * n.
Proof.
  intros f l x y n. induction l as [|a l IH]; intros H; [reflexivity|].
  cbn [flat_map]. rewrite count_occ_app, (H a (or_introl eq_refl)), IH
    by (intros b Hb; apply H; right; exact Hb).
  cbn [count_occ]. destruct (val_eq_dec a y); lia.
Qed.

Lemma cnt_flat_map_zero : forall (f : val -> list val) l x,
    (forall a, In a l -> ~ In x (f a)) -> cnt (flat_map f l) x = 0.
Proof.
  intros f l x H. apply count_occ_not_In. intros Hin.
  apply in_flat_map in Hin. destruct Hin as (a & Ha & Hx). exact (H a Ha Hx).
Qed.

Lemma filter_nil_iff : forall (p : val -> bool) r,
    filter p r = [] <-> (forall a, In a r -> p a = false).
Proof.
  intros p r. induction r as [|a r IH]; cbn [filter].
  - split; [intros _ a []|reflexivity].
  - destruct (p a) eqn:Ep.
    + split; [discriminate|]. intros H. specialize (H a (or_introl eq_refl)). congruence.
    + rewrite IH. split.
      * intros H b [<-|Hb]; [exact Ep|apply H; exact Hb].
      * intros H b Hb. apply H. right. exact Hb.
Qed.

Lemma isnil_match_false : forall (l : list val),
    l <> [] -> match l with [] => true | _ :: _ => false end = false.
Proof. intros [|a l] H; [congruence|reflexivity]. Qed.

(* ---------- the two building blocks of d_join ---------- *)
Definition inner_raw (mk : val -> val -> val) (l r : list val) : list val :=
  flat_map (fun lr => map (fun rr => VPair (vfst lr) (mk (vsnd lr) (vsnd rr)))
                          (filter (fun rr => val_eqb (vfst rr) (vfst lr)) r)) l.
Definition unm_raw (hv : val -> val) (l r : list val) : list val :=
  map (fun lr => VPair (vfst lr) (hv (vsnd lr)))
      (filter (fun lr => match filter (fun rr => val_eqb (vfst rr) (vfst lr)) r with
                         | [] => true | _ => false end) l).

Lemma d_join_raw : forall kind l r,
    d_join kind l r =
    match kind with
    | JInner => inner_raw (fun v w => VPair v w) l r
    | JLeft => inner_raw (fun v w => VPair v (VSome w)) l r ++ unm_raw (fun v => VPair v VNone) l r
    | JRight => inner_raw (fun v w => VPair (VSome v) w) l r ++ unm_raw (fun w => VPair VNone w) r l
    | JFull => inner_raw (fun v w => VPair (VSome v) (VSome w)) l r
               ++ unm_raw (fun v => VPair (VSome v) VNone) l r
               ++ unm_raw (fun w => VPair VNone (VSome w)) r l
    end.
Proof. intros kind l r. destruct kind; reflexivity. Qed.

(* the rows of r carrying key k: none / some *)
Lemma key_filter_nil : forall k r, Forall row r ->
    (filter (fun rr => val_eqb (vfst rr) k) r = [] <-> (forall w, ~ In (VPair k w) r)).
Proof.
  intros k r Hr. rewrite filter_nil_iff. split.
  - intros H w Hin. specialize (H _ Hin). cbn [vfst] in H. rewrite val_eqb_refl in H. discriminate H.
  - intros H a Ha. rewrite Forall_forall in Hr. specialize (Hr a Ha).
    destruct a as [z|k' w|vs| |o]; try contradiction. cbn [vfst].
    apply val_eqb_neq. intros ->. exact (H w Ha).
Qed.

(* ---------- multiplicities ---------- *)
Definition inj2 (mk : val -> val -> val) : Prop :=
  forall v w v' w', mk v w = mk v' w' -> v = v' /\ w = w'.
Definition inj1 (hv : val -> val) : Prop := forall v v', hv v = hv v' -> v = v'.

Lemma inner_count : forall mk l r k v w,
    inj2 mk -> Forall row l -> Forall row r ->
    cnt (inner_raw mk l r) (VPair k (mk v w)) = cnt l (VPair k v) * cnt r (VPair k w).
Proof.
  intros mk l r k v w Hmk Hl Hr. unfold inner_raw. apply cnt_flat_map. intros a Ha.
  rewrite Forall_forall in Hl. specialize (Hl a Ha).
  destruct a as [z|k' v'|vs| |o]; try contradiction. cbn [vfst vsnd].
  destruct (val_eq_dec (VPair k' v') (VPair k v)) as [Ea|Na].
  - injection Ea as -> ->. apply cnt_map_filter. intros b Hb.
    rewrite Forall_forall in Hr. specialize (Hr b Hb).
    destruct b as [z|kb wb|vs| |o]; try contradiction. cbn [vfst vsnd]. split.
    + intros [Hk Hx]. apply val_eqb_eq in Hk. subst kb.
      injection Hx as Hx. destruct (Hmk _ _ _ _ Hx) as [_ ->]. reflexivity.
    + intros Hb'. injection Hb' as -> ->. split; [apply val_eqb_refl|reflexivity].
  - apply cnt_map_filter_zero. intros b Hb Hp Hx. injection Hx as Hk Hx.
    destruct (Hmk _ _ _ _ Hx) as [Hv _]. apply Na. congruence.
Qed.

Lemma inner_count_other : forall mk l r x,
    (forall k v w, x <> VPair k (mk v w)) -> cnt (inner_raw mk l r) x = 0.
Proof.
  intros mk l r x H. unfold inner_raw. apply cnt_flat_map_zero. intros a Ha Hin.
  apply in_map_iff in Hin. destruct Hin as (b & Hx & _). symmetry in Hx. exact (H _ _ _ Hx).
Qed.

Lemma unm_count_none : forall hv l r k v,
    inj1 hv -> Forall row l -> Forall row r -> (forall w, ~ In (VPair k w) r) ->
    cnt (unm_raw hv l r) (VPair k (hv v)) = cnt l (VPair k v).
Proof.
  intros hv l r k v Hhv Hl Hr Hno. unfold unm_raw. apply cnt_map_filter. intros a Ha.
  rewrite Forall_forall in Hl. specialize (Hl a Ha).
  destruct a as [z|k' v'|vs| |o]; try contradiction. cbn [vfst vsnd]. split.
  - intros [_ Hx]. injection Hx as -> Hx. apply Hhv in Hx. subst v'. reflexivity.
  - intros Ea. injection Ea as -> ->. split; [|reflexivity].
    rewrite (proj2 (key_filter_nil k r Hr) Hno). reflexivity.
Qed.

Lemma unm_count_some : forall hv l r k v w0,
    In (VPair k w0) r -> cnt (unm_raw hv l r) (VPair k (hv v)) = 0.
Proof.
  intros hv l r k v w0 Hin. unfold unm_raw. apply cnt_map_filter_zero. intros a Ha Hp Hx.
  injection Hx as Hk _. rewrite Hk in Hp.
  rewrite isnil_match_false in Hp; [discriminate Hp|].
  intros Hnil. rewrite filter_nil_iff in Hnil. specialize (Hnil _ Hin). cbn [vfst] in Hnil.
  rewrite val_eqb_refl in Hnil. discriminate Hnil.
Qed.

Lemma unm_count_other : forall hv l r x,
    (forall k v, x <> VPair k (hv v)) -> cnt (unm_raw hv l r) x = 0.
Proof.
  intros hv l r x H. unfold unm_raw. apply count_occ_not_In. intros Hin.
  apply in_map_iff in Hin. destruct Hin as (a & Hx & _). symmetry in Hx. exact (H _ _ Hx).
Qed.

(* injectivity of the row builders *)
Lemma inj2_inner : inj2 (fun v w => VPair v w).
Proof. intros v w v' w' H. injection H as -> ->. split; reflexivity. Qed.
Lemma inj2_left : inj2 (fun v w => VPair v (VSome w)).
Proof. intros v w v' w' H. injection H as -> ->. split; reflexivity. Qed.
Lemma inj2_right : inj2 (fun v w => VPair (VSome v) w).
Proof. intros v w v' w' H. injection H as -> ->. split; reflexivity. Qed.
Lemma inj2_full : inj2 (fun v w => VPair (VSome v) (VSome w)).
Proof. intros v w v' w' H. injection H as -> ->. split; reflexivity. Qed.
Lemma inj1_l : inj1 (fun v => VPair v VNone).
Proof. intros v v' H. injection H as ->. reflexivity. Qed.
Lemma inj1_r : inj1 (fun w => VPair VNone w).
Proof. intros v v' H. injection H as ->. reflexivity. Qed.
Lemma inj1_fl : inj1 (fun v => VPair (VSome v) VNone).
Proof. intros v v' H. injection H as ->. reflexivity. Qed.
Lemma inj1_fr : inj1 (fun w => VPair VNone (VSome w)).
Proof. intros v v' H. injection H as ->. reflexivity. Qed.

(* --- 1. matched rows: one row for every PAIR of a left and a right row with equal keys --- *)
Lemma d_join_inner_count : forall l r k v w, Forall row l -> Forall row r ->
    cnt (d_join JInner l r) (VPair k (VPair v w)) = cnt l (VPair k v) * cnt r (VPair k w).
Proof.
  intros l r k v w Hl Hr. rewrite d_join_raw.
  exact (inner_count (fun v w => VPair v w) l r k v w inj2_inner Hl Hr).
Qed.

Lemma d_join_left_matched_count : forall l r k v w, Forall row l -> Forall row r ->
    cnt (d_join JLeft l r) (VPair k (VPair v (VSome w))) = cnt l (VPair k v) * cnt r (VPair k w).
Proof.
  intros l r k v w Hl Hr. rewrite d_join_raw, count_occ_app.
  rewrite (inner_count (fun v w => VPair v (VSome w)) l r k v w inj2_left Hl Hr).
  rewrite unm_count_other; [lia|]. intros k' v' H. discriminate H.
Qed.

Lemma d_join_right_matched_count : forall l r k v w, Forall row l -> Forall row r ->
    cnt (d_join JRight l r) (VPair k (VPair (VSome v) w)) = cnt l (VPair k v) * cnt r (VPair k w).
Proof.
  intros l r k v w Hl Hr. rewrite d_join_raw, count_occ_app.
  rewrite (inner_count (fun v w => VPair (VSome v) w) l r k v w inj2_right Hl Hr).
  rewrite unm_count_other; [lia|]. intros k' v' H. discriminate H.
Qed.

Lemma d_join_full_matched_count : forall l r k v w, Forall row l -> Forall row r ->
    cnt (d_join JFull l r) (VPair k (VPair (VSome v) (VSome w)))
    = cnt l (VPair k v) * cnt r (VPair k w).
Proof.
  intros l r k v w Hl Hr. rewrite d_join_raw, !count_occ_app.
  rewrite (inner_count (fun v w => VPair (VSome v) (VSome w)) l r k v w inj2_full Hl Hr).
  rewrite !unm_count_other; [lia| |]; intros k' v' H; discriminate H.
Qed.

(* --- 2. unmatched rows of the preserved side(s): exactly once each, other side absent --- *)
Lemma d_join_left_unmatched_count : forall l r k v, Forall row l -> Forall row r ->
    (forall w, ~ In (VPair k w) r) ->
    cnt (d_join JLeft l r) (VPair k (VPair v VNone)) = cnt l (VPair k v).
Proof.
  intros l r k v Hl Hr Hno. rewrite d_join_raw, count_occ_app.
  rewrite inner_count_other by (intros k' v' w' H; discriminate H).
  exact (unm_count_none (fun v => VPair v VNone) l r k v inj1_l Hl Hr Hno).
Qed.

Lemma d_join_left_matched_key_zero : forall l r k v w0,
    In (VPair k w0) r -> cnt (d_join JLeft l r) (VPair k (VPair v VNone)) = 0.
Proof.
  intros l r k v w0 Hin. rewrite d_join_raw, count_occ_app.
  rewrite inner_count_other by (intros k' v' w' H; discriminate H).
  exact (unm_count_some (fun v => VPair v VNone) l r k v w0 Hin).
Qed.

Lemma d_join_right_unmatched_count : forall l r k w, Forall row l -> Forall row r ->
    (forall v, ~ In (VPair k v) l) ->
    cnt (d_join JRight l r) (VPair k (VPair VNone w)) = cnt r (VPair k w).
Proof.
  intros l r k w Hl Hr Hno. rewrite d_join_raw, count_occ_app.
  rewrite inner_count_other by (intros k' v' w' H; discriminate H).
  exact (unm_count_none (fun w => VPair VNone w) r l k w inj1_r Hr Hl Hno).
Qed.

Lemma d_join_right_matched_key_zero : forall l r k w v0,
    In (VPair k v0) l -> cnt (d_join JRight l r) (VPair k (VPair VNone w)) = 0.
Proof.
  intros l r k w v0 Hin. rewrite d_join_raw, count_occ_app.
  rewrite inner_count_other by (intros k' v' w' H; discriminate H).
  exact (unm_count_some (fun w => VPair VNone w) r l k w v0 Hin).
Qed.

Lemma d_join_full_left_unmatched_count : forall l r k v, Forall row l -> Forall row r ->
    (forall w, ~ In (VPair k w) r) ->
    cnt (d_join JFull l r) (VPair k (VPair (VSome v) VNone)) = cnt l (VPair k v).
Proof.
  intros l r k v Hl Hr Hno. rewrite d_join_raw, !count_occ_app.
  rewrite inner_count_other by (intros k' v' w' H; discriminate H).
  rewrite (unm_count_other (fun w => VPair VNone (VSome w))) by (intros k' v' H; discriminate H).
  rewrite (unm_count_none (fun v => VPair (VSome v) VNone) l r k v inj1_fl Hl Hr Hno). lia.
Qed.

Lemma d_join_full_left_matched_key_zero : forall l r k v w0,
    In (VPair k w0) r -> cnt (d_join JFull l r) (VPair k (VPair (VSome v) VNone)) = 0.
Proof.
  intros l r k v w0 Hin. rewrite d_join_raw, !count_occ_app.
  rewrite inner_count_other by (intros k' v' w' H; discriminate H).
  rewrite (unm_count_other (fun w => VPair VNone (VSome w))) by (intros k' v' H; discriminate H).
  rewrite (unm_count_some (fun v => VPair (VSome v) VNone) l r k v w0 Hin). reflexivity.
Qed.

Lemma d_join_full_right_unmatched_count : forall l r k w, Forall row l -> Forall row r ->
    (forall v, ~ In (VPair k v) l) ->
    cnt (d_join JFull l r) (VPair k (VPair VNone (VSome w))) = cnt r (VPair k w).
Proof.
  intros l r k w Hl Hr Hno. rewrite d_join_raw, !count_occ_app.
  rewrite inner_count_other by (intros k' v' w' H; discriminate H).
  rewrite (unm_count_other (fun v => VPair (VSome v) VNone)) by (intros k' v' H; discriminate H).
  rewrite (unm_count_none (fun w => VPair VNone (VSome w)) r l k w inj1_fr Hr Hl Hno). lia.
Qed.

Lemma d_join_full_right_matched_key_zero : forall l r k w v0,
    In (VPair k v0) l -> cnt (d_join JFull l r) (VPair k (VPair VNone (VSome w))) = 0.
Proof.
  intros l r k w v0 Hin. rewrite d_join_raw, !count_occ_app.
  rewrite inner_count_other by (intros k' v' w' H; discriminate H).
  rewrite (unm_count_other (fun v => VPair (VSome v) VNone)) by (intros k' v' H; discriminate H).
  rewrite (unm_count_some (fun w => VPair VNone (VSome w)) r l k w v0 Hin). reflexivity.
Qed.

(* the two cases of each unmatched-row statement, side by side *)
Lemma d_join_left_unmatched : forall l r k v, Forall row l -> Forall row r ->
    ((forall w, ~ In (VPair k w) r) ->
     cnt (d_join JLeft l r) (VPair k (VPair v VNone)) = cnt l (VPair k v)) /\
    ((exists w, In (VPair k w) r) ->
     cnt (d_join JLeft l r) (VPair k (VPair v VNone)) = 0).
Proof.
  intros l r k v Hl Hr. split.
  - apply d_join_left_unmatched_count; assumption.
  - intros (w0 & Hin). exact (d_join_left_matched_key_zero l r k v w0 Hin).
Qed.

Lemma d_join_right_unmatched : forall l r k w, Forall row l -> Forall row r ->
    ((forall v, ~ In (VPair k v) l) ->
     cnt (d_join JRight l r) (VPair k (VPair VNone w)) = cnt r (VPair k w)) /\
    ((exists v, In (VPair k v) l) ->
     cnt (d_join JRight l r) (VPair k (VPair VNone w)) = 0).
Proof.
  intros l r k w Hl Hr. split.
  - apply d_join_right_unmatched_count; assumption.
  - intros (v0 & Hin). exact (d_join_right_matched_key_zero l r k w v0 Hin).
Qed.

Lemma d_join_full_unmatched : forall l r k, Forall row l -> Forall row r ->
    (forall v,
        ((forall w, ~ In (VPair k w) r) ->
         cnt (d_join JFull l r) (VPair k (VPair (VSome v) VNone)) = cnt l (VPair k v)) /\
        ((exists w, In (VPair k w) r) ->
         cnt (d_join JFull l r) (VPair k (VPair (VSome v) VNone)) = 0)) /\
    (forall w,
        ((forall v, ~ In (VPair k v) l) ->
         cnt (d_join JFull l r) (VPair k (VPair VNone (VSome w))) = cnt r (VPair k w)) /\
        ((exists v, In (VPair k v) l) ->
         cnt (d_join JFull l r) (VPair k (VPair VNone (VSome w))) = 0)).
Proof.
  intros l r k Hl Hr. split.
  - intros v. split.
    + apply d_join_full_left_unmatched_count; assumption.
    + intros (w0 & Hin). exact (d_join_full_left_matched_key_zero l r k v w0 Hin).
  - intros w. split.
    + apply d_join_full_right_unmatched_count; assumption.
    + intros (v0 & Hin). exact (d_join_full_right_matched_key_zero l r k w v0 Hin).
Qed.

(* --- 3a. nothing else: membership, as an equivalence --- *)
Lemma in_inner_raw : forall mk l r x, Forall row l -> Forall row r ->
    (In x (inner_raw mk l r) <->
     exists k v w, In (VPair k v) l /\ In (VPair k w) r /\ x = VPair k (mk v w)).
Proof.
  intros mk l r x Hl Hr. unfold inner_raw. rewrite in_flat_map. split.
  - intros (a & Ha & Hin). apply in_map_iff in Hin. destruct Hin as (b & Hx & Hb).
    apply filter_In in Hb. destruct Hb as [Hb Hk]. apply val_eqb_eq in Hk.
    rewrite Forall_forall in Hl, Hr. specialize (Hl a Ha). specialize (Hr b Hb).
    destruct a as [z|ka va|vs| |o]; try contradiction.
    destruct b as [z|kb wb|vs| |o]; try contradiction.
    cbn [vfst vsnd] in Hk, Hx. subst kb. exists ka, va, wb. auto.
  - intros (k & v & w & Hv & Hw & ->). exists (VPair k v). split; [exact Hv|].
    apply in_map_iff. exists (VPair k w). cbn [vfst vsnd]. split; [reflexivity|].
    apply filter_In. split; [exact Hw|]. cbn [vfst]. apply val_eqb_refl.
Qed.

Lemma in_unm_raw : forall hv l r x, Forall row l -> Forall row r ->
    (In x (unm_raw hv l r) <->
     exists k v, In (VPair k v) l /\ (forall w, ~ In (VPair k w) r) /\ x = VPair k (hv v)).
Proof.
  intros hv l r x Hl Hr. unfold unm_raw. rewrite in_map_iff. split.
  - intros (a & Hx & Ha). apply filter_In in Ha. destruct Ha as [Ha Hp].
    rewrite Forall_forall in Hl. specialize (Hl a Ha).
    destruct a as [z|ka va|vs| |o]; try contradiction. cbn [vfst vsnd] in Hx, Hp.
    exists ka, va. split; [exact Ha|]. split; [|auto].
    apply (key_filter_nil ka r Hr).
    destruct (filter (fun rr => val_eqb (vfst rr) ka) r); [reflexivity|discriminate Hp].
  - intros (k & v & Hv & Hno & ->). exists (VPair k v). cbn [vfst vsnd]. split; [reflexivity|].
    apply filter_In. split; [exact Hv|]. cbn [vfst].
    rewrite (proj2 (key_filter_nil k r Hr) Hno). reflexivity.
Qed.

Definition matched_row (mk : val -> val -> val) (l r : list val) (x : val) : Prop :=
  exists k v w, In (VPair k v) l /\ In (VPair k w) r /\ x = VPair k (mk v w).
Definition unmatched_row (hv : val -> val) (l r : list val) (x : val) : Prop :=
  exists k v, In (VPair k v) l /\ (forall w, ~ In (VPair k w) r) /\ x = VPair k (hv v).

Lemma d_join_in_iff : forall kind l r x, Forall row l -> Forall row r ->
    (In x (d_join kind l r) <->
     match kind with
     | JInner => matched_row (fun v w => VPair v w) l r x
     | JLeft => matched_row (fun v w => VPair v (VSome w)) l r x
                \/ unmatched_row (fun v => VPair v VNone) l r x
     | JRight => matched_row (fun v w => VPair (VSome v) w) l r x
                 \/ unmatched_row (fun w => VPair VNone w) r l x
     | JFull => matched_row (fun v w => VPair (VSome v) (VSome w)) l r x
                \/ unmatched_row (fun v => VPair (VSome v) VNone) l r x
                \/ unmatched_row (fun w => VPair VNone (VSome w)) r l x
     end).
Proof.
  intros kind l r x Hl Hr. rewrite d_join_raw. unfold matched_row, unmatched_row.
  destruct kind; rewrite ?in_app_iff.
  - apply in_inner_raw; assumption.
  - rewrite (in_inner_raw _ l r x Hl Hr), (in_unm_raw _ l r x Hl Hr). reflexivity.
  - rewrite (in_inner_raw _ l r x Hl Hr), (in_unm_raw _ r l x Hr Hl). reflexivity.
  - rewrite (in_inner_raw _ l r x Hl Hr), (in_unm_raw _ l r x Hl Hr), (in_unm_raw _ r l x Hr Hl).
    reflexivity.
Qed.

(* --- 3b. total length --- *)
(* number of rows of r with key k *)
Definition key_count (k : val) (r : list val) : nat := cnt (map vfst r) k.

Lemma key_filter_length : forall k r,
    length (filter (fun rr => val_eqb (vfst rr) k) r) = key_count k r.
Proof.
  intros k r. unfold key_count. induction r as [|a r IH]; [reflexivity|].
  cbn [filter map count_occ].
  destruct (val_eqb_spec (vfst a) k) as [He|Hne]; destruct (val_eq_dec (vfst a) k) as [He'|Hne'];
    try congruence; cbn [length]; congruence.
Qed.

(* on rows: no row of r carries key k iff the key count is 0 *)
Lemma key_count_zero_iff : forall k r, Forall row r ->
    (key_count k r = 0 <-> (forall w, ~ In (VPair k w) r)).
Proof.
  intros k r Hr. rewrite <- key_filter_length, length_zero_iff_nil. apply key_filter_nil. exact Hr.
Qed.

(* ... and in general the key count is the number of rows (k, _) *)
Lemma key_count_rows : forall k r, Forall row r ->
    key_count k r
    = length (filter (fun rr => match rr with VPair k' _ => val_eqb k' k | _ => false end) r).
Proof.
  intros k r Hr. rewrite <- key_filter_length. f_equal. apply filter_ext_in. intros a Ha.
  rewrite Forall_forall in Hr. specialize (Hr a Ha).
  destruct a as [z|k' w|vs| |o]; try contradiction. reflexivity.
Qed.

Lemma length_flat_map_sum : forall (f : val -> list val) l,
    length (flat_map f l) = list_sum (map (fun a => length (f a)) l).
Proof.
  intros f l. induction l as [|a l IH]; [reflexivity|].
  cbn [flat_map map list_sum]. rewrite app_length, IH. reflexivity.
Qed.

Lemma inner_raw_length : forall mk l r,
    length (inner_raw mk l r) = list_sum (map (fun lr => key_count (vfst lr) r) l).
Proof.
  intros mk l r. unfold inner_raw. rewrite length_flat_map_sum. f_equal. apply map_ext.
  intros a. rewrite map_length. apply key_filter_length.
Qed.

Lemma unm_raw_length : forall hv l r,
    length (unm_raw hv l r) = length (filter (fun lr => Nat.eqb (key_count (vfst lr) r) 0) l).
Proof.
  intros hv l r. unfold unm_raw. rewrite map_length. f_equal. apply filter_ext. intros a.
  rewrite <- key_filter_length.
  destruct (filter (fun rr => val_eqb (vfst rr) (vfst a)) r); reflexivity.
Qed.

Definition matched_total (l r : list val) : nat :=
  list_sum (map (fun lr => key_count (vfst lr) r) l).
Definition unmatched_total (l r : list val) : nat :=
  length (filter (fun lr => Nat.eqb (key_count (vfst lr) r) 0) l).

Lemma d_join_length : forall kind l r,
    length (d_join kind l r) =
    match kind with
    | JInner => matched_total l r
    | JLeft => matched_total l r + unmatched_total l r
    | JRight => matched_total l r + unmatched_total r l
    | JFull => matched_total l r + unmatched_total l r + unmatched_total r l
    end.
Proof.
  intros kind l r. rewrite d_join_raw. unfold matched_total, unmatched_total.
  destruct kind; rewrite ?app_length, ?inner_raw_length, ?unm_raw_length; lia.
Qed.

(* ---------- 4. `denote` of a program whose last step is a join ---------- *)
Lemma ssum_cons : forall st l, ssum (st :: l) = step_size st + ssum l.
Proof. reflexivity. Qed.

Lemma step_cases : forall st, nojoin st \/ exists k rs rd, st = SJoin k rs rd.
Proof. intros st. destruct st; try (left; exact I). right. eauto. Qed.

(* enough fuel is enough: the reference semantics does not depend on the fuel *)
Lemma denote_steps_fuel : forall fuel fuel' steps rows,
    steps_size steps <= fuel -> steps_size steps <= fuel' ->
    denote_steps fuel steps rows = denote_steps fuel' steps rows.
Proof.
  induction fuel as [|f IH]; intros fuel' steps rows H1 H2; rewrite steps_size_ssum in *; [lia|].
  destruct fuel' as [|f']; [lia|].
  destruct steps as [|st rest]; [reflexivity|].
  rewrite ssum_cons in H1, H2. pose proof (step_size_pos st) as Hpos.
  destruct (step_cases st) as [Hnj|(k & rs & rd & ->)].
  - rewrite !denote_steps_cons by exact Hnj. apply IH; rewrite steps_size_ssum; lia.
  - rewrite !denote_steps_join. rewrite step_size_join in H1, H2.
    rewrite (IH f' rs rd) by (rewrite steps_size_ssum; lia).
    apply IH; rewrite steps_size_ssum; lia.
Qed.

Lemma denote_steps_app_fuel : forall pre fuel rest rows,
    steps_size (pre ++ rest) <= fuel ->
    denote_steps fuel (pre ++ rest) rows = denote_steps fuel rest (denote_steps fuel pre rows).
Proof.
  induction pre as [|st pre IH]; intros fuel rest rows H.
  - rewrite denote_steps_nil. reflexivity.
  - rewrite steps_size_ssum in H. cbn [app] in H. rewrite ssum_cons, ssum_app in H.
    pose proof (step_size_pos st) as Hpos.
    destruct fuel as [|f]; [lia|]. cbn [app].
    assert (Hpr : steps_size (pre ++ rest) <= f) by (rewrite steps_size_ssum, ssum_app; lia).
    assert (Hshift : forall rows', denote_steps f rest rows' = denote_steps (S f) rest rows')
      by (intros rows'; apply denote_steps_fuel; rewrite steps_size_ssum; lia).
    destruct (step_cases st) as [Hnj|(k & rs & rd & ->)].
    + rewrite !denote_steps_cons by exact Hnj. rewrite (IH f rest _ Hpr). apply Hshift.
    + rewrite !denote_steps_join. rewrite (IH f rest _ Hpr). apply Hshift.
Qed.

(* the reference result of `pre ; join kind (rdata ; rsteps)` is the relational join of the
   reference results of the two sides (the right side is a from_vec of (Val, Val) rows) *)
Lemma denote_join_last : forall s pre kind rsteps rdata,
    denote s (pre ++ [SJoin kind rsteps rdata])
    = d_join kind (denote s pre) (denote (SrcVec TKV rdata) rsteps).
Proof.
  intros s pre kind rsteps rdata. unfold denote. cbn [src_data].
  rewrite denote_steps_app_fuel by lia.
  pose proof (steps_size_ssum (pre ++ [SJoin kind rsteps rdata])) as Hsz.
  rewrite ssum_app, ssum_cons, step_size_join in Hsz. cbn [ssum fold_right] in Hsz.
  set (N := steps_size (pre ++ [SJoin kind rsteps rdata])) in *.
  destruct N as [|n]; [lia|].
  rewrite denote_steps_join, denote_steps_nil.
  rewrite (denote_steps_fuel (S n) (steps_size pre) pre) by (rewrite ?steps_size_ssum; lia).
  rewrite (denote_steps_fuel n (steps_size rsteps) rsteps) by (rewrite ?steps_size_ssum; lia).
  reflexivity.
Qed.

(* a classified program whose last step is a join has order class P on (Val, Val) rows *)
Lemma split_join_last : forall pre k rs rd,
    exists pre' k' rs' rd' post',
      split_at_join (pre ++ [SJoin k rs rd]) = (pre', Some (k', rs', rd', post')) /\
      (post' = [] \/ ~ Forall nojoin post').
Proof.
  induction pre as [|st pre IH]; intros k rs rd.
  - exists [], k, rs, rd, []. split; [reflexivity|left; reflexivity].
  - destruct (step_cases st) as [Hnj|(k0 & rs0 & rd0 & ->)].
    + destruct (IH k rs rd) as (pre' & k' & rs' & rd' & post' & Hsplit & Hpost).
      exists (st :: pre'), k', rs', rd', post'. split; [|exact Hpost].
      cbn [app]. destruct st; try contradiction; cbn [split_at_join]; rewrite Hsplit; reflexivity.
    + exists [], k0, rs0, rd0, (pre ++ [SJoin k rs rd]). split; [reflexivity|]. right.
      intros Hall. rewrite Forall_forall in Hall.
      apply (Hall (SJoin k rs rd)). apply in_or_app. right. left. reflexivity.
Qed.

Lemma classify_join_last : forall s pre k rs rd t c,
    classify s (pre ++ [SJoin k rs rd]) = Some (t, c) -> t = TKV /\ c = P.
Proof.
  intros s pre k rs rd t c H. unfold classify in H.
  destruct (split_join_last pre k rs rd) as (pre' & k' & rs' & rd' & post' & Hsplit & Hpost).
  rewrite Hsplit in H.
  destruct (classify_steps (src_tag s) E pre') as [[tl cl]|]; [|discriminate H].
  destruct (classify_steps TKV E rs') as [[tr cr]|]; [|discriminate H].
  destruct (Nat.eqb tl TKV && Nat.eqb tr TKV && cls_flatb cl && cls_flatb cr); [|discriminate H].
  destruct Hpost as [->|Hnot].
  - cbn [classify_steps] in H. injection H as <- <-. split; reflexivity.
  - exfalso. apply Hnot. eapply classify_steps_nojoin. exact H.
Qed.

Lemma program_join_last : forall s pre kind rsteps rdata t c parts,
    classify s (pre ++ [SJoin kind rsteps rdata]) = Some (t, c) ->
    reorder_noop (fuse (cs_chain (compile s (pre ++ [SJoin kind rsteps rdata])))) ->
    exists rs rp,
      run_seq s (pre ++ [SJoin kind rsteps rdata]) = Ok rs /\
      run_par s (pre ++ [SJoin kind rsteps rdata]) parts = Ok rp /\
      Permutation rs (d_join kind (denote s pre) (denote (SrcVec TKV rdata) rsteps)) /\
      Permutation rp (d_join kind (denote s pre) (denote (SrcVec TKV rdata) rsteps)).
Proof.
  intros s pre kind rsteps rdata t c parts H Hnoop.
  destruct (classify_join_last _ _ _ _ _ _ _ H) as [-> ->].
  destruct (program_matches_denote _ _ _ _ parts H Hnoop) as (rs & rp & Es & Ep & Hs & Hp).
  rewrite denote_join_last in Hs, Hp. cbn [rel] in Hs, Hp.
  exists rs, rp. auto.
Qed.
