(* The priority reservoir keeps exactly the k greatest items: the operational model of
   Combiners/Reservoir.v (store / heap / trim loops / index remapping / left-to-right merges) computes
   the closed form [topk_spec] of Combiners/ReservoirTopK.v, for every element type, k, seed and
   partitioning.

   Plan.  The elements are decorated with their global position g (naturality:
   Proofs/ReservoirNatural.v), so that every item (key, seq, (g, v)) is unique and the items are
   totally ordered by (key, seq, g) [keep order].  Invariant RT of an accumulator that has consumed
   the items [all] (in this order):
     - the structural invariant Inv of Proofs/Reservoir.v (heap entries = live slots);
     - the live items, in store order, have increasing g  (so the slot index orders two live items
       like g does, and the heap's minimum - by (key, seq, idx) - is the minimum for (key, seq, g));
     - all = live + dropped, and every dropped item has at least k items of [all] above it.
   The last clause is monotone in [all]; with |live| = min k |all| it pins the live set down to the
   k greatest items.  finish sorts them by (key desc, seq asc) stably, i.e. by the total order
   (key desc, seq asc, g asc); a sorted list is determined by its elements. *)
From Coq Require Import List NArith Arith Bool Lia Permutation Sorting.Sorted.
From IB Require Import Combiners.Reservoir Combiners.ReservoirTopK
  Proofs.Reservoir Proofs.ReservoirNatural Proofs.SortUnique.
Import ListNotations.

(* ---------------------------------------------------------------- the heap's order *)
Definition elt (a b : entry) : Prop :=
  let '(ka, sa, ia) := a in
  let '(kb, sb, ib) := b in
  (ka < kb)%N \/ (ka = kb /\ (sa < sb \/ (sa = sb /\ ia < ib))).

Lemma entry_ltb_spec : forall a b, entry_ltb a b = true <-> elt a b.
Proof.
  intros [[ka sa] ia] [[kb sb] ib]. unfold entry_ltb, elt.
  destruct (N.ltb ka kb) eqn:E1; [apply N.ltb_lt in E1; split; [intros _; left; exact E1|reflexivity]|].
  apply N.ltb_ge in E1.
  destruct (N.ltb kb ka) eqn:E2.
  { apply N.ltb_lt in E2. split; [discriminate|]. intros [H|[H _]]; lia. }
  apply N.ltb_ge in E2.
  destruct (Nat.ltb sa sb) eqn:E3.
  { apply Nat.ltb_lt in E3. split; [|reflexivity]. intros _. right. split; [lia|]. left. exact E3. }
  apply Nat.ltb_ge in E3.
  destruct (Nat.ltb sb sa) eqn:E4.
  { apply Nat.ltb_lt in E4. split; [discriminate|]. intros [H|[_ [H|[H _]]]]; lia. }
  apply Nat.ltb_ge in E4.
  split.
  - intros H. apply Nat.ltb_lt in H. right. split; [lia|]. right. split; [lia|exact H].
  - intros [H|[_ [H|[_ H]]]]; try lia. apply Nat.ltb_lt. exact H.
Qed.

Lemma entry_ltb_false : forall a b, entry_ltb a b = false <-> ~ elt a b.
Proof.
  intros a b. rewrite <- entry_ltb_spec. destruct (entry_ltb a b); split; intros H; try reflexivity;
    try discriminate. exfalso. apply H. reflexivity.
Qed.

Lemma elt_trans : forall a b c, elt a b -> elt b c -> elt a c.
Proof. intros [[ka sa] ia] [[kb sb] ib] [[kc sc] ic]. unfold elt. lia. Qed.
Lemma elt_total : forall a b, elt a b \/ a = b \/ elt b a.
Proof.
  intros [[ka sa] ia] [[kb sb] ib]. unfold elt.
  destruct (N.lt_trichotomy ka kb) as [H|[H|H]]; [left; left; exact H| |right; right; left; exact H].
  destruct (Nat.lt_trichotomy sa sb) as [H1|[H1|H1]];
    [left; right; split; [exact H|left; exact H1]|
    |right; right; right; split; [symmetry; exact H|left; exact H1]].
  destruct (Nat.lt_trichotomy ia ib) as [H2|[H2|H2]].
  - left. right. split; [exact H|]. right. split; assumption.
  - right. left. subst. reflexivity.
  - right. right. right. split; [symmetry; exact H|]. right. split; [symmetry; exact H1|exact H2].
Qed.
Lemma elt_asym : forall a b, elt a b -> ~ elt b a.
Proof. intros [[ka sa] ia] [[kb sb] ib]. unfold elt. lia. Qed.

(* heap_min returns a least element *)
Lemma heap_min_least : forall h best e, In e (best :: h) -> ~ elt e (heap_min best h).
Proof.
  induction h as [|e0 r IH]; intros best e Hin.
  - cbn [heap_min]. destruct Hin as [Heq|[]]. rewrite <- Heq. intros H. exact (elt_asym _ _ H H).
  - cbn [heap_min]. destruct (entry_ltb e0 best) eqn:E.
    + apply entry_ltb_spec in E.
      destruct Hin as [Heq|[Heq|Hin]].
      * rewrite <- Heq. intros H.
        apply (IH e0 e0 (or_introl eq_refl)). eapply elt_trans; [exact E|exact H].
      * rewrite <- Heq. apply IH. left. reflexivity.
      * apply IH. right. exact Hin.
    + apply entry_ltb_false in E.
      destruct Hin as [Heq|[Heq|Hin]].
      * rewrite <- Heq. apply IH. left. reflexivity.
      * rewrite <- Heq. intros H. pose proof (IH best best (or_introl eq_refl)) as Hb.
        destruct (elt_total best e0) as [Y|[Y|Y]].
        -- apply Hb. eapply elt_trans; [exact Y|exact H].
        -- rewrite <- Y in H. exact (Hb H).
        -- exact (E Y).
      * apply IH. right. exact Hin.
Qed.

Lemma heap_pop_least : forall h m h' e,
  heap_pop h = Some (m, h') -> In e h -> ~ elt e m.
Proof.
  intros [|e0 r] m h' e H Hin; [discriminate|].
  cbn [heap_pop] in H. injection H as <- _. apply heap_min_least. exact Hin.
Qed.

Section TopKProofs.
  Context {T : Type}.
  Notation U := (N * T)%type.                      (* (global position, element) *)
  Notation sitem := (N * nat * U)%type.            (* what a slot holds: (key, seq, (g, v)) *)
  Notation slot := (slot U).
  Notation pracc := (pracc U).

  Definition s_key (x : sitem) : N := fst (fst x).
  Definition s_seq (x : sitem) : nat := snd (fst x).
  Definition s_g (x : sitem) : N := fst (snd x).

  (* keep order: x strictly below y *)
  Definition slt (x y : sitem) : Prop :=
    (s_key x < s_key y)%N \/
    (s_key x = s_key y /\ (s_seq x < s_seq y \/ (s_seq x = s_seq y /\ (s_g x < s_g y)%N))).
  Definition sltb (x y : sitem) : bool :=
    if N.ltb (s_key x) (s_key y) then true
    else if N.ltb (s_key y) (s_key x) then false
    else if Nat.ltb (s_seq x) (s_seq y) then true
    else if Nat.ltb (s_seq y) (s_seq x) then false
    else N.ltb (s_g x) (s_g y).
  Lemma sltb_spec : forall x y, sltb x y = true <-> slt x y.
  Proof.
    intros x y. unfold sltb, slt.
    destruct (N.ltb (s_key x) (s_key y)) eqn:E1;
      [apply N.ltb_lt in E1; split; [intros _; left; exact E1|reflexivity]|].
    apply N.ltb_ge in E1.
    destruct (N.ltb (s_key y) (s_key x)) eqn:E2.
    { apply N.ltb_lt in E2. split; [discriminate|]. intros [H|[H _]]; lia. }
    apply N.ltb_ge in E2.
    destruct (Nat.ltb (s_seq x) (s_seq y)) eqn:E3.
    { apply Nat.ltb_lt in E3. split; [|reflexivity]. intros _. right. split; [lia|]. left. exact E3. }
    apply Nat.ltb_ge in E3.
    destruct (Nat.ltb (s_seq y) (s_seq x)) eqn:E4.
    { apply Nat.ltb_lt in E4. split; [discriminate|]. intros [H|[_ [H|[H _]]]]; lia. }
    apply Nat.ltb_ge in E4.
    split.
    - intros H. apply N.ltb_lt in H. right. split; [lia|]. right. split; [lia|exact H].
    - intros [H|[_ [H|[_ H]]]]; try lia. apply N.ltb_lt. exact H.
  Qed.
  Lemma sltb_false : forall x y, sltb x y = false <-> ~ slt x y.
  Proof.
    intros x y. rewrite <- sltb_spec. destruct (sltb x y); split; intros H; try reflexivity;
      try discriminate. exfalso. apply H. reflexivity.
  Qed.
  Lemma slt_asym : forall x y, slt x y -> ~ slt y x.
  Proof. intros x y. unfold slt. lia. Qed.
  Lemma slt_trans : forall x y z, slt x y -> slt y z -> slt x z.
  Proof. intros x y z. unfold slt. lia. Qed.
  Lemma slt_total_g : forall x y, s_g x <> s_g y -> slt x y \/ slt y x.
  Proof. intros x y. unfold slt. lia. Qed.

  Definition glt (x y : sitem) : Prop := (s_g x < s_g y)%N.
  Definition gsorted (l : list sitem) : Prop := StronglySorted glt l.

  Lemma gsorted_inj : forall l a b, gsorted l -> In a l -> In b l -> s_g a = s_g b -> a = b.
  Proof.
    induction l as [|x l IH]; intros a b Hs Ha Hb E; [destruct Ha|].
    apply StronglySorted_inv in Hs. destruct Hs as [Hs F]. rewrite Forall_forall in F.
    destruct Ha as [<-|Ha], Hb as [<-|Hb].
    - reflexivity.
    - specialize (F _ Hb). unfold glt in F. lia.
    - specialize (F _ Ha). unfold glt in F. lia.
    - apply IH; assumption.
  Qed.
  Lemma gsorted_nodup : forall l, gsorted l -> NoDup l.
  Proof.
    induction l as [|x l IH]; intros Hs; [constructor|].
    apply StronglySorted_inv in Hs. destruct Hs as [Hs F]. rewrite Forall_forall in F.
    constructor; [|apply IH; exact Hs].
    intros Hin. specialize (F _ Hin). unfold glt in F. lia.
  Qed.

  (* ------------------------------------------------------------ entries paired with items *)
  Fixpoint live_pairs (b : nat) (st : list slot) : list (entry * sitem) :=
    match st with
    | [] => []
    | Some (k, s, v) :: r => ((k, s, b), (k, s, v)) :: live_pairs (S b) r
    | None :: r => live_pairs (S b) r
    end.
  Lemma live_pairs_fst : forall st b, map fst (live_pairs b st) = live_from b st.
  Proof.
    induction st as [|x r IH]; intros b; [reflexivity|].
    destruct x as [[[k s] v]|]; cbn [live_pairs live_from map fst]; rewrite IH; reflexivity.
  Qed.
  Lemma live_pairs_snd : forall st b, map snd (live_pairs b st) = live_items st.
  Proof.
    induction st as [|x r IH]; intros b; [reflexivity|].
    destruct x as [[[k s] v]|]; cbn [live_pairs live_items map snd]; rewrite IH; reflexivity.
  Qed.
  Lemma live_pairs_shape : forall st b e x,
    In (e, x) (live_pairs b st) ->
    exists k s i v, e = (k, s, i) /\ x = (k, s, v) /\ b <= i.
  Proof.
    induction st as [|y r IH]; intros b e x Hin; [destruct Hin|].
    destruct y as [[[k s] v]|]; cbn [live_pairs] in Hin.
    - destruct Hin as [Heq|Hin].
      + injection Heq as <- <-. exists k, s, b, v. repeat split. lia.
      + destruct (IH _ _ _ Hin) as [k' [s' [i [v' [-> [-> Hle]]]]]].
        exists k', s', i, v'. repeat split. lia.
    - destruct (IH _ _ _ Hin) as [k' [s' [i [v' [-> [-> Hle]]]]]].
      exists k', s', i, v'. repeat split. lia.
  Qed.

  (* slot index and g grow together along the store *)
  Definition pair_lt (p q : entry * sitem) : Prop :=
    snd (fst p) < snd (fst q) /\ glt (snd p) (snd q).
  Lemma live_pairs_sorted : forall st b,
    gsorted (live_items st) -> StronglySorted pair_lt (live_pairs b st).
  Proof.
    induction st as [|y r IH]; intros b Hs; [constructor|].
    destruct y as [[[k s] v]|]; cbn [live_pairs live_items] in *.
    - apply StronglySorted_inv in Hs. destruct Hs as [Hs F]. rewrite Forall_forall in F.
      constructor; [apply IH; exact Hs|].
      apply Forall_forall. intros [e x] Hin.
      destruct (live_pairs_shape _ _ _ _ Hin) as [k' [s' [i [v' [-> [-> Hle]]]]]].
      split; [cbn [fst snd]; lia|]. cbn [snd]. apply F.
      rewrite <- (live_pairs_snd r (S b)). apply (in_map snd) in Hin. exact Hin.
    - apply IH. exact Hs.
  Qed.

  Lemma kill_slot_pairs : forall st b L1 k s i x L2,
    live_pairs b st = L1 ++ ((k, s, i), x) :: L2 ->
    exists st', kill_slot (i - b) st = Some st' /\ live_pairs b st' = L1 ++ L2.
  Proof.
    induction st as [|y r IH]; intros b L1 k s i x L2 H.
    - destruct L1; discriminate.
    - assert (Hb : b <= i).
      { assert (Hin : In ((k, s, i), x) (live_pairs b (y :: r)))
          by (rewrite H; apply in_or_app; right; left; reflexivity).
        destruct (live_pairs_shape _ _ _ _ Hin) as [k' [s' [i' [v' [E [_ Hle]]]]]].
        injection E as _ _ <-. exact Hle. }
      destruct y as [[[k0 s0] v0]|]; cbn [live_pairs] in H.
      + destruct L1 as [|p L1].
        * cbn [app] in H. injection H as <- <- <- <- HL. rewrite Nat.sub_diag.
          exists (None :: r). cbn [kill_slot live_pairs app]. split; [reflexivity|exact HL].
        * cbn [app] in H. injection H as <- HL.
          assert (Hb' : S b <= i).
          { assert (Hin : In ((k, s, i), x) (live_pairs (S b) r))
              by (rewrite HL; apply in_or_app; right; left; reflexivity).
            destruct (live_pairs_shape _ _ _ _ Hin) as [k' [s' [i' [v' [E [_ Hle]]]]]].
            injection E as _ _ <-. exact Hle. }
          destruct (IH _ _ _ _ _ _ _ HL) as [st' [Hk Hp]].
          exists (Some (k0, s0, v0) :: st').
          replace (i - b) with (S (i - S b)) by lia.
          cbn [kill_slot]. rewrite Hk. split; [reflexivity|].
          cbn [live_pairs app]. rewrite Hp. reflexivity.
      + assert (Hb' : S b <= i).
        { assert (Hin : In ((k, s, i), x) (live_pairs (S b) r))
            by (rewrite H; apply in_or_app; right; left; reflexivity).
          destruct (live_pairs_shape _ _ _ _ Hin) as [k' [s' [i' [v' [E [_ Hle]]]]]].
          injection E as _ _ <-. exact Hle. }
        destruct (IH _ _ _ _ _ _ _ H) as [st' [Hk Hp]].
        exists (None :: st').
        replace (i - b) with (S (i - S b)) by lia.
        cbn [kill_slot]. rewrite Hk. split; [reflexivity|].
        cbn [live_pairs]. exact Hp.
  Qed.

  (* ------------------------------------------------------------ the invariant *)
  Definition RTpre (k : nat) (a : pracc) (all : list sitem) : Prop :=
    Inv a /\ pk a = k /\ gsorted (live_items (pstore a)) /\
    exists dropped,
      Permutation (live_items (pstore a) ++ dropped) all /\
      forall d, In d dropped -> k <= cnt (sltb d) all.

  (* the popped entry belongs to the least live item *)
  Lemma pop_min_item : forall (a : pracc) k0 s0 i h',
    Inv a -> gsorted (live_items (pstore a)) ->
    heap_pop (pheap a) = Some ((k0, s0, i), h') ->
    exists v l1 l2 st',
      live_items (pstore a) = l1 ++ (k0, s0, v) :: l2 /\
      kill_slot i (pstore a) = Some st' /\
      live_items st' = l1 ++ l2 /\
      Permutation h' (live_from 0 st') /\
      forall y, In y (l1 ++ l2) -> slt (k0, s0, v) y.
  Proof.
    intros a k0 s0 i h' [Hperm Hal] Hg Hpop.
    pose proof (heap_pop_perm _ _ _ Hpop) as Hpp.
    remember (live_pairs 0 (pstore a)) as L eqn:EL.
    assert (HLf : map fst L = live_from 0 (pstore a)) by (rewrite EL; apply live_pairs_fst).
    assert (HLs : map snd L = live_items (pstore a)) by (rewrite EL; apply live_pairs_snd).
    assert (Hm : In (k0, s0, i) (map fst L)).
    { rewrite HLf. eapply Permutation_in; [exact Hperm|].
      eapply Permutation_in; [apply Permutation_sym, Hpp|]. left. reflexivity. }
    apply in_map_iff in Hm. destruct Hm as [[e x] [He Hin]]. cbn [fst] in He. subst e.
    destruct (in_split _ _ Hin) as [L1 [L2 HL]].
    assert (Hin0 : In ((k0, s0, i), x) (live_pairs 0 (pstore a))) by (rewrite <- EL; exact Hin).
    destruct (live_pairs_shape _ _ _ _ Hin0) as [k' [s' [i' [v [E [Ex _]]]]]].
    injection E as <- <- <-. subst x.
    assert (HL0 : live_pairs 0 (pstore a) = L1 ++ ((k0, s0, i), (k0, s0, v)) :: L2)
      by (rewrite <- EL; exact HL).
    destruct (kill_slot_pairs _ _ _ _ _ _ _ _ HL0) as [st' [Hk Hp]]. rewrite Nat.sub_0_r in Hk.
    exists v, (map snd L1), (map snd L2), st'.
    assert (Hsplit : live_items (pstore a) = map snd L1 ++ (k0, s0, v) :: map snd L2).
    { rewrite <- HLs. rewrite HL, map_app. reflexivity. }
    split; [exact Hsplit|]. split; [exact Hk|]. split.
    { rewrite <- (live_pairs_snd st' 0), Hp, map_app. reflexivity. }
    split.
    { rewrite <- (live_pairs_fst st' 0), Hp, map_app.
      apply Permutation_cons_app_inv with (a := (k0, s0, i)).
      eapply Permutation_trans; [apply Permutation_sym, Hpp|].
      eapply Permutation_trans; [exact Hperm|].
      rewrite <- HLf. rewrite HL, map_app. apply Permutation_refl. }
    (* minimality *)
    assert (Hsorted : StronglySorted pair_lt (L1 ++ ((k0, s0, i), (k0, s0, v)) :: L2)).
    { rewrite <- HL0. apply live_pairs_sorted. exact Hg. }
    destruct (StronglySorted_split _ _ _ _ Hsorted) as [Hbefore Hafter].
    assert (Hleast : forall e, In e (map fst L) -> ~ elt e (k0, s0, i)).
    { intros e He. eapply heap_pop_least; [exact Hpop|].
      eapply Permutation_in; [apply Permutation_sym, Hperm|]. rewrite <- HLf. exact He. }
    intros y Hy. rewrite <- map_app in Hy. apply in_map_iff in Hy.
    destruct Hy as [[e y'] [Ey Hiny]]. cbn [snd] in Ey. subst y'.
    assert (HinL : In (e, y) L).
    { rewrite HL. apply in_app_or in Hiny. apply in_or_app.
      destruct Hiny as [H|H]; [left; exact H|right; right; exact H]. }
    assert (HinL0 : In (e, y) (live_pairs 0 (pstore a))) by (rewrite <- EL; exact HinL).
    destruct (live_pairs_shape _ _ _ _ HinL0) as [ky [sy [iy [vy [-> [-> _]]]]]].
    assert (Hne : ~ elt (ky, sy, iy) (k0, s0, i)).
    { apply Hleast. apply in_map_iff. exists ((ky, sy, iy), (ky, sy, vy)). split; [reflexivity|exact HinL]. }
    apply in_app_or in Hiny. destruct Hiny as [H1|H2].
    - destruct (Hbefore _ H1) as [Hi Hgl]. unfold glt, s_g in Hgl. cbn [fst snd] in Hi, Hgl.
      unfold elt in Hne. unfold slt, s_key, s_seq, s_g. cbn [fst snd]. lia.
    - destruct (Hafter _ H2) as [Hi Hgl]. unfold glt, s_g in Hgl. cbn [fst snd] in Hi, Hgl.
      unfold elt in Hne. unfold slt, s_key, s_seq, s_g. cbn [fst snd]. lia.
  Qed.

  Lemma trim_RT : forall k fuel (a : pracc) all,
    RTpre k a all -> length (pheap a) < fuel ->
    let a' := trim fuel a in
    RTpre k a' all /\ palive a' = Nat.min (palive a) k /\ prng a' = prng a /\ pseq a' = pseq a.
  Proof.
    intros k. induction fuel as [|fuel IH]; intros a all HR Hf; [lia|].
    destruct HR as [HI [Hk [Hg [dropped [Hd Hcnt]]]]].
    cbn [trim]. rewrite Hk. destruct (Nat.ltb k (palive a)) eqn:Hlt.
    - apply Nat.ltb_lt in Hlt. pose proof HI as [Hperm Hal].
      assert (Hlen : length (pheap a) = palive a).
      { rewrite (Permutation_length Hperm), live_from_length. symmetry. exact Hal. }
      destruct (heap_pop (pheap a)) as [[[[k0 s0] i] h']|] eqn:Hpop.
      + destruct (pop_min_item a k0 s0 i h' HI Hg Hpop)
          as [v [l1 [l2 [st' [Hsplit [Hkill [Hlive' [Hh' Hmin]]]]]]]].
        rewrite Hkill.
        set (a1 := PRAcc k (prng a) (pseq a) h' st' (palive a - 1)).
        assert (Hlen2 : length (l1 ++ l2) = palive a - 1).
        { rewrite Hal, Hsplit, !app_length. cbn [length]. lia. }
        assert (HR1 : RTpre k a1 all).
        { split; [|split; [reflexivity|split]].
          - split; cbn [pheap pstore palive a1]; [exact Hh'|]. rewrite Hlive'. symmetry. exact Hlen2.
          - cbn [pstore a1]. rewrite Hlive'. rewrite Hsplit in Hg.
            eapply StronglySorted_remove_mid. exact Hg.
          - exists ((k0, s0, v) :: dropped). cbn [pstore a1]. rewrite Hlive'. split.
            + eapply Permutation_trans; [|exact Hd]. rewrite Hsplit.
              rewrite <- !app_assoc. apply Permutation_app_head. cbn [app].
              apply Permutation_sym, Permutation_middle.
            + intros d [<-|Hin]; [|apply Hcnt; exact Hin].
              rewrite <- (cnt_perm _ _ _ Hd), cnt_app, Hsplit.
              assert (Hc : cnt (sltb (k0, s0, v)) (l1 ++ (k0, s0, v) :: l2) >= length (l1 ++ l2)).
              { rewrite cnt_app, app_length.
                pose proof (cnt_cons_ge (sltb (k0, s0, v)) (k0, s0, v) l2) as G.
                rewrite (cnt_all (sltb (k0, s0, v)) l1).
                2:{ intros y Hy. apply sltb_spec, Hmin. apply in_or_app. left. exact Hy. }
                rewrite (cnt_all (sltb (k0, s0, v)) l2) in G.
                2:{ intros y Hy. apply sltb_spec, Hmin. apply in_or_app. right. exact Hy. }
                lia. }
              lia. }
        assert (Hf1 : length (pheap a1) < fuel).
        { apply Permutation_length in Hh'. cbn [pheap a1]. rewrite Hh', live_from_length, Hlive'. lia. }
        destruct (IH a1 all HR1 Hf1) as [HRa [Hala [Hrng Hseq]]].
        fold a1. split; [exact HRa|]. split; [rewrite Hala; cbn [palive a1]; lia|].
        split; [rewrite Hrng; reflexivity|rewrite Hseq; reflexivity].
      + apply heap_pop_none in Hpop. rewrite Hpop in Hlen. cbn [length] in Hlen. lia.
    - apply Nat.ltb_ge in Hlt. split.
      + split; [exact HI|]. split; [exact Hk|]. split; [exact Hg|]. exists dropped. split; assumption.
      + split; [lia|]. split; reflexivity.
  Qed.

  Lemma trim_loop_RT : forall k (a : pracc) all,
    RTpre k a all ->
    let a' := trim_loop a in
    RTpre k a' all /\ palive a' = Nat.min (palive a) k /\ prng a' = prng a /\ pseq a' = pseq a.
  Proof. intros k a all H. unfold trim_loop. apply trim_RT; [exact H|lia]. Qed.

  (* ------------------------------------------------------------ RT: "a has consumed [all]" *)
  Definition RT (k : nat) (a : pracc) (all : list sitem) : Prop :=
    RTpre k a all /\ palive a = Nat.min k (length all).

  Lemma RT_create : forall k seed, RT k (create k seed) [].
  Proof.
    intros k seed. split.
    - split; [|split; [reflexivity|split]].
      + split; cbn [create pheap pstore palive live_from live_items length]; [apply Permutation_refl|reflexivity].
      + cbn [create pstore live_items]. constructor.
      + exists []. cbn [create pstore live_items app]. split; [apply Permutation_refl|intros d []].
    - cbn [create palive length]. rewrite Nat.min_0_r. reflexivity.
  Qed.

  Lemma live_in_all : forall k (a : pracc) all x,
    RTpre k a all -> In x (live_items (pstore a)) -> In x all.
  Proof.
    intros k a all x [_ [_ [_ [dropped [Hd _]]]]] Hin.
    eapply Permutation_in; [exact Hd|]. apply in_or_app. left. exact Hin.
  Qed.

  Lemma RT_add : forall k (a : pracc) all g v,
    k <> 0 -> RT k a all -> (forall x, In x all -> (s_g x < g)%N) ->
    RT k (add a (g, v)) (all ++ [(prio_of_bits (snd (sm_next (prng a))), pseq a, (g, v))]) /\
    prng (add a (g, v)) = fst (sm_next (prng a)) /\ pseq (add a (g, v)) = S (pseq a).
  Proof.
    intros k a all g v Hk0 [HR Hal] Hlt.
    pose proof HR as [HI [Hk [Hg [dropped [Hd Hcnt]]]]].
    unfold add. rewrite Hk. destruct (Nat.eqb k 0) eqn:E; [apply Nat.eqb_eq in E; lia|].
    destruct (sm_next (prng a)) as [s' x]. cbn [fst snd].
    set (it := (prio_of_bits x, pseq a, (g, v))).
    set (a1 := PRAcc k s' (S (pseq a)) ((prio_of_bits x, pseq a, length (pstore a)) :: pheap a)
                     (pstore a ++ [Some it]) (S (palive a))).
    destruct HI as [Hperm Hal'].
    assert (HR1 : RTpre k a1 (all ++ [it])).
    { split; [|split; [reflexivity|split]].
      - split; cbn [pheap pstore palive a1].
        + rewrite live_from_app. unfold it. cbn [live_from Nat.add].
          eapply Permutation_trans; [|apply Permutation_cons_append].
          apply perm_skip. exact Hperm.
        + rewrite live_items_app, app_length. cbn [live_items length]. lia.
      - cbn [pstore a1]. rewrite live_items_app. cbn [live_items].
        apply StronglySorted_app; [exact Hg|constructor; constructor|].
        intros y z Hy [<-|[]]. unfold glt, it, s_g at 2. cbn [fst snd].
        apply Hlt. eapply live_in_all; [exact HR|exact Hy].
      - exists dropped. cbn [pstore a1]. rewrite live_items_app. cbn [live_items]. split.
        + rewrite <- app_assoc.
          eapply Permutation_trans; [apply Permutation_app_head, Permutation_app_comm|].
          rewrite app_assoc. apply Permutation_app_tail. exact Hd.
        + intros d Hin. rewrite cnt_app. specialize (Hcnt d Hin). lia. }
    destruct (trim_loop_RT k a1 _ HR1) as [HRa [Hala [Hrng Hseq]]].
    split; [split; [exact HRa|]|split; [exact Hrng|exact Hseq]].
    rewrite Hala. cbn [palive a1]. rewrite app_length. cbn [length]. lia.
  Qed.

  Lemma RT_merge : forall k (a b : pracc) alla allb,
    k <> 0 -> RT k a alla -> RT k b allb ->
    (forall x y, In x alla -> In y allb -> (s_g x < s_g y)%N) ->
    RT k (merge a b) (alla ++ allb).
  Proof.
    intros k a b alla allb Hk0 [HRa Hala] [HRb Halb] Hsep.
    pose proof HRa as [HIa [Hka [Hga [da [Hda Hca]]]]].
    pose proof HRb as [HIb [Hkb [Hgb [db [Hdb Hcb]]]]].
    unfold merge. rewrite Hka, Hkb. destruct (Nat.eqb k 0) eqn:E; [apply Nat.eqb_eq in E; lia|].
    rewrite Nat.max_id.
    set (a1 := PRAcc k (prng a) (pseq a)
                 (filter_map (remap_entry (remap_table (length (pstore a)) (pstore b)))
                             (pheap b) ++ pheap a)
                 (pstore a ++ live_slots (pstore b))
                 (palive a + length (live_slots (pstore b)))).
    destruct HIa as [Hpa Hcna]. destruct HIb as [Hpb Hcnb].
    assert (HR1 : RTpre k a1 (alla ++ allb)).
    { split; [|split; [reflexivity|split]].
      - split; cbn [pheap pstore palive a1].
        + rewrite live_from_app. cbn [Nat.add].
          eapply Permutation_trans; [apply Permutation_app_comm|].
          apply Permutation_app; [exact Hpa|].
          eapply Permutation_trans; [apply filter_map_perm, Hpb|].
          pose proof (remap_live (pstore b) [] (length (pstore a))) as E1.
          cbn [app length] in E1. rewrite E1. apply Permutation_refl.
        + rewrite live_items_app, app_length, live_items_live_slots, live_slots_length. lia.
      - cbn [pstore a1]. rewrite live_items_app, live_items_live_slots.
        apply StronglySorted_app; [exact Hga|exact Hgb|].
        intros x y Hx Hy. apply Hsep; [eapply live_in_all; [exact HRa|exact Hx]
                                      |eapply live_in_all; [exact HRb|exact Hy]].
      - exists (da ++ db). cbn [pstore a1]. rewrite live_items_app, live_items_live_slots. split.
        + eapply Permutation_trans; [|apply Permutation_app; [exact Hda|exact Hdb]].
          rewrite <- !app_assoc. apply Permutation_app_head.
          rewrite !app_assoc. apply Permutation_app_tail. apply Permutation_app_comm.
        + intros d Hin. rewrite cnt_app. apply in_app_or in Hin. destruct Hin as [Hin|Hin].
          * specialize (Hca d Hin). lia.
          * specialize (Hcb d Hin). lia. }
    destruct (trim_loop_RT k a1 _ HR1) as [HRr [Halr _]].
    split; [exact HRr|].
    rewrite Halr. cbn [palive a1]. rewrite live_slots_length, app_length.
    rewrite <- Hcnb, Halb, Hala. lia.
  Qed.

  (* ------------------------------------------------------------ the items of the input *)
  (* what `add_input` stores for the rows of one accumulator started in state [st] *)
  Fixpoint items_from (st : N) (sq : nat) (rows : list U) : list sitem :=
    match rows with
    | [] => []
    | u :: r => (prio_of_bits (snd (sm_next st)), sq, u) :: items_from (fst (sm_next st)) (S sq) r
    end.
  Lemma items_from_snd : forall rows st sq, map snd (items_from st sq rows) = rows.
  Proof.
    induction rows as [|u r IH]; intros st sq; [reflexivity|].
    cbn [items_from map snd]. rewrite IH. reflexivity.
  Qed.
  Lemma items_from_length : forall rows st sq, length (items_from st sq rows) = length rows.
  Proof. intros. rewrite <- (items_from_snd rows st sq) at 2. rewrite map_length. reflexivity. Qed.

  Definition ult (u w : U) : Prop := (fst u < fst w)%N.

  Lemma gsorted_map : forall l : list sitem, gsorted l <-> StronglySorted ult (map snd l).
  Proof.
    induction l as [|x l IH]; [split; intros; constructor|].
    cbn [map]. split; intros H.
    - apply StronglySorted_inv in H. destruct H as [H F]. constructor; [apply IH; exact H|].
      rewrite Forall_map. exact F.
    - apply StronglySorted_inv in H. destruct H as [H F]. constructor; [apply IH; exact H|].
      rewrite Forall_map in F. exact F.
  Qed.

  Lemma RT_fold_add : forall k rows (a : pracc) all,
    k <> 0 -> RT k a all -> StronglySorted ult rows ->
    (forall x u, In x all -> In u rows -> (s_g x < fst u)%N) ->
    RT k (fold_left add rows a) (all ++ items_from (prng a) (pseq a) rows).
  Proof.
    intros k rows. induction rows as [|[g v] r IH]; intros a all Hk0 HR Hs Hlt.
    - cbn [fold_left items_from]. rewrite app_nil_r. exact HR.
    - cbn [fold_left items_from].
      destruct (RT_add k a all g v Hk0 HR) as [HR1 [Hrng Hseq]].
      { intros x Hx. apply (Hlt x (g, v) Hx). left. reflexivity. }
      apply StronglySorted_inv in Hs. destruct Hs as [Hs F]. rewrite Forall_forall in F.
      specialize (IH (add a (g, v)) _ Hk0 HR1 Hs).
      rewrite Hrng, Hseq in IH. rewrite <- app_assoc in IH. cbn [app] in IH. apply IH.
      intros x u Hx Hu. apply in_app_or in Hx. destruct Hx as [Hx|[<-|[]]].
      + apply Hlt; [exact Hx|right; exact Hu].
      + unfold s_g. cbn [fst snd]. exact (F u Hu).
  Qed.

  Lemma RT_local : forall k seed rows,
    k <> 0 -> StronglySorted ult rows ->
    RT k (local k seed rows) (items_from (stream_state0 seed) 0 rows).
  Proof.
    intros k seed rows Hk0 Hs. unfold local.
    apply (RT_fold_add k rows (create k seed) [] Hk0 (RT_create k seed) Hs).
    intros x u [].
  Qed.

  (* ------------------------------------------------------------ decorating the input *)
  Fixpoint dec_part (g : N) (part : list T) : list U :=
    match part with
    | [] => []
    | v :: r => (g, v) :: dec_part (N.succ g) r
    end.
  Fixpoint dec_parts (g : N) (parts : list (list T)) : list (list U) :=
    match parts with
    | [] => []
    | p :: r => dec_part g p :: dec_parts (g + N.of_nat (length p)) r
    end.
  Lemma dec_part_snd : forall p g, map snd (dec_part g p) = p.
  Proof. induction p as [|v r IH]; intros g; [reflexivity|]. cbn [dec_part map snd]. rewrite IH. reflexivity. Qed.
  Lemma dec_parts_snd : forall parts g, map (map snd) (dec_parts g parts) = parts.
  Proof.
    induction parts as [|p r IH]; intros g; [reflexivity|].
    cbn [dec_parts map]. rewrite dec_part_snd, IH. reflexivity.
  Qed.
  Lemma dec_part_bounds : forall p g u,
    In u (dec_part g p) -> (g <= fst u < g + N.of_nat (length p))%N.
  Proof.
    induction p as [|v r IH]; intros g u Hin; [destruct Hin|].
    cbn [dec_part] in Hin. cbn [length]. rewrite Nat2N.inj_succ.
    destruct Hin as [<-|Hin]; [cbn [fst]; lia|].
    specialize (IH _ _ Hin). lia.
  Qed.
  Lemma dec_part_sorted : forall p g, StronglySorted ult (dec_part g p).
  Proof.
    induction p as [|v r IH]; intros g; [constructor|].
    cbn [dec_part]. constructor; [apply IH|].
    apply Forall_forall. intros u Hu. apply dec_part_bounds in Hu. unfold ult. cbn [fst]. lia.
  Qed.

  Definition all_items (seed : N) (dparts : list (list U)) : list sitem :=
    concat (map (items_from (stream_state0 seed) 0) dparts).

  Lemma items_from_bounds : forall st sq g p x,
    In x (items_from st sq (dec_part g p)) -> (g <= s_g x < g + N.of_nat (length p))%N.
  Proof.
    intros st sq g p x Hin. apply (in_map snd) in Hin. rewrite items_from_snd in Hin.
    apply dec_part_bounds in Hin. exact Hin.
  Qed.
  Lemma all_items_lower : forall seed parts g x,
    In x (all_items seed (dec_parts g parts)) -> (g <= s_g x)%N.
  Proof.
    intros seed parts. induction parts as [|p r IH]; intros g x Hin; [destruct Hin|].
    unfold all_items in Hin. cbn [dec_parts map concat] in Hin. apply in_app_or in Hin.
    destruct Hin as [Hin|Hin].
    - apply items_from_bounds in Hin. lia.
    - apply IH in Hin. lia.
  Qed.
  Lemma all_items_gsorted : forall seed parts g, gsorted (all_items seed (dec_parts g parts)).
  Proof.
    intros seed parts. induction parts as [|p r IH]; intros g; [constructor|].
    unfold all_items. cbn [dec_parts map concat].
    apply StronglySorted_app.
    - apply gsorted_map. rewrite items_from_snd. apply dec_part_sorted.
    - apply IH.
    - intros x y Hx Hy. apply items_from_bounds in Hx. apply all_items_lower in Hy.
      unfold glt. lia.
  Qed.

  Lemma RT_fold_merge : forall k seed parts g (a : pracc) all,
    k <> 0 -> RT k a all -> (forall x, In x all -> (s_g x < g)%N) ->
    RT k (fold_left merge (map (local k seed) (dec_parts g parts)) a)
         (all ++ all_items seed (dec_parts g parts)).
  Proof.
    intros k seed parts. induction parts as [|p r IH]; intros g a all Hk0 HR Hlt.
    - cbn [dec_parts map fold_left]. unfold all_items. cbn [map concat]. rewrite app_nil_r. exact HR.
    - cbn [dec_parts map fold_left]. unfold all_items. cbn [map concat].
      fold (all_items seed (dec_parts (g + N.of_nat (length p)) r)).
      rewrite app_assoc. apply IH; [exact Hk0| |].
      + apply RT_merge; [exact Hk0|exact HR|apply RT_local; [exact Hk0|apply dec_part_sorted]|].
        intros x y Hx Hy. apply items_from_bounds in Hy. specialize (Hlt x Hx). lia.
      + intros x Hx. apply in_app_or in Hx. destruct Hx as [Hx|Hx].
        * specialize (Hlt x Hx). lia.
        * apply items_from_bounds in Hx. lia.
  Qed.

  Lemma RT_merge_all : forall k seed parts,
    k <> 0 ->
    RT k (merge_all k seed (map (local k seed) (dec_parts 0 parts)))
         (all_items seed (dec_parts 0 parts)).
  Proof.
    intros k seed [|p r] Hk0.
    - cbn [dec_parts map merge_all]. apply RT_create.
    - cbn [dec_parts map merge_all]. unfold all_items. cbn [map concat].
      fold (all_items seed (dec_parts (0 + N.of_nat (length p)) r)).
      apply RT_fold_merge; [exact Hk0|apply RT_local; [exact Hk0|apply dec_part_sorted]|].
      intros x Hx. apply items_from_bounds in Hx. lia.
  Qed.

  (* ------------------------------------------------------------ the live set is the top k *)
  Definition s_keep_leb (x y : sitem) : bool := negb (sltb x y).      (* x first: x is not below y *)
  Definition s_keep_le (x y : sitem) : Prop := s_keep_leb x y = true.

  Lemma live_is_topk : forall k (a : pracc) all,
    RT k a all -> gsorted all ->
    Permutation (live_items (pstore a)) (firstn k (msort s_keep_leb all)).
  Proof.
    intros k a all [HR Hal] Hgs.
    pose proof HR as [[Hperm Hcn] [Hk [Hg [dropped [Hd Hcnt]]]]].
    set (S := msort s_keep_leb all).
    assert (HSp : Permutation S all).
    { unfold S. apply msort_perm. }
    assert (HSs : StronglySorted s_keep_le S).
    { unfold S. apply msort_sorted.
      - intros x y. unfold s_keep_leb.
        destruct (sltb x y) eqn:E1; [|left; reflexivity].
        destruct (sltb y x) eqn:E2; [|right; reflexivity].
        apply sltb_spec in E1, E2. exfalso. exact (slt_asym _ _ E1 E2).
      - intros x y z. unfold s_keep_leb. rewrite !negb_true_iff, !sltb_false.
        unfold slt. lia. }
    apply Permutation_sym. apply NoDup_Permutation_bis.
    - assert (ND : NoDup S).
      { eapply Permutation_NoDup; [apply Permutation_sym, HSp|]. apply gsorted_nodup. exact Hgs. }
      rewrite <- (firstn_skipn k S) in ND. eapply NoDup_app_left. exact ND.
    - rewrite firstn_length, (Permutation_length HSp). lia.
    - intros t Ht.
      assert (HtS : In t S).
      { rewrite <- (firstn_skipn k S). apply in_or_app. left. exact Ht. }
      assert (Hta : In t (live_items (pstore a) ++ dropped)).
      { eapply Permutation_in; [apply Permutation_sym, Hd|]. eapply Permutation_in; [exact HSp|exact HtS]. }
      apply in_app_or in Hta. destruct Hta as [Hl|Hdr]; [exact Hl|exfalso].
      specialize (Hcnt t Hdr). rewrite <- (cnt_perm _ _ _ HSp) in Hcnt.
      destruct (in_split _ _ Ht) as [T1 [T2 HT]].
      assert (HS : S = T1 ++ t :: (T2 ++ skipn k S)).
      { rewrite <- (firstn_skipn k S) at 1. rewrite HT, <- app_assoc. reflexivity. }
      assert (HlenT : length T1 < k).
      { assert (L : length (firstn k S) <= k) by (rewrite firstn_length; lia).
        rewrite HT, app_length in L. cbn [length] in L. lia. }
      rewrite HS in HSs. destruct (StronglySorted_split _ _ _ _ HSs) as [_ Hafter].
      rewrite HS, cnt_app in Hcnt.
      assert (C2 : cnt (sltb t) (t :: T2 ++ skipn k S) = 0).
      { apply cnt_none. intros y [<-|Hy].
        - apply sltb_false. intros H. exact (slt_asym _ _ H H).
        - specialize (Hafter y Hy). unfold s_keep_le, s_keep_leb in Hafter.
          apply negb_true_iff in Hafter. exact Hafter. }
      pose proof (cnt_le_length (sltb t) T1). lia.
  Qed.

  (* ------------------------------------------------------------ finish sorts by the out order *)
  Definition s_out_leb (x y : sitem) : bool :=
    if N.ltb (s_key y) (s_key x) then true
    else if N.ltb (s_key x) (s_key y) then false
    else if Nat.ltb (s_seq x) (s_seq y) then true
    else if Nat.ltb (s_seq y) (s_seq x) then false
    else N.leb (s_g x) (s_g y).
  Definition s_out_le (x y : sitem) : Prop :=
    (s_key y < s_key x)%N \/
    (s_key x = s_key y /\ (s_seq x < s_seq y \/ (s_seq x = s_seq y /\ (s_g x <= s_g y)%N))).
  Lemma s_out_leb_spec : forall x y, s_out_leb x y = true <-> s_out_le x y.
  Proof.
    intros x y. unfold s_out_leb, s_out_le.
    destruct (N.ltb (s_key y) (s_key x)) eqn:E1;
      [apply N.ltb_lt in E1; split; [intros _; left; exact E1|reflexivity]|].
    apply N.ltb_ge in E1.
    destruct (N.ltb (s_key x) (s_key y)) eqn:E2.
    { apply N.ltb_lt in E2. split; [discriminate|]. intros [H|[H _]]; lia. }
    apply N.ltb_ge in E2.
    destruct (Nat.ltb (s_seq x) (s_seq y)) eqn:E3.
    { apply Nat.ltb_lt in E3. split; [|reflexivity]. intros _. right. split; [lia|]. left. exact E3. }
    apply Nat.ltb_ge in E3.
    destruct (Nat.ltb (s_seq y) (s_seq x)) eqn:E4.
    { apply Nat.ltb_lt in E4. split; [discriminate|]. intros [H|[_ [H|[H _]]]]; lia. }
    apply Nat.ltb_ge in E4.
    split.
    - intros H. apply N.leb_le in H. right. split; [lia|]. right. split; [lia|exact H].
    - intros [H|[_ [H|[_ H]]]]; try lia. apply N.leb_le. exact H.
  Qed.
  Lemma s_out_le_trans : forall x y z, s_out_le x y -> s_out_le y z -> s_out_le x z.
  Proof. intros x y z. unfold s_out_le. lia. Qed.
  Lemma s_out_leb_total : forall x y, s_out_leb x y = true \/ s_out_leb y x = true.
  Proof. intros x y. rewrite !s_out_leb_spec. unfold s_out_le. lia. Qed.
  Lemma s_out_leb_trans : forall x y z,
    s_out_leb x y = true -> s_out_leb y z = true -> s_out_leb x z = true.
  Proof. intros x y z. rewrite !s_out_leb_spec. apply s_out_le_trans. Qed.

  Lemma item_before_spec : forall x y : sitem,
    item_before x y = true <->
    ((s_key y < s_key x)%N \/ (s_key x = s_key y /\ s_seq x <= s_seq y)).
  Proof.
    intros [[kx sx] vx] [[ky sy] vy]. unfold item_before, s_key, s_seq. cbn [fst snd].
    destruct (N.ltb ky kx) eqn:E1;
      [apply N.ltb_lt in E1; split; [intros _; left; exact E1|reflexivity]|].
    apply N.ltb_ge in E1.
    destruct (N.ltb kx ky) eqn:E2.
    { apply N.ltb_lt in E2. split; [discriminate|]. intros [H|[H _]]; lia. }
    apply N.ltb_ge in E2. rewrite Nat.leb_le. split; [intros H; right; split; [lia|exact H]|].
    intros [H|[_ H]]; [lia|exact H].
  Qed.

  Lemma sort_insert_sorted : forall (x : sitem) l,
    StronglySorted s_out_le l -> (forall y, In y l -> glt x y) ->
    StronglySorted s_out_le (sort_insert x l).
  Proof.
    intros x l. induction l as [|y r IH]; intros Hs Hg; cbn [sort_insert].
    - constructor; constructor.
    - pose proof Hs as Hs0. apply StronglySorted_inv in Hs. destruct Hs as [Hs F].
      destruct (item_before x y) eqn:E.
      + apply item_before_spec in E.
        assert (Hxy : s_out_le x y).
        { specialize (Hg y (or_introl eq_refl)). unfold glt in Hg. unfold s_out_le. lia. }
        constructor; [exact Hs0|]. constructor; [exact Hxy|].
        eapply Forall_impl; [|exact F]. intros z Hz. exact (s_out_le_trans _ _ _ Hxy Hz).
      + assert (Hyx : s_out_le y x).
        { assert (N : ~ ((s_key y < s_key x)%N \/ (s_key x = s_key y /\ s_seq x <= s_seq y))).
          { intros H. apply item_before_spec in H. rewrite H in E. discriminate. }
          unfold s_out_le. lia. }
        constructor.
        * apply IH; [exact Hs|]. intros z Hz. apply Hg. right. exact Hz.
        * eapply Permutation_Forall; [apply Permutation_sym, sort_insert_perm|].
          constructor; [exact Hyx|exact F].
  Qed.
  Lemma stable_sort_sorted : forall l : list sitem,
    gsorted l -> StronglySorted s_out_le (stable_sort l).
  Proof.
    induction l as [|x r IH]; intros Hg; [constructor|].
    unfold stable_sort. cbn [fold_right]. fold (stable_sort r).
    apply StronglySorted_inv in Hg. destruct Hg as [Hg F]. rewrite Forall_forall in F.
    apply sort_insert_sorted; [apply IH; exact Hg|].
    intros y Hy. apply F. eapply Permutation_in; [apply stable_sort_perm|exact Hy].
  Qed.

  Lemma finish_topk : forall k (a : pracc) all,
    k <> 0 -> RT k a all -> gsorted all ->
    finish a = map (fun it : sitem => snd it)
                   (msort s_out_leb (firstn k (msort s_keep_leb all))).
  Proof.
    intros k a all Hk0 HRT Hgs.
    pose proof (live_is_topk k a all HRT Hgs) as Htop.
    destruct HRT as [HR Hal].
    pose proof HR as [[Hperm Hcn] [Hk [Hg [dropped [Hd Hcnt]]]]].
    set (live := live_items (pstore a)) in *.
    assert (Hfin : finish a = map (fun it : sitem => snd it) (stable_sort live)).
    { unfold finish. rewrite Hk. destruct (Nat.eqb k 0) eqn:E; [apply Nat.eqb_eq in E; lia|].
      cbn [orb]. destruct (Nat.eqb (palive a) 0) eqn:E0.
      - apply Nat.eqb_eq in E0. rewrite E0 in Hcn. symmetry in Hcn. apply length_zero_iff_nil in Hcn.
        fold live in Hcn. rewrite Hcn. reflexivity.
      - fold live. rewrite firstn_all2; [reflexivity|].
        rewrite (Permutation_length (stable_sort_perm live)). fold live in Hcn. lia. }
    rewrite Hfin. f_equal.
    apply (sorted_perm_unique s_out_le).
    - apply stable_sort_sorted. exact Hg.
    - assert (X : StronglySorted (fun x y => s_out_leb x y = true)
                                 (msort s_out_leb (firstn k (msort s_keep_leb all))))
        by (apply msort_sorted; [exact s_out_leb_total|exact s_out_leb_trans]).
      clear - X. induction X as [|x l X IH F]; constructor; [exact IH|].
      eapply Forall_impl; [|exact F]. intros y Hy. apply s_out_leb_spec. exact Hy.
    - eapply Permutation_trans; [apply stable_sort_perm|].
      eapply Permutation_trans; [exact Htop|]. apply Permutation_sym, msort_perm.
    - intros x y Hx Hy H1 H2.
      assert (Hxa : In x all).
      { eapply live_in_all; [exact HR|]. eapply Permutation_in; [apply stable_sort_perm|exact Hx]. }
      assert (Hya : In y all).
      { eapply live_in_all; [exact HR|]. eapply Permutation_in; [apply stable_sort_perm|exact Hy]. }
      apply (gsorted_inj all); [exact Hgs|exact Hxa|exact Hya|].
      unfold s_out_le in H1, H2. lia.
  Qed.

  (* ------------------------------------------------------------ to the items of the closed form *)
  Definition to_item (x : sitem) : item (P := N) (T := T) :=
    (s_key x, N.of_nat (s_seq x), s_g x, snd (snd x)).

  Lemma nat_ltb_N : forall a b, N.ltb (N.of_nat a) (N.of_nat b) = Nat.ltb a b.
  Proof.
    intros a b. destruct (Nat.ltb a b) eqn:E.
    - apply Nat.ltb_lt in E. apply N.ltb_lt. lia.
    - apply Nat.ltb_ge in E. apply N.ltb_ge. lia.
  Qed.
  Lemma out_leb_to_item : forall x y, out_leb N.ltb (to_item x) (to_item y) = s_out_leb x y.
  Proof.
    intros x y. unfold out_leb, s_out_leb, to_item, it_prio, it_seq, it_gpos. cbn [fst snd].
    rewrite !nat_ltb_N. reflexivity.
  Qed.
  Lemma keep_leb_to_item : forall x y, keep_leb N.ltb (to_item x) (to_item y) = s_keep_leb x y.
  Proof.
    intros x y. unfold keep_leb, s_keep_leb, sltb, to_item, it_prio, it_seq, it_gpos. cbn [fst snd].
    rewrite !nat_ltb_N.
    destruct (N.ltb (s_key y) (s_key x)) eqn:E1.
    - apply N.ltb_lt in E1. destruct (N.ltb (s_key x) (s_key y)) eqn:E2;
        [apply N.ltb_lt in E2; lia|reflexivity].
    - destruct (N.ltb (s_key x) (s_key y)); [reflexivity|].
      destruct (Nat.ltb (s_seq y) (s_seq x)) eqn:E3.
      + apply Nat.ltb_lt in E3. destruct (Nat.ltb (s_seq x) (s_seq y)) eqn:E4;
          [apply Nat.ltb_lt in E4; lia|reflexivity].
      + destruct (Nat.ltb (s_seq x) (s_seq y)); [reflexivity|].
        destruct (N.ltb (s_g x) (s_g y)) eqn:E5.
        * apply N.ltb_lt in E5. cbn [negb]. apply N.leb_gt. exact E5.
        * apply N.ltb_ge in E5. cbn [negb]. apply N.leb_le. exact E5.
  Qed.

  Lemma items_part_spec : forall p n st sq g,
    length p <= n ->
    items_part (prio_stream n st) (N.of_nat sq) g p = map to_item (items_from st sq (dec_part g p)).
  Proof.
    induction p as [|v r IH]; intros n st sq g Hlen.
    - cbn [dec_part items_from map]. destruct (prio_stream n st); reflexivity.
    - destruct n as [|n]; [cbn [length] in Hlen; lia|].
      cbn [prio_stream dec_part items_from map]. destruct (sm_next st) as [s' x]. cbn [fst snd].
      cbn [items_part]. unfold to_item at 1, s_key, s_seq, s_g. cbn [fst snd]. f_equal.
      rewrite <- Nat2N.inj_succ. apply IH. cbn [length] in Hlen. lia.
  Qed.
  Lemma items_parts_spec : forall seed parts n g,
    (forall p, In p parts -> length p <= n) ->
    items_parts (prio_stream n (stream_state0 seed)) g parts
    = map to_item (all_items seed (dec_parts g parts)).
  Proof.
    intros seed parts n. induction parts as [|p r IH]; intros g Hn; [reflexivity|].
    cbn [items_parts dec_parts]. unfold all_items. cbn [map concat]. rewrite map_app.
    fold (all_items seed (dec_parts (g + N.of_nat (length p)) r)).
    rewrite <- IH by (intros q Hq; apply Hn; right; exact Hq).
    f_equal. apply (items_part_spec p n (stream_state0 seed) 0 g). apply Hn. left. reflexivity.
  Qed.
  Lemma max_len_ge : forall (parts : list (list T)) p, In p parts -> length p <= max_len parts.
  Proof.
    intros parts p. unfold max_len.
    assert (G : forall (l : list (list T)) m,
               m <= fold_left (fun m p => Nat.max m (length p)) l m /\
               (In p l -> length p <= fold_left (fun m p => Nat.max m (length p)) l m)).
    { induction l as [|q l IH]; intros m; cbn [fold_left]; [split; [lia|intros []]|].
      destruct (IH (Nat.max m (length q))) as [H1 H2]. split; [lia|].
      intros [<-|Hin]; [lia|apply H2; exact Hin]. }
    intros Hin. exact (proj2 (G parts 0) Hin).
  Qed.

  Theorem sample_parts_topk : forall k seed (parts : list (list T)),
    sample_parts k seed parts = topk_spec k seed parts.
  Proof.
    intros k seed parts. destruct (Nat.eq_dec k 0) as [->|Hk0].
    - pose proof (sample_parts_size 0 seed parts) as L. cbn [Nat.min] in L.
      apply length_zero_iff_nil in L. rewrite L. reflexivity.
    - assert (E1 : sample_parts k seed parts
                   = map snd (sample_parts k seed (dec_parts 0 parts))).
      { rewrite <- (sample_parts_natural snd). rewrite dec_parts_snd. reflexivity. }
      rewrite E1. unfold sample_parts at 1.
      rewrite (finish_topk k _ (all_items seed (dec_parts 0 parts)) Hk0
                 (RT_merge_all k seed parts Hk0) (all_items_gsorted seed parts 0)).
      unfold topk_spec, topk_sample.
      rewrite (items_parts_spec seed parts (max_len parts) 0 (max_len_ge parts)).
      rewrite (msort_map to_item s_keep_leb (keep_leb N.ltb) keep_leb_to_item).
      rewrite firstn_map.
      rewrite (msort_map to_item s_out_leb (out_leb N.ltb) out_leb_to_item).
      rewrite !map_map. apply map_ext. intros x. reflexivity.
  Qed.

  (* the same when the partition accumulators are merged into a fresh `create` (what the per-key
     merge of combine_values_lifted does: `accs.entry(k).or_insert_with(create)`) *)
  Lemma fold_merge_k0 : forall X seed (accs : list (Combiners.Reservoir.pracc X)),
    fold_left merge accs (create 0 seed) = create 0 seed.
  Proof. intros X seed accs. induction accs as [|b r IH]; [reflexivity|]. cbn [fold_left]. exact IH. Qed.

  Theorem fold_merge_create_topk : forall k seed (parts : list (list T)),
    finish (fold_left merge (map (local k seed) parts) (create k seed)) = topk_spec k seed parts.
  Proof.
    intros k seed parts. destruct (Nat.eq_dec k 0) as [->|Hk0].
    - rewrite fold_merge_k0. reflexivity.
    - assert (E1 : finish (fold_left merge (map (local k seed) parts) (create k seed))
                   = map snd (finish (fold_left merge (map (local k seed) (dec_parts 0 parts))
                                                (create k seed)))).
      { rewrite <- (finish_map snd). f_equal.
        rewrite <- (dec_parts_snd parts 0) at 1. rewrite map_map.
        rewrite (map_ext (fun p => local k seed (map snd p))
                         (fun p => acc_map snd (local k seed p)))
          by (intros p; apply local_map).
        rewrite <- (map_map (local k seed) (acc_map snd)).
        exact (fold_merge_map snd _ (create k seed)). }
      rewrite E1.
      pose proof (RT_fold_merge k seed parts 0 (create k seed) [] Hk0 (RT_create k seed)) as HRT.
      cbn [app] in HRT.
      rewrite (finish_topk k _ (all_items seed (dec_parts 0 parts)) Hk0
                 (HRT (fun x (H : In x []) => match H with end)) (all_items_gsorted seed parts 0)).
      unfold topk_spec, topk_sample.
      rewrite (items_parts_spec seed parts (max_len parts) 0 (max_len_ge parts)).
      rewrite (msort_map to_item s_keep_leb (keep_leb N.ltb) keep_leb_to_item).
      rewrite firstn_map.
      rewrite (msort_map to_item s_out_leb (out_leb N.ltb) out_leb_to_item).
      rewrite !map_map. apply map_ext. intros x. reflexivity.
  Qed.
End TopKProofs.

(* ---------------------------------------------------------------- consequences *)
Lemma keep_leb_total : forall T (x y : item (P := N) (T := T)),
  keep_leb N.ltb x y = true \/ keep_leb N.ltb y x = true.
Proof.
  intros T [[[px sx] gx] vx] [[[py sy] gy] vy]. unfold keep_leb, it_prio, it_seq, it_gpos. cbn [fst snd].
  destruct (N.ltb py px) eqn:E1; [left; reflexivity|]. apply N.ltb_ge in E1.
  destruct (N.ltb px py) eqn:E2; [right; reflexivity|]. apply N.ltb_ge in E2.
  destruct (N.ltb sy sx) eqn:E3; [left; reflexivity|]. apply N.ltb_ge in E3.
  destruct (N.ltb sx sy) eqn:E4; [right; reflexivity|]. apply N.ltb_ge in E4.
  destruct (N.leb gy gx) eqn:E5; [left; reflexivity|]. apply N.leb_gt in E5.
  right. apply N.leb_le. lia.
Qed.
Definition keep_ge {T} (x y : item (P := N) (T := T)) : Prop :=
  (it_prio y < it_prio x)%N \/
  (it_prio x = it_prio y /\ ((it_seq y < it_seq x)%N \/
     (it_seq x = it_seq y /\ (it_gpos y <= it_gpos x)%N))).
Lemma keep_leb_spec : forall T (x y : item (P := N) (T := T)),
  keep_leb N.ltb x y = true <-> keep_ge x y.
Proof.
  intros T x y. unfold keep_leb, keep_ge.
  destruct (N.ltb (it_prio y) (it_prio x)) eqn:E1;
    [apply N.ltb_lt in E1; split; [intros _; left; exact E1|reflexivity]|].
  apply N.ltb_ge in E1.
  destruct (N.ltb (it_prio x) (it_prio y)) eqn:E2.
  { apply N.ltb_lt in E2. split; [discriminate|]. intros [H|[H _]]; lia. }
  apply N.ltb_ge in E2.
  destruct (N.ltb (it_seq y) (it_seq x)) eqn:E3.
  { apply N.ltb_lt in E3. split; [|reflexivity]. intros _. right. split; [lia|]. left. exact E3. }
  apply N.ltb_ge in E3.
  destruct (N.ltb (it_seq x) (it_seq y)) eqn:E4.
  { apply N.ltb_lt in E4. split; [discriminate|]. intros [H|[_ [H|[H _]]]]; lia. }
  apply N.ltb_ge in E4.
  split.
  - intros H. apply N.leb_le in H. right. split; [lia|]. right. split; [lia|exact H].
  - intros [H|[_ [H|[_ H]]]]; try lia. apply N.leb_le. exact H.
Qed.
Lemma keep_leb_trans : forall T (x y z : item (P := N) (T := T)),
  keep_leb N.ltb x y = true -> keep_leb N.ltb y z = true -> keep_leb N.ltb x z = true.
Proof. intros T x y z. rewrite !keep_leb_spec. unfold keep_ge. lia. Qed.

(* nothing that was left out beats anything that was selected *)
Theorem topk_selected_dominate : forall (T : Type) (k : nat) (seed : N) (parts : list (list T)),
  let items := items_parts (prio_stream (max_len parts) (stream_state0 seed)) 0 parts in
  let ranked := msort (keep_leb N.ltb) items in
  sample_parts k seed parts = map it_val (msort (out_leb N.ltb) (firstn k ranked)) /\
  Permutation (firstn k ranked ++ skipn k ranked) items /\
  forall x y, In x (firstn k ranked) -> In y (skipn k ranked) -> keep_ge x y.
Proof.
  intros T k seed parts items ranked. split; [|split].
  - rewrite sample_parts_topk. reflexivity.
  - rewrite firstn_skipn. apply msort_perm.
  - intros x y Hx Hy.
    assert (Hs : StronglySorted (fun a b => keep_leb N.ltb a b = true) ranked).
    { apply msort_sorted; [apply keep_leb_total|apply keep_leb_trans]. }
    rewrite <- (firstn_skipn k ranked) in Hs.
    destruct (in_split _ _ Hx) as [l1 [l2 E]]. rewrite E, <- app_assoc in Hs. cbn [app] in Hs.
    destruct (StronglySorted_split _ _ _ _ Hs) as [_ Hafter].
    apply keep_leb_spec. apply Hafter. apply in_or_app. right. exact Hy.
Qed.

Theorem topk_entry_points : forall (T : Type) (k : nat) (seed : N) (p : nat) (data : list T),
  global_seq k seed data = topk_spec k seed [data] /\
  global_par k seed p data = topk_spec k seed (runner_split p data).
Proof.
  intros. unfold global_seq, global_par, global_seq_vec, global_par_vec. cbn [concat].
  rewrite !app_nil_r, !sample_parts_topk. split; reflexivity.
Qed.

Theorem msort_is_sort : forall (A : Type) (leb : A -> A -> bool),
  (forall a b, leb a b = true \/ leb b a = true) ->
  (forall a b c, leb a b = true -> leb b c = true -> leb a c = true) ->
  forall l, Permutation (msort leb l) l /\ StronglySorted (fun a b => leb a b = true) (msort leb l).
Proof. intros A leb Ht Htr l. split; [apply msort_perm|apply msort_sorted; assumption]. Qed.

(* ---------------------------------------------------------------- jump-ahead in the stream *)
Lemma sm_next_mix : forall st, sm_next st = (w64 (st + GOLDEN), sm_mix (w64 (st + GOLDEN))).
Proof. intros st. reflexivity. Qed.

Lemma w64_add_idem : forall a b, w64 (w64 a + b) = w64 (a + b).
Proof.
  intros a b. unfold w64. apply N.add_mod_idemp_l. unfold two64. discriminate.
Qed.

Theorem prio_stream_nth : forall n st j,
  j < n -> nth_error (prio_stream n st) j = Some (prio_at st (N.of_nat j)).
Proof.
  induction n as [|n IH]; intros st j Hj; [lia|].
  cbn [prio_stream]. rewrite sm_next_mix. destruct j as [|j]; cbn [nth_error].
  - unfold prio_at. cbn [N.of_nat]. rewrite N.add_0_l, N.mul_1_l. reflexivity.
  - rewrite IH by lia. f_equal. unfold prio_at. f_equal. f_equal.
    rewrite w64_add_idem. f_equal. rewrite Nat2N.inj_succ. lia.
Qed.
