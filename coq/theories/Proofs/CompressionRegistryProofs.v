(* Proofs about the codec registry as process state (register_codec / get_registry) and about
   detection parameterised by the registry (property C10). *)
From Coq Require Import List ZArith Bool Lia Arith.
From IB Require Import IO.Compression Proofs.CompressionProofs.
Import ListNotations.
Open Scope Z_scope.

(* ---------- find ---------- *)
Lemma find_app_first : forall (A : Type) (f : A -> bool) (a b : list A),
  find f (a ++ b) = match find f a with Some x => Some x | None => find f b end.
Proof.
  intros A f a b. induction a as [|x a IH]; [reflexivity|].
  cbn [app find]. destruct (f x); [reflexivity | exact IH].
Qed.

Lemma find_map_comm : forall (A B : Type) (f : B -> bool) (g : A -> B) (l : list A),
  find f (map g l) = option_map g (find (fun x => f (g x)) l).
Proof.
  intros A B f g l. induction l as [|x l IH]; [reflexivity|].
  cbn [map find]. destruct (f (g x)); [reflexivity | exact IH].
Qed.

Lemma find_none_in : forall (A : Type) (f : A -> bool) (l : list A),
  (forall x, In x l -> f x = false) -> find f l = None.
Proof.
  intros A f l H. induction l as [|x l IH]; [reflexivity|].
  cbn [find]. rewrite (H x (or_introl eq_refl)). apply IH. intros y Hy. apply H. right. exact Hy.
Qed.

(* ---------- the registry state machine ---------- *)
Lemma reg_fold_view : forall ops st,
  reg_view (fold_left reg_step ops st) = reg_view st ++ registered ops.
Proof.
  induction ops as [|op ops IH]; intros st.
  - cbn. rewrite app_nil_r. reflexivity.
  - cbn [fold_left]. rewrite IH. destruct op as [|e]; cbn [reg_step reg_view reg_init registered flat_map].
    + reflexivity.
    + rewrite <- app_assoc. reflexivity.
Qed.

(* whatever the order of I/O calls and registrations, the registry a detection sees is the four
   built-in codecs first, then the registered ones in registration order *)
Lemma registry_builtins_first : forall ops,
  reg_view (reg_run ops) = registry_after (registered ops).
Proof. intros ops. unfold reg_run. rewrite reg_fold_view. reflexivity. Qed.

(* ---------- detection over built-ins ++ customs ---------- *)
Lemma option_map_builtin : forall o : option codec,
  option_map ce_id (option_map builtin_entry o) = option_map CBuiltin o.
Proof. intros [c|]; reflexivity. Qed.

Lemma detect_ext_in_builtin : forall p,
  detect_ext_in builtin_entries p = option_map CBuiltin (detect_ext p).
Proof.
  intros p. unfold detect_ext_in, builtin_entries. rewrite find_map_comm, option_map_builtin.
  reflexivity.
Qed.

Lemma detect_ext_in_after : forall cs p,
  detect_ext_in (registry_after cs) p =
  match detect_ext p with Some c => Some (CBuiltin c) | None => detect_ext_in cs p end.
Proof.
  intros cs p. unfold registry_after. unfold detect_ext_in at 1. rewrite find_app_first.
  pose proof (detect_ext_in_builtin p) as Hb. unfold detect_ext_in in Hb.
  destruct (find (fun e => entry_has_ext e p) builtin_entries) as [e|];
    destruct (detect_ext p) as [c|]; cbn [option_map] in Hb |- *; try discriminate.
  - exact Hb.
  - reflexivity.
Qed.

Lemma detect_magic_in_builtin : forall s,
  detect_magic_in builtin_entries s = option_map CBuiltin (detect_magic s).
Proof.
  intros s. unfold detect_magic_in, detect_magic. destruct (peek s) as [|x buf]; [reflexivity|].
  unfold builtin_entries. rewrite find_map_comm, option_map_builtin. reflexivity.
Qed.

Lemma detect_magic_in_after : forall cs s,
  detect_magic_in (registry_after cs) s =
  match detect_magic s with Some c => Some (CBuiltin c) | None => detect_magic_in cs s end.
Proof.
  intros cs s. pose proof (detect_magic_in_builtin s) as Hb.
  unfold detect_magic_in in *. unfold detect_magic in *.
  destruct (peek s) as [|x buf] eqn:Ep; [reflexivity|].
  unfold registry_after. rewrite find_app_first.
  destruct (find (fun e => entry_has_magic e (x :: buf)) builtin_entries) as [e|];
    destruct (find (fun c => (length (magic c) <=? length (x :: buf))%nat
                             && starts_with (magic c) (x :: buf)) registry) as [c|];
    cbn [option_map] in Hb |- *; try discriminate.
  - exact Hb.
  - reflexivity.
Qed.

(* a built-in decision is never changed by registrations, overlapping or not *)
Lemma builtin_wins_ext : forall cs p c,
  has_ext c p = true -> detect_ext_in (registry_after cs) p = Some (CBuiltin c).
Proof.
  intros cs p c H. rewrite detect_ext_in_after. apply detect_ext_iff in H. rewrite H. reflexivity.
Qed.

Lemma builtin_wins_magic : forall cs s c,
  starts_with (signature c) s = true -> detect_magic_in (registry_after cs) s = Some (CBuiltin c).
Proof.
  intros cs s c H. rewrite detect_magic_in_after, (detect_magic_signature c s H). reflexivity.
Qed.

(* registered codecs that do not match leave every decision as it was *)
Definition no_custom_ext (cs : list centry) (p : bytes) : Prop :=
  forall e, In e cs -> entry_has_ext e p = false.
Definition no_custom_magic (cs : list centry) (s : bytes) : Prop :=
  forall e, In e cs -> entry_has_magic e (peek s) = false.

Lemma detect_ext_in_none : forall cs p, no_custom_ext cs p -> detect_ext_in cs p = None.
Proof. intros cs p H. unfold detect_ext_in. rewrite find_none_in by exact H. reflexivity. Qed.

Lemma detect_magic_in_none : forall cs s, no_custom_magic cs s -> detect_magic_in cs s = None.
Proof.
  intros cs s H. unfold detect_magic_in. destruct (peek s) as [|x buf] eqn:Ep; [reflexivity|].
  rewrite find_none_in; [reflexivity|]. intros e He. rewrite <- Ep. exact (H e He).
Qed.

Lemma conservative_ext : forall cs p,
  no_custom_ext cs p -> detect_ext_in (registry_after cs) p = option_map CBuiltin (detect_ext p).
Proof.
  intros cs p H. rewrite detect_ext_in_after, detect_ext_in_none by exact H.
  destruct (detect_ext p); reflexivity.
Qed.

Lemma conservative_magic : forall cs s,
  no_custom_magic cs s ->
  detect_magic_in (registry_after cs) s = option_map CBuiltin (detect_magic s).
Proof.
  intros cs s H. rewrite detect_magic_in_after, detect_magic_in_none by exact H.
  destruct (detect_magic s); reflexivity.
Qed.

Lemma conservative_writer : forall cs w p,
  no_custom_ext cs p ->
  ep_writer_codec_in (registry_after cs) w p = option_map CBuiltin (ep_writer_codec w p).
Proof.
  intros cs w p H. unfold ep_writer_codec_in, ep_writer_codec, writer_codec.
  destruct (writer_detection w); try reflexivity; apply conservative_ext; exact H.
Qed.

Lemma conservative_reader : forall cs r p s,
  no_custom_ext cs p -> no_custom_magic cs s ->
  ep_reader_codec_in (registry_after cs) r p s = option_map CBuiltin (ep_reader_codec r p s).
Proof.
  intros cs r p s He Hm. unfold ep_reader_codec_in, ep_reader_codec.
  destruct (reader_detection r); try reflexivity; try (apply conservative_ext; exact He).
  unfold reader_codec_in, reader_codec. rewrite conservative_ext by exact He.
  destruct (detect_ext p); [reflexivity|]. cbn [option_map]. apply conservative_magic. exact Hm.
Qed.

Lemma conservative : forall cs,
  (forall w p, no_custom_ext cs p ->
     ep_writer_codec_in (registry_after cs) w p = option_map CBuiltin (ep_writer_codec w p)) /\
  (forall r p s, no_custom_ext cs p -> no_custom_magic cs s ->
     ep_reader_codec_in (registry_after cs) r p s = option_map CBuiltin (ep_reader_codec r p s)).
Proof. intros cs. split; [apply conservative_writer | apply conservative_reader]. Qed.

(* with no registration at all the parameterised model IS the model of the first part *)
Lemma no_registration : forall w r p s,
  ep_writer_codec_in builtin_entries w p = option_map CBuiltin (ep_writer_codec w p) /\
  ep_reader_codec_in builtin_entries r p s = option_map CBuiltin (ep_reader_codec r p s).
Proof.
  intros w r p s. rewrite <- (app_nil_r builtin_entries). fold (registry_after []).
  split; [apply conservative_writer | apply conservative_reader]; intros e [].
Qed.

Lemma ep_writer_builtin_wins : forall cs w p c,
  writer_detects w = true -> has_ext c p = true ->
  ep_writer_codec_in (registry_after cs) w p = Some (CBuiltin c).
Proof.
  intros cs w p c Hw H. unfold ep_writer_codec_in.
  destruct w; try discriminate; cbn [writer_detection]; try (apply builtin_wins_ext; exact H).
  rewrite cloud_writer_codec_eq. apply detect_ext_iff in H. rewrite H. reflexivity.
Qed.

Lemma ep_reader_builtin_wins : forall cs r p s c,
  reader_detects r = true -> has_ext c p = true ->
  ep_reader_codec_in (registry_after cs) r p s = Some (CBuiltin c).
Proof.
  intros cs r p s c Hr H. unfold ep_reader_codec_in.
  destruct r; try discriminate; cbn [reader_detection]; unfold reader_codec_in;
    rewrite (builtin_wins_ext cs p c H); reflexivity.
Qed.

(* ---------- the property under arbitrary registrations ---------- *)
Section TransparencyRegistered.
  Variable enc : cid -> bytes -> bytes.
  Variable dec : cid -> bytes -> option bytes.
  Hypothesis dec_enc : forall c b, dec (CBuiltin c) (enc (CBuiltin c) b) = Some b.
  Hypothesis enc_sig : forall c b, starts_with (signature c) (enc (CBuiltin c) b) = true.

  (* built-in extension: compressed with the built-in codec and read back, whatever custom
     codecs were registered before or after the first I/O call *)
  Lemma register_ext_roundtrip : forall ops c w r path b,
    writer_detects w = true -> reader_detects r = true -> has_ext c path = true ->
    let reg := reg_view (reg_run ops) in
    write_in enc reg w path b = enc (CBuiltin c) b /\
    starts_with (signature c) (write_in enc reg w path b) = true /\
    read_in dec reg r path (write_in enc reg w path b) = Some b.
  Proof.
    intros ops c w r path b Hw Hr He. cbv zeta. rewrite registry_builtins_first.
    assert (Hst : write_in enc (registry_after (registered ops)) w path b = enc (CBuiltin c) b).
    { unfold write_in. rewrite (ep_writer_builtin_wins _ w path c Hw He). reflexivity. }
    split; [exact Hst|]. split; [rewrite Hst; apply enc_sig|].
    unfold read_in. rewrite (ep_reader_builtin_wins _ r path _ c Hr He), Hst. apply dec_enc.
  Qed.

  (* compressed content under a name that no codec (built-in or custom) claims *)
  Lemma register_neutral_detects : forall ops c r path b,
    reader_detects r = true -> detect_ext path = None -> no_custom_ext (registered ops) path ->
    read_in dec (reg_view (reg_run ops)) r path (enc (CBuiltin c) b) = Some b.
  Proof.
    intros ops c r path b Hr He Hc. rewrite registry_builtins_first. unfold read_in.
    assert (Hrc : ep_reader_codec_in (registry_after (registered ops)) r path (enc (CBuiltin c) b)
                  = Some (CBuiltin c)).
    { unfold ep_reader_codec_in. destruct r; try discriminate; cbn [reader_detection];
        unfold reader_codec_in; rewrite conservative_ext by exact Hc; rewrite He; cbn [option_map];
        apply builtin_wins_magic; apply enc_sig. }
    rewrite Hrc. apply dec_enc.
  Qed.

  Lemma register_neutral_verbatim : forall ops w r path b,
    detect_ext path = None -> no_custom_ext (registered ops) path ->
    (forall c, starts_with (signature c) b = false) -> no_custom_magic (registered ops) b ->
    let reg := reg_view (reg_run ops) in
    write_in enc reg w path b = b /\ read_in dec reg r path b = Some b.
  Proof.
    intros ops w r path b He Hc Hs Hm. cbv zeta. rewrite registry_builtins_first.
    unfold write_in, read_in.
    rewrite conservative_writer by exact Hc. rewrite conservative_reader by assumption.
    rewrite ep_writer_codec_neutral by exact He.
    rewrite ep_reader_codec_neutral; [split; reflexivity | exact He | apply detect_magic_none; exact Hs].
  Qed.
End TransparencyRegistered.
