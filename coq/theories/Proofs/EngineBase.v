(* Basic facts: decidable equality on values, outcomes, association-list maps. *)
From Coq Require Import List ZArith Bool Arith Lia Permutation Setoid Morphisms.
From IB Require Import Engine.Val Engine.AMap.
Import ListNotations.

(* ---------- induction principle for the nested inductive `val` ---------- *)
Section ValInd.
  Variable P : val -> Prop.
  Hypothesis Hint : forall z, P (VInt z).
  Hypothesis Hpair : forall a b, P a -> P b -> P (VPair a b).
  Hypothesis Hlist : forall l, Forall P l -> P (VList l).
  Hypothesis Hnone : P VNone.
  Hypothesis Hsome : forall v, P v -> P (VSome v).

  Fixpoint val_ind' (v : val) : P v :=
    match v with
    | VInt z => Hint z
    | VPair a b => Hpair a b (val_ind' a) (val_ind' b)
    | VList l =>
        Hlist l ((fix go (l : list val) : Forall P l :=
                    match l with
                    | [] => Forall_nil P
                    | x :: r => Forall_cons x (val_ind' x) (go r)
                    end) l)
    | VNone => Hnone
    | VSome x => Hsome x (val_ind' x)
    end.
End ValInd.

Lemma val_eqb_eq : forall a b, val_eqb a b = true <-> a = b.
Proof.
  induction a as [z|a1 a2 IH1 IH2|l IHl| |x IHx] using val_ind'; intros b;
    destruct b as [z'|b1 b2|l'| |y]; cbn [val_eqb]; try (split; congruence).
  - rewrite Z.eqb_eq. split; congruence.
  - rewrite andb_true_iff, IH1, IH2. split; [intros [-> ->]; reflexivity | intros H; injection H; auto].
  - assert (H : (fix go (l1 l2 : list val) : bool :=
                   match l1, l2 with
                   | [], [] => true
                   | x :: r1, y :: r2 => val_eqb x y && go r1 r2
                   | _, _ => false
                   end) l l' = true <-> l = l').
    { revert l'. induction IHl as [|x l Hx Hl IH]; intros [|y l']; try (split; congruence).
      rewrite andb_true_iff, Hx, IH. split; [intros [-> ->]; reflexivity | intros H; injection H; auto]. }
    rewrite H. split; congruence.
  - rewrite IHx. split; congruence.
Qed.

Lemma val_eqb_spec : forall a b, reflect (a = b) (val_eqb a b).
Proof. intros a b. apply iff_reflect. symmetry. apply val_eqb_eq. Qed.

Lemma val_eqb_refl : forall a, val_eqb a a = true.
Proof. intros a. apply val_eqb_eq. reflexivity. Qed.
Lemma val_eqb_neq : forall a b, val_eqb a b = false <-> a <> b.
Proof. intros a b. destruct (val_eqb_spec a b); split; congruence. Qed.

(* ---------- association-list maps ---------- *)
Section AMapFacts.
  Variable K : Type.
  Variable keqb : K -> K -> bool.
  Hypothesis keqb_spec : forall a b, reflect (a = b) (keqb a b).
  Variable X : Type.

  Local Notation aupd := (@aupd K keqb X).
  Local Notation aget := (@aget K keqb X).

  Definition getd (k : K) (d : X) (m : amap K X) : X :=
    match aget k m with Some x => x | None => d end.

  Lemma aget_aupd_same : forall k d f m, aget k (aupd k d f m) = Some (f (getd k d m)).
  Proof.
    intros k d f m. unfold getd. induction m as [|[k' x] r IH]; cbn [AMap.aupd AMap.aget].
    - destruct (keqb_spec k k); congruence.
    - destruct (keqb_spec k' k) as [->|Hne]; cbn [AMap.aget].
      + destruct (keqb_spec k k); congruence.
      + destruct (keqb_spec k' k); [congruence|]. exact IH.
  Qed.

  Lemma aget_aupd_other : forall k k' d f m, k <> k' -> aget k (aupd k' d f m) = aget k m.
  Proof.
    intros k k' d f m Hne. induction m as [|[k2 x] r IH]; cbn [AMap.aupd AMap.aget].
    - destruct (keqb_spec k' k); congruence.
    - destruct (keqb_spec k2 k') as [->|Hne2]; cbn [AMap.aget].
      + destruct (keqb_spec k' k); [congruence|reflexivity].
      + destruct (keqb_spec k2 k); [reflexivity|exact IH].
  Qed.

  Lemma akeys_aupd_in : forall k k' d f m,
      In k (akeys (aupd k' d f m)) <-> k = k' \/ In k (akeys m).
  Proof.
    intros k k' d f m. unfold akeys. induction m as [|[k2 x] r IH]; cbn [AMap.aupd map fst In].
    - split; [intros [H|[]]; auto | intros [H|[]]; auto].
    - destruct (keqb_spec k2 k') as [->|Hne2]; cbn [map fst In].
      + split; [intros [H|H]; auto | intros [H|[H|H]]; auto; left; congruence].
      + rewrite IH. tauto.
  Qed.

  Lemma akeys_aupd_nodup : forall k d f m, NoDup (akeys m) -> NoDup (akeys (aupd k d f m)).
  Proof.
    intros k d f m. unfold akeys. induction m as [|[k2 x] r IH]; cbn [AMap.aupd map fst]; intros Hnd.
    - constructor; [intros []|constructor].
    - inversion Hnd as [|? ? Hnotin Hnd']; subst.
      destruct (keqb_spec k2 k) as [->|Hne2]; cbn [map fst].
      + constructor; assumption.
      + constructor; [|apply IH; assumption].
        intros Hin. apply (akeys_aupd_in k2 k d f r) in Hin. destruct Hin as [H|H]; [congruence|].
        apply Hnotin. exact H.
  Qed.

  Lemma aget_in_keys : forall k m, (exists x, aget k m = Some x) <-> In k (akeys m).
  Proof.
    intros k m. unfold akeys. induction m as [|[k2 x] r IH]; cbn [AMap.aget map fst In].
    - split; [intros [x H]; discriminate | intros []].
    - destruct (keqb_spec k2 k) as [->|Hne].
      + split; [auto | intros _; eexists; reflexivity].
      + rewrite IH. split; [auto | intros [H|H]; [congruence|exact H]].
  Qed.

  Lemma aget_none_notin : forall k m, aget k m = None <-> ~ In k (akeys m).
  Proof.
    intros k m. rewrite <- aget_in_keys. destruct (aget k m) as [x|].
    - split; [discriminate | intros H; exfalso; apply H; eexists; reflexivity].
    - split; [intros _ [x H]; discriminate | reflexivity].
  Qed.

  Lemma in_amap_aget : forall k x m, NoDup (akeys m) -> (In (k, x) m <-> aget k m = Some x).
  Proof.
    intros k x m. unfold akeys. induction m as [|[k2 y] r IH]; cbn [AMap.aget map fst In]; intros Hnd.
    - split; [intros [] | discriminate].
    - inversion Hnd as [|? ? Hnotin Hnd']; subst.
      destruct (keqb_spec k2 k) as [->|Hne].
      + split.
        * intros [H|H]; [congruence|]. exfalso. apply Hnotin.
          change k with (fst (k, x)). apply in_map. exact H.
        * intros H. left. congruence.
      + rewrite <- (IH Hnd'). split; [intros [H|H]; [congruence|exact H] | auto].
  Qed.
End AMapFacts.

Arguments getd {K} keqb {X}.
