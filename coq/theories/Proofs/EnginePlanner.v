(* Structural facts about the planner passes (src/planner.rs) and soundness of fusion for both
   engines, for ARBITRARY node chains. Used by Props/C03.v. *)
From Coq Require Import List ZArith Bool Arith Permutation Lia.
From IB Require Import Engine.Val Engine.Ops Engine.AMap Engine.Nodes Engine.Exec Engine.Planner
     Engine.Lang Engine.Denote Engine.Static Combiners.Lawful Proofs.EngineBase.
Import ListNotations.
Local Close Scope Z_scope.

(* ---------------- outcome plumbing ---------------- *)

Lemma obind_ext : forall (A B : Type) (o : outcome A) (f g : A -> outcome B),
    (forall a, f a = g a) -> obind o f = obind o g.
Proof. intros A B o f g H. destruct o as [a|e| |]; cbn [obind]; auto. Qed.

Lemma obind_assoc : forall (A B C : Type) (o : outcome A) (f : A -> outcome B) (g : B -> outcome C),
    obind (obind o f) g = obind o (fun a => obind (f a) g).
Proof. intros A B C o f g. destruct o as [a|e| |]; reflexivity. Qed.

(* apply_op / apply_ops / oall of them only ever return Ok or Panic *)
Definition ok_or_panic {A} (o : outcome A) : Prop := (exists a, o = Ok a) \/ o = Panic.

Lemma apply_op_ok_or_panic : forall o p, ok_or_panic (apply_op o p).
Proof.
  intros o p. unfold apply_op, ok_or_panic.
  destruct (Nat.eqb (fst p) (op_in o)); [|right; reflexivity].
  destruct (op_fn o (snd p)) as [l|]; [left; eexists; reflexivity | right; reflexivity].
Qed.

Lemma apply_ops_ok_or_panic : forall ops p, ok_or_panic (apply_ops ops p).
Proof.
  induction ops as [|o r IH]; intros p; cbn [apply_ops].
  - left. eexists. reflexivity.
  - destruct (apply_op_ok_or_panic o p) as [[q Hq]|Hq]; rewrite Hq; cbn [obind].
    + apply IH.
    + right. reflexivity.
Qed.

Lemma oall_ok_or_panic : forall (A B : Type) (f : A -> outcome B) l,
    (forall x, ok_or_panic (f x)) -> ok_or_panic (oall f l).
Proof.
  intros A B f l Hf. induction l as [|x r IH]; cbn [oall].
  - left. eexists. reflexivity.
  - destruct (Hf x) as [[y Hy]|Hy]; rewrite Hy; cbn [obind]; [|right; reflexivity].
    destruct IH as [[ys Hys]|Hys]; rewrite Hys; cbn [obind].
    + left. eexists. reflexivity.
    + right. reflexivity.
Qed.

Lemma apply_ops_app : forall a b p,
    apply_ops (a ++ b) p = obind (apply_ops a p) (apply_ops b).
Proof.
  induction a as [|o a IH]; intros b p; cbn [app apply_ops].
  - reflexivity.
  - destruct (apply_op o p) as [q|e| |]; cbn [obind]; auto.
Qed.

(* the parallel engine: running a fused block on every partition = running the first half on every
   partition, then the second half on every partition (the only failure is Panic) *)
Lemma oall_apply_ops_app : forall a b ps,
    oall (apply_ops (a ++ b)) ps = obind (oall (apply_ops a) ps) (oall (apply_ops b)).
Proof.
  intros a b ps. induction ps as [|x r IH]; cbn [oall].
  - reflexivity.
  - rewrite apply_ops_app, IH.
    destruct (apply_ops_ok_or_panic a x) as [[y Hy]|Hy]; rewrite Hy; cbn [obind];
      [|reflexivity].
    destruct (oall_ok_or_panic _ _ (apply_ops a) r (apply_ops_ok_or_panic a)) as [[ys Hys]|Hys];
      rewrite Hys; cbn [obind oall].
    + reflexivity.
    + destruct (apply_ops_ok_or_panic b y) as [[z Hz]|Hz]; rewrite Hz; reflexivity.
Qed.

(* ---------------- fusion: structure ---------------- *)

Lemma fuse_keeps_ops : forall c,
    stateless_ops (fuse c) = stateless_ops c /\ other_nodes (fuse c) = other_nodes c.
Proof.
  unfold stateless_ops, other_nodes.
  induction c as [|n r [IH1 IH2]]; [split; reflexivity|].
  assert (Hcons : forall n0,
             flat_map (fun n => match n with NB (BStateless ops) => ops | _ => [] end)
                      (n0 :: fuse r)
             = flat_map (fun n => match n with NB (BStateless ops) => ops | _ => [] end)
                        (n0 :: r)
             /\ map kind_of (filter (fun n => negb (is_stateless n)) (n0 :: fuse r))
                = map kind_of (filter (fun n => negb (is_stateless n)) (n0 :: r))).
  { intros n0. cbn [flat_map filter]. rewrite IH1.
    destruct (negb (is_stateless n0)); cbn [map]; rewrite IH2; split; reflexivity. }
  destruct n as [b|lc rc k tl tr tout]; [|exact (Hcons _)].
  destruct b as [s|ops|a b|cb tp tg tout lg|cb lf tin tout fo|t pl]; cbn [fuse];
    try exact (Hcons _).
  destruct (fuse r) as [|n' r'] eqn:E; [exact (Hcons _)|].
  destruct n' as [b'|lc rc k tl tr tout]; [|exact (Hcons _)].
  destruct b' as [s|ops'|a b|cb tp tg tout lg|cb lf tin tout fo|t pl]; try exact (Hcons _).
  cbn [flat_map filter is_stateless negb map] in *.
  rewrite <- IH1, <- IH2, app_assoc. split; reflexivity.
Qed.

(* no operator crosses a non-Stateless node *)
Lemma segments_cons_ext : forall n c c',
    segments c = segments c' -> segments (n :: c) = segments (n :: c').
Proof.
  intros n c c' H. destruct n as [b|lc rc k tl tr tout]; [destruct b|]; cbn [segments];
    rewrite H; reflexivity.
Qed.

Lemma fuse_keeps_segments : forall c, segments (fuse c) = segments c.
Proof.
  induction c as [|n r IH]; [reflexivity|].
  destruct n as [b|lc rc k tl tr tout]; [|cbn [fuse]; apply segments_cons_ext; exact IH].
  destruct b as [s|ops|a b|cb tp tg tout lg|cb lf tin tout fo|t pl]; cbn [fuse];
    try (apply segments_cons_ext; exact IH).
  destruct (fuse r) as [|n' r'] eqn:E; [apply segments_cons_ext; exact IH|].
  destruct n' as [b'|lc rc k tl tr tout]; [|apply segments_cons_ext; exact IH].
  destruct b' as [s|ops'|a b|cb tp tg tout lg|cb lf tin tout fo|t pl];
    try (apply segments_cons_ext; exact IH).
  cbn [segments] in IH |- *. rewrite <- IH.
  destruct (segments r') as [|seg rest]; [reflexivity|].
  rewrite app_assoc. reflexivity.
Qed.

(* ---------------- fusion: sequential engine ---------------- *)

Lemma seq_main_cons_ext : forall sh term n c c',
    (forall i buf, seq_main sh i term c buf = seq_main sh i term c' buf) ->
    forall i buf, seq_main sh i term (n :: c) buf = seq_main sh i term (n :: c') buf.
Proof.
  intros sh term n c c' H i buf. destruct n as [b|lc rc k tl tr tout]; cbn [seq_main].
  - apply obind_ext. intros p. apply H.
  - apply obind_ext. intros lp. apply obind_ext. intros rp. apply obind_ext. intros p. apply H.
Qed.

Lemma seq_main_fuse : forall sh term c i buf,
    seq_main sh i term (fuse c) buf = seq_main sh i term c buf.
Proof.
  intros sh term. induction c as [|n r IH]; intros i buf; [reflexivity|].
  destruct n as [b|lc rc k tl tr tout]; [|cbn [fuse]; apply seq_main_cons_ext; exact IH].
  destruct b as [s|ops|a b|cb tp tg tout lg|cb lf tin tout fo|t pl]; cbn [fuse];
    try (apply seq_main_cons_ext; exact IH).
  destruct (fuse r) as [|n' r'] eqn:E; [apply seq_main_cons_ext; exact IH|].
  destruct n' as [b'|lc rc k tl tr tout]; [|apply seq_main_cons_ext; exact IH].
  destruct b' as [s|ops'|a b|cb tp tg tout lg|cb lf tin tout fo|t pl];
    try (apply seq_main_cons_ext; exact IH).
  (* the merge case *)
  cbn [seq_main seq_bnode next_site].
  destruct buf as [p|]; cbn [take obind]; [|reflexivity].
  rewrite apply_ops_app.
  destruct (apply_ops ops p) as [q|e| |]; cbn [obind]; try reflexivity.
  rewrite <- IH. cbn [seq_main seq_bnode next_site take obind]. reflexivity.
Qed.

Lemma fuse_sound_seq : forall sh term c, exec_seq sh term (fuse c) = exec_seq sh term c.
Proof. intros sh term c. unfold exec_seq. rewrite seq_main_fuse. reflexivity. Qed.

(* ---------------- fusion: parallel engine ---------------- *)

Lemma par_main_cons_ext : forall sh parts n c c',
    (forall i curr, par_main sh i parts c curr = par_main sh i parts c' curr) ->
    forall i curr, par_main sh i parts (n :: c) curr = par_main sh i parts (n :: c') curr.
Proof.
  intros sh parts n c c' H i curr. destruct n as [b|lc rc k tl tr tout]; cbn [par_main].
  - apply obind_ext. intros p. apply H.
  - apply obind_ext. intros lp. apply obind_ext. intros rp. apply obind_ext. intros p. apply H.
Qed.

Lemma par_main_fuse : forall sh parts c i curr,
    par_main sh i parts (fuse c) curr = par_main sh i parts c curr.
Proof.
  intros sh parts. induction c as [|n r IH]; intros i curr; [reflexivity|].
  destruct n as [b|lc rc k tl tr tout]; [|cbn [fuse]; apply par_main_cons_ext; exact IH].
  destruct b as [s|ops|a b|cb tp tg tout lg|cb lf tin tout fo|t pl]; cbn [fuse];
    try (apply par_main_cons_ext; exact IH).
  destruct (fuse r) as [|n' r'] eqn:E; [apply par_main_cons_ext; exact IH|].
  destruct n' as [b'|lc rc k tl tr tout]; [|apply par_main_cons_ext; exact IH].
  destruct b' as [s|ops'|a b|cb tp tg tout lg|cb lf tin tout fo|t pl];
    try (apply par_main_cons_ext; exact IH).
  (* the merge case *)
  cbn [par_main par_bnode next_site]. unfold par_stateless.
  rewrite oall_apply_ops_app, obind_assoc.
  apply obind_ext. intros ps.
  rewrite <- IH. cbn [par_main par_bnode next_site]. reflexivity.
Qed.

Lemma fuse_sound_par : forall sh term c parts,
    exec_par sh term (fuse c) parts = exec_par sh term c parts.
Proof.
  intros sh term c parts. destruct c as [|n r]; [reflexivity|].
  destruct n as [b|lc rc k tl tr tout]; [|reflexivity].
  destruct b as [s|ops|a b|cb tp tg tout lg|cb lf tin tout fo|t pl]; cbn [fuse];
    try reflexivity.
  - cbn [exec_par]. rewrite par_main_fuse. reflexivity.
  - destruct (fuse r) as [|n' r']; [reflexivity|].
    destruct n' as [b'|lc rc k tl tr tout]; [|reflexivity].
    destruct b'; reflexivity.
Qed.

(* ---------------- reorder ---------------- *)

Lemma rinsert_perm : forall x l, Permutation (rinsert x l) (x :: l).
Proof.
  intros x l. induction l as [|y r IH]; cbn [rinsert]; [reflexivity|].
  destruct (rkey_leb y x); [|reflexivity].
  rewrite IH. apply perm_swap.
Qed.

Lemma rsort_fold_perm : forall l acc,
    Permutation (fold_left (fun acc x => rinsert x acc) l acc) (acc ++ l).
Proof.
  induction l as [|x r IH]; intros acc; cbn [fold_left].
  - rewrite app_nil_r. reflexivity.
  - rewrite IH, rinsert_perm. apply (Permutation_middle acc r x).
Qed.

Lemma rsort_perm : forall l, Permutation (rsort l) l.
Proof. intros l. unfold rsort. apply (rsort_fold_perm l []). Qed.

Lemma reorder_ops_perm : forall ops, Permutation ops (reorder_ops ops).
Proof.
  intros ops. unfold reorder_ops.
  destruct (all_value_only ops && (1 <? length ops)); [|reflexivity].
  symmetry. apply rsort_perm.
Qed.

Lemma reorder_within_blocks : forall c,
    Forall2 (fun n n' =>
               n' = n \/
               exists ops ops', n = NB (BStateless ops) /\ n' = NB (BStateless ops') /\
                                Permutation ops ops')
            c (reorder c).
Proof.
  induction c as [|n r IH]; cbn [reorder map]; constructor; [|exact IH].
  destruct n as [b|lc rc k tl tr tout]; [|left; reflexivity].
  destruct b as [s|ops|a b|cb tp tg tout lg|cb lf tin tout fo|t pl]; try (left; reflexivity).
  right. exists ops, (reorder_ops ops). repeat split. apply reorder_ops_perm.
Qed.

Lemma reorder_keeps_segments : forall c,
    Forall2 (fun a b => Permutation a b) (segments c) (segments (reorder c)).
Proof.
  induction c as [|n r IH]; [cbn; constructor; [reflexivity|constructor]|].
  change (reorder (n :: r))
    with ((match n with NB (BStateless ops) => NB (BStateless (reorder_ops ops)) | _ => n end)
            :: reorder r).
  assert (Hother : Forall2 (fun a b => Permutation a b) ([] :: segments r)
                           ([] :: segments (reorder r))).
  { constructor; [reflexivity|exact IH]. }
  destruct n as [b|lc rc k tl tr tout]; [|exact Hother].
  destruct b as [s|ops|a b|cb tp tg tout lg|cb lf tin tout fo|t pl]; try exact Hother.
  cbn [segments].
  inversion IH as [Hl Hr|seg seg' rest rest' Hseg Hrest Hl Hr].
  - constructor; [apply reorder_ops_perm|constructor].
  - constructor; [|exact Hrest].
    apply Permutation_app; [apply reorder_ops_perm|exact Hseg].
Qed.

Lemma reorder_pinned : forall ops,
    existsb (fun o => negb (op_vo o && op_kp o && op_rs o)) ops = true -> reorder_ops ops = ops.
Proof.
  intros ops H. unfold reorder_ops.
  assert (Hf : all_value_only ops = false).
  { unfold all_value_only. induction ops as [|o r IH]; cbn [existsb forallb] in *.
    - discriminate.
    - destruct (op_vo o && op_kp o && op_rs o); cbn [negb orb andb] in *.
      + apply IH. exact H.
      + reflexivity. }
  rewrite Hf. reflexivity.
Qed.

(* ---------------- lift ---------------- *)

Lemma lift_fires : forall a b cb tp tg tout r,
    lift (NB (BGroupByKey a b) :: NB (BCombineValues cb tp tg tout true) :: r)
    = NB (BCombineValues cb tp tg tout false) :: lift r.
Proof. reflexivity. Qed.

Lemma lift_only_there : forall n r,
    (forall a b cb tp tg tout r', n = NB (BGroupByKey a b) ->
                                  r <> NB (BCombineValues cb tp tg tout true) :: r') ->
    lift (n :: r) = n :: lift r.
Proof.
  intros n r H.
  destruct n as [b|lc rc k tl tr tout]; [|reflexivity].
  destruct b as [s|ops|a b|cb tp tg tout lg|cb lf tin tout fo|t pl]; try reflexivity.
  destruct r as [|n2 r2]; [reflexivity|].
  destruct n2 as [b2|lc rc k tl tr tout]; [|reflexivity].
  destruct b2 as [s|ops|a2 b2|cb tp tg tout lg|cb lf tin tout fo|t pl]; try reflexivity.
  destruct lg; [|reflexivity].
  exfalso. exact (H a b cb tp tg tout r2 eq_refl eq_refl).
Qed.

(* ---------------- drop_mid ---------------- *)

Definition not_mat (n : node) : bool :=
  match n with NB (BMaterialized _ _) => false | _ => true end.

Lemma drop_mid_cons2 : forall n m r,
    drop_mid (n :: m :: r) = if not_mat n then n :: drop_mid (m :: r) else drop_mid (m :: r).
Proof.
  intros n m r. destruct n as [b|lc rc k tl tr tout]; [|reflexivity].
  destruct b; reflexivity.
Qed.

Lemma drop_mid_single : forall n, drop_mid [n] = [n].
Proof. intros n. destruct n as [b|lc rc k tl tr tout]; [destruct b|]; reflexivity. Qed.

Lemma drop_mid_nonempty : forall n r, drop_mid (n :: r) <> [].
Proof.
  intros n r. revert n. induction r as [|m r IH]; intros n.
  - rewrite drop_mid_single. discriminate.
  - rewrite drop_mid_cons2. destruct (not_mat n); [discriminate|apply IH].
Qed.

Lemma last_cons_nonempty : forall (A : Type) (x : A) l d, l <> [] -> last (x :: l) d = last l d.
Proof. intros A x l d H. destruct l as [|y r]; [contradiction|reflexivity]. Qed.

Lemma filter_cons_if : forall (A : Type) (f : A -> bool) x l,
    filter f (x :: l) = if f x then x :: filter f l else filter f l.
Proof. reflexivity. Qed.

Lemma drop_mid_keeps_rest : forall c,
    filter (fun n => match n with NB (BMaterialized _ _) => false | _ => true end) (drop_mid c)
    = filter (fun n => match n with NB (BMaterialized _ _) => false | _ => true end) c
    /\ last (map kind_of (drop_mid c)) KSource = last (map kind_of c) KSource.
Proof.
  change (fun n => match n with NB (BMaterialized _ _) => false | _ => true end) with not_mat.
  destruct c as [|n r]; [split; reflexivity|].
  revert n. induction r as [|m r IH]; intros n; [rewrite drop_mid_single; split; reflexivity|].
  destruct (IH m) as [IH1 IH2].
  rewrite drop_mid_cons2, (filter_cons_if _ not_mat n (m :: r)).
  assert (Hne : map kind_of (drop_mid (m :: r)) <> []).
  { intros Hm. apply map_eq_nil in Hm. exact (drop_mid_nonempty m r Hm). }
  assert (Hlast : last (map kind_of (n :: m :: r)) KSource = last (map kind_of (m :: r)) KSource).
  { cbn [map]. apply last_cons_nonempty. discriminate. }
  rewrite Hlast.
  destruct (not_mat n) eqn:En.
  - rewrite filter_cons_if, En, IH1. split; [reflexivity|].
    cbn [map]. rewrite (last_cons_nonempty _ _ _ _ Hne). exact IH2.
  - split; [exact IH1 | exact IH2].
Qed.

Lemma drop_mid_identity : forall c,
    forallb (fun n => match n with NB (BMaterialized _ _) => false | _ => true end) c = true ->
    drop_mid c = c.
Proof.
  change (fun n => match n with NB (BMaterialized _ _) => false | _ => true end) with not_mat.
  destruct c as [|n r]; [reflexivity|].
  revert n. induction r as [|m r IH]; intros n H; [apply drop_mid_single|].
  rewrite drop_mid_cons2.
  cbn [forallb] in H. apply andb_true_iff in H. destruct H as [Hn Hr].
  rewrite Hn. f_equal. apply IH. exact Hr.
Qed.

(* ---------------- explain ---------------- *)

Lemma explain_is_plan : forall c, explain c = map kind_of c /\ length (explain c) = length c.
Proof. intros c. split; [reflexivity|]. unfold explain. apply map_length. Qed.
