(* Proofs about the model of the entry points of helpers/timestamped.rs, Window::new and key_by
   (Window/Timestamped.v), composed with the window grouping helpers. *)
From Coq Require Import List ZArith Bool Lia Permutation.
From IB Require Import Window.Tumble Window.Grouping Window.Timestamped
     Proofs.WindowTumbleProofs Proofs.WindowGroupingProofs.
Import ListNotations.
Open Scope Z_scope.

(* ---------- Window::new ---------- *)
Lemma window_new_spec : forall s e : Z,
    (window_new_debug s e = Ok (s, e) <-> s <= e)
    /\ (window_new_debug s e = Panic <-> e < s)
    /\ window_new_release s e = Ok (s, e).
Proof.
  intros s e. unfold window_new_debug, window_new_release.
  destruct (Z.leb_spec s e) as [Hle|Hgt]; repeat split; intros; try lia; try reflexivity;
    try discriminate.
Qed.

(* every window Window::tumble returns satisfies Window::new's invariant (strictly) and fits u64 *)
Lemma tumble_window_valid : forall ts size off w,
    tumble_debug ts size off = Ok w ->
    fst w < snd w /\ 0 <= fst w /\ snd w < 2 ^ 64 /\ window_new_debug (fst w) (snd w) = Ok w.
Proof.
  intros ts size off w H. rewrite tumble_debug_eq in H.
  destruct (Z.leb_spec size 0) as [Hs|Hs]; [discriminate|].
  destruct (Z.ltb_spec ts (off mod size)) as [Hlo|Hlo]; [discriminate|].
  destruct (Z.leb_spec U64 (win_start ts size off + size)) as [Hhi|Hhi]; [discriminate|].
  injection H as <-. cbn [fst snd]. unfold U64 in Hhi.
  assert (H0 : 0 <= win_start ts size off) by (apply win_start_nonneg_iff; lia).
  repeat split; try lia.
  unfold window_new_debug.
  assert (Hle : (win_start ts size off <=? win_start ts size off + size) = true)
    by (apply Z.leb_le; lia).
  rewrite Hle. reflexivity.
Qed.

(* ---------- the entry points are element-wise and keep everything ---------- *)
Lemma attach_timestamps_spec : forall T (f : T -> Z) (p : list T),
    map snd (attach_timestamps f p) = p
    /\ map fst (attach_timestamps f p) = map f p
    /\ length (attach_timestamps f p) = length p.
Proof.
  intros T f p. unfold attach_timestamps, timestamped_new. repeat split.
  - rewrite map_map. cbn [snd]. apply map_id.
  - rewrite map_map. cbn [fst]. reflexivity.
  - apply map_length.
Qed.

Lemma to_timestamped_id : forall T (p : list (Z * T)), to_timestamped p = p.
Proof.
  intros T p. unfold to_timestamped, timestamped_new. induction p as [|[t v] p IH]; [reflexivity|].
  cbn [map fst snd]. rewrite IH. reflexivity.
Qed.

Lemma key_by_spec : forall T K (kf : T -> K) (p : list T),
    map snd (key_by kf p) = p /\ map fst (key_by kf p) = map kf p.
Proof.
  intros T K kf p. unfold key_by. split; rewrite map_map; cbn [fst snd]; [apply map_id|reflexivity].
Qed.

(* a stateless entry point commutes with the partitioning of the source *)
Lemma attach_timestamps_concat : forall T (f : T -> Z) (ps : list (list T)),
    concat (map (attach_timestamps f) ps) = attach_timestamps f (concat ps).
Proof. intros. unfold attach_timestamps. symmetry. apply concat_map. Qed.

Lemma entry_points_exact : forall T (f : T -> Z) (p : list T) (q : list (Z * T)) (ps : list (list T)),
    (map snd (attach_timestamps f p) = p /\ map fst (attach_timestamps f p) = map f p
     /\ length (attach_timestamps f p) = length p)
    /\ to_timestamped q = q
    /\ concat (map (attach_timestamps f) ps) = attach_timestamps f (concat ps).
Proof.
  intros. split; [apply attach_timestamps_spec|]. split; [apply to_timestamped_id|].
  apply attach_timestamps_concat.
Qed.

(* ---------- entry point, then window grouping ---------- *)
Definition spec_tag_attached {T} (f : T -> Z) (size off : Z) (t : T) : window * T :=
  (spec_window size off (f t), t).

Lemma spec_tag_attached_eq : forall T (f : T -> Z) size off (l : list T),
    map (spec_tag_unkeyed size off) (attach_timestamps f l) = map (spec_tag_attached f size off) l.
Proof.
  intros. unfold attach_timestamps, timestamped_new. rewrite map_map. reflexivity.
Qed.

Lemma attach_group_by_window_exact : forall T (f : T -> Z) (size off : Z) (ps : list (list T)),
    1 <= size ->
    (forall t, In t (concat ps) -> unrepresentable (f t) size off = false) ->
    exists groups,
      attach_group_by_window tumble_debug f size off ps = Ok groups
      /\ exact_grouping window_eqb groups (map (spec_tag_attached f size off) (concat ps)).
Proof.
  intros T f size off ps Hs Hrep. unfold attach_group_by_window.
  destruct (group_by_window_exact T size off (map (attach_timestamps f) ps) Hs) as [g [Hg He]].
  - intros ev Hin. rewrite attach_timestamps_concat in Hin. unfold attach_timestamps in Hin.
    apply in_map_iff in Hin. destruct Hin as [t [<- Ht]]. cbn [timestamped_new fst]. apply Hrep. exact Ht.
  - exists g. split; [exact Hg|].
    rewrite attach_timestamps_concat, spec_tag_attached_eq in He. exact He.
Qed.

Lemma to_timestamped_group_by_window_exact : forall T (size off : Z) (ps : list (list (Z * T))),
    1 <= size ->
    (forall ev, In ev (concat ps) -> unrepresentable (fst ev) size off = false) ->
    exists groups,
      to_timestamped_group_by_window tumble_debug size off ps = Ok groups
      /\ exact_grouping window_eqb groups (map (spec_tag_unkeyed size off) (concat ps)).
Proof.
  intros T size off ps Hs Hrep. unfold to_timestamped_group_by_window.
  assert (Hid : map to_timestamped ps = ps).
  { induction ps as [|p ps IH]; [reflexivity|]. cbn [map]. rewrite to_timestamped_id.
    f_equal. apply IH. intros ev Hin. apply Hrep. cbn [concat]. apply in_or_app. right. exact Hin. }
  rewrite Hid. apply group_by_window_exact; assumption.
Qed.

Lemma key_by_attach_concat : forall T K (f : T -> Z) (kf : Z * T -> K) (ps : list (list T)),
    concat (map (fun p => key_by kf (attach_timestamps f p)) ps)
    = key_by kf (attach_timestamps f (concat ps)).
Proof.
  intros T K f kf ps. induction ps as [|p ps IH]; [reflexivity|].
  cbn [map concat]. rewrite IH. unfold key_by, attach_timestamps. rewrite !map_app. reflexivity.
Qed.

Definition spec_tag_attached_keyed {T K} (f : T -> Z) (kf : Z * T -> K) (size off : Z) (t : T)
  : (K * window) * T :=
  ((kf (f t, t), spec_window size off (f t)), t).

Lemma attach_key_group_exact : forall T K (keqb : K -> K -> bool),
    (forall x y, reflect (x = y) (keqb x y)) ->
    forall (f : T -> Z) (kf : Z * T -> K) (size off : Z) (ps : list (list T)),
      1 <= size ->
      (forall t, In t (concat ps) -> unrepresentable (f t) size off = false) ->
      exists groups,
        attach_key_group keqb tumble_debug f kf size off ps = Ok groups
        /\ exact_grouping (kw_eqb keqb) groups
                          (map (spec_tag_attached_keyed f kf size off) (concat ps)).
Proof.
  intros T K keqb Hk f kf size off ps Hs Hrep. unfold attach_key_group.
  set (g := fun p : list T => key_by kf (attach_timestamps f p)).
  assert (Hc : concat (map g ps) = g (concat ps)) by (apply key_by_attach_concat).
  destruct (group_by_key_and_window_exact K T keqb Hk size off (map g ps) Hs) as [gr [Hg He]].
  - intros kv Hin. rewrite Hc in Hin. unfold g, key_by, attach_timestamps in Hin.
    rewrite map_map in Hin. apply in_map_iff in Hin. destruct Hin as [t [<- Ht]].
    cbn [timestamped_new fst snd]. apply Hrep. exact Ht.
  - exists gr. split; [exact Hg|]. rewrite Hc in He.
    assert (Hm : map (spec_tag_keyed size off) (g (concat ps))
                 = map (spec_tag_attached_keyed f kf size off) (concat ps)).
    { unfold g, key_by, attach_timestamps, timestamped_new. rewrite !map_map. reflexivity. }
    rewrite Hm in He. exact He.
Qed.

(* one stamped event of the known class (or size 0) panics the whole run *)
Lemma attach_group_by_window_panics : forall T (f : T -> Z) (size off : Z) (ps : list (list T)) t,
    In t (concat ps) -> (size <= 0 \/ unrepresentable (f t) size off = true) ->
    attach_group_by_window tumble_debug f size off ps = Panic.
Proof.
  intros T f size off ps t Hin Hbad. unfold attach_group_by_window.
  apply (group_by_window_panics T size off _ (timestamped_new (f t) t)).
  - rewrite attach_timestamps_concat. unfold attach_timestamps.
    apply (in_map (fun t0 => timestamped_new (f t0) t0)). exact Hin.
  - exact Hbad.
Qed.
