(* The digest invariant of the exact instance and its preservation by every public operation:
   for a digest built from the finite inputs l (value, weight >= 1),
     - l = []  : no centroids, total weight 0, min = +inf, max = -inf;
     - l <> [] : min / max are the smallest / largest input value, every centroid has a finite mean
                 in [min, max] and a finite weight >= 1, the weights add up to the total weight,
                 the total weight is the sum of the input weights, and a single centroid is only
                 possible when min = max. *)
From Coq Require Import List Bool Arith QArith Qabs Lqa Lia Permutation Sorted.
From IB Require Import Combiners.TDigest Proofs.TDigestBase Proofs.TDigestCompress.
Import ListNotations.
Local Open Scope Q_scope.

Inductive Inv (l : list (Q * Q)) (d : digest X) : Prop :=
| Inv_empty : forall W,
    l = [] -> d_cents d = [] -> d_total d = Fin W -> W == 0 ->
    d_min d = PInf -> d_max d = NInf -> Inv l d
| Inv_some : forall lo hi W,
    l <> [] -> d_cents d <> [] ->
    d_min d = Fin lo -> d_max d = Fin hi -> d_total d = Fin W ->
    is_lo lo l -> is_hi hi l ->
    Forall (fin_c lo hi) (d_cents d) ->
    W == sumw (d_cents d) -> W == wsum l ->
    (forall c, d_cents d = [c] -> lo == hi) ->
    Inv l d.

(* ------------------------------------------------------------------ min / max *)
Lemma xmin_fin : forall a b, xmin (Fin a) (Fin b) = Fin (if qltb b a then b else a).
Proof. intros a b. cbn [xmin xltb]. destruct (qltb b a); reflexivity. Qed.
Lemma xmax_fin : forall a b, xmax (Fin a) (Fin b) = Fin (if qltb a b then b else a).
Proof. intros a b. cbn [xmax xltb]. destruct (qltb a b); reflexivity. Qed.

Lemma qmin_spec : forall a b, let m := if qltb b a then b else a in
  m <= a /\ m <= b /\ (m == a \/ m == b).
Proof.
  intros a b. cbv zeta. destruct (qltb b a) eqn:L.
  - apply qltb_true in L. split; [lra | split; [lra | right; lra]].
  - apply qltb_false in L. split; [lra | split; [lra | left; lra]].
Qed.
Lemma qmax_spec : forall a b, let m := if qltb a b then b else a in
  a <= m /\ b <= m /\ (m == a \/ m == b).
Proof.
  intros a b. cbv zeta. destruct (qltb a b) eqn:L.
  - apply qltb_true in L. split; [lra | split; [lra | right; lra]].
  - apply qltb_false in L. split; [lra | split; [lra | left; lra]].
Qed.

Lemma is_lo_single : forall v w, is_lo v [(v, w)].
Proof.
  intros v w. split.
  - exists (v, w). split; [left; reflexivity | reflexivity].
  - intros p [<-|[]]. cbn. lra.
Qed.
Lemma is_hi_single : forall v w, is_hi v [(v, w)].
Proof.
  intros v w. split.
  - exists (v, w). split; [left; reflexivity | reflexivity].
  - intros p [<-|[]]. cbn. lra.
Qed.

(* the minimum of two non-empty lists' minima is the minimum of their concatenation *)
Lemma is_lo_app : forall a b l1 l2, is_lo a l1 -> is_lo b l2 ->
  is_lo (if qltb b a then b else a) (l1 ++ l2).
Proof.
  intros a b l1 l2 [(p1 & I1 & E1) L1] [(p2 & I2 & E2) L2].
  destruct (qmin_spec a b) as (Ha & Hb & Hc). cbv zeta in *.
  set (m := if qltb b a then b else a) in *. split.
  - destruct Hc as [Hc|Hc].
    + exists p1. split; [apply in_or_app; left; exact I1 | rewrite E1, Hc; reflexivity].
    + exists p2. split; [apply in_or_app; right; exact I2 | rewrite E2, Hc; reflexivity].
  - intros p Hp. apply in_app_or in Hp. destruct Hp as [Hp|Hp].
    + specialize (L1 _ Hp). lra.
    + specialize (L2 _ Hp). lra.
Qed.
Lemma is_hi_app : forall a b l1 l2, is_hi a l1 -> is_hi b l2 ->
  is_hi (if qltb a b then b else a) (l1 ++ l2).
Proof.
  intros a b l1 l2 [(p1 & I1 & E1) L1] [(p2 & I2 & E2) L2].
  destruct (qmax_spec a b) as (Ha & Hb & Hc). cbv zeta in *.
  set (m := if qltb a b then b else a) in *. split.
  - destruct Hc as [Hc|Hc].
    + exists p1. split; [apply in_or_app; left; exact I1 | rewrite E1, Hc; reflexivity].
    + exists p2. split; [apply in_or_app; right; exact I2 | rewrite E2, Hc; reflexivity].
  - intros p Hp. apply in_app_or in Hp. destruct Hp as [Hp|Hp].
    + specialize (L1 _ Hp). lra.
    + specialize (L2 _ Hp). lra.
Qed.

Lemma wsum_app : forall a b, wsum (a ++ b) == wsum a + wsum b.
Proof.
  induction a as [|x a IH]; intro b.
  - change ([] ++ b) with b. change (wsum []) with 0. lra.
  - change (wsum ((x :: a) ++ b)) with (snd x + wsum (a ++ b)).
    change (wsum (x :: a)) with (snd x + wsum a). rewrite IH. lra.
Qed.

Lemma is_lo_le_hi : forall lo hi l, is_lo lo l -> is_hi hi l -> lo <= hi.
Proof.
  intros lo hi l [(p & I & E) L] [_ H]. specialize (H _ I). lra.
Qed.

(* ------------------------------------------------------------------ compress *)
Lemma inv_compress : forall l d, Inv l d -> Inv l (td_compress xarith d).
Proof.
  intros l d H. destruct H as [W El Ec Et HW Hmin Hmax | lo hi W Nl Nc Hmin Hmax Et Hlo Hhi Hf HW HWl H1].
  - unfold td_compress. rewrite Ec. eapply Inv_empty; eassumption.
  - unfold td_compress. destruct (d_cents d) as [|c0 cs] eqn:Ecs; [contradiction|].
    rewrite Et.
    destruct (compress_cents_spec (d_comp d) (d_min d) (d_max d) W lo hi (c0 :: cs) Hf Nc) as (F & S & SW & NE & ONE).
    eapply Inv_some with (lo := lo) (hi := hi) (W := W); cbn [d_cents d_min d_max d_total];
      try assumption; try reflexivity.
    + eapply Qeq_trans; [exact HW | symmetry; exact SW].
    + intros c E. destruct (ONE _ E) as (y & Ey). apply (H1 y). exact Ey.
Qed.

(* ------------------------------------------------------------------ add_weighted *)
Lemma inv_add_nonfinite : forall (d : digest X) v w,
  xfinite v = false -> td_add_weighted xarith d v w = d.
Proof. intros d v w H. unfold td_add_weighted. cbn [a_is_finite xarith]. rewrite H. reflexivity. Qed.

Lemma inv_add : forall l d v w, Inv l d -> 1 <= w ->
  Inv ((v, w) :: l) (td_add_weighted xarith d (Fin v) (Fin w)).
Proof.
  intros l d v w H Hw. unfold td_add_weighted. cbn [a_is_finite xarith xfinite negb].
  match goal with |- Inv _ (if ?b then td_compress _ ?d1 else _) =>
    assert (I1 : Inv ((v, w) :: l) d1); [|destruct b; [apply inv_compress|]; exact I1] end.
  destruct H as [W El Ec Et HW Hmin Hmax | lo hi W Nl Nc Hmin Hmax Et Hlo Hhi Hf HW HWl H1].
  - subst l. eapply Inv_some with (lo := v) (hi := v) (W := W + w);
      cbn [d_cents d_min d_max d_total a_add a_min a_max xarith].
    + discriminate.
    + rewrite Ec. discriminate.
    + rewrite Hmin. reflexivity.
    + rewrite Hmax. reflexivity.
    + rewrite Et. reflexivity.
    + apply is_lo_single.
    + apply is_hi_single.
    + rewrite Ec. constructor; [|constructor]. cbn. split; [lra | exact Hw].
    + rewrite Ec. change (sumw ([] ++ [(Fin v, Fin w)])) with (w + 0). lra.
    + change (wsum [(v, w)]) with (w + 0). lra.
    + intros. lra.
  - destruct (qmin_spec lo v) as (A1 & A2 & _). destruct (qmax_spec hi v) as (B1 & B2 & _).
    cbv zeta in *.
    eapply Inv_some with (lo := if qltb v lo then v else lo) (hi := if qltb hi v then v else hi)
                         (W := W + w);
      cbn [d_cents d_min d_max d_total a_add a_min a_max xarith].
    + discriminate.
    + intro E. apply app_eq_nil in E. destruct E; discriminate.
    + rewrite Hmin. apply xmin_fin.
    + rewrite Hmax. apply xmax_fin.
    + rewrite Et. reflexivity.
    + change ((v, w) :: l) with ([(v, w)] ++ l).
      pose proof (is_lo_app v lo [(v, w)] l (is_lo_single v w) Hlo) as G.
      destruct G as [(p & Ip & Ep) Lp]. destruct (qmin_spec v lo) as (C1 & C2 & _). cbv zeta in *.
      split.
      * exists p. split; [exact Ip|]. rewrite Ep.
        destruct (qltb lo v) eqn:L1, (qltb v lo) eqn:L2;
          try apply qltb_true in L1; try apply qltb_true in L2;
          try apply qltb_false in L1; try apply qltb_false in L2; lra.
      * intros q Hq. specialize (Lp _ Hq).
        destruct (qltb lo v) eqn:L1, (qltb v lo) eqn:L2;
          try apply qltb_true in L1; try apply qltb_true in L2;
          try apply qltb_false in L1; try apply qltb_false in L2; lra.
    + change ((v, w) :: l) with ([(v, w)] ++ l).
      pose proof (is_hi_app v hi [(v, w)] l (is_hi_single v w) Hhi) as G.
      destruct G as [(p & Ip & Ep) Lp]. split.
      * exists p. split; [exact Ip|]. rewrite Ep.
        destruct (qltb v hi) eqn:L1, (qltb hi v) eqn:L2;
          try apply qltb_true in L1; try apply qltb_true in L2;
          try apply qltb_false in L1; try apply qltb_false in L2; lra.
      * intros q Hq. specialize (Lp _ Hq).
        destruct (qltb v hi) eqn:L1, (qltb hi v) eqn:L2;
          try apply qltb_true in L1; try apply qltb_true in L2;
          try apply qltb_false in L1; try apply qltb_false in L2; lra.
    + apply Forall_app. split.
      * eapply Forall_impl; [|exact Hf]. intros c Hc. eapply fin_c_widen; [| |exact Hc]; lra.
      * constructor; [|constructor]. cbn. split; [|exact Hw].
        pose proof (is_lo_le_hi _ _ _ Hlo Hhi).
        destruct (qltb v lo) eqn:L1, (qltb hi v) eqn:L2;
          try apply qltb_true in L1; try apply qltb_true in L2;
          try apply qltb_false in L1; try apply qltb_false in L2; lra.
    + rewrite sumw_app. change (sumw [(Fin v, Fin w)]) with (w + 0). lra.
    + change (wsum ((v, w) :: l)) with (w + wsum l). lra.
    + intros c E. apply (f_equal (@length _)) in E. rewrite app_length in E. cbn in E.
      destruct (d_cents d); [contradiction | cbn in E; lia].
Qed.

(* ------------------------------------------------------------------ merge *)
Lemma inv_merge : forall l1 l2 d1 d2, Inv l1 d1 -> Inv l2 d2 ->
  Inv (l1 ++ l2) (td_merge xarith d1 d2).
Proof.
  intros l1 l2 d1 d2 H1 H2. unfold td_merge. cbn [a_eqb a_zero xarith].
  destruct H2 as [W2 El2 Ec2 Et2 HW2 Hmin2 Hmax2
                 | lo2 hi2 W2 Nl2 Nc2 Hmin2 Hmax2 Et2 Hlo2 Hhi2 Hf2 HW2 HWl2 H12].
  - rewrite Et2. cbn [xeqb]. apply Qeq_bool_iff in HW2. rewrite HW2. subst l2.
    rewrite app_nil_r. exact H1.
  - rewrite Et2. cbn [xeqb].
    assert (P2 : 1 <= W2) by (rewrite HW2; eapply sumw_pos; eassumption).
    assert (Z : Qeq_bool W2 0 = false) by (apply qeqb_false; lra).
    rewrite Z. apply inv_compress.
    destruct H1 as [W1 El1 Ec1 Et1 HW1 Hmin1 Hmax1
                   | lo1 hi1 W1 Nl1 Nc1 Hmin1 Hmax1 Et1 Hlo1 Hhi1 Hf1 HW1 HWl1 H11].
    + subst l1. eapply Inv_some with (lo := lo2) (hi := hi2) (W := W1 + W2);
        cbn [d_cents d_min d_max d_total a_add a_min a_max xarith app].
      * exact Nl2.
      * rewrite Ec1. exact Nc2.
      * rewrite Hmin1, Hmin2. reflexivity.
      * rewrite Hmax1, Hmax2. reflexivity.
      * rewrite ?Et1, ?Et2. reflexivity.
      * exact Hlo2.
      * exact Hhi2.
      * rewrite Ec1. exact Hf2.
      * rewrite Ec1. cbn [app]. lra.
      * lra.
      * rewrite Ec1. exact H12.
    + destruct (qmin_spec lo1 lo2) as (A1 & A2 & _). destruct (qmax_spec hi1 hi2) as (B1 & B2 & _).
      cbv zeta in *.
      eapply Inv_some with (lo := if qltb lo2 lo1 then lo2 else lo1)
                           (hi := if qltb hi1 hi2 then hi2 else hi1) (W := W1 + W2);
        cbn [d_cents d_min d_max d_total a_add a_min a_max xarith].
      * intro E. apply app_eq_nil in E. destruct E. contradiction.
      * intro E. apply app_eq_nil in E. destruct E. contradiction.
      * rewrite Hmin1, Hmin2. apply xmin_fin.
      * rewrite Hmax1, Hmax2. apply xmax_fin.
      * rewrite ?Et1, ?Et2. reflexivity.
      * apply is_lo_app; assumption.
      * apply is_hi_app; assumption.
      * apply Forall_app. split.
        -- eapply Forall_impl; [|exact Hf1]. intros c Hc. eapply fin_c_widen; [| |exact Hc]; lra.
        -- eapply Forall_impl; [|exact Hf2]. intros c Hc. eapply fin_c_widen; [| |exact Hc]; lra.
      * rewrite sumw_app. lra.
      * rewrite wsum_app. lra.
      * intros c E. apply (f_equal (@length _)) in E. rewrite app_length in E. cbn in E.
        destruct (d_cents d1); [contradiction|]. destruct (d_cents d2); [contradiction|].
        cbn in E. lia.
Qed.

(* ------------------------------------------------------------------ every program *)
Lemma inv_new : forall c, Inv [] (td_new xarith c).
Proof.
  intro c. eapply Inv_empty with (W := 0); cbn; try reflexivity.
Qed.

Theorem run_inv : forall p, wf_prog p -> Inv (inputs p) (run xarith p).
Proof.
  induction p as [c|p IH v|p IH v w|p1 IH1 p2 IH2|p IH]; cbn [wf_prog inputs run]; intro Hwf.
  - apply inv_new.
  - unfold td_add. destruct v as [x| | |]; try (rewrite inv_add_nonfinite by reflexivity; auto).
    apply inv_add; [auto | cbn; lra].
  - destruct Hwf as (Hp & y & -> & Hy).
    destruct v as [x| | |]; try (rewrite inv_add_nonfinite by reflexivity; auto).
    apply inv_add; auto.
  - destruct Hwf as (H1 & H2). apply inv_merge; auto.
  - apply inv_compress. auto.
Qed.
