(* Lawfulness of DistinctCount and DistinctSet (models in Combiners/Distinct.v), for any element
   type whose Boolean equality decides equality. *)
From Coq Require Import List ZArith Bool Lia Permutation.
From IB Require Import Combiners.Lawful Combiners.Distinct.
Import ListNotations.

Section DistinctProofs.
  Context {T : Type}.
  Variable eqb : T -> T -> bool.
  Hypothesis eqb_spec : forall x y, reflect (x = y) (eqb x y).

  Lemma set_mem_In : forall x s, set_mem eqb x s = true <-> In x s.
  Proof.
    intros x s. unfold set_mem. rewrite existsb_exists. split.
    - intros [y [Hy He]]. destruct (eqb_spec x y) as [->|]; [exact Hy|discriminate].
    - intros H. exists x. split; [exact H|]. destruct (eqb_spec x x); congruence.
  Qed.

  Lemma set_insert_R : forall a m v, set_R a m -> set_R (set_insert eqb a v) (v :: m).
  Proof.
    intros a m v [Hnd Hin]. unfold set_insert. destruct (set_mem eqb v a) eqn:Hm.
    - apply set_mem_In in Hm. split; [exact Hnd|].
      intros x. rewrite Hin. cbn [In]. split; [auto|]. intros [<-|H]; [apply Hin; exact Hm|exact H].
    - assert (Hn : ~ In v a) by (rewrite <- set_mem_In; congruence).
      split.
      + apply NoDup_rev in Hnd. rewrite <- (rev_involutive (a ++ [v])). apply NoDup_rev.
        rewrite rev_app_distr. cbn [rev app]. constructor; [|exact Hnd].
        rewrite <- in_rev. exact Hn.
      + intros x. rewrite in_app_iff, Hin. cbn [In]. tauto.
  Qed.

  Lemma set_extend_R : forall xs a m, set_R a m -> set_R (set_extend eqb a xs) (rev xs ++ m).
  Proof.
    induction xs as [|x xs IH]; intros a m Ha; unfold set_extend in *; cbn [fold_left rev app].
    - exact Ha.
    - rewrite <- app_assoc. cbn [app]. apply IH. apply set_insert_R. exact Ha.
  Qed.

  Lemma set_R_perm : forall (a m m' : list T),
      set_R a m -> (forall x, In x m <-> In x m') -> set_R a m'.
  Proof.
    intros a m m' [Hnd Hin] Hiff. split; [exact Hnd|]. intros x. rewrite Hin. apply Hiff.
  Qed.

  Lemma set_laws : forall (O : Type) (fin : list T -> O) (spec : list T -> O -> Prop),
      (forall a m, set_R a m -> spec m (fin a)) ->
      lawful {| c_create := []; c_add := set_insert eqb; c_merge := set_merge eqb;
                c_finish := fin; c_build := set_build eqb |} (@set_R T) spec.
  Proof.
    intros O fin spec Hfin. constructor; cbn [c_create c_add c_merge c_finish c_build].
    - split; [constructor|]. intros x. tauto.
    - apply set_insert_R.
    - intros a b m m' Ha Hb. unfold set_merge. destruct a as [|a0 a].
      + (* acc empty: *acc = other *)
        apply set_R_perm with (m := m'); [exact Hb|].
        intros x. rewrite in_app_iff. destruct Ha as [_ Hin]. specialize (Hin x). cbn [In] in Hin.
        tauto.
      + apply set_R_perm with (m := rev b ++ m); [apply set_extend_R; exact Ha|].
        intros x. rewrite !in_app_iff, <- in_rev. destruct Hb as [_ Hin]. rewrite Hin. tauto.
    - intros vs. unfold set_build. apply set_R_perm with (m := rev vs ++ []).
      + apply set_extend_R. split; [constructor|]. intros x. tauto.
      + intros x. rewrite app_nil_r, <- in_rev. tauto.
    - intros a m m' Ha HP. apply set_R_perm with (m := m); [exact Ha|].
      intros x. split; apply Permutation_in; [exact HP|symmetry; exact HP].
    - exact Hfin.
  Qed.

  Lemma distinct_count_lawful :
    lawful (distinct_count_combiner eqb) (@set_R T) (@distinct_count_spec T).
  Proof.
    apply set_laws. intros a m [Hnd Hin]. exists a. auto.
  Qed.

  Lemma distinct_set_lawful :
    lawful (distinct_set_combiner eqb) (@set_R T) (@distinct_set_spec T).
  Proof.
    apply set_laws. intros a m Ha. exact Ha.
  Qed.

  Lemma distinct_set_spec_functional : forall (m o o' : list T),
      distinct_set_spec m o -> distinct_set_spec m o' -> Permutation o o'.
  Proof.
    intros m o o' [Hnd Hin] [Hnd' Hin']. apply NoDup_Permutation; [exact Hnd|exact Hnd'|].
    intros x. rewrite Hin, Hin'. tauto.
  Qed.

  Lemma distinct_count_spec_functional : forall (m : list T) o o',
      distinct_count_spec m o -> distinct_count_spec m o' -> o = o'.
  Proof.
    intros m o o' [s [Hnd [Hin ->]]] [s' [Hnd' [Hin' ->]]]. f_equal.
    apply Permutation_length. apply NoDup_Permutation; [exact Hnd|exact Hnd'|].
    intros x. rewrite Hin, Hin'. tauto.
  Qed.
End DistinctProofs.
