(* Proofs about the model of src/testing/assertions.rs. *)
From Coq Require Import List ZArith Bool Arith Lia Permutation.
From IB Require Import Testing.Assertions.
Import ListNotations.

Section Ordered.
  Variable A : Type.
  Variable eqb : A -> A -> bool.
  Hypothesis eqb_spec : forall x y, reflect (x = y) (eqb x y).

  Lemma pairwise_eqb_eq : forall a e,
      length a = length e -> (pairwise_eqb eqb a e = true <-> a = e).
  Proof.
    induction a as [|x a IH]; intros [|y e] Hlen; simpl in *; try discriminate.
    - split; reflexivity.
    - injection Hlen as Hlen. rewrite andb_true_iff, (IH e Hlen).
      destruct (eqb_spec x y) as [->|Hne]; split.
      + intros [_ ->]. reflexivity.
      + intros H. injection H as ->. auto.
      + intros [H _]. discriminate.
      + intros H. injection H as ? _. contradiction.
  Qed.

  Lemma ordered_iff : forall a e, assert_collections_equal eqb a e = true <-> a = e.
  Proof.
    intros a e. unfold assert_collections_equal. rewrite andb_true_iff, Nat.eqb_eq. split.
    - intros [Hlen Hp]. apply pairwise_eqb_eq; assumption.
    - intros ->. split; [reflexivity|]. apply pairwise_eqb_eq; reflexivity.
  Qed.
End Ordered.
