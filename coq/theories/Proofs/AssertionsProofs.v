(* Proofs about the model of src/testing/assertions.rs. *)
From Coq Require Import List ZArith Bool Arith Lia Permutation Sorting.
From IB Require Import Testing.Assertions.
Import ListNotations.

Section Ordered.
  Variable A : Type.
  Variable eqb : A -> A -> bool.
  Hypothesis eqb_spec : forall x y, reflect (x = y) (eqb x y).

  Lemma pairwise_eqb_eq : forall a e,
      length a = length e -> (pairwise_eqb eqb a e = true <-> a = e).
  Proof.
    induction a as [|x a IH]; intros [|y e] Hlen; simpl in *; try discriminate.
    - split; reflexivity.
    - injection Hlen as Hlen. rewrite andb_true_iff, (IH e Hlen).
      destruct (eqb_spec x y) as [->|Hne]; split.
      + intros [_ ->]. reflexivity.
      + intros H. injection H as ->. auto.
      + intros [H _]. discriminate.
      + intros H. injection H as ? _. contradiction.
  Qed.

  Lemma ordered_iff : forall a e, assert_collections_equal eqb a e = true <-> a = e.
  Proof.
    intros a e. unfold assert_collections_equal. rewrite andb_true_iff, Nat.eqb_eq. split.
    - intros [Hlen Hp]. apply pairwise_eqb_eq; assumption.
    - intros ->. split; [reflexivity|]. apply pairwise_eqb_eq; reflexivity.
  Qed.
End Ordered.

(* ---------- assert_collections_unordered_equal: occurrence counts = multiset equality ---------- *)
Section Unordered.
  Variable A : Type.
  Variable eqb : A -> A -> bool.
  Hypothesis eqb_spec : forall x y, reflect (x = y) (eqb x y).

  Definition dec_of_reflect : forall x y : A, {x = y} + {x <> y}.
  Proof. intros x y. destruct (eqb_spec x y); [left|right]; assumption. Defined.

  Lemma count_count_occ : forall (dec : forall x y : A, {x = y} + {x <> y}) x l,
      count eqb x l = count_occ dec l x.
  Proof.
    intros dec x l. induction l as [|y l IH]; cbn [count count_occ]; [reflexivity|].
    rewrite IH. destruct (eqb_spec x y) as [Heq|Hne]; destruct (dec y x) as [He|Hn]; try reflexivity.
    - exfalso. apply Hn. symmetry. exact Heq.
    - exfalso. apply Hne. symmetry. exact He.
  Qed.

  Lemma count_not_in : forall x l, ~ In x l -> count eqb x l = 0.
  Proof.
    intros x l. induction l as [|y l IH]; cbn [count In]; intros Hn; [reflexivity|].
    destruct (eqb_spec x y) as [->|Hne]; [exfalso; apply Hn; left; reflexivity|].
    rewrite IH; [reflexivity|]. intros Hi. apply Hn. right. exact Hi.
  Qed.

  Lemma counts_equal_iff : forall a e,
      counts_equal eqb a e = true <-> forall x, count eqb x a = count eqb x e.
  Proof.
    intros a e. unfold counts_equal. rewrite forallb_forall. split.
    - intros H x. destruct (in_dec dec_of_reflect x (a ++ e)) as [Hi|Hn].
      + apply Nat.eqb_eq. apply H. exact Hi.
      + rewrite !count_not_in; [reflexivity| |]; intros Hi; apply Hn; apply in_or_app; auto.
    - intros H x _. apply Nat.eqb_eq. apply H.
  Qed.

  Lemma counts_equal_perm : forall a e, counts_equal eqb a e = true <-> Permutation a e.
  Proof.
    intros a e. rewrite counts_equal_iff, (Permutation_count_occ dec_of_reflect).
    split; intros H x; specialize (H x); rewrite ?(count_count_occ dec_of_reflect) in *; exact H.
  Qed.

  Lemma unordered_iff : forall a e,
      assert_collections_unordered_equal eqb a e = true <-> Permutation a e.
  Proof.
    intros a e. unfold assert_collections_unordered_equal.
    rewrite andb_true_iff, Nat.eqb_eq, counts_equal_perm. split.
    - intros [_ H]. exact H.
    - intros H. split; [apply Permutation_length|]; exact H.
  Qed.

  Lemma unordered_multiplicity : forall (dec : forall x y : A, {x = y} + {x <> y}) a e x,
      count_occ dec a x <> count_occ dec e x ->
      assert_collections_unordered_equal eqb a e = false.
  Proof.
    intros dec a e x Hne. apply not_true_is_false. intros Hacc.
    apply unordered_iff in Hacc. apply Hne. apply (Permutation_count_occ dec). exact Hacc.
  Qed.
End Unordered.

(* ---------- assert_kv_collections_equal: stable sort by key + greedy matching per key run ---------- *)
(* ---------- generic list facts ---------- *)
Lemma Permutation_filter_compat : forall {X} (f : X -> bool) (l l' : list X),
    Permutation l l' -> Permutation (filter f l) (filter f l').
Proof.
  intros X f l l' H. induction H as [|x l l' _ IH|x y l|l l' l'' _ IH1 _ IH2]; cbn [filter].
  - constructor.
  - destruct (f x); [constructor|]; exact IH.
  - destruct (f x), (f y); try apply Permutation_refl. apply perm_swap.
  - eapply Permutation_trans; eassumption.
Qed.

(* ---------- the stable sort by key ---------- *)
Section SortByKey.
  Variable X : Type.
  Definition kle (x y : Z * X) : Prop := (fst x <= fst y)%Z.
  Definition ksorted (l : list (Z * X)) : Prop := StronglySorted kle l.

  Lemma insert_by_key_perm : forall (x : Z * X) (l : list (Z * X)), Permutation (x :: l) (insert_by_key x l).
  Proof.
    intros x l. induction l as [|y l IH]; cbn [insert_by_key]; [apply Permutation_refl|].
    destruct (Z.leb (fst x) (fst y)); [apply Permutation_refl|].
    eapply Permutation_trans; [apply perm_swap|]. constructor. exact IH.
  Qed.

  Lemma sort_by_key_perm : forall l : list (Z * X), Permutation (sort_by_key l) l.
  Proof.
    induction l as [|x l IH]; cbn [sort_by_key fold_right]; [constructor|].
    eapply Permutation_trans; [apply Permutation_sym, insert_by_key_perm|].
    constructor. exact IH.
  Qed.

  Lemma insert_by_key_sorted : forall (x : Z * X) (l : list (Z * X)), ksorted l -> ksorted (insert_by_key x l).
  Proof.
    intros x l. induction l as [|y l IH]; intros Hs; cbn [insert_by_key].
    - constructor; constructor.
    - apply StronglySorted_inv in Hs. destruct Hs as [Hs Hall].
      destruct (Z.leb_spec (fst x) (fst y)) as [Hle|Hgt].
      + constructor; [constructor; assumption|]. constructor; [exact Hle|].
        eapply Forall_impl; [|exact Hall]. intros z Hz. unfold kle in *. lia.
      + constructor; [apply IH; exact Hs|].
        eapply Permutation_Forall; [apply insert_by_key_perm|].
        constructor; [unfold kle; lia|exact Hall].
  Qed.

  Lemma sort_by_key_sorted : forall l : list (Z * X), ksorted (sort_by_key l).
  Proof.
    induction l as [|x l IH]; cbn [sort_by_key fold_right]; [constructor|].
    apply insert_by_key_sorted. exact IH.
  Qed.

  Definition keyis (k : Z) (x : Z * X) : bool := Z.eqb (fst x) k.
  Definition keyisnt (k : Z) (x : Z * X) : bool := negb (Z.eqb (fst x) k).

  Lemma filter_above : forall k (l : list (Z * X)),
      Forall (fun x => (k < fst x)%Z) l -> filter (keyis k) l = [] /\ filter (keyisnt k) l = l.
  Proof.
    intros k l H. induction H as [|x l Hx _ [IH1 IH2]]; cbn [filter]; [split; reflexivity|].
    unfold keyis at 1, keyisnt at 1. destruct (Z.eqb_spec (fst x) k) as [He|_]; [lia|].
    cbn [negb]. rewrite IH2. split; [exact IH1|reflexivity].
  Qed.

  Lemma ksorted_skipn : forall n (l : list (Z * X)), ksorted l -> ksorted (skipn n l).
  Proof.
    induction n as [|n IH]; intros l Hs; [exact Hs|].
    destruct l as [|x l]; [exact Hs|]. cbn [skipn]. apply IH.
    apply StronglySorted_inv in Hs. apply Hs.
  Qed.
End SortByKey.
Arguments kle {X}. Arguments ksorted {X}. Arguments keyis {X}. Arguments keyisnt {X}.

Section KV.
  Variable V : Type.
  Variable veqb : V -> V -> bool.
  Hypothesis veqb_spec : forall x y, reflect (x = y) (veqb x y).

  (* rows of a key run that are not yet marked as used *)
  Fixpoint unused (run : list (Z * V)) (used : list bool) : list (Z * V) :=
    match run, used with
    | r :: run', u :: used' => if u then unused run' used' else r :: unused run' used'
    | _, _ => []
    end.

  Lemma unused_fresh : forall run n, length run <= n -> unused run (repeat false n) = run.
  Proof.
    induction run as [|r run IH]; intros n Hn; [destruct n; reflexivity|].
    destruct n as [|n]; cbn [length] in Hn; [lia|]. cbn [repeat unused].
    rewrite IH; [reflexivity|lia].
  Qed.

  Lemma find_unused_none : forall ak av run used,
      find_unused veqb ak av run used = None -> ~ In (ak, av) (unused run used).
  Proof.
    intros ak av run. induction run as [|[k v] run IH]; intros used Hf; [intros []|].
    destruct used as [|u used]; [intros []|]. cbn [find_unused unused] in *.
    destruct u; cbn [negb andb] in Hf.
    - destruct (find_unused veqb ak av run used) eqn:Hr; [discriminate|]. apply IH. exact Hr.
    - destruct (Z.eqb_spec k ak) as [Hk|Hk]; cbn [andb] in Hf.
      + destruct (veqb_spec v av) as [Hv|Hv]; [discriminate|].
        destruct (find_unused veqb ak av run used) eqn:Hr; [discriminate|].
        intros [Hi|Hi]; [injection Hi as _ Hv'; contradiction|]. revert Hi. apply IH. exact Hr.
      + destruct (find_unused veqb ak av run used) eqn:Hr; [discriminate|].
        intros [Hi|Hi]; [injection Hi as Hk' _; contradiction|]. revert Hi. apply IH. exact Hr.
  Qed.

  Lemma find_unused_some : forall ak av run used o,
      find_unused veqb ak av run used = Some o ->
      Permutation (unused run used) ((ak, av) :: unused run (set_used o used)).
  Proof.
    intros ak av run. induction run as [|[k v] run IH]; intros used o Hf; [discriminate|].
    destruct used as [|u used]; [discriminate|]. cbn [find_unused] in Hf.
    assert (Hrec : forall o', find_unused veqb ak av run used = Some o' ->
              Permutation (unused ((k, v) :: run) (u :: used))
                          ((ak, av) :: unused ((k, v) :: run) (set_used (S o') (u :: used)))).
    { intros o' Ho'. cbn [unused set_used]. specialize (IH used o' Ho').
      destruct u; [exact IH|].
      eapply Permutation_trans; [|apply perm_swap]. constructor. exact IH. }
    destruct u; cbn [negb andb] in Hf.
    - destruct (find_unused veqb ak av run used) as [o'|] eqn:Hr; [|discriminate].
      injection Hf as <-. apply Hrec. reflexivity.
    - destruct (Z.eqb_spec k ak) as [Hk|Hk]; cbn [andb] in Hf.
      + destruct (veqb_spec v av) as [Hv|Hv].
        * injection Hf as <-. subst. cbn [unused set_used]. apply Permutation_refl.
        * destruct (find_unused veqb ak av run used) as [o'|] eqn:Hr; [|discriminate].
          injection Hf as <-. apply Hrec. reflexivity.
      + destruct (find_unused veqb ak av run used) as [o'|] eqn:Hr; [|discriminate].
        injection Hf as <-. apply Hrec. reflexivity.
  Qed.

  (* greedy matching with a decidable equality is complete *)
  Lemma match_run_iff : forall arun erun used,
      match_run veqb arun erun used = true <->
      exists rest, Permutation (unused erun used) (arun ++ rest).
  Proof.
    induction arun as [|[ak av] arun IH]; intros erun used; cbn [match_run].
    - split; [intros _; exists (unused erun used); apply Permutation_refl|reflexivity].
    - destruct (find_unused veqb ak av erun used) as [o|] eqn:Hf.
      + apply find_unused_some in Hf. rewrite IH. split; intros [rest Hp]; exists rest.
        * eapply Permutation_trans; [exact Hf|]. cbn [app]. constructor. exact Hp.
        * cbn [app] in Hp. eapply Permutation_cons_inv.
          eapply Permutation_trans; [apply Permutation_sym; exact Hf|exact Hp].
      + apply find_unused_none in Hf. split; [discriminate|]. intros [rest Hp]. exfalso.
        apply Hf. eapply Permutation_in; [apply Permutation_sym; exact Hp|]. left. reflexivity.
  Qed.

  Lemma match_run_fresh_iff : forall arun erun n,
      length arun = n -> length erun = n ->
      (match_run veqb arun erun (repeat false n) = true <-> Permutation arun erun).
  Proof.
    intros arun erun n Ha He. rewrite match_run_iff, unused_fresh by lia. split.
    - intros [rest Hp]. assert (Hl := Permutation_length Hp). rewrite app_length in Hl.
      destruct rest as [|r rest]; [|cbn [length] in Hl; lia].
      rewrite app_nil_r in Hp. apply Permutation_sym. exact Hp.
    - intros Hp. exists []. rewrite app_nil_r. apply Permutation_sym. exact Hp.
  Qed.

  (* shape of a key-sorted list whose keys are all >= k: the k-run, then the rest *)
  Lemma run_split : forall k (l : list (Z * V)),
      ksorted l -> Forall (fun x => (k <= fst x)%Z) l ->
      firstn (run_len k l) l = filter (keyis k) l /\ skipn (run_len k l) l = filter (keyisnt k) l.
  Proof.
    intros k l. induction l as [|[k' v'] l IH]; intros Hs Hge; [split; reflexivity|].
    apply StronglySorted_inv in Hs. destruct Hs as [Hs Hall].
    apply Forall_cons_iff in Hge. destruct Hge as [Hk Hge]. cbn [fst] in Hk.
    cbn [run_len filter]. unfold keyis at 1, keyisnt at 1. cbn [fst].
    destruct (Z.eqb_spec k' k) as [->|Hne]; cbn [negb firstn skipn].
    - destruct (IH Hs Hge) as [IH1 IH2]. rewrite IH1, IH2. split; reflexivity.
    - assert (Hab : Forall (fun x : Z * V => (k < fst x)%Z) l).
      { eapply Forall_impl; [|exact Hall]. intros z Hz. unfold kle in Hz. cbn [fst] in Hz. lia. }
      destruct (filter_above V k l Hab) as [F1 F2]. rewrite F1, F2. split; reflexivity.
  Qed.

  Lemma run_len_le : forall k (l : list (Z * V)), run_len k l <= length l.
  Proof.
    intros k l. induction l as [|[k' v'] l IH]; cbn [run_len length]; [lia|].
    destruct (Z.eqb k' k); lia.
  Qed.

  Lemma match_runs_sound : forall fuel a e,
      length a = length e -> match_runs veqb fuel a e = true -> Permutation a e.
  Proof.
    induction fuel as [|fuel IH]; intros a e Hlen Hm; cbn [match_runs] in Hm.
    - destruct a; [|discriminate]. destruct e; [constructor|discriminate].
    - destruct a as [|[k v] a']; [destruct e; [constructor|discriminate]|].
      set (n := S (run_len k a')) in *. apply andb_true_iff in Hm. destruct Hm as [Hrun Hrest].
      assert (Hn : n <= length ((k, v) :: a')).
      { unfold n. cbn [length]. pose proof (run_len_le k a'). lia. }
      apply match_run_fresh_iff in Hrun;
        [|rewrite firstn_length; lia|rewrite firstn_length; lia].
      apply IH in Hrest; [|rewrite !skipn_length; lia].
      rewrite <- (firstn_skipn n ((k, v) :: a')), <- (firstn_skipn n e).
      apply Permutation_app; assumption.
  Qed.

  Lemma match_runs_complete : forall fuel a e,
      length a <= fuel -> ksorted a -> ksorted e -> Permutation a e ->
      match_runs veqb fuel a e = true.
  Proof.
    induction fuel as [|fuel IH]; intros a e Hfuel Hsa Hse Hp; cbn [match_runs].
    - destruct a; [reflexivity|cbn [length] in Hfuel; lia].
    - destruct a as [|[k v] a']; [reflexivity|].
      set (a := (k, v) :: a') in *. set (n := S (run_len k a')).
      assert (Hn : n = run_len k a).
      { unfold n, a. cbn [run_len]. rewrite Z.eqb_refl. reflexivity. }
      assert (Hga : Forall (fun x : Z * V => (k <= fst x)%Z) a).
      { unfold a. pose proof (StronglySorted_inv Hsa) as [_ Hall].
        constructor; [cbn [fst]; lia|]. exact Hall. }
      assert (Hge : Forall (fun x : Z * V => (k <= fst x)%Z) e).
      { eapply Permutation_Forall; eassumption. }
      destruct (run_split k a Hsa Hga) as [Fa Sa].
      assert (Hpf := Permutation_filter_compat (keyis k) _ _ Hp).
      assert (Hps := Permutation_filter_compat (keyisnt k) _ _ Hp).
      (* e starts with its own k-run, which has the same length n *)
      assert (He : e = filter (keyis k) e ++ filter (keyisnt k) e).
      { destruct (run_split k e Hse Hge) as [Fe Se]. rewrite <- Fe, <- Se.
        symmetry. apply firstn_skipn. }
      assert (Hnf : length (filter (keyis k) e) = n).
      { rewrite <- (Permutation_length Hpf), <- Fa, firstn_length, <- Hn.
        pose proof (run_len_le k a). lia. }
      assert (Fe : firstn n e = filter (keyis k) e).
      { rewrite He at 1. rewrite firstn_app, Hnf, Nat.sub_diag. cbn [firstn].
        rewrite app_nil_r. apply firstn_all2. lia. }
      assert (Se : skipn n e = filter (keyisnt k) e).
      { rewrite He at 1. rewrite skipn_app, Hnf, Nat.sub_diag. cbn [skipn].
        rewrite skipn_all2 by lia. reflexivity. }
      rewrite Hn in Fe, Se |- *. rewrite Fa, Sa, Fe, Se. rewrite <- Hn.
      apply andb_true_iff. split.
      + apply match_run_fresh_iff; [| |exact Hpf].
        * rewrite <- Fa, firstn_length, <- Hn. pose proof (run_len_le k a). lia.
        * exact Hnf.
      + apply IH; [| | |exact Hps].
        * rewrite <- Sa, skipn_length, <- Hn. unfold n. unfold a in *. cbn [length] in *. lia.
        * rewrite <- Sa. apply ksorted_skipn. exact Hsa.
        * rewrite <- Se. apply ksorted_skipn. exact Hse.
  Qed.

  Lemma kv_iff : forall a e : list (Z * V),
      assert_kv_collections_equal veqb a e = true <-> Permutation a e.
  Proof.
    intros a e. unfold assert_kv_collections_equal.
    rewrite andb_true_iff, Nat.eqb_eq. split.
    - intros [Hlen Hm]. apply match_runs_sound in Hm; [|exact Hlen].
      eapply Permutation_trans; [apply Permutation_sym, sort_by_key_perm|].
      eapply Permutation_trans; [exact Hm|apply sort_by_key_perm].
    - intros Hp.
      assert (Hps : Permutation (sort_by_key a) (sort_by_key e)).
      { eapply Permutation_trans; [apply sort_by_key_perm|].
        eapply Permutation_trans; [exact Hp|apply Permutation_sym, sort_by_key_perm]. }
      split; [apply Permutation_length; exact Hps|].
      apply match_runs_complete; [lia|apply sort_by_key_sorted|apply sort_by_key_sorted|exact Hps].
  Qed.
End KV.

(* ---------- assert_grouped_kv_equal ---------- *)
Lemma Forall2_same_length : forall {X Y} (R : X -> Y -> Prop) l l',
    Forall2 R l l' -> length l = length l'.
Proof.
  intros X Y R l l' H. induction H as [|x y l l' _ _ IH]; cbn [length]; [reflexivity|].
  rewrite IH. reflexivity.
Qed.

Section Grouped.
  Variable V : Type.
  Variable veqb : V -> V -> bool.
  Hypothesis veqb_spec : forall x y, reflect (x = y) (veqb x y).

  (* same key, same multiset of values *)
  Definition group_eq (x y : Z * list V) : Prop := fst x = fst y /\ Permutation (snd x) (snd y).

  (* the two grouped collections can be paired off group by group *)
  Definition grouped_equiv (a e : list (Z * list V)) : Prop :=
    exists e', Permutation e e' /\ Forall2 group_eq a e'.

  Lemma grouped_pairwise_iff : forall a e,
      length a = length e -> (grouped_pairwise veqb a e = true <-> Forall2 group_eq a e).
  Proof.
    induction a as [|[ak av] a IH]; intros [|[ek ev] e] Hlen; cbn [length] in Hlen; try discriminate.
    - split; [constructor|reflexivity].
    - injection Hlen as Hlen. cbn [grouped_pairwise].
      rewrite !andb_true_iff, Z.eqb_eq, (counts_equal_perm V veqb veqb_spec), (IH e Hlen). split.
      + intros [[Hk Hv] Hr]. constructor; [split; assumption|exact Hr].
      + intros H. inversion H as [|x y l l' [Hk Hv] Hr]; subst. cbn [fst snd] in *. auto.
  Qed.

  Lemma grouped_sorted_iff : forall a e,
      assert_grouped_kv_equal veqb a e = true <-> Forall2 group_eq (sort_by_key a) (sort_by_key e).
  Proof.
    intros a e. unfold assert_grouped_kv_equal. rewrite andb_true_iff, Nat.eqb_eq. split.
    - intros [Hlen Hp]. apply grouped_pairwise_iff; assumption.
    - intros H. assert (Hlen := Forall2_same_length _ _ _ H). split; [exact Hlen|].
      apply grouped_pairwise_iff; assumption.
  Qed.

  Lemma grouped_sound : forall a e,
      assert_grouped_kv_equal veqb a e = true -> grouped_equiv a e.
  Proof.
    intros a e H. apply grouped_sorted_iff in H.
    destruct (Permutation_Forall2 (sort_by_key_perm _ a) H) as [e' [Hp HF]].
    exists e'. split; [|exact HF].
    eapply Permutation_trans; [apply Permutation_sym, sort_by_key_perm|exact Hp].
  Qed.

  Lemma group_eq_keys : forall a e, Forall2 group_eq a e -> map fst a = map fst e.
  Proof.
    intros a e H. induction H as [|x y a e [Hk _] _ IH]; cbn [map]; [reflexivity|].
    rewrite Hk, IH. reflexivity.
  Qed.

  Lemma ksorted_keys : forall {X Y} (l : list (Z * X)) (l' : list (Z * Y)),
      map fst l = map fst l' -> ksorted l -> ksorted l'.
  Proof.
    intros X Y l. induction l as [|x l IH]; intros [|y l'] Hm Hs; cbn [map] in Hm; try discriminate.
    - constructor.
    - injection Hm as Hk Hm. apply StronglySorted_inv in Hs. destruct Hs as [Hs Hall].
      constructor; [apply (IH l' Hm Hs)|].
      rewrite Forall_forall in Hall |- *. intros z Hz.
      assert (Hin : In (fst z) (map fst l)) by (rewrite Hm; apply in_map; exact Hz).
      apply in_map_iff in Hin. destruct Hin as [w [Hw Hwin]].
      specialize (Hall w Hwin). unfold kle in *. lia.
  Qed.

  (* a collection with pairwise distinct keys has exactly one key-sorted arrangement *)
  Lemma ksorted_perm_unique : forall {X} (l l' : list (Z * X)),
      NoDup (map fst l) -> ksorted l -> ksorted l' -> Permutation l l' -> l = l'.
  Proof.
    intros X l. induction l as [|x l IH]; intros l' Hnd Hs Hs' Hp.
    - apply Permutation_nil in Hp. symmetry. exact Hp.
    - destruct l' as [|y l']; [apply Permutation_sym, Permutation_nil in Hp; discriminate|].
      apply StronglySorted_inv in Hs. destruct Hs as [Hs Hall].
      apply StronglySorted_inv in Hs'. destruct Hs' as [Hs' Hall'].
      cbn [map] in Hnd. apply NoDup_cons_iff in Hnd. destruct Hnd as [Hnin Hnd].
      assert (Hxy : x = y).
      { assert (Hx : In x (y :: l')) by (eapply Permutation_in; [exact Hp|left; reflexivity]).
        assert (Hy : In y (x :: l))
          by (eapply Permutation_in; [apply Permutation_sym; exact Hp|left; reflexivity]).
        destruct Hx as [Hx|Hx]; [symmetry; exact Hx|].
        destruct Hy as [Hy|Hy]; [exact Hy|]. exfalso.
        rewrite Forall_forall in Hall, Hall'.
        specialize (Hall y Hy). specialize (Hall' x Hx). unfold kle in *.
        apply Hnin. replace (fst x) with (fst y) by lia. apply in_map. exact Hy. }
      subst y. f_equal. apply IH; try assumption. eapply Permutation_cons_inv. exact Hp.
  Qed.

  Lemma grouped_complete_nodup : forall a e,
      NoDup (map fst e) -> grouped_equiv a e -> assert_grouped_kv_equal veqb a e = true.
  Proof.
    intros a e Hnd [e' [Hpe HF]]. apply grouped_sorted_iff.
    destruct (Permutation_Forall2 (Permutation_sym (sort_by_key_perm _ a)) HF) as [e'' [Hpe' HF']].
    replace (sort_by_key e) with e''; [exact HF'|].
    assert (Hp : Permutation e'' (sort_by_key e)).
    { eapply Permutation_trans; [apply Permutation_sym; exact Hpe'|].
      eapply Permutation_trans; [apply Permutation_sym; exact Hpe|].
      apply Permutation_sym, sort_by_key_perm. }
    apply ksorted_perm_unique; [| |apply sort_by_key_sorted|exact Hp].
    - eapply Permutation_NoDup; [|exact Hnd]. apply Permutation_map.
      eapply Permutation_trans; [exact Hpe|exact Hpe'].
    - eapply ksorted_keys; [apply group_eq_keys; exact HF'|apply sort_by_key_sorted].
  Qed.

  Lemma grouped_iff_nodup : forall a e,
      NoDup (map fst a) -> NoDup (map fst e) ->
      (assert_grouped_kv_equal veqb a e = true <-> grouped_equiv a e).
  Proof.
    intros a e _ Hnd. split; [apply grouped_sound|apply grouped_complete_nodup; exact Hnd].
  Qed.

  Lemma nodup_keys_functional : forall {X} (l : list (Z * X)) k v1 v2,
      NoDup (map fst l) -> In (k, v1) l -> In (k, v2) l -> v1 = v2.
  Proof.
    intros X l k v1 v2. induction l as [|x l IH]; intros Hnd H1 H2; [destruct H1|].
    cbn [map] in Hnd. apply NoDup_cons_iff in Hnd. destruct Hnd as [Hnin Hnd].
    destruct H1 as [H1|H1], H2 as [H2|H2].
    - rewrite H1 in H2. injection H2 as H2. exact H2.
    - exfalso. apply Hnin. subst x. apply (in_map fst) in H2. exact H2.
    - exfalso. apply Hnin. subst x. apply (in_map fst) in H1. exact H1.
    - apply IH; assumption.
  Qed.

  Lemma grouped_multiplicity : forall (dec : forall x y : V, {x = y} + {x <> y}) a e k va ve x,
      NoDup (map fst a) -> In (k, va) a -> In (k, ve) e ->
      count_occ dec va x <> count_occ dec ve x ->
      assert_grouped_kv_equal veqb a e = false.
  Proof.
    intros dec a e k va ve x Hnd Ha He Hne. apply not_true_is_false. intros Hacc.
    apply grouped_sound in Hacc. destruct Hacc as [e' [Hpe HF]].
    assert (He' : In (k, ve) e') by (eapply Permutation_in; eassumption).
    assert (Hnd' : NoDup (map fst e')) by (rewrite <- (group_eq_keys _ _ HF); exact Hnd).
    assert (Hex : exists y, In y e' /\ group_eq (k, va) y).
    { clear - Ha HF. induction HF as [|x y a e' Hxy _ IH]; [destruct Ha|].
      destruct Ha as [Ha|Ha].
      - subst x. exists y. split; [left; reflexivity|exact Hxy].
      - destruct (IH Ha) as [y' [Hy' Hg]]. exists y'. split; [right; exact Hy'|exact Hg]. }
    destruct Hex as [[k' ve'] [Hin [Hk Hv]]]. cbn [fst snd] in Hk, Hv. subst k'.
    assert (ve' = ve) by (eapply nodup_keys_functional; eassumption). subst ve'.
    apply Hne. apply (Permutation_count_occ dec). exact Hv.
  Qed.
End Grouped.

(* ---------- grouped data with distinct keys: the literal reading of the property ---------- *)
Section GroupedLiteral.
  Variable V : Type.
  Variable veqb : V -> V -> bool.
  Hypothesis veqb_spec : forall x y, reflect (x = y) (veqb x y).

  (* "the same keys and, per key, the same multiset of values" *)
  Definition same_keys_values (a e : list (Z * list V)) : Prop :=
    (forall k, In k (map fst a) <-> In k (map fst e)) /\
    (forall k va ve, In (k, va) a -> In (k, ve) e -> Permutation va ve).

  Lemma Forall2_in_left : forall {X Y} (R : X -> Y -> Prop) l l' x,
      Forall2 R l l' -> In x l -> exists y, In y l' /\ R x y.
  Proof.
    intros X Y R l l' x HF. induction HF as [|x0 y l l' Hxy _ IH]; intros Hin; [destruct Hin|].
    destruct Hin as [Hin|Hin].
    - subst x0. exists y. split; [left; reflexivity|exact Hxy].
    - destruct (IH Hin) as [y' [Hy' Hr]]. exists y'. split; [right; exact Hy'|exact Hr].
  Qed.

  Lemma grouped_equiv_same_keys_values : forall a e,
      NoDup (map fst a) -> grouped_equiv V a e -> same_keys_values a e.
  Proof.
    intros a e Hnd [e' [Hpe HF]].
    assert (Hkeys : map fst a = map fst e') by (apply group_eq_keys; exact HF).
    assert (Hpk : Permutation (map fst e) (map fst e')) by (apply Permutation_map; exact Hpe).
    split.
    - intros k. rewrite Hkeys. split; intros Hin.
      + eapply Permutation_in; [apply Permutation_sym; exact Hpk|exact Hin].
      + eapply Permutation_in; [exact Hpk|exact Hin].
    - intros k va ve Ha He.
      destruct (Forall2_in_left _ _ _ _ HF Ha) as [[k' ve'] [Hin [Hk Hv]]].
      cbn [fst snd] in Hk, Hv. subst k'.
      assert (He' : In (k, ve) e') by (eapply Permutation_in; eassumption).
      assert (Hnd' : NoDup (map fst e')) by (rewrite <- Hkeys; exact Hnd).
      assert (ve' = ve) by (eapply nodup_keys_functional; eassumption). subst ve'. exact Hv.
  Qed.

  Lemma same_keys_values_grouped_equiv : forall a e,
      NoDup (map fst a) -> NoDup (map fst e) -> same_keys_values a e -> grouped_equiv V a e.
  Proof.
    induction a as [|[k va] a IH]; intros e Hnda Hnde [Hkeys Hvals].
    - destruct e as [|y e].
      + exists []. split; constructor.
      + exfalso. apply (proj2 (Hkeys (fst y))). left. reflexivity.
    - cbn [map fst] in Hnda. apply NoDup_cons_iff in Hnda. destruct Hnda as [Hnin Hnda].
      assert (Hk : In k (map fst e)) by (apply Hkeys; left; reflexivity).
      apply in_map_iff in Hk. destruct Hk as [[k' ve] [Hk' Hin]]. cbn [fst] in Hk'. subst k'.
      destruct (in_split _ _ Hin) as [e1 [e2 He]]. subst e.
      assert (Hnde' : NoDup (map fst (e1 ++ e2))).
      { rewrite map_app in *. cbn [map fst] in Hnde. apply NoDup_remove_1 in Hnde. exact Hnde. }
      assert (Hnk : ~ In k (map fst (e1 ++ e2))).
      { rewrite map_app in *. cbn [map fst] in Hnde. apply NoDup_remove_2 in Hnde. exact Hnde. }
      destruct (IH (e1 ++ e2) Hnda Hnde') as [e0 [Hp0 HF0]].
      { split.
        - intros k'. split; intros Hin'.
          + assert (Hne : k' <> k) by (intros ->; contradiction).
            assert (H1 : In k' (map fst (e1 ++ (k, ve) :: e2))) by (apply Hkeys; right; exact Hin').
            rewrite map_app in *. cbn [map fst] in H1. apply in_app_or in H1. apply in_or_app.
            destruct H1 as [H1|[H1|H1]]; [left; exact H1|exfalso; apply Hne; symmetry; exact H1|right; exact H1].
          + assert (Hne : k' <> k) by (intros ->; contradiction).
            assert (H1 : In k' (map fst ((k, va) :: a))).
            { apply Hkeys. rewrite map_app in *. cbn [map fst]. apply in_app_or in Hin'. apply in_or_app.
              destruct Hin' as [H|H]; [left; exact H|right; right; exact H]. }
            destruct H1 as [H1|H1]; [exfalso; apply Hne; symmetry; exact H1|exact H1].
        - intros k' va' ve' Ha' He'. apply (Hvals k'); [right; exact Ha'|].
          apply in_app_or in He'. apply in_or_app.
          destruct He' as [H|H]; [left; exact H|right; right; exact H]. }
      exists ((k, ve) :: e0). split.
      + eapply Permutation_trans; [apply Permutation_sym, Permutation_middle|].
        constructor. exact Hp0.
      + constructor; [|exact HF0]. split; [reflexivity|]. cbn [snd].
        apply (Hvals k); [left; reflexivity|exact Hin].
  Qed.

  Lemma grouped_iff_same_keys_values : forall a e,
      NoDup (map fst a) -> NoDup (map fst e) ->
      (assert_grouped_kv_equal veqb a e = true <-> same_keys_values a e).
  Proof.
    intros a e Hnda Hnde. rewrite (grouped_iff_nodup V veqb veqb_spec a e Hnda Hnde). split.
    - apply grouped_equiv_same_keys_values. exact Hnda.
    - apply same_keys_values_grouped_equiv; assumption.
  Qed.
End GroupedLiteral.
