(* Proofs about the checkpoint store model (Ckpt/Store.v), part 1: decimal printing/parsing, the
   metadata string, file names, hex, integrity and the load-of-save round trip on file contents. *)
From Coq Require Import List ZArith Bool Lia.
From IB Require Import Ckpt.Bincode Ckpt.Store Proofs.CkptBincode.
Import ListNotations.
Open Scope Z_scope.

(* ------------------------------------------------------------------ byte strings *)
Lemma bytes_eqb_refl a : bytes_eqb a a = true.
Proof. induction a as [|x a IH]; cbn [bytes_eqb]; [reflexivity|]. now rewrite Z.eqb_refl, IH. Qed.

Lemma bytes_eqb_eq a b : bytes_eqb a b = true <-> a = b.
Proof.
  split; [|intros ->; apply bytes_eqb_refl].
  revert b; induction a as [|x a IH]; intros [|y b] H; cbn [bytes_eqb] in H; try discriminate; auto.
  apply andb_true_iff in H. destruct H as [H1 H2]. apply Z.eqb_eq in H1. subst. f_equal. auto.
Qed.

Lemma bytes_eqb_neq a b : bytes_eqb a b = false <-> a <> b.
Proof.
  split.
  - intros H E. apply bytes_eqb_eq in E. congruence.
  - intros H. destruct (bytes_eqb a b) eqn:E; [|reflexivity]. apply bytes_eqb_eq in E. contradiction.
Qed.

Lemma strip_prefix_app p l : strip_prefix p (p ++ l) = Some l.
Proof. induction p as [|x p IH]; cbn [strip_prefix app]; [destruct l; reflexivity|]. now rewrite Z.eqb_refl. Qed.

Lemma strip_prefix_some p : forall l r, strip_prefix p l = Some r -> l = p ++ r.
Proof.
  induction p as [|x p IH]; intros l r H.
  - destruct l; cbn in H; inversion H; reflexivity.
  - destruct l as [|y l]; cbn [strip_prefix] in H; [discriminate|].
    destruct (Z.eqb_spec x y); [|discriminate]. subst. cbn [app]. f_equal. auto.
Qed.

Lemma strip_suffix_app s l : strip_suffix s (l ++ s) = Some l.
Proof. unfold strip_suffix. now rewrite rev_app_distr, strip_prefix_app, rev_involutive. Qed.

Lemma strip_suffix_some s l r : strip_suffix s l = Some r -> l = r ++ s.
Proof.
  unfold strip_suffix. destruct (strip_prefix (rev s) (rev l)) as [x|] eqn:E; [|discriminate].
  intro H. inversion H; subst. apply strip_prefix_some in E.
  apply (f_equal (@rev Z)) in E. rewrite rev_involutive, rev_app_distr, rev_involutive in E. exact E.
Qed.

(* a separator that does not occur on one side determines the split *)
Lemma app_sep_unique (sep : Z) : forall l1 r1 l2 r2,
  ~ In sep l1 -> ~ In sep l2 -> l1 ++ sep :: r1 = l2 ++ sep :: r2 -> l1 = l2 /\ r1 = r2.
Proof.
  induction l1 as [|x l1 IH]; intros r1 [|y l2] r2 H1 H2 E; cbn [app] in E.
  - inversion E. auto.
  - inversion E; subst. exfalso. apply H2. now left.
  - inversion E; subst. exfalso. apply H1. now left.
  - inversion E; subst. destruct (IH r1 l2 r2) as [-> ->]; auto.
    + intro; apply H1; now right.
    + intro; apply H2; now right.
Qed.

Lemma app_sep_unique_r (sep : Z) l1 r1 l2 r2 :
  ~ In sep r1 -> ~ In sep r2 -> l1 ++ sep :: r1 = l2 ++ sep :: r2 -> l1 = l2 /\ r1 = r2.
Proof.
  intros H1 H2 E. apply (f_equal (@rev Z)) in E.
  rewrite !rev_app_distr in E. cbn [rev] in E. rewrite <- !app_assoc in E. cbn [app] in E.
  apply app_sep_unique in E; try (rewrite <- in_rev; assumption).
  destruct E as [E1 E2]. split.
  - rewrite <- (rev_involutive l1), <- (rev_involutive l2). now f_equal.
  - rewrite <- (rev_involutive r1), <- (rev_involutive r2). now f_equal.
Qed.

(* ------------------------------------------------------------------ decimal *)
Definition digitP (b : Z) : Prop := 48 <= b <= 57.

Lemma is_digit_iff b : is_digit b = true <-> digitP b.
Proof. unfold is_digit, in_rng, digitP. rewrite andb_true_iff, !Z.leb_le. tauto. Qed.

(* value of a digit list, least significant first *)
Fixpoint val_rev (l : bytes) : Z :=
  match l with [] => 0 | d :: r => (d - 48) + 10 * val_rev r end.

Lemma digits_rev_spec fuel : forall n,
  0 <= n < 2 ^ Z.of_nat fuel ->
  val_rev (digits_rev fuel n) = n /\ Forall digitP (digits_rev fuel n).
Proof.
  induction fuel as [|f IH]; intros n Hn.
  - cbn in Hn. cbn. split; [lia|constructor].
  - rewrite Nat2Z.inj_succ, Z.pow_succ_r in Hn by lia.
    cbn [digits_rev]. pose proof (Z.mod_pos_bound n 10 ltac:(lia)) as Hm.
    destruct (Z.ltb_spec n 10) as [H|H].
    + cbn [val_rev]. rewrite Z.mod_small by lia. split; [lia|].
      constructor; [unfold digitP; lia | constructor].
    + destruct (IH (n / 10)) as [IH1 IH2].
      { split; [apply Z.div_pos; lia | apply Z.div_lt_upper_bound; lia]. }
      cbn [val_rev]. rewrite IH1. split.
      * pose proof (Z.div_mod n 10 ltac:(lia)). lia.
      * constructor; [unfold digitP; lia | exact IH2].
Qed.

Lemma digits_rev_nonempty fuel n : digits_rev (S fuel) n <> [].
Proof. cbn [digits_rev]. discriminate. Qed.

Lemma dec_fuel_ok n : 0 <= n -> 0 <= n < 2 ^ Z.of_nat (S (Z.to_nat (Z.log2 n))).
Proof.
  intro Hn. split; [assumption|].
  rewrite Nat2Z.inj_succ, Z2Nat.id by apply Z.log2_nonneg.
  destruct (Z.eq_dec n 0) as [->|Hz]; [cbn; lia|].
  apply Z.log2_spec. lia.
Qed.

Lemma dec_val n : 0 <= n -> val_rev (rev (dec n)) = n.
Proof.
  intro Hn. unfold dec. rewrite rev_involutive.
  apply digits_rev_spec. now apply dec_fuel_ok.
Qed.

Lemma dec_digits n : 0 <= n -> Forall digitP (dec n).
Proof.
  intro Hn. unfold dec. apply Forall_rev. apply digits_rev_spec. now apply dec_fuel_ok.
Qed.

Lemma dec_nonempty n : dec n <> [].
Proof.
  unfold dec. intro H. apply (f_equal (@rev Z)) in H. rewrite rev_involutive in H.
  cbn [rev] in H. exact (digits_rev_nonempty _ _ H).
Qed.

Lemma dec_inj a b : 0 <= a -> 0 <= b -> dec a = dec b -> a = b.
Proof. intros Ha Hb E. rewrite <- (dec_val a Ha), <- (dec_val b Hb), E. reflexivity. Qed.

Lemma digits_no (c : Z) l : Forall digitP l -> ~ digitP c -> ~ In c l.
Proof. intros Hl Hc Hin. rewrite Forall_forall in Hl. exact (Hc (Hl _ Hin)). Qed.

(* parsing *)
Definition pstep (a d : Z) : Z := a * 10 + (d - 48).

Lemma fold_pstep_ge l : forall acc, Forall digitP l -> 0 <= acc -> acc <= fold_left pstep l acc.
Proof.
  induction l as [|d l IH]; intros acc Hl Ha; cbn [fold_left]; [lia|].
  inversion Hl as [|? ? Hd Hl']; subst. unfold digitP in Hd.
  specialize (IH (pstep acc d) Hl'). unfold pstep in *. lia.
Qed.

Lemma parse_digits_ok l : forall acc,
  Forall digitP l -> 0 <= acc -> fold_left pstep l acc <= u64_max ->
  parse_digits acc l = Some (fold_left pstep l acc).
Proof.
  induction l as [|d l IH]; intros acc Hl Ha Hmax; cbn [parse_digits fold_left]; [reflexivity|].
  inversion Hl as [|? ? Hd Hl']; subst.
  destruct (is_digit d) eqn:E; [|apply is_digit_iff in Hd; congruence].
  fold (pstep acc d). cbn [fold_left] in Hmax.
  assert (0 <= pstep acc d) by (unfold pstep, digitP in *; lia).
  pose proof (fold_pstep_ge l (pstep acc d) Hl' H).
  destruct (Z.gtb_spec (pstep acc d) u64_max); [lia|]. now apply IH.
Qed.

Lemma parse_digits_some l : forall acc v,
  parse_digits acc l = Some v -> Forall digitP l.
Proof.
  induction l as [|d l IH]; intros acc v H; [constructor|].
  cbn [parse_digits] in H. destruct (is_digit d) eqn:E; [|discriminate].
  destruct (_ >? u64_max); [discriminate|]. constructor; [now apply is_digit_iff | eauto].
Qed.

Lemma fold_pstep_rev l : fold_left pstep (rev l) 0 = val_rev l.
Proof.
  induction l as [|d l IH]; [reflexivity|].
  cbn [rev val_rev]. rewrite fold_left_app. cbn [fold_left]. rewrite IH. unfold pstep. lia.
Qed.

Lemma parse_dec n : is_u64 n -> parse_u64 (dec n) = Some n.
Proof.
  intros [Hn Hmax]. pose proof (dec_digits n Hn) as Hd. pose proof (dec_nonempty n) as Hne.
  assert (Hv : fold_left pstep (dec n) 0 = n).
  { rewrite <- (rev_involutive (dec n)), fold_pstep_rev. now apply dec_val. }
  unfold parse_u64. destruct (dec n) as [|b r] eqn:E; [congruence|].
  pose proof (Forall_inv Hd) as Hb. unfold c_plus.
  destruct (Z.eqb_spec b 43); [unfold digitP in Hb; lia|].
  rewrite parse_digits_ok; [now rewrite Hv | assumption | lia | rewrite Hv; assumption].
Qed.

(* a parsed timestamp text contains no '_' *)
Lemma parse_u64_no_us d t : parse_u64 d = Some t -> ~ In c_us d.
Proof.
  unfold parse_u64, c_us, c_plus. destruct d as [|b r]; [discriminate|].
  destruct (Z.eqb_spec b 43) as [->|Hb].
  - destruct r as [|x r]; [discriminate|]. intro H. apply parse_digits_some in H.
    intros [Hin|Hin]; [lia|]. revert Hin. apply digits_no; [assumption | unfold digitP; lia].
  - intro H. apply parse_digits_some in H. apply digits_no; [assumption | unfold digitP; lia].
Qed.

(* ------------------------------------------------------------------ meta_str is injective *)
Lemma meta_str_injective_fields :
  forall p1 a1 b1 c1 p2 a2 b2 c2,
    0 <= a1 -> 0 <= b1 -> 0 <= c1 -> 0 <= a2 -> 0 <= b2 -> 0 <= c2 ->
    p1 ++ [c_colon] ++ dec a1 ++ [c_colon] ++ dec b1 ++ [c_colon] ++ dec c1 =
    p2 ++ [c_colon] ++ dec a2 ++ [c_colon] ++ dec b2 ++ [c_colon] ++ dec c2 ->
    p1 = p2 /\ a1 = a2 /\ b1 = b2 /\ c1 = c2.
Proof.
  intros p1 a1 b1 c1 p2 a2 b2 c2 Ha1 Hb1 Hc1 Ha2 Hb2 Hc2 E. unfold c_colon in *.
  assert (NC : forall n, 0 <= n -> ~ In 58 (dec n)).
  { intros n Hn. apply digits_no; [now apply dec_digits | unfold digitP; lia]. }
  cbn [app] in E.
  (* last separator *)
  assert (E3 : (p1 ++ 58 :: dec a1 ++ 58 :: dec b1) ++ 58 :: dec c1 =
               (p2 ++ 58 :: dec a2 ++ 58 :: dec b2) ++ 58 :: dec c2).
  { rewrite <- !app_assoc. cbn [app]. rewrite <- !app_assoc. exact E. }
  apply app_sep_unique_r in E3; auto. destruct E3 as [E3 Ec].
  assert (E2 : (p1 ++ 58 :: dec a1) ++ 58 :: dec b1 = (p2 ++ 58 :: dec a2) ++ 58 :: dec b2).
  { rewrite <- !app_assoc. exact E3. }
  apply app_sep_unique_r in E2; auto. destruct E2 as [E2 Eb].
  apply app_sep_unique_r in E2; auto. destruct E2 as [E1 Ea].
  repeat split; [assumption | apply dec_inj | apply dec_inj | apply dec_inj]; assumption.
Qed.

Definition nums_nonneg (s : cstate) : Prop :=
  0 <= completed_node_index s /\ 0 <= timestamp s /\ 0 <= partition_count s.

Theorem meta_str_injective s1 s2 :
  nums_nonneg s1 -> nums_nonneg s2 -> meta_str s1 = meta_str s2 -> protected s1 = protected s2.
Proof.
  intros (A1 & B1 & C1) (A2 & B2 & C2) E. unfold meta_str in E.
  apply meta_str_injective_fields in E; try assumption.
  unfold protected. destruct E as (-> & -> & -> & ->). reflexivity.
Qed.

(* ------------------------------------------------------------------ hex *)
Lemma hex_digit_inj x y : 0 <= x < 16 -> 0 <= y < 16 -> hex_digit x = hex_digit y -> x = y.
Proof.
  unfold hex_digit. intros Hx Hy.
  destruct (Z.ltb_spec x 10); destruct (Z.ltb_spec y 10); lia.
Qed.

Lemma hex_inj : forall a b, Forall is_byte a -> Forall is_byte b -> hex a = hex b -> a = b.
Proof.
  induction a as [|x a IH]; intros [|y b] Ha Hb E; cbn in E; try discriminate; [reflexivity|].
  inversion Ha as [|? ? Hx Ha']; inversion Hb as [|? ? Hy Hb']; subst. unfold is_byte in *.
  inversion E as [[E1 E2 E3]].
  apply hex_digit_inj in E1;
    [| split; [apply Z.div_pos; lia | apply Z.div_lt_upper_bound; lia] ..].
  apply hex_digit_inj in E2; [| apply Z.mod_pos_bound; lia ..].
  f_equal.
  - pose proof (Z.div_mod x 16 ltac:(lia)). pose proof (Z.div_mod y 16 ltac:(lia)). lia.
  - apply IH; assumption.
Qed.

(* ------------------------------------------------------------------ file names *)
Lemma file_ts_ckpt_name pid ts : is_u64 ts -> file_ts (ckpt_prefix pid) (ckpt_name pid ts) = Some ts.
Proof.
  intro H. unfold file_ts, ckpt_name. now rewrite strip_prefix_app, strip_suffix_app, parse_dec.
Qed.

Lemma file_ts_inv prefix n t :
  file_ts prefix n = Some t -> exists d, n = prefix ++ d ++ s_bin /\ parse_u64 d = Some t.
Proof.
  unfold file_ts. destruct (strip_prefix prefix n) as [r|] eqn:E1; [|discriminate].
  destruct (strip_suffix s_bin r) as [d|] eqn:E2; [|discriminate].
  intro H. exists d. apply strip_prefix_some in E1. apply strip_suffix_some in E2. subst. auto.
Qed.

Lemma is_ckpt_true pid n : is_ckpt pid n = true <-> exists t, file_ts (ckpt_prefix pid) n = Some t.
Proof.
  unfold is_ckpt. destruct (file_ts (ckpt_prefix pid) n) as [t|].
  - split; eauto.
  - split; [discriminate | intros [t H]; discriminate].
Qed.

Lemma is_ckpt_name pid ts : is_u64 ts -> is_ckpt pid (ckpt_name pid ts) = true.
Proof. intro H. apply is_ckpt_true. exists ts. now apply file_ts_ckpt_name. Qed.

Lemma ts_key_name pid ts : is_u64 ts -> ts_key pid (ckpt_name pid ts) = ts.
Proof. intro H. unfold ts_key. now rewrite file_ts_ckpt_name. Qed.

(* a file belongs to at most one pipeline *)
Theorem owner_unique p1 p2 n :
  is_ckpt p1 n = true -> is_ckpt p2 n = true -> p1 = p2.
Proof.
  intros H1 H2. apply is_ckpt_true in H1, H2. destruct H1 as [t1 H1], H2 as [t2 H2].
  apply file_ts_inv in H1, H2. destruct H1 as (d1 & E1 & P1), H2 as (d2 & E2 & P2).
  rewrite E1 in E2. unfold ckpt_prefix in E2. rewrite <- !app_assoc in E2.
  apply app_inv_head in E2. cbn [app] in E2.
  assert (N : forall d t, parse_u64 d = Some t -> ~ In c_us (d ++ s_bin)).
  { intros d t P Hin. apply in_app_or in Hin. destruct Hin as [Hin|Hin].
    - exact (parse_u64_no_us d t P Hin).
    - unfold c_us, s_bin in Hin. cbn in Hin. lia. }
  apply app_sep_unique_r in E2; [tauto | eapply N; eassumption | eapply N; eassumption].
Qed.

(* ------------------------------------------------------------------ integrity *)
Section Integrity.
  Variable H : bytes -> bytes.
  Variable avail : Z.
  Hypothesis Hav : ckpt_limit <= avail.

  Lemma ckpt_limit_range : 0 <= ckpt_limit <= u64_max.
  Proof. unfold ckpt_limit, u64_max. lia. Qed.

  (* load_checkpoint is total: Ok or Err, for every file content *)
  Theorem load_bytes_total b :
    (exists s, load_bytes H avail b = Ok s) \/ (exists e, load_bytes H avail b = Err e).
  Proof.
    unfold load_bytes.
    pose proof (decode_no_abort ckpt_limit avail b ltac:(pose proof ckpt_limit_range; lia)) as NA.
    destruct (decode (Some ckpt_limit) avail b) as [s|e|]; [|right; eauto|contradiction].
    destruct (bytes_eqb _ _); [left|right]; eauto.
  Qed.

  Lemma load_bytes_ok b s :
    load_bytes H avail b = Ok s ->
    decode (Some ckpt_limit) avail b = DOk s /\ checksum s = compute_checksum H (meta_str s).
  Proof.
    unfold load_bytes. destruct (decode (Some ckpt_limit) avail b) as [s'|e|]; try discriminate.
    destruct (bytes_eqb _ _) eqn:E; [|discriminate]. intro X; inversion X; subst.
    apply bytes_eqb_eq in E. auto.
  Qed.

  (* a saved file (with junk appended or not) loads back exactly *)
  Theorem load_bytes_roundtrip s junk :
    wf_state s -> claim_total s <= ckpt_limit ->
    checksum s = compute_checksum H (meta_str s) ->
    load_bytes H avail (encode s ++ junk) = Ok s.
  Proof.
    intros Hwf Hsz Hck. unfold load_bytes.
    rewrite decode_encode_exact;
      [| exact ckpt_limit_range | exact Hav
       | apply wf_state_value; [assumption | pose proof ckpt_limit_range; lia]].
    destruct (Z.leb_spec (claim_total s) ckpt_limit); [|lia].
    now rewrite <- Hck, bytes_eqb_refl.
  Qed.

  (* whatever is accepted, with the checksum of a saved state s, either has s's protected fields
     or exhibits a collision of (hex . H) *)
  Theorem tamper_detected s b s' :
    nums_nonneg s -> Forall is_byte b ->
    checksum s = compute_checksum H (meta_str s) ->
    load_bytes H avail b = Ok s' -> checksum s' = checksum s ->
    protected s' <> protected s ->
    meta_str s' <> meta_str s /\ hex (H (meta_str s')) = hex (H (meta_str s)).
  Proof.
    intros Hs Hb Hck Hl Hsame Hp. apply load_bytes_ok in Hl. destruct Hl as [Hd Hc'].
    pose proof (decode_range ckpt_limit avail b s' ltac:(pose proof ckpt_limit_range; lia) Hb Hd)
      as (R1 & R2 & R3 & _).
    split.
    - intro E. apply Hp. apply meta_str_injective; [|assumption|assumption].
      unfold nums_nonneg, is_u64 in *. lia.
    - unfold compute_checksum in *. congruence.
  Qed.

  (* a saved file whose checksum field alone was replaced is rejected *)
  Theorem checksum_alteration_rejected s c' junk :
    let s2 := mk_cstate (pipeline_id s) (completed_node_index s) (timestamp s) (partition_count s)
                        c' (exec_mode s) (metadata s) in
    wf_value s2 -> c' <> compute_checksum H (meta_str s) ->
    exists e, load_bytes H avail (encode s2 ++ junk) = Err e.
  Proof.
    intros s2 Hwf Hne. unfold load_bytes.
    rewrite decode_encode_exact; [| exact ckpt_limit_range | exact Hav | exact Hwf].
    destruct (claim_total s2 <=? ckpt_limit); [|eauto].
    change (meta_str s2) with (meta_str s). change (checksum s2) with c'.
    destruct (bytes_eqb _ _) eqn:E; [|eauto].
    apply bytes_eqb_eq in E. congruence.
  Qed.
End Integrity.
