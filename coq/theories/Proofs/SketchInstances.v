(* The sketch combiners as instances of the generic pipeline theorems (Proofs/SketchPipeProofs.v):
   - KMV: the helpers of src/helpers/distinct.rs (approx_distinct_count and its per-key twin) give,
     for every partitioning, the specification kmv_spec of the (key's) ranks; the twins agree;
   - t-digest (exact instance): ApproxQuantiles / ApproxMedian are lawful w.r.t. "the digest
     invariant holds for the finite inputs", hence every estimate that comes out of
     combine_globally(_lifted) / combine_values / combine_values_lifted lies between the smallest
     and the largest finite value of (the key's) rows. *)
From Coq Require Import List Bool Arith QArith Lqa Lia Permutation Sorted.
From IB Require Import Combiners.Lawful Combiners.KMV Combiners.TDigest Combiners.SketchPipe.
From IB Require Import Proofs.CombinersLawful Proofs.KMVProofs Proofs.SketchPipeProofs
                       Proofs.TDigestBase Proofs.TDigestInv Proofs.TDigestQuantile.
Import ListNotations.
Close Scope Q_scope.

(* ================================================================ KMV *)
Section KMVPipe.
  Context {R K : Type} (ltb eqb : R -> R -> bool) (keqb : K -> K -> bool).
  Hypothesis ltb_irrefl : forall a, ltb a a = false.
  Hypothesis ltb_trans : forall a b c, ltb a b = true -> ltb b c = true -> ltb a c = true.
  Hypothesis ltb_total : forall a b, ltb a b = false -> ltb b a = false -> a = b.
  Hypothesis eqb_eq : forall a b, eqb a b = true <-> a = b.
  Hypothesis keqb_eq : forall a b, keqb a b = true <-> a = b.

  Local Notation LK := (kmv_lawful ltb eqb ltb_irrefl ltb_trans ltb_total eqb_eq).
  Local Notation spec k := (kmv_spec ltb eqb (Nat.max k 4)).

  (* combine_globally / combine_globally_lifted with KMVApproxDistinctCount::new(k) *)
  Theorem kmv_global_spec : forall k lifted fan parts ranks,
    combine_globally (kmv_combiner ltb eqb k) lifted fan parts ranks = spec k ranks.
  Proof.
    intros k lifted fan parts ranks.
    exact (combine_globally_spec _ _ _ (LK k) lifted fan parts ranks).
  Qed.

  (* PCollection::approx_distinct_count(k) *)
  Theorem adc_spec : forall k parts ranks,
    approx_distinct_count ltb eqb k parts ranks = spec k ranks.
  Proof. intros k parts ranks. apply kmv_global_spec. Qed.

  (* PCollection::approx_distinct_count_per_key(k) *)
  Theorem adck_spec : forall k key parts rows,
    match approx_distinct_count_per_key ltb eqb keqb k key parts rows with
    | Some o => In key (map fst rows) /\ o = spec k (mine keqb key rows)
    | None => ~ In key (map fst rows)
    end.
  Proof.
    intros k key parts rows.
    exact (combine_values_spec _ _ _ (LK k) keqb keqb_eq key parts rows).
  Qed.

  (* the per-key helper is exact while the key has fewer distinct ranks than the sketch size --
     for EVERY sketch size *)
  Theorem adck_exact_below_k : forall k key parts rows,
    In key (map fst rows) ->
    length (usort ltb eqb (mine keqb key rows)) < Nat.max k 4 ->
    approx_distinct_count_per_key ltb eqb keqb k key parts rows
    = Some (KCount (length (usort ltb eqb (mine keqb key rows)))).
  Proof.
    intros k key parts rows Hin Hlt. pose proof (adck_spec k key parts rows) as H.
    destruct (approx_distinct_count_per_key ltb eqb keqb k key parts rows) as [o|];
      [|contradiction].
    destruct H as [_ ->]. f_equal. unfold kmv_spec.
    apply Nat.ltb_lt in Hlt. rewrite Hlt. reflexivity.
  Qed.

  (* the twins agree: the per-key helper gives, for each key, what the global helper gives on that
     key's values -- whatever the two partitionings *)
  Theorem adc_twins_agree : forall k key parts parts' rows,
    In key (map fst rows) ->
    approx_distinct_count_per_key ltb eqb keqb k key parts rows
    = Some (approx_distinct_count ltb eqb k parts' (mine keqb key rows)).
  Proof.
    intros k key parts parts' rows Hin. pose proof (adck_spec k key parts rows) as H.
    destruct (approx_distinct_count_per_key ltb eqb keqb k key parts rows) as [o|];
      [|contradiction].
    destruct H as [_ ->]. rewrite adc_spec. reflexivity.
  Qed.

  (* the lifted combine over hand-grouped records sees ALL records of a key *)
  Theorem kmv_lifted_groups_spec : forall k key parts recs,
    match combine_values_lifted (kmv_combiner ltb eqb k) keqb key parts recs with
    | Some o => In key (map fst recs) /\ o = spec k (concat (mine_groups keqb key recs))
    | None => ~ In key (map fst recs)
    end.
  Proof.
    intros k key parts recs.
    exact (combine_values_lifted_spec _ _ _ (LK k) keqb keqb_eq key parts recs).
  Qed.
End KMVPipe.

(* ================================================================ t-digest, exact instance *)
Local Open Scope Q_scope.

(* the accumulator stands for the inputs m: the digest invariant holds for their finite values *)
Definition td_R (d : digest X) (m : list X) : Prop := Inv (fin_inputs m) d.

Lemma wsum_perm : forall l l', Permutation l l' -> wsum l == wsum l'.
Proof.
  intros l l' P. induction P as [|x l l' P IH|x y l|l l' l'' P1 IH1 P2 IH2]; unfold wsum in *;
    cbn [fold_right].
  - reflexivity.
  - rewrite IH. reflexivity.
  - ring.
  - rewrite IH1. exact IH2.
Qed.

Lemma is_lo_perm : forall lo l l', Permutation l l' -> is_lo lo l -> is_lo lo l'.
Proof.
  intros lo l l' P [(p & Hp & E) H]. split.
  - exists p. split; [eapply Permutation_in; eassumption | exact E].
  - intros q Hq. apply H. eapply Permutation_in; [apply Permutation_sym; exact P | exact Hq].
Qed.

Lemma is_hi_perm : forall hi l l', Permutation l l' -> is_hi hi l -> is_hi hi l'.
Proof.
  intros hi l l' P [(p & Hp & E) H]. split.
  - exists p. split; [eapply Permutation_in; eassumption | exact E].
  - intros q Hq. apply H. eapply Permutation_in; [apply Permutation_sym; exact P | exact Hq].
Qed.

Lemma inv_perm : forall l l' d, Permutation l l' -> Inv l d -> Inv l' d.
Proof.
  intros l l' d P HI.
  destruct HI as [W El Ec Et HW Hmin Hmax | lo hi W Nl Nc Hmin Hmax Et Hlo Hhi Hf HW HWl H1].
  - subst l. apply Permutation_nil in P. subst l'. eapply Inv_empty; eauto.
  - eapply Inv_some with (lo := lo) (hi := hi) (W := W); try assumption.
    + intro E. subst l'. apply Permutation_sym, Permutation_nil in P. contradiction.
    + eapply is_lo_perm; eassumption.
    + eapply is_hi_perm; eassumption.
    + rewrite HWl. apply wsum_perm. exact P.
Qed.

Lemma fin_inputs_cons : forall v m,
  fin_inputs (v :: m) = match v with Fin x => (x, 1) :: fin_inputs m | _ => fin_inputs m end.
Proof. intros v m. unfold fin_inputs. cbn [flat_map]. destruct v; reflexivity. Qed.

Lemma fin_inputs_app : forall m m', fin_inputs (m ++ m') = fin_inputs m ++ fin_inputs m'.
Proof. intros m m'. unfold fin_inputs. apply flat_map_app. Qed.

Lemma fin_inputs_perm : forall m m', Permutation m m' -> Permutation (fin_inputs m) (fin_inputs m').
Proof. intros m m' P. unfold fin_inputs. apply Permutation_flat_map. exact P. Qed.

Lemma td_R_add : forall d m v, td_R d m -> td_R (td_add xarith d v) (v :: m).
Proof.
  intros d m v H. unfold td_R in *. rewrite fin_inputs_cons. unfold td_add.
  destruct v as [x| | |]; try (rewrite inv_add_nonfinite by reflexivity; exact H).
  apply inv_add; [exact H | cbn; lra].
Qed.

Lemma td_R_fold : forall vs d m,
  td_R d m -> td_R (fold_left (td_add xarith) vs d) (rev vs ++ m).
Proof.
  induction vs as [|v vs IH]; intros d m H; cbn [fold_left rev app]; [exact H|].
  rewrite <- app_assoc. cbn [app]. apply IH. apply td_R_add. exact H.
Qed.

Lemma td_R_perm : forall d m m', td_R d m -> Permutation m m' -> td_R d m'.
Proof. intros d m m' H P. unfold td_R in *. eapply inv_perm; [apply fin_inputs_perm; exact P | exact H]. Qed.

Lemma td_R_build : forall c vs, td_R (aq_build xarith c vs) vs.
Proof.
  intros c vs. unfold aq_build. unfold td_R. apply inv_compress.
  apply (td_R_perm _ (rev vs ++ [])).
  - apply td_R_fold. unfold td_R. cbn. apply inv_new.
  - rewrite app_nil_r. apply Permutation_sym, Permutation_rev.
Qed.

(* one estimate of a digest that satisfies the invariant *)
Lemma quantile_est_in_range : forall m d q,
  td_R d m -> td_is_empty xarith d = false ->
  est_in_range m (td_quantile xarith (td_compress xarith d) q).
Proof.
  intros m d q H E. unfold td_R in H.
  assert (NE : fin_inputs m <> []).
  { intro N. apply (is_empty_iff _ _ H) in N. congruence. }
  right.
  destruct (quantile_range _ _ (inv_compress _ _ H) NE q)
    as (lo & hi & v & _ & _ & Hlo & Hhi & Ev & Hv).
  exists lo, hi, v. split; [exact Hlo|]. split; [exact Hhi|]. split; [exact Ev | exact Hv].
Qed.

Lemma empty_est_in_range : forall m d, td_R d m -> td_is_empty xarith d = true -> est_in_range m NaN.
Proof.
  intros m d H E. left. split; [|reflexivity]. apply (is_empty_iff _ _ H). exact E.
Qed.

(* one estimate, with the exact ends *)
Lemma quantile_est_for : forall m d q,
  td_R d m -> td_is_empty xarith d = false ->
  est_for m q (td_quantile xarith (td_compress xarith d) q).
Proof.
  intros m d q H E. unfold td_R in H.
  assert (NE : fin_inputs m <> []).
  { intro N. apply (is_empty_iff _ _ H) in N. congruence. }
  right. pose proof (inv_compress _ _ H) as HC.
  destruct (quantile_range _ _ HC NE q)
    as (lo & hi & v & Hmin & Hmax & Hlo & Hhi & Ev & Hv).
  exists lo, hi, v. split; [exact Hlo|]. split; [exact Hhi|]. split; [exact Ev|].
  split; [exact Hv|]. split.
  - intro Hq.
    destruct (inv_nonempty _ _ HC NE) as (lo' & hi' & W & Nc & _).
    pose proof (quantile_at_0 _ q Nc Hq) as E0. rewrite Hmin in E0. congruence.
  - intro Hq.
    destruct (quantile_at_1 _ _ HC NE q Hq) as (hi1 & x1 & Hmax1 & _ & Q1 & Hx1).
    assert (hi1 = hi) by congruence. subst hi1.
    assert (x1 = v) by congruence. subst x1. exact Hx1.
Qed.

Theorem aq_lawful : forall qs c, lawful (aq_combiner xarith qs c) td_R (aq_spec qs).
Proof.
  intros qs c. constructor; cbn [aq_combiner c_create c_add c_merge c_finish c_build].
  - unfold td_R. cbn. apply inv_new.
  - intros a m v H. apply td_R_add. exact H.
  - intros a b m m' Ha Hb. unfold td_R in *. rewrite fin_inputs_app. apply inv_merge; assumption.
  - intro vs. apply td_R_build.
  - intros a m m' H P. eapply td_R_perm; eassumption.
  - intros a m H. unfold aq_spec, aq_finish. destruct (td_is_empty xarith a) eqn:E.
    + induction qs as [|q qs IH]; cbn [map]; constructor; [|exact IH].
      left. split; [apply (is_empty_iff _ _ H); exact E | reflexivity].
    + unfold td_quantiles. induction qs as [|q qs IH]; cbn [map]; constructor; [|exact IH].
      apply quantile_est_for; assumption.
Qed.

Theorem am_lawful : forall c, lawful (am_combiner xarith c) td_R am_spec.
Proof.
  intros c. constructor; cbn [am_combiner c_create c_add c_merge c_finish c_build].
  - unfold td_R. cbn. apply inv_new.
  - intros a m v H. apply td_R_add. exact H.
  - intros a b m m' Ha Hb. unfold td_R in *. rewrite fin_inputs_app. apply inv_merge; assumption.
  - intro vs. apply td_R_build.
  - intros a m m' H P. eapply td_R_perm; eassumption.
  - intros a m H. unfold am_spec, am_finish. destruct (td_is_empty xarith a) eqn:E.
    + eapply empty_est_in_range; eassumption.
    + apply quantile_est_in_range; assumption.
Qed.

(* ---- the pipeline entry points with ApproxQuantiles / ApproxMedian ---- *)
Section TDPipe.
  Context {K : Type} (keqb : K -> K -> bool).
  Hypothesis keqb_eq : forall a b, keqb a b = true <-> a = b.

  Theorem quantiles_global_in_range : forall qs c lifted fan parts rows,
    aq_spec qs rows (combine_globally (aq_combiner xarith qs c) lifted fan parts rows).
  Proof.
    intros qs c lifted fan parts rows.
    exact (combine_globally_spec _ _ _ (aq_lawful qs c) lifted fan parts rows).
  Qed.

  Theorem median_global_in_range : forall c lifted fan parts rows,
    am_spec rows (combine_globally (am_combiner xarith c) lifted fan parts rows).
  Proof.
    intros c lifted fan parts rows.
    exact (combine_globally_spec _ _ _ (am_lawful c) lifted fan parts rows).
  Qed.

  Theorem quantiles_per_key_in_range : forall qs c key parts rows,
    match combine_values (aq_combiner xarith qs c) keqb key parts rows with
    | Some o => In key (map fst rows) /\ aq_spec qs (mine keqb key rows) o
    | None => ~ In key (map fst rows)
    end.
  Proof.
    intros qs c key parts rows.
    exact (combine_values_spec _ _ _ (aq_lawful qs c) keqb keqb_eq key parts rows).
  Qed.

  Theorem median_per_key_in_range : forall c key parts rows,
    match combine_values (am_combiner xarith c) keqb key parts rows with
    | Some o => In key (map fst rows) /\ am_spec (mine keqb key rows) o
    | None => ~ In key (map fst rows)
    end.
  Proof.
    intros c key parts rows.
    exact (combine_values_spec _ _ _ (am_lawful c) keqb keqb_eq key parts rows).
  Qed.

  Theorem quantiles_lifted_groups_in_range : forall qs c key parts recs,
    match combine_values_lifted (aq_combiner xarith qs c) keqb key parts recs with
    | Some o => In key (map fst recs) /\ aq_spec qs (concat (mine_groups keqb key recs)) o
    | None => ~ In key (map fst recs)
    end.
  Proof.
    intros qs c key parts recs.
    exact (combine_values_lifted_spec _ _ _ (aq_lawful qs c) keqb keqb_eq key parts recs).
  Qed.
End TDPipe.

(* ---- ApproxQuantiles::five_number_summary: [min, q1, median, q3, max] ---- *)
Theorem five_number_summary_spec : forall (p : prog X), wf_prog p -> inputs p <> [] ->
  exists lo hi q1 q2 q3 hi',
    aq_finish xarith (qs_five_number xarith) (run xarith p)
    = [Fin lo; Fin q1; Fin q2; Fin q3; Fin hi'] /\
    is_lo lo (inputs p) /\ is_hi hi (inputs p) /\ hi' == hi /\
    lo <= q1 <= hi /\ lo <= q2 <= hi /\ lo <= q3 <= hi.
Proof.
  intros p Hw NE.
  pose proof (run_inv p Hw) as HI.
  assert (E : td_is_empty xarith (run xarith p) = false).
  { destruct (td_is_empty xarith (run xarith p)) eqn:E; [|reflexivity].
    apply (is_empty_iff _ _ HI) in E. contradiction. }
  unfold aq_finish. rewrite E. unfold td_quantiles, qs_five_number. cbn [map].
  pose proof (inv_compress _ _ HI) as HC.
  set (d := td_compress xarith (run xarith p)) in *.
  destruct (inv_nonempty _ _ HC NE) as (lo & hi & W & Nc & Hmin & Hmax & _ & Hlo & Hhi & _).
  assert (Q0 : td_quantile xarith d (a_zero xarith) = Fin lo).
  { rewrite <- Hmin. apply quantile_at_0; [exact Nc | reflexivity]. }
  destruct (quantile_at_1 _ _ HC NE (a_one xarith) eq_refl) as (hi1 & x1 & Hmax1 & _ & Q1 & Hx1).
  assert (Ehi : hi1 = hi) by congruence. subst hi1.
  destruct (quantile_range _ _ HC NE (a_pct xarith 25)) as (lo2 & hi2 & v1 & Hmin2 & Hmax2 & _ & _ & Ev1 & Hv1).
  destruct (quantile_range _ _ HC NE (a_half xarith)) as (lo3 & hi3 & v2 & Hmin3 & Hmax3 & _ & _ & Ev2 & Hv2).
  destruct (quantile_range _ _ HC NE (a_pct xarith 75)) as (lo4 & hi4 & v3 & Hmin4 & Hmax4 & _ & _ & Ev3 & Hv3).
  assert (lo2 = lo) by congruence. assert (hi2 = hi) by congruence.
  assert (lo3 = lo) by congruence. assert (hi3 = hi) by congruence.
  assert (lo4 = lo) by congruence. assert (hi4 = hi) by congruence. subst.
  exists lo, hi, v1, v2, v3, x1.
  rewrite Q0, Q1, Ev1, Ev2, Ev3.
  split; [reflexivity|]. split; [exact Hlo|]. split; [exact Hhi|]. split; [exact Hx1|].
  split; [exact Hv1|]. split; [exact Hv2 | exact Hv3].
Qed.
