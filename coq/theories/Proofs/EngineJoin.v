(* C07: the join closures of joins.rs (two hash maps + nested loops over a map's keys) return the
   relational join of their inputs as a multiset; nested joins are rejected. Lemmas for Props/C07.v. *)
From Coq Require Import List ZArith Bool Arith Lia Permutation.
From IB Require Import Engine.Val Engine.Ops Engine.AMap Engine.Nodes Engine.Exec Engine.Lang
     Engine.Denote Proofs.EngineBase Proofs.EngineKeyed.
Import ListNotations.

Lemma perm_flat_map_eq : forall {A B : Type} (f g : A -> list B) l,
    (forall a, f a = g a) -> Permutation (flat_map f l) (flat_map g l).
Proof. intros A B f g l H. rewrite (flat_map_ext f g H). apply Permutation_refl. Qed.

Lemma perm_flat_map_eq_in : forall {A B : Type} (f g : A -> list B) l,
    (forall a, In a l -> f a = g a) -> Permutation (flat_map f l) (flat_map g l).
Proof. intros A B f g l H. rewrite (flat_map_ext_in f g l H). apply Permutation_refl. Qed.

(* ---------- any per-row production, regrouped by the keys of the local hash map ---------- *)
Lemma regroup : forall {B : Type} (F : val -> list B) rows, Forall vrow rows ->
    Permutation (flat_map F rows)
      (flat_map (fun k => flat_map (fun v => F (VPair k v)) (values_of k rows))
                (akeys (gbk_local rows))).
Proof.
  intros B F rows Hrows.
  eapply Permutation_trans.
  - apply Permutation_flat_map. apply Permutation_sym.
    apply (rows_by_keys (akeys (gbk_local rows)) rows).
    + apply local_nodup.
    + exact Hrows.
    + intros r Hr. apply local_keys. apply in_map. exact Hr.
  - rewrite flat_map_flat_map. apply perm_flat_map_eq. intros k. apply flat_map_map.
Qed.

(* ---------- d_join in terms of values_of ---------- *)
Definition inner_l (mk : val -> val -> val) (l r : list val) : list val :=
  flat_map (fun lr => map (fun w => VPair (vfst lr) (mk (vsnd lr) w)) (values_of (vfst lr) r)) l.
(* rows of l without a partner in r *)
Definition unmatched (hv : val -> val) (l r : list val) : list val :=
  map (fun lr => VPair (vfst lr) (hv (vsnd lr)))
      (filter (fun lr => isnil (values_of (vfst lr) r)) l).

Lemma inner_eq : forall mk l r,
    flat_map (fun lr => map (fun rr => VPair (vfst lr) (mk (vsnd lr) (vsnd rr)))
                            (filter (fun rr => val_eqb (vfst rr) (vfst lr)) r)) l
    = inner_l mk l r.
Proof.
  intros mk l r. unfold inner_l. apply flat_map_ext. intros lr. unfold values_of.
  rewrite map_map. reflexivity.
Qed.

Lemma unmatched_eq : forall hv l r,
    map (fun lr => VPair (vfst lr) (hv (vsnd lr)))
        (filter (fun lr => match filter (fun rr => val_eqb (vfst rr) (vfst lr)) r with
                           | [] => true | _ => false end) l)
    = unmatched hv l r.
Proof.
  intros hv l r. unfold unmatched. f_equal. apply filter_ext. intros lr.
  unfold values_of. rewrite isnil_map. reflexivity.
Qed.

Lemma d_join_canon : forall kind l r,
    d_join kind l r =
    match kind with
    | JInner => inner_l (fun v w => VPair v w) l r
    | JLeft => inner_l (fun v w => VPair v (VSome w)) l r ++ unmatched (fun v => VPair v VNone) l r
    | JRight => inner_l (fun v w => VPair (VSome v) w) l r ++ unmatched (fun w => VPair VNone w) r l
    | JFull => inner_l (fun v w => VPair (VSome v) (VSome w)) l r
               ++ unmatched (fun v => VPair (VSome v) VNone) l r
               ++ unmatched (fun w => VPair VNone (VSome w)) r l
    end.
Proof.
  intros kind l r. destruct kind; unfold d_join; cbv beta zeta.
  - exact (inner_eq (fun v w => VPair v w) l r).
  - apply (f_equal2 (@app val)).
    + exact (inner_eq (fun v w => VPair v (VSome w)) l r).
    + exact (unmatched_eq (fun v => VPair v VNone) l r).
  - apply (f_equal2 (@app val)).
    + exact (inner_eq (fun v w => VPair (VSome v) w) l r).
    + exact (unmatched_eq (fun w => VPair VNone w) r l).
  - apply (f_equal2 (@app val)); [|apply (f_equal2 (@app val))].
    + exact (inner_eq (fun v w => VPair (VSome v) (VSome w)) l r).
    + exact (unmatched_eq (fun v => VPair (VSome v) VNone) l r).
    + exact (unmatched_eq (fun w => VPair VNone (VSome w)) r l).
Qed.

(* ---------- regrouped forms ---------- *)
Lemma inner_regroup : forall mk l r, Forall vrow l ->
    Permutation (inner_l mk l r)
      (flat_map (fun k => flat_map (fun v => map (fun w => VPair k (mk v w)) (values_of k r))
                                   (values_of k l))
                (akeys (gbk_local l))).
Proof.
  intros mk l r Hl. unfold inner_l.
  exact (regroup (fun lr => map (fun w => VPair (vfst lr) (mk (vsnd lr) w)) (values_of (vfst lr) r))
                 l Hl).
Qed.

Lemma left_regroup : forall mk hv l r, Forall vrow l ->
    Permutation (inner_l mk l r ++ unmatched hv l r)
      (flat_map (fun k => flat_map (fun v => map (fun w => VPair k (mk v w)) (values_of k r)
                                             ++ (if isnil (values_of k r) then [VPair k (hv v)] else []))
                                   (values_of k l))
                (akeys (gbk_local l))).
Proof.
  intros mk hv l r Hl. unfold unmatched, inner_l. rewrite map_filter_flat_map.
  eapply Permutation_trans; [apply Permutation_sym; apply flat_map_app_perm|].
  exact (regroup (fun lr => map (fun w => VPair (vfst lr) (mk (vsnd lr) w)) (values_of (vfst lr) r)
                            ++ (if isnil (values_of (vfst lr) r)
                                then [VPair (vfst lr) (hv (vsnd lr))] else []))
                 l Hl).
Qed.

Lemma unmatched_regroup : forall hv l r, Forall vrow l ->
    Permutation (unmatched hv l r)
      (flat_map (fun k => flat_map (fun v => if isnil (values_of k r) then [VPair k (hv v)] else [])
                                   (values_of k l))
                (akeys (gbk_local l))).
Proof.
  intros hv l r Hl. unfold unmatched. rewrite map_filter_flat_map.
  exact (regroup (fun lr => if isnil (values_of (vfst lr) r)
                            then [VPair (vfst lr) (hv (vsnd lr))] else [])
                 l Hl).
Qed.

(* ---------- left-major = right-major ---------- *)
Lemma values_of_cons : forall k x rows,
    values_of k (x :: rows) = (if val_eqb (vfst x) k then [vsnd x] else []) ++ values_of k rows.
Proof.
  intros k x rows. unfold values_of. cbn [filter]. destruct (val_eqb (vfst x) k); reflexivity.
Qed.

Lemma swap_head : forall (mk : val -> val -> val) x r,
    flat_map (fun rr => if val_eqb (vfst x) (vfst rr)
                        then [VPair (vfst rr) (mk (vsnd x) (vsnd rr))] else []) r
    = map (fun w => VPair (vfst x) (mk (vsnd x) w)) (values_of (vfst x) r).
Proof.
  intros mk x r. induction r as [|rr r IH]; [reflexivity|].
  cbn [flat_map]. rewrite values_of_cons, map_app, IH. f_equal.
  destruct (val_eqb_spec (vfst x) (vfst rr)) as [He|Hne];
    destruct (val_eqb_spec (vfst rr) (vfst x)) as [He'|Hne']; try congruence.
  - cbn [map]. rewrite He. reflexivity.
  - reflexivity.
Qed.

Lemma inner_swap : forall mk l r,
    Permutation (inner_l mk l r) (inner_l (fun w v => mk v w) r l).
Proof.
  intros mk l r. induction l as [|x l IH].
  - unfold inner_l. cbn [flat_map]. unfold values_of. cbn [filter map].
    rewrite flat_map_nil_f. constructor.
  - unfold inner_l at 1. cbn [flat_map]. fold (inner_l mk l r).
    eapply Permutation_trans; [apply Permutation_app_head; exact IH|].
    rewrite <- swap_head.
    eapply Permutation_trans; [apply Permutation_sym; apply flat_map_app_perm|].
    unfold inner_l. apply perm_flat_map_eq. intros rr.
    rewrite values_of_cons, map_app. f_equal.
    destruct (val_eqb (vfst x) (vfst rr)); reflexivity.
Qed.

(* ---------- the loop body for one key, against the regrouped reference ---------- *)
Local Notation look L := (if isnil L%list then None else Some L%list).

Lemma body_inner : forall k mk (Lv Rv : list val),
    match look Lv, look Rv with
    | Some vs, Some ws => pairs_of k vs ws mk
    | _, _ => []
    end
    = flat_map (fun v => map (fun w => VPair k (mk v w)) Rv) Lv.
Proof.
  intros k mk Lv Rv. destruct Lv as [|v vs]; [reflexivity|]. cbn [isnil].
  generalize (v :: vs) as Lv'. intros Lv'. destruct Rv as [|w ws]; cbn [isnil].
  - cbn [map]. rewrite flat_map_nil_f. reflexivity.
  - reflexivity.
Qed.

Lemma body_left : forall k mk (hv : val -> val) (Lv Rv : list val),
    match look Lv, look Rv with
    | Some vs, Some ws => pairs_of k vs ws mk
    | Some vs, None => map (fun v => VPair k (hv v)) vs
    | None, _ => []
    end
    = flat_map (fun v => map (fun w => VPair k (mk v w)) Rv
                         ++ (if isnil Rv then [VPair k (hv v)] else [])) Lv.
Proof.
  intros k mk hv Lv Rv. destruct Lv as [|v vs]; [reflexivity|]. cbn [isnil].
  generalize (v :: vs) as Lv'. intros Lv'. destruct Rv as [|w ws]; cbn [isnil].
  - cbn [map app]. rewrite flat_map_single. reflexivity.
  - generalize (w :: ws) as Rv'. intros Rv'. unfold pairs_of. apply flat_map_ext.
    intros v'. rewrite app_nil_r. reflexivity.
Qed.

Lemma body_right : forall k (mk : val -> val -> val) (hv : val -> val) (Lv Rv : list val),
    match look Lv, look Rv with
    | Some vs, Some ws => flat_map (fun w => map (fun v => VPair k (mk w v)) vs) ws
    | None, Some ws => map (fun w => VPair k (hv w)) ws
    | _, None => []
    end
    = flat_map (fun w => map (fun v => VPair k (mk w v)) Lv
                         ++ (if isnil Lv then [VPair k (hv w)] else [])) Rv.
Proof.
  intros k mk hv Lv Rv. destruct Rv as [|w ws]; [destruct Lv; reflexivity|]. cbn [isnil].
  generalize (w :: ws) as Rv'. intros Rv'. destruct Lv as [|v vs]; cbn [isnil].
  - cbn [map app]. rewrite flat_map_single. reflexivity.
  - generalize (v :: vs) as Lv'. intros Lv'. apply flat_map_ext.
    intros w'. rewrite app_nil_r. reflexivity.
Qed.

Lemma body_full_l : forall k mk (hl hr : val -> val) (Lv Rv : list val), Lv <> [] ->
    match look Lv, look Rv with
    | Some vs, Some ws => pairs_of k vs ws mk
    | Some vs, None => map (fun v => VPair k (hl v)) vs
    | None, Some ws => map (fun w => VPair k (hr w)) ws
    | None, None => []
    end
    = flat_map (fun v => map (fun w => VPair k (mk v w)) Rv
                         ++ (if isnil Rv then [VPair k (hl v)] else [])) Lv.
Proof.
  intros k mk hl hr Lv Rv Hne. destruct Lv as [|v vs]; [congruence|]. cbn [isnil].
  generalize (v :: vs) as Lv'. intros Lv'. destruct Rv as [|w ws]; cbn [isnil].
  - cbn [map app]. rewrite flat_map_single. reflexivity.
  - generalize (w :: ws) as Rv'. intros Rv'. unfold pairs_of. apply flat_map_ext.
    intros v'. rewrite app_nil_r. reflexivity.
Qed.

Lemma body_full_r : forall k mk (hl hr : val -> val) (Lv Rv : list val),
    (if match look Lv with Some _ => false | None => true end
     then match look Lv, look Rv with
          | Some vs, Some ws => pairs_of k vs ws mk
          | Some vs, None => map (fun v => VPair k (hl v)) vs
          | None, Some ws => map (fun w => VPair k (hr w)) ws
          | None, None => []
          end
     else [])
    = flat_map (fun w => if isnil Lv then [VPair k (hr w)] else []) Rv.
Proof.
  intros k mk hl hr Lv Rv. destruct Lv as [|v vs]; cbn [isnil].
  - destruct Rv as [|w ws]; [reflexivity|]. cbn [isnil].
    generalize (w :: ws) as Rv'. intros Rv'. rewrite flat_map_single. reflexivity.
  - rewrite flat_map_nil_f. reflexivity.
Qed.

(* ---------- C07: the exec closures ---------- *)
Lemma join_exec_sound : forall sh kind site l r,
    (forall i l, Permutation (sh i l) l) ->
    Forall (fun v => match v with VPair _ _ => True | _ => False end) l ->
    Forall (fun v => match v with VPair _ _ => True | _ => False end) r ->
    Permutation (join_exec sh kind site l r) (d_join kind l r).
Proof.
  intros sh kind site l r Hsh Hl Hr. rewrite d_join_canon.
  destruct kind; unfold join_exec; cbv zeta.
  - (* inner *)
    eapply Permutation_trans; [apply Permutation_flat_map; apply Hsh|].
    eapply Permutation_trans; [|apply Permutation_sym; apply inner_regroup; exact Hl].
    apply perm_flat_map_eq. intros k. rewrite !local_aget.
    apply (body_inner k (fun v w => VPair v w)).
  - (* left outer *)
    eapply Permutation_trans; [apply Permutation_flat_map; apply Hsh|].
    eapply Permutation_trans; [|apply Permutation_sym; apply left_regroup; exact Hl].
    apply perm_flat_map_eq. intros k. rewrite !local_aget.
    apply (body_left k (fun v w => VPair v (VSome w)) (fun v => VPair v VNone)).
  - (* right outer: the loop runs over the right map *)
    eapply Permutation_trans; [apply Permutation_flat_map; apply Hsh|].
    eapply Permutation_trans;
      [|apply Permutation_sym; apply Permutation_app_tail; apply inner_swap].
    eapply Permutation_trans; [|apply Permutation_sym; apply left_regroup; exact Hr].
    apply perm_flat_map_eq. intros k. rewrite !local_aget.
    apply (body_right k (fun w v => VPair (VSome v) w) (fun w => VPair VNone w)).
  - (* full outer: left keys, then the right keys that are not left keys *)
    eapply Permutation_trans; [apply Permutation_flat_map; apply Hsh|].
    rewrite flat_map_app, app_assoc. apply Permutation_app.
    + eapply Permutation_trans; [|apply Permutation_sym; apply left_regroup; exact Hl].
      apply perm_flat_map_eq_in. intros k Hk. rewrite !local_aget.
      apply (body_full_l k (fun v w => VPair (VSome v) (VSome w)) (fun v => VPair (VSome v) VNone)
                         (fun w => VPair VNone (VSome w))).
      apply values_of_in. apply local_keys. exact Hk.
    + eapply Permutation_trans; [|apply Permutation_sym; apply unmatched_regroup; exact Hr].
      rewrite flat_map_filter. apply perm_flat_map_eq. intros k. rewrite !local_aget.
      apply (body_full_r k (fun v w => VPair (VSome v) (VSome w)) (fun v => VPair (VSome v) VNone)
                         (fun w => VPair VNone (VSome w))).
Qed.

Lemma cogroup_arm_sound : forall sh i kind tl tr tout lparts rparts,
    (forall i l, Permutation (sh i l) l) ->
    check_tags tl lparts = true -> check_tags tr rparts = true ->
    Forall (fun v => match v with VPair _ _ => True | _ => False end) (concat (map snd lparts)) ->
    Forall (fun v => match v with VPair _ _ => True | _ => False end) (concat (map snd rparts)) ->
    exists rows,
      run_cogroup sh i kind tl tr tout lparts rparts = Ok (tout, rows) /\
      Permutation rows (d_join kind (concat (map snd lparts)) (concat (map snd rparts))).
Proof.
  intros sh i kind tl tr tout lparts rparts Hsh Htl Htr Hl Hr.
  unfold run_cogroup. rewrite Htl, Htr. cbn [obind].
  eexists. split; [reflexivity|]. apply join_exec_sound; assumption.
Qed.

(* ---------- d_join is a multiset function ---------- *)
Lemma values_of_perm : forall k r r', Permutation r r' ->
    Permutation (values_of k r) (values_of k r').
Proof.
  intros k r r' H. unfold values_of. apply Permutation_map. apply Permutation_filter_p. exact H.
Qed.

Lemma inner_l_perm : forall mk l l' r r', Permutation l l' -> Permutation r r' ->
    Permutation (inner_l mk l r) (inner_l mk l' r').
Proof.
  intros mk l l' r r' Hl Hr. unfold inner_l.
  eapply Permutation_trans; [apply Permutation_flat_map; exact Hl|].
  apply flat_map_perm_ext. intros lr. apply Permutation_map. apply values_of_perm. exact Hr.
Qed.

Lemma unmatched_perm : forall hv l l' r r', Permutation l l' -> Permutation r r' ->
    Permutation (unmatched hv l r) (unmatched hv l' r').
Proof.
  intros hv l l' r r' Hl Hr. unfold unmatched. apply Permutation_map.
  eapply Permutation_trans; [apply Permutation_filter_p; exact Hl|].
  rewrite (filter_ext (fun lr => isnil (values_of (vfst lr) r))
                      (fun lr => isnil (values_of (vfst lr) r'))).
  - apply Permutation_refl.
  - intros lr. apply isnil_perm. apply values_of_perm. exact Hr.
Qed.

Lemma d_join_perm : forall kind l l' r r',
    Permutation l l' -> Permutation r r' -> Permutation (d_join kind l r) (d_join kind l' r').
Proof.
  intros kind l l' r r' Hl Hr. rewrite !d_join_canon. destruct kind.
  - apply inner_l_perm; assumption.
  - apply Permutation_app; [apply inner_l_perm|apply unmatched_perm]; assumption.
  - apply Permutation_app; [apply inner_l_perm|apply unmatched_perm]; assumption.
  - apply Permutation_app; [apply inner_l_perm; assumption|].
    apply Permutation_app; apply unmatched_perm; assumption.
Qed.

(* ---------- nested joins ---------- *)
Lemma seq_sub_nested : forall sh pre post site buf p,
    seq_sub sh site (pre ++ SNestedCoGroup :: post) buf <> Ok p.
Proof.
  intros sh pre post. induction pre as [|n pre IH]; intros site buf p; cbn [app seq_sub].
  - discriminate.
  - destruct n as [b|]; [|discriminate].
    destruct (seq_bnode sh site 0%nat true b buf) as [q|e| |]; cbn [obind]; try discriminate.
    apply IH.
Qed.

Lemma nested_rejected_seq : forall sh site pre post p,
    run_subplan_seq sh site (pre ++ SNestedCoGroup :: post) <> Ok p.
Proof.
  intros sh site pre post p. unfold run_subplan_seq.
  destruct (seq_sub sh site (pre ++ SNestedCoGroup :: post) None) as [q|e| |] eqn:E;
    cbn [obind]; try discriminate.
  exfalso. exact (seq_sub_nested sh pre post site None q E).
Qed.

Lemma par_sub_rest_nested : forall sh pre post site curr ps,
    par_sub_rest sh site (pre ++ SNestedCoGroup :: post) curr <> Ok ps.
Proof.
  intros sh pre post. induction pre as [|n pre IH]; intros site curr ps; cbn [app par_sub_rest].
  - discriminate.
  - destruct n as [b|]; [|discriminate].
    destruct (par_bnode sh site b curr) as [q|e| |]; cbn [obind]; try discriminate.
    apply IH.
Qed.

Lemma nested_rejected_par : forall sh site pre post partitions ps,
    run_subplan_par sh site (pre ++ SNestedCoGroup :: post) partitions <> Ok ps.
Proof.
  intros sh site pre post partitions ps. unfold run_subplan_par.
  destruct pre as [|n pre]; cbn [app]; [discriminate|].
  destruct n as [b|]; [|discriminate].
  destruct b; try discriminate. apply par_sub_rest_nested.
Qed.
