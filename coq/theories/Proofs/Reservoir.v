(* Proofs about Combiners/Reservoir.v (model of src/combiners/sampling.rs).
   Main notion: [R k a m] = "accumulator [a] (built for sample size [k]) stands for the input
   sequence [m]": its internal invariant holds, it holds exactly min k |m| live items, and its live
   items together with some dropped items are a permutation of [m].  [R] is established by
   [create], preserved by [add] and [merge] (for ANY two accumulators, so for every partitioning
   and every merge order), and gives size and sub-multiset for [finish]. *)
From Coq Require Import List NArith Arith Bool Lia Permutation.
From IB Require Import Combiners.Reservoir.
Import ListNotations.

(* ---------------------------------------------------------------- the heap *)
Lemma entry_eqb_eq : forall a b, entry_eqb a b = true -> a = b.
Proof.
  intros [[ka sa] ia] [[kb sb] ib] H. unfold entry_eqb in H.
  apply andb_prop in H. destruct H as [H Hi]. apply andb_prop in H. destruct H as [Hk Hs].
  apply N.eqb_eq in Hk. apply Nat.eqb_eq in Hs. apply Nat.eqb_eq in Hi. subst. reflexivity.
Qed.

Lemma heap_min_in : forall h best, In (heap_min best h) (best :: h).
Proof.
  induction h as [|e r IH]; intros best; cbn [heap_min].
  - left. reflexivity.
  - specialize (IH (if entry_ltb e best then e else best)).
    destruct IH as [IH|IH].
    + destruct (entry_ltb e best).
      * right. left. exact IH.
      * left. exact IH.
    + right. right. exact IH.
Qed.

Lemma heap_remove_perm : forall m h, In m h -> Permutation h (m :: heap_remove m h).
Proof.
  intros m h. induction h as [|e r IH]; intros Hin; [destruct Hin|].
  cbn [heap_remove]. destruct (entry_eqb e m) eqn:E.
  - apply entry_eqb_eq in E. subst. apply Permutation_refl.
  - destruct Hin as [Hin|Hin].
    + subst. destruct m as [[k s] i]. unfold entry_eqb in E.
      rewrite N.eqb_refl, !Nat.eqb_refl in E. discriminate.
    + eapply Permutation_trans; [apply perm_skip, IH, Hin|apply perm_swap].
Qed.

Lemma heap_pop_perm : forall h m h', heap_pop h = Some (m, h') -> Permutation h (m :: h').
Proof.
  intros h m h' H. destruct h as [|e r]; [discriminate|].
  unfold heap_pop in H. injection H as Hm Hh. subst h'. rewrite Hm.
  apply heap_remove_perm. rewrite <- Hm. apply heap_min_in.
Qed.

Lemma heap_pop_none : forall h, heap_pop h = None -> h = [].
Proof. intros [|e r] H; [reflexivity|discriminate]. Qed.

Lemma filter_map_app : forall A B (f : A -> option B) l1 l2,
  filter_map f (l1 ++ l2) = filter_map f l1 ++ filter_map f l2.
Proof.
  intros A B f l1 l2. induction l1 as [|x r IH]; [reflexivity|].
  cbn [filter_map app]. destruct (f x); rewrite IH; reflexivity.
Qed.

Lemma filter_map_perm : forall A B (f : A -> option B) l1 l2,
  Permutation l1 l2 -> Permutation (filter_map f l1) (filter_map f l2).
Proof.
  intros A B f l1 l2 H. induction H as [|x l l' H IH|x y l|l l' l'' H1 IH1 H2 IH2].
  - apply Permutation_refl.
  - cbn [filter_map]. destruct (f x); [apply perm_skip|]; exact IH.
  - cbn [filter_map]. destruct (f x), (f y); try apply Permutation_refl. apply perm_swap.
  - eapply Permutation_trans; eassumption.
Qed.

Section Proofs.
  Context {T : Type}.
  Notation slot := (slot T).
  Notation pracc := (pracc T).

  (* entries of the live slots of a store whose first slot has index [base] *)
  Fixpoint live_from (base : nat) (st : list slot) : list entry :=
    match st with
    | [] => []
    | Some (k, s, _) :: r => (k, s, base) :: live_from (S base) r
    | None :: r => live_from (S base) r
    end.
  Definition live_vals (st : list slot) : list T := map (fun it => snd it) (live_items st).

  (* the accumulator invariant: the heap holds exactly one entry (key, seq, idx) per live slot idx
     of the store (so every pop in a trim loop hits a live slot), and `alive` counts them *)
  Definition Inv (a : pracc) : Prop :=
    Permutation (pheap a) (live_from 0 (pstore a)) /\
    palive a = length (live_items (pstore a)).

  Lemma live_from_app : forall s1 s2 b,
    live_from b (s1 ++ s2) = live_from b s1 ++ live_from (b + length s1) s2.
  Proof.
    induction s1 as [|x r IH]; intros s2 b; cbn [app live_from length].
    - rewrite Nat.add_0_r. reflexivity.
    - replace (b + S (length r)) with (S b + length r) by lia.
      destruct x as [[[k s] v]|]; rewrite IH; reflexivity.
  Qed.
  Lemma live_items_app : forall s1 s2 : list slot, live_items (s1 ++ s2) = live_items s1 ++ live_items s2.
  Proof.
    induction s1 as [|x r IH]; intros s2; [reflexivity|].
    cbn [app live_items]. destruct x; rewrite IH; reflexivity.
  Qed.
  Lemma live_from_length : forall st b, length (live_from b st) = length (live_items st).
  Proof.
    induction st as [|x r IH]; intros b; [reflexivity|].
    destruct x as [[[k s] v]|]; cbn [live_from live_items length]; rewrite IH; reflexivity.
  Qed.
  Lemma live_items_live_slots : forall st : list slot, live_items (live_slots st) = live_items st.
  Proof.
    induction st as [|x r IH]; [reflexivity|].
    destruct x; cbn [live_slots live_items]; rewrite IH; reflexivity.
  Qed.
  Lemma live_slots_length : forall st : list slot,
    length (live_slots st) = length (live_items st).
  Proof.
    induction st as [|x r IH]; [reflexivity|].
    destruct x; cbn [live_slots live_items length]; rewrite IH; reflexivity.
  Qed.

  (* an entry of [live_from] points at a live slot carrying the same key and seq *)
  Lemma live_from_in : forall st b k s i,
    In (k, s, i) (live_from b st) ->
    b <= i /\ exists v, nth_error st (i - b) = Some (Some (k, s, v)).
  Proof.
    induction st as [|x r IH]; intros b k s i Hin; [destruct Hin|].
    destruct x as [[[k0 s0] v0]|]; cbn [live_from] in Hin.
    - destruct Hin as [Heq|Hin].
      + injection Heq as -> -> ->. split; [lia|]. exists v0. rewrite Nat.sub_diag. reflexivity.
      + apply IH in Hin. destruct Hin as [Hle [v Hv]]. split; [lia|]. exists v.
        replace (i - b) with (S (i - S b)) by lia. exact Hv.
    - apply IH in Hin. destruct Hin as [Hle [v Hv]]. split; [lia|]. exists v.
      replace (i - b) with (S (i - S b)) by lia. exact Hv.
  Qed.

  (* killing a live slot removes exactly its entry and its item *)
  Lemma kill_slot_spec : forall st i k s v b,
    nth_error st i = Some (Some (k, s, v)) ->
    exists st', kill_slot i st = Some st' /\
      Permutation (live_from b st) ((k, s, b + i) :: live_from b st') /\
      Permutation (live_items st) ((k, s, v) :: live_items st').
  Proof.
    induction st as [|x r IH]; intros i k s v b H; [destruct i; discriminate|].
    destruct i as [|i].
    - cbn [nth_error] in H. injection H as ->. exists (None :: r).
      cbn [kill_slot live_from live_items]. rewrite Nat.add_0_r.
      repeat split; apply Permutation_refl.
    - cbn [nth_error] in H. destruct (IH i k s v (S b) H) as [st' [Hk [Hp1 Hp2]]].
      exists (x :: st'). replace (b + S i) with (S b + i) by lia.
      destruct x as [[[k0 s0] v0]|]; cbn [kill_slot live_from live_items]; rewrite Hk;
        (split; [reflexivity|]).
      + split.
        * eapply Permutation_trans; [apply perm_skip, Hp1|apply perm_swap].
        * eapply Permutation_trans; [apply perm_skip, Hp2|apply perm_swap].
      + split; assumption.
  Qed.

  (* ------------------------------------------------------------ the trim loop *)
  Lemma trim_spec : forall fuel (a : pracc),
    Inv a -> length (pheap a) < fuel ->
    let a' := trim fuel a in
    Inv a' /\ pk a' = pk a /\ palive a' = Nat.min (palive a) (pk a) /\
    exists d, Permutation (live_vals (pstore a') ++ d) (live_vals (pstore a)).
  Proof.
    induction fuel as [|fuel IH]; intros a HI Hf; [lia|].
    cbn [trim]. destruct (Nat.ltb (pk a) (palive a)) eqn:Hlt.
    - apply Nat.ltb_lt in Hlt. destruct HI as [Hperm Hal].
      assert (Hlen : length (pheap a) = palive a).
      { rewrite (Permutation_length Hperm), live_from_length. symmetry. exact Hal. }
      destruct (heap_pop (pheap a)) as [[[[k s] i] h']|] eqn:Hpop.
      + pose proof (heap_pop_perm _ _ _ Hpop) as Hpp.
        assert (Hin : In (k, s, i) (live_from 0 (pstore a))).
        { eapply Permutation_in; [exact Hperm|]. eapply Permutation_in;
            [apply Permutation_sym, Hpp|]. left. reflexivity. }
        apply live_from_in in Hin. destruct Hin as [_ [v Hv]]. rewrite Nat.sub_0_r in Hv.
        destruct (kill_slot_spec _ _ _ _ _ 0 Hv) as [st' [Hk [Hp1 Hp2]]].
        rewrite Hk. cbn [Nat.add] in Hp1.
        set (a1 := PRAcc (pk a) (prng a) (pseq a) h' st' (palive a - 1)).
        assert (HI1 : Inv a1).
        { split; cbn [pheap pstore palive a1].
          - apply Permutation_cons_inv with (a := (k, s, i)).
            eapply Permutation_trans; [apply Permutation_sym, Hpp|].
            eapply Permutation_trans; [exact Hperm|exact Hp1].
          - apply Permutation_length in Hp2. cbn [length] in Hp2. lia. }
        assert (Hf1 : length (pheap a1) < fuel).
        { apply Permutation_length in Hpp. cbn [length] in Hpp. cbn [pheap a1]. lia. }
        destruct (IH a1 HI1 Hf1) as [HIa [Hka [Hala [d Hd]]]].
        split; [exact HIa|]. split; [exact Hka|]. split.
        * rewrite Hala. cbn [palive pk a1]. lia.
        * exists (d ++ [v]). rewrite app_assoc.
          eapply Permutation_trans; [apply Permutation_app_tail, Hd|].
          cbn [pstore a1]. unfold live_vals.
          eapply Permutation_trans; [apply Permutation_sym, Permutation_cons_append|].
          apply Permutation_sym.
          eapply Permutation_trans; [apply Permutation_map, Hp2|]. apply Permutation_refl.
      + apply heap_pop_none in Hpop. rewrite Hpop in Hlen. cbn [length] in Hlen. lia.
    - apply Nat.ltb_ge in Hlt. split; [exact HI|]. split; [reflexivity|]. split; [lia|].
      exists []. rewrite app_nil_r. apply Permutation_refl.
  Qed.

  Lemma trim_loop_spec : forall a : pracc,
    Inv a ->
    let a' := trim_loop a in
    Inv a' /\ pk a' = pk a /\ palive a' = Nat.min (palive a) (pk a) /\
    exists d, Permutation (live_vals (pstore a') ++ d) (live_vals (pstore a)).
  Proof. intros a HI. unfold trim_loop. apply trim_spec; [exact HI|lia]. Qed.

  (* ------------------------------------------------------------ "a stands for m" *)
  Definition R (k : nat) (a : pracc) (m : list T) : Prop :=
    Inv a /\ pk a = k /\ palive a = Nat.min k (length m) /\
    exists d, Permutation (live_vals (pstore a) ++ d) m.

  Lemma R_create : forall k seed, R k (create k seed) [].
  Proof.
    intros k seed. unfold R, Inv, create; cbn [pheap pstore palive pk live_from live_items length].
    repeat split; try apply Permutation_refl.
    - rewrite Nat.min_0_r. reflexivity.
    - exists []. apply Permutation_refl.
  Qed.

  Lemma R_add : forall k a m v, R k a m -> R k (add a v) (m ++ [v]).
  Proof.
    intros k a m v [HI [Hk [Hal [d Hd]]]]. unfold add.
    destruct (Nat.eqb (pk a) 0) eqn:Hk0.
    - apply Nat.eqb_eq in Hk0. split; [exact HI|]. split; [exact Hk|]. split.
      + rewrite Hal. rewrite <- Hk, Hk0. reflexivity.
      + exists (d ++ [v]). rewrite app_assoc. apply Permutation_app_tail. exact Hd.
    - apply Nat.eqb_neq in Hk0. destruct (sm_next (prng a)) as [s' x].
      set (key := prio_of_bits x).
      set (a1 := PRAcc (pk a) s' (S (pseq a)) ((key, pseq a, length (pstore a)) :: pheap a)
                       (pstore a ++ [Some (key, pseq a, v)]) (S (palive a))).
      destruct HI as [Hperm Hal'].
      assert (HI1 : Inv a1).
      { split; cbn [pheap pstore palive a1].
        - rewrite live_from_app. cbn [live_from Nat.add].
          eapply Permutation_trans; [|apply Permutation_cons_append].
          apply perm_skip. exact Hperm.
        - rewrite live_items_app, app_length. cbn [live_items length]. lia. }
      destruct (trim_loop_spec a1 HI1) as [HIa [Hka [Hala [d' Hd']]]].
      split; [exact HIa|]. split; [rewrite Hka; exact Hk|]. split.
      + rewrite Hala. cbn [palive pk a1]. rewrite app_length. cbn [length]. lia.
      + exists (d' ++ d).
        rewrite app_assoc. eapply Permutation_trans; [apply Permutation_app_tail, Hd'|].
        cbn [pstore a1]. unfold live_vals. rewrite live_items_app, map_app. cbn [live_items map snd].
        fold (live_vals (pstore a)).
        rewrite <- app_assoc.
        eapply Permutation_trans; [apply Permutation_app_head, Permutation_app_comm|].
        rewrite app_assoc. apply Permutation_app_tail. exact Hd.
  Qed.

  (* the index translation of merge: remapped entries of other's heap = entries of the moved slots *)
  Lemma remap_live : forall (st : list slot) pre base,
    filter_map (remap_entry (pre ++ remap_table base st)) (live_from (length pre) st)
    = live_from base (live_slots st).
  Proof.
    induction st as [|x r IH]; intros pre base; [reflexivity|].
    destruct x as [[[k s] v]|]; cbn [remap_table live_from live_slots filter_map].
    - unfold remap_entry at 1. rewrite nth_error_app2 by lia. rewrite Nat.sub_diag.
      cbn [nth_error]. f_equal.
      specialize (IH (pre ++ [Some base]) (S base)).
      rewrite <- app_assoc in IH. cbn [app] in IH. rewrite app_length in IH. cbn [length] in IH.
      rewrite Nat.add_1_r in IH. exact IH.
    - specialize (IH (pre ++ [None]) base).
      rewrite <- app_assoc in IH. cbn [app] in IH. rewrite app_length in IH. cbn [length] in IH.
      rewrite Nat.add_1_r in IH. exact IH.
  Qed.

  Lemma R_merge : forall k a m b m', R k a m -> R k b m' -> R k (merge a b) (m ++ m').
  Proof.
    intros k a m b m' [HIa [Hka [Hala [d Hd]]]] [HIb [Hkb [Halb [d' Hd']]]]. unfold merge.
    destruct (Nat.eqb (pk a) 0) eqn:Hk0.
    - apply Nat.eqb_eq in Hk0. split; [exact HIa|]. split; [exact Hka|]. split.
      + rewrite Hala. rewrite <- Hka, Hk0. reflexivity.
      + exists (d ++ m'). rewrite app_assoc. apply Permutation_app_tail. exact Hd.
    - apply Nat.eqb_neq in Hk0.
      set (a1 := PRAcc (Nat.max (pk a) (pk b)) (prng a) (pseq a)
                   (filter_map (remap_entry (remap_table (length (pstore a)) (pstore b)))
                               (pheap b) ++ pheap a)
                   (pstore a ++ live_slots (pstore b))
                   (palive a + length (live_slots (pstore b)))).
      destruct HIa as [Hpa Hca]. destruct HIb as [Hpb Hcb].
      assert (HI1 : Inv a1).
      { split; cbn [pheap pstore palive a1].
        - rewrite live_from_app. cbn [Nat.add].
          eapply Permutation_trans; [apply Permutation_app_comm|].
          apply Permutation_app; [exact Hpa|].
          eapply Permutation_trans; [apply filter_map_perm, Hpb|].
          pose proof (remap_live (pstore b) [] (length (pstore a))) as E.
          cbn [app length] in E. rewrite E. apply Permutation_refl.
        - rewrite live_items_app, app_length, live_items_live_slots, live_slots_length. lia. }
      destruct (trim_loop_spec a1 HI1) as [HIr [Hkr [Halr [d1 Hd1]]]].
      split; [exact HIr|]. split; [rewrite Hkr; cbn [pk a1]; lia|]. split.
      + rewrite Halr. cbn [palive pk a1]. rewrite live_slots_length, app_length. lia.
      + exists (d1 ++ d ++ d').
        rewrite app_assoc. eapply Permutation_trans; [apply Permutation_app_tail, Hd1|].
        cbn [pstore a1]. unfold live_vals.
        rewrite live_items_app, live_items_live_slots, map_app.
        fold (live_vals (pstore a)). fold (live_vals (pstore b)).
        eapply Permutation_trans; [|apply Permutation_app; [exact Hd|exact Hd']].
        rewrite <- !app_assoc. apply Permutation_app_head.
        rewrite !app_assoc. apply Permutation_app_tail. apply Permutation_app_comm.
  Qed.

  (* the invariant by itself (without reference to an input): what `add_input` and `merge`
     preserve.  alive = number of live slots, heap entries = live slots, alive <= k. *)
  Definition InvK (k : nat) (a : pracc) : Prop := Inv a /\ pk a = k /\ palive a <= k.
  Lemma InvK_R : forall k a, InvK k a -> R k a (live_vals (pstore a)).
  Proof.
    intros k a [HI [Hk Hle]]. split; [exact HI|]. split; [exact Hk|]. split.
    - unfold live_vals. rewrite map_length. destruct HI as [_ Hc]. lia.
    - exists []. rewrite app_nil_r. apply Permutation_refl.
  Qed.
  Lemma R_InvK : forall k a m, R k a m -> InvK k a.
  Proof. intros k a m [HI [Hk [Hal _]]]. split; [exact HI|]. split; [exact Hk|lia]. Qed.
  Theorem invariant_preserved : forall k seed,
    InvK k (create k seed) /\
    (forall a v, InvK k a -> InvK k (add a v)) /\
    (forall a b, InvK k a -> InvK k b -> InvK k (merge a b)).
  Proof.
    intros k seed. split; [exact (R_InvK _ _ _ (R_create k seed))|]. split.
    - intros a v H. exact (R_InvK _ _ _ (R_add _ _ _ v (InvK_R _ _ H))).
    - intros a b Ha Hb. exact (R_InvK _ _ _ (R_merge _ _ _ _ _ (InvK_R _ _ Ha) (InvK_R _ _ Hb))).
  Qed.

  (* ------------------------------------------------------------ finish *)
  Lemma sort_insert_perm : forall (x : N * nat * T) l, Permutation (sort_insert x l) (x :: l).
  Proof.
    intros x l. induction l as [|y r IH]; cbn [sort_insert]; [apply Permutation_refl|].
    destruct (item_before x y); [apply Permutation_refl|].
    eapply Permutation_trans; [apply perm_skip, IH|apply perm_swap].
  Qed.
  Lemma stable_sort_perm : forall l : list (N * nat * T), Permutation (stable_sort l) l.
  Proof.
    induction l as [|x r IH]; [apply Permutation_refl|].
    unfold stable_sort. cbn [fold_right]. fold (stable_sort r).
    eapply Permutation_trans; [apply sort_insert_perm|apply perm_skip, IH].
  Qed.

  Lemma R_finish : forall k a m, R k a m ->
    length (finish a) = Nat.min k (length m) /\ exists d, Permutation (finish a ++ d) m.
  Proof.
    intros k a m [[Hperm Hc] [Hk [Hal [d Hd]]]]. unfold finish.
    destruct (Nat.eqb (pk a) 0 || Nat.eqb (palive a) 0) eqn:Hz.
    - split.
      + apply orb_true_iff in Hz. destruct Hz as [Hz|Hz]; apply Nat.eqb_eq in Hz; cbn [length].
        * rewrite <- Hk, Hz. reflexivity.
        * rewrite <- Hal. symmetry. exact Hz.
      + exists m. apply Permutation_refl.
    - set (sorted := stable_sort (live_items (pstore a))).
      assert (Hs : Permutation sorted (live_items (pstore a))) by apply stable_sort_perm.
      split.
      + rewrite map_length, firstn_length. rewrite (Permutation_length Hs). lia.
      + exists (map (fun it => snd it) (skipn (pk a) sorted) ++ d).
        rewrite app_assoc, <- map_app, firstn_skipn.
        eapply Permutation_trans; [|exact Hd]. apply Permutation_app_tail.
        unfold live_vals. apply Permutation_map. exact Hs.
  Qed.

  (* ------------------------------------------------------------ how the engine drives it *)
  Lemma R_fold_add : forall k rows a m, R k a m -> R k (fold_left add rows a) (m ++ rows).
  Proof.
    intros k rows. induction rows as [|v r IH]; intros a m H; cbn [fold_left].
    - rewrite app_nil_r. exact H.
    - replace (m ++ v :: r) with ((m ++ [v]) ++ r) by (rewrite <- app_assoc; reflexivity).
      apply IH. apply R_add. exact H.
  Qed.
  Lemma R_local : forall k seed rows, R k (local k seed rows) rows.
  Proof. intros k seed rows. unfold local. apply (R_fold_add k rows _ []). apply R_create. Qed.

  Lemma R_fold_merge : forall k seed parts a m,
    R k a m -> R k (fold_left merge (map (local k seed) parts) a) (m ++ concat parts).
  Proof.
    intros k seed parts. induction parts as [|p r IH]; intros a m H; cbn [map fold_left concat].
    - rewrite app_nil_r. exact H.
    - rewrite app_assoc. apply IH. apply R_merge; [exact H|apply R_local].
  Qed.
  Lemma R_merge_all : forall k seed parts,
    R k (merge_all k seed (map (local k seed) parts)) (concat parts).
  Proof.
    intros k seed [|p r]; cbn [map merge_all concat]; [apply R_create|].
    apply R_fold_merge. apply R_local.
  Qed.

  (* accumulators reachable by ANY interleaving of create / add_input / merge (every merge tree,
     every fan-in order, empty accumulators included) *)
  Inductive built (k : nat) (seed : N) : pracc -> list T -> Prop :=
  | built_create : built k seed (create k seed) []
  | built_add : forall a m v, built k seed a m -> built k seed (add a v) (m ++ [v])
  | built_merge : forall a m b m',
      built k seed a m -> built k seed b m' -> built k seed (merge a b) (m ++ m').
  Lemma built_fold_add : forall k seed rows a m,
    built k seed a m -> built k seed (fold_left add rows a) (m ++ rows).
  Proof.
    intros k seed rows. induction rows as [|v r IH]; intros a m H; cbn [fold_left].
    - rewrite app_nil_r. exact H.
    - replace (m ++ v :: r) with ((m ++ [v]) ++ r) by (rewrite <- app_assoc; reflexivity).
      apply IH. apply built_add. exact H.
  Qed.
  Lemma built_local : forall k seed rows, built k seed (local k seed rows) rows.
  Proof. intros. unfold local. apply (built_fold_add k seed rows _ []). apply built_create. Qed.
  Lemma built_R : forall k seed a m, built k seed a m -> R k a m.
  Proof.
    intros k seed a m H. induction H as [|a m v H IH|a m b m' Ha IHa Hb IHb].
    - apply R_create.
    - apply R_add. exact IH.
    - apply R_merge; assumption.
  Qed.

  Theorem built_sample_size : forall k seed a m,
    built k seed a m -> length (finish a) = Nat.min k (length m).
  Proof. intros k seed a m H. exact (proj1 (R_finish _ _ _ (built_R _ _ _ _ H))). Qed.
  Theorem built_sample_sub : forall k seed a m,
    built k seed a m -> exists d, Permutation (finish a ++ d) m.
  Proof. intros k seed a m H. exact (proj2 (R_finish _ _ _ (built_R _ _ _ _ H))). Qed.
  Theorem built_invariant : forall k seed a m,
    built k seed a m -> Inv a /\ palive a <= k.
  Proof.
    intros k seed a m H. destruct (built_R _ _ _ _ H) as [HI [_ [Hal _]]]. split; [exact HI|lia].
  Qed.

  Theorem sample_parts_size : forall k seed (parts : list (list T)),
    length (sample_parts k seed parts) = Nat.min k (length (concat parts)).
  Proof. intros. exact (proj1 (R_finish _ _ _ (R_merge_all k seed parts))). Qed.
  Theorem sample_parts_sub : forall k seed (parts : list (list T)),
    exists d, Permutation (sample_parts k seed parts ++ d) (concat parts).
  Proof. intros. exact (proj2 (R_finish _ _ _ (R_merge_all k seed parts))). Qed.

  (* sub-multiset in the counting form *)
  Lemma sub_count : forall (dec : forall x y : T, {x = y} + {x <> y}) (s d m : list T) x,
    Permutation (s ++ d) m -> count_occ dec s x <= count_occ dec m x.
  Proof.
    intros dec s d m x H. rewrite <- (proj1 (Permutation_count_occ dec _ _) H x), count_occ_app. lia.
  Qed.

  (* ------------------------------------------------------------ the runner's partitioning *)
  Lemma chunks_fuel_concat : forall fuel c (l : list T),
    0 < c -> length l <= fuel -> concat (chunks_fuel fuel c l) = l.
  Proof.
    induction fuel as [|fuel IH]; intros c l Hc Hl.
    - destruct l; [reflexivity|cbn [length] in Hl; lia].
    - destruct l as [|x r]; [reflexivity|].
      cbn [chunks_fuel concat]. rewrite IH.
      + apply firstn_skipn.
      + exact Hc.
      + rewrite skipn_length. cbn [length] in *. lia.
  Qed.
  Lemma div_ceil_pos : forall a b, 2 <= a -> 2 <= b -> 0 < div_ceil a b.
  Proof.
    intros a b Ha Hb. unfold div_ceil. apply Nat.div_str_pos. lia.
  Qed.
  Lemma vec_split_concat : forall (data : list T) n, concat (vec_split data n) = data.
  Proof.
    intros data n. unfold vec_split.
    destruct (Nat.leb n 1) eqn:Hn; cbn [orb]; [cbn [concat]; apply app_nil_r|].
    destruct (Nat.leb (length data) 1) eqn:Hl; [cbn [concat]; apply app_nil_r|].
    apply Nat.leb_gt in Hn. apply Nat.leb_gt in Hl.
    unfold chunks. apply chunks_fuel_concat; [apply div_ceil_pos; lia|lia].
  Qed.
  Lemma runner_split_concat : forall p (data : list T), concat (runner_split p data) = data.
  Proof. intros. apply vec_split_concat. Qed.

  (* the four global observables *)
  Theorem global_seq_size : forall k seed (data : list T),
    length (global_seq k seed data) = Nat.min k (length data).
  Proof.
    intros. unfold global_seq, global_seq_vec. cbn [concat]. rewrite app_nil_r.
    rewrite sample_parts_size. cbn [concat]. rewrite app_nil_r. reflexivity.
  Qed.
  Theorem global_par_size : forall k seed p (data : list T),
    length (global_par k seed p data) = Nat.min k (length data).
  Proof.
    intros. unfold global_par, global_par_vec. cbn [concat]. rewrite app_nil_r.
    rewrite sample_parts_size, runner_split_concat. reflexivity.
  Qed.
  Theorem global_seq_sub : forall k seed (data : list T),
    exists d, Permutation (global_seq k seed data ++ d) data.
  Proof.
    intros. unfold global_seq, global_seq_vec. cbn [concat]. rewrite app_nil_r.
    destruct (sample_parts_sub k seed [data]) as [d Hd]. exists d.
    cbn [concat] in Hd. rewrite app_nil_r in Hd. exact Hd.
  Qed.
  Theorem global_par_sub : forall k seed p (data : list T),
    exists d, Permutation (global_par k seed p data ++ d) data.
  Proof.
    intros. unfold global_par, global_par_vec. cbn [concat]. rewrite app_nil_r.
    destruct (sample_parts_sub k seed (runner_split p data)) as [d Hd]. exists d.
    rewrite runner_split_concat in Hd. exact Hd.
  Qed.

  (* ------------------------------------------------------------ mode stability outside the class *)
  Lemma full_sample_perm : forall (s d m : list T),
    Permutation (s ++ d) m -> length m <= length s -> Permutation s m.
  Proof.
    intros s d m H Hl. pose proof (Permutation_length H) as E. rewrite app_length in E.
    destruct d as [|x d]; [rewrite app_nil_r in H; exact H|cbn [length] in E; lia].
  Qed.

  Theorem sample_parts_stable_outside_class : forall k seed (parts1 parts2 : list (list T)),
    concat parts1 = concat parts2 ->
    k = 0 \/ length (concat parts1) <= k \/ parts1 = parts2 ->
    Permutation (sample_parts k seed parts1) (sample_parts k seed parts2).
  Proof.
    intros k seed p1 p2 Hc [Hk|[Hk|Hp]].
    - pose proof (sample_parts_size k seed p1) as L1. pose proof (sample_parts_size k seed p2) as L2.
      subst k. cbn [Nat.min] in L1, L2.
      destruct (sample_parts 0 seed p1); [|discriminate].
      destruct (sample_parts 0 seed p2); [|discriminate]. apply Permutation_refl.
    - destruct (sample_parts_sub k seed p1) as [d1 H1]. destruct (sample_parts_sub k seed p2) as [d2 H2].
      pose proof (sample_parts_size k seed p1) as L1. pose proof (sample_parts_size k seed p2) as L2.
      assert (Hk2 : length (concat p2) <= k) by (rewrite <- Hc; exact Hk).
      assert (P1 : Permutation (sample_parts k seed p1) (concat p1))
        by (apply (full_sample_perm _ d1 _ H1); lia).
      assert (P2 : Permutation (sample_parts k seed p2) (concat p2))
        by (apply (full_sample_perm _ d2 _ H2); lia).
      rewrite Hc in P1. eapply Permutation_trans; [exact P1|apply Permutation_sym, P2].
    - subst. apply Permutation_refl.
  Qed.
End Proofs.
