(* Per-key reservoir sampling (sample_values_reservoir_vec / sample_values_reservoir): the
   accumulator map built by the lifted CombineValues node holds, for every key of the input and no
   other, an accumulator that stands (in the sense of Proofs/Reservoir.v: R) for exactly that key's
   values, whatever the partitioning.  Everything is derived from the three closure properties of R
   (create / add / merge), so the HashMap iteration order inside `merge` is irrelevant per key. *)
From Coq Require Import List NArith Arith Bool Lia Permutation.
From IB Require Import Combiners.Reservoir Proofs.Reservoir.
Import ListNotations.

Section KeyedProofs.
  Context {K T : Type}.
  Variable keqb : K -> K -> bool.
  Hypothesis keqb_spec : forall x y, reflect (x = y) (keqb x y).

  Lemma keqb_refl : forall x, keqb x x = true.
  Proof. intros x. destruct (keqb_spec x x); [reflexivity|congruence]. Qed.
  Lemma keqb_neq : forall x y, x <> y -> keqb x y = false.
  Proof. intros x y H. destruct (keqb_spec x y); [congruence|reflexivity]. Qed.

  (* the values of one key, in input order *)
  Definition vals (key : K) (d : list (K * T)) : list T :=
    map snd (filter (fun kv => keqb key (fst kv)) d).

  Lemma vals_app : forall key d1 d2, vals key (d1 ++ d2) = vals key d1 ++ vals key d2.
  Proof. intros. unfold vals. rewrite filter_app, map_app. reflexivity. Qed.
  Lemma vals_notin : forall key d, ~ In key (map fst d) -> vals key d = [].
  Proof.
    intros key d. induction d as [|[k v] r IH]; intros H; [reflexivity|].
    unfold vals. cbn [filter fst map]. cbn [map fst In] in H.
    rewrite keqb_neq by (intros E; apply H; left; symmetry; exact E).
    apply IH. intros Hin. apply H. right. exact Hin.
  Qed.
  Lemma vals_concat : forall key (parts : list (list (K * T))),
    vals key (concat parts) = concat (map (vals key) parts).
  Proof.
    intros key parts. induction parts as [|p r IH]; [reflexivity|].
    cbn [concat map]. rewrite vals_app, IH. reflexivity.
  Qed.

  (* ---------- association lists ---------- *)
  Lemma lookup_upsert : forall A (key key' : K) (dflt : A) f m,
    lookup keqb key (upsert keqb key' dflt f m) =
    if keqb key key'
    then Some (f (match lookup keqb key' m with Some a => a | None => dflt end))
    else lookup keqb key m.
  Proof.
    intros A key key' dflt f m. induction m as [|[k0 a] r IH].
    - cbn [upsert lookup]. destruct (keqb key key'); reflexivity.
    - cbn [upsert lookup]. destruct (keqb_spec key' k0) as [E|NE].
      + subst k0. cbn [lookup]. destruct (keqb key key'); reflexivity.
      + cbn [lookup]. rewrite IH. destruct (keqb_spec key k0) as [E2|NE2].
        * subst k0. rewrite keqb_neq by congruence. reflexivity.
        * reflexivity.
  Qed.

  Lemma lookup_none : forall A (key : K) (m : list (K * A)),
    lookup keqb key m = None <-> ~ In key (map fst m).
  Proof.
    intros A key m. induction m as [|[k0 a] r IH]; cbn [lookup map fst In].
    - split; [intros _ []|reflexivity].
    - destruct (keqb_spec key k0) as [E|NE].
      + split; [discriminate|]. intros H. exfalso. apply H. left. symmetry. exact E.
      + rewrite IH. split.
        * intros H [E|Hin]; [apply NE; symmetry; exact E|exact (H Hin)].
        * intros H Hin. apply H. right. exact Hin.
  Qed.
  Lemma lookup_some_in : forall A (key : K) (m : list (K * A)) a,
    lookup keqb key m = Some a -> In (key, a) m.
  Proof.
    intros A key m a. induction m as [|[k0 a0] r IH]; cbn [lookup]; [discriminate|].
    destruct (keqb_spec key k0) as [E|NE].
    - intros H. injection H as ->. subst. left. reflexivity.
    - intros H. right. exact (IH H).
  Qed.
  Lemma in_lookup : forall A (key : K) (m : list (K * A)) a,
    NoDup (map fst m) -> In (key, a) m -> lookup keqb key m = Some a.
  Proof.
    intros A key m a. induction m as [|[k0 a0] r IH]; intros Hnd Hin; [destruct Hin|].
    cbn [map fst] in Hnd. inversion Hnd as [|x l Hnot Hnd']; subst.
    cbn [lookup]. destruct Hin as [E|Hin].
    - injection E as -> ->. rewrite keqb_refl. reflexivity.
    - destruct (keqb_spec key k0) as [E|NE].
      + subst. exfalso. apply Hnot. apply (in_map fst) in Hin. exact Hin.
      + apply IH; assumption.
  Qed.

  Lemma upsert_keys : forall A (key' : K) (dflt : A) f m,
    map fst (upsert keqb key' dflt f m) =
    match lookup keqb key' m with Some _ => map fst m | None => map fst m ++ [key'] end.
  Proof.
    intros A key' dflt f m. induction m as [|[k0 a] r IH]; [reflexivity|].
    cbn [upsert lookup]. destruct (keqb_spec key' k0) as [E|NE].
    - subst. reflexivity.
    - cbn [map fst]. rewrite IH. destruct (lookup keqb key' r); reflexivity.
  Qed.
  Lemma upsert_nodup : forall A (key' : K) (dflt : A) f m,
    NoDup (map fst m) -> NoDup (map fst (upsert keqb key' dflt f m)).
  Proof.
    intros A key' dflt f m H. rewrite upsert_keys.
    destruct (lookup keqb key' m) eqn:E; [exact H|].
    apply lookup_none in E.
    apply (Permutation_NoDup (l := key' :: map fst m)); [apply Permutation_cons_append|].
    constructor; assumption.
  Qed.

  (* with distinct keys, lookup does not depend on the order of the entries (HashMap iteration) *)
  Lemma lookup_perm : forall A (key : K) (m m' : list (K * A)),
    NoDup (map fst m) -> Permutation m m' -> lookup keqb key m = lookup keqb key m'.
  Proof.
    intros A key m m' Hnd Hp.
    assert (Hnd' : NoDup (map fst m')) by (eapply Permutation_NoDup; [apply Permutation_map, Hp|exact Hnd]).
    destruct (lookup keqb key m) as [a|] eqn:E.
    - apply lookup_some_in in E. symmetry. apply in_lookup; [exact Hnd'|].
      eapply Permutation_in; eassumption.
    - symmetry. apply lookup_none. apply lookup_none in E. intros Hin. apply E.
      eapply Permutation_in; [apply Permutation_map, Permutation_sym, Hp|exact Hin].
  Qed.

  (* ---------- the map invariant ---------- *)
  Definition MapR (k : nat) (accs : list (K * pracc T)) (d : list (K * T)) : Prop :=
    forall key,
      match lookup keqb key accs with
      | Some a => In key (map fst d) /\ R k a (vals key d)
      | None => ~ In key (map fst d)
      end.

  Lemma MapR_nil : forall k, MapR k [] [].
  Proof. intros k key. cbn [lookup map In]. intros []. Qed.

  Lemma MapR_local_step : forall k seed accs d key' v,
    MapR k accs d ->
    MapR k (upsert keqb key' (create k seed) (fun a => add a v) accs) (d ++ [(key', v)]).
  Proof.
    intros k seed accs d key' v H key. rewrite lookup_upsert.
    specialize (H key) as Hk. rewrite map_app, vals_app. cbn [map fst].
    destruct (keqb_spec key key') as [E|NE].
    - subst key'. split; [apply in_or_app; right; left; reflexivity|].
      unfold vals at 2. cbn [filter fst]. rewrite keqb_refl. cbn [map snd].
      apply R_add. destruct (lookup keqb key accs) as [a|].
      + exact (proj2 Hk).
      + rewrite (vals_notin _ _ Hk). apply R_create.
    - unfold vals at 2. cbn [filter fst]. rewrite (keqb_neq _ _ NE). cbn [map]. rewrite app_nil_r.
      destruct (lookup keqb key accs) as [a|].
      + split; [apply in_or_app; left; exact (proj1 Hk)|exact (proj2 Hk)].
      + intros Hin. apply in_app_or in Hin. destruct Hin as [Hin|[E|[]]]; [exact (Hk Hin)|].
        apply NE. symmetry. exact E.
  Qed.

  Lemma MapR_local_fold : forall k seed rows accs d,
    MapR k accs d ->
    MapR k (fold_left (fun m kv => upsert keqb (fst kv) (create k seed)
                                          (fun a => add a (snd kv)) m) rows accs)
         (d ++ rows).
  Proof.
    intros k seed rows. induction rows as [|[key' v] r IH]; intros accs d H; cbn [fold_left].
    - rewrite app_nil_r. exact H.
    - replace (d ++ (key', v) :: r) with ((d ++ [(key', v)]) ++ r)
        by (rewrite <- app_assoc; reflexivity).
      apply IH. cbn [fst snd]. apply MapR_local_step. exact H.
  Qed.
  Lemma MapR_local : forall k seed rows, MapR k (cv_local keqb k seed rows) rows.
  Proof. intros. unfold cv_local. apply (MapR_local_fold k seed rows [] []). apply MapR_nil. Qed.

  Lemma nodup_local_fold : forall k seed (rows : list (K * T)) (accs : list (K * pracc T)),
    NoDup (map fst accs) ->
    NoDup (map fst (fold_left (fun m kv => upsert keqb (fst kv) (create k seed)
                                                  (fun a => add a (snd kv)) m) rows accs)).
  Proof.
    intros k seed rows. induction rows as [|kv r IH]; intros accs H; cbn [fold_left]; [exact H|].
    apply IH. apply upsert_nodup. exact H.
  Qed.
  Lemma nodup_local : forall k seed (rows : list (K * T)), NoDup (map fst (cv_local keqb k seed rows)).
  Proof. intros. unfold cv_local. apply nodup_local_fold. constructor. Qed.

  (* merging one partition's map: per key, independent of the order of its entries *)
  Lemma merge_one_lookup : forall k seed (m accs : list (K * pracc T)) key,
    NoDup (map fst m) ->
    lookup keqb key (cv_merge_one keqb k seed accs m) =
    match lookup keqb key m with
    | Some b => Some (merge (match lookup keqb key accs with
                             | Some a => a | None => create k seed end) b)
    | None => lookup keqb key accs
    end.
  Proof.
    intros k seed m. unfold cv_merge_one.
    induction m as [|[k0 b] r IH]; intros accs key Hnd; [reflexivity|].
    cbn [map fst] in Hnd. inversion Hnd as [|x l Hnot Hnd']; subst.
    cbn [fold_left fst snd lookup]. rewrite (IH _ key Hnd'). rewrite lookup_upsert.
    destruct (keqb_spec key k0) as [E|NE].
    - subst k0. apply lookup_none in Hnot. rewrite Hnot. reflexivity.
    - reflexivity.
  Qed.
  (* the per-key result of merging a partition's map is independent of the order in which the
     HashMap yields its entries *)
  Theorem merge_one_order_irrelevant : forall k seed (m m' accs : list (K * pracc T)) key,
    NoDup (map fst m) -> Permutation m m' ->
    lookup keqb key (cv_merge_one keqb k seed accs m) =
    lookup keqb key (cv_merge_one keqb k seed accs m').
  Proof.
    intros k seed m m' accs key Hnd Hp.
    assert (Hnd' : NoDup (map fst m')) by (eapply Permutation_NoDup; [apply Permutation_map, Hp|exact Hnd]).
    rewrite (merge_one_lookup _ _ _ _ _ Hnd), (merge_one_lookup _ _ _ _ _ Hnd').
    rewrite (lookup_perm _ key m m' Hnd Hp). reflexivity.
  Qed.
  Lemma nodup_merge_one : forall k seed (m accs : list (K * pracc T)),
    NoDup (map fst accs) -> NoDup (map fst (cv_merge_one keqb k seed accs m)).
  Proof.
    intros k seed m. unfold cv_merge_one.
    induction m as [|ka r IH]; intros accs H; cbn [fold_left]; [exact H|].
    apply IH. apply upsert_nodup. exact H.
  Qed.

  Lemma MapR_merge_one : forall k seed accs d m d',
    NoDup (map fst m) -> MapR k accs d -> MapR k m d' ->
    MapR k (cv_merge_one keqb k seed accs m) (d ++ d').
  Proof.
    intros k seed accs d m d' Hnd Ha Hm key. rewrite (merge_one_lookup _ _ _ _ _ Hnd).
    specialize (Ha key). specialize (Hm key). rewrite map_app, vals_app.
    destruct (lookup keqb key m) as [b|]; destruct (lookup keqb key accs) as [a|].
    - split; [apply in_or_app; left; exact (proj1 Ha)|].
      apply R_merge; [exact (proj2 Ha)|exact (proj2 Hm)].
    - split; [apply in_or_app; right; exact (proj1 Hm)|].
      rewrite (vals_notin _ _ Ha). apply R_merge; [apply R_create|exact (proj2 Hm)].
    - split; [apply in_or_app; left; exact (proj1 Ha)|].
      rewrite (vals_notin _ _ Hm), app_nil_r. exact (proj2 Ha).
    - intros Hin. apply in_app_or in Hin. destruct Hin as [Hin|Hin]; [exact (Ha Hin)|exact (Hm Hin)].
  Qed.

  Lemma merge_fold : forall k seed (parts : list (list (K * T))) accs d,
    NoDup (map fst accs) -> MapR k accs d ->
    let r := fold_left (cv_merge_one keqb k seed) (map (cv_local keqb k seed) parts) accs in
    NoDup (map fst r) /\ MapR k r (d ++ concat parts).
  Proof.
    intros k seed parts. induction parts as [|p r IH]; intros accs d Hnd H; cbn [map fold_left concat].
    - rewrite app_nil_r. split; assumption.
    - rewrite app_assoc. apply IH.
      + apply nodup_merge_one. exact Hnd.
      + apply MapR_merge_one; [apply nodup_local|exact H|apply MapR_local].
  Qed.

  (* ---------- the observable: (key, sample) pairs ---------- *)
  Theorem keyed_parts_spec : forall k seed (parts : list (list (K * T))),
    let out := keyed_parts keqb k seed parts in
    let data := concat parts in
    NoDup (map fst out) /\
    (forall key, In key (map fst out) <-> In key (map fst data)) /\
    (forall key s, In (key, s) out ->
       length s = Nat.min k (length (vals key data)) /\
       exists d, Permutation (s ++ d) (vals key data)).
  Proof.
    intros k seed parts. cbv zeta. unfold keyed_parts, cv_merge.
    destruct (merge_fold k seed parts [] [] (NoDup_nil _) (MapR_nil k)) as [Hnd HR].
    cbn [app] in HR.
    set (final := fold_left (cv_merge_one keqb k seed) (map (cv_local keqb k seed) parts) []) in *.
    assert (Hkeys : map fst (map (fun ka : K * pracc T => (fst ka, finish (snd ka))) final)
                    = map fst final).
    { rewrite map_map. apply map_ext. intros [x a]. reflexivity. }
    rewrite Hkeys. split; [exact Hnd|]. split.
    - intros key. specialize (HR key). destruct (lookup keqb key final) as [a|] eqn:E.
      + split; [intros _; exact (proj1 HR)|]. intros _.
        apply lookup_some_in in E. apply (in_map fst) in E. exact E.
      + split; [|intros Hin; exfalso; exact (HR Hin)].
        intros Hin. apply lookup_none in E. exfalso. exact (E Hin).
    - intros key s Hin. apply in_map_iff in Hin. destruct Hin as [[key0 a] [E Hin]].
      cbn [fst snd] in E. injection E as -> <-.
      pose proof (in_lookup _ _ _ _ Hnd Hin) as L. specialize (HR key). rewrite L in HR.
      exact (R_finish _ _ _ (proj2 HR)).
  Qed.

  (* the flattened variant: the values emitted for one key are that key's sample *)
  Lemma vals_flatten : forall (g : list (K * list T)) key,
    NoDup (map fst g) ->
    vals key (flatten_keyed g) = match lookup keqb key g with Some s => s | None => [] end.
  Proof.
    intros g key. induction g as [|[k0 s0] r IH]; intros Hnd; [reflexivity|].
    cbn [map fst] in Hnd. inversion Hnd as [|x l Hnot Hnd']; subst.
    unfold flatten_keyed. cbn [flat_map fst snd]. fold (flatten_keyed r).
    rewrite vals_app, (IH Hnd'). cbn [lookup].
    destruct (keqb_spec key k0) as [E|NE].
    - subst k0. apply lookup_none in Hnot. rewrite Hnot, app_nil_r.
      unfold vals. induction s0 as [|v s IHs]; [reflexivity|].
      cbn [map filter fst]. rewrite keqb_refl. cbn [map snd]. f_equal. exact IHs.
    - replace (vals key (map (fun v => (k0, v)) s0)) with (@nil T); [reflexivity|].
      unfold vals. induction s0 as [|v s IHs]; [reflexivity|].
      cbn [map filter fst]. rewrite (keqb_neq _ _ NE). exact IHs.
  Qed.

  Theorem keyed_flat_spec : forall k seed (parts : list (list (K * T))) key,
    let out := flatten_keyed (keyed_parts keqb k seed parts) in
    let data := concat parts in
    length (vals key out) = Nat.min k (length (vals key data)) /\
    exists d, Permutation (vals key out ++ d) (vals key data).
  Proof.
    intros k seed parts key. cbv zeta.
    destruct (keyed_parts_spec k seed parts) as [Hnd [Hkeys Hs]].
    rewrite (vals_flatten _ key Hnd).
    destruct (lookup keqb key (keyed_parts keqb k seed parts)) as [s|] eqn:E.
    - apply lookup_some_in in E. exact (Hs key s E).
    - apply lookup_none in E.
      assert (Hn : ~ In key (map fst (concat parts))) by (intros H; apply E, Hkeys, H).
      rewrite (vals_notin _ _ Hn). cbn [length]. rewrite Nat.min_0_r.
      split; [reflexivity|]. exists []. apply Permutation_refl.
  Qed.
  (* runner instances: the four keyed observables *)
  Corollary keyed_seq_vec_spec : forall k seed (data : list (K * T)),
    let out := keyed_seq_vec keqb k seed data in
    NoDup (map fst out) /\
    (forall key, In key (map fst out) <-> In key (map fst data)) /\
    (forall key s, In (key, s) out ->
       length s = Nat.min k (length (vals key data)) /\
       exists d, Permutation (s ++ d) (vals key data)).
  Proof.
    intros k seed data. pose proof (keyed_parts_spec k seed [data]) as H.
    cbn [concat] in H. rewrite app_nil_r in H. exact H.
  Qed.
  Corollary keyed_par_vec_spec : forall k seed p (data : list (K * T)),
    let out := keyed_par_vec keqb k seed p data in
    NoDup (map fst out) /\
    (forall key, In key (map fst out) <-> In key (map fst data)) /\
    (forall key s, In (key, s) out ->
       length s = Nat.min k (length (vals key data)) /\
       exists d, Permutation (s ++ d) (vals key data)).
  Proof.
    intros k seed p data. pose proof (keyed_parts_spec k seed (runner_split p data)) as H.
    rewrite runner_split_concat in H. exact H.
  Qed.
  Corollary keyed_seq_spec : forall k seed (data : list (K * T)) key,
    length (vals key (keyed_seq keqb k seed data)) = Nat.min k (length (vals key data)) /\
    exists d, Permutation (vals key (keyed_seq keqb k seed data) ++ d) (vals key data).
  Proof.
    intros k seed data key. pose proof (keyed_flat_spec k seed [data] key) as H.
    cbn [concat] in H. rewrite app_nil_r in H. exact H.
  Qed.
  Corollary keyed_par_spec : forall k seed p (data : list (K * T)) key,
    length (vals key (keyed_par keqb k seed p data)) = Nat.min k (length (vals key data)) /\
    exists d, Permutation (vals key (keyed_par keqb k seed p data) ++ d) (vals key data).
  Proof.
    intros k seed p data key. pose proof (keyed_flat_spec k seed (runner_split p data) key) as H.
    rewrite runner_split_concat in H. exact H.
  Qed.
End KeyedProofs.
