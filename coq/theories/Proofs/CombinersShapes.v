(* Proofs about the compact input descriptions and call shapes of Combiners/Shapes.v:
   the incremental generator is the closed form, chunking loses nothing, the three nestings keep
   the leaves in order, hence every chunked merge of a group gives the mathematical output; every
   merge tree is an accumulator expression; accumulators of canonical combiners are equal (not
   merely equivalent) whenever the same values went in. *)
From Coq Require Import List ZArith Lia Permutation Arith.
From IB Require Import Combiners.Lawful Combiners.Shapes Proofs.CombinersLawful.
Import ListNotations.
Open Scope Z_scope.

(* ------------------------------------------------------------------ the generator *)
Lemma gen_from_closed : forall n i a b m off,
    0 < m ->
    gen_from n ((a * i + b) mod m) (a mod m) m off
    = map (fun j => (a * (i + Z.of_nat j) + b) mod m + off) (seq 0 n).
Proof.
  induction n as [|n IH]; intros i a b m off Hm.
  - reflexivity.
  - cbn [gen_from seq map]. f_equal.
    + rewrite Nat2Z.inj_0, Z.add_0_r. reflexivity.
    + rewrite <- seq_shift, map_map.
      assert (Hstep : (if (a * i + b) mod m + a mod m <? m then (a * i + b) mod m + a mod m
                       else (a * i + b) mod m + a mod m - m)
                      = (a * (i + 1) + b) mod m).
      {
        pose proof (Z.mod_pos_bound (a * i + b) m Hm) as Hx.
        pose proof (Z.mod_pos_bound a m Hm) as Ha.
        replace (a * (i + 1) + b) with ((a * i + b) + a) by ring.
        rewrite (Z.add_mod (a * i + b) a m) by lia.
        destruct (Z.ltb_spec ((a * i + b) mod m + a mod m) m) as [Hlt|Hge].
        - rewrite (Z.mod_small ((a * i + b) mod m + a mod m) m) by lia. reflexivity.
        - symmetry. set (y := (a * i + b) mod m + a mod m) in *.
          assert (Hy : y = (y - m) + 1 * m) by ring.
          rewrite Hy at 1. rewrite Z.mod_add by lia. apply Z.mod_small. lia. }
      cbv zeta. rewrite Hstep. rewrite IH by exact Hm.
      apply map_ext. intros j. rewrite Nat2Z.inj_succ. f_equal. f_equal. ring.
Qed.

Theorem gen_values_closed_form : forall start n a b m off,
    0 < m ->
    gen_values start n a b m off
    = map (fun j => (a * (start + Z.of_nat j) + b) mod m + off) (seq 0 n).
Proof. intros. unfold gen_values. apply gen_from_closed. assumption. Qed.

Lemma gen_values_length : forall start n a b m off, length (gen_values start n a b m off) = n.
Proof.
  intros start n a b m off. unfold gen_values.
  generalize ((a * start + b) mod m). induction n as [|n IH]; intros x; cbn [gen_from length].
  - reflexivity.
  - rewrite IH. reflexivity.
Qed.

(* ------------------------------------------------------------------ folds and leaves *)
Section Shapes.
  Context {V : Type}.

  Lemma fold_left_AAdd_values : forall (vs : list V) e,
      avalues (fold_left AAdd vs e) = rev vs ++ avalues e.
  Proof.
    induction vs as [|v vs IH]; intros e; cbn [fold_left rev app].
    - reflexivity.
    - rewrite IH. cbn [avalues]. rewrite <- app_assoc. reflexivity.
  Qed.

  Lemma avalues_fold_expr : forall vs : list V, avalues (fold_expr vs) = rev vs.
  Proof.
    intros vs. unfold fold_expr. rewrite fold_left_AAdd_values. cbn [avalues]. apply app_nil_r.
  Qed.

  Lemma avalues_leaf_expr : forall b (p : list V), Permutation (avalues (leaf_expr b p)) p.
  Proof.
    intros [|] p; unfold leaf_expr.
    - apply Permutation_refl.
    - rewrite avalues_fold_expr. symmetry. apply Permutation_rev.
  Qed.

  (* ---- chunking ---- *)
  Lemma concat_chunks_fuel : forall fuel psize (l : list V),
      (1 <= psize)%nat -> (length l <= fuel)%nat -> concat (chunks_fuel fuel psize l) = l.
  Proof.
    induction fuel as [|f IH]; intros psize l Hp Hl.
    - destruct l; [reflexivity | cbn in Hl; lia].
    - cbn [chunks_fuel]. destruct l as [|x l']; [reflexivity|].
      cbn [concat]. rewrite IH.
      + apply firstn_skipn.
      + exact Hp.
      + rewrite skipn_length. cbn [length] in *. lia.
  Qed.

  Theorem concat_chunks : forall psize (l : list V), concat (chunks psize l) = l.
  Proof.
    intros psize l. unfold chunks. apply concat_chunks_fuel; [lia | apply le_n].
  Qed.

  Lemma chunks_fuel_nonempty : forall fuel psize (l : list V) p,
      (1 <= psize)%nat -> In p (chunks_fuel fuel psize l) -> p <> [] /\ (length p <= psize)%nat.
  Proof.
    induction fuel as [|f IH]; intros psize l p Hp Hin.
    - destruct Hin.
    - cbn [chunks_fuel] in Hin. destruct l as [|x l']; [destruct Hin|].
      destruct Hin as [<-|Hin].
      + split.
        * destruct psize; [lia|]. cbn [firstn]. discriminate.
        * apply firstn_le_length.
      + apply (IH _ _ _ Hp Hin).
  Qed.

  (* every chunk is non-empty and at most psize long *)
  Theorem chunks_bounds : forall psize (l : list V) p,
      In p (chunks psize l) -> p <> [] /\ (length p <= Nat.max 1 psize)%nat.
  Proof. intros psize l p. unfold chunks. apply chunks_fuel_nonempty. lia. Qed.

  (* ---- nestings keep the leaves, in order ---- *)
  Definition values_of (es : list (aexpr V)) : list V := concat (map avalues es).

  Lemma fold_left_AMerge_values : forall (es : list (aexpr V)) e,
      avalues (fold_left AMerge es e) = avalues e ++ values_of es.
  Proof.
    induction es as [|e' es IH]; intros e; cbn [fold_left].
    - unfold values_of. cbn. rewrite app_nil_r. reflexivity.
    - rewrite IH. cbn [avalues]. unfold values_of. cbn [map concat]. rewrite app_assoc. reflexivity.
  Qed.

  Lemma avalues_nest_left : forall es : list (aexpr V), avalues (nest_left es) = values_of es.
  Proof.
    intros [|e es]; [reflexivity|]. cbn [nest_left]. rewrite fold_left_AMerge_values. reflexivity.
  Qed.

  Lemma avalues_nest_right_from : forall (es : list (aexpr V)) e,
      avalues (nest_right_from e es) = avalues e ++ values_of es.
  Proof.
    induction es as [|e' es IH]; intros e; cbn [nest_right_from].
    - unfold values_of. cbn. rewrite app_nil_r. reflexivity.
    - cbn [avalues]. rewrite IH. reflexivity.
  Qed.

  Lemma avalues_nest_right : forall es : list (aexpr V), avalues (nest_right es) = values_of es.
  Proof.
    intros [|e es]; [reflexivity|]. cbn [nest_right]. apply avalues_nest_right_from.
  Qed.

  Lemma values_of_app : forall a b : list (aexpr V), values_of (a ++ b) = values_of a ++ values_of b.
  Proof. intros a b. unfold values_of. rewrite map_app, concat_app. reflexivity. Qed.

  Lemma avalues_nest_balanced_fuel : forall fuel (es : list (aexpr V)),
      avalues (nest_balanced_fuel fuel es) = values_of es.
  Proof.
    induction fuel as [|f IH]; intros es.
    - cbn [nest_balanced_fuel]. apply avalues_nest_left.
    - cbn [nest_balanced_fuel]. destruct es as [|e1 [|e2 es']].
      + reflexivity.
      + unfold values_of. cbn. rewrite app_nil_r. reflexivity.
      + remember (e1 :: e2 :: es') as es eqn:Hes.
        cbn [avalues]. rewrite !IH. rewrite <- values_of_app. rewrite firstn_skipn. reflexivity.
  Qed.

  Lemma avalues_nest_exprs : forall nest (es : list (aexpr V)),
      avalues (nest_exprs nest es) = values_of es.
  Proof.
    intros [|[|n]] es; cbn [nest_exprs].
    - apply avalues_nest_left.
    - apply avalues_nest_right.
    - apply avalues_nest_balanced_fuel.
  Qed.

  Lemma values_of_leaf_exprs : forall mode (parts : list (list V)) i,
      Permutation (values_of (leaf_exprs_from mode i parts)) (concat parts).
  Proof.
    intros mode parts. induction parts as [|p parts IH]; intros i; cbn [leaf_exprs_from].
    - apply Permutation_refl.
    - unfold values_of in *. cbn [map concat]. apply Permutation_app.
      + apply avalues_leaf_expr.
      + apply IH.
  Qed.

  (* the values that go into a chunked merge are exactly the values of the group *)
  Theorem avalues_chunked : forall mode nest psize (vs : list V),
      Permutation (avalues (chunked mode nest psize vs)) vs.
  Proof.
    intros mode nest psize vs. unfold chunked. rewrite avalues_nest_exprs.
    eapply perm_trans; [apply values_of_leaf_exprs|]. rewrite concat_chunks. apply Permutation_refl.
  Qed.

  (* ---- merge trees are accumulator expressions ---- *)
  Lemma avalues_aexpr_of_mtree : forall t : mtree V,
      Permutation (avalues (aexpr_of_mtree t)) (concat (mparts t)).
  Proof.
    induction t as [b p|l IHl r IHr]; cbn [aexpr_of_mtree mparts avalues].
    - cbn [concat]. rewrite app_nil_r. apply avalues_leaf_expr.
    - rewrite concat_app. apply Permutation_app; assumption.
  Qed.
End Shapes.

Section Eval.
  Context {V A O : Type}.
  Variable c : combiner V A O.

  Lemma aeval_fold_left_AAdd : forall (vs : list V) e,
      aeval c (fold_left AAdd vs e) = fold_left (c_add c) vs (aeval c e).
  Proof.
    induction vs as [|v vs IH]; intros e; cbn [fold_left].
    - reflexivity.
    - rewrite IH. reflexivity.
  Qed.

  (* create followed by add_input of each value IS the fold *)
  Theorem aeval_fold_expr : forall vs : list V, aeval c (fold_expr vs) = fold_acc c vs.
  Proof. intros vs. unfold fold_expr, fold_acc. apply aeval_fold_left_AAdd. Qed.

  Lemma aeval_leaf_expr : forall b (p : list V), aeval c (leaf_expr b p) = leaf_acc c b p.
  Proof.
    intros [|] p; unfold leaf_expr, leaf_acc; [reflexivity | apply aeval_fold_expr].
  Qed.

  Theorem aeval_aexpr_of_mtree : forall t : mtree V, aeval c (aexpr_of_mtree t) = meval c t.
  Proof.
    induction t as [b p|l IHl r IHr]; cbn [aexpr_of_mtree aeval meval].
    - apply aeval_leaf_expr.
    - rewrite IHl, IHr. reflexivity.
  Qed.

  Variable R : A -> list V -> Prop.
  Variable spec : list V -> O -> Prop.
  Hypothesis L : lawful c R spec.

  (* a group cut into chunks of any size, each chunk lifted or not, merged left-nested,
     right-nested or along a balanced tree: the mathematical output of the whole group *)
  Theorem chunked_spec : forall mode nest psize (vs : list V),
      spec vs (c_finish c (aeval c (chunked mode nest psize vs))).
  Proof.
    intros mode nest psize vs. apply (aexpr_spec c R spec L). apply avalues_chunked.
  Qed.

  Theorem chunked_eq_fold :
    forall eqO : O -> O -> Prop, (forall m o o', spec m o -> spec m o' -> eqO o o') ->
    forall mode nest psize (vs : list V),
      eqO (c_finish c (aeval c (chunked mode nest psize vs))) (c_finish c (fold_acc c vs)).
  Proof.
    intros eqO HF mode nest psize vs.
    apply (aexpr_eq_fold c R spec L eqO HF). apply avalues_chunked.
  Qed.

  (* ---- canonical accumulators: when R determines the accumulator, any two ways of feeding the
     same values produce the SAME accumulator ---- *)
  Hypothesis R_functional : forall a a' m, R a m -> R a' m -> a = a'.

  Theorem canonical_accumulator : forall e e' : aexpr V,
      Permutation (avalues e) (avalues e') -> aeval c e = aeval c e'.
  Proof.
    intros e e' HP. apply R_functional with (m := avalues e').
    - apply (law_perm _ _ _ L) with (m := avalues e); [apply (aeval_R c R spec L) | exact HP].
    - apply (aeval_R c R spec L).
  Qed.

  Corollary canonical_build_is_fold : forall vs : list V, c_build c vs = fold_acc c vs.
  Proof.
    intros vs. rewrite <- aeval_fold_expr.
    change (c_build c vs) with (aeval c (ABuild vs)).
    apply canonical_accumulator. cbn [avalues]. rewrite avalues_fold_expr. apply Permutation_rev.
  Qed.

  Corollary canonical_build_app : forall vs ws : list V,
      c_build c (vs ++ ws) = c_merge c (c_build c vs) (c_build c ws).
  Proof.
    intros vs ws.
    change (aeval c (ABuild (vs ++ ws)) = aeval c (AMerge (ABuild vs) (ABuild ws))).
    apply canonical_accumulator. cbn [avalues]. apply Permutation_refl.
  Qed.
End Eval.
