(* Proofs about the checkpoint store model, part 3: when the filename timestamps of a pipeline's
   files are pairwise different, the outcome of retention is fully determined - a file survives
   iff fewer than max_checkpoints files of the pipeline have a greater timestamp - whatever the
   directory listing order. *)
From Coq Require Import List ZArith Bool Lia Permutation.
From IB Require Import Ckpt.Bincode Ckpt.Store Proofs.CkptBincode Proofs.CkptStore Proofs.CkptRetention
     Proofs.CkptMain.
Import ListNotations.
Open Scope Z_scope.

Section TopM.
  Variable key : name -> Z.

  Definition newer_than (x : name) (A : list name) : list name := filter (fun y => key x <? key y) A.

  Lemma topm_characterised (A K : list name) m :
    NoDup A -> NoDup K -> incl K A ->
    Z.of_nat (length K) = Z.min m (Z.of_nat (length A)) ->
    (forall k x, In k K -> In x A -> ~ In x K -> key x <= key k) ->
    (forall x y, In x A -> In y A -> key x = key y -> x = y) ->
    forall x, In x A -> (In x K <-> Z.of_nat (length (newer_than x A)) < m).
  Proof.
    intros HA HK Hinc Hlen Hrec Hinj x Hx. split.
    - intro HxK.
      assert (Hnd : NoDup (x :: newer_than x A)).
      { constructor; [|now apply NoDup_filter]. unfold newer_than. intro H.
        apply filter_In in H. destruct H as [_ H]. apply Z.ltb_lt in H. lia. }
      assert (Hsub : incl (x :: newer_than x A) K).
      { intros y [<-|Hy]; [assumption|]. unfold newer_than in Hy. apply filter_In in Hy.
        destruct Hy as [HyA Hy]. apply Z.ltb_lt in Hy.
        destruct (in_dec (list_eq_dec Z.eq_dec) y K) as [|Hn]; [assumption|].
        specialize (Hrec x y HxK HyA Hn). lia. }
      pose proof (NoDup_incl_length Hnd Hsub) as Hl. cbn [length] in Hl. lia.
    - intro Hlt. destruct (in_dec (list_eq_dec Z.eq_dec) x K) as [|Hn]; [assumption|]. exfalso.
      assert (Hm : Z.of_nat (length K) = m).
      { destruct (Z.le_gt_cases m (Z.of_nat (length A))) as [Hc|Hc]; [lia|].
        assert (length A <= length K)%nat by lia.
        pose proof (NoDup_length_incl HK H Hinc) as Hrev. exfalso. apply Hn. now apply Hrev. }
      assert (Hsub : incl K (newer_than x A)).
      { intros k Hk. unfold newer_than. apply filter_In. split; [now apply Hinc|].
        apply Z.ltb_lt. specialize (Hrec k x Hk Hx Hn).
        destruct (Z.eq_dec (key x) (key k)) as [E|]; [|lia].
        apply Hinj in E; [|assumption|now apply Hinc]. subst. contradiction. }
      pose proof (NoDup_incl_length HK Hsub). lia.
  Qed.
End TopM.

Theorem retention_determined (readdir : dir -> list name) :
  (forall d, Permutation (readdir d) (dir_names d)) ->
  forall (m : Z) (d : dir) (s : cstate),
    let pid := pipeline_id s in
    let n := ckpt_name pid (timestamp s) in
    let d1 := dir_write d n (encode s) in
    dir_ok d -> 0 <= m -> is_u64 (timestamp s) -> name_ok n = true ->
    (forall x y, In x (own pid d1) -> In y (own pid d1) -> ts_key pid x = ts_key pid y -> x = y) ->
    forall x, In x (own pid d1) ->
      (In x (own pid (snd (save readdir (Some m) d s)))
       <-> Z.of_nat (length (newer_than (ts_key pid) x (own pid d1))) < m).
Proof.
  intros Hp m d s pid n d1 Hok Hm Hts Hn Hinj x Hx.
  destruct (main_retention readdir Hp m d s Hok Hm Hts Hn)
    as (d' & Hs & Hok' & Hin & Hcnt & Hsub & Hrec & Hoth).
  fold pid n d1 in Hs, Hin, Hcnt, Hsub, Hrec. rewrite Hs. cbn [snd].
  apply (topm_characterised (ts_key pid) (own pid d1) (own pid d') m); try assumption.
  - apply NoDup_filter. now apply dir_ok_write.
  - now apply NoDup_filter.
  - intros y Hy. unfold own in *. apply filter_In in Hy. destruct Hy as [Hy1 Hy2].
    apply filter_In. split; [|assumption].
    destruct (names_in_lookup d' y Hy1) as [b Hb]. apply Hsub in Hb.
    eapply lookup_in_names. exact Hb.
Qed.

(* ------------------------------------------------------------------ recency over whole histories *)
(* After ANY history of saves (ids interleaved, timestamps in any order, from any directory d)
   the files a pipeline p still has are "most recent ones" among everything that pipeline ever
   had: F = its files in d together with every name saved for it. *)
Section HistoryRecent.
  Variable readdir : dir -> list name.
  Hypothesis readdir_perm : forall d, Permutation (readdir d) (dir_names d).
  Variable m : Z.
  Hypothesis Hm : 0 <= m.
  Variable p : bytes.
  Notation key := (ts_key p).

  Definition sel_inv (F K : list name) : Prop :=
    incl K F
    /\ (forall k x, In k K -> In x F -> ~ In x K -> key x <= key k)
    /\ (forall x, In x F -> ~ In x K -> m <= Z.of_nat (length K)).

  Definition valid_save (s : cstate) : Prop :=
    is_u64 (timestamp s) /\ name_ok (ckpt_name (pipeline_id s) (timestamp s)) = true.

  Definition name_dec := list_eq_dec Z.eq_dec.

  Lemma exists_not_in (l l' : list name) :
    NoDup l -> (length l' < length l)%nat -> exists e, In e l /\ ~ In e l'.
  Proof.
    intros Hnd Hlen.
    destruct (Forall_Exists_dec (fun e => In e l') (fun e => in_dec name_dec e l') l) as [Hall|Hex].
    - exfalso. rewrite Forall_forall in Hall.
      pose proof (NoDup_incl_length Hnd Hall). lia.
    - apply Exists_exists in Hex. exact Hex.
  Qed.

  Lemma own_write_in d n b x :
    is_ckpt p n = true ->
    (In x (own p (dir_write d n b)) <-> x = n \/ In x (own p d)).
  Proof.
    intro Hn. unfold own. rewrite names_write. cbn [filter]. rewrite Hn. cbn [In].
    rewrite !filter_In. split.
    - intros [->|[[Hx Hne] Hp]]; [now left|]. right. tauto.
    - intros [->|[Hx Hp]]; [now left|].
      destruct (name_dec x n) as [->|Hne]; [now left|]. right.
      split; [split; [assumption | now apply negb_true_iff, bytes_eqb_neq] | assumption].
  Qed.

  Lemma save_step_same d s F :
    pipeline_id s = p -> dir_ok d -> valid_save s ->
    sel_inv F (own p d) ->
    sel_inv (F ++ [ckpt_name p (timestamp s)]) (own p (snd (save readdir (Some m) d s))).
  Proof.
    intros Hp Hok [Hts Hname] (Ia & Ib & Ic).
    destruct (main_retention readdir readdir_perm m d s Hok Hm Hts Hname)
      as (d' & Hs & Hok' & Hin & Hcnt & Hsub & Hrec & _).
    rewrite Hs. cbn [snd]. rewrite Hp in *.
    set (n := ckpt_name p (timestamp s)) in *.
    set (K := own p d) in *. set (K1 := own p (dir_write d n (encode s))) in *.
    set (K' := own p d') in *.
    assert (HPn : is_ckpt p n = true) by (now apply is_ckpt_name).
    assert (HK1 : forall x, In x K1 <-> x = n \/ In x K) by (intro x; now apply own_write_in).
    assert (NK : NoDup K) by (apply NoDup_filter; exact Hok).
    assert (NK1 : NoDup K1) by (apply NoDup_filter; now apply dir_ok_write).
    assert (NK' : NoDup K') by (apply NoDup_filter; exact Hok').
    assert (Hinc : incl K' K1).
    { intros y Hy. unfold K', K1, own in *. apply filter_In in Hy. destruct Hy as [Hy1 Hy2].
      apply filter_In. split; [|assumption].
      destruct (names_in_lookup d' y Hy1) as [b Hb]. apply Hsub in Hb.
      eapply lookup_in_names. exact Hb. }
    assert (HKK1 : (length K <= length K1)%nat).
    { apply NoDup_incl_length; [exact NK|]. intros y Hy. apply HK1. now right. }
    (* a file of K1 that is gone means the count was cut down to m *)
    assert (Hcut : forall x, In x K1 -> ~ In x K' -> Z.of_nat (length K') = m
                                                  /\ (length K' < length K1)%nat).
    { intros x Hx Hnx.
      assert (NoDup (x :: K')) by (constructor; assumption).
      assert (incl (x :: K') K1) by (intros y [<-|Hy]; [assumption | now apply Hinc]).
      pose proof (NoDup_incl_length H H0) as Hl. cbn [length] in Hl. lia. }
    split; [|split].
    - intros y Hy. apply Hinc, HK1 in Hy. apply in_or_app.
      destruct Hy as [->|Hy]; [right; now left | left; now apply Ia].
    - intros k x Hk Hx Hnx.
      destruct (in_dec name_dec x K1) as [Hx1|Hx1]; [now apply Hrec|].
      assert (Hxn : x <> n) by (intro E; apply Hx1, HK1; now left).
      assert (HxK : ~ In x K) by (intro E; apply Hx1, HK1; now right).
      assert (HxF : In x F).
      { apply in_app_or in Hx. destruct Hx as [|[E|[]]]; [assumption | congruence]. }
      pose proof (Hinc k Hk) as Hk1. apply HK1 in Hk1.
      destruct Hk1 as [->|HkK]; [|now apply Ib].
      destruct (in_dec name_dec n K) as [HnK|HnK]; [now apply Ib|].
      (* n is new and kept: something of K had to go, and it is older than n, newer than x *)
      pose proof (Ic x HxF HxK) as HmK.
      assert (Hlen1 : length K1 = S (length K)).
      { assert (NoDup (n :: K)) by (constructor; assumption).
        assert (incl (n :: K) K1) by (intros y [<-|Hy]; apply HK1; [now left | now right]).
        assert (incl K1 (n :: K)) by (intros y Hy; apply HK1 in Hy; destruct Hy; [now left | now right]).
        pose proof (NoDup_incl_length H H0). pose proof (NoDup_incl_length NK1 H1).
        cbn [length] in *. lia. }
      assert (Hlt : (length K' < length K1)%nat) by lia.
      destruct (exists_not_in K1 K' NK1 Hlt) as (e & He1 & He2).
      apply HK1 in He1. destruct He1 as [->|HeK]; [contradiction|].
      pose proof (Hrec n e Hk ltac:(apply HK1; now right) He2).
      pose proof (Ib e x HeK HxF HxK). lia.
    - intros x Hx Hnx.
      destruct (in_dec name_dec x K1) as [Hx1|Hx1].
      + destruct (Hcut x Hx1 Hnx). lia.
      + assert (HxK : ~ In x K) by (intro E; apply Hx1, HK1; now right).
        assert (HxF : In x F).
        { apply in_app_or in Hx. destruct Hx as [|[E|[]]]; [assumption|].
          exfalso. apply Hx1, HK1. now left. }
        pose proof (Ic x HxF HxK). lia.
  Qed.

  Definition saved_names (h : list cstate) : list name :=
    map (fun s => ckpt_name p (timestamp s))
        (filter (fun s => bytes_eqb (pipeline_id s) p) h).

  Lemma sel_inv_ext F F' K : (forall x, In x F <-> In x F') -> sel_inv F K -> sel_inv F' K.
  Proof.
    intros E (Ia & Ib & Ic). split; [|split].
    - intros y Hy. apply E. now apply Ia.
    - intros k x Hk Hx. apply Ib; [assumption | now apply E].
    - intros x Hx. apply Ic. now apply E.
  Qed.

  Theorem history_recent_gen h : forall d F,
    dir_ok d -> Forall valid_save h -> sel_inv F (own p d) ->
    sel_inv (F ++ saved_names h) (own p (run_saves readdir (Some m) d h)).
  Proof.
    induction h as [|s h IH]; intros d F Hok Hall Hinv.
    - cbn. now rewrite app_nil_r.
    - inversion Hall as [|? ? Hv Hall']; subst. cbn [run_saves fold_left].
      fold (run_saves readdir (Some m) (snd (save readdir (Some m) d s)) h).
      pose proof (save_dir_ok readdir (Some m) d s Hok) as Hok1.
      unfold saved_names. cbn [filter].
      destruct (bytes_eqb (pipeline_id s) p) eqn:E.
      + apply bytes_eqb_eq in E. cbn [map]. fold (saved_names h).
        apply (sel_inv_ext ((F ++ [ckpt_name p (timestamp s)]) ++ saved_names h)).
        { intro x. rewrite <- app_assoc. reflexivity. }
        apply IH; [assumption|assumption|]. now apply save_step_same.
      + apply bytes_eqb_neq in E. fold (saved_names h).
        apply IH; [assumption|assumption|].
        rewrite save_other_own; try assumption; [intro E2; apply E; now symmetry | apply Hv].
  Qed.
End HistoryRecent.

Theorem history_recent (readdir : dir -> list name) :
  (forall d, Permutation (readdir d) (dir_names d)) ->
  forall m h d p,
    dir_ok d -> 0 <= m ->
    Forall (fun s => is_u64 (timestamp s)
                     /\ name_ok (ckpt_name (pipeline_id s) (timestamp s)) = true) h ->
    let F := own p d ++ saved_names p h in
    let K := own p (run_saves readdir (Some m) d h) in
    incl K F
    /\ (forall k x, In k K -> In x F -> ~ In x K -> ts_key p x <= ts_key p k).
Proof.
  intros Hp m h d p Hok Hm Hall F K.
  assert (Hinit : sel_inv m p (own p d) (own p d)).
  { split; [apply incl_refl|]. split; intros; contradiction. }
  destruct (history_recent_gen readdir Hp m Hm p h d (own p d) Hok Hall Hinit) as (Ia & Ib & _).
  split; assumption.
Qed.
