(* Generic interchange value: every case the harness emits (input and observed outcome) is
   rendered by check.py into a term of this type; each Corr/Cxx.v decodes what it needs.
   Nothing property-specific lives in Python. *)
From Coq Require Import List ZArith String Ascii Floats.
Import ListNotations.
Open Scope Z_scope.

Inductive J : Type :=
| JI (z : Z)                 (* JSON integer *)
| JB (b : bool)              (* JSON true / false *)
| JN                         (* JSON null *)
| JS (s : string)            (* JSON string made of plain printable ASCII *)
| JY (bytes : list Z)        (* any other JSON string, as its UTF-8 bytes *)
| JF (f : float)             (* {"f":"<hex float>"} *)
| JL (l : list J).           (* JSON array *)

Definition jint (j : J) : option Z := match j with JI z => Some z | _ => None end.
Definition jbool (j : J) : option bool := match j with JB b => Some b | _ => None end.
Definition jlist (j : J) : option (list J) := match j with JL l => Some l | _ => None end.

Fixpoint string_bytes (s : string) : list Z :=
  match s with
  | EmptyString => []
  | String a r => Z.of_N (N_of_ascii a) :: string_bytes r
  end.

Definition jbytes (j : J) : option (list Z) :=
  match j with JS s => Some (string_bytes s) | JY b => Some b | _ => None end.

(* tag test for outcome arrays such as ["ok", v] / ["panic"] *)
Definition jtag_is (t : string) (j : J) : bool :=
  match j with JS s => String.eqb s t | _ => false end.

Fixpoint omap {A B} (f : A -> option B) (l : list A) : option (list B) :=
  match l with
  | [] => Some []
  | x :: r => match f x, omap f r with Some y, Some ys => Some (y :: ys) | _, _ => None end
  end.

Definition jints (j : J) : option (list Z) :=
  match j with JL l => omap jint l | _ => None end.

Definition jpair (j : J) : option (J * J) :=
  match j with JL [a; b] => Some (a, b) | _ => None end.

(* Verdict of one case, printed by vm_compute and read back by check.py:
   (agree, prop, known) =
     agree : the observed outcome is one the model allows on this input
     prop  : the property instance holds of the OBSERVED outcome
     known : the input lies in a class listed in known_findings.json (then agree/prop are
             reported but not counted)
   A case the decoder cannot parse yields (false,false,false) and is reported as an
   infrastructure error by check.py when its "malformed" flag (fourth component) is set. *)
Record verdict := V { v_agree : bool; v_prop : bool; v_known : bool; v_malformed : bool }.
Definition malformed : verdict := V false false false true.
Definition ok_verdict (agree prop : bool) : verdict := V agree prop false false.
