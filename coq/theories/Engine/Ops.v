(* Stateless operators (src/collection.rs, src/node.rs: DynOp). Definitions only. *)
From Coq Require Import List ZArith Bool Arith.
From IB Require Import Engine.Val.
Import ListNotations.

(* DynOp: apply + the four planner capability hints (defaults in node.rs: false,false,false,10) *)
Record dynop := {
  op_in : tag;                                  (* Vec<I> the operator downcasts to *)
  op_out : tag;
  op_fn : list val -> option (list val);        (* body of apply after the downcast;
                                                   None = it panics (apply cannot return an error) *)
  op_kp : bool;                                 (* key_preserving *)
  op_vo : bool;                                 (* value_only *)
  op_rs : bool;                                 (* reorder_safe_with_value_only *)
  op_cost : nat;                                (* cost_hint *)
  op_uid : nat                                  (* identity of the operator object (Arc), used
                                                   only to compare chains structurally *)
}.

(* DynOp::apply: `*input.downcast::<Vec<I>>().expect(..)` then the body *)
Definition apply_op (o : dynop) (p : part) : outcome part :=
  if Nat.eqb (fst p) (op_in o)
  then match op_fn o (snd p) with Some l => Ok (op_out o, l) | None => Panic end
  else Panic.

(* `ops.iter().fold(p, |acc, op| op.apply(acc))` *)
Fixpoint apply_ops (ops : list dynop) (p : part) : outcome part :=
  match ops with
  | [] => Ok p
  | o :: r => obind (apply_op o p) (apply_ops r)
  end.

Definition mk_op i o fn kp vo rs cost uid : dynop :=
  {| op_in := i; op_out := o; op_fn := fn; op_kp := kp; op_vo := vo; op_rs := rs;
     op_cost := cost; op_uid := uid |}.

(* MapOp / FilterOp / FlatMapOp: default hints *)
Definition op_map (i o : tag) (f : val -> val) (uid : nat) : dynop :=
  mk_op i o (fun l => Some (map f l)) false false false 10 uid.
Definition op_filter (i : tag) (p : val -> bool) (uid : nat) : dynop :=
  mk_op i i (fun l => Some (filter p l)) false false false 10 uid.
Definition op_flat_map (i o : tag) (g : val -> list val) (uid : nat) : dynop :=
  mk_op i o (fun l => Some (flat_map g l)) false false false 10 uid.
(* MapValuesOp: kp, vo, rs, cost 3 ; FilterValuesOp: kp, vo, rs, cost 1 *)
Definition op_map_values (i o : tag) (f : val -> val) (uid : nat) : dynop :=
  mk_op i o (fun l => Some (map (on_snd f) l)) true true true 3 uid.
Definition op_filter_values (i : tag) (p : val -> bool) (uid : nat) : dynop :=
  mk_op i i (fun l => Some (filter (fun kv => p (vsnd kv)) l)) true true true 1 uid.

(* slice::chunks(n), n >= 1 *)
Fixpoint chunks_fuel (fuel n : nat) (l : list val) : list (list val) :=
  match fuel with
  | O => []
  | S fuel' =>
      match l with
      | [] => []
      | _ => firstn n l :: chunks_fuel fuel' n (skipn n l)
      end
  end.
Definition chunks (n : nat) (l : list val) : list (list val) := chunks_fuel (length l) n l.

(* BatchMapOp: batch_size.max(1); out.append(f(chunk)) for chunk in v.chunks(batch) ; default hints *)
Definition op_batch_map (i o : tag) (n : nat) (g : list val -> list val) (uid : nat) : dynop :=
  mk_op i o (fun l => Some (concat (map g (chunks (Nat.max n 1) l)))) false false false 10 uid.

(* BatchMapValuesOp: per chunk, f(values) must have the chunk's length (assert_eq! => Panic),
   outputs are re-paired with the keys in order; kp, vo, rs, cost 2 *)
Definition rekey (chunk : list val) (outs : list val) : list val :=
  map (fun ko => VPair (vfst (fst ko)) (snd ko)) (combine chunk outs).
Fixpoint batch_values_chunks (g : list val -> list val) (cs : list (list val))
  : option (list val) :=
  match cs with
  | [] => Some []
  | c :: r =>
      let produced := g (map vsnd c) in
      if Nat.eqb (length produced) (length c)
      then match batch_values_chunks g r with
           | Some rest => Some (rekey c produced ++ rest)
           | None => None
           end
      else None
  end.
Definition op_batch_map_values (i o : tag) (n : nat) (g : list val -> list val) (uid : nat)
  : dynop :=
  mk_op i o (fun l => batch_values_chunks g (chunks (Nat.max n 1) l)) true true true 2 uid.

(* a user-defined DynOp (apply_transform / extensions): any body, any hints *)
Definition op_custom := mk_op.
