(* The sorting collectors (src/helpers/collect_sorted.rs): collect_seq_sorted / collect_par_sorted
   = the plain collect followed by `Vec::sort` (total order of the element type),
   collect_par_sorted_by_key = collect_par followed by the STABLE `sort_by(|a, b| a.0.cmp(&b.0))`.
   Definitions only.  The model sorts by stable insertion; Proofs/EngineSorted.v shows that ANY
   stable sort returns the same list, so the algorithm behind `slice::sort_by` does not matter. *)
From Coq Require Import List ZArith Bool.
From IB Require Import Engine.Val Engine.Lang.
Import ListNotations.

(* x goes in front of the first element that is not smaller: equal elements stay behind it *)
Fixpoint sinsert (le : val -> val -> bool) (x : val) (l : list val) : list val :=
  match l with
  | [] => [x]
  | y :: r => if le x y then x :: l else y :: sinsert le x r
  end.
(* elements are inserted right to left, so an earlier element ends up in front of a later equal one *)
Fixpoint ssort (le : val -> val -> bool) (l : list val) : list val :=
  match l with
  | [] => []
  | x :: r => sinsert le x (ssort le r)
  end.

(* the key of a (K, V) row *)
Definition row_key (v : val) : val := match v with VPair k _ => k | _ => v end.
Definition key_leb (a b : val) : bool := val_leb (row_key a) (row_key b).

Definition sort_rows (rows : list val) : list val := ssort val_leb rows.
Definition sort_rows_by_key (rows : list val) : list val := ssort key_leb rows.

(* which collector: 0 = collect_seq_sorted, 1 = collect_par_sorted, 2 = collect_par_sorted_by_key *)
Definition sorted_collect (which : nat) (rows : list val) : list val :=
  match which with 2%nat => sort_rows_by_key rows | _ => sort_rows rows end.
