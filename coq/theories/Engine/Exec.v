(* The two engines of src/runner.rs, transcribed arm by arm. Definitions only.
   `sh` = order oracle for HashMap iteration (see Nodes.v). A site identifies one map of a run:
   sites count the BARRIER nodes met so far (Source / Stateless / Materialized nodes do not count,
   so fusing or dropping such nodes does not renumber anything); the left side of the join with
   site i uses sites 1000*(i+1)+j, the right side 2000*(i+1)+j. *)
From Coq Require Import List ZArith Bool Arith.
From IB Require Import Engine.Val Engine.Ops Engine.AMap Engine.Nodes Combiners.Lawful.
Import ListNotations.

Section Exec.
  Variable sh : nat -> list val -> list val.

  (* a barrier run on a list of partitions (sequential engine: a single partition).
     Every closure downcasts its input first: wrong tag => Panic (expect). *)
  Definition check_tags (t : tag) (ps : list part) : bool :=
    forallb (fun p => Nat.eqb (fst p) t) ps.

  Definition run_gbk (site : nat) (tin tout : tag) (ps : list part) : outcome part :=
    if check_tags tin ps
    then Ok (tout, gbk_merge sh site (map (fun p => gbk_local (snd p)) ps))
    else Panic.

  Definition run_combine_values (site : nat) (c : vcomb) (tpairs tgroups tout : tag)
             (has_lg : bool) (ps : list part) : outcome part :=
    (* `local_groups.map_or(local_pairs, |lg| lg)` *)
    if has_lg
    then if check_tags tgroups ps
         then Ok (tout, cv_merge sh (vc_A c) (vc_c c) site
                                 (map (fun p => cv_local_groups (vc_A c) (vc_c c) (snd p)) ps))
         else Panic
    else if check_tags tpairs ps
         then Ok (tout, cv_merge sh (vc_A c) (vc_c c) site
                                 (map (fun p => cv_local_pairs (vc_A c) (vc_c c) (snd p)) ps))
         else Panic.

  (* multi-round fan-in of exec_par: f = fanout.unwrap_or(MAX).max(2) ; None = one merge *)
  Section Rounds.
    Variable A : Type.
    Variable c : combiner val A val.

    Fixpoint group_by (fuel f : nat) (accs : list A) : list (list A) :=
      match fuel with
      | O => []
      | S fuel' => match accs with
                   | [] => []
                   | _ => firstn f accs :: group_by fuel' f (skipn f accs)
                   end
      end.

    Fixpoint merge_rounds (fuel : nat) (f : option nat) (accs : list A) : outcome (list A) :=
      match fuel with
      | O => Diverge
      | S fuel' =>
          if (length accs <=? 1)%nat then Ok accs
          else match f with
               | None => Ok [cg_merge A c accs]
               | Some f0 =>
                   let f1 := Nat.max f0 2 in
                   merge_rounds fuel' f
                                (map (cg_merge A c) (group_by (length accs) f1 accs))
               end
      end.

    (* `accs.pop().unwrap_or_else(|| merge(vec![]))` then finish *)
    Definition finish_rounds (accs : list A) : list val :=
      match rev accs with
      | a :: _ => cg_finish A c a
      | [] => cg_finish A c (cg_merge A c [])
      end.
  End Rounds.

  Definition run_combine_global_par (c : vcomb) (lifted : bool) (tin tout : tag)
             (fanout : option nat) (ps : list part) : outcome part :=
    if check_tags tin ps then
      let accs := map (fun p => cg_local (vc_A c) (vc_c c) lifted (snd p)) ps in
      (* fuel: the number of accumulators is a bound on the number of rounds *)
      obind (merge_rounds (vc_A c) (vc_c c) (S (length accs)) fanout accs)
            (fun accs' => Ok (tout, finish_rounds (vc_A c) (vc_c c) accs'))
    else Panic.

  (* sequential engines: local on the single buffer, merge(vec![mid]), finish *)
  Definition run_combine_global_seq (c : vcomb) (lifted : bool) (tin tout : tag) (p : part)
    : outcome part :=
    if Nat.eqb (fst p) tin
    then Ok (tout, cg_finish (vc_A c) (vc_c c)
                             (cg_merge (vc_A c) (vc_c c) [cg_local (vc_A c) (vc_c c) lifted (snd p)]))
    else Panic.

  Definition next_site (i : nat) (b : bnode) : nat :=
    match b with
    | BSource _ | BStateless _ | BMaterialized _ _ => i
    | BGroupByKey _ _ | BCombineValues _ _ _ _ _ | BCombineGlobal _ _ _ _ _ => S i
    end.

  (* `buf.take().unwrap()` *)
  Definition take (buf : option part) : outcome part :=
    match buf with Some p => Ok p | None => Panic end.

  (* ---------------- sequential engine ---------------- *)

  (* one basic node on the single buffer; `in_sub` selects run_subplan_seq's Materialized arm *)
  Definition seq_bnode (site : nat) (term : tag) (in_sub : bool) (b : bnode) (buf : option part)
    : outcome part :=
    match b with
    | BSource s => Ok (s_tag s, s_all s)
    | BStateless ops => obind (take buf) (apply_ops ops)
    | BGroupByKey tin tout => obind (take buf) (fun p => run_gbk site tin tout [p])
    | BCombineValues c tp tg tout lg =>
        obind (take buf) (fun p => run_combine_values site c tp tg tout lg [p])
    | BCombineGlobal c lifted tin tout _ =>
        obind (take buf) (run_combine_global_seq c lifted tin tout)
    | BMaterialized t payload =>
        if in_sub
        then (* `Box::new(p) as Partition` boxes the Arc itself: no later downcast to a Vec can
                succeed; tag 0 is reserved for "not a Vec" *)
             Ok (0%nat, payload)
        else if Nat.eqb t term then Ok (t, payload) else Err E_TERMINAL_MISMATCH
    end.

  Fixpoint seq_sub (site : nat) (chain : list snode) (buf : option part) : outcome (option part) :=
    match chain with
    | [] => Ok buf
    | SNestedCoGroup :: _ => Err E_NESTED_COGROUP
    | SB b :: r =>
        obind (seq_bnode site 0%nat true b buf) (fun p => seq_sub (next_site site b) r (Some p))
    end.
  (* run_subplan_seq: `Ok(vec![curr.unwrap()])` *)
  Definition run_subplan_seq (site : nat) (chain : list snode) : outcome part :=
    obind (seq_sub site chain None) take.

  Definition run_cogroup (site : nat) (kind : join_kind) (tl tr tout : tag)
             (lparts rparts : list part) : outcome part :=
    (* one partition: used as is; several: coalesce_* downcasts each to the side's row type;
       exec downcasts both sides *)
    let side (t : tag) (ps : list part) : outcome (list val) :=
      if check_tags t ps then Ok (concat (map snd ps)) else Panic in
    obind (side tl lparts) (fun l =>
    obind (side tr rparts) (fun r => Ok (tout, join_exec sh kind site l r))).

  Fixpoint seq_main (i : nat) (term : tag) (chain : list node) (buf : option part)
    : outcome (option part) :=
    match chain with
    | [] => Ok buf
    | NB b :: r =>
        obind (seq_bnode i term false b buf) (fun p => seq_main (next_site i b) term r (Some p))
    | NCoGroup lc rc kind tl tr tout :: r =>
        obind (run_subplan_seq (1000 * S i) lc) (fun lp =>
        obind (run_subplan_seq (2000 * S i) rc) (fun rp =>
        obind (run_cogroup i kind tl tr tout [lp] [rp]) (fun p =>
        seq_main (S i) term r (Some p))))
    end.

  (* exec_seq::<T>: `term` is the tag of Vec<T> *)
  Definition exec_seq (term : tag) (chain : list node) : outcome (list val) :=
    obind (seq_main 0 term chain None) (fun buf =>
    obind (take buf) (fun p =>
    if Nat.eqb (fst p) term then Ok (snd p) else Err E_TERMINAL_MISMATCH)).

  (* ---------------- parallel engine ---------------- *)

  (* `curr.into_par_iter().map(|p| ops.iter().fold(p, apply)).collect()`: rayon's indexed
     collect keeps partition order; a panic in any partition is a panic of the run *)
  Definition par_stateless (ops : list dynop) (curr : list part) : outcome (list part) :=
    oall (apply_ops ops) curr.

  Definition clamp_parts (partitions len : nat) : nat :=
    Nat.min (Nat.max partitions 1) (Nat.max len 1).

  Definition source_parts (s : source) (partitions : nat) : list part :=
    map (fun l => (s_tag s, l)) (s_split s (clamp_parts partitions (s_len s))).

  (* one basic node of either loop (outer or run_subplan_par); consecutive Stateless nodes are
     merged at run time, which is the same as running them one after the other *)
  Definition par_bnode (site : nat) (b : bnode) (curr : list part) : outcome (list part) :=
    match b with
    | BStateless ops => par_stateless ops curr
    | BGroupByKey tin tout => omap_out (fun p => [p]) (run_gbk site tin tout curr)
    | BCombineValues c tp tg tout lg =>
        omap_out (fun p => [p]) (run_combine_values site c tp tg tout lg curr)
    | BCombineGlobal c lifted tin tout fanout =>
        omap_out (fun p => [p]) (run_combine_global_par c lifted tin tout fanout curr)
    | BSource _ | BMaterialized _ _ => Err E_EXTRA_SOURCE
    end.

  Fixpoint par_sub_rest (site : nat) (chain : list snode) (curr : list part)
    : outcome (list part) :=
    match chain with
    | [] => Ok curr
    | SNestedCoGroup :: _ => Err E_NESTED_COGROUP
    | SB b :: r => obind (par_bnode site b curr) (par_sub_rest (next_site site b) r)
    end.
  Definition run_subplan_par (site : nat) (chain : list snode) (partitions : nat)
    : outcome (list part) :=
    match chain with
    | [] => Panic                      (* `&chain[0]` on an empty chain *)
    | SB (BSource s) :: rest => par_sub_rest site rest (source_parts s partitions)
    | _ => Err E_NO_SOURCE
    end.

  Fixpoint par_main (i : nat) (partitions : nat) (chain : list node) (curr : list part)
    : outcome (list part) :=
    match chain with
    | [] => Ok curr
    | NB b :: r => obind (par_bnode i b curr) (par_main (next_site i b) partitions r)
    | NCoGroup lc rc kind tl tr tout :: r =>
        obind (run_subplan_par (1000 * S i) lc partitions) (fun lps =>
        obind (run_subplan_par (2000 * S i) rc partitions) (fun rps =>
        obind (run_cogroup i kind tl tr tout lps rps) (fun p =>
        par_main (S i) partitions r [p])))
    end.

  (* terminal collection: every remaining partition is downcast to Vec<T> and concatenated *)
  Definition collect_parts (term : tag) (curr : list part) : outcome (list val) :=
    if check_tags term curr then Ok (concat (map snd curr)) else Err E_TERMINAL_MISMATCH.

  Definition exec_par (term : tag) (chain : list node) (partitions : nat) : outcome (list val) :=
    match chain with
    | [] => Panic                      (* `&chain[0]` on an empty chain *)
    | NB (BSource s) :: rest =>
        obind (par_main 0 partitions rest (source_parts s partitions)) (collect_parts term)
    | _ => Err E_NO_SOURCE
    end.
End Exec.
