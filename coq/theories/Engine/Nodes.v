(* Plan nodes (src/node.rs) and the closures the public builders put into them
   (src/helpers/{keyed,combine,combine_global,joins}.rs). Definitions only. *)
From Coq Require Import List ZArith Bool Arith.
From IB Require Import Engine.Val Engine.Ops Engine.AMap Combiners.Lawful.
Import ListNotations.

(* ---- sources (type_token.rs: VecOps) ---- *)
Record source := {
  s_tag : tag;
  s_len : nat;                          (* VecOps::len(..).unwrap_or(0): what the runner clamps with *)
  s_hint : option nat;                  (* VecOps::len as the planner's estimate_source_len sees it *)
  s_split : nat -> list (list val);     (* VecOps::split(n) *)
  s_all : list val                      (* VecOps::clone_any *)
}.

(* VecOpsImpl::split: one chunk if n <= 1 or len <= 1, else chunks(ceil(len / n)) *)
Definition div_ceil (a b : nat) : nat := (a + b - 1) / b.
Definition vec_split (data : list val) (n : nat) : list (list val) :=
  if (n <=? 1)%nat || (length data <=? 1)%nat then [data]
  else chunks (div_ceil (length data) n) data.
Definition vec_source (t : tag) (data : list val) : source :=
  {| s_tag := t; s_len := length data; s_hint := Some (length data); s_split := vec_split data;
     s_all := data |}.
(* streaming sources (io/jsonl.rs JsonlVecOps etc.): split ignores n and yields one partition per
   shard; len is the number of LINES (may exceed the number of records) *)
Definition sharded_source (t : tag) (shards : list (list val)) (total_len : nat) : source :=
  {| s_tag := t; s_len := total_len; s_hint := Some total_len; s_split := fun _ => shards;
     s_all := concat shards |}.

(* a user-written VecOps (from_custom_source) whose `len` answers None ("size unknown") but which
   splits and clones like a Vec: the runner then uses `unwrap_or(0)` for the length *)
Definition nolen_source (t : tag) (data : list val) : source :=
  {| s_tag := t; s_len := 0; s_hint := None; s_split := vec_split data; s_all := data |}.

(* ---- a combiner as stored in a node: accumulator type is existential ---- *)
Record vcomb := { vc_A : Type; vc_c : combiner val vc_A val }.

Inductive join_kind := JInner | JLeft | JRight | JFull.

(* nodes that may appear anywhere *)
Inductive bnode :=
| BSource (s : source)
| BStateless (ops : list dynop)
| BGroupByKey (tin tout : tag)
| BCombineValues (c : vcomb) (tpairs tgroups tout : tag) (has_local_groups : bool)
| BCombineGlobal (c : vcomb) (lifted : bool) (tin tout : tag) (fanout : option nat)
| BMaterialized (t : tag) (payload : list val).

(* a join side, captured by chain_from at construction time (unoptimised); a CoGroup inside a
   side only ever produces the "nested CoGroup" error, so its content is irrelevant *)
Inductive snode := SB (b : bnode) | SNestedCoGroup.

Inductive node :=
| NB (b : bnode)
| NCoGroup (l r : list snode) (kind : join_kind) (tl tr tout : tag).

(* ---- barrier closures ---- *)
Section Closures.
  (* order oracle for map iteration; `site` distinguishes the maps of one run *)
  Variable sh : nat -> list val -> list val.

  Definition vmap (X : Type) := amap val X.

  (* keyed.rs group_by_key: local *)
  Definition gbk_local (rows : list val) : vmap (list val) :=
    fold_left (fun m kv => aupd val_eqb (vfst kv) [] (fun l => l ++ [vsnd kv]) m) rows [].
  (* keyed.rs group_by_key: merge (acc.entry(k).or_default().extend(vs)) + into_iter().collect() *)
  Definition gbk_merge_maps (parts : list (vmap (list val))) : vmap (list val) :=
    fold_left (fun acc m =>
                 fold_left (fun acc kvs => aupd val_eqb (fst kvs) [] (fun l => l ++ snd kvs) acc)
                           m acc) parts [].
  Definition gbk_merge (site : nat) (parts : list (vmap (list val))) : list val :=
    sh site (map (fun kvs => VPair (fst kvs) (VList (snd kvs))) (gbk_merge_maps parts)).

  Section Comb.
    Variable A : Type.
    Variable c : combiner val A val.

    (* combine.rs local (pairs): comb.add_input(map.entry(k).or_insert_with(create), v) *)
    Definition cv_local_pairs (rows : list val) : vmap A :=
      fold_left (fun m kv => aupd val_eqb (vfst kv) (c_create c)
                                  (fun a => c_add c a (vsnd kv)) m) rows [].
    (* combine.rs lifted local: comb.merge(map.entry(k).or_insert_with(create), build(vs)) *)
    Definition cv_local_groups (rows : list val) : vmap A :=
      fold_left (fun m kvs => aupd val_eqb (vfst kvs) (c_create c)
                                   (fun a => c_merge c a (c_build c (vlist (vsnd kvs)))) m)
                rows [].
    (* combine.rs merge: comb.merge(accs.entry(k).or_insert_with(create), a); finish per key *)
    Definition cv_merge_maps (parts : list (vmap A)) : vmap A :=
      fold_left (fun acc m =>
                   fold_left (fun acc ka => aupd val_eqb (fst ka) (c_create c)
                                                 (fun a => c_merge c a (snd ka)) acc)
                             m acc) parts [].
    Definition cv_merge (site : nat) (parts : list (vmap A)) : list val :=
      sh site (map (fun ka => VPair (fst ka) (c_finish c (snd ka))) (cv_merge_maps parts)).

    (* combine_global.rs *)
    Definition cg_local (lifted : bool) (rows : list val) : A :=
      if lifted then c_build c rows else fold_left (c_add c) rows (c_create c).
    Definition cg_merge (accs : list A) : A :=
      match accs with
      | [] => c_create c
      | a :: r => fold_left (c_merge c) r a
      end.
    Definition cg_finish (a : A) : list val := [c_finish c a].
  End Comb.

  (* joins.rs exec closures: two hash maps, then nested loops over a map's keys *)
  Definition pairs_of (k : val) (vs ws : list val) (mk : val -> val -> val) : list val :=
    flat_map (fun v => map (fun w => VPair k (mk v w)) ws) vs.

  Definition join_exec (kind : join_kind) (site : nat) (lrows rrows : list val) : list val :=
    let lm := gbk_local lrows in
    let rm := gbk_local rrows in
    match kind with
    | JInner =>
        flat_map (fun k =>
                    match aget val_eqb k lm, aget val_eqb k rm with
                    | Some vs, Some ws => pairs_of k vs ws (fun v w => VPair v w)
                    | _, _ => []
                    end) (sh site (akeys lm))
    | JLeft =>
        flat_map (fun k =>
                    match aget val_eqb k lm, aget val_eqb k rm with
                    | Some vs, Some ws => pairs_of k vs ws (fun v w => VPair v (VSome w))
                    | Some vs, None => map (fun v => VPair k (VPair v VNone)) vs
                    | None, _ => []
                    end) (sh site (akeys lm))
    | JRight =>
        (* outer loop over the right map, inner `for w in &ws { for v in vs` *)
        flat_map (fun k =>
                    match aget val_eqb k lm, aget val_eqb k rm with
                    | Some vs, Some ws =>
                        flat_map (fun w => map (fun v => VPair k (VPair (VSome v) w)) vs) ws
                    | None, Some ws => map (fun w => VPair k (VPair VNone w)) ws
                    | _, None => []
                    end) (sh site (akeys rm))
    | JFull =>
        let keys := akeys lm ++ filter (fun k => match aget val_eqb k lm with
                                                 | Some _ => false | None => true end)
                                       (akeys rm) in
        flat_map (fun k =>
                    match aget val_eqb k lm, aget val_eqb k rm with
                    | Some vs, Some ws => pairs_of k vs ws (fun v w => VPair (VSome v) (VSome w))
                    | Some vs, None => map (fun v => VPair k (VPair (VSome v) VNone)) vs
                    | None, Some ws => map (fun w => VPair k (VPair VNone (VSome w))) ws
                    | None, None => []
                    end) (sh site keys)
    end.
End Closures.
