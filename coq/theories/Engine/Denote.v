(* Reference semantics: an independent list interpretation of a program, step by step, in the
   order the user wrote the steps. No partitions, no plan, no maps: only lists. Definitions only.
   Barrier steps are defined up to the order of keys (first-occurrence order is chosen here; every
   statement about it is up to Permutation). *)
From Coq Require Import List ZArith Bool Arith.
From IB Require Import Engine.Val Engine.Ops Engine.Nodes Engine.Lang Combiners.Lawful.
Import ListNotations.

(* distinct keys of a list of rows, in order of first occurrence *)
Fixpoint nodup_keys (seen : list val) (rows : list val) : list val :=
  match rows with
  | [] => []
  | r :: rest =>
      let k := vfst r in
      if existsb (val_eqb k) seen then nodup_keys seen rest else k :: nodup_keys (k :: seen) rest
  end.
Definition keys_of (rows : list val) : list val := nodup_keys [] rows.
(* the values carrying key k, in input order *)
Definition values_of (k : val) (rows : list val) : list val :=
  map vsnd (filter (fun r => val_eqb (vfst r) k) rows).

Definition d_group_by_key (rows : list val) : list val :=
  map (fun k => VPair k (VList (values_of k rows))) (keys_of rows).

Definition fold_c (c : vcomb) (vs : list val) : val :=
  c_finish (vc_c c) (fold_left (c_add (vc_c c)) vs (c_create (vc_c c))).

Definition d_combine_values (c : vcomb) (rows : list val) : list val :=
  map (fun k => VPair k (fold_c c (values_of k rows))) (keys_of rows).
(* on grouped input: a key's values are the concatenation of all its groups *)
Definition d_combine_values_grouped (c : vcomb) (groups : list val) : list val :=
  map (fun k => VPair k (fold_c c (concat (map vlist (values_of k groups))))) (keys_of groups).
Definition d_combine_globally (c : vcomb) (rows : list val) : list val := [fold_c c rows].

(* textbook relational joins as multisets (order: left rows major) *)
Definition d_join (kind : join_kind) (l r : list val) : list val :=
  let matches_l (lr : val) := filter (fun rr => val_eqb (vfst rr) (vfst lr)) r in
  let matches_r (rr : val) := filter (fun lr => val_eqb (vfst lr) (vfst rr)) l in
  let inner (mk : val -> val -> val) :=
    flat_map (fun lr => map (fun rr => VPair (vfst lr) (mk (vsnd lr) (vsnd rr))) (matches_l lr)) l in
  match kind with
  | JInner => inner (fun v w => VPair v w)
  | JLeft =>
      inner (fun v w => VPair v (VSome w))
      ++ map (fun lr => VPair (vfst lr) (VPair (vsnd lr) VNone))
             (filter (fun lr => match matches_l lr with [] => true | _ => false end) l)
  | JRight =>
      inner (fun v w => VPair (VSome v) w)
      ++ map (fun rr => VPair (vfst rr) (VPair VNone (vsnd rr)))
             (filter (fun rr => match matches_r rr with [] => true | _ => false end) r)
  | JFull =>
      inner (fun v w => VPair (VSome v) (VSome w))
      ++ map (fun lr => VPair (vfst lr) (VPair (VSome (vsnd lr)) VNone))
             (filter (fun lr => match matches_l lr with [] => true | _ => false end) l)
      ++ map (fun rr => VPair (vfst rr) (VPair VNone (VSome (vsnd rr))))
             (filter (fun rr => match matches_r rr with [] => true | _ => false end) r)
  end.

Definition d_distinct (rows : list val) : list val := fold_left dset_add rows [].

(* batch maps: the list semantics applies the function to chunks of the WHOLE list; for an
   element-wise function this is `map`, which is what the property is about *)
Definition d_batch (n : nat) (b : bfun) (rows : list val) : list val :=
  concat (map (bf b) (chunks (Nat.max n 1) rows)).
Definition d_batch_values (n : nat) (b : bfun) (rows : list val) : list val :=
  concat (map (fun c => rekey c (bf b (map vsnd c))) (chunks (Nat.max n 1) rows)).

Fixpoint denote_steps (fuel : nat) (steps : list step) (rows : list val) : list val :=
  match fuel with
  | O => rows
  | S fuel' =>
  match steps with
  | [] => rows
  | st :: rest =>
      let rows' :=
        match st with
        | SMap f => map (ef f) rows
        | SFilter p => filter (pf p) rows
        | SFlatMap g => flat_map (gf g) rows
        | SKeyBy f => map (fun x => VPair (ef f x) x) rows
        | SUnkey => rows
        | SMapValues f | SMapValuesW f | SMapValuesBack f => map (on_snd (ef f)) rows
        | SFilterValues p | SFilterValuesW p => filter (fun kv => pf p (vsnd kv)) rows
        | SMapBatches n b => d_batch n b rows
        | SMapValuesBatches n b => d_batch_values n b rows
        | SGroupByKey => d_group_by_key rows
        | SCombineValues c => d_combine_values (comb_of c) rows
        | SCombineValuesLifted c => d_combine_values_grouped (comb_of c) rows
        | SCombineGlobally c _ _ => d_combine_globally (comb_of c) rows
        | SDistinct => d_distinct rows
        | SDistinctPerKey =>
            flat_map (fun k => map (fun v => VPair k v) (d_distinct (values_of k rows)))
                     (keys_of rows)
        | STopKPerKey k => d_combine_values (comb_of (CTopK k)) rows
        | SGroupValuesToList => rows
        | SJoin kind rsteps rdata => d_join kind rows (denote_steps fuel' rsteps rdata)
        | SMapWithSide side h => map (sf h side) rows
        | SFilterWithSide side q => filter (sp q side) rows
        | SMapWithSideMap pairs dflt => map (side_lookup pairs dflt) rows
        | STryMap f p => map (fun x => if pf p x then VSome (ef f x) else VNone) rows
        | SDebug _ => rows
        | SCustomMap f => map (ef f) rows
        end in
      denote_steps fuel' rest rows'
  end
  end.

Definition denote (s : src) (steps : list step) : list val :=
  denote_steps (steps_size steps) steps (src_data s).

(* a step is element-wise when it is one of the stateless transforms of C02 *)
Definition elementwise_step (st : step) : bool :=
  match st with
  | SMap _ | SFilter _ | SFlatMap _ | SKeyBy _ | SUnkey | SMapValues _ | SFilterValues _
  | SMapValuesW _ | SFilterValuesW _ | SMapValuesBack _ | SGroupValuesToList => true
  | SMapBatches _ (BEach _) | SMapValuesBatches _ (BEach _) | SMapBatches _ BDup => true
  | SMapWithSide _ _ | SFilterWithSide _ _ | SMapWithSideMap _ _ | STryMap _ _ => true
  | SDebug _ | SCustomMap _ => true
  | _ => false
  end.
Definition has_barrier (steps : list step) : bool := negb (forallb elementwise_step steps).

(* element types line up for the steps whose operators are built for a fixed element type
   (what rustc checks); the other steps are generic in the element type *)
Definition step_type (t : tag) (st : step) : option tag :=
  match st with
  | SMap _ | SUnkey => Some TU
  | SFilter _ | SMapBatches _ _ => Some t
  | SFlatMap _ => Some (if Nat.eqb t TKG then TKV else t)
  | SKeyBy _ => Some TKV
  | SMapValues _ | SFilterValues _ | SMapValuesBatches _ _ =>
      if Nat.eqb t TKV then Some TKV else None
  | SMapValuesW _ => if Nat.eqb t TKV then Some TKW else None
  | SFilterValuesW _ => if Nat.eqb t TKW then Some TKW else None
  | SMapValuesBack _ => if Nat.eqb t TKW then Some TKV else None
  | SGroupValuesToList => if Nat.eqb t TKG then Some TKV else None
  | SMapWithSide _ _ | SMapWithSideMap _ _ => Some TU
  | SFilterWithSide _ _ => Some t
  | STryMap _ _ => Some TRES
  | SDebug _ => Some t
  | SCustomMap _ => Some TU
  | _ => None   (* barrier steps: not part of the element-wise fragment *)
  end.
Fixpoint well_typed (t : tag) (steps : list step) : bool :=
  match steps with
  | [] => true
  | st :: r => match step_type t st with Some t' => well_typed t' r | None => false end
  end.
