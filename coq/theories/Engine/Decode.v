(* Decoders from the generic interchange term `J` (Util/J.v) to the step language of
   Engine/Lang.v.  The Rust harness (harness/src/engine.rs) prints exactly this format.
   Definitions only.

   value: int -> VInt | ["p",a,b] -> VPair | ["l",[...]] -> VList | null -> VNone | ["s",v] -> VSome
   efun:  ["id"] ["add",c] ["mul",c] ["mod",m] ["fst"] ["snd"] ["swap"] ["dup"] ["sum"] ["len"]
          ["wrap"] ["keymod",m] ["comp",f,g]
   pfun:  ["true"] ["false"] ["modeq",m,r] ["lt",c] ["not",p]
   gfun:  ["repeat",n] ["upto",m] ["elems"] ["none"]
   bfun:  ["each",f] ["rev"] ["droplast"] ["dup"] ["header"]
   cid:   ["sum"] ["count"] ["min"] ["max"] ["topk",k] ["distinct"] ["summod",m] ["gcd"]
   step:  ["map",f] ["filter",p] ["flat_map",g] ["key_by",f] ["unkey"] ["map_values",f]
          ["filter_values",p] ["map_values_w",f] ["filter_values_w",p] ["map_values_back",f]
          ["map_batches",n,b] ["map_values_batches",n,b] ["group_by_key"] ["combine_values",c]
          ["combine_values_lifted",c] ["combine_globally",c,lifted,fanout|null] ["distinct"]
          ["distinct_per_key"] ["top_k_per_key",k] ["groups_to_list"] ["join",kind,rsteps,rdata]
   src:   ["vec","u"|"kv"|"kg",[values]] | ["sharded","u"|"kv",[[values],...],total_len]
          | ["nolen","u"|"kv"|"kg",[values]]  (custom VecOps whose len() is None) | ["range",shape,n]
          | ["range","u"|"kv",n]  (rows 0..n-1; kv: key = i mod 7)
   Moduli must be positive, counts non-negative (anything else is malformed: the harness answers
   ["invalid"] for such an input and never runs it). *)
From Coq Require Import List ZArith Bool String.
From IB Require Import Util.J Engine.Val Engine.Nodes Engine.Lang.
Import ListNotations.
Open Scope Z_scope.

Definition tag_is (s t : string) : bool := String.eqb s t.

Fixpoint dec_val (j : J) : option val :=
  match j with
  | JI z => Some (VInt z)
  | JN => Some VNone
  | JL [JS t; a; b] =>
      if tag_is t "p" then
        match dec_val a, dec_val b with Some x, Some y => Some (VPair x y) | _, _ => None end
      else None
  | JL [JS t; a] =>
      if tag_is t "s" then match dec_val a with Some x => Some (VSome x) | None => None end
      else if tag_is t "l" then
        match a with
        | JL items =>
            match (fix go (l : list J) : option (list val) :=
                     match l with
                     | [] => Some []
                     | x :: r => match dec_val x, go r with
                                 | Some y, Some ys => Some (y :: ys)
                                 | _, _ => None
                                 end
                     end) items with
            | Some vs => Some (VList vs)
            | None => None
            end
        | _ => None
        end
      else None
  | _ => None
  end.

Definition dec_vals (j : J) : option (list val) :=
  match j with JL l => omap dec_val l | _ => None end.

Definition dec_pos (j : J) : option Z :=
  match j with JI z => if 0 <? z then Some z else None | _ => None end.
Definition dec_nat (j : J) : option nat :=
  match j with JI z => if 0 <=? z then Some (Z.to_nat z) else None | _ => None end.

(* a batch size: every size beyond a million stands for "longer than any partition of a case"
   (the harness sends usize::MAX as 2^61): one chunk per partition *)
Definition dec_batch (j : J) : option nat :=
  match j with
  | JI z => if 0 <=? z then Some (Z.to_nat (Z.min z 1000000)) else None
  | _ => None
  end.

Fixpoint dec_efun (j : J) : option efun :=
  match j with
  | JL [JS t] =>
      if tag_is t "id" then Some FId else if tag_is t "fst" then Some FFst
      else if tag_is t "snd" then Some FSnd else if tag_is t "swap" then Some FSwap
      else if tag_is t "dup" then Some FDup else if tag_is t "sum" then Some FSum
      else if tag_is t "len" then Some FLen else if tag_is t "wrap" then Some FWrap
      else None
  | JL [JS t; JI c] =>
      if tag_is t "add" then Some (FAdd c) else if tag_is t "mul" then Some (FMul c)
      else if tag_is t "mod" then (if 0 <? c then Some (FMod c) else None)
      else if tag_is t "keymod" then (if 0 <? c then Some (FKeyMod c) else None)
      else None
  | JL [JS t; f; g] =>
      if tag_is t "comp" then
        match dec_efun f, dec_efun g with Some a, Some b => Some (FComp a b) | _, _ => None end
      else None
  | _ => None
  end.

Fixpoint dec_pfun (j : J) : option pfun :=
  match j with
  | JL [JS t] =>
      if tag_is t "true" then Some PTrue else if tag_is t "false" then Some PFalse else None
  | JL [JS t; JI m; JI r] =>
      if tag_is t "modeq" then (if 0 <? m then Some (PModEq m r) else None) else None
  | JL [JS t; a] =>
      if tag_is t "lt" then match a with JI c => Some (PLt c) | _ => None end
      else if tag_is t "not" then
        match dec_pfun a with Some p => Some (PNot p) | None => None end
      else None
  | _ => None
  end.

Definition dec_gfun (j : J) : option gfun :=
  match j with
  | JL [JS t] =>
      if tag_is t "elems" then Some GElems else if tag_is t "none" then Some GNone else None
  | JL [JS t; a] =>
      if tag_is t "repeat" then option_map GRepeat (dec_nat a)
      else if tag_is t "upto" then option_map GUpTo (dec_pos a)
      else None
  | _ => None
  end.

Definition dec_bfun (j : J) : option bfun :=
  match j with
  | JL [JS t] =>
      if tag_is t "rev" then Some BRevChunk else if tag_is t "droplast" then Some BDropLast
      else if tag_is t "dup" then Some BDup else if tag_is t "header" then Some BHeader
      else None
  | JL [JS t; f] => if tag_is t "each" then option_map BEach (dec_efun f) else None
  | _ => None
  end.

Definition dec_cid (j : J) : option cid :=
  match j with
  | JL [JS t] =>
      if tag_is t "sum" then Some CSum else if tag_is t "count" then Some CCount
      else if tag_is t "min" then Some CMin else if tag_is t "max" then Some CMax
      else if tag_is t "distinct" then Some CDistinct else if tag_is t "gcd" then Some CGcd
      else None
  | JL [JS t; a] =>
      if tag_is t "topk" then option_map CTopK (dec_nat a)
      else if tag_is t "summod" then option_map CSumMod (dec_pos a)
      else None
  | _ => None
  end.

Definition dec_kind (j : J) : option join_kind :=
  match j with
  | JS t => if tag_is t "inner" then Some JInner else if tag_is t "left" then Some JLeft
            else if tag_is t "right" then Some JRight else if tag_is t "full" then Some JFull
            else None
  | _ => None
  end.

(* A fan-out at least as large as the number of accumulators merges them in one group, whatever
   its exact value (`firstn f l = l` for `length l <= f`); the correspondence never has 10^6
   partitions, so huge fan-outs (the harness sends e.g. 2^40) are clamped instead of being
   expanded into a unary `nat`. *)
Definition dec_fanout (j : J) : option (option nat) :=
  match j with
  | JN => Some None
  | JI z => if 0 <=? z then Some (Some (Z.to_nat (Z.min z 1000000))) else None
  | _ => None
  end.

Definition obind2 {A B C} (a : option A) (b : option B) (f : A -> B -> C) : option C :=
  match a, b with Some x, Some y => Some (f x y) | _, _ => None end.

(* side-input functions: ["addlen"] ["addsum"] ; ["in"] ["notin"] ["lengt", n] *)
Definition dec_sfun (j : J) : option sfun :=
  match j with
  | JL [JS t] => if tag_is t "addlen" then Some SFAddLen
                 else if tag_is t "addsum" then Some SFAddSum else None
  | _ => None
  end.
Definition dec_spred (j : J) : option spred :=
  match j with
  | JL [JS t] => if tag_is t "in" then Some SPIn else if tag_is t "notin" then Some SPNotIn else None
  | JL [JS t; a] => if tag_is t "lengt" then option_map SPLenGt (dec_nat a) else None
  | _ => None
  end.

Fixpoint dec_step (j : J) : option step :=
  match j with
  | JL [JS t] =>
      if tag_is t "unkey" then Some SUnkey
      else if tag_is t "group_by_key" then Some SGroupByKey
      else if tag_is t "distinct" then Some SDistinct
      else if tag_is t "distinct_per_key" then Some SDistinctPerKey
      else if tag_is t "groups_to_list" then Some SGroupValuesToList
      else None
  | JL [JS t; a] =>
      if tag_is t "map" then option_map SMap (dec_efun a)
      else if tag_is t "filter" then option_map SFilter (dec_pfun a)
      else if tag_is t "flat_map" then option_map SFlatMap (dec_gfun a)
      else if tag_is t "key_by" then option_map SKeyBy (dec_efun a)
      else if tag_is t "map_values" then option_map SMapValues (dec_efun a)
      else if tag_is t "filter_values" then option_map SFilterValues (dec_pfun a)
      else if tag_is t "map_values_w" then option_map SMapValuesW (dec_efun a)
      else if tag_is t "filter_values_w" then option_map SFilterValuesW (dec_pfun a)
      else if tag_is t "map_values_back" then option_map SMapValuesBack (dec_efun a)
      else if tag_is t "combine_values" then option_map SCombineValues (dec_cid a)
      else if tag_is t "combine_values_lifted" then option_map SCombineValuesLifted (dec_cid a)
      else if tag_is t "top_k_per_key" then option_map STopKPerKey (dec_nat a)
      else if tag_is t "debug" then option_map SDebug (dec_nat a)
      else if tag_is t "custom_map" then option_map SCustomMap (dec_efun a)
      else None
  | JL [JS t; a; b] =>
      if tag_is t "map_with_side" then obind2 (dec_vals a) (dec_sfun b) SMapWithSide
      else if tag_is t "filter_with_side" then obind2 (dec_vals a) (dec_spred b) SFilterWithSide
      else if tag_is t "map_with_side_map" then obind2 (dec_vals a) (jint b) SMapWithSideMap
      else if tag_is t "try_map" then obind2 (dec_efun a) (dec_pfun b) STryMap
      else if tag_is t "map_batches" then obind2 (dec_batch a) (dec_bfun b) SMapBatches
      else if tag_is t "map_values_batches" then obind2 (dec_batch a) (dec_bfun b) SMapValuesBatches
      else None
  | JL [JS t; a; b; c] =>
      if tag_is t "combine_globally" then
        match dec_cid a, jbool b, dec_fanout c with
        | Some cd, Some l, Some f => Some (SCombineGlobally cd l f)
        | _, _, _ => None
        end
      else if tag_is t "join" then
        match b with
        | JL rs =>
            match dec_kind a,
                  (fix go (l : list J) : option (list step) :=
                     match l with
                     | [] => Some []
                     | x :: r => match dec_step x, go r with
                                 | Some y, Some ys => Some (y :: ys)
                                 | _, _ => None
                                 end
                     end) rs,
                  dec_vals c with
            | Some k, Some rsteps, Some rdata => Some (SJoin k rsteps rdata)
            | _, _, _ => None
            end
        | _ => None
        end
      else None
  | _ => None
  end.

Definition dec_steps (j : J) : option (list step) :=
  match j with JL l => omap dec_step l | _ => None end.

Definition dec_shape (j : J) : option tag :=
  match j with
  | JS t => if tag_is t "u" then Some TU else if tag_is t "kv" then Some TKV
            else if tag_is t "kg" then Some TKG else None
  | _ => None
  end.

(* compact source ["range", shape, n] = SrcVec of the rows 0..n-1: "u": Int i; "kv": (i mod 7, i).
   Built with a Z counter (linear in n). *)
Fixpoint zrange (fuel : nat) (i : Z) : list Z :=
  match fuel with O => [] | S f => i :: zrange f (i + 1) end.
Definition range_rows (t : tag) (n : nat) : list val :=
  if Nat.eqb t TKV then map (fun i => VPair (VInt (i mod 7)) (VInt i)) (zrange n 0)
  else map VInt (zrange n 0).

Definition dec_src (j : J) : option src :=
  match j with
  | JL [JS t; s; d] =>
      if tag_is t "vec" then obind2 (dec_shape s) (dec_vals d) SrcVec
      else if tag_is t "nolen" then obind2 (dec_shape s) (dec_vals d) SrcNoLen
      else if tag_is t "range" then
        match dec_shape s, dec_nat d with
        | Some sh, Some n => if Nat.eqb sh TKG then None else Some (SrcVec sh (range_rows sh n))
        | _, _ => None
        end
      else None
  | JL [JS t; s; JL shards; n] =>
      if tag_is t "sharded" then
        match dec_shape s, omap dec_vals shards, dec_nat n with
        | Some sh, Some ss, Some total =>
            if Nat.eqb sh TKG then None else Some (SrcSharded sh ss total)
        | _, _, _ => None
        end
      else None
  | _ => None
  end.

(* ---- observed outcomes: ["ok",[rows]] | ["err",class] | ["panic"] | ["hang"] ---- *)
Inductive obs := OOk (rows : list val) | OErr (e : nat) | OPanic | OHang.

Definition E_OTHER := 99%nat.
Definition E_FAIL_FAST := 5%nat.           (* collect_fail_fast: "element failed: .." *)
Definition dec_err_class (s : string) : nat :=
  if tag_is s "terminal_mismatch" then E_TERMINAL_MISMATCH
  else if tag_is s "nested_cogroup" then E_NESTED_COGROUP
  else if tag_is s "no_source" then E_NO_SOURCE
  else if tag_is s "extra_source" then E_EXTRA_SOURCE
  else if tag_is s "fail_fast" then E_FAIL_FAST
  else E_OTHER.

Definition dec_obs (j : J) : option obs :=
  match j with
  | JL [JS t] => if tag_is t "panic" then Some OPanic else if tag_is t "hang" then Some OHang
                 else None
  | JL [JS t; a] =>
      if tag_is t "ok" then option_map OOk (dec_vals a)
      else if tag_is t "err" then match a with JS c => Some (OErr (dec_err_class c)) | _ => None end
      else None
  | _ => None
  end.

(* partitions_or_null *)
Definition dec_mode (j : J) : option (option nat) :=
  match j with JN => Some None | _ => option_map Some (dec_nat j) end.
