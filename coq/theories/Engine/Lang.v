(* A closed step language both sides can run: the Rust harness (harness/src/engine.rs) builds
   the REAL typed pipeline for a program through ironbeam's public API, the model compiles the
   same program to a node chain exactly as the builders do (one node per call, see src/helpers),
   and `denote` is the independent list semantics of the program as the user wrote it.
   Definitions only.  The harness mirrors `ef`, `pf`, `gf`, `bf` and the combiner table. *)
From Coq Require Import List ZArith Bool Arith.
From IB Require Import Engine.Val Engine.Ops Engine.AMap Engine.Nodes Engine.Exec Engine.Planner
     Combiners.Lawful.
Import ListNotations.
Open Scope Z_scope.

(* ---------- element functions ---------- *)
Inductive efun :=
| FId | FAdd (c : Z) | FMul (c : Z) | FMod (m : Z)     (* rem_euclid, m > 0 *)
| FFst | FSnd | FSwap | FDup                           (* x -> (x, x) *)
| FSum | FLen                                          (* on lists *)
| FWrap                                                (* x -> [x] *)
| FKeyMod (m : Z)                                      (* x -> (ikey x mod m, x) *)
| FComp (f g : efun).                                  (* g after f *)

Definition zsum (l : list val) : Z :=
  fold_left (fun a v => match v with VInt z => a + z | _ => a end) l 0.
(* an integer out of any value, for keys *)
Fixpoint ikey (v : val) : Z :=
  match v with
  | VInt z => z
  | VPair a _ => ikey a
  | VList l => Z.of_nat (length l)
  | VNone => 0
  | VSome x => ikey x
  end.

Fixpoint ef (f : efun) (v : val) : val :=
  match f with
  | FId => v
  | FAdd c => match v with VInt z => VInt (z + c) | _ => v end
  | FMul c => match v with VInt z => VInt (z * c) | _ => v end
  | FMod m => match v with VInt z => VInt (z mod m) | _ => v end
  | FFst => vfst v
  | FSnd => vsnd v
  | FSwap => match v with VPair a b => VPair b a | _ => v end
  | FDup => VPair v v
  | FSum => match v with VList l => VInt (zsum l) | _ => v end
  | FLen => match v with VList l => VInt (Z.of_nat (length l)) | _ => v end
  | FWrap => VList [v]
  | FKeyMod m => VPair (VInt (ikey v mod m)) v
  | FComp f g => ef g (ef f v)
  end.

Inductive pfun := PTrue | PFalse | PModEq (m r : Z) | PLt (c : Z) | PNot (p : pfun).
Fixpoint pf (p : pfun) (v : val) : bool :=
  match p with
  | PTrue => true
  | PFalse => false
  | PModEq m r => ikey v mod m =? r
  | PLt c => ikey v <? c
  | PNot q => negb (pf q v)
  end.

(* expanders for flat_map *)
Inductive gfun := GRepeat (n : nat) | GUpTo (m : Z)   (* x -> [0 .. ikey x mod m) *)
                | GElems                               (* [a;b;..] -> a, b, .. ; (k,[a;..]) -> (k,a), .. *)
                | GNone.
Definition gf (g : gfun) (v : val) : list val :=
  match g with
  | GRepeat n => repeat v n
  | GUpTo m => map (fun i => VInt (Z.of_nat i)) (seq 0 (Z.to_nat (ikey v mod m)))
  | GElems => match v with
              | VList l => l
              | VPair k (VList l) => map (fun x => VPair k x) l
              | _ => [v]
              end
  | GNone => []
  end.

(* batch functions: element-wise, or deliberately partition-sensitive / length-changing ones *)
Inductive bfun := BEach (f : efun) | BRevChunk | BDropLast
                | BDup                                 (* every element twice: expands, element-wise *)
                | BHeader.                             (* prepends Int(-1) to every chunk: expands *)
Definition bf (b : bfun) (l : list val) : list val :=
  match b with
  | BEach f => map (ef f) l
  | BRevChunk => rev l
  | BDropLast => removelast l
  | BDup => flat_map (fun x => [x; x]) l
  | BHeader => VInt (-1) :: l
  end.

(* side inputs (helpers/side_inputs.rs): the side value is a constant captured by the closure *)
Inductive sfun := SFAddLen | SFAddSum.                 (* x -> x + |side| ; x -> x + sum(side) *)
Definition sf (h : sfun) (side : list val) (v : val) : val :=
  match h, v with
  | SFAddLen, VInt z => VInt (z + Z.of_nat (length side))
  | SFAddSum, VInt z => VInt (z + zsum side)
  | _, _ => v
  end.
Inductive spred := SPIn | SPNotIn | SPLenGt (n : nat). (* allow-list ; block-list ; |side| > n *)
Definition sp (q : spred) (side : list val) (v : val) : bool :=
  match q with
  | SPIn => existsb (val_eqb v) side
  | SPNotIn => negb (existsb (val_eqb v) side)
  | SPLenGt n => Nat.ltb n (length side)
  end.
(* side_hashmap(pairs): a HashMap built by collect(): for a repeated key the LAST pair wins *)
Definition side_lookup (pairs : list val) (dflt : Z) (v : val) : val :=
  fold_left (fun acc kv => if val_eqb (vfst kv) v then vsnd kv else acc) pairs (VInt dflt).

(* ---------- total order on values (derived Ord of the harness's `Val`) ---------- *)
Definition vrank (v : val) : nat :=
  match v with VInt _ => 0 | VPair _ _ => 1 | VList _ => 2 | VNone => 3 | VSome _ => 4 end%nat.
Fixpoint val_cmp (a b : val) : comparison :=
  match a, b with
  | VInt x, VInt y => Z.compare x y
  | VPair a1 a2, VPair b1 b2 =>
      match val_cmp a1 b1 with Eq => val_cmp a2 b2 | c => c end
  | VList l1, VList l2 =>
      (fix go (l1 l2 : list val) : comparison :=
         match l1, l2 with
         | [], [] => Eq
         | [], _ :: _ => Lt
         | _ :: _, [] => Gt
         | x :: r1, y :: r2 => match val_cmp x y with Eq => go r1 r2 | c => c end
         end) l1 l2
  | VNone, VNone => Eq
  | VSome x, VSome y => val_cmp x y
  | _, _ => Nat.compare (vrank a) (vrank b)
  end.
Definition val_leb (a b : val) : bool := match val_cmp a b with Gt => false | _ => true end.
Fixpoint vinsert (x : val) (l : list val) : list val :=
  match l with [] => [x] | y :: r => if val_leb x y then x :: l else y :: vinsert x r end.
Definition vsort (l : list val) : list val := fold_right vinsert [] l.

(* ---------- combiners available to programs ---------- *)
Inductive cid := CSum | CCount | CMin | CMax | CTopK (k : nat) | CDistinct | CSumMod (m : Z) | CGcd.

Definition vint (v : val) : Z := match v with VInt z => z | _ => 0 end.

Definition comb_sum : combiner val Z val :=
  {| c_create := 0; c_add := fun a v => a + vint v; c_merge := Z.add;
     c_finish := VInt; c_build := fun vs => fold_left (fun a v => a + vint v) vs 0 |}.
Definition comb_count : combiner val Z val :=
  {| c_create := 0; c_add := fun a _ => a + 1; c_merge := Z.add;
     c_finish := VInt; c_build := fun vs => Z.of_nat (length vs) |}.
Definition comb_summod (m : Z) : combiner val Z val :=
  {| c_create := 0; c_add := fun a v => (a + vint v) mod m; c_merge := fun a b => (a + b) mod m;
     c_finish := VInt; c_build := fun vs => fold_left (fun a v => (a + vint v) mod m) vs 0 |}.
Definition comb_gcd : combiner val Z val :=
  {| c_create := 0; c_add := fun a v => Z.gcd a (vint v); c_merge := Z.gcd;
     c_finish := VInt; c_build := fun vs => fold_left (fun a v => Z.gcd a (vint v)) vs 0 |}.
(* Min / Max: accumulator Option<T>; finish does `expect` on None. The engine's combiner record
   has a total finish: an empty Min/Max yields the sentinel VNone, which the correspondence reads
   as "the run panics" (only reachable for a global combine of an empty input). *)
Definition opt_pick (better : val -> val -> bool) (a : option val) (v : val) : option val :=
  match a with None => Some v | Some x => if better v x then Some v else Some x end.
Definition opt_merge (better : val -> val -> bool) (a b : option val) : option val :=
  match b with None => a | Some y => opt_pick better a y end.
Definition lt_b (a b : val) := match val_cmp a b with Lt => true | _ => false end.
Definition gt_b (a b : val) := match val_cmp a b with Gt => true | _ => false end.
Definition comb_minmax (better : val -> val -> bool) : combiner val (option val) val :=
  {| c_create := None; c_add := opt_pick better; c_merge := opt_merge better;
     c_finish := fun a => match a with Some v => v | None => VNone end;
     c_build := fun vs => fold_left (opt_pick better) vs None |}.
(* TopK k: the accumulator is abstracted to the sorted (descending) list of the at most k largest
   values seen (C06 relates this to the heap implementation) *)
Definition topk_norm (k : nat) (l : list val) : list val := firstn k (rev (vsort l)).
Definition comb_topk (k : nat) : combiner val (list val) val :=
  {| c_create := []; c_add := fun a v => topk_norm k (v :: a);
     c_merge := fun a b => topk_norm k (a ++ b);
     c_finish := VList; c_build := fun vs => topk_norm k vs |}.
(* DistinctSet: accumulator = duplicate-free list (a HashSet); finish order arbitrary *)
Definition dset_add (a : list val) (v : val) : list val :=
  if existsb (val_eqb v) a then a else a ++ [v].
Definition comb_distinct : combiner val (list val) val :=
  {| c_create := []; c_add := dset_add; c_merge := fun a b => fold_left dset_add b a;
     c_finish := VList; c_build := fun vs => fold_left dset_add vs [] |}.

Definition comb_of (c : cid) : vcomb :=
  match c with
  | CSum => {| vc_A := Z; vc_c := comb_sum |}
  | CCount => {| vc_A := Z; vc_c := comb_count |}
  | CMin => {| vc_A := option val; vc_c := comb_minmax lt_b |}
  | CMax => {| vc_A := option val; vc_c := comb_minmax gt_b |}
  | CTopK k => {| vc_A := list val; vc_c := comb_topk k |}
  | CDistinct => {| vc_A := list val; vc_c := comb_distinct |}
  | CSumMod m => {| vc_A := Z; vc_c := comb_summod m |}
  | CGcd => {| vc_A := Z; vc_c := comb_gcd |}
  end.
Definition comb_list_out (c : cid) : bool :=
  match c with CTopK _ | CDistinct => true | _ => false end.

(* ---------- element type tags ---------- *)
Definition TU := 1%nat.      (* Val *)
Definition TKV := 2%nat.     (* (Val, Val) *)
Definition TKG := 3%nat.     (* (Val, Vec<Val>) *)
Definition TJI := 4%nat.     (* (Val, (Val, Val)) *)
Definition TJL := 5%nat.     (* (Val, (Val, Option<Val>)) *)
Definition TJR := 6%nat.     (* (Val, (Option<Val>, Val)) *)
Definition TJF := 7%nat.     (* (Val, (Option<Val>, Option<Val>)) *)
Definition TKW := 8%nat.     (* (Val, Wrapped) : a second value type, to exercise retyping *)
Definition TDUMMY := 9%nat.  (* u8 : the dummy source of a join *)
Definition TL := 10%nat.     (* Vec<Val> as an element (DistinctSet output) *)
Definition TRES := 11%nat.   (* Result<Val, String> : the output of try_map *)

(* ---------- steps: one constructor per public transform ---------- *)
Inductive step :=
| SMap (f : efun)                      (* U -> U *)
| SFilter (p : pfun)                   (* any shape, predicate on the whole element *)
| SFlatMap (g : gfun)                  (* U -> U ; KG -> KV with GElems *)
| SKeyBy (f : efun)                    (* U -> KV : x -> (f x, x) ; a MapOp *)
| SUnkey                               (* KV -> U : (k, v) -> Pair k v ; a MapOp *)
| SMapValues (f : efun)                (* KV -> KV *)
| SFilterValues (p : pfun)             (* KV -> KV *)
| SMapValuesW (f : efun)               (* KV -> KW : value type changes *)
| SFilterValuesW (p : pfun)            (* KW -> KW *)
| SMapValuesBack (f : efun)            (* KW -> KV *)
| SMapBatches (n : nat) (b : bfun)     (* U -> U *)
| SMapValuesBatches (n : nat) (b : bfun)  (* KV -> KV *)
| SGroupByKey                          (* KV -> KG *)
| SCombineValues (c : cid)             (* KV -> KV | KG *)
| SCombineValuesLifted (c : cid)       (* KG -> KV | KG *)
| SCombineGlobally (c : cid) (lifted : bool) (fanout : option nat)   (* U -> U | TL *)
| SDistinct                            (* U -> U : combine_globally(DistinctSet) + flat_map *)
| SDistinctPerKey                      (* KV -> KV : gbk + combine_values_lifted + flat_map *)
| STopKPerKey (k : nat)                (* KV -> KG *)
| SGroupValuesToList                   (* KG -> KV : (k, vs) -> (k, List vs) ; a MapOp *)
| SJoin (kind : join_kind) (rsteps : list step) (rdata : list val)
| SMapWithSide (side : list val) (h : sfun)            (* U -> U : map_with_side *)
| SFilterWithSide (side : list val) (q : spred)        (* any shape : filter_with_side *)
| SMapWithSideMap (pairs : list val) (dflt : Z)        (* U -> U : map_with_side_map, lookup or default *)
| STryMap (f : efun) (p : pfun)                        (* U -> Result : try_map, Ok (f x) when p x, else Err;
                                                          Ok v is VSome v, Err is VNone. Only as the
                                                          LAST step (the harness converts after collecting) *)
| SDebug (k : nat)                                     (* any shape, identity: the debug taps of
                                                          src/testing/debug.rs: 0 debug_inspect,
                                                          1 debug_inspect_with, 2 debug_count,
                                                          3.. debug_sample(k - 3) *)
| SCustomMap (f : efun).                               (* U -> U : apply_transform with a user-written
                                                          DynOp (default capability hints) mapping f *)
                                       (* KV x KV -> KV : join then (k,(v,w)) -> (k, Pair v w) *)

(* the second (right) source of a join is always a from_vec of (Val, Val) rows *)

Definition uid_base := 100%nat.

(* state of the builder while compiling: raw chain so far, current tag, next operator id *)
Record cstate := { cs_chain : list node; cs_tag : tag; cs_uid : nat }.

Definition push_op (s : cstate) (mk : nat -> dynop) (tout : tag) : cstate :=
  {| cs_chain := cs_chain s ++ [NB (BStateless [mk (cs_uid s)])]; cs_tag := tout;
     cs_uid := S (cs_uid s) |}.
Definition push_node (s : cstate) (n : node) (tout : tag) : cstate :=
  {| cs_chain := cs_chain s ++ [n]; cs_tag := tout; cs_uid := cs_uid s |}.

Definition to_snode (n : node) : snode :=
  match n with NB b => SB b | NCoGroup _ _ _ _ _ _ => SNestedCoGroup end.

Definition join_tag (k : join_kind) : tag :=
  match k with JInner => TJI | JLeft => TJL | JRight => TJR | JFull => TJF end.
(* the harness flattens (k,(v,w)) to (k, Pair v w) with a real `.map` right after the join; Option
   sides are already VNone / VSome in the model's join output *)
Definition join_norm (v : val) : val := v.

Definition comb_out_tag (c : cid) : tag := if comb_list_out c then TKG else TKV.

Fixpoint compile_steps (fuel : nat) (steps : list step) (s : cstate) : cstate :=
  match fuel with
  | O => s
  | S fuel' =>
  match steps with
  | [] => s
  | st :: rest =>
      let t := cs_tag s in
      let s' :=
        match st with
        | SMap f => push_op s (op_map t TU (ef f)) TU
        | SFilter p => push_op s (op_filter t (pf p)) t
        | SFlatMap g => let tout := if Nat.eqb t TKG then TKV else t in
                        push_op s (op_flat_map t tout (gf g)) tout
        | SKeyBy f => push_op s (op_map t TKV (fun x => VPair (ef f x) x)) TKV
        | SUnkey => push_op s (op_map t TU (fun x => x)) TU
        | SMapValues f => push_op s (op_map_values TKV TKV (ef f)) TKV
        | SFilterValues p => push_op s (op_filter_values TKV (pf p)) TKV
        | SMapValuesW f => push_op s (op_map_values TKV TKW (ef f)) TKW
        | SFilterValuesW p => push_op s (op_filter_values TKW (pf p)) TKW
        | SMapValuesBack f => push_op s (op_map_values TKW TKV (ef f)) TKV
        | SMapBatches n b => push_op s (op_batch_map t t n (bf b)) t
        | SMapValuesBatches n b => push_op s (op_batch_map_values TKV TKV n (bf b)) TKV
        | SGroupByKey => push_node s (NB (BGroupByKey TKV TKG)) TKG
        | SCombineValues c =>
            push_node s (NB (BCombineValues (comb_of c) TKV TKG (comb_out_tag c) false))
                      (comb_out_tag c)
        | SCombineValuesLifted c =>
            push_node s (NB (BCombineValues (comb_of c) TKV TKG (comb_out_tag c) true))
                      (comb_out_tag c)
        | SCombineGlobally c lifted fanout =>
            let tout := if comb_list_out c then TL else TU in
            push_node s (NB (BCombineGlobal (comb_of c) lifted t tout fanout)) tout
        | SDistinct =>
            let s1 := push_node s (NB (BCombineGlobal (comb_of CDistinct) false t TL None)) TL in
            push_op s1 (op_flat_map TL t vlist) t
        | SDistinctPerKey =>
            let s1 := push_node s (NB (BGroupByKey TKV TKG)) TKG in
            let s2 := push_node s1 (NB (BCombineValues (comb_of CDistinct) TKV TKG TKG true)) TKG in
            push_op s2 (op_flat_map TKG TKV (gf GElems)) TKV
        | STopKPerKey k =>
            push_node s (NB (BCombineValues (comb_of (CTopK k)) TKV TKG TKG false)) TKG
        | SGroupValuesToList => push_op s (op_map TKG TKV (fun x => x)) TKV
        | SJoin kind rsteps rdata =>
            let rsrc := vec_source TKV rdata in
            let rs := compile_steps fuel' rsteps
                        {| cs_chain := [NB (BSource rsrc)]; cs_tag := TKV; cs_uid := cs_uid s + 50 |} in
            let dummy := NB (BSource (vec_source TDUMMY [VInt 0])) in
            let cg := NCoGroup (map to_snode (cs_chain s)) (map to_snode (cs_chain rs)) kind
                               (cs_tag s) (cs_tag rs) (join_tag kind) in
            push_op {| cs_chain := [dummy; cg]; cs_tag := join_tag kind; cs_uid := cs_uid rs |}
                    (op_map (join_tag kind) TKV join_norm) TKV
        | SMapWithSide side h => push_op s (op_map t TU (sf h side)) TU
        | SFilterWithSide side q => push_op s (op_filter t (sp q side)) t
        | SMapWithSideMap pairs dflt => push_op s (op_map t TU (side_lookup pairs dflt)) TU
        | STryMap f p =>
            push_op s (op_map t TRES (fun x => if pf p x then VSome (ef f x) else VNone)) TRES
        | SDebug _ => push_op s (op_map t t (fun x => x)) t
        | SCustomMap f => push_op s (op_map t TU (ef f)) TU
        end in
      compile_steps fuel' rest s'
  end
  end.

(* a source as written by the user *)
Inductive src :=
| SrcVec (t : tag) (data : list val)
| SrcSharded (t : tag) (shards : list (list val)) (total_len : nat)
| SrcNoLen (t : tag) (data : list val).
  (* a user-written VecOps (from_custom_source) whose `len` returns None ("size unknown") but which
     splits and clones like a Vec: the runner then uses `unwrap_or(0)` for the length *)
Definition src_node (s : src) : node :=
  match s with
  | SrcVec t d => NB (BSource (vec_source t d))
  | SrcSharded t sh n => NB (BSource (sharded_source t sh n))
  | SrcNoLen t d => NB (BSource (nolen_source t d))
  end.
Definition src_tag (s : src) : tag :=
  match s with SrcVec t _ => t | SrcSharded t _ _ => t | SrcNoLen t _ => t end.
Definition src_data (s : src) : list val :=
  match s with SrcVec _ d => d | SrcSharded _ sh _ => concat sh | SrcNoLen _ d => d end.

Fixpoint step_size (st : step) : nat :=
  match st with
  | SJoin _ r _ =>
      S ((fix go (l : list step) : nat :=
            match l with [] => O | x :: t => (step_size x + go t)%nat end) r)
  | _ => 1%nat
  end.
Definition steps_size (steps : list step) : nat :=
  S (fold_right (fun st n => (step_size st + n)%nat) O steps).

Definition compile (s : src) (steps : list step) : cstate :=
  compile_steps (steps_size steps) steps
                {| cs_chain := [src_node s]; cs_tag := src_tag s; cs_uid := uid_base |}.

(* what Runner::run_collect executes: the optimised plan of the raw chain *)
Definition plan (s : src) (steps : list step) : list node := optimise (cs_chain (compile s steps)).
Definition term_tag (s : src) (steps : list step) : tag := cs_tag (compile s steps).

Definition id_sh : nat -> list val -> list val := fun _ l => l.
Definition run_seq (s : src) (steps : list step) : outcome (list val) :=
  exec_seq id_sh (term_tag s steps) (plan s steps).
Definition run_par (s : src) (steps : list step) (partitions : nat) : outcome (list val) :=
  exec_par id_sh (term_tag s steps) (plan s steps) partitions.
