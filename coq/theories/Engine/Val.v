(* Shared engine model: values, partition type tags, outcomes.
   Definitions only (proofs in Proofs/Engine*.v). *)
From Coq Require Import List ZArith Bool.
Import ListNotations.
Open Scope Z_scope.

(* One universe of element values. The Rust code is generic in the element type; the harness
   instantiates it with a dynamic `Val` enum of exactly this shape. *)
Inductive val : Type :=
| VInt (z : Z)
| VPair (a b : val)           (* (K, V) rows, join results (K, (V, W)) *)
| VList (l : list val)        (* Vec<V> : groups, TopK / DistinctSet outputs *)
| VNone                       (* Option::None (outer joins) *)
| VSome (v : val).

(* Static element type of a partition as far as `downcast::<Vec<T>>()` can tell types apart.
   Only equality of tags matters: an operator applied to a partition whose tag differs from the
   tag it was built for is the `expect("... input type")` panic. *)
Definition tag := nat.
Definition part : Type := tag * list val.

Inductive outcome (A : Type) : Type :=
| Ok (a : A)
| Err (e : nat)       (* anyhow error; e = class, see below *)
| Panic               (* panic!/expect/unwrap/assert *)
| Diverge.            (* fuel exhausted: the real loop does not terminate *)
Arguments Ok {A}. Arguments Err {A}. Arguments Panic {A}. Arguments Diverge {A}.

(* error classes (the messages in runner.rs) *)
Definition E_TERMINAL_MISMATCH := 1%nat.   (* "terminal type mismatch" *)
Definition E_NESTED_COGROUP := 2%nat.      (* "nested CoGroup not supported in subplan" *)
Definition E_NO_SOURCE := 3%nat.           (* "execution plan / subplan must start with a Source" *)
Definition E_EXTRA_SOURCE := 4%nat.        (* "unexpected additional source/materialized" *)

Definition obind {A B} (o : outcome A) (f : A -> outcome B) : outcome B :=
  match o with Ok a => f a | Err e => Err e | Panic => Panic | Diverge => Diverge end.
Definition omap_out {A B} (f : A -> B) (o : outcome A) : outcome B := obind o (fun a => Ok (f a)).

(* first failure wins, left to right (sequential engine); for the parallel engine any failing
   partition makes the whole run panic, and all failures of one run are the same kind *)
Fixpoint oall {A B} (f : A -> outcome B) (l : list A) : outcome (list B) :=
  match l with
  | [] => Ok []
  | x :: r => obind (f x) (fun y => obind (oall f r) (fun ys => Ok (y :: ys)))
  end.

(* decidable equality on values (keys are values: K: Eq + Hash) *)
Fixpoint val_eqb (a b : val) : bool :=
  match a, b with
  | VInt x, VInt y => Z.eqb x y
  | VPair a1 a2, VPair b1 b2 => val_eqb a1 b1 && val_eqb a2 b2
  | VList l1, VList l2 =>
      (fix go (l1 l2 : list val) : bool :=
         match l1, l2 with
         | [], [] => true
         | x :: r1, y :: r2 => val_eqb x y && go r1 r2
         | _, _ => false
         end) l1 l2
  | VNone, VNone => true
  | VSome x, VSome y => val_eqb x y
  | _, _ => false
  end.

Definition vfst (v : val) : val := match v with VPair a _ => a | _ => v end.
Definition vsnd (v : val) : val := match v with VPair _ b => b | _ => v end.
(* apply f to the value component of a (K, V) row *)
Definition on_snd (f : val -> val) (v : val) : val :=
  match v with VPair k x => VPair k (f x) | _ => v end.
Definition vlist (v : val) : list val := match v with VList l => l | _ => [] end.
