(* HashMap<K, X> as an association list without duplicate keys, in first-insertion order.
   The real map's iteration order is arbitrary; wherever the Rust code iterates a map the engine
   applies an order oracle (`sh`) to the result, and no theorem depends on the order chosen here.
   Generic in the key type (instantiated with `val`). Definitions only. *)
From Coq Require Import List Bool.
Import ListNotations.

Section AMap.
  Variable K : Type.
  Variable keqb : K -> K -> bool.
  Variable X : Type.

  Definition amap := list (K * X).

  (* *map.entry(k).or_insert_with(dflt) = f(old) *)
  Fixpoint aupd (k : K) (dflt : X) (f : X -> X) (m : amap) : amap :=
    match m with
    | [] => [(k, f dflt)]
    | (k', x) :: r => if keqb k' k then (k', f x) :: r else (k', x) :: aupd k dflt f r
    end.

  Fixpoint aget (k : K) (m : amap) : option X :=
    match m with
    | [] => None
    | (k', x) :: r => if keqb k' k then Some x else aget k r
    end.

  Definition akeys (m : amap) : list K := map fst m.
End AMap.

Arguments aupd {K} keqb {X}.
Arguments aget {K} keqb {X}.
Arguments akeys {K X}.
