(* How the runner picks the partition count when the caller gives none
   (planner.rs: suggest_partitions; runner.rs: Runner::default / run_collect).  Definitions only.
   `cpus` stands for num_cpus::get() - a fact about the machine, so it is a parameter. *)
From Coq Require Import List Arith Bool.
From IB Require Import Engine.Val Engine.Nodes Engine.Exec Engine.Lang.
Import ListNotations.

(* usize::clamp(lo, hi) (lo <= hi at the only call site: hw <= 8 * hw) *)
Definition clamp_nat (x lo hi : nat) : nat := Nat.max lo (Nat.min x hi).

(* suggest_partitions: about 64 000 rows per partition, clamped to [hw, 8 hw], hw = max(cpus, 2);
   no length hint (VecOps::len = None), no suggestion *)
Definition suggest_partitions (len_hint : option nat) (cpus : nat) : option nat :=
  match len_hint with
  | None => None
  | Some n => let hw := Nat.max cpus 2 in Some (clamp_nat (div_ceil n (64 * 1000)) hw (hw * 8))
  end.

(* Runner::default(): default_partitions = 2 * num_cpus.max(2) *)
Definition default_partitions (cpus : nat) : nat := 2 * Nat.max cpus 2.

(* run_collect, ExecMode::Parallel: partitions.or(suggested).unwrap_or(default_partitions) *)
Definition choose_parts (requested : option nat) (len_hint : option nat) (cpus : nat) : nat :=
  match requested with
  | Some n => n
  | None => match suggest_partitions len_hint cpus with
            | Some n => n
            | None => default_partitions cpus
            end
  end.

(* collect_par(threads, requested) of a step-language program on a machine with `cpus` cores *)
Definition run_par_auto (s : src) (steps : list step) (requested len_hint : option nat)
           (cpus : nat) : outcome (list val) :=
  run_par s steps (choose_parts requested len_hint cpus).
