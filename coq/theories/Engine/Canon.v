(* Comparison of results modulo HashMap iteration order, and the decidable program classes the
   correspondence judges (Corr/C01,C02,C04,C05,C07) share.  Definitions only. *)
From Coq Require Import List ZArith Bool Arith String.
From IB Require Import Util.J Engine.Val Engine.Ops Engine.Nodes Engine.Exec Engine.Planner Engine.Lang
     Engine.Denote Engine.Decode.
Import ListNotations.

(* ---------- canonical form: every list (at any depth) sorted by Lang.val_cmp ---------- *)
Fixpoint deep_sort (v : val) : val :=
  match v with
  | VInt _ | VNone => v
  | VPair a b => VPair (deep_sort a) (deep_sort b)
  | VList l => VList (vsort (map deep_sort l))
  | VSome x => VSome (deep_sort x)
  end.
Definition canon_rows (rows : list val) : list val := vsort (map deep_sort rows).

Fixpoint rows_eqb (a b : list val) : bool :=
  match a, b with
  | [], [] => true
  | x :: a', y :: b' => val_eqb x y && rows_eqb a' b'
  | _, _ => false
  end.
Definition canon_eqb (a b : list val) : bool := rows_eqb (canon_rows a) (canon_rows b).

(* ---------- program classes ---------- *)
(* the step iterates a HashMap / HashSet: the order of rows (or of a produced list) downstream is
   arbitrary in the real run *)
Definition hash_step (st : step) : bool :=
  match st with
  | SGroupByKey | SCombineValues _ | SCombineValuesLifted _ | SDistinct | SDistinctPerKey
  | STopKPerKey _ | SJoin _ _ _ => true
  | SCombineGlobally CDistinct _ _ => true
  | _ => false
  end.
(* the real result is a deterministic sequence: compare exactly (implied by has_barrier = false) *)
Definition order_exact (steps : list step) : bool := negb (existsb hash_step steps).

(* Some list INSIDE the values is built from a map's iteration order: a group_by_key downstream
   of a hash step (the group's value order follows the arbitrary row order), or the output list of
   the DistinctSet combiner (a HashSet drained into a Vec).  Only then are nested lists compared as
   bags; otherwise nested lists are data and compared exactly. *)
Fixpoint lists_arbitrary_from (fuel : nat) (unord : bool) (steps : list step) : bool :=
  match fuel with
  | O => false
  | S fuel' =>
      match steps with
      | [] => false
      | st :: rest =>
          let here :=
            match st with
            | SGroupByKey => unord
            | SCombineValues CDistinct | SCombineValuesLifted CDistinct
            | SCombineGlobally CDistinct _ _ => true
            | SJoin _ rs _ => lists_arbitrary_from fuel' false rs
            | _ => false
            end in
          here || lists_arbitrary_from fuel' (unord || hash_step st) rest
      end
  end.
Definition lists_arbitrary (steps : list step) : bool :=
  lists_arbitrary_from (S (steps_size steps)) false steps.

(* how two results of a program are compared:
   CExact : identical sequences (no step iterates a hash map);
   CRows  : equal as multisets of rows, every row compared exactly;
   CDeep  : equal after sorting the rows and every nested list (lists_arbitrary) *)
Inductive cmp_mode := CExact | CRows | CDeep.
Definition cmp_of (steps : list step) : cmp_mode :=
  if order_exact steps then CExact else if lists_arbitrary steps then CDeep else CRows.
(* for comparing bags of values taken out of a result (keys, one group's values, flattened rows) *)
Definition bag_mode (steps : list step) : cmp_mode :=
  if lists_arbitrary steps then CDeep else CRows.
Definition rows_cmp (m : cmp_mode) (a b : list val) : bool :=
  match m with
  | CExact => rows_eqb a b
  | CRows => rows_eqb (vsort a) (vsort b)
  | CDeep => canon_eqb a b
  end.

Definition is_join (st : step) : bool := match st with SJoin _ _ _ => true | _ => false end.

(* batch functions that are not element-wise: the parallel result legitimately depends on the
   partitioning (the model still predicts it exactly) *)
Fixpoint partition_dependent (fuel : nat) (steps : list step) : bool :=
  match fuel with
  | O => false
  | S fuel' =>
      existsb (fun st => match st with
                         | SMapBatches _ (BEach _) | SMapValuesBatches _ (BEach _) => false
                         | SMapBatches _ BDup => false      (* = flat_map: element-wise *)
                         | SMapBatches _ _ | SMapValuesBatches _ _ => true
                         | SJoin _ rs _ => partition_dependent fuel' rs
                         | _ => false
                         end) steps
  end.

(* a join fed by another join, on either side *)
Fixpoint nested_join_from (seen : bool) (steps : list step) : bool :=
  match steps with
  | [] => false
  | SJoin _ rs _ :: rest => seen || existsb is_join rs || nested_join_from true rest
  | _ :: rest => nested_join_from seen rest
  end.
Definition nested_join (steps : list step) : bool := nested_join_from false steps.

(* The open known-finding class "C02-reorder": some Stateless node of the fused raw chain holds a
   block of >= 2 operators, all value-only / key-preserving / reorder-safe, whose stable sort by
   (cost != 1, cost) differs from the written order (Planner.reorder_ops changes the op_uid list) *)
Definition uids (ops : list dynop) : list nat := map op_uid ops.
Fixpoint nat_list_eqb (a b : list nat) : bool :=
  match a, b with
  | [], [] => true
  | x :: a', y :: b' => Nat.eqb x y && nat_list_eqb a' b'
  | _, _ => false
  end.
Definition node_reorders (n : node) : bool :=
  match n with
  | NB (BStateless ops) => negb (nat_list_eqb (uids (reorder_ops ops)) (uids ops))
  | _ => false
  end.
Definition reorder_changes (s : src) (steps : list step) : bool :=
  existsb node_reorders (fuse (cs_chain (compile s steps))).

(* ---------- the model's outcome as an observable ---------- *)
Inductive mode := MSeq | MPar (n : nat).

Definition obs_of (o : outcome (list val)) : obs :=
  match o with Ok rows => OOk rows | Err e => OErr e | Panic => OPanic | Diverge => OHang end.

(* unoptimised execution of a prefix: what reaches a node of the plan (optimisation is neutral
   outside the reorder class; join sides are never optimised) *)
Definition run_raw (m : mode) (s : src) (steps : list step) : outcome (list val) :=
  let c := compile s steps in
  match m with
  | MSeq => exec_seq id_sh (cs_tag c) (cs_chain c)
  | MPar n => exec_par id_sh (cs_tag c) (cs_chain c) n
  end.

Definition is_minmax (c : cid) : bool := match c with CMin | CMax => true | _ => false end.
Definition is_nil {A} (l : list A) : bool := match l with [] => true | _ => false end.
(* grouped rows in which some key has only empty groups *)
Definition some_key_empty (rows : list val) : bool :=
  existsb (fun r => forallb (fun r' => negb (val_eqb (vfst r') (vfst r)) || is_nil (vlist (vsnd r')))
                            rows) rows.

(* Lang.comb_minmax has a total `finish` (VNone for the empty accumulator) where the real
   Min / Max `expect`s: the run panics.  That happens exactly when a global Min / Max receives no
   row, or a lifted per-key Min / Max meets a key all of whose groups are empty.  `pre` = the steps
   before the current one, evaluated by the model itself (unoptimised). *)
Fixpoint minmax_panics (fuel : nat) (m : mode) (s : src) (pre : list step) (rest : list step)
  : bool :=
  match fuel with
  | O => false
  | S fuel' =>
      match rest with
      | [] => false
      | st :: rest' =>
          let here :=
            match st with
            | SCombineGlobally c _ _ =>
                is_minmax c && match run_raw m s pre with Ok [] => true | _ => false end
            | SCombineValuesLifted c =>
                is_minmax c && match run_raw m s pre with
                               | Ok rows => some_key_empty rows
                               | _ => false
                               end
            | SJoin _ rs rd => minmax_panics fuel' m (SrcVec TKV rd) [] rs
            | _ => false
            end in
          here || minmax_panics fuel' m s (pre ++ [st]) rest'
      end
  end.

Definition model_outcome (m : mode) (s : src) (steps : list step) : obs :=
  let o := match m with MSeq => run_seq s steps | MPar n => run_par s steps n end in
  match o with
  | Ok rows => if minmax_panics (S (steps_size steps)) m s [] steps then OPanic else OOk rows
  | _ => obs_of o
  end.

(* observed vs expected outcome: equal class; rows compared in the program's comparison mode *)
Definition obs_agree (m : cmp_mode) (a b : obs) : bool :=
  match a, b with
  | OOk x, OOk y => rows_cmp m x y
  | OErr e, OErr e' => Nat.eqb e e'
  | OPanic, OPanic => true
  | OHang, OHang => true
  | _, _ => false
  end.

Definition agree_model (m : mode) (s : src) (steps : list step) (o : obs) : bool :=
  obs_agree (cmp_of steps) (model_outcome m s steps) o.

(* ---------- reference outcome (independent of the engine model): Denote ---------- *)
(* what the list semantics says the program returns: an error for a join fed by a join, a panic
   for Min / Max over nothing, else the denotation *)
Fixpoint ref_minmax_panics (fuel : nat) (rows : list val) (steps : list step) : bool :=
  match fuel with
  | O => false
  | S fuel' =>
      match steps with
      | [] => false
      | st :: rest =>
          let here :=
            match st with
            | SCombineGlobally c _ _ => is_minmax c && is_nil rows
            | SCombineValuesLifted c => is_minmax c && some_key_empty rows
            | SJoin _ rs rd => ref_minmax_panics fuel' rd rs
            | _ => false
            end in
          here || ref_minmax_panics fuel' (denote_steps (S (step_size st)) [st] rows) rest
      end
  end.

Definition ref_outcome (s : src) (steps : list step) : obs :=
  if nested_join steps then OErr E_NESTED_COGROUP
  else if ref_minmax_panics (S (steps_size steps)) (src_data s) steps then OPanic
  else OOk (denote s steps).

(* keys of keyed rows are pairwise distinct *)
Fixpoint nodup_vals (l : list val) : bool :=
  match l with [] => true | x :: r => negb (existsb (val_eqb x) r) && nodup_vals r end.
Definition keys_unique (rows : list val) : bool := nodup_vals (map vfst rows).
Definition is_row_pair (v : val) : bool := match v with VPair _ _ => true | _ => false end.
Definition is_group_row (v : val) : bool :=
  match v with VPair _ (VList _) => true | _ => false end.

Definition last_step (steps : list step) : option step :=
  match rev steps with st :: _ => Some st | [] => None end.
Definition but_last (steps : list step) : list step := removelast steps.

(* ---------- case decoding shared by the judges: in = [src, steps, partitions_or_null] ---------- *)
Definition dec_prog (input : J) : option (src * list step * mode) :=
  match input with
  | JL [js; jst; jm] =>
      match dec_src js, dec_steps jst, dec_mode jm with
      | Some s, Some steps, Some m =>
          Some (s, steps, match m with None => MSeq | Some n => MPar n end)
      | _, _, _ => None
      end
  | _ => None
  end.

(* the reference says Ok/Err/Panic; the observed outcome must be that, rows compared in the
   program's comparison mode (exact sequence for hash-free programs) *)
(* the properties promise "an error" for a shape the engine cannot run, not a particular message:
   on the reference side every error matches every error (the class is part of `agree` only) *)
Definition obs_meets (m : cmp_mode) (a b : obs) : bool :=
  match a, b with
  | OErr _, OErr _ => true
  | _, _ => obs_agree m a b
  end.
Definition meets_ref (s : src) (steps : list step) (o : obs) : bool :=
  obs_meets (cmp_of steps) (ref_outcome s steps) o.

(* ---------- branching programs: in = [src, prefix, a, b, partitions_or_null] ---------- *)
Definition dec_branch (input : J) : option (src * list step * list step * list step * mode) :=
  match input with
  | JL [js; jp; ja; jb; jm] =>
      match dec_src js, dec_steps jp, dec_steps ja, dec_steps jb, dec_mode jm with
      | Some s, Some p, Some a, Some b, Some m =>
          Some (s, p, a, b, match m with None => MSeq | Some n => MPar n end)
      | _, _, _, _, _ => None
      end
  | _ => None
  end.
(* observed outcomes of the three handles, in collection order: base, B, A *)
Definition dec_triple (j : J) : option (obs * obs * obs) :=
  match j with
  | JL [j1; j2; j3] =>
      match dec_obs j1, dec_obs j2, dec_obs j3 with
      | Some a, Some b, Some c => Some (a, b, c)
      | _, _, _ => None
      end
  | _ => None
  end.

(* ---------- try_map / collect_fail_fast ---------- *)
(* rows of a program ending in try_map are VSome v (Ok v) / VNone (Err); collect_fail_fast returns
   the payloads in order, or the error as soon as one element failed *)
Definition is_vnone (v : val) : bool := match v with VNone => true | _ => false end.
Definition unsome (v : val) : val := match v with VSome x => x | _ => v end.
Definition fail_fast_of (o : obs) : obs :=
  match o with
  | OOk rows => if existsb is_vnone rows then OErr E_FAIL_FAST else OOk (map unsome rows)
  | _ => o
  end.
Definition is_try (st : step) : bool := match st with STryMap _ _ => true | _ => false end.
(* try_map may only be the last step *)
Definition try_only_last (steps : list step) : bool := negb (existsb is_try (removelast steps)).
Definition ends_in_try (steps : list step) : bool :=
  match last_step steps with Some (STryMap _ _) => true | _ => false end.

(* collect_fail_fast, with the element whose error is reported: the harness's try_map error
   message carries the element, and ["err","fail_fast", v] names it *)
Inductive ff_obs := FFOk (payloads : list val) | FFErr (elem : val) | FFOther (o : obs).
Definition dec_ff (j : J) : option ff_obs :=
  match j with
  | JL [JS t; JS c; jv] =>
      if tag_is t "err"%string && tag_is c "fail_fast"%string then option_map FFErr (dec_val jv) else None
  | _ => match dec_obs j with
         | Some (OOk rows) => Some (FFOk rows)
         | Some o => Some (FFOther o)
         | None => None
         end
  end.
(* what collect_fail_fast must return given the rows that reach the try_map: the FIRST row (in
   order) failing p is the one reported; otherwise the payloads f x in order *)
Definition ff_expected (input : obs) (f : efun) (p : pfun) : ff_obs :=
  match input with
  | OOk xs =>
      match find (fun x => negb (pf p x)) xs with
      | Some x => FFErr x
      | None => FFOk (map (ef f) xs)
      end
  | o => FFOther o
  end.
Definition ff_eqb (a b : ff_obs) : bool :=
  match a, b with
  | FFOk x, FFOk y => rows_eqb x y
  | FFErr x, FFErr y => val_eqb x y
  | FFOther x, FFOther y => obs_agree CExact x y
  | _, _ => false
  end.

(* ---------- compact observations of big results (kinds "bigprog" / "bigpair") ---------- *)
Open Scope Z_scope.
Definition HP : Z := 1000000007.
Fixpoint vhash (v : val) : Z :=
  match v with
  | VInt z => (z * 7 + 1) mod HP
  | VPair a b => (vhash a * 31 + vhash b * 17 + 3) mod HP
  | VList l => fold_left (fun acc x => (acc * 131 + vhash x) mod HP) l 5
  | VNone => 11
  | VSome x => (vhash x * 13 + 2) mod HP
  end.
(* as vhash, but a list is hashed as a BAG (a commutative sum over its elements): for results whose
   nested lists are determined only as multisets *)
Fixpoint vhash_bag (v : val) : Z :=
  match v with
  | VInt z => (z * 7 + 1) mod HP
  | VPair a b => (vhash_bag a * 31 + vhash_bag b * 17 + 3) mod HP
  | VList l => fold_left (fun acc x => (acc + vhash_bag x * 131) mod HP) l 5
  | VNone => 11
  | VSome x => (vhash_bag x * 13 + 2) mod HP
  end.
Fixpoint leaves (v : val) : Z :=
  match v with
  | VInt _ => 1
  | VPair a b => leaves a + leaves b
  | VList l => fold_left (fun acc x => acc + leaves x) l 0
  | VNone => 0
  | VSome x => leaves x
  end.
(* [count; sum ikey; min ikey; max ikey (0 when empty); integer leaves; order-free hash;
    order-sensitive hash (only meaningful for CExact programs: zeroed otherwise)] *)
Definition summary (exact : bool) (rows : list val) : list val :=
  let keys := map ikey rows in
  let mn := match keys with [] => 0 | k :: r => fold_left Z.min r k end in
  let mx := match keys with [] => 0 | k :: r => fold_left Z.max r k end in
  map VInt
    [Z.of_nat (List.length rows); fold_left Z.add keys 0; mn; mx;
     fold_left (fun a r => a + leaves r) rows 0;
     fold_left (fun a r => (a + vhash r) mod HP) rows 0;
     if exact then fold_left (fun a r => (a * 1000003 + vhash r) mod HP) rows 0 else 0;
     fold_left (fun a r => (a + vhash_bag r) mod HP) rows 0].
Definition summarise (exact : bool) (o : obs) : obs :=
  match o with OOk rows => OOk (summary exact rows) | _ => o end.
(* the observed summary: drop the order-sensitive component unless the order is determined *)
Definition observed_summary (exact : bool) (o : obs) : obs :=
  match o with
  | OOk [c; sk; mn; mx; lv; bh; sh; dh] =>
      OOk [c; sk; mn; mx; lv; bh; if exact then sh else VInt 0; dh]
  | OOk _ => OHang          (* not a summary: never equal to an expected outcome *)
  | _ => o
  end.
Definition is_exact (steps : list step) : bool :=
  match cmp_of steps with CExact => true | _ => false end.
(* big cases are restricted to programs whose nested lists are determined (no CDeep) *)
Definition big_ok (steps : list step) : bool := negb (lists_arbitrary steps).
Definition big_agree (m : mode) (s : src) (steps : list step) (o : obs) : bool :=
  let e := is_exact steps in
  obs_agree CExact (summarise e (model_outcome m s steps)) (observed_summary e o).
(* the same comparison with every nested list taken as a bag: the two order-sensitive row hashes
   are dropped, the bag hash (last component) decides *)
Definition bag_view (o : obs) : obs :=
  match o with
  | OOk [c; sk; mn; mx; lv; _; _; dh] => OOk [c; sk; mn; mx; lv; VInt 0; VInt 0; dh]
  | _ => o
  end.
Definition big_meets_ref_bag (s : src) (steps : list step) (o : obs) : bool :=
  obs_meets CExact (bag_view (summarise false (ref_outcome s steps)))
            (bag_view (observed_summary false o)).
Definition big_meets_ref (s : src) (steps : list step) (o : obs) : bool :=
  let e := is_exact steps in
  obs_meets CExact (summarise e (ref_outcome s steps)) (observed_summary e o).
Close Scope Z_scope.
