(* A syntactic classifier for programs of the step language: decides (conservatively) whether a
   program lies in the fragment covered by c01_par_equiv_seq / c03_optimise_sound and with which
   order class (E / P / D, see Engine/Static.v). Definitions only; soundness is proved in Proofs/EngineClassify.v. *)
From Coq Require Import List ZArith Bool Arith.
From IB Require Import Engine.Val Engine.Ops Engine.Nodes Engine.Planner Engine.Lang Engine.Denote
     Engine.Static.
Import ListNotations.

(* combiners of the step language whose specification determines the output *)
Definition cid_functional (c : cid) : bool :=
  match c with
  | CSum | CCount | CMin | CMax | CTopK _ | CGcd => true
  | CSumMod m => (0 <? m)%Z
  | CDistinct => false                (* DistinctSet: output order is arbitrary *)
  end.

Definition batch_elementwise (b : bfun) : bool :=
  match b with BEach _ | BDup => true | _ => false end.

(* one join-free step on rows whose every row is determined (class E or P): new element tag and
   order class, or None when outside the fragment *)
Definition classify_step_flat (t : tag) (c : cls) (st : step) : option (tag * cls) :=
  match st with
  | SMap _ | SUnkey => Some (TU, c)
  | SFilter _ => Some (t, c)
  | SFlatMap _ => Some ((if Nat.eqb t TKG then TKV else t), c)
  | SKeyBy _ => Some (TKV, c)
  | SMapValues _ | SFilterValues _ => if Nat.eqb t TKV then Some (TKV, c) else None
  | SMapValuesW _ => if Nat.eqb t TKV then Some (TKW, c) else None
  | SFilterValuesW _ => if Nat.eqb t TKW then Some (TKW, c) else None
  | SMapValuesBack _ => if Nat.eqb t TKW then Some (TKV, c) else None
  | SGroupValuesToList => if Nat.eqb t TKG then Some (TKV, c) else None
  | SMapBatches _ b => if batch_elementwise b then Some (t, c) else None
  | SMapValuesBatches _ (BEach _) => if Nat.eqb t TKV then Some (TKV, c) else None
  | SMapValuesBatches _ _ => None
  | SGroupByKey =>
      (* on a determined sequence the groups are determined (as a multiset of rows); on a multiset
         of rows the order inside each group is not: class D *)
      if Nat.eqb t TKV then Some (TKG, match c with E => P | _ => D end) else None
  | SCombineValues cb =>
      if Nat.eqb t TKV && cid_functional cb then Some (comb_out_tag cb, P) else None
  | SCombineValuesLifted cb =>
      if Nat.eqb t TKG && cid_functional cb then Some (comb_out_tag cb, P) else None
  | SCombineGlobally cb _ _ =>
      if cid_functional cb then Some ((if comb_list_out cb then TL else TU), E) else None
  | STopKPerKey _ => if Nat.eqb t TKV then Some (TKG, P) else None
  | SDistinct | SDistinctPerKey => None
  | SJoin _ _ _ => None
  | SMapWithSide _ _ | SMapWithSideMap _ _ => Some (TU, c)
  | SFilterWithSide _ _ => Some (t, c)
  | STryMap _ _ => Some (TRES, c)
  | SDebug _ => Some (t, c)
  | SCustomMap _ => Some (TU, c)
  end.

(* element functions that do not look at the order of a list / of the group of a grouped row *)
Definition efun_list_inv (f : efun) : bool :=
  match f with
  | FSum | FLen | FComp FSum _ | FComp FLen _ => true
  | _ => false
  end.
Definition efun_row_inv (f : efun) : bool :=
  match f with
  | FFst | FComp FFst _ => true
  | FComp FSnd g => efun_list_inv g
  | _ => false
  end.

(* one join-free step on rows of class D (grouped rows whose groups are known as multisets): only
   steps that do not look at the order inside a group. SFilter / the expanders other than GElems
   read a row through `ikey` only, i.e. its key. *)
Definition classify_step_d (t : tag) (st : step) : option (tag * cls) :=
  match st with
  | SFilter _ | SDebug _ => Some (t, D)
  | SUnkey => Some (TU, D)
  | SGroupValuesToList => if Nat.eqb t TKG then Some (TKV, D) else None
  | SFlatMap (GRepeat _) => Some ((if Nat.eqb t TKG then TKV else t), D)
  | SFlatMap _ => Some ((if Nat.eqb t TKG then TKV else t), P)       (* GElems: flatten the groups *)
  | SMap f => if efun_row_inv f then Some (TU, P) else None
  | SMapValues f => if Nat.eqb t TKV && efun_list_inv f then Some (TKV, P) else None
  | SCombineValuesLifted cb =>
      if Nat.eqb t TKG && cid_functional cb then Some (comb_out_tag cb, P) else None
  | _ => None
  end.

Definition classify_step (t : tag) (c : cls) (st : step) : option (tag * cls) :=
  match c with
  | D => classify_step_d t st
  | _ => classify_step_flat t c st
  end.

Fixpoint classify_steps (t : tag) (c : cls) (steps : list step) : option (tag * cls) :=
  match steps with
  | [] => Some (t, c)
  | st :: r => match classify_step t c st with
               | Some (t', c') => classify_steps t' c' r
               | None => None
               end
  end.

Definition cls_flatb (c : cls) : bool := match c with D => false | _ => true end.

(* a whole program: join-free, or exactly one top-level join whose two sides are join-free
   classified programs on (Val, Val) rows, each row determined (not class D); after the join (and the harness's normalising map) the
   rows are (Val, Val) again, known as a multiset *)
Fixpoint split_at_join (steps : list step)
  : list step * option (join_kind * list step * list val * list step) :=
  match steps with
  | [] => ([], None)
  | SJoin k rs rd :: rest => ([], Some (k, rs, rd, rest))
  | st :: rest => let '(pre, j) := split_at_join rest in (st :: pre, j)
  end.

Definition classify (s : src) (steps : list step) : option (tag * cls) :=
  match split_at_join steps with
  | (pre, None) => classify_steps (src_tag s) E pre
  | (pre, Some (k, rs, rd, post)) =>
      match classify_steps (src_tag s) E pre, classify_steps TKV E rs with
      | Some (tl, cl), Some (tr, cr) =>
          if Nat.eqb tl TKV && Nat.eqb tr TKV && cls_flatb cl && cls_flatb cr
          then classify_steps TKV P post else None
      | _, _ => None
      end
  end.
