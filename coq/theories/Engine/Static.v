(* Static notions used to STATE the engine theorems (C01, C02, C03). Definitions only. *)
From Coq Require Import List ZArith Bool Arith Permutation.
From IB Require Import Engine.Val Engine.Ops Engine.AMap Engine.Nodes Engine.Exec Engine.Planner
     Combiners.Lawful.
Import ListNotations.

Definition perm_oracle (sh : nat -> list val -> list val) : Prop :=
  forall i l, Permutation (sh i l) l.

(* an element-wise operator: its body maps each element to a list of outputs, independently and in
   order (map, filter, flat_map, key_by, map_values, filter_values, side-input maps/filters,
   fallible maps, debug taps, validation in skip mode, batch maps with an element-wise function) *)
Definition ew (o : dynop) : Prop := exists g, forall l, op_fn o l = Some (flat_map g l).
Definition ew_fn (o : dynop) (g : val -> list val) : Prop := forall l, op_fn o l = Some (flat_map g l).

(* the operators' element types line up (what rustc checks for the program as written) *)
Fixpoint tags_ok (t : tag) (ops : list dynop) : option tag :=
  match ops with
  | [] => Some t
  | o :: r => if Nat.eqb t (op_in o) then tags_ok (op_out o) r else None
  end.

(* "applying those steps one after another, in the order written, to the whole list" *)
Definition step_list (o : dynop) (l : list val) : list val :=
  match op_fn o l with Some l' => l' | None => [] end.
Definition sem_ops (ops : list dynop) (l : list val) : list val :=
  fold_left (fun acc o => step_list o acc) ops l.

(* a source whose partitions concatenate to its content (VecOpsImpl and the streaming sources) *)
Definition coherent (s : source) : Prop := forall n, concat (s_split s n) = s_all s.

(* a combiner whose specification determines the output (count, sum, min, max, mean, top-k,
   distinct count; NOT DistinctSet, whose output order is arbitrary) *)
Definition functional {V O} (spec : list V -> O -> Prop) : Prop :=
  forall m o o', spec m o -> spec m o' -> o = o'.
Definition lawful_vcomb (c : vcomb) : Prop :=
  exists (R : vc_A c -> list val -> Prop) (spec : list val -> val -> Prop),
    lawful (vc_c c) R spec /\ functional spec /\
    (forall m m' o, Permutation m m' -> spec m o -> spec m' o).

(* ---------------- order classes ----------------
   E: the rows are determined as a SEQUENCE; P: as a multiset (some HashMap was iterated);
   D: as a multiset, and inside every grouped row (k, [v...]) the value list as a multiset (a
   GroupByKey ran on rows that were themselves only known as a multiset, so the order inside each
   group depends on the iteration order of an upstream map).
   `node_cls t c b t' c'`: node b accepts rows of element type t known up to c and delivers rows of
   type t' known up to c'. *)
Inductive cls := E | P | D.

(* the classes in which every single row is determined exactly *)
Definition flat (c : cls) : Prop := match c with D => False | _ => True end.

(* two rows that are equal, or grouped rows with the same key whose value lists are permutations
   of each other. Equivalently (Proofs/EngineEquiv.v, row_perm_spec):
     row_perm (VPair k (VList l)) (VPair k' (VList l')) <-> k = k' /\ Permutation l l'
     row_perm x y <-> x = y                                 for every other shape *)
Definition row_perm (x y : val) : Prop :=
  x = y \/ exists k l l', x = VPair k (VList l) /\ y = VPair k (VList l') /\ Permutation l l'.

Definition rel (c : cls) (a b : list val) : Prop :=
  match c with
  | E => a = b
  | P => Permutation a b
  | D => exists a', Permutation a a' /\ Forall2 row_perm a' b
  end.

(* element-wise operators on rows of class D, as semantic side conditions on the (arbitrary) body:
   ew_dd: related rows are mapped to outputs related in class D - in particular when the outputs
          are related row by row (key-only filters, maps on the key, identity-like taps, repeats);
   ew_dp: related rows are mapped to the same multiset of outputs (flattening the group,
          permutation-invariant functions of the group such as its length or sum, projections
          on the key) *)
Definition ew_dd (o : dynop) : Prop :=
  exists g, ew_fn o g /\ forall x y, row_perm x y -> rel D (g x) (g y).
Definition ew_dp (o : dynop) : Prop :=
  exists g, ew_fn o g /\ forall x y, row_perm x y -> Permutation (g x) (g y).

Inductive node_cls : tag -> cls -> bnode -> tag -> cls -> Prop :=
| nc_stateless : forall t c ops t',
    flat c -> Forall ew ops -> tags_ok t ops = Some t' -> node_cls t c (BStateless ops) t' c
| nc_stateless_dd : forall t ops t',
    (* a block of class-D preserving operators *)
    Forall ew_dd ops -> tags_ok t ops = Some t' -> node_cls t D (BStateless ops) t' D
| nc_stateless_dp : forall t ops1 o ops2 t',
    (* class-D preserving operators, one operator that forgets the order inside the groups, then
       arbitrary element-wise operators *)
    Forall ew_dd ops1 -> ew_dp o -> Forall ew ops2 ->
    tags_ok t (ops1 ++ o :: ops2) = Some t' ->
    node_cls t D (BStateless (ops1 ++ o :: ops2)) t' P
| nc_gbk : forall t t', node_cls t E (BGroupByKey t t') t' P
| nc_gbk_p : forall t t',
    (* rows known as a multiset: every group's value list is determined as a multiset only *)
    node_cls t P (BGroupByKey t t') t' D
| nc_cv_pairs : forall t c cb tg t',
    flat c -> lawful_vcomb cb -> node_cls t c (BCombineValues cb t tg t' false) t' P
| nc_cv_groups : forall t c cb tp t',
    (* lifted local on grouped rows (k, Vec<V>): the rows may come in any order and (class D) so
       may the values inside each group: a lawful combiner is permutation-invariant *)
    lawful_vcomb cb -> node_cls t c (BCombineValues cb tp t t' true) t' P
| nc_cg : forall t c cb lifted t' fanout,
    flat c -> lawful_vcomb cb -> node_cls t c (BCombineGlobal cb lifted t t' fanout) t' E.

Inductive chain_cls : tag -> cls -> list bnode -> tag -> cls -> Prop :=
| cc_nil : forall t c, chain_cls t c [] t c
| cc_cons : forall t c b t1 c1 r t2 c2,
    node_cls t c b t1 c1 -> chain_cls t1 c1 r t2 c2 -> chain_cls t c (b :: r) t2 c2.

(* a join side: a coherent source followed by a classified chain whose rows are determined
   individually (the join pairs the VALUES of both sides) *)
Definition side_cls (side : list snode) (t : tag) : Prop :=
  exists s bs c, side = SB (BSource s) :: map SB bs /\ coherent s /\
                 chain_cls (s_tag s) E bs t c /\ flat c.

(* a whole plan: source + classified chain, or dummy source + join of two classified sides +
   classified chain on the join's output *)
Inductive plan_cls : list node -> tag -> cls -> Prop :=
| pc_linear : forall s bs t c,
    coherent s -> chain_cls (s_tag s) E bs t c ->
    plan_cls (NB (BSource s) :: map NB bs) t c
| pc_join : forall s0 lc rc kind tl tr tj bs t c,
    coherent s0 -> side_cls lc tl -> side_cls rc tr ->
    chain_cls tj P bs t c ->
    plan_cls (NB (BSource s0) :: NCoGroup lc rc kind tl tr tj :: map NB bs) t c.

(* structural views of a chain, to state what the planner may and may not change *)
Definition stateless_ops (c : list node) : list dynop :=
  flat_map (fun n => match n with NB (BStateless ops) => ops | _ => [] end) c.
Definition is_stateless (n : node) : bool :=
  match n with NB (BStateless _) => true | _ => false end.
Definition other_nodes (c : list node) : list node_kind :=
  map kind_of (filter (fun n => negb (is_stateless n)) c).
Definition uids (ops : list dynop) : list nat := map op_uid ops.

(* the known-finding class of C02/C03: some fused all-value-only block is actually re-ordered *)
Definition reorder_noop (c : list node) : Prop := reorder c = c.

(* the operators between consecutive non-Stateless nodes, block by block: no operator may move
   across a barrier, source or marker *)
Fixpoint segments (c : list node) : list (list dynop) :=
  match c with
  | [] => [[]]
  | NB (BStateless ops) :: r =>
      match segments r with
      | seg :: rest => (ops ++ seg) :: rest
      | [] => [ops]
      end
  | _ :: r => [] :: segments r
  end.
