(* The four rewriting passes of src/planner.rs on a node chain. Definitions only. *)
From Coq Require Import List Bool Arith.
From IB Require Import Engine.Val Engine.Ops Engine.Nodes.
Import ListNotations.

(* fuse_stateless_tracked: every maximal run of adjacent Stateless nodes becomes one node whose
   operator list is the concatenation, in order *)
Fixpoint fuse (c : list node) : list node :=
  match c with
  | [] => []
  | NB (BStateless ops) :: r =>
      match fuse r with
      | NB (BStateless ops') :: r' => NB (BStateless (ops ++ ops')) :: r'
      | fr => NB (BStateless ops) :: fr
      end
  | n :: r => n :: fuse r
  end.

(* sort key of reorder_value_only_runs_tracked: (cost != 1, cost) *)
Definition rkey (o : dynop) : nat * nat := ((if Nat.eqb (op_cost o) 1 then 0 else 1), op_cost o).
Definition rkey_leb (a b : dynop) : bool :=
  let '(a1, a2) := rkey a in let '(b1, b2) := rkey b in
  (a1 <? b1) || ((a1 =? b1) && (a2 <=? b2)).
(* Vec::sort_by_key is stable: stable insertion sort (insert after equal keys) *)
Fixpoint rinsert (x : dynop) (l : list dynop) : list dynop :=
  match l with
  | [] => [x]
  | y :: r => if rkey_leb y x then y :: rinsert x r else x :: l
  end.
Definition rsort (l : list dynop) : list dynop := fold_left (fun acc x => rinsert x acc) l [].

Definition all_value_only (ops : list dynop) : bool :=
  forallb (fun o => op_vo o && op_kp o && op_rs o) ops.

Definition reorder_ops (ops : list dynop) : list dynop :=
  if all_value_only ops && (1 <? length ops) then rsort ops else ops.

Definition reorder (c : list node) : list node :=
  map (fun n => match n with NB (BStateless ops) => NB (BStateless (reorder_ops ops)) | _ => n end) c.

(* lift_gbk_then_combine_tracked: GroupByKey immediately followed by a CombineValues that has a
   lifted local => that CombineValues with local_groups: None (runs local_pairs on the rows) *)
Fixpoint lift (c : list node) : list node :=
  match c with
  | NB (BGroupByKey _ _) :: ((NB (BCombineValues cb tp tg tout true) :: r) as tl) =>
      (* `chain.len() < 2` returns early; the pattern needs two nodes anyway *)
      NB (BCombineValues cb tp tg tout false) :: lift r
  | n :: r => n :: lift r
  | [] => []
  end.

(* drop_mid_materialized_tracked: remove every Materialized except at the last index *)
Fixpoint drop_mid (c : list node) : list node :=
  match c with
  | [] => []
  | [n] => [n]
  | NB (BMaterialized _ _) :: r => drop_mid r
  | n :: r => n :: drop_mid r
  end.

(* build_plan after the backwalk *)
Definition optimise (c : list node) : list node := drop_mid (lift (reorder (fuse c))).

(* Plan::explain: one step per node of the chain, with its kind *)
Inductive node_kind := KSource | KStateless (n : nat) | KGroupByKey | KCombineValues (lifted : bool)
                     | KCoGroup | KCombineGlobal (fanout : option nat) | KMaterialized.
Definition kind_of (n : node) : node_kind :=
  match n with
  | NB (BSource _) => KSource
  | NB (BStateless ops) => KStateless (length ops)
  | NB (BGroupByKey _ _) => KGroupByKey
  | NB (BCombineValues _ _ _ _ lg) => KCombineValues lg
  | NB (BCombineGlobal _ _ _ _ f) => KCombineGlobal f
  | NB (BMaterialized _ _) => KMaterialized
  | NCoGroup _ _ _ _ _ _ => KCoGroup
  end.
Definition explain (c : list node) : list node_kind := map kind_of c.
