(* Model of the fragment of the `regex` crate syntax that src/io/cloud/readers.rs:glob_to_regex
   can emit, with a total parser and a total matcher. Definitions only.
   Characters are Unicode scalar values, represented by their code point (N); the `regex`
   crate matches `&str` haystacks code point by code point (Unicode mode is the default).

   Fragment (always anchored on both sides, which is what glob_to_regex produces):
       regex ::= ['(?s)'] '^' atom* '$'      (?s) = flag "dot matches new line" for the whole regex
       atom  ::= c            any character that is not a regex meta character: matches itself
               | '\' m        an escaped meta character: matches m
               | '.'          any character except '\n'; ANY character under (?s)
               | '.*'         any sequence of such characters (greedy or not is irrelevant
                              for `is_match`)
               | '[^/]*'      any sequence of characters other than '/' (a negated class DOES
                              contain '\n')
   Everything outside this fragment is rejected by `parse` (None): the model makes no claim
   about it, and Proofs/CloudGlobProofs.v shows glob_to_regex never produces such text. *)
From Coq Require Import List NArith Bool.
Import ListNotations.
Open Scope N_scope.

Definition c_nl : N := 10.      (* '\n' *)
Definition c_dollar : N := 36.  (* '$' *)
Definition c_s : N := 115.      (* 's' *)
Definition c_lparen : N := 40.  (* '(' *)
Definition c_rparen : N := 41.  (* ')' *)
Definition c_star : N := 42.    (* '*' *)
Definition c_plus : N := 43.    (* '+' *)
Definition c_dot : N := 46.     (* '.' *)
Definition c_slash : N := 47.   (* '/' *)
Definition c_quest : N := 63.   (* '?' *)
Definition c_lbrack : N := 91.  (* '[' *)
Definition c_bslash : N := 92.  (* '\' *)
Definition c_rbrack : N := 93.  (* ']' *)
Definition c_caret : N := 94.   (* '^' *)
Definition c_lbrace : N := 123. (* '{' *)
Definition c_pipe : N := 124.   (* '|' *)
Definition c_rbrace : N := 125. (* '}' *)

(* The characters that have a syntactic meaning outside a character class in the `regex`
   crate (regex-syntax, flag `x` off): \ . + * ? ( ) | [ ] { } ^ $.  Any other character
   written as such is a literal; each of these preceded by '\' is a literal too.
   (This table is what the exhaustive single-character correspondence sweep validates.) *)
Definition is_meta (c : N) : bool :=
  (c =? c_bslash) || (c =? c_dot) || (c =? c_plus) || (c =? c_star) || (c =? c_quest) ||
  (c =? c_lparen) || (c =? c_rparen) || (c =? c_pipe) || (c =? c_lbrack) || (c =? c_rbrack) ||
  (c =? c_lbrace) || (c =? c_rbrace) || (c =? c_caret) || (c =? c_dollar).

Inductive atom : Type :=
| ALit (c : N)    (* c  or  \c *)
| AAny            (* .     *)
| AAnyStar        (* .*    *)
| ASegStar.       (* [^/]* *)

(* an anchored regex ^a1 a2 ... an$, with the value of the flag `s` (dot matches new line) *)
Definition regex : Type := (bool * list atom)%type.

Definition ocons {A} (a : A) (o : option (list A)) : option (list A) :=
  match o with Some l => Some (a :: l) | None => None end.

(* text after the leading '^'; must end with the closing '$' *)
Fixpoint parse_body (s : list N) : option (list atom) :=
  match s with
  | [] => None
  | c :: s1 =>
      if c =? c_dollar then (match s1 with [] => Some [] | _ :: _ => None end)
      else if c =? c_bslash then
        match s1 with
        | e :: s2 => if is_meta e then ocons (ALit e) (parse_body s2) else None
        | [] => None
        end
      else if c =? c_dot then
        match s1 with
        | d :: s2 => if d =? c_star then ocons AAnyStar (parse_body s2)
                     else ocons AAny (parse_body s1)
        | [] => None
        end
      else if c =? c_lbrack then
        match s1 with
        | a :: b :: d :: e :: s5 =>
            if (a =? c_caret) && (b =? c_slash) && (d =? c_rbrack) && (e =? c_star)
            then ocons ASegStar (parse_body s5) else None
        | _ => None
        end
      else if is_meta c then None
      else ocons (ALit c) (parse_body s1)
  end.

Definition parse_anchored (s : list N) : option (list atom) :=
  match s with
  | c :: s1 => if c =? c_caret then parse_body s1 else None
  | [] => None
  end.

Definition with_flag (f : bool) (o : option (list atom)) : option regex :=
  match o with Some l => Some (f, l) | None => None end.

(* an optional leading flag group `(?s)` *)
Definition parse (s : list N) : option regex :=
  match s with
  | a :: b :: c :: d :: rest =>
      if (a =? c_lparen) && (b =? c_quest) && (c =? c_s) && (d =? c_rparen)
      then with_flag true (parse_anchored rest)
      else with_flag false (parse_anchored s)
  | _ => with_flag false (parse_anchored s)
  end.

(* `k` holds of some suffix of `s` reached by skipping characters that all satisfy `ok`
   (the star of a one-character class followed by the continuation k) *)
Fixpoint star_by (ok : N -> bool) (k : list N -> bool) (s : list N) : bool :=
  k s || match s with x :: s' => ok x && star_by ok k s' | [] => false end.

Definition not_nl (x : N) : bool := negb (x =? c_nl).
Definition not_slash (x : N) : bool := negb (x =? c_slash).

(* what `.` accepts: everything under (?s), everything but LF otherwise *)
Definition any_ok (dotall : bool) (x : N) : bool := dotall || not_nl x.

(* `Regex::is_match` of an anchored regex = the whole haystack is in the language.
   Structural recursion on the atoms; a starred atom tries every split point. *)
Fixpoint amatch (dotall : bool) (r : list atom) (s : list N) {struct r} : bool :=
  match r with
  | [] => match s with [] => true | _ :: _ => false end
  | ALit c :: r' => match s with x :: s' => (x =? c) && amatch dotall r' s' | [] => false end
  | AAny :: r' => match s with x :: s' => any_ok dotall x && amatch dotall r' s' | [] => false end
  | AAnyStar :: r' => star_by (any_ok dotall) (amatch dotall r') s
  | ASegStar :: r' => star_by not_slash (amatch dotall r') s
  end.

Definition rmatch (r : regex) (s : list N) : bool := amatch (fst r) (snd r) s.

(* outcome of `Regex::new(text)` followed by `is_match(s)`; None = the text is outside the
   modelled fragment *)
Definition regex_is_match (text s : list N) : option bool :=
  match parse text with Some r => Some (rmatch r s) | None => None end.
