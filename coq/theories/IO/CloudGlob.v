(* Model of src/io/cloud/readers.rs (glob expansion, JSONL objects with codec chosen from the
   key) on top of the in-memory object store of src/io/cloud/fake.rs, plus the few lines of
   src/io/compression.rs it depends on (detect_from_extension, detect_from_magic).
   Definitions only; proofs are in Proofs/CloudGlob*.v.
   Keys and patterns are strings = lists of Unicode code points (N). *)
From Coq Require Import List NArith Bool.
From IB Require Import IO.Regex.
Import ListNotations.
Open Scope N_scope.

(* ================================================================================ *)
(* 1. glob -> regex text: readers.rs: glob_to_regex                                  *)
(* ================================================================================ *)

(* the `'+' | '(' | ')' | '|' | '[' | ']' | '{' | '}' | '^' | '$' | '\\'` arm *)
Definition is_escaped_by_glob (c : N) : bool :=
  (c =? c_plus) || (c =? c_lparen) || (c =? c_rparen) || (c =? c_pipe) || (c =? c_lbrack) ||
  (c =? c_rbrack) || (c =? c_lbrace) || (c =? c_rbrace) || (c =? c_caret) || (c =? c_dollar) ||
  (c =? c_bslash).

Definition seg_star_text : list N := [c_lbrack; c_caret; c_slash; c_rbrack; c_star]. (* [^/]* *)

(* the `while let Some(ch) = chars.next()` loop with its one-character lookahead *)
Fixpoint glob_to_regex_body (p : list N) : list N :=
  match p with
  | [] => []
  | c :: p' =>
      if c =? c_star then
        match p' with
        | c2 :: p'' =>
            if c2 =? c_star then c_dot :: c_star :: glob_to_regex_body p''   (* `**` -> .* *)
            else seg_star_text ++ glob_to_regex_body p'                       (* `*` -> [^/]* *)
        | [] => seg_star_text
        end
      else if c =? c_quest then c_dot :: glob_to_regex_body p'                (* `?` -> . *)
      else if c =? c_dot then c_bslash :: c_dot :: glob_to_regex_body p'      (* `.` -> \. *)
      else if is_escaped_by_glob c then c_bslash :: c :: glob_to_regex_body p'
      else c :: glob_to_regex_body p'
  end.

(* `String::from("(?s)^")` ... `regex.push('$')`  (the flag was added by the fix dae5143) *)
Definition flag_s_text : list N := [c_lparen; c_quest; c_s; c_rparen].   (* (?s) *)
Definition glob_to_regex (p : list N) : list N :=
  flag_s_text ++ c_caret :: glob_to_regex_body p ++ [c_dollar].

(* the translation BEFORE that fix (no flag): kept only to document the regression it repaired
   (Props/C19.v: c19_glob_regex_old_newline_refuted) *)
Definition glob_to_regex_old (p : list N) : list N :=
  c_caret :: glob_to_regex_body p ++ [c_dollar].

(* ================================================================================ *)
(* 2. reference semantics of a glob pattern, written from the documentation of        *)
(*    expand_cloud_glob (independent of the regex route):                             *)
(*      `*`  any sequence of characters within a path segment (no '/')                *)
(*      `?`  any single character                                                     *)
(*      `**` any sequence of characters, '/' included (crosses segments)              *)
(*      any other character stands for itself                                         *)
(*    Lexing is left to right, longest first: `***` is `**` then `*`.                 *)
(* ================================================================================ *)
Inductive gtok : Type := GStar | GStarStar | GQuest | GChar (c : N).

Fixpoint glob_tokens (p : list N) : list gtok :=
  match p with
  | [] => []
  | c :: p' =>
      if c =? c_star then
        match p' with
        | c2 :: p'' => if c2 =? c_star then GStarStar :: glob_tokens p''
                       else GStar :: glob_tokens p'
        | [] => [GStar]
        end
      else if c =? c_quest then GQuest :: glob_tokens p'
      else GChar c :: glob_tokens p'
  end.

Fixpoint tmatch (ts : list gtok) (s : list N) {struct ts} : bool :=
  match ts with
  | [] => match s with [] => true | _ :: _ => false end
  | GChar c :: ts' => match s with x :: s' => (x =? c) && tmatch ts' s' | [] => false end
  | GQuest :: ts' => match s with _ :: s' => tmatch ts' s' | [] => false end
  | GStarStar :: ts' => star_by (fun _ => true) (tmatch ts') s   (* skip any characters *)
  | GStar :: ts' => star_by not_slash (tmatch ts') s             (* skip characters but '/' *)
  end.

Definition glob_match (p s : list N) : bool := tmatch (glob_tokens p) s.

(* ================================================================================ *)
(* 3. listing prefix: readers.rs: extract_prefix_before_wildcard                     *)
(* ================================================================================ *)
Definition is_wild (c : N) : bool := (c =? c_star) || (c =? c_quest).

(* str::find(['*', '?']) : index of the first wildcard *)
Fixpoint find_wild (p : list N) : option nat :=
  match p with
  | [] => None
  | c :: p' => if is_wild c then Some O
               else match find_wild p' with Some n => Some (S n) | None => None end
  end.

Definition literal_prefix (p : list N) : option (list N) :=
  match find_wild p with
  | None => Some p
  | Some O => None
  | Some pos => Some (firstn pos p)
  end.

Fixpoint starts_with (pre s : list N) : bool :=
  match pre, s with
  | [], _ => true
  | a :: pre', b :: s' => (a =? b) && starts_with pre' s'
  | _ :: _, [] => false
  end.

(* fake.rs: list_objects: `prefix.is_none_or(|p| key.starts_with(p))` *)
Definition prefix_ok (pre : option (list N)) (key : list N) : bool :=
  match pre with None => true | Some p => starts_with p key end.

(* ================================================================================ *)
(* 4. expand_cloud_glob / expand_cloud_glob_required                                 *)
(* ================================================================================ *)
Inductive errkind : Type := InvalidInput | NotFound | InternalError.
Inductive outcome (A : Type) : Type := Ok (a : A) | Err (e : errkind).
Arguments Ok {A}. Arguments Err {A}.

(* String order (`Vec<String>::sort`): byte-wise on UTF-8 = lexicographic on code points *)
Fixpoint key_leb (a b : list N) : bool :=
  match a, b with
  | [], _ => true
  | _ :: _, [] => false
  | x :: a', y :: b' => if x <? y then true else if y <? x then false else key_leb a' b'
  end.

(* the sorted permutation of a list under a total order is unique, so any sorting algorithm
   models `sort()`; insertion sort is the simplest *)
Fixpoint key_insert (k : list N) (l : list (list N)) : list (list N) :=
  match l with
  | [] => [k]
  | y :: r => if key_leb k y then k :: l else y :: key_insert k r
  end.
Definition sort_keys (l : list (list N)) : list (list N) := fold_right key_insert [] l.

(* A bucket is the list of its keys (the key set of a HashMap: no duplicates, order
   irrelevant); `None` = the bucket does not exist (fake.rs: list_objects -> NotFound).
   The order of steps is the one of the code: Regex::new first, then list_objects(prefix),
   then filter by is_match, then sort. *)
Definition expand (bucket : option (list (list N))) (p : list N) : outcome (list (list N)) :=
  match parse (glob_to_regex p) with
  | None => Err InvalidInput               (* Regex::new failed *)
  | Some r =>
      match bucket with
      | None => Err NotFound
      | Some keys =>
          Ok (sort_keys (filter (rmatch r) (filter (prefix_ok (literal_prefix p)) keys)))
      end
  end.

Definition expand_required (bucket : option (list (list N))) (p : list N)
  : outcome (list (list N)) :=
  match expand bucket p with
  | Ok [] => Err NotFound
  | o => o
  end.

(* the specification: sorted list of exactly the keys matching the documented syntax *)
Definition expand_ref (keys : list (list N)) (p : list N) : list (list N) :=
  sort_keys (filter (glob_match p) keys).

(* ================================================================================ *)
(* 5. codec chosen from the key                                                      *)
(* ================================================================================ *)
Inductive codec : Type := Gzip | Zstd | Bzip2 | Xz.

(* ASCII lower-casing. str::to_lowercase is Unicode aware, but the only non-ASCII characters
   whose lower case contains an ASCII letter are U+212A (-> k) and U+0130 (-> i U+0307);
   neither can complete one of the suffixes below, so on the suffix tests both agree. *)
Definition lower (c : N) : N := if (65 <=? c) && (c <=? 90) then c + 32 else c.

(* str::ends_with, on the reversed strings (rev_append s [] = rev s, in linear time) *)
Definition ends_with (s suf : list N) : bool := starts_with (rev suf) (rev_append s []).

Definition ext_gz : list N := [46; 103; 122].             (* .gz *)
Definition ext_gzip : list N := [46; 103; 122; 105; 112]. (* .gzip *)
Definition ext_zst : list N := [46; 122; 115; 116].       (* .zst *)
Definition ext_zstd : list N := [46; 122; 115; 116; 100]. (* .zstd *)
Definition ext_bz2 : list N := [46; 98; 122; 50].         (* .bz2 *)
Definition ext_bzip2 : list N := [46; 98; 122; 105; 112; 50]. (* .bzip2 *)
Definition ext_xz : list N := [46; 120; 122].             (* .xz *)

(* compression.rs: init_registry order + CompressionCodec::extensions *)
Definition registry : list (codec * list (list N)) :=
  [(Gzip, [ext_gz; ext_gzip]); (Zstd, [ext_zst; ext_zstd]);
   (Bzip2, [ext_bz2; ext_bzip2]); (Xz, [ext_xz])].

(* compression.rs: detect_from_extension (reader side, via auto_detect_reader) *)
Fixpoint first_codec (lk : list N) (reg : list (codec * list (list N))) : option codec :=
  match reg with
  | [] => None
  | (c, exts) :: reg' => if existsb (ends_with lk) exts then Some c else first_codec lk reg'
  end.
Definition reader_ext_codec (key : list N) : option codec := first_codec (map lower key) registry.

(* readers.rs: write_cloud_jsonl_vec: the `has_suffix` if-chain (after the fix) *)
Definition writer_codec (key : list N) : option codec :=
  let lk := map lower key in
  let has_suffix := existsb (ends_with lk) in
  if has_suffix [ext_gz; ext_gzip] then Some Gzip
  else if has_suffix [ext_zst; ext_zstd] then Some Zstd
  else if has_suffix [ext_bz2; ext_bzip2] then Some Bzip2
  else if has_suffix [ext_xz] then Some Xz
  else None.

(* compression.rs: detect_from_magic on the stored BYTES (registry order; empty buffer = None) *)
Definition magic_gzip : list N := [31; 139].
Definition magic_zstd : list N := [40; 181; 47; 253].
Definition magic_bzip2 : list N := [66; 90; 104].
Definition magic_xz : list N := [253; 55; 122; 88; 90; 0].
Definition magic_codec (bytes : list N) : option codec :=
  match bytes with
  | [] => None
  | _ :: _ =>
      if starts_with magic_gzip bytes then Some Gzip
      else if starts_with magic_zstd bytes then Some Zstd
      else if starts_with magic_bzip2 bytes then Some Bzip2
      else if starts_with magic_xz bytes then Some Xz
      else None
  end.

(* first byte of a JSON document as serde_json::to_writer prints it:
   { [ double-quote - 0..9 t f n   -- none of them starts a codec signature, none is white space *)
Definition json_start (b : N) : bool :=
  (b =? 123) || (b =? 91) || (b =? 34) || (b =? 45) || ((48 <=? b) && (b <=? 57)) ||
  (b =? 116) || (b =? 102) || (b =? 110).

(* what the round trip needs from one serialised record: it starts like a JSON document and
   contains no raw LF / CR (serde_json escapes control characters inside strings and prints
   no white space between tokens) *)
Definition line_ok (l : list N) : bool :=
  match l with
  | [] => false
  | b :: _ => json_start b && forallb (fun c => negb (c =? 10) && negb (c =? 13)) l
  end.

(* ================================================================================ *)
(* 6. JSONL objects: write_cloud_jsonl_vec / read_cloud_jsonl_vec / read_cloud_jsonl_glob *)
(* ================================================================================ *)

(* BufRead::lines: split after every LF, drop the LF and one CR in front of it; a last
   line without LF is returned if it is non-empty *)
Definition strip_cr (rl : list N) : list N :=      (* rl = the line REVERSED *)
  rev (match rl with c :: r => if c =? 13 then r else rl | [] => [] end).
Fixpoint split_lines (cur : list N) (s : list N) : list (list N) :=  (* cur reversed *)
  match s with
  | [] => match cur with [] => [] | _ :: _ => [rev cur] end
  | c :: s' => if c =? 10 then strip_cr cur :: split_lines [] s'
               else split_lines (c :: cur) s'
  end.

(* `line.trim().is_empty()`: every character of the line has the Unicode property White_Space
   (U+0009..U+000D, U+0020, U+0085, U+00A0, U+1680, U+2000..U+200A, U+2028, U+2029, U+202F,
   U+205F, U+3000), read off the UTF-8 BYTES of the line:
     C2 85 | C2 A0 | E1 9A 80 | E2 80 80..8A | E2 80 A8 | E2 80 A9 | E2 80 AF | E2 81 9F | E3 80 80 *)
Definition is_ws (c : N) : bool := ((9 <=? c) && (c <=? 13)) || (c =? 32).
Fixpoint is_blank (l : list N) : bool :=
  match l with
  | [] => true
  | c :: r =>
      if is_ws c then is_blank r
      else if c =? 194 then
        match r with
        | d :: r2 => ((d =? 133) || (d =? 160)) && is_blank r2
        | [] => false
        end
      else if c =? 225 then
        match r with
        | d :: e :: r3 => (d =? 154) && (e =? 128) && is_blank r3
        | _ => false
        end
      else if c =? 226 then
        match r with
        | d :: e :: r3 =>
            (((d =? 128) && (((128 <=? e) && (e <=? 138)) || (e =? 168) || (e =? 169) || (e =? 175)))
             || ((d =? 129) && (e =? 159))) && is_blank r3
        | _ => false
        end
      else if c =? 227 then
        match r with
        | d :: e :: r3 => (d =? 128) && (e =? 128) && is_blank r3
        | _ => false
        end
      else false
  end.

Definition store : Type := list (list N * list N).   (* one bucket: key -> bytes *)

Fixpoint list_eqb (a b : list N) : bool :=
  match a, b with
  | [], [] => true
  | x :: a', y :: b' => (x =? y) && list_eqb a' b'
  | _, _ => false
  end.

(* HashMap::insert / get *)
Fixpoint put (st : store) (k v : list N) : store :=
  match st with
  | [] => [(k, v)]
  | (k', v') :: r => if list_eqb k k' then (k, v) :: r else (k', v') :: put r k v
  end.
Fixpoint get (st : store) (k : list N) : option (list N) :=
  match st with
  | [] => None
  | (k', v') :: r => if list_eqb k k' then Some v' else get r k
  end.

Section Jsonl.
  Variable R : Type.
  Variable ser : R -> list N.                        (* serde_json::to_writer *)
  Variable de : list N -> option R.                  (* serde_json::from_str *)
  Variable enc : codec -> list N -> list N.          (* whole-stream encoder of the codec *)
  Variable dec : codec -> list N -> option (list N). (* decoder; None = any read error *)

  Definition jsonl_payload (rs : list R) : list N := flat_map (fun r => ser r ++ [10]) rs.

  Definition object_bytes (key : list N) (rs : list R) : list N :=
    match writer_codec key with
    | Some c => enc c (jsonl_payload rs)
    | None => jsonl_payload rs
    end.

  (* returns Ok(data.len()); put_object of the fake store cannot fail *)
  Definition cloud_write (st : store) (key : list N) (rs : list R) : store :=
    put st key (object_bytes key rs).

  (* auto_detect_reader(cursor, key): extension first, then magic bytes, else as is *)
  Definition reader_bytes (key stored : list N) : option (list N) :=
    match reader_ext_codec key with
    | Some c => dec c stored
    | None => match magic_codec stored with
              | Some c => dec c stored
              | None => Some stored
              end
    end.

  Fixpoint parse_lines (ls : list (list N)) : option (list R) :=
    match ls with
    | [] => Some []
    | l :: ls' =>
        if is_blank l then parse_lines ls'
        else match de l with
             | Some r => match parse_lines ls' with Some rs => Some (r :: rs) | None => None end
             | None => None
             end
    end.

  Definition cloud_read (st : store) (key : list N) : outcome (list R) :=
    match get st key with
    | None => Err NotFound
    | Some stored =>
        match reader_bytes key stored with
        | None => Err InternalError
        | Some text =>
            match parse_lines (split_lines [] text) with
            | Some rs => Ok rs
            | None => Err InternalError
            end
        end
    end.

  (* `for key in keys { all.extend(read_cloud_jsonl_vec(key)?) }` *)
  Fixpoint read_all (st : store) (ks : list (list N)) : outcome (list R) :=
    match ks with
    | [] => Ok []
    | k :: ks' =>
        match cloud_read st k with
        | Err e => Err e
        | Ok rs => match read_all st ks' with Ok rest => Ok (rs ++ rest) | Err e => Err e end
        end
    end.

  (* a bucket exists in the fake store as soon as something was put into it *)
  Definition bucket_of (st : store) : option (list (list N)) :=
    match st with [] => None | _ :: _ => Some (map fst st) end.

  Definition read_glob (st : store) (p : list N) : outcome (list R) :=
    match expand (bucket_of st) p with
    | Err e => Err e
    | Ok ks => read_all st ks
    end.
End Jsonl.

Arguments jsonl_payload {R}.
Arguments object_bytes {R}.
Arguments cloud_write {R}.
Arguments parse_lines {R}.
Arguments cloud_read {R}.
Arguments read_all {R}.
Arguments read_glob {R}.
