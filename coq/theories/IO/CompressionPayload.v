(* Model parts for the SIZE dimension of C10 (definitions only, no proofs):
     - the serialised text of a list of (key, value) records as the JSONL writers
       (serde_json::to_writer + '\n', struct {k: String, v: i64}) and the CSV writers
       (csv::Writer::serialize of (String, i64), no header) produce it, for keys that need no
       escaping / quoting;
     - payloads described by generator parameters (number of records, key lengths, a key-character
       function): what the correspondence harness writes for big cases;
     - BufReader as the state machine that auto_detect_reader relies on (fill_buf peeks without
       consuming; later reads drain the buffer first, then the underlying reader);
     - a directory / object store in which a second write to the same name replaces the first
       (File::create truncates, ObjectIO::put_object overwrites).
   Record <-> text itself is property C09; here the text only has to be the right byte string so
   that the codec layer is exercised on realistic sizes. *)
From Coq Require Import List ZArith NArith Bool.
From IB Require Import IO.Compression.
Import ListNotations.
Open Scope Z_scope.

(* ---------- decimal rendering (itoa) ---------- *)
Fixpoint dec_digits_fuel (fuel : nat) (n : N) (acc : bytes) : bytes :=
  match fuel with
  | O => acc
  | S f =>
      let acc' := (48 + Z.of_N (N.modulo n 10)) :: acc in
      if (n <? 10)%N then acc' else dec_digits_fuel f (N.div n 10) acc'
  end.
(* a number below 2^(k+1) has at most k+1 decimal digits *)
Definition dec_digits (n : N) : bytes := dec_digits_fuel (S (N.to_nat (N.log2 n))) n [].

(* ---------- record text ---------- *)
Definition prec := (bytes * N)%type.

(* {"k":"<key>","v":<v>}\n *)
Definition jsonl_open : bytes := [123; 34; 107; 34; 58; 34].
Definition jsonl_mid : bytes := [34; 44; 34; 118; 34; 58].
(* the line without its terminator: what BufRead::lines hands to serde_json::from_str *)
Definition jsonl_body (r : prec) : bytes :=
  jsonl_open ++ fst r ++ jsonl_mid ++ dec_digits (snd r) ++ [125].
Definition jsonl_line (r : prec) : bytes :=
  jsonl_open ++ fst r ++ jsonl_mid ++ dec_digits (snd r) ++ [125; 10].
(* keys that contain no line terminator (the generated ones are alphanumeric) *)
Definition key_one_line (k : bytes) : Prop := forall x, In x k -> x <> 10 /\ x <> 13.
(* <key>,<v>\n *)
Definition csv_line (r : prec) : bytes := fst r ++ 44 :: dec_digits (snd r) ++ [10].

Definition jsonl_text (rs : list prec) : bytes := flat_map jsonl_line rs.
Definition csv_text (rs : list prec) : bytes := flat_map csv_line rs.

Definition jsonl_line_len (r : prec) : nat := 14 + length (fst r) + length (dec_digits (snd r)).
Definition csv_line_len (r : prec) : nat := 2 + length (fst r) + length (dec_digits (snd r)).
Definition sum_nat (l : list nat) : nat := fold_right Nat.add 0%nat l.

(* ---------- payloads by generator parameters ---------- *)
(* n records (key_i, i), i = 0 .. n-1; key_0 has k0len characters, every other key klen *)
Record pgen := { pg_n : N; pg_klen : N; pg_k0len : N }.

Definition nrange (n : N) : list N := map N.of_nat (seq 0 (N.to_nat n)).

Section Payload.
  Variable keychar : N -> N -> Z.      (* record index -> position -> character *)
  Definition pl_keylen (g : pgen) (i : N) : N := if (i =? 0)%N then pg_k0len g else pg_klen g.
  Definition pl_key (g : pgen) (i : N) : bytes := map (keychar i) (nrange (pl_keylen g i)).
  Definition pl_rec (g : pgen) (i : N) : prec := (pl_key g i, i).
  Definition pl_recs (g : pgen) : list prec := map (pl_rec g) (nrange (pg_n g)).
End Payload.

(* sum of the numbers of decimal digits of 0 .. n-1: every number has one digit, those >= 10 a
   second one, those >= 100 a third one, ... *)
Fixpoint sumdigits_fuel (fuel : nat) (p n : N) : N :=
  match fuel with
  | O => 0%N
  | S f => if (p <? n)%N then ((n - p) + sumdigits_fuel f (p * 10) n)%N else 0%N
  end.
Definition sumdigits (n : N) : N := (n + sumdigits_fuel 40 10 n)%N.

(* closed-form length of the text of a payload; `over` = 14 (JSONL) or 2 (CSV) *)
Definition pl_keys_len (g : pgen) : N :=
  if (pg_n g =? 0)%N then 0%N else (pg_k0len g + (pg_n g - 1) * pg_klen g)%N.
Definition pl_text_len (over : N) (g : pgen) : N :=
  (over * pg_n g + pl_keys_len g + sumdigits (pg_n g))%N.

(* ---------- BufReader ----------
   std::io::BufReader<R> over an in-memory / regular-file reader whose read() fills the whole
   request while data remains (library contract, see props/C10.json):
   state = (bytes in the buffer not yet consumed, bytes the underlying reader has not delivered). *)
Record bufreader := { br_buf : bytes; br_rest : bytes }.
Definition br_new (content : bytes) : bufreader := {| br_buf := []; br_rest := content |}.
(* fill_buf: refill only when the buffer is empty; consumes nothing *)
Definition br_fill (cap : nat) (b : bufreader) : bufreader :=
  match br_buf b with
  | [] => {| br_buf := firstn cap (br_rest b); br_rest := skipn cap (br_rest b) |}
  | _ => b
  end.
Definition br_peek (cap : nat) (b : bufreader) : bytes := br_buf (br_fill cap b).
(* read(buf) with buf.len() = k: an empty buffer and k >= capacity bypasses the buffer; otherwise
   fill_buf, copy min(k, available), consume *)
Definition br_read (cap : nat) (k : nat) (b : bufreader) : bytes * bufreader :=
  match br_buf b with
  | [] =>
      if (cap <=? k)%nat then
        (firstn k (br_rest b), {| br_buf := []; br_rest := skipn k (br_rest b) |})
      else
        let b' := br_fill cap b in
        (firstn k (br_buf b'), {| br_buf := skipn k (br_buf b'); br_rest := br_rest b' |})
  | _ => (firstn k (br_buf b), {| br_buf := skipn k (br_buf b); br_rest := br_rest b |})
  end.
(* a consumer (decoder, line reader) issuing reads of the given sizes: the chunks it receives *)
Fixpoint br_reads (cap : nat) (ks : list nat) (b : bufreader) : list bytes * bufreader :=
  match ks with
  | [] => ([], b)
  | k :: ks' =>
      let '(c, b') := br_read cap k b in
      let '(cs, b'') := br_reads cap ks' b' in
      (c :: cs, b'')
  end.
(* everything a reader can still deliver *)
Definition br_remaining (b : bufreader) : bytes := br_buf b ++ br_rest b.
(* auto_detect_reader's magic branch: BufReader::new(reader), fill_buf (the peek), then the
   BufReader itself is handed to the decoder / returned *)
Definition br_after_peek (content : bytes) : bufreader := br_fill buf_capacity (br_new content).

(* ---------- a directory / an object store ---------- *)
Fixpoint bytes_eqb (a b : bytes) : bool :=
  match a, b with
  | [], [] => true
  | x :: a', y :: b' => (x =? y) && bytes_eqb a' b'
  | _, _ => false
  end.
Definition store := list (bytes * bytes).      (* name -> content *)
Fixpoint store_get (st : store) (name : bytes) : option bytes :=
  match st with
  | [] => None
  | (k, v) :: t => if bytes_eqb k name then Some v else store_get t name
  end.
(* File::create(path) + write + flush / ObjectIO::put_object: the whole content is replaced *)
Fixpoint store_put (st : store) (name v : bytes) : store :=
  match st with
  | [] => [(name, v)]
  | (k, v') :: t => if bytes_eqb k name then (k, v) :: t else (k, v') :: store_put t name v
  end.

Section StoreIO.
  Variable enc : cid -> bytes -> bytes.
  Variable dec : cid -> bytes -> option bytes.
  (* one call of writer entry point w *)
  Definition store_write (reg : list centry) (st : store) (w : writer_ep) (name b : bytes) : store :=
    store_put st name (write_in enc reg w name b).
  (* one call of reader entry point r; a missing file / object is an error *)
  Definition store_read (reg : list centry) (st : store) (r : reader_ep) (name : bytes)
    : option bytes :=
    match store_get st name with
    | Some s => read_in dec reg r name s
    | None => None
    end.
End StoreIO.
