(* Model of the object store of src/io/cloud/fake.rs (FakeObjectIO: buckets -> keys -> bytes,
   with delete_object / copy_object / object_exists / list_objects) and of the functions of
   src/io/cloud/readers.rs run against ONE store that holds SEVERAL buckets and lives through a
   sequence of calls; plus a loose JSONL text (CRLF line ends, blank lines, padding, missing final
   line feed) as read_cloud_jsonl_vec accepts it, and a merge sort of keys that the
   correspondence uses for buckets with thousands of objects.
   Definitions only; proofs are in Proofs/CloudStoreProofs.v. *)
From Coq Require Import List NArith Bool.
From IB Require Import IO.Regex IO.CloudGlob.
Import ListNotations.
Open Scope N_scope.

(* ================================================================================ *)
(* 1. FakeObjectIO: `Arc<Mutex<HashMap<String, HashMap<String, Vec<u8>>>>>`          *)
(* ================================================================================ *)

(* HashMap::remove (every binding of the key; `put` keeps at most one) *)
Fixpoint remove (st : store) (k : list N) : store :=
  match st with
  | [] => []
  | (k', v') :: r => if list_eqb k k' then remove r k else (k', v') :: remove r k
  end.

Definition mstore : Type := list (list N * store).     (* bucket name -> objects *)

Fixpoint bget (ms : mstore) (b : list N) : option store :=
  match ms with
  | [] => None
  | (b', st) :: r => if list_eqb b b' then Some st else bget r b
  end.
Fixpoint bset (ms : mstore) (b : list N) (st : store) : mstore :=
  match ms with
  | [] => [(b, st)]
  | (b', st') :: r => if list_eqb b b' then (b, st) :: r else (b', st') :: bset r b st
  end.

(* the objects of a bucket; a bucket that was never written to has none *)
Definition bucket_store (ms : mstore) (b : list N) : store :=
  match bget ms b with Some st => st | None => [] end.

(* put_object: `entry(bucket).or_default().insert(key, data)` - creates the bucket *)
Definition ms_put (ms : mstore) (b k v : list N) : mstore :=
  bset ms b (put (bucket_store ms b) k v).

(* get_object: None = NotFound (missing bucket or missing key) *)
Definition ms_get (ms : mstore) (b k : list N) : option (list N) := get (bucket_store ms b) k.

(* delete_object: `if let Some(m) = get_mut(bucket) { m.remove(key); }` - never an error, the
   bucket stays (possibly empty) *)
Definition ms_delete (ms : mstore) (b k : list N) : mstore :=
  match bget ms b with
  | Some st => bset ms b (remove st k)
  | None => ms
  end.

(* object_exists *)
Definition ms_exists (ms : mstore) (b k : list N) : bool :=
  match ms_get ms b k with Some _ => true | None => false end.

(* the key set list_objects works on: None = the bucket does not exist (-> NotFound) *)
Definition ms_keys (ms : mstore) (b : list N) : option (list (list N)) :=
  match bget ms b with Some st => Some (map fst st) | None => None end.

(* list_objects(bucket, prefix): the keys with that prefix (sorted by the fake store; the
   ObjectIO contract promises no order) *)
Definition ms_list (ms : mstore) (b : list N) (pre : option (list N))
  : outcome (list (list N)) :=
  match ms_keys ms b with
  | None => Err NotFound
  | Some ks => Ok (sort_keys (filter (prefix_ok pre) ks))
  end.

(* copy_object: get_object(src)? then put_object(dst) *)
Definition ms_copy (ms : mstore) (sb sk db dk : list N) : outcome mstore :=
  match ms_get ms sb sk with
  | None => Err NotFound
  | Some v => Ok (ms_put ms db dk v)
  end.

(* ================================================================================ *)
(* 2. readers.rs over that store                                                     *)
(* ================================================================================ *)
Section Readers.
  Variable R : Type.
  Variable ser : R -> list N.
  Variable de : list N -> option R.
  Variable enc : codec -> list N -> list N.
  Variable dec : codec -> list N -> option (list N).

  (* write_cloud_jsonl_vec(storage, bucket, key, data) *)
  Definition ms_write (ms : mstore) (b k : list N) (rs : list R) : mstore :=
    ms_put ms b k (object_bytes ser enc k rs).

  (* read_cloud_jsonl_vec(storage, bucket, key) *)
  Definition ms_read (ms : mstore) (b k : list N) : outcome (list R) :=
    cloud_read de dec (bucket_store ms b) k.

  (* expand_cloud_glob / expand_cloud_glob_required (storage, bucket, pattern) *)
  Definition ms_expand (ms : mstore) (b p : list N) : outcome (list (list N)) :=
    expand (ms_keys ms b) p.
  Definition ms_expand_required (ms : mstore) (b p : list N) : outcome (list (list N)) :=
    expand_required (ms_keys ms b) p.

  (* read_cloud_jsonl_glob(storage, bucket, pattern) *)
  Definition ms_read_glob (ms : mstore) (b p : list N) : outcome (list R) :=
    match ms_expand ms b p with
    | Err e => Err e
    | Ok ks => read_all de dec (bucket_store ms b) ks
    end.

  (* a call sequence on one store *)
  Inductive op : Type :=
  | OWrite (b k : list N) (rs : list R)          (* write_cloud_jsonl_vec *)
  | OPut (b k : list N) (bytes : list N)         (* put_object of raw bytes *)
  | ODelete (b k : list N)                       (* delete_object *)
  | OCopy (sb sk db dk : list N).                (* copy_object; an error changes nothing *)

  Definition step (ms : mstore) (o : op) : mstore :=
    match o with
    | OWrite b k rs => ms_write ms b k rs
    | OPut b k v => ms_put ms b k v
    | ODelete b k => ms_delete ms b k
    | OCopy sb sk db dk => match ms_copy ms sb sk db dk with Ok ms' => ms' | Err _ => ms end
    end.
  Definition run_ops (ms : mstore) (ops : list op) : mstore := fold_left step ops ms.

  (* what a (bucket, key) slot holds after a sequence of writes and deletes, as the LAST call
     that named it says: Some (Some rs) = these records, Some None = deleted, None = untouched *)
  Definition slot_eqb (b k b' k' : list N) : bool := list_eqb b b' && list_eqb k k'.
  Fixpoint last_on (ops : list op) (b k : list N) (acc : option (option (list R)))
    : option (option (list R)) :=
    match ops with
    | [] => acc
    | OWrite b' k' rs :: r => last_on r b k (if slot_eqb b k b' k' then Some (Some rs) else acc)
    | ODelete b' k' :: r => last_on r b k (if slot_eqb b k b' k' then Some None else acc)
    | _ :: r => last_on r b k acc
    end.
  (* the sequence consists of writes and deletes only *)
  Definition wd_op (o : op) : bool :=
    match o with OWrite _ _ _ | ODelete _ _ => true | _ => false end.
  (* some write goes to bucket b (a delete never creates a bucket) *)
  Definition writes_to (b : list N) (o : op) : bool :=
    match o with OWrite b' _ _ => list_eqb b b' | _ => false end.
End Readers.

Arguments ms_write {R}.
Arguments ms_read {R}.
Arguments ms_read_glob {R}.
Arguments OWrite {R}.
Arguments OPut {R}.
Arguments ODelete {R}.
Arguments OCopy {R}.
Arguments step {R}.
Arguments run_ops {R}.
Arguments last_on {R}.
Arguments wd_op {R}.
Arguments writes_to {R}.

(* ================================================================================ *)
(* 3. loose JSONL text: what read_cloud_jsonl_vec accepts besides the writer's output  *)
(* ================================================================================ *)
(* JSON white space inside a line (serde_json skips it around a document): space, tab, CR *)
Definition is_pad (c : N) : bool := (c =? 32) || (c =? 9) || (c =? 13).

Definition eol_bytes (crlf : bool) : list N := if crlf then [13; 10] else [10].

Section Loose.
  Variable R : Type.
  Variable ser : R -> list N.

  Inductive item : Type :=
  | IRec (pre : list N) (r : R) (post : list N) (crlf : bool)  (* padded record line *)
  | IBlank (ws : list N) (crlf : bool).                         (* a white-space-only line *)

  Definition item_bytes (i : item) : list N :=
    match i with
    | IRec pre r post crlf => pre ++ ser r ++ post ++ eol_bytes crlf
    | IBlank ws crlf => ws ++ eol_bytes crlf
    end.
  Definition item_recs (i : item) : list R :=
    match i with IRec _ r _ _ => [r] | IBlank _ _ => [] end.

  (* the text: the items, then optionally a last record line WITHOUT line feed *)
  Definition loose_text (items : list item) (last : option R) : list N :=
    flat_map item_bytes items ++ match last with Some r => ser r | None => [] end.
  Definition loose_recs (items : list item) (last : option R) : list R :=
    flat_map item_recs items ++ match last with Some r => [r] | None => [] end.
End Loose.

Arguments IRec {R}.
Arguments IBlank {R}.
Arguments item_bytes {R}.
Arguments item_recs {R}.
Arguments loose_text {R}.
Arguments loose_recs {R}.

(* ================================================================================ *)
(* 4. merge sort of keys (bottom up). `Vec<String>::sort` returns THE sorted permutation, *)
(*    whatever the algorithm (Props/C19.v: c19_sorted_result_unique); this one is what the *)
(*    correspondence runs on buckets with thousands of objects, where the insertion sort   *)
(*    of IO/CloudGlob.v is too slow. Proofs/CloudStoreProofs.v: msort_keys = sort_keys.    *)
(* ================================================================================ *)
Fixpoint kmerge (a : list (list N)) : list (list N) -> list (list N) :=
  match a with
  | [] => fun b => b
  | x :: a' =>
      fix inner (b : list (list N)) : list (list N) :=
        match b with
        | [] => a
        | y :: b' => if key_leb x y then x :: kmerge a' b else y :: inner b'
        end
  end.
Fixpoint merge_pairs (ls : list (list (list N))) : list (list (list N)) :=
  match ls with
  | a :: b :: r => kmerge a b :: merge_pairs r
  | _ => ls
  end.
Fixpoint msort_loop (fuel : nat) (ls : list (list (list N))) : list (list N) :=
  match ls with
  | [] => []
  | [a] => a
  | _ :: _ :: _ =>
      match fuel with
      | O => concat ls                 (* not reached: fuel = number of runs *)
      | S f => msort_loop f (merge_pairs ls)
      end
  end.
Definition msort_keys (l : list (list N)) : list (list N) :=
  msort_loop (List.length l) (map (fun k => [k]) l).

(* expand with the merge sort *)
Definition expand_fast (bucket : option (list (list N))) (p : list N) : outcome (list (list N)) :=
  match parse (glob_to_regex p) with
  | None => Err InvalidInput
  | Some r =>
      match bucket with
      | None => Err NotFound
      | Some keys =>
          Ok (msort_keys (filter (rmatch r) (filter (prefix_ok (literal_prefix p)) keys)))
      end
  end.
