(* C09 model, part 1: the TILING logic of the file sources and parallel writers.
   Definitions only (no proofs). Arithmetic is on binary naturals `N` (unbounded); the Rust code
   works on u64 / usize. Proofs/ShardsProofs.v shows that no intermediate value exceeds twice the
   total (so nothing can wrap for any file / slice that can exist: totals < 2^63).

   Rust sources transcribed:
     ranges        /repo/src/io/jsonl.rs  build_jsonl_shards  (the part after line counting)
                   /repo/src/io/csv.rs    build_csv_shards    (identical arithmetic)
     group_ranges  /repo/src/io/parquet.rs build_parquet_shards (the `while start < num_groups` loop)
     par_ranges    /repo/src/io/jsonl.rs  write_jsonl_par     (shard count, chunk, start/end of shard i)
     split_ranges  /repo/src/io/csv.rs    split_ranges
     csv_shard_count /repo/src/io/csv.rs  write_csv_par       (shard count)
   *)
From Coq Require Import List NArith Bool.
Import ListNotations.
Open Scope N_scope.

(* a half-open interval [fst, snd) of line / row / row-group indices *)
Definition range := (N * N)%type.
Definition rsize (r : range) : N := snd r - fst r.

(* 0, 1, ..., k-1  (Rust: `0..k`) *)
Definition nseq (k : N) : list N := map N.of_nat (seq 0 (N.to_nat k)).

(* u64::div_ceil / usize::div_ceil (b > 0 at every call site):  d = a / b; if a % b > 0 { d + 1 } *)
Definition div_ceil (a b : N) : N := if a mod b =? 0 then a / b else a / b + 1.

(* usize::clamp(lo, hi) *)
Definition clamp (x lo hi : N) : N := if x <? lo then lo else if hi <? x then hi else x.

(* ---------------------------------------------------------------------------------------
   build_jsonl_shards / build_csv_shards:
     if total == 0 { ranges: vec![] }
     let lps = lines_per_shard.max(1); let shards = total.div_ceil(lps);
     for i in 0..shards { start = i * lps; end = ((i + 1) * lps).min(total); push((start, end)) } *)
Definition ranges (total per : N) : list range :=
  if total =? 0 then []
  else
    let lps := N.max per 1 in
    let shards := div_ceil total lps in
    map (fun i => (i * lps, N.min ((i + 1) * lps) total)) (nseq shards).

(* ---------------------------------------------------------------------------------------
   build_parquet_shards:
     if num_groups == 0 { group_ranges: vec![] }
     let g = groups_per_shard.max(1); let mut start = 0;
     while start < num_groups { let end = (start + g).min(num_groups); push((start,end)); start = end; }
   The `while` loop is given `num_groups` units of fuel; Proofs/ShardsProofs.v (group_ranges_tile)
   shows the fuel is never exhausted before `start = num_groups`. *)
Fixpoint group_loop (fuel : nat) (start g ng : N) : list range :=
  match fuel with
  | O => []
  | S f =>
      if start <? ng then
        let e := N.min (start + g) ng in
        (start, e) :: group_loop f e g ng
      else []
  end.
Definition group_ranges (ng per : N) : list range :=
  if ng =? 0 then [] else group_loop (N.to_nat ng) 0 (N.max per 1) ng.

(* ---------------------------------------------------------------------------------------
   write_jsonl_par (n = data.len() > 0; n == 0 is handled before: the file is only touched):
     let shards = shards.unwrap_or_else(|| num_cpus::get().max(2)).clamp(1, n);
     let chunk = n.div_ceil(shards);
     shard i in 0..shards:  start = (i * chunk).min(n);  end = ((i + 1) * chunk).min(n);
   `shards` below is the already unwrapped request (see jsonl_default_shards). *)
Definition jsonl_default_shards (num_cpus : N) : N := N.max num_cpus 2.
Definition par_shard_count (n shards : N) : N := clamp shards 1 n.
Definition par_chunk (n shards : N) : N := div_ceil n (par_shard_count n shards).
Definition par_ranges (n shards : N) : list range :=
  if n =? 0 then []
  else
    let sh := par_shard_count n shards in
    let chunk := div_ceil n sh in
    map (fun i => (N.min (i * chunk) n, N.min ((i + 1) * chunk) n)) (nseq sh).

(* The code BEFORE the repair (commit 0fc3451): `let start = i * chunk;` without the `.min(n)`.
   Kept only to document the regression (Props/C09.v, c09_par_write_jsonl_old_refuted). *)
Definition par_ranges_old (n shards : N) : list range :=
  if n =? 0 then []
  else
    let sh := par_shard_count n shards in
    let chunk := div_ceil n sh in
    map (fun i => (i * chunk, N.min ((i + 1) * chunk) n)) (nseq sh).

(* ---------------------------------------------------------------------------------------
   csv.rs split_ranges(len, parts) -> Vec<(chunk_idx, start, end)>:
     let parts = parts.max(1).min(len.max(1)); let base = len / parts; let rem = len % parts;
     let mut start = 0;
     for idx in 0..parts { let extra = usize::from(idx < rem); let end = start + base + extra;
                           if start < end { out.push((idx, start, end)); } start = end; } *)
Fixpoint split_loop (k : nat) (idx start base rem : N) : list (N * range) :=
  match k with
  | O => []
  | S k' =>
      let extra := if idx <? rem then 1 else 0 in
      let e := start + base + extra in
      (if start <? e then [(idx, (start, e))] else []) ++ split_loop k' (idx + 1) e base rem
  end.
Definition split_parts (len parts : N) : N := N.min (N.max parts 1) (N.max len 1).
Definition split_ranges (len parts : N) : list (N * range) :=
  let p := split_parts len parts in
  split_loop (N.to_nat p) 0 0 (len / p) (len mod p).

(* write_csv_par: shards.unwrap_or_else(|| 2 * num_cpus::get().max(2)).clamp(1, n)   (n > 0) *)
Definition csv_default_shards (num_cpus : N) : N := 2 * N.max num_cpus 2.
Definition csv_shard_count (n shards : N) : N := clamp shards 1 n.

(* ---------------------------------------------------------------------------------------
   Slicing. `&data[start..end]` panics when start > end or end > len: slice_checked = None. *)
Definition slice {A} (l : list A) (r : range) : list A :=
  firstn (N.to_nat (snd r - fst r)) (skipn (N.to_nat (fst r)) l).
Definition nlen {A} (l : list A) : N := N.of_nat (length l).
Definition valid_range (len : N) (r : range) : bool := (fst r <=? snd r) && (snd r <=? len).
Definition slice_checked {A} (l : list A) (r : range) : option (list A) :=
  if valid_range (nlen l) r then Some (slice l r) else None.

(* ---------------------------------------------------------------------------------------
   What "tiles" means: the ranges form a chain a = s0 <= e0 = s1 <= e1 = ... = b. *)
Fixpoint chain (a : N) (rs : list range) (b : N) : Prop :=
  match rs with
  | [] => a = b
  | r :: rest => fst r = a /\ fst r <= snd r /\ chain (snd r) rest b
  end.
Fixpoint chainb (a : N) (rs : list range) (b : N) : bool :=
  match rs with
  | [] => a =? b
  | r :: rest => (fst r =? a) && (fst r <=? snd r) && chainb (snd r) rest b
  end.

(* outcome of an operation of the real code *)
Inductive outcome (A : Type) : Type :=
| Ok (a : A)
| Err          (* the function returned Err(..) *)
| Panic.       (* the function panicked *)
Arguments Ok {A} a.
Arguments Err {A}.
Arguments Panic {A}.
