(* C09 model, part 2: FRAMING of the file formats and how the sources / writers use the tilings of
   IO/Shards.v. Definitions only (no proofs).

   Libraries are parameters (Section variables), validated by the correspondence runs only:
     de / ser      serde_json::from_str / to_writer for the record type
     csv_out       the bytes a csv::Writer (has_headers flag) produces for a list of records
     parquet row groups, glob matching
   What IS modelled: BufRead::lines, `line.trim().is_empty()`, the read loops with their index
   arithmetic, the VecOps adapters (split / clone_any) as the runner uses them, the writers'
   chunking and concatenation, the sort of the glob result.

   Rust sources transcribed:
     lines                       std BufRead::lines (split at \n, one trailing \r removed)
     blank_line                  `line.trim().is_empty()` (str::trim = Unicode White_Space)
     read_vec                    /repo/src/io/jsonl.rs read_jsonl_vec
     read_from / read_range      /repo/src/io/jsonl.rs read_jsonl_range
     build_shards, vec_split, vec_clone_any     build_jsonl_shards, JsonlVecOps::{split, clone_any}
     stream_seq / stream_par     /repo/src/runner.rs exec_seq (Source arm) / exec_par (head Source +
                                 terminal collection) for a pipeline that is just the source
     write_all / write_par_with  write_jsonl_vec / write_jsonl_par
     csv_write_seq / csv_write_par   /repo/src/io/csv.rs write_csv_vec / write_csv_par
     rows_*                      CsvVecOps (rows = the deserialised data rows of the file)
     pq_*                        /repo/src/io/parquet.rs ParquetVecOps, read_parquet_row_group_range
     sort_paths / read_glob      /repo/src/io/glob.rs expand_glob + the glob arm of
                                 helpers::{jsonl::read_jsonl, csv::read_csv, parquet::read_parquet_streaming} *)
From Coq Require Import List ZArith NArith Bool.
From IB Require Import IO.Shards.
Import ListNotations.
Open Scope Z_scope.

(* ---------- bytes -> lines (BufRead::lines) ---------- *)
Definition starts_with_nl (bs : list Z) : bool :=
  match bs with b :: _ => b =? 10 | [] => false end.

(* a line ends at \n (removed, together with ONE \r directly before it); bytes after the last \n
   form a final line when there are any (a \r at the very end of the file is kept) *)
Fixpoint lines (bs : list Z) : list (list Z) :=
  match bs with
  | [] => []
  | b :: r =>
      if b =? 10 then [] :: lines r
      else if (b =? 13) && starts_with_nl r then lines r
      else match lines r with
           | [] => [[b]]
           | l :: ls => (b :: l) :: ls
           end
  end.

(* `line.trim().is_empty()`: every character has the Unicode property White_Space
   (U+0009..U+000D, U+0020, U+0085, U+00A0, U+1680, U+2000..U+200A, U+2028, U+2029, U+202F,
   U+205F, U+3000), read off the UTF-8 bytes. *)
Fixpoint blank_line (l : list Z) : bool :=
  match l with
  | [] => true
  | b :: r =>
      if ((9 <=? b) && (b <=? 13)) || (b =? 32) then blank_line r
      else match r with
           | c :: r1 =>
               if (b =? 194) && ((c =? 133) || (c =? 160)) then blank_line r1
               else match r1 with
                    | d :: r2 =>
                        if ((b =? 225) && (c =? 154) && (d =? 128))
                           || ((b =? 226) && (c =? 128)
                               && (((128 <=? d) && (d <=? 138)) || (d =? 168) || (d =? 169) || (d =? 175)))
                           || ((b =? 226) && (c =? 129) && (d =? 159))
                           || ((b =? 227) && (c =? 128) && (d =? 128))
                        then blank_line r2 else false
                    | [] => false
                    end
           | [] => false
           end
  end.

Fixpoint otraverse {A B} (f : A -> option B) (l : list A) : option (list B) :=
  match l with
  | [] => Some []
  | x :: r => match f x with
              | Some y => match otraverse f r with Some ys => Some (y :: ys) | None => None end
              | None => None
              end
  end.

Section Jsonl.
  Context {R : Type}.
  Variable de : list Z -> option R.      (* serde_json::from_str::<T>(&line).ok() *)
  Variable ser : R -> list Z.            (* serde_json::to_writer, compact *)

  (* read_jsonl_vec: for line in lines { if line.trim().is_empty() { continue } out.push(from_str(&line)?) } *)
  Fixpoint read_vec (ls : list (list Z)) : outcome (list R) :=
    match ls with
    | [] => Ok []
    | l :: r =>
        if blank_line l then read_vec r
        else match de l with
             | None => Err
             | Some v => match read_vec r with Ok vs => Ok (v :: vs) | o => o end
             end
    end.

  (* read_jsonl_range(src, start, end):
       for (i, line) in lines.enumerate() { if i < start { continue } if i >= end { break }
                                            if line.trim().is_empty() { continue } out.push(from_str(&line)?) } *)
  Fixpoint read_from (i : N) (ls : list (list Z)) (s e : N) : outcome (list R) :=
    match ls with
    | [] => Ok []
    | l :: r =>
        if (i <? s)%N then read_from (i + 1)%N r s e
        else if (e <=? i)%N then Ok []
        else if blank_line l then read_from (i + 1)%N r s e
        else match de l with
             | None => Err
             | Some v => match read_from (i + 1)%N r s e with Ok vs => Ok (v :: vs) | o => o end
             end
    end.
  Definition read_range (ls : list (list Z)) (r : range) : outcome (list R) :=
    read_from 0%N ls (fst r) (snd r).

  (* build_jsonl_shards: total = number of lines (blank ones included) *)
  Definition total_lines (ls : list (list Z)) : N := nlen ls.
  Definition build_shards (ls : list (list Z)) (per : N) : list range := ranges (total_lines ls) per.

  Definition to_option {A} (o : outcome A) : option A := match o with Ok a => Some a | _ => None end.

  (* JsonlVecOps::split: one partition per range, `read_jsonl_range(..).ok()?` *)
  Definition vec_split (ls : list (list Z)) (rs : list range) : option (list (list R)) :=
    otraverse (fun r => to_option (read_range ls r)) rs.
  (* JsonlVecOps::clone_any: read_jsonl_range(s, 0, s.total_lines).ok() *)
  Definition vec_clone_any (ls : list (list Z)) : option (list R) :=
    to_option (read_range ls (0%N, total_lines ls)).

  (* read_jsonl_streaming(..).collect_seq(): exec_seq's Source arm is
     clone_any(..).ok_or_else(|| anyhow!("unsupported source vec type"))? *)
  Definition stream_seq (ls : list (list Z)) (per : N) : outcome (list R) :=
    match vec_clone_any ls with Some v => Ok v | None => Err end.
  (* read_jsonl_streaming(..).collect_par(threads, partitions): the requested partition count is
     ignored by JsonlVecOps::split; split(..).unwrap_or_else(|| vec![clone_any(..).expect(..)]);
     the terminal collection concatenates the partitions in order *)
  Definition stream_par (ls : list (list Z)) (per : N) : outcome (list R) :=
    match vec_split ls (build_shards ls per) with
    | Some parts => Ok (concat parts)
    | None => match vec_clone_any ls with Some v => Ok v | None => Panic end
    end.

  (* write_jsonl_vec: for item in data { to_writer(w, item); w.write_all(b"\n") } *)
  Definition write_all (rs : list R) : list Z := concat (map (fun r => ser r ++ [10]) rs).

  (* write_jsonl_par with the shard computation as a parameter (par_ranges now, par_ranges_old
     before the repair): n == 0 => empty file; part file i = write_all(&data[start..end]) (an
     invalid slice panics inside the rayon closure, the panic propagates); the final file is the
     concatenation of the part files in index order. `shards` is the unwrapped request. *)
  Definition write_par_with (rangesf : N -> N -> list range) (rs : list R) (shards : N)
    : outcome (list Z) :=
    let n := nlen rs in
    if (n =? 0)%N then Ok []
    else match otraverse (slice_checked rs) (rangesf n shards) with
         | None => Panic
         | Some parts => Ok (concat (map write_all parts))
         end.
  Definition write_par := write_par_with par_ranges.
  Definition write_par_old := write_par_with par_ranges_old.
End Jsonl.

(* ---------- CSV ---------- *)
Section Csv.
  Context {R : Type}.
  (* csv_out h rs = the bytes a fresh csv::Writer built with has_headers(h) has produced after
     serialize(r) for every r of rs and flush() *)
  Variable csv_out : bool -> list R -> list Z.

  Definition csv_write_seq (h : bool) (rs : list R) : list Z := csv_out h rs.

  (* write_csv_par: n == 0 => empty file; ranges = split_ranges(n, shard_count); buffer of
     (idx, start, end) = csv_out (has_headers && idx == 0) (&data[start..end]); buffers are written
     in idx order (they are produced in that order, idx is strictly increasing) *)
  Definition csv_write_par (h : bool) (rs : list R) (shards : N) : outcome (list Z) :=
    let n := nlen rs in
    if (n =? 0)%N then Ok []
    else match otraverse
                 (fun ir : N * range =>
                    match slice_checked rs (snd ir) with
                    | Some part => Some (csv_out (h && (fst ir =? 0)%N) part)
                    | None => None
                    end)
                 (split_ranges n (csv_shard_count n shards)) with
         | None => Panic
         | Some bufs => Ok (concat bufs)
         end.
End Csv.

(* ---------- row based sources (CSV data rows; any source whose shards are row ranges) ---------- *)
Section Rows.
  Context {R : Type}.
  (* read_csv_range(src, start, end): rows with index in [start, end) *)
  Definition rows_read_range (rows : list R) (r : range) : list R := slice rows r.
  Definition rows_stream_seq (rows : list R) (per : N) : list R := rows_read_range rows (0%N, nlen rows).
  Definition rows_stream_par (rows : list R) (per : N) : list R :=
    concat (map (rows_read_range rows) (ranges (nlen rows) per)).

  (* Parquet: the file is a list of row groups; read_parquet_row_group_range(s, a, b) = rows of
     groups a..b; ParquetVecOps::clone_any reads 0 .. (end of the last range, or 0) *)
  Definition pq_read (groups : list (list R)) (r : range) : list R := concat (slice groups r).
  Definition pq_whole (groups : list (list R)) : list R := concat groups.
  Definition pq_stream_seq (groups : list (list R)) (per : N) : list R :=
    let rs := group_ranges (nlen groups) per in
    pq_read groups (0%N, match rev rs with r :: _ => snd r | [] => 0%N end).
  Definition pq_stream_par (groups : list (list R)) (per : N) : list R :=
    concat (map (pq_read groups) (group_ranges (nlen groups) per)).
End Rows.

(* ---------- glob: sorted list of matching paths, contents concatenated ---------- *)
(* a path below the pattern's fixed prefix = its list of components, each a byte string;
   PathBuf's Ord compares component-wise, each component byte-wise *)
Fixpoint lex_cmp {A} (cmp : A -> A -> comparison) (a b : list A) : comparison :=
  match a, b with
  | [], [] => Eq
  | [], _ :: _ => Lt
  | _ :: _, [] => Gt
  | x :: a', y :: b' => match cmp x y with Eq => lex_cmp cmp a' b' | c => c end
  end.
Definition bytes_cmp : list Z -> list Z -> comparison := lex_cmp Z.compare.
Definition path := list (list Z).
Definition path_cmp : path -> path -> comparison := lex_cmp bytes_cmp.
Definition path_leb (a b : path) : bool := match path_cmp a b with Gt => false | _ => true end.

Fixpoint insert_by {A} (leb : A -> A -> bool) (x : A) (l : list A) : list A :=
  match l with
  | [] => [x]
  | y :: r => if leb x y then x :: l else y :: insert_by leb x r
  end.
Definition sort_by {A} (leb : A -> A -> bool) (l : list A) : list A := fold_right (insert_by leb) [] l.
(* expand_glob: the matching regular files, `result.sort()` *)
Definition sort_paths (ps : list path) : list path := sort_by path_leb ps.

Section Glob.
  Context {R : Type}.
  Variable read_file : path -> outcome (list R).   (* read_jsonl_vec / read_csv_vec / read_parquet_vec *)
  Fixpoint read_files (ps : list path) : outcome (list R) :=
    match ps with
    | [] => Ok []
    | p :: r => match read_file p with
                | Ok v => match read_files r with Ok vs => Ok (v ++ vs) | o => o end
                | Err => Err
                | Panic => Panic
                end
    end.
  (* matched = the regular files the glob library reports for the pattern, in any order *)
  Definition read_glob (matched : list path) : outcome (list R) :=
    match matched with
    | [] => Err                                   (* bail!("no files found matching pattern") *)
    | _ => read_files (sort_paths matched)
    end.
End Glob.
