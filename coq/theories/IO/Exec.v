(* C09 model, part 3: how the ENGINES of src/runner.rs consume a streamed file source, for every
   execution configuration, and the three public VecOps adapters over ARBITRARY (hand-built or
   stale) shard descriptions. Definitions only (no proofs; Proofs/ExecProofs.v).

   Rust sources transcribed:
     adapter                        trait VecOps { len, split, clone_any } applied to ONE payload
                                    (/repo/src/type_token.rs); a method result is an `outcome`:
                                    Ok x = Some(x), Err = None, Panic = the call panicked
     jsonl_adapter                  /repo/src/io/jsonl.rs   JsonlVecOps over JsonlShards { ranges, total_lines }
     rows_adapter                   /repo/src/io/csv.rs     CsvVecOps over CsvShards { ranges, total_rows }
     pq_read_checked, pq_adapter    /repo/src/io/parquet.rs read_parquet_row_group_range, ParquetVecOps over
                                    ParquetShards { group_ranges, total_rows }
     exec_source                    /repo/src/runner.rs  the `Node::Source` arm of exec_seq,
                                    exec_seq_with_checkpointing (clone_any) and the head of exec_par
                                    (split, else clone_any().expect()), exec_par_with_checkpointing
                                    (= exec_par), followed by the terminal collection
     subplan_source                 /repo/src/runner.rs  run_subplan_seq / run_subplan_par (a source
                                    that is one side of a CoGroup / join)
     join_side_ids                  /repo/src/helpers/joins.rs join_inner: coalesce_left/right =
                                    concatenation of the partitions, then the hash join; observed
                                    up to order (HashMap iteration), hence sorted
   The payload of a source is built ONCE (build_*_shards: ranges and total of the file as it was
   then); every collect re-reads the file as it is NOW: the adapters below take the ranges / total
   and the current content as separate arguments. *)
From Coq Require Import List ZArith NArith Bool.
From IB Require Import IO.Shards IO.Jsonl.
Import ListNotations.
Open Scope N_scope.

(* ---------- the three trait methods on one payload ---------- *)
Record adapter (R : Type) : Type := mk_adapter {
  ad_len : option N;                        (* VecOps::len *)
  ad_split : N -> outcome (list (list R));  (* VecOps::split(payload, n) -- the file adapters ignore n *)
  ad_clone : outcome (list R)               (* VecOps::clone_any *)
}.
Arguments mk_adapter {R} _ _ _.
Arguments ad_len {R} _.
Arguments ad_split {R} _.
Arguments ad_clone {R} _.

(* sequencing `for r in ranges { parts.push(read(r).ok()?) }`: the first failing read makes the
   method return None (Err) -- or panic, when the read itself panics *)
Fixpoint otraverse_o {A B} (f : A -> outcome B) (l : list A) : outcome (list B) :=
  match l with
  | [] => Ok []
  | x :: r => match f x with
              | Ok y => match otraverse_o f r with Ok ys => Ok (y :: ys) | o => o end
              | Err => Err
              | Panic => Panic
              end
  end.

Section Adapters.
  Context {R : Type}.

  (* JsonlVecOps: split = one read_jsonl_range per range, `.ok()?`; clone_any =
     read_jsonl_range(s, 0, s.total_lines).ok(); len = usize::try_from(total_lines).ok() *)
  Definition jsonl_adapter (de : list Z -> option R) (ls : list (list Z)) (rs : list range) (total : N)
    : adapter R :=
    mk_adapter (Some total)
               (fun _ => otraverse_o (read_range de ls) rs)
               (read_range de ls (0, total)).

  (* CsvVecOps over the deserialised data rows of the current file (a row that fails to
     deserialise is outside this model: the csv crate is a library) *)
  Definition rows_adapter (rows : list R) (rs : list range) (total : N) : adapter R :=
    mk_adapter (Some total)
               (fun _ => Ok (map (rows_read_range rows) rs))
               (Ok (rows_read_range rows (0, total))).

  (* read_parquet_row_group_range(s, a, b): `(a..b).collect()` row-group indices handed to
     ParquetRecordBatchReaderBuilder::with_row_groups; an index that is not a row group of the
     file makes the parquet crate panic (library behaviour, sampled by the `vo` / `g2` cases);
     an empty selection (b <= a) reads nothing *)
  Definition pq_read_checked (groups : list (list R)) (r : range) : outcome (list R) :=
    if snd r <=? fst r then Ok []
    else if snd r <=? nlen groups then Ok (pq_read groups r)
    else Panic.
  Definition last_end (rs : list range) : N := match rev rs with r :: _ => snd r | [] => 0 end.
  (* ParquetVecOps: split = one range read per shard; clone_any = groups 0 .. end of the LAST range *)
  Definition pq_adapter (groups : list (list R)) (rs : list range) (total_rows : N) : adapter R :=
    mk_adapter (Some total_rows)
               (fun _ => otraverse_o (pq_read_checked groups) rs)
               (pq_read_checked groups (0, last_end rs)).

  (* read_csv_range as the index loop it is:
       for (i, rec) in rdr.deserialize().enumerate() { if i < start { continue } if i >= end { break } out.push(rec?) }
     (Proofs/ExecProofs.v rows_loop_is_slice: this is rows_read_range = slice, for every start / end,
     inverted and out-of-file ones included) *)
  Fixpoint rows_read_loop (i : N) (rows : list R) (s e : N) : list R :=
    match rows with
    | [] => []
    | x :: r =>
        if i <? s then rows_read_loop (i + 1) r s e
        else if e <=? i then []
        else x :: rows_read_loop (i + 1) r s e
    end.

  (* VecOpsImpl<T> (the adapter of from_vec collections, /repo/src/type_token.rs):
       split(v, n): if n <= 1 || len <= 1 { vec![v.clone()] } else { v.chunks(len.div_ceil(n)) }
       clone_any = v.clone(); len = v.len() *)
  Fixpoint chunks_fuel (fuel : nat) (k : nat) (l : list R) : list (list R) :=
    match fuel with
    | O => []
    | S f => match l with
             | [] => []
             | _ => firstn k l :: chunks_fuel f k (skipn k l)
             end
    end.
  Definition chunks (k : nat) (l : list R) : list (list R) := chunks_fuel (length l) k l.
  Definition mem_split (v : list R) (n : N) : list (list R) :=
    if (n <=? 1) || (nlen v <=? 1) then [v]
    else chunks (N.to_nat (div_ceil (nlen v) n)) v.
  Definition mem_adapter (v : list R) : adapter R :=
    mk_adapter (Some (nlen v)) (fun n => Ok (mem_split v n)) (Ok v).

  (* the payloads read_*_streaming builds for a file whose content does not change afterwards *)
  Definition jsonl_source (de : list Z -> option R) (ls : list (list Z)) (per : N) : adapter R :=
    jsonl_adapter de ls (build_shards ls per) (total_lines ls).
  Definition rows_source (rows : list R) (per : N) : adapter R :=
    rows_adapter rows (ranges (nlen rows) per) (nlen rows).
  Definition pq_source (groups : list (list R)) (per : N) : adapter R :=
    pq_adapter groups (group_ranges (nlen groups) per) (nlen (concat groups)).
End Adapters.

(* ---------- the four engines ---------- *)
Inductive engine : Type :=
| ESeq       (* exec_seq:                       collect_seq, collect, Runner{Sequential, checkpoint off} *)
| EPar       (* exec_par:                       collect_par, Runner{Parallel, checkpoint off} *)
| ESeqCk     (* exec_seq_with_checkpointing:    Runner{Sequential, checkpoint_config enabled} *)
| EParCk.    (* exec_par_with_checkpointing:    Runner{Parallel, checkpoint_config enabled} *)
Definition engine_par (e : engine) : bool :=
  match e with EPar | EParCk => true | _ => false end.
Definition all_engines : list engine := [ESeq; EPar; ESeqCk; EParCk].

Section Engines.
  Context {R : Type}.

  (* exec_par / run_subplan_par:  let total_len = vec_ops.len(payload).unwrap_or(0);
                                  let parts = partitions.max(1).min(total_len.max(1)); *)
  Definition par_parts (partitions : N) (a : adapter R) : N :=
    N.min (N.max partitions 1) (N.max (match ad_len a with Some l => l | None => 0 end) 1).

  (* The Source arm (`partitions` = the count the Runner resolved: requested, else suggested by the
     planner, else default_partitions; unused by the sequential engines).
     sequential engines:  vec_ops.clone_any(payload).ok_or_else(|| anyhow!("unsupported source vec type"))?
     parallel engines:    vec_ops.split(payload, parts).unwrap_or_else(|| vec![clone_any(payload).expect(..)])
     The result is the list of partitions the rest of the chain is applied to. *)
  Definition source_parts (e : engine) (partitions : N) (a : adapter R) : outcome (list (list R)) :=
    if engine_par e then
      match ad_split a (par_parts partitions a) with
      | Ok parts => Ok parts
      | Panic => Panic
      | Err => match ad_clone a with Ok v => Ok [v] | _ => Panic end
      end
    else
      match ad_clone a with Ok v => Ok [v] | Err => Err | Panic => Panic end.

  (* a pipeline that is just the source (or the source followed by stateless identity steps): the
     terminal collection concatenates the partitions in order (zero partitions = empty result) *)
  Definition exec_source (e : engine) (partitions : N) (a : adapter R) : outcome (list R) :=
    match source_parts e partitions a with Ok parts => Ok (concat parts) | Err => Err | Panic => Panic end.

  (* a source that is one side of a join: run_subplan_seq / run_subplan_par have the same Source
     arms; the checkpointing engines call the same two functions *)
  Definition subplan_source (e : engine) (partitions : N) (a : adapter R) : outcome (list (list R)) :=
    source_parts e partitions a.

  (* NOT the code: the Source arm of seeded change C09-r4m2 ("the sequential engine materialises
     the source as split(payload, 1), first partition"). Kept to document why no in-memory test can
     see it (Props/C09.v c09_first_split_refuted). *)
  Definition source_first_split (a : adapter R) : outcome (list R) :=
    match ad_split a 1 with
    | Ok (p :: _) => Ok p
    | Ok [] => Err
    | Err => Err
    | Panic => Panic
    end.
End Engines.

(* ---------- inner join of a streamed side (unique or repeated ids) with an in-memory side ----------
   Each streamed record with key k meets every in-memory row with key k; the harness reports the
   keys of the result sorted. *)
Definition count_key (k : Z) (keys : list Z) : nat := length (filter (Z.eqb k) keys).
Definition join_keys (streamed other : list Z) : list Z :=
  sort_by Z.leb (flat_map (fun k => repeat k (count_key k other)) streamed).
Definition join_side_ids (e : engine) (partitions : N) (a : adapter Z) (other : list Z) : outcome (list Z) :=
  match subplan_source e partitions a with
  | Ok parts => Ok (join_keys (concat parts) other)
  | Err => Err
  | Panic => Panic
  end.

(* "the whole-file read, as this engine reports a failure": the sequential engines return Err, the
   parallel ones panic (clone_any().expect()) *)
Definition engine_fail {A} (e : engine) : outcome A := if engine_par e then Panic else Err.
Definition lift_whole {A} (e : engine) (whole : outcome A) : outcome A :=
  match whole with Ok v => Ok v | _ => engine_fail e end.
