(* Model of the compression layer of ironbeam: src/io/compression.rs and its call sites.
   Definitions only (no proofs): small total computable functions transcribing the Rust code.

   Bytes are integers (0..255 for real data; nothing below depends on the bound), paths and
   file contents are byte lists.  Paths: the Rust code lower-cases the *whole* path with
   `str::to_lowercase` (Unicode); the model lower-cases ASCII letters only.  The two agree on
   ASCII paths, which is what the correspondence harness generates (plus a handful of UTF-8
   names, on which they also agree as far as the suffix test is concerned, because every
   extension consists of ASCII characters none of which is the lower-case image of a non-ASCII
   character).  The Rust functions see `dir/name`; the model is given `name` (or the object
   key): no extension contains '/', so the suffix test gives the same answer. *)
From Coq Require Import List ZArith Bool.
Import ListNotations.
Open Scope Z_scope.

Definition bytes := list Z.

(* ---------- byte-string helpers ---------- *)

(* slice::starts_with *)
Fixpoint starts_with (p s : bytes) : bool :=
  match p, s with
  | [], _ => true
  | _ :: _, [] => false
  | x :: p', y :: s' => (x =? y) && starts_with p' s'
  end.

(* str::ends_with *)
Definition ends_with (suf s : bytes) : bool := starts_with (rev suf) (rev s).

(* str::to_lowercase restricted to ASCII: 'A'..'Z' (65..90) -> 'a'..'z' *)
Definition lower_byte (b : Z) : Z := if (65 <=? b) && (b <=? 90) then b + 32 else b.
Definition lower (s : bytes) : bytes := map lower_byte s.

(* ---------- the codec table (init_registry, registry order) ---------- *)

Inductive codec := Gzip | Zstd | Bzip2 | Xz.

Definition codec_eqb (a b : codec) : bool :=
  match a, b with
  | Gzip, Gzip | Zstd, Zstd | Bzip2, Bzip2 | Xz, Xz => true
  | _, _ => false
  end.

(* init_registry(): vec![GzipCodec, ZstdCodec, Bzip2Codec, XzCodec] (all four features on) *)
Definition registry : list codec := [Gzip; Zstd; Bzip2; Xz].

(* ASCII codes: '.'=46 '2'=50 'b'=98 'd'=100 'g'=103 'i'=105 'p'=112 's'=115 't'=116 'x'=120
   'z'=122 *)
(* {Gzip,Zstd,Bzip2,Xz}Codec::extensions *)
Definition extensions (c : codec) : list bytes :=
  match c with
  | Gzip  => [[46; 103; 122];                    (* ".gz"    *)
              [46; 103; 122; 105; 112]]          (* ".gzip"  *)
  | Zstd  => [[46; 122; 115; 116];               (* ".zst"   *)
              [46; 122; 115; 116; 100]]          (* ".zstd"  *)
  | Bzip2 => [[46; 98; 122; 50];                 (* ".bz2"   *)
              [46; 98; 122; 105; 112; 50]]       (* ".bzip2" *)
  | Xz    => [[46; 120; 122]]                    (* ".xz"    *)
  end.

(* {Gzip,Zstd,Bzip2,Xz}Codec::magic_bytes (all four return Some) *)
Definition magic (c : codec) : bytes :=
  match c with
  | Gzip  => [31; 139]                           (* 0x1f 0x8b *)
  | Zstd  => [40; 181; 47; 253]                  (* 0x28 0xb5 0x2f 0xfd *)
  | Bzip2 => [66; 90; 104]                       (* 0x42 0x5a 0x68 *)
  | Xz    => [253; 55; 122; 88; 90; 0]           (* 0xfd 0x37 0x7a 0x58 0x5a 0x00 *)
  end.

(* The REAL format signatures, from the format specifications (not from the Rust code):
   gzip RFC 1952 ID1 ID2 = 1f 8b; zstd RFC 8878 magic number 0xFD2FB528 little-endian;
   bzip2 "BZ" + 'h' (Huffman) ; xz file format 1.0.4 header magic FD "7zXZ" 00. *)
Definition signature (c : codec) : bytes :=
  match c with
  | Gzip  => [31; 139]
  | Zstd  => [40; 181; 47; 253]
  | Bzip2 => [66; 90; 104]
  | Xz    => [253; 55; 122; 88; 90; 0]
  end.

(* ---------- detection ---------- *)

(* inner loop of detect_from_extension: `codec.extensions().any(|e| path_str.ends_with(e))` *)
Definition has_ext (c : codec) (path : bytes) : bool :=
  existsb (fun e => ends_with e (lower path)) (extensions c).

(* detect_from_extension: first codec in registry order with a matching extension *)
Definition detect_ext (path : bytes) : option codec :=
  find (fun c => has_ext c path) registry.

(* BufReader::new(reader): capacity 8 KiB; fill_buf on a fresh BufReader over a regular file or
   a Cursor returns the first min(8192, len) bytes (library contract, see props/C10.json). *)
Definition buf_capacity : nat := Z.to_nat 8192.
Definition peek (content : bytes) : bytes := firstn buf_capacity content.

(* detect_from_magic: empty buffer -> None; else first codec whose magic fits and is a prefix *)
Definition detect_magic (content : bytes) : option codec :=
  let buf := peek content in
  match buf with
  | [] => None
  | _ => find (fun c => (length (magic c) <=? length buf)%nat && starts_with (magic c) buf)
              registry
  end.

(* auto_detect_reader: extension first, magic bytes second, else pass through *)
Definition reader_codec (path content : bytes) : option codec :=
  match detect_ext path with
  | Some c => Some c
  | None => detect_magic content
  end.

(* auto_detect_writer: extension only *)
Definition writer_codec (path : bytes) : option codec := detect_ext path.

(* write_cloud_jsonl_vec has its own hard-coded suffix table (io/cloud/readers.rs): an if/else-if
   chain over `has_suffix(&[..])` on `key.to_lowercase()`, in this order. *)
Definition cloud_suffixes : list (codec * list bytes) :=
  [(Gzip,  [[46; 103; 122]; [46; 103; 122; 105; 112]]);
   (Zstd,  [[46; 122; 115; 116]; [46; 122; 115; 116; 100]]);
   (Bzip2, [[46; 98; 122; 50]; [46; 98; 122; 105; 112; 50]]);
   (Xz,    [[46; 120; 122]])].
Definition cloud_writer_codec (key : bytes) : option codec :=
  match find (fun cs => existsb (fun s => ends_with s (lower key)) (snd cs)) cloud_suffixes with
  | Some cs => Some (fst cs)
  | None => None
  end.

(* ---------- entry points ---------- *)

(* which detection a public entry point goes through *)
Inductive detection :=
| DExt        (* auto_detect_writer *)
| DExtMagic   (* auto_detect_reader *)
| DCloudTable (* the suffix table of write_cloud_jsonl_vec *)
| DNone.      (* no codec layer at all *)

Inductive writer_ep :=
| WJsonlVec      (* io::jsonl::write_jsonl_vec *)
| WJsonlPar      (* io::jsonl::write_jsonl_par: n = 0 `touch` and the final concatenation *)
| WPcJsonl       (* PCollection::write_jsonl      = collect_seq + write_jsonl_vec *)
| WPcJsonlPar    (* PCollection::write_jsonl_par  = collect_seq + write_jsonl_par *)
| WCsvVec        (* io::csv::write_csv_vec *)
| WCsv           (* io::csv::write_csv            = write_csv_vec *)
| WCsvPar        (* io::csv::write_csv_par: n = 0 and the final concatenation *)
| WPcCsv         (* PCollection::write_csv        = collect_seq + write_csv_vec *)
| WPcCsvPar      (* PCollection::write_csv_par    = collect_par + write_csv_vec *)
| WCloudJsonl    (* io::cloud::readers::write_cloud_jsonl_vec *)
| WParquetVec.   (* io::parquet::write_parquet_vec: File::create, no codec layer *)

Inductive reader_ep :=
| RJsonlVec        (* io::jsonl::read_jsonl_vec *)
| RJsonlRange      (* build_jsonl_shards + read_jsonl_range *)
| RPcJsonl         (* helpers::jsonl::read_jsonl, single path = read_jsonl_vec *)
| RPcJsonlGlob     (* helpers::jsonl::read_jsonl, glob = read_jsonl_vec per file *)
| RJsonlStreamSeq  (* read_jsonl_streaming + collect_seq (JsonlVecOps::clone_any) *)
| RJsonlStreamPar  (* read_jsonl_streaming + collect_par (JsonlVecOps::split) *)
| RCsvVec          (* io::csv::read_csv_vec *)
| RCsvRange        (* build_csv_shards + read_csv_range *)
| RPcCsv           (* helpers::csv::read_csv, single path *)
| RPcCsvGlob       (* helpers::csv::read_csv, glob *)
| RCsvStreamSeq    (* read_csv_streaming + collect_seq *)
| RCsvStreamPar    (* read_csv_streaming + collect_par *)
| RCloudJsonl      (* read_cloud_jsonl_vec: Cursor over the object + auto_detect_reader(key) *)
| RCloudJsonlGlob  (* read_cloud_jsonl_glob = read_cloud_jsonl_vec per key *)
| RParquetVec.     (* io::parquet::read_parquet_vec: File::open, no codec layer *)

Definition writer_detection (w : writer_ep) : detection :=
  match w with
  | WCloudJsonl => DCloudTable
  | WParquetVec => DNone
  | _ => DExt
  end.

Definition reader_detection (r : reader_ep) : detection :=
  match r with
  | RParquetVec => DNone
  | _ => DExtMagic
  end.

Definition writer_detects (w : writer_ep) : bool :=
  match writer_detection w with DNone => false | _ => true end.
Definition reader_detects (r : reader_ep) : bool :=
  match reader_detection r with DNone => false | _ => true end.

(* the codec an entry point applies *)
Definition ep_writer_codec (w : writer_ep) (path : bytes) : option codec :=
  match writer_detection w with
  | DExt | DExtMagic => writer_codec path
  | DCloudTable => cloud_writer_codec path
  | DNone => None
  end.

Definition ep_reader_codec (r : reader_ep) (path content : bytes) : option codec :=
  match reader_detection r with
  | DExtMagic => reader_codec path content
  | DExt | DCloudTable => detect_ext path
  | DNone => None
  end.

(* ---------- stored bytes and what a reader hands to the parser ----------
   The codecs themselves are library code: abstract `enc` / `dec` (dec may fail). `b` is the
   serialised text (JSON lines / CSV / parquet bytes); record <-> text is property C09. *)
Section Codecs.
  Variable enc : codec -> bytes -> bytes.
  Variable dec : codec -> bytes -> option bytes.

  Definition write (w : writer_ep) (path b : bytes) : bytes :=
    match ep_writer_codec w path with
    | Some c => enc c b
    | None => b
    end.

  Definition read (r : reader_ep) (path stored : bytes) : option bytes :=
    match ep_reader_codec r path stored with
    | Some c => dec c stored
    | None => Some stored
    end.
End Codecs.

(* ====================================================================================
   The registry as process-wide state: CODEC_REGISTRY, get_registry, register_codec.
   Everything above is the registry of a process in which `register_codec` is never called
   (`registry`); below, detection is parameterised by the registry contents.
   ==================================================================================== *)

(* identity of a registered codec: a built-in one or the k-th custom one (harness numbering) *)
Inductive cid := CBuiltin (c : codec) | CCustom (k : nat).

(* what detection looks at: CompressionCodec::extensions / magic_bytes *)
Record centry := { ce_id : cid; ce_exts : list bytes; ce_magic : option bytes }.

Definition builtin_entry (c : codec) : centry :=
  {| ce_id := CBuiltin c; ce_exts := extensions c; ce_magic := Some (magic c) |}.
(* init_registry() *)
Definition builtin_entries : list centry := map builtin_entry registry.

(* CODEC_REGISTRY : RwLock<Option<Vec<..>>>, initially None *)
Definition reg_state := option (list centry).
Inductive reg_op :=
| OpGet                      (* get_registry(): every detect_from_extension / detect_from_magic *)
| OpRegister (e : centry).   (* register_codec(e) *)

(* both functions: `if lock.is_none() { *lock = Some(init_registry()) }`, then clone / push *)
Definition reg_init (st : reg_state) : list centry :=
  match st with None => builtin_entries | Some l => l end.
Definition reg_step (st : reg_state) (op : reg_op) : reg_state :=
  match op with
  | OpGet => Some (reg_init st)
  | OpRegister e => Some (reg_init st ++ [e])
  end.
Definition reg_run (ops : list reg_op) : reg_state := fold_left reg_step ops None.
(* what the next get_registry() returns *)
Definition reg_view (st : reg_state) : list centry := reg_init st.
Definition registered (ops : list reg_op) : list centry :=
  flat_map (fun op => match op with OpRegister e => [e] | OpGet => [] end) ops.
(* the registry of a process that registered `customs` (in this order), whenever it did so *)
Definition registry_after (customs : list centry) : list centry := builtin_entries ++ customs.

(* `codec.extensions().any(|e| path_str.ends_with(e))` for an arbitrary registered codec
   (a custom extension that is not lower-case can never match: the path is lower-cased, the
   extension is used as given) *)
Definition entry_has_ext (e : centry) (path : bytes) : bool :=
  existsb (fun x => ends_with x (lower path)) (ce_exts e).
(* `magic_bytes() = Some(m) && buf.len() >= m.len() && buf.starts_with(m)` *)
Definition entry_has_magic (e : centry) (buf : bytes) : bool :=
  match ce_magic e with
  | Some m => (length m <=? length buf)%nat && starts_with m buf
  | None => false
  end.

Definition detect_ext_in (reg : list centry) (path : bytes) : option cid :=
  option_map ce_id (find (fun e => entry_has_ext e path) reg).

Definition detect_magic_in (reg : list centry) (content : bytes) : option cid :=
  let buf := peek content in
  match buf with
  | [] => None
  | _ => option_map ce_id (find (fun e => entry_has_magic e buf) reg)
  end.

Definition reader_codec_in (reg : list centry) (path content : bytes) : option cid :=
  match detect_ext_in reg path with
  | Some c => Some c
  | None => detect_magic_in reg content
  end.

(* entry points; write_cloud_jsonl_vec keeps its hard-coded table: it never uses a custom codec *)
Definition ep_writer_codec_in (reg : list centry) (w : writer_ep) (path : bytes) : option cid :=
  match writer_detection w with
  | DExt | DExtMagic => detect_ext_in reg path
  | DCloudTable => option_map CBuiltin (cloud_writer_codec path)
  | DNone => None
  end.

Definition ep_reader_codec_in (reg : list centry) (r : reader_ep) (path content : bytes)
  : option cid :=
  match reader_detection r with
  | DExtMagic => reader_codec_in reg path content
  | DExt | DCloudTable => detect_ext_in reg path
  | DNone => None
  end.

Section CodecsIn.
  Variable enc : cid -> bytes -> bytes.
  Variable dec : cid -> bytes -> option bytes.

  Definition write_in (reg : list centry) (w : writer_ep) (path b : bytes) : bytes :=
    match ep_writer_codec_in reg w path with
    | Some c => enc c b
    | None => b
    end.

  Definition read_in (reg : list centry) (r : reader_ep) (path stored : bytes) : option bytes :=
    match ep_reader_codec_in reg r path stored with
    | Some c => dec c stored
    | None => Some stored
    end.
End CodecsIn.
