(* Model of what `compute_checksum` (src/checkpoint.rs) runs: SHA-256.
   Definitions only; proofs are in Proofs/CkptSha256.v.

     sha256_spec data           FIPS 180-4 section 6.2, one shot: pad the whole message (5.1.1), cut it into
                                64-byte blocks (5.2.1), fold the compression function over them from
                                the initial hash value (5.3.3), emit the 8 words big-endian.
     sha_new / sha_update / sha_finalize
                                the STREAMING hasher the Rust code drives (`Sha256::new()`,
                                `Digest::update`, `Digest::finalize`), transcribed from
                                sha2-0.10 `Sha256VarCore` + block-buffer-0.10 `BlockBuffer<U64, Eager>`
                                (`digest_blocks`, `len64_padding_be`): a 64-byte buffer that is
                                compressed as soon as it is full, a block counter, and the padding
                                written into the buffer at `finalize`.
     sha256 data                = sha_finalize (sha_update sha_new data): the body of compute_checksum
                                before the `{:x}` formatting (Store.compute_checksum sha256 data is the
                                whole function).
   A byte is a Z in 0..255. *)
From Coq Require Import List ZArith Bool Uint63.
From IB Require Import Ckpt.Bincode.
Import ListNotations.
Open Scope Z_scope.
Local Open Scope uint63_scope.

(* words are native 63-bit machine integers (Coq's primitive Uint63) holding values below 2^32 *)
Definition mask32 : int := 0xffffffff%uint63.
Definition add32 (a b : int) : int := (a + b) land mask32.
Definition rotr (n x : int) : int := (x >> n) lor ((x << (32 - n)) land mask32).
Definition shr (n x : int) : int := x >> n.
Definition not32 (x : int) : int := x lxor mask32.

(* FIPS 180-4 4.1.2 *)
Definition ch (x y z : int) : int := (x land y) lxor (not32 x land z).
Definition maj (x y z : int) : int := ((x land y) lxor (x land z)) lxor (y land z).
Definition bsig0 (x : int) : int := (rotr 2 x lxor rotr 13 x) lxor rotr 22 x.
Definition bsig1 (x : int) : int := (rotr 6 x lxor rotr 11 x) lxor rotr 25 x.
Definition ssig0 (x : int) : int := (rotr 7 x lxor rotr 18 x) lxor shr 3 x.
Definition ssig1 (x : int) : int := (rotr 17 x lxor rotr 19 x) lxor shr 10 x.

(* FIPS 180-4 4.2.2 *)
Definition sha_k : list int :=
  [0x428a2f98; 0x71374491; 0xb5c0fbcf; 0xe9b5dba5; 0x3956c25b; 0x59f111f1; 0x923f82a4; 0xab1c5ed5;
   0xd807aa98; 0x12835b01; 0x243185be; 0x550c7dc3; 0x72be5d74; 0x80deb1fe; 0x9bdc06a7; 0xc19bf174;
   0xe49b69c1; 0xefbe4786; 0x0fc19dc6; 0x240ca1cc; 0x2de92c6f; 0x4a7484aa; 0x5cb0a9dc; 0x76f988da;
   0x983e5152; 0xa831c66d; 0xb00327c8; 0xbf597fc7; 0xc6e00bf3; 0xd5a79147; 0x06ca6351; 0x14292967;
   0x27b70a85; 0x2e1b2138; 0x4d2c6dfc; 0x53380d13; 0x650a7354; 0x766a0abb; 0x81c2c92e; 0x92722c85;
   0xa2bfe8a1; 0xa81a664b; 0xc24b8b70; 0xc76c51a3; 0xd192e819; 0xd6990624; 0xf40e3585; 0x106aa070;
   0x19a4c116; 0x1e376c08; 0x2748774c; 0x34b0bcb5; 0x391c0cb3; 0x4ed8aa4a; 0x5b9cca4f; 0x682e6ff3;
   0x748f82ee; 0x78a5636f; 0x84c87814; 0x8cc70208; 0x90befffa; 0xa4506ceb; 0xbef9a3f7; 0xc67178f2]%uint63.

(* FIPS 180-4 5.3.3 *)
Record hstate := mk_h { ha : int; hb : int; hc : int; hd : int; he : int; hf : int; hg : int; hh : int }.
Definition sha_h0 : hstate :=
  mk_h 0x6a09e667 0xbb67ae85 0x3c6ef372 0xa54ff53a 0x510e527f 0x9b05688c 0x1f83d9ab 0x5be0cd19.

(* four bytes, big-endian, to a word; a word to four bytes *)
Definition byte_int (b : Z) : int := Uint63.of_Z b land 255.
Fixpoint be_words (l : bytes) : list int :=
  match l with
  | b0 :: b1 :: b2 :: b3 :: r =>
      ((byte_int b0 << 24) lor (byte_int b1 << 16) lor (byte_int b2 << 8) lor byte_int b3) :: be_words r
  | _ => []
  end.
Definition word_bytes (w : int) : bytes :=
  [Z.land (Uint63.to_Z (w >> 24)) 255%Z; Z.land (Uint63.to_Z (w >> 16)) 255%Z;
   Z.land (Uint63.to_Z (w >> 8)) 255%Z; Z.land (Uint63.to_Z w) 255%Z].

(* 6.2.2 step 1: the message schedule. `w` is the window W[t-16 .. t-1] (oldest first); emits
   W[t], W[t+1], ... for n steps *)
Fixpoint schedule (n : nat) (w : list int) : list int :=
  match n with
  | O => []
  | S n' =>
      match w with
      | w0 :: rest =>
          let next := add32 (add32 (ssig1 (nth 13 rest 0)) (nth 8 rest 0))
                            (add32 (ssig0 (nth 0 rest 0)) w0) in
          w0 :: schedule n' (rest ++ [next])
      | [] => []
      end
  end.

(* 6.2.2 step 3: one round *)
Definition sha_round (s : hstate) (kw : int * int) : hstate :=
  let t1 := add32 (add32 (add32 (hh s) (bsig1 (he s))) (add32 (ch (he s) (hf s) (hg s)) (fst kw)))
                  (snd kw) in
  let t2 := add32 (bsig0 (ha s)) (maj (ha s) (hb s) (hc s)) in
  mk_h (add32 t1 t2) (ha s) (hb s) (hc s) (add32 (hd s) t1) (he s) (hf s) (hg s).

(* 6.2.2: the compression function on one 64-byte block (sha2: `compress256(state, &[block])`) *)
Definition compress (h : hstate) (block : bytes) : hstate :=
  let w := schedule 64 (be_words block) in
  let s := fold_left sha_round (combine sha_k w) h in
  mk_h (add32 (ha h) (ha s)) (add32 (hb h) (hb s)) (add32 (hc h) (hc s)) (add32 (hd h) (hd s))
       (add32 (he h) (he s)) (add32 (hf h) (hf s)) (add32 (hg h) (hg s)) (add32 (hh h) (hh s)).

Definition digest_of (h : hstate) : bytes :=
  word_bytes (ha h) ++ word_bytes (hb h) ++ word_bytes (hc h) ++ word_bytes (hd h)
  ++ word_bytes (he h) ++ word_bytes (hf h) ++ word_bytes (hg h) ++ word_bytes (hh h).

Local Close Scope uint63_scope.

(* a 64-bit number as 8 bytes, big-endian *)
Definition be64 (n : Z) : bytes :=
  [Z.land (Z.shiftr n 56) 255; Z.land (Z.shiftr n 48) 255; Z.land (Z.shiftr n 40) 255;
   Z.land (Z.shiftr n 32) 255; Z.land (Z.shiftr n 24) 255; Z.land (Z.shiftr n 16) 255;
   Z.land (Z.shiftr n 8) 255; Z.land n 255].

(* ------------------------------------------------------------------ one-shot specification *)
(* 5.1.1: 0x80, then k zero bytes with len + 1 + k = 56 (mod 64), then the bit length *)
Definition sha_pad (len : Z) : bytes :=
  128 :: repeat 0 (Z.to_nat ((55 - len) mod 64)) ++ be64 (8 * len).

(* fold the compression function over the 64-byte blocks of l; fuel >= number of blocks *)
Fixpoint hash_blocks (fuel : nat) (h : hstate) (l : bytes) : hstate :=
  match fuel with
  | O => h
  | S f =>
      match l with
      | [] => h
      | _ :: _ => hash_blocks f (compress h (firstn 64 l)) (skipn 64 l)
      end
  end.
(* enough fuel for l: one step consumes 64 bytes (written so that no unary number of the size of
   the message is built) *)
Definition blocks_fuel (l : bytes) : nat := S (Z.to_nat (Z.of_nat (length l) / 64)).

Definition sha256_spec (data : bytes) : bytes :=
  let m := data ++ sha_pad (Z.of_nat (length data)) in
  digest_of (hash_blocks (blocks_fuel m) sha_h0 m).

(* ------------------------------------------------------------------ streaming hasher *)
(* CoreWrapper<Sha256VarCore>: the hash state, the number of blocks compressed so far
   (`block_len`), and the BlockBuffer (its first `pos` bytes; always pos < 64: Eager) *)
Record hasher := mk_hasher { hs_state : hstate; hs_blocks : Z; hs_buf : bytes }.

Definition sha_new : hasher := mk_hasher sha_h0 0 [].

(* BlockBuffer::digest_blocks(input, |blocks| { block_len += blocks.len(); compress256(state, blocks) }) *)
Definition sha_update (hs : hasher) (input : bytes) : hasher :=
  let pos := length (hs_buf hs) in
  let rem := (64 - pos)%nat in
  if Nat.ltb (length input) rem then
    (* `if n < rem { buffer[pos..][..n] = input; pos += n; return }` *)
    mk_hasher (hs_state hs) (hs_blocks hs) (hs_buf hs ++ input)
  else
    (* `if pos != 0 { fill the buffer with input[..rem], compress it }` *)
    let '(st, nb, input1) :=
      match hs_buf hs with
      | [] => (hs_state hs, hs_blocks hs, input)
      | _ :: _ => (compress (hs_state hs) (hs_buf hs ++ firstn rem input), hs_blocks hs + 1,
                   skipn rem input)
      end in
    (* `let (blocks, leftover) = split_blocks(input); compress(blocks); buffer = leftover` *)
    let nfull := (length input1 / 64)%nat in
    let full := firstn (nfull * 64) input1 in
    mk_hasher (hash_blocks nfull st full) (nb + Z.of_nat nfull) (skipn (nfull * 64) input1).

(* Sha256VarCore::finalize_variable_core: bit_len = 8 * (pos + block_len * 64);
   buffer.len64_padding_be(bit_len, compress): buffer[pos] = 0x80, zero the rest; if fewer than 8
   bytes are left after the 0x80, compress and start an all-zero block; the last 8 bytes are the
   big-endian bit length; compress. *)
Definition sha_finalize (hs : hasher) : bytes :=
  let pos := length (hs_buf hs) in
  let bit_len := 8 * (Z.of_nat pos + hs_blocks hs * 64) in
  let b1 := hs_buf hs ++ [128] in
  let st :=
    if Nat.leb (length b1) 56 then
      compress (hs_state hs) (b1 ++ repeat 0 (56 - length b1) ++ be64 bit_len)
    else
      compress (compress (hs_state hs) (b1 ++ repeat 0 (64 - length b1)))
               (repeat 0 56 ++ be64 bit_len) in
  digest_of st.

(* compute_checksum(data) before formatting: new, one update with the whole slice, finalize *)
Definition sha256 (data : bytes) : bytes := sha_finalize (sha_update sha_new data).
